#!/bin/bash
# Offline setup: build the driver and warm the build cache for every engine.
set -u
cd /verif/sim || exit 1
export GOFLAGS=-mod=mod GOPROXY=off GOSUMDB=off GOTOOLCHAIN=local
GO=$(command -v go1.26.8 || echo /opt/veriftools/go1.26.8/bin/go)
mkdir -p /verif/bin /verif/evidence /verif/replays
cp -n /repo/go.sum go.sum 2>/dev/null
$GO build -o /verif/bin/vcheck ./cmd/vcheck || exit 1
for e in engines/*/; do
  n=$(basename $e)
  $GO test -c -tags verif -vet=off -o /verif/bin/$n.test ./engines/$n || exit 1
done
echo setup ok
