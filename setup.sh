#!/bin/bash
# Offline setup: build the driver and warm the Go build cache for every engine
# a registered check uses. Checks rebuild what they need themselves; a failure
# to pre-build one engine is reported but does not fail the setup of the others.
set -u
cd /verif/sim || exit 1
export GOFLAGS=-mod=mod GOPROXY=off GOSUMDB=off GOTOOLCHAIN=local
GO=$(command -v go1.26.8 || echo /opt/veriftools/go1.26.8/bin/go)
mkdir -p /verif/bin /verif/evidence /verif/replays
[ -f go.sum ] || cp /repo/go.sum go.sum
$GO build -o /verif/bin/vcheck.setup ./cmd/vcheck || exit 1
engines=$(/verif/bin/vcheck.setup list | awk '{print $2}' | sort -u)
rm -f /verif/bin/vcheck.setup
rc=0
for n in $engines; do
  if $GO test -c -tags verif -vet=off -o /dev/null ./engines/$n 2>/dev/null; then
    echo "engine $n: ok"
  else
    echo "engine $n: pre-build failed (the check will report it)"
  fi
done
echo setup ok
exit $rc
