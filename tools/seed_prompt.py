#!/usr/bin/env python3
# Prints the prompt for a fresh "seeding" sub-agent for one property: only the property's own text.
import json,sys
pid=sys.argv[1]; n=sys.argv[2] if len(sys.argv)>2 else '1'
for l in open('/verif/properties.jsonl'):
    p=json.loads(l)
    if p['id']!=pid: continue
    mech='; '.join(f"{m['name']} ({m['where']})" for m in p['anchors'].get('mechanism',[]))
    print(f"""You are a careful Go engineer playing the role of someone who accidentally (or subtly) BREAKS a semantic property of a codebase without any existing test noticing. The codebase is the Elastos ELA main-chain full node (Go), a git repository at /repo. Do NOT modify /repo itself and do NOT read or use anything under /verif (it is off limits for this exercise). Work only in your own scratch git worktree: run `git -C /repo worktree add --detach /tmp/seed-{pid}-{n} HEAD` and do everything in /tmp/seed-{pid}-{n}. Environment: no network; every shell call needs `export GOFLAGS=-mod=mod GOPROXY=off GOSUMDB=off GOTOOLCHAIN=local`; the default `go` (1.23.5) builds and tests the repo.

THE PROPERTY (this is all you get):
  Title: {p['title']}
  Statement: {p['statement']}
  Quantified over: {p['quantifier']['text']}
  Where it lives: {', '.join(p['anchors']['files'])}
  Mechanisms: {mech}

YOUR TASK: produce ONE realistic change to the repository's non-test Go code that makes the property FALSE while
  (1) the repository still compiles (`go build ./...`), and
  (2) the existing test suite of the packages you touched and of their obvious dependants still passes unchanged (run `go test -vet=off -count=1 ./<pkg>/...` for them; do not edit or delete existing tests), and
  (3) the breakage needs something SPECIFIC to manifest - a particular interleaving, a crash or fault at a particular point, a multi-step sequence of operations (e.g. a reorganisation, a reopen, a rollback), an unusual input, or two cooperating sites that each look fine alone. NOT something ordinary use would expose at once (not "always return an error", not a crash on every call). Think of a plausible refactoring slip, an off-by-one at a boundary, a forgotten case in a rollback path, a cache not invalidated on one path, an ordering change, a missing sync, a condition that is subtly too weak.
  Keep the change small (a few lines, at most two sites) and plausible as a real commit.

DELIVERABLES, all inside /tmp/seed-{pid}-{n}/SEED/ (create it):
  - patch.diff : `git diff` of your change against HEAD (relative to the repo root; must apply with `git apply` on a clean checkout of HEAD). The patch must NOT contain the demonstration.
  - a demonstration: a new Go test file (give its intended path in the repo, e.g. database/ffldb/seed_demo_test.go, and put a copy in SEED/) or a small program, that FAILS with your change applied and PASSES without it. It may use package-internal access (same-package _test.go). It must be deterministic and finish in under 2 minutes.
  - meta.json : {{"property": "{pid}", "summary": "<one sentence: what was changed>", "needs": "<what specific interleaving/fault/sequence/input is needed for it to manifest>", "files_changed": [...], "demo": "<path of the demo test in the repo and the go test command to run it>", "ran": ["<commands you ran and their outcome, briefly>"]}}
IMPORTANT: never use `git stash` (the stash is shared by every worktree of /repo and other engineers are working in parallel): to switch your change off and on use `git apply -R SEED/patch.diff` and `git apply SEED/patch.diff`. Verify all of it yourself: with the patch applied -> build ok, existing tests of touched packages pass, demo FAILS; with the patch reverted (git apply -R SEED/patch.diff) -> demo PASSES. Report the three file paths and a 5-line summary at the end. Leave the worktree in place (with the patch applied) when you finish; do not commit anything anywhere.""")
