#!/bin/bash
# Regenerate MANIFEST.json from the COMMITTED state of /verif (other work may be in progress in the
# working tree), copy it back and commit it.
set -e
cd /verif
rm -rf /tmp/vsnap; git worktree prune
git worktree add --detach /tmp/vsnap HEAD >/dev/null 2>&1
(cd /tmp/vsnap && ./check manifest)
cp /tmp/vsnap/MANIFEST.json /verif/MANIFEST.json
git worktree remove --force /tmp/vsnap
git add MANIFEST.json
git commit -qm "MANIFEST regenerated" || true
python3-vt /verif/tools/validate.py | head -3
