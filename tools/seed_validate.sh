#!/bin/bash
# tools/seed_validate.sh <seed-worktree> <Cxx> <n>   e.g. tools/seed_validate.sh /tmp/seed-C17-1 C17 1
# Confirms a seeded change independently (applies to /repo HEAD in a fresh scratch worktree: builds, touched packages'
# existing tests pass, demo fails with / passes without the change), stores it under /verif/seeded/<Cxx>-<n>/ and runs
# the property's check against it through tools/mutant.sh. Prints a summary; never touches /repo itself.
set -u
SW=$1; PROP=$2; N=$3
export GOFLAGS=-mod=mod GOPROXY=off GOSUMDB=off GOTOOLCHAIN=local
D=/verif/seeded/$PROP-$N
mkdir -p "$D"
cp "$SW"/SEED/patch.diff "$SW"/SEED/meta.json "$D"/ 2>/dev/null
for f in "$SW"/SEED/*; do case "$f" in *patch.diff|*meta.json) ;; *) cp "$f" "$D"/;; esac; done
DEMO=$(ls "$D" | grep -v -e patch.diff -e meta.json -e verdict | head -1)
DEMOPATH=$(python3 -c "
import json,re
m=json.load(open('$D/meta.json')); d=m.get('demo','')
mm=re.search(r'([\w/\.-]+_test\.go)', d); print(mm.group(1) if mm else '')")
W=$(mktemp -d /tmp/sv-XXXXXX)
trap 'git -C /repo worktree remove --force "$W/repo" >/dev/null 2>&1; rm -rf "$W"; git -C /repo worktree prune' EXIT
git -C /repo worktree add --detach "$W/repo" HEAD >/dev/null 2>&1 || { echo "SEED: worktree failed"; exit 2; }
cd "$W/repo"
if ! git apply --check "$D/patch.diff" 2>/dev/null; then echo "SEED $PROP-$N: patch does not apply to current HEAD (needs manual rebase)"; exit 3; fi
PKGS=$(grep '^+++ b/' "$D/patch.diff" | sed 's#+++ b/##' | xargs -n1 dirname | sort -u | sed 's#^#./#')
[ -n "$DEMOPATH" ] && cp "$D/$DEMO" "$DEMOPATH"
RUNRE=$(grep -ho 'func Test[A-Za-z0-9_]*' "$D/$DEMO" | sed 's/func //' | paste -sd'|')
DPKG=./$(dirname "$DEMOPATH")
echo "== without the change: demo must pass"
go test -vet=off -count=1 -run "^($RUNRE)\$" $DPKG 2>&1 | tail -3; r0=${PIPESTATUS[0]}
git apply "$D/patch.diff"
echo "== with the change: build + existing tests of touched packages"
go build ./... 2>&1 | tail -3; b=$?
mv "$DEMOPATH" "$W/demo.keep"
go test -vet=off -count=1 $PKGS 2>&1 | tail -4; t=${PIPESTATUS[0]}
cp "$W/demo.keep" "$DEMOPATH"
echo "== with the change: demo must fail"
go test -vet=off -count=1 -run "^($RUNRE)\$" $DPKG 2>&1 | tail -4; r1=${PIPESTATUS[0]}
echo "SEED $PROP-$N confirm: demo-without=$r0 (want 0) build=$b tests=$t (want 0) demo-with=$r1 (want !=0)"
cd /verif
echo "== the property's check against the change"
VERIF_WALL=${VERIF_WALL:-} tools/mutant.sh "$D/patch.diff" "$PROP" quick 2>&1 | grep -v "^KNOWN-FINDING" | tail -6 | tee "$D/verdict_quick.txt"
