#!/bin/bash
# tools/mutant.sh <patch.diff> <Cxx> [quick|thorough]   (extra env passed through, e.g. VERIF_SEED, VERIF_WALL)
# Applies the patch to a scratch git worktree of /repo (never to /repo itself), runs the check against
# that tree with outputs under the scratch dir, prints the verdict, removes everything.
# The scratch tree is /repo's HEAD overlaid with /repo's uncommitted working-tree state (modified and
# untracked files), so hook files that are not committed yet are present.
set -u
PATCH=$(readlink -f "$1"); PROP=$2; TIER=${3:-quick}
ROOT=$(dirname "$(dirname "$(readlink -f "$0")")")
W=$(mktemp -d /tmp/mut-XXXXXX)
trap 'git -C /repo worktree remove --force "$W/repo" >/dev/null 2>&1; rm -rf "$W"; git -C /repo worktree prune' EXIT
git -C /repo worktree add --detach "$W/repo" HEAD >/dev/null 2>&1 || { echo "MUTANT: worktree failed"; exit 2; }
git -C /repo diff HEAD > "$W/wt.diff"
if [ -s "$W/wt.diff" ]; then git -C "$W/repo" apply "$W/wt.diff" || { echo "MUTANT: working-tree overlay failed"; exit 2; }; fi
(cd /repo && git ls-files -o --exclude-standard -z | xargs -0 -r cp --parents -t "$W/repo") 2>/dev/null
if ! git -C "$W/repo" apply "$PATCH"; then echo "MUTANT: patch does not apply"; exit 2; fi
VERIF_REPO="$W/repo" VERIF_OUT="$W/out" "$ROOT/check" "$PROP" "$TIER" > "$W/log" 2>&1
rc=$?
grep -E "^VIOLATION|^KNOWN-FINDING|^HARNESS|^  oracle|^C[0-9]+ " "$W/log" | cut -c1-400 | head -12
if [ $rc -eq 2 ]; then tail -15 "$W/log" | cut -c1-300; fi
if [ -n "${MUTANT_KEEP_REPLAY:-}" ] && ls "$W"/out/replays/*/*.json >/dev/null 2>&1; then mkdir -p "$MUTANT_KEEP_REPLAY"; cp "$W"/out/replays/*/*.json "$MUTANT_KEEP_REPLAY"/; fi
echo "MUTANT $(basename "$PATCH") $PROP $TIER: exit=$rc"
exit $rc
