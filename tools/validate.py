#!/usr/bin/env python3
# Validate MANIFEST.json and evidence files against the schemas (run with python3-vt or any python with jsonschema).
import json,sys,glob
sys.path.insert(0,'/opt/veriftools/pyvenv/lib/python3.11/site-packages')
import jsonschema
m=json.load(open('/verif/MANIFEST.json'))
jsonschema.validate(m, json.load(open('/root/.vp/MANIFEST.schema.json')))
print('manifest valid:', len(m['checks']),'checks,', len(m.get('not_applicable',[])),'not claimed')
es=json.load(open('/root/.vp/EVIDENCE.schema.json'))
for f in sorted(glob.glob('/verif/evidence/*.json')):
    try:
        jsonschema.validate(json.load(open(f)), es)
    except Exception as e:
        print('INVALID', f, str(e)[:200])
print('evidence files checked:', len(glob.glob('/verif/evidence/*.json')))
