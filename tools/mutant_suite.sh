#!/bin/bash
# tools/mutant_suite.sh [pattern]: run every selftest mutant against the quick check of its property (the Cxx in the
# file name), one line per mutant into selftest/MUTANT_RESULTS.txt ("<file> caught <signature>" | "<file> MISSED" | "... n/a").
cd "$(dirname "$0")/.."
OUT=selftest/MUTANT_RESULTS.txt
: > $OUT.tmp
for f in selftest/mutants/${1:-*}.diff; do
  b=$(basename $f); p=$(echo $b | sed -E 's/^c([0-9]+)_.*/C\1/')
  case $b in *REPAIR*) echo "$b n/a (repair candidate, not a mutant)" >> $OUT.tmp; continue;; esac
  r=$(VERIF_WORKERS=${VERIF_WORKERS:-8} tools/mutant.sh $f $p quick 2>&1)
  if echo "$r" | grep -q "does not apply"; then echo "$b n/a (no longer applies to HEAD)" >> $OUT.tmp
  elif echo "$r" | grep -q "exit=1"; then echo "$b caught $(echo "$r" | grep -o 'signature=[^ ]*' | head -1)" >> $OUT.tmp
  elif echo "$r" | grep -q "exit=0"; then echo "$b MISSED" >> $OUT.tmp
  else echo "$b harness-trouble $(echo "$r" | grep -m1 HARNESS | cut -c1-80)" >> $OUT.tmp; fi
done
mv $OUT.tmp $OUT; echo SUITE-DONE
