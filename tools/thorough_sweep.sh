#!/bin/bash
# tools/thorough_sweep.sh <seed> [wall_s] [workers]: every claimed check's thorough tier on the unchanged tree, one line per check.
cd "$(dirname "$0")/.."
S=${1:-7}; W=${2:-180}; K=${3:-6}
for p in $(python3 -c "
import json; m=json.load(open('MANIFEST.json')); print(' '.join(c['property_id'] for c in m['checks']))"); do
  VERIF_SEED=$S VERIF_WALL=$W VERIF_WORKERS=$K ./check $p thorough > /tmp/ths_${S}_$p.log 2>&1; e=$?
  echo "$p seed $S exit=$e $(grep -o 'runs=[0-9]*' /tmp/ths_${S}_$p.log | head -1) $(grep -o 'wall=[0-9.]*s' /tmp/ths_${S}_$p.log | head -1)"
  [ $e -ne 0 ] && grep -E "^VIOLATION|^  oracle|^  [a-z]|HARNESS" /tmp/ths_${S}_$p.log | cut -c1-260 | head -8
done
echo SWEEP-DONE
