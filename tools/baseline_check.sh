#!/bin/bash
# tools/baseline_check.sh [worktree-dir]  - run the repository's baseline test command (guard OFF) in a
# scratch worktree of /repo HEAD (or in the given directory) and compare with BASELINE.json stable_pass.
set -u
export GOFLAGS=-mod=mod GOPROXY=off GOSUMDB=off GOTOOLCHAIN=local
W=${1:-}
own=0
if [ -z "$W" ]; then W=$(mktemp -d /tmp/base-XXXXXX)/repo; own=1; git -C /repo worktree add --detach "$W" HEAD >/dev/null 2>&1 || exit 2; fi
(cd "$W" && go test -mod=mod -json -vet=off -count=1 -timeout 25m ./... > "$W/../gotest.json" 2>/dev/null)
python3 - "$W/../gotest.json" <<'PY'
import json,sys
passed=set(); failed=set()
for l in open(sys.argv[1]):
    try: e=json.loads(l)
    except: continue
    if e.get('Test') and e.get('Action') in ('pass','fail'):
        k=e['Package']+'::'+e['Test']
        (passed if e['Action']=='pass' else failed).add(k)
b=json.load(open('/root/.vp/BASELINE.json'))
sp=set(b['stable_pass'])
missing=sorted(sp-passed)
print('baseline stable_pass:',len(sp),'passed now:',len(passed&sp),'missing:',len(missing))
for m in missing[:40]: print('  MISSING',m, '(failed)' if m in failed else '(not run)')
PY
if [ $own = 1 ]; then git -C /repo worktree remove --force "$W" >/dev/null 2>&1; rm -rf "$(dirname "$W")"; git -C /repo worktree prune; fi
