// Package auxsim simulates a merged-mining pool in front of the real
// auxpow.AuxPow.Check. An honest pool builds proofs (the real GenerateAuxPow,
// and harness-built proofs with multi-level aux and parent merkle branches);
// every proof travels through a relay (real Serialize/Deserialize) and is
// checked once intact, then again and again with exactly one thing changed by
// a corrupting relay or rebuilt by a Byzantine pool. Serves C10.
package auxsim

import (
	"bytes"
	"encoding/hex"
	"encoding/json"
	"fmt"
	"strings"

	"github.com/elastos/Elastos.ELA/auxpow"
	"github.com/elastos/Elastos.ELA/common"
	common2 "github.com/elastos/Elastos.ELA/core/types/common"

	"verif/sim/core"
)

type Engine struct{}

func (Engine) Name() string { return "auxsim" }

func (Engine) Components() ([]string, []string) {
	return []string{
			"auxpow.AuxPow.Check, GetMerkleRoot, GetExpectedIndex (decide every delivery)",
			"auxpow.GenerateAuxPow / getBtcCoinbase (honest single-slot proofs)",
			"auxpow.AuxPow/BtcTx/BtcHeader Serialize+Deserialize (every delivery crosses the relay encoded)",
			"core/types/common Header.Hash (the simulated ELA block hashes are hashes of real headers)",
		}, []string{
			"merged-mining pool = harness builder following the merged-mining specification (multi-level aux tree, parent block with several transactions)",
			"parent chain: no parent-chain validation, parent proof-of-work is not part of AuxPow.Check (CheckProofOfWork is a separate function, not exercised here)",
			"relay/Byzantine pool = plan-decided single change per delivery",
		}
}

// Mut is one delivery with exactly one thing changed.
type Mut struct {
	Kind string `json:"kind"`
	A    int    `json:"a,omitempty"`
	B    int    `json:"b,omitempty"`
}

// Step is one honest proof and the corrupted deliveries derived from it.
type Step struct {
	Kind  string `json:"kind"` // gen | built | twoblocks | shape
	Blk   uint64 `json:"blk"`
	H     int    `json:"h,omitempty"`
	PL    int    `json:"pl,omitempty"`
	Chain int    `json:"chain"`
	Nonce uint32 `json:"nonce,omitempty"`
	Pre   int    `json:"pre,omitempty"`
	Post  int    `json:"post,omitempty"`
	NOut  int    `json:"nout,omitempty"`
	Muts  []Mut  `json:"muts,omitempty"`
	Enum  bool   `json:"enum,omitempty"`
	Shape string `json:"shape,omitempty"` // shape: no-inputs | short-tail | long-branch | big-index
}

type run struct {
	c    *core.Ctx
	seed uint64
}

// full: deliveries are independent of each other, so a run goes on after a
// violation (each signature is recorded once) until the per-run cap is reached.
func (r *run) full() bool { return r.c.NumViolations() >= 4 }

func (e Engine) Execute(c *core.Ctx) {
	core.Bubble(c.T, func() { execute(c) })
}

func execute(c *core.Ctx) {
	p := c.Plan
	steps := make([]Step, len(p.Steps))
	for i, raw := range p.Steps {
		if err := json.Unmarshal(raw, &steps[i]); err != nil {
			panic(fmt.Sprintf("bad step %d: %v", i, err))
		}
	}
	n := len(p.Steps)
	if n > 6 {
		n = 6
	}
	c.SetSample(map[string]interface{}{"meta": p.Meta, "steps": p.Steps[:n]})
	r := &run{c: c, seed: p.Seed}
	for i := range steps {
		if r.full() {
			return
		}
		c.CurStep = i
		st := &steps[i]
		switch st.Kind {
		case "gen", "built":
			r.proof(st)
		case "twoblocks":
			r.twoBlocks(st)
		case "shape":
			r.shape(st)
		}
	}
}

func (r *run) bytes(tag string, i uint64, n int) []byte {
	var out []byte
	for k := 0; len(out) < n; k++ {
		h := sha256d([]byte(fmt.Sprintf("%d/%s/%d/%d", r.seed, tag, i, k)))
		out = append(out, h[:]...)
	}
	return out[:n]
}

func (r *run) hash(tag string, i uint64) (h common.Uint256) {
	copy(h[:], r.bytes(tag, i, 32))
	return
}

// blockHash: the hash of a real ELA header whose fields derive from the plan.
func (r *run) blockHash(blk uint64, grind uint32) common.Uint256 {
	b := r.bytes("blk", blk, 16)
	h := common2.Header{
		Version:    uint32(b[0] & 1),
		Previous:   r.hash("prev", blk),
		MerkleRoot: r.hash("mroot", blk),
		Timestamp:  1546300800 + uint32(b[1])<<8 + uint32(b[2]),
		Bits:       0x207fffff,
		Nonce:      uint32(b[3])<<16 + grind,
		Height:     uint32(b[4])<<8 + uint32(b[5]),
	}
	return h.Hash()
}

// relay: the proof crosses the wire.
func relay(ap *auxpow.AuxPow) (*auxpow.AuxPow, error) {
	buf := new(bytes.Buffer)
	if err := ap.Serialize(buf); err != nil {
		return nil, err
	}
	out := new(auxpow.AuxPow)
	if err := out.Deserialize(bytes.NewReader(buf.Bytes())); err != nil {
		return nil, err
	}
	buf2 := new(bytes.Buffer)
	out.Serialize(buf2)
	if !bytes.Equal(buf.Bytes(), buf2.Bytes()) {
		return nil, fmt.Errorf("encoding not stable")
	}
	return out, nil
}

// check calls the code under test with panic containment.
func check(ap *auxpow.AuxPow, hash common.Uint256, chain int) (ok bool, pan interface{}) {
	defer func() {
		if x := recover(); x != nil {
			ok, pan = false, x
		}
	}()
	h := hash
	return ap.Check(&h, chain), nil
}

func clone(ap *auxpow.AuxPow) *auxpow.AuxPow {
	out, err := relay(ap)
	if err != nil {
		panic(fmt.Sprintf("harness: clone: %v", err))
	}
	return out
}

// honestSpec builds the pool's honest choices for a step.
func (r *run) honestSpec(st *Step, hash common.Uint256) *spec {
	h, pl := st.H, st.PL
	if h < 0 {
		h = 0
	}
	if h > 20 {
		h = 20
	}
	if pl < 0 {
		pl = 0
	}
	if pl > 8 {
		pl = 8
	}
	s := &spec{commit: hash, nonce: st.Nonce, size: uint32(1) << uint(h), markerBytes: marker, cutAfterRoot: -1,
		prevOut: auxpow.BtcOutPoint{Index: 0xffffffff}, nOut: 1 + st.NOut%3,
		hdrTime: 1546300800 + uint32(st.Blk%100000), hdrNonce: uint32(st.Blk)}
	for i := 0; i < h; i++ {
		s.auxBranch = append(s.auxBranch, r.hash(fmt.Sprintf("aux%d", i), st.Blk))
	}
	s.slot = modelSlot(st.Nonce, st.Chain, h)
	s.auxIndex = s.slot
	for i := 0; i < pl; i++ {
		s.parBranch = append(s.parBranch, r.hash(fmt.Sprintf("par%d", i), st.Blk))
	}
	// a realistic coinbase script start: BIP34 height push, extranonce, pool tag
	pre := st.Pre % 60
	if pre > 0 {
		s.pre = r.bytes("pre", st.Blk, pre)
		s.pre[0] = 0x03
	}
	if st.Post > 0 {
		s.post = r.bytes("post", st.Blk, st.Post%40)
	}
	// the pool does not emit the marker pattern by accident
	for k := 0; ; k++ {
		al, any := markerCount(s.script())
		if al == 1 && any == 1 {
			break
		}
		if k > 50 {
			panic("harness: cannot build a script with exactly one marker")
		}
		if len(s.pre) > 0 {
			s.pre = r.bytes(fmt.Sprintf("pre%d", k), st.Blk, len(s.pre))
		}
		if len(s.post) > 0 {
			s.post = r.bytes(fmt.Sprintf("post%d", k), st.Blk, len(s.post))
		}
		if len(s.pre) == 0 && len(s.post) == 0 {
			s.nonce++ // the marker pattern came from root/size/nonce themselves
			s.slot = modelSlot(s.nonce, st.Chain, h)
			s.auxIndex = s.slot
		}
	}
	return s
}

func (r *run) proof(st *Step) {
	c := r.c
	hash := r.blockHash(st.Blk, 0)
	var ap *auxpow.AuxPow
	var sp *spec
	if st.Kind == "gen" {
		ap = auxpow.GenerateAuxPow(hash)
		// what GenerateAuxPow chose, in the pool's terms (for the Byzantine rebuilds)
		sp = &spec{commit: hash, size: 1, nonce: 0, markerBytes: marker, cutAfterRoot: -1, prevOut: auxpow.BtcOutPoint{}, hdrTime: ap.ParBlockHeader.Timestamp}
		c.Probe("honest-generateauxpow")
	} else {
		sp = r.honestSpec(st, hash)
		ap = sp.build()
		c.Probe(fmt.Sprintf("honest-built-auxbranch-%d", len(sp.auxBranch)))
		c.Probe(fmt.Sprintf("honest-built-parbranch-%d", len(sp.parBranch)))
	}
	h := len(sp.auxBranch)
	got, err := relay(ap)
	c.Check()
	if err != nil {
		c.Violate("C10", "honest-accepted", "C10/honest-proof-not-relayable", "proof (aux branch %d, parent branch %d) does not survive Serialize/Deserialize: %v", h, len(sp.parBranch), err)
		return
	}
	ok, pan := check(got, hash, st.Chain)
	c.Check()
	if !ok {
		c.Violate("C10", "honest-accepted", "C10/honest-proof-rejected/"+st.Kind, "valid proof for block %x (chain id %d, nonce %d, aux branch %d at slot %d, parent branch %d, script %x) rejected (panic: %v)",
			hash[:4], st.Chain, sp.nonce, h, sp.slot, len(sp.parBranch), got.ParCoinbaseTx.TxIn[0].SignatureScript, pan)
		return
	}
	c.State(uint64(h)<<8 | uint64(len(sp.parBranch)))
	c.Logf("proof %s blk=%x chain=%d nonce=%d h=%d slot=%d pl=%d scriptlen=%d -> accepted", st.Kind, hash[:4], st.Chain, sp.nonce, h, sp.slot, len(sp.parBranch), len(got.ParCoinbaseTx.TxIn[0].SignatureScript))
	for _, m := range st.Muts {
		if r.full() {
			return
		}
		r.mutant(st, sp, got, hash, m)
	}
	if st.Enum && !r.full() {
		r.enumerate(st, sp, got, hash)
	}
}

// expect records one corrupted delivery: it has to be rejected.
func (r *run) expect(kind, detail string, ap *auxpow.AuxPow, hash common.Uint256, chain int) bool {
	c := r.c
	c.Fault(kind)
	ok, pan := check(ap, hash, chain)
	c.Check()
	if pan != nil {
		c.Probe("check-panicked/" + kind)
		msg := fmt.Sprint(pan)
		if i := strings.Index(msg, " ["); i > 0 {
			msg = msg[:i]
		}
		c.Note("outside C10 (crash shape, see C03): AuxPow.Check panicked on %s: %s", kind, msg)
		return true
	}
	if ok {
		script := []byte{}
		if len(ap.ParCoinbaseTx.TxIn) > 0 {
			script = ap.ParCoinbaseTx.TxIn[0].SignatureScript
		}
		c.Violate("C10", "mutant-rejected", "C10/"+kind+"-accepted",
			"%s; Check(block %x, chain id %d) = true. aux branch %d, AuxMerkleIndex %d, parent branch %d, ParMerkleIndex %d, coinbase script %x",
			detail, hash[:], chain, len(ap.AuxMerkleBranch), ap.AuxMerkleIndex, len(ap.ParCoinBaseMerkle), ap.ParMerkleIndex, script)
		return false
	}
	return true
}

func flipBit(h *common.Uint256, bit int) { h[(bit/8)%32] ^= 1 << uint(bit%8) }

// mutant: one delivery, one change.
func (r *run) mutant(st *Step, sp *spec, honest *auxpow.AuxPow, hash common.Uint256, m Mut) {
	c := r.c
	h, pl := len(sp.auxBranch), len(sp.parBranch)
	a, b := m.A, m.B
	if a < 0 {
		a = -a
	}
	if b < 0 {
		b = -b
	}
	rebuilt := func(f func(s *spec)) *auxpow.AuxPow {
		s := *sp
		s.auxBranch = append([]common.Uint256{}, sp.auxBranch...)
		s.parBranch = append([]common.Uint256{}, sp.parBranch...)
		f(&s)
		ap, err := relay(s.build())
		if err != nil {
			panic(fmt.Sprintf("harness: rebuilt proof not relayable: %v", err))
		}
		return ap
	}
	res := "rejected"
	note := func(ok bool) {
		if !ok {
			res = "ACCEPTED"
		}
	}
	switch m.Kind {
	case "blockhash-bit": // the relay attaches the proof to a block whose hash differs in one bit
		other := hash
		flipBit(&other, a)
		note(r.expect("block-hash-changed", "proof presented for a block hash differing in bit "+fmt.Sprint(a%256), clone(honest), other, st.Chain))
	case "other-block":
		other := r.blockHash(st.Blk+1+uint64(a%7), 0)
		note(r.expect("block-hash-changed", "proof presented for a different block", clone(honest), other, st.Chain))
	case "chainid":
		ch := st.Chain ^ (1 << uint(a%16))
		if b%3 == 0 {
			ch = st.Chain + 1 + a%5
		}
		if modelSlot(sp.nonce, ch, h) == sp.slot {
			c.Probe("equivalent-mutant/chain-id-maps-to-same-slot")
			ok, _ := check(clone(honest), hash, ch)
			res = fmt.Sprintf("equivalent(%v)", ok)
			break
		}
		note(r.expect("chain-id-changed", fmt.Sprintf("chain id %d instead of %d derives slot %d, proof is at slot %d", ch, st.Chain, modelSlot(sp.nonce, ch, h), sp.slot), clone(honest), hash, ch))
	case "nonce": // Byzantine pool: another nonce in the script, everything else consistent
		nn := sp.nonce ^ (1 << uint(a%32))
		if modelSlot(nn, st.Chain, h) == sp.slot {
			c.Probe("equivalent-mutant/nonce-maps-to-same-slot")
			res = "equivalent"
			break
		}
		ap := rebuilt(func(s *spec) { s.nonce = nn })
		note(r.expect("nonce-changed", fmt.Sprintf("nonce %d derives slot %d, block committed at slot %d", nn, modelSlot(nn, st.Chain, h), sp.slot), ap, hash, st.Chain))
	case "auxindex-low":
		if h == 0 {
			return
		}
		ap := clone(honest)
		ap.AuxMerkleIndex ^= 1 << uint(a%h)
		note(r.expect("aux-index-changed", "AuxMerkleIndex differs in a bit below the branch length", ap, hash, st.Chain))
	case "auxindex-high":
		ap := clone(honest)
		ap.AuxMerkleIndex ^= 1 << uint(h+a%(31-h))
		note(r.expect("aux-index-changed", "AuxMerkleIndex differs in a bit above the branch length (same merkle path, other slot number)", ap, hash, st.Chain))
	case "wrong-slot": // Byzantine pool: block sits in another slot of a consistent tree
		if h == 0 {
			return
		}
		ns := (sp.slot + 1 + a%((1<<uint(h))-1)) % (1 << uint(h))
		ap := rebuilt(func(s *spec) { s.slot, s.auxIndex = ns, ns })
		note(r.expect("wrong-slot", fmt.Sprintf("block committed at slot %d of a consistent aux tree, nonce %d and chain id %d derive slot %d", ns, sp.nonce, st.Chain, sp.slot), ap, hash, st.Chain))
	case "auxbranch-bit":
		if h == 0 {
			return
		}
		ap := clone(honest)
		flipBit(&ap.AuxMerkleBranch[b%h], a)
		note(r.expect("aux-branch-hash-changed", "one bit of an aux branch hash flipped", ap, hash, st.Chain))
	case "auxbranch-drop":
		if h == 0 {
			return
		}
		ap := clone(honest)
		ap.AuxMerkleBranch = ap.AuxMerkleBranch[:h-1]
		ap.AuxMerkleIndex &= (1 << uint(h-1)) - 1
		note(r.expect("aux-branch-length-changed", "last aux branch hash dropped", ap, hash, st.Chain))
	case "auxbranch-extra":
		ap := clone(honest)
		ap.AuxMerkleBranch = append(ap.AuxMerkleBranch, r.hash("extra", st.Blk))
		note(r.expect("aux-branch-length-changed", "extra aux branch hash appended", ap, hash, st.Chain))
	case "size": // Byzantine pool: size field does not match the branch length
		ns := sp.size ^ (1 << uint(a%32))
		ap := rebuilt(func(s *spec) { s.size = ns })
		note(r.expect("tree-size-field-changed", fmt.Sprintf("script says tree size %d, branch length is %d", ns, h), ap, hash, st.Chain))
	case "taller-tree": // Byzantine pool: consistent tree one level taller/shorter than the size field says
		ap := rebuilt(func(s *spec) {
			s.auxBranch = append(s.auxBranch, r.hash("taller", st.Blk))
			s.slot = modelSlot(s.nonce, st.Chain, h+1)
			s.auxIndex = s.slot
		})
		note(r.expect("tree-size-field-changed", fmt.Sprintf("consistent aux tree of height %d under a script that says size %d", h+1, sp.size), ap, hash, st.Chain))
	case "marker-absent":
		ap := rebuilt(func(s *spec) {
			if a%2 == 0 {
				s.markerBytes = nil
			} else {
				s.markerBytes = []byte{0xfa, 0xbe, 'm', 'n'}
			}
		})
		note(r.expect("marker-absent", "coinbase script carries the root, size and nonce but no merged-mining marker", ap, hash, st.Chain))
	case "marker-twice":
		ap := rebuilt(func(s *spec) {
			switch a % 3 {
			case 0: // an earlier marker followed by something else
				s.pre = append(append(append([]byte{}, s.pre...), marker...), r.bytes("junk", st.Blk, 1+b%40)...)
			case 1: // a second marker behind the commitment
				s.post = append(append(append([]byte{}, s.post...), r.bytes("junk", st.Blk, b%9)...), marker...)
			default: // two markers back to back
				s.pre = append(append([]byte{}, s.pre...), marker...)
			}
		})
		note(r.expect("marker-twice", fmt.Sprintf("coinbase script carries two merged-mining markers (placement %d)", a%3), ap, hash, st.Chain))
	case "marker-gap":
		ap := rebuilt(func(s *spec) { s.gap = r.bytes("gap", st.Blk, 1+a%8) })
		note(r.expect("marker-not-followed-by-root", fmt.Sprintf("%d bytes between marker and aux root", 1+a%8), ap, hash, st.Chain))
	case "marker-nibble":
		r.nibble(st, sp, hash, &res)
	case "prefix-nibble-pattern":
		// not judged (completeness is not part of the property): a script that, as
		// bytes, carries exactly one marker, preceded by bytes whose hex rendering
		// shows the marker pattern at an odd offset
		ap := rebuilt(func(s *spec) {
			s.pre = append(append([]byte{}, s.pre...), 0x0f, 0xab, 0xe6, 0xd6, 0xd0)
		})
		al, _ := markerCount(ap.ParCoinbaseTx.TxIn[0].SignatureScript)
		ok, _ := check(ap, hash, st.Chain)
		if al == 1 && !ok {
			c.Probe("byte-valid-proof-rejected-because-of-nibble-pattern-in-prefix")
		}
		res = fmt.Sprintf("not-judged(%v)", ok)
	case "unreversed":
		if rev(hash) == hash {
			return
		}
		ap := rebuilt(func(s *spec) { s.noReverse = true })
		note(r.expect("hash-byte-order-changed", "block hash committed without byte reversal", ap, hash, st.Chain))
	case "parroot-bit":
		ap := clone(honest)
		flipBit(&ap.ParBlockHeader.MerkleRoot, a)
		note(r.expect("parent-merkle-root-changed", "one bit of the parent header's merkle root flipped", ap, hash, st.Chain))
	case "parroot-zero-index-allones":
		// Byzantine pool: a parent header whose merkle root is all zero and a
		// coinbase index of 0xffffffff on the wire (the two 32-bit index fields
		// are the only ones a signed/unsigned slip could turn into "-1")
		ap := clone(honest)
		ap.ParBlockHeader.MerkleRoot = common.Uint256{}
		ap.ParMerkleIndex = 0xffffffff
		if a%2 == 1 {
			ap.ParCoinBaseMerkle = nil
		}
		// this one is about the decoder: it is judged as it arrives over the wire
		if wired, err := relay(ap); err == nil {
			ap = wired
			c.Probe("byzantine-proof-judged-after-wire-decoding")
		}
		note(r.expect("parent-merkle-root-changed", "parent header merkle root all zero, ParMerkleIndex 0xffffffff", ap, hash, st.Chain))
	case "parbranch-bit":
		if pl == 0 {
			return
		}
		ap := clone(honest)
		flipBit(&ap.ParCoinBaseMerkle[b%pl], a)
		note(r.expect("parent-branch-hash-changed", "one bit of a parent coinbase branch hash flipped", ap, hash, st.Chain))
	case "parindex-low":
		if pl == 0 {
			return
		}
		ap := clone(honest)
		ap.ParMerkleIndex ^= 1 << uint(a%pl)
		note(r.expect("parent-index-changed", "ParMerkleIndex differs in a bit below the branch length", ap, hash, st.Chain))
	case "parindex-high":
		ap := clone(honest)
		ap.ParMerkleIndex ^= 1 << uint(pl+a%(31-pl))
		ok, _ := check(ap, hash, st.Chain)
		c.Probe("equivalent-mutant/parent-index-bits-above-branch-length")
		if ok {
			c.Probe("parent-index-high-bits-ignored")
		}
		res = fmt.Sprintf("equivalent(%v)", ok)
	case "parpos": // Byzantine pool: the commitment sits in a transaction that is not the parent block's first
		if pl == 0 {
			return
		}
		np := 1 + a%((1<<uint(pl))-1)
		ap := rebuilt(func(s *spec) {
			s.parPos, s.parIndex = np, np
			s.prevOut = auxpow.BtcOutPoint{Hash: r.hash("spent", st.Blk), Index: uint32(b % 4)}
		})
		note(r.expect("commitment-tx-not-at-coinbase-position", fmt.Sprintf("the transaction carrying the commitment is transaction %d of the parent block (spends %x:%d), not its coinbase", np, ap.ParCoinbaseTx.TxIn[0].PreviousOutPoint.Hash[:4], ap.ParCoinbaseTx.TxIn[0].PreviousOutPoint.Index), ap, hash, st.Chain))
	case "cb-field": // relay changes the coinbase outside the script
		ap := clone(honest)
		switch a % 4 {
		case 0:
			ap.ParCoinbaseTx.Version ^= 1 << uint(b%32)
		case 1:
			ap.ParCoinbaseTx.LockTime ^= 1 << uint(b%32)
		case 2:
			ap.ParCoinbaseTx.TxIn[0].Sequence ^= 1 << uint(b%32)
		default:
			ap.ParCoinbaseTx.TxIn[0].PreviousOutPoint.Index ^= 1 << uint(b%32)
		}
		note(r.expect("coinbase-changed", "parent coinbase changed outside the script", ap, hash, st.Chain))
	case "script-bit": // relay flips a script bit
		ap := clone(honest)
		sc := ap.ParCoinbaseTx.TxIn[0].SignatureScript
		sc[a%len(sc)] ^= 1 << uint(b%8)
		note(r.expect("coinbase-changed", "one bit of the coinbase script flipped", ap, hash, st.Chain))
	default:
		return
	}
	c.Logf("mut %s a=%d b=%d -> %s", m.Kind, m.A, m.B, res)
}

func (s *spec) nibbleShiftFits() bool {
	root := s.scriptRoot()
	return hex.EncodeToString(root[:])[63] == hex.EncodeToString(le32(s.size))[0]
}

// nibble: the Byzantine pool grinds an aux tree whose root ends in the nibble
// that makes a commitment shifted by half a byte readable, and publishes a
// coinbase script that, as bytes, contains no marker at all.
func (r *run) nibble(st *Step, sp *spec, hash common.Uint256, res *string) {
	c := r.c
	s := *sp
	s.auxBranch = append([]common.Uint256{}, sp.auxBranch...)
	s.nibbleShift = true
	target := hash
	found := false
	for g := uint32(0); g < 4096 && !found; g++ {
		if len(s.auxBranch) > 0 {
			s.auxBranch[0] = r.hash(fmt.Sprintf("grind%d", g), st.Blk)
		} else {
			// single-slot tree: the root is the block hash itself; the miner grinds the block
			target = r.blockHash(st.Blk, g)
			s.commit = target
		}
		al, any := markerCount(s.script())
		found = s.nibbleShiftFits() && al == 0 && any == 1
	}
	if !found {
		c.Probe("nibble-grind-failed")
		return
	}
	ap, err := relay(s.build())
	if err != nil {
		panic(fmt.Sprintf("harness: nibble proof not relayable: %v", err))
	}
	ok := r.expect("marker-nibble-misaligned", "coinbase script contains no merged-mining marker as bytes (the pattern fabe6d6d+root appears only at an odd hex-digit offset)", ap, target, st.Chain)
	if !ok {
		*res = "ACCEPTED"
	}
}

// enumerate: every single-bit change of every committed field of this proof.
func (r *run) enumerate(st *Step, sp *spec, honest *auxpow.AuxPow, hash common.Uint256) {
	c := r.c
	h, pl := len(sp.auxBranch), len(sp.parBranch)
	n := 0
	ap := clone(honest)
	try := func(kind, detail string, hh common.Uint256, chain int) bool {
		n++
		return r.expect(kind, detail, ap, hh, chain) && !r.full()
	}
	for bit := 0; bit < 256; bit++ {
		other := hash
		flipBit(&other, bit)
		if !try("enum-block-hash-bit", fmt.Sprintf("block hash bit %d flipped", bit), other, st.Chain) {
			return
		}
	}
	for j := 0; j < h; j++ {
		for bit := 0; bit < 256; bit++ {
			flipBit(&ap.AuxMerkleBranch[j], bit)
			ok := try("enum-aux-branch-bit", fmt.Sprintf("aux branch hash %d bit %d flipped", j, bit), hash, st.Chain)
			flipBit(&ap.AuxMerkleBranch[j], bit)
			if !ok {
				return
			}
		}
	}
	for j := 0; j < pl; j++ {
		for bit := 0; bit < 256; bit++ {
			flipBit(&ap.ParCoinBaseMerkle[j], bit)
			ok := try("enum-parent-branch-bit", fmt.Sprintf("parent branch hash %d bit %d flipped", j, bit), hash, st.Chain)
			flipBit(&ap.ParCoinBaseMerkle[j], bit)
			if !ok {
				return
			}
		}
	}
	for bit := 0; bit < 256; bit++ {
		flipBit(&ap.ParBlockHeader.MerkleRoot, bit)
		ok := try("enum-parent-root-bit", fmt.Sprintf("parent merkle root bit %d flipped", bit), hash, st.Chain)
		flipBit(&ap.ParBlockHeader.MerkleRoot, bit)
		if !ok {
			return
		}
	}
	for bit := 0; bit < 31; bit++ {
		ap.AuxMerkleIndex ^= 1 << uint(bit)
		ok := try("enum-aux-index-bit", fmt.Sprintf("AuxMerkleIndex bit %d flipped", bit), hash, st.Chain)
		ap.AuxMerkleIndex ^= 1 << uint(bit)
		if !ok {
			return
		}
	}
	for bit := 0; bit < pl; bit++ {
		ap.ParMerkleIndex ^= 1 << uint(bit)
		ok := try("enum-parent-index-bit", fmt.Sprintf("ParMerkleIndex bit %d flipped", bit), hash, st.Chain)
		ap.ParMerkleIndex ^= 1 << uint(bit)
		if !ok {
			return
		}
	}
	for bit := 0; bit < 16; bit++ {
		ch := st.Chain ^ (1 << uint(bit))
		if modelSlot(sp.nonce, ch, h) == sp.slot {
			c.Probe("equivalent-mutant/chain-id-maps-to-same-slot")
			continue
		}
		if !try("enum-chain-id-bit", fmt.Sprintf("chain id bit %d flipped", bit), hash, ch) {
			return
		}
	}
	sc := ap.ParCoinbaseTx.TxIn[0].SignatureScript
	for i := range sc {
		for bit := 0; bit < 8; bit++ {
			sc[i] ^= 1 << uint(bit)
			ok := try("enum-script-bit", fmt.Sprintf("coinbase script byte %d bit %d flipped", i, bit), hash, st.Chain)
			sc[i] ^= 1 << uint(bit)
			if !ok {
				return
			}
		}
	}
	c.Probe("proof-fully-enumerated")
	c.Logf("enum h=%d pl=%d script=%d mutants=%d all rejected", h, pl, len(sc), n)
}

// SimplifyStep (shrinking): the same step with a single changed delivery and
// the smallest proof shape that still supports that change, then milder cuts.
func (Engine) SimplifyStep(raw json.RawMessage) []json.RawMessage {
	var st Step
	if json.Unmarshal(raw, &st) != nil || (st.Kind != "built" && st.Kind != "gen") {
		return nil
	}
	var out []json.RawMessage
	add := func(s Step) {
		b, _ := json.Marshal(s)
		if string(b) != string(raw) {
			out = append(out, b)
		}
	}
	needH := map[string]bool{"auxindex-low": true, "wrong-slot": true, "auxbranch-bit": true, "auxbranch-drop": true}
	needPL := map[string]bool{"parbranch-bit": true, "parindex-low": true, "parpos": true}
	seen := map[string]bool{}
	for pass := 0; pass < 3; pass++ {
		for _, m := range st.Muts {
			if seen[fmt.Sprint(pass, m.Kind)] {
				continue
			}
			seen[fmt.Sprint(pass, m.Kind)] = true
			s := st
			s.Enum = false
			s.Muts = []Mut{{Kind: m.Kind}}
			switch pass {
			case 0:
				s.H, s.PL, s.Pre, s.Post, s.NOut, s.Nonce = 0, 0, 0, 0, 0, 0
				if needH[m.Kind] {
					s.H = 1
				}
				if needPL[m.Kind] {
					s.PL = 1
				}
			case 1:
				s.Pre, s.Post, s.NOut = 0, 0, 0
				s.Muts = []Mut{m}
			default:
				s.Muts = []Mut{m}
			}
			add(s)
		}
	}
	if st.Enum {
		s := st
		s.Muts = nil
		s.Pre, s.Post = 0, 0
		add(s)
	}
	return out
}
