package auxsim

import (
	"verif/sim/core"
)

var mutKinds = []string{
	"blockhash-bit", "other-block", "chainid", "chainid", "nonce", "nonce", "auxindex-low", "auxindex-high", "auxindex-high", "wrong-slot", "wrong-slot",
	"auxbranch-bit", "auxbranch-drop", "auxbranch-extra", "size", "taller-tree", "marker-absent", "marker-twice", "marker-twice", "marker-gap",
	"marker-nibble", "prefix-nibble-pattern", "unreversed", "parroot-bit", "parroot-zero-index-allones", "parbranch-bit", "parindex-low", "parindex-high", "parpos", "cb-field", "script-bit",
}

// Generate: 4..14 honest proofs per run, each followed by 6..30 deliveries
// with exactly one thing changed; one or two proofs per run are enumerated bit
// by bit. A tenth of the runs is fault-free (honest deliveries only).
func (Engine) Generate(r *core.Rng, property, tier string) *core.Plan {
	p := &core.Plan{Knobs: map[string]int64{}, Meta: map[string]string{}}
	honestOnly := r.Bool(0.1)
	if honestOnly {
		p.Meta["stratum"] = "fault-free"
	} else {
		p.Meta["stratum"] = "byzantine-pool-and-corrupting-relay"
	}
	n := r.Range(4, 14)
	if tier == "thorough" {
		n = r.Range(4, 40)
	}
	enums := 0
	for i := 0; i < n; i++ {
		st := Step{Kind: "built", Blk: r.U64() >> 16, Chain: 1224, Nonce: uint32(r.U64()), Pre: r.Intn(60), Post: r.Intn(40), NOut: r.Intn(3)}
		switch r.Pick(5, 2, 2, 1) {
		case 0:
			st.H, st.PL = r.Range(1, 8), r.Range(1, 4)
		case 1:
			st.H, st.PL = r.Range(0, 8), r.Range(0, 4)
		case 2:
			st.H, st.PL = r.Range(0, 12), r.Range(0, 8)
		default:
			st.H, st.PL = []int{0, 1, 4, 5, 6, 7, 8, 9}[r.Intn(8)], r.Range(0, 2)
		}
		switch r.Pick(6, 2, 2) {
		case 1:
			st.Chain = r.Intn(1 << 16)
		case 2:
			st.Chain = []int{0, 1, 6, 1224, 1225, 65535}[r.Intn(6)]
		}
		if r.Bool(0.15) {
			st.Nonce = []uint32{0, 1, 0xffffffff, 0x80000000}[r.Intn(4)]
		}
		if r.Bool(0.15) {
			st = Step{Kind: "gen", Blk: st.Blk, Chain: st.Chain}
		}
		if !honestOnly {
			if r.Bool(0.06) {
				p.Add(Step{Kind: "twoblocks", Blk: st.Blk, H: st.H, Chain: st.Chain, Nonce: st.Nonce, Pre: st.Pre, Post: st.Post})
				continue
			}
			if r.Bool(0.08) {
				p.Add(Step{Kind: "shape", Shape: []string{"no-inputs", "short-tail", "long-branch", "big-index"}[r.Intn(4)], Blk: st.Blk, H: r.Intn(9), PL: st.PL % 3, Chain: st.Chain, Nonce: st.Nonce, Pre: st.Pre, Post: r.Intn(40)})
				continue
			}
			for k := r.Range(6, 30); k > 0; k-- {
				st.Muts = append(st.Muts, Mut{Kind: mutKinds[r.Intn(len(mutKinds))], A: r.Intn(1 << 20), B: r.Intn(1 << 16)})
			}
			if enums < 2 && r.Bool(0.3) {
				st.Enum = true
				enums++
			}
		}
		p.Add(st)
	}
	return p
}
