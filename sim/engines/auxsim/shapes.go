package auxsim

import (
	"fmt"

	"github.com/elastos/Elastos.ELA/auxpow"
	"github.com/elastos/Elastos.ELA/common"
)

// twoBlocks: one parent block whose first two transactions each carry a
// commitment - to two different ELA blocks. The proof for the second block is
// a proof whose "parent coinbase" is not the parent block's coinbase.
func (r *run) twoBlocks(st *Step) {
	c := r.c
	h1, h2 := r.blockHash(st.Blk, 0), r.blockHash(st.Blk+1, 0)
	s1 := r.honestSpec(st, h1)
	st2 := *st
	st2.Blk++
	s2 := r.honestSpec(&st2, h2)
	s2.prevOut = auxpow.BtcOutPoint{Hash: r.hash("spent", st.Blk), Index: 0}
	tx1, tx2 := s1.coinbase(), s2.coinbase()
	s1.parBranch, s1.parPos, s1.parIndex = []common.Uint256{tx2.Hash()}, 0, 0
	s2.parBranch, s2.parPos, s2.parIndex = []common.Uint256{tx1.Hash()}, 1, 1
	s2.hdrTime, s2.hdrNonce = s1.hdrTime, s1.hdrNonce
	p1, err1 := relay(s1.build())
	p2, err2 := relay(s2.build())
	if err1 != nil || err2 != nil {
		panic(fmt.Sprintf("harness: twoblocks not relayable: %v %v", err1, err2))
	}
	if p1.ParBlockHeader.Hash() != p2.ParBlockHeader.Hash() {
		panic("harness: twoblocks built two different parent headers")
	}
	ok1, _ := check(p1, h1, st.Chain)
	c.Check()
	if !ok1 {
		c.Violate("C10", "honest-accepted", "C10/honest-proof-rejected/twoblocks", "valid proof (coinbase of a two-transaction parent block) rejected")
		return
	}
	ph := hdrHash(p1)
	ok := r.expect("commitment-tx-not-at-coinbase-position",
		fmt.Sprintf("the same parent header %x (one proof of work) was already accepted for block %x through its coinbase; this proof takes the commitment from the parent block's second transaction (spends %x:0)", ph[:4], h1[:4], s2.prevOut.Hash[:4]),
		p2, h2, st.Chain)
	if !ok {
		c.Probe("one-parent-header-accepted-for-two-blocks")
	}
	c.Logf("twoblocks blk=%x,%x chain=%d -> first=%v second-rejected=%v", h1[:4], h2[:4], st.Chain, ok1, ok)
}

func hdrHash(ap *auxpow.AuxPow) common.Uint256 { return ap.ParBlockHeader.Hash() }

// shape: inputs that matter to "validation never crashes" (another property);
// AuxPow.Check must at least not accept them. A panic is recorded, not judged.
func (r *run) shape(st *Step) {
	c := r.c
	hash := r.blockHash(st.Blk, 0)
	sp := r.honestSpec(st, hash)
	switch st.Shape {
	case "no-inputs":
		sp.noInputs = true
		r.expect("shape-coinbase-without-inputs", "parent coinbase has no inputs", sp.build(), hash, st.Chain)
	case "short-tail":
		sp.cutAfterRoot = st.Post % 8
		sp.post = nil
		ap, err := relay(sp.build())
		if err != nil {
			panic(err)
		}
		r.expect(fmt.Sprintf("shape-script-ends-%d-bytes-after-root", sp.cutAfterRoot), "coinbase script ends inside size/nonce", ap, hash, st.Chain)
	case "long-branch":
		h := 32 + st.H%9
		sp.auxBranch = nil
		for i := 0; i < h; i++ {
			sp.auxBranch = append(sp.auxBranch, r.hash(fmt.Sprintf("aux%d", i), st.Blk))
		}
		sp.slot = int(st.Nonce & 0x7fffffff)
		sp.auxIndex = sp.slot
		sp.size = 0 // 2^h does not fit the 4-byte size field; its low 32 bits are zero
		ap, err := relay(sp.build())
		if err != nil {
			panic(err)
		}
		r.expect("shape-aux-branch-32-or-longer", fmt.Sprintf("aux branch of %d hashes, size field 0", h), ap, hash, st.Chain)
	case "big-index":
		ap, err := relay(sp.build())
		if err != nil {
			panic(err)
		}
		ap.AuxMerkleIndex = []int{0x7fffffff, 0xffffffff, 0x80000000}[st.Post%3]
		if ap.AuxMerkleIndex != sp.slot {
			r.expect("shape-huge-aux-index", fmt.Sprintf("AuxMerkleIndex %#x", ap.AuxMerkleIndex), ap, hash, st.Chain)
		}
	}
	c.Logf("shape %s h=%d", st.Shape, st.H)
}
