package auxsim

import (
	"crypto/sha256"
	"encoding/binary"
	"encoding/hex"
	"strings"

	"github.com/elastos/Elastos.ELA/auxpow"
	"github.com/elastos/Elastos.ELA/common"
)

// ---------------------------------------------------------------------------
// Reference side: how an honest merged-mining pool builds a proof, written from
// the merged-mining specification (Namecoin/Bitcoin "Merged mining
// specification": coinbase script carries 0xfabe6d6d 'mm' marker, aux merkle
// root, tree size, nonce; slot = lcg(lcg(nonce)+chain_id) mod size; hashes in
// the tree and in the script are byte-reversed). Nothing here calls
// AuxPow.Check, GetMerkleRoot or GetExpectedIndex.
// ---------------------------------------------------------------------------

var marker = []byte{0xfa, 0xbe, 'm', 'm'}

func sha256d(b []byte) (h common.Uint256) {
	a := sha256.Sum256(b)
	h = sha256.Sum256(a[:])
	return
}

func rev(h common.Uint256) (r common.Uint256) {
	for i := range h {
		r[i] = h[31-i]
	}
	return
}

// modelSlot is the slot of chain id in an aux tree of 2^h leaves.
func modelSlot(nonce uint32, chain int, h int) int {
	x := nonce
	x = x*1103515245 + 12345
	x += uint32(chain)
	x = x*1103515245 + 12345
	return int(uint64(x) % (uint64(1) << uint(h)))
}

// modelRoot folds a merkle branch: bit i of pos says whether the node is the
// right child at level i.
func modelRoot(leaf common.Uint256, branch []common.Uint256, pos int) common.Uint256 {
	cur := leaf
	for i, sib := range branch {
		var b [64]byte
		if (pos>>uint(i))&1 == 1 {
			copy(b[:32], sib[:])
			copy(b[32:], cur[:])
		} else {
			copy(b[:32], cur[:])
			copy(b[32:], sib[:])
		}
		cur = sha256d(b[:])
	}
	return cur
}

// spec is everything a pool decides when it builds one proof. The Byzantine
// pool changes exactly one of these and rebuilds; the corrupting relay changes
// the built proof instead.
type spec struct {
	commit    common.Uint256 // the ELA block hash being committed to
	auxBranch []common.Uint256
	slot      int    // where the block sits in the aux tree
	auxIndex  int    // AuxMerkleIndex field
	size      uint32 // size field in the script
	nonce     uint32
	noReverse bool // commit the hash without byte reversal

	pre, gap, post []byte
	markerBytes    []byte // normally marker; nil = absent
	nibbleShift    bool   // Byzantine: whole commitment shifted by half a byte
	cutAfterRoot   int    // >=0: script ends this many bytes after the root (C03 shape)

	noInputs  bool
	prevOut   auxpow.BtcOutPoint // null for a coinbase
	nOut      int
	parBranch []common.Uint256
	parPos    int // position of the commitment tx in the parent block
	parIndex  int // ParMerkleIndex field
	hdrTime   uint32
	hdrNonce  uint32
}

func le32(v uint32) []byte {
	var b [4]byte
	binary.LittleEndian.PutUint32(b[:], v)
	return b[:]
}

// auxRoot is the root the script has to carry (already in script byte order).
func (s *spec) scriptRoot() common.Uint256 {
	leaf := rev(s.commit)
	if s.noReverse {
		leaf = s.commit
	}
	return rev(modelRoot(leaf, s.auxBranch, s.slot))
}

func (s *spec) script() []byte {
	root := s.scriptRoot()
	if s.nibbleShift {
		// pre || 0f ab e6 d6 d[r0] [r1 r2] ... [r61 r62] || size || nonce || post:
		// marker and root sit half a byte off; the byte where a reader that
		// divides the odd hex offset by two looks for the size is the byte
		// holding the last root nibble, so that nibble has to equal the high
		// nibble of the size's low byte (nibbleShiftFits) - the pool grinds for it.
		r := hex.EncodeToString(root[:])
		hx := "0" + "fabe6d6d" + r[:63] + hex.EncodeToString(le32(s.size)) + hex.EncodeToString(le32(s.nonce))
		b, _ := hex.DecodeString(hx)
		return append(append(append([]byte{}, s.pre...), b...), s.post...)
	}
	out := append([]byte{}, s.pre...)
	out = append(out, s.markerBytes...)
	out = append(out, s.gap...)
	out = append(out, root[:]...)
	tail := append(le32(s.size), le32(s.nonce)...)
	if s.cutAfterRoot >= 0 && s.cutAfterRoot < len(tail) {
		return append(out, tail[:s.cutAfterRoot]...)
	}
	out = append(out, tail...)
	return append(out, s.post...)
}

func (s *spec) coinbase() auxpow.BtcTx {
	tx := auxpow.BtcTx{Version: 1, TxIn: []*auxpow.BtcTxIn{}, TxOut: []*auxpow.BtcTxOut{}}
	if !s.noInputs {
		tx.TxIn = append(tx.TxIn, &auxpow.BtcTxIn{PreviousOutPoint: s.prevOut, SignatureScript: s.script(), Sequence: 0xffffffff})
	}
	for i := 0; i < s.nOut; i++ {
		tx.TxOut = append(tx.TxOut, &auxpow.BtcTxOut{Value: int64(50_0000_0000 >> uint(i)), PkScript: []byte{0x76, 0xa9, 0x14, byte(i), 0x88, 0xac}})
	}
	return tx
}

func (s *spec) build() *auxpow.AuxPow {
	cb := s.coinbase()
	root := modelRoot(cb.Hash(), s.parBranch, s.parPos)
	return &auxpow.AuxPow{
		AuxMerkleBranch:   append([]common.Uint256{}, s.auxBranch...),
		AuxMerkleIndex:    s.auxIndex,
		ParCoinbaseTx:     cb,
		ParCoinBaseMerkle: append([]common.Uint256{}, s.parBranch...),
		ParMerkleIndex:    s.parIndex,
		ParBlockHeader:    auxpow.BtcHeader{Version: 0x20000000, MerkleRoot: root, Timestamp: s.hdrTime, Bits: 0x207fffff, Nonce: s.hdrNonce},
	}
}

// markerCount: occurrences of the marker in the script, byte-aligned (what the
// specification talks about) and in the hex rendering at any nibble offset
// (what a textual search sees).
func markerCount(script []byte) (aligned, anyNibble int) {
	for i := 0; i+4 <= len(script); i++ {
		if script[i] == 0xfa && script[i+1] == 0xbe && script[i+2] == 'm' && script[i+3] == 'm' {
			aligned++
		}
	}
	hx := hex.EncodeToString(script)
	for i := 0; ; {
		j := strings.Index(hx[i:], "fabe6d6d")
		if j < 0 {
			break
		}
		anyNibble++
		i += j + 1
	}
	return
}
