package treapsim

import (
	"verif/sim/core"
)

// Step is one simulator step. Keys are named by index into a per-run key
// space (knob "keyspace"); -1 means nil (iterator bounds) and index keyspace
// and keyspace+1 name two keys beyond both ends of the space. Versions and
// iterator slots are addressed modulo what exists, so a step keeps its meaning
// when other steps are deleted by the shrinker.
type Step struct {
	Op  string `json:"op"`
	K   int    `json:"k,omitempty"`   // key index
	N   int    `json:"n,omitempty"`   // value length; -1: nil value
	V   int    `json:"v,omitempty"`   // value id (content = f(id))
	Ver int    `json:"ver,omitempty"` // immutable version selector (from the newest backwards), -1 = the mutable treap
	It  int    `json:"it,omitempty"`  // iterator slot
	A   int    `json:"a,omitempty"`   // range start key index (-1 nil) / direction
	B   int    `json:"b,omitempty"`   // range limit key index (-1 nil)
	Cnt int    `json:"cnt,omitempty"` // repeat count (draws of the competing task, Next/Prev moves, bulk size, ForEach stop)
}

const iterSlots = 4

func (Engine) Generate(r *core.Rng, property, tier string) *core.Plan {
	p := &core.Plan{Knobs: map[string]int64{}}
	ks := int(r.LogUniform(4, 5000))
	if r.Bool(0.15) {
		ks = 4 + r.Intn(5)
	}
	p.SetKnob("keyspace", int64(ks))
	p.SetKnob("randseed", int64(r.U64()>>1))
	// key encoding: 0 = variable-length hex of a scrambled index (byte order
	// unrelated to index order, some keys prefixes of others), 1 = fixed
	// width big-endian (sequential), 2 = long shared prefix
	p.SetKnob("keyenc", int64(r.Pick(6, 2, 2)))
	nsteps := r.Range(20, 160)
	if tier == "thorough" {
		nsteps = r.Range(20, 400)
	}
	g := &gen{r: r, p: p, ks: ks}
	// optional bulk preload so large trees (deep parent stacks, many rotations) are reached
	if ks > 64 && r.Bool(0.7) {
		n := int(r.LogUniform(16, int64(ks)))
		if r.Bool(0.5) {
			p.Add(Step{Op: "mfill", K: r.Intn(ks), Cnt: n, A: g.stride()})
		}
		if r.Bool(0.7) {
			if n > 1500 {
				n = 1500
			}
			p.Add(Step{Op: "ifill", K: r.Intn(ks), Cnt: n, A: g.stride()})
		}
	}
	// per-run weights (swarm): some runs are mutable-only, some immutable-only
	wm, wi := 10, 10
	switch r.Intn(5) {
	case 0:
		wi = 1
	case 1:
		wm = 1
	}
	for i := 0; i < nsteps; i++ {
		switch r.Pick(wm*3, wi*3, 6, 8, 3, 2) {
		case 0:
			g.mutableOp()
		case 1:
			g.immutableOp()
		case 2:
			// competing task draws from the process-global math/rand
			p.Add(Step{Op: "rand", Cnt: 1 + r.Intn(7)})
		case 3:
			g.iterOp()
		case 4:
			// reader task: full ordered scan of an old version
			p.Add(Step{Op: "reader", Ver: g.ver(), A: r.Intn(2), Cnt: r.Intn(ks + 2)})
		case 5:
			p.Add(Step{Op: "recheck"})
		}
	}
	return p
}

type gen struct {
	r  *core.Rng
	p  *core.Plan
	ks int
	nv int
}

func (g *gen) stride() int {
	// fills walk the key space with a stride (coprime or not): sequential, reversed-ish, scattered
	switch g.r.Intn(4) {
	case 0:
		return 1
	case 1:
		return g.ks - 1
	default:
		return 1 + g.r.Intn(g.ks)
	}
}

func (g *gen) key() int {
	// mostly inside the key space, sometimes the two out-of-range sentinels
	if g.r.Bool(0.04) {
		return g.ks + g.r.Intn(2)
	}
	// hot spot: half of the draws come from a 1/8 slice so overwrite/delete hit existing keys in large spaces
	if g.r.Bool(0.5) {
		return g.r.Intn(g.ks/8 + 1)
	}
	return g.r.Intn(g.ks)
}

func (g *gen) val() (int, int) {
	g.nv++
	switch g.r.Pick(3, 3, 30) {
	case 0:
		return g.nv, -1 // nil
	case 1:
		return g.nv, 0 // empty
	}
	return g.nv, int(g.r.LogUniform(1, 300))
}

func (g *gen) ver() int {
	// 0 = newest; geometric-ish preference for recent ones, sometimes far back
	if g.r.Bool(0.5) {
		return g.r.Intn(3)
	}
	return g.r.Intn(4096)
}

func (g *gen) mutableOp() {
	r := g.r
	switch r.Pick(30, 18, 10, 6, 3, 3, 4) {
	case 0:
		v, n := g.val()
		g.p.Add(Step{Op: "mput", K: g.key(), V: v, N: n})
	case 1:
		g.p.Add(Step{Op: "mdel", K: g.key()})
	case 2:
		g.p.Add(Step{Op: "mget", K: g.key()})
	case 3:
		g.p.Add(Step{Op: "mhas", K: g.key()})
	case 4:
		g.p.Add(Step{Op: "mlen"})
	case 5:
		g.p.Add(Step{Op: "mforeach", Cnt: r.Intn(g.ks + 2)})
	case 6:
		if r.Bool(0.15) {
			g.p.Add(Step{Op: "mreset"})
		} else {
			g.p.Add(Step{Op: "mforeach", Cnt: 0})
		}
	}
}

func (g *gen) immutableOp() {
	r := g.r
	base := 0
	if r.Bool(0.2) {
		base = g.ver() // derive from an old version (branching history)
	}
	switch r.Pick(30, 18, 10, 6, 4) {
	case 0:
		v, n := g.val()
		g.p.Add(Step{Op: "iput", Ver: base, K: g.key(), V: v, N: n})
	case 1:
		g.p.Add(Step{Op: "idel", Ver: base, K: g.key()})
	case 2:
		g.p.Add(Step{Op: "iget", Ver: g.ver(), K: g.key()})
	case 3:
		g.p.Add(Step{Op: "ihas", Ver: g.ver(), K: g.key()})
	case 4:
		g.p.Add(Step{Op: "iforeach", Ver: g.ver(), Cnt: r.Intn(g.ks + 2)})
	}
}

func (g *gen) bound() int {
	if g.r.Bool(0.45) {
		return -1
	}
	return g.key()
}

func (g *gen) iterOp() {
	r := g.r
	it := r.Intn(iterSlots)
	switch r.Pick(8, 6, 6, 14, 10, 8, 4, 2) {
	case 0:
		ver := g.ver()
		if r.Bool(0.5) {
			ver = -1
		}
		g.p.Add(Step{Op: "itopen", It: it, Ver: ver, A: g.bound(), B: g.bound()})
	case 1:
		g.p.Add(Step{Op: "itfirst", It: it})
	case 2:
		g.p.Add(Step{Op: "itlast", It: it})
	case 3:
		g.p.Add(Step{Op: "itnext", It: it, Cnt: 1 + r.Intn(6)})
	case 4:
		g.p.Add(Step{Op: "itprev", It: it, Cnt: 1 + r.Intn(6)})
	case 5:
		g.p.Add(Step{Op: "itseek", It: it, K: g.key()})
	case 6:
		g.p.Add(Step{Op: "itreseek", It: it})
	case 7:
		g.p.Add(Step{Op: "itclose", It: it})
	}
}
