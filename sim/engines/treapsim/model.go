package treapsim

import (
	"bytes"
	"sort"
)

// pmodel is the reference ordered map: a persistent (copy-on-write) sorted
// array cut into chunks, so that keeping one model per retained treap version
// costs O(chunk + n/chunk) per update instead of O(n). A value of type pmodel
// is never modified after it was returned; put/del return a new value sharing
// the untouched chunks. It knows nothing about treaps, priorities or sizes of
// nodes: keys, values, order.
type kv struct {
	k, v []byte
}

const chunkMax = 48

type pmodel struct {
	chunks [][]kv // every chunk non-empty, keys strictly increasing across the whole structure
	n      int
	bytes  uint64 // sum over entries of len(k)+len(v)
}

var emptyModel = &pmodel{}

// locate returns (chunk index, index in chunk, found). When not found the
// position is where the key would be inserted (ci may equal len(chunks) only
// when there are no chunks).
func (m *pmodel) locate(k []byte) (int, int, bool) {
	if len(m.chunks) == 0 {
		return 0, 0, false
	}
	// last chunk whose first key <= k
	ci := sort.Search(len(m.chunks), func(i int) bool { return bytes.Compare(m.chunks[i][0].k, k) > 0 }) - 1
	if ci < 0 {
		return 0, 0, false
	}
	c := m.chunks[ci]
	j := sort.Search(len(c), func(i int) bool { return bytes.Compare(c[i].k, k) >= 0 })
	if j < len(c) && bytes.Equal(c[j].k, k) {
		return ci, j, true
	}
	return ci, j, false
}

func (m *pmodel) get(k []byte) ([]byte, bool) {
	ci, j, ok := m.locate(k)
	if !ok {
		return nil, false
	}
	return m.chunks[ci][j].v, true
}

func (m *pmodel) put(k, v []byte) *pmodel {
	if v == nil {
		v = []byte{}
	}
	out := &pmodel{n: m.n, bytes: m.bytes}
	if len(m.chunks) == 0 {
		out.chunks = [][]kv{{{k, v}}}
		out.n = 1
		out.bytes = uint64(len(k) + len(v))
		return out
	}
	ci, j, found := m.locate(k)
	old := m.chunks[ci]
	var nc []kv
	if found {
		nc = append([]kv(nil), old...)
		out.bytes -= uint64(len(old[j].v))
		out.bytes += uint64(len(v))
		nc[j] = kv{old[j].k, v}
	} else {
		nc = make([]kv, 0, len(old)+1)
		nc = append(nc, old[:j]...)
		nc = append(nc, kv{k, v})
		nc = append(nc, old[j:]...)
		out.n++
		out.bytes += uint64(len(k) + len(v))
	}
	if len(nc) > chunkMax {
		h := len(nc) / 2
		out.chunks = make([][]kv, 0, len(m.chunks)+1)
		out.chunks = append(out.chunks, m.chunks[:ci]...)
		out.chunks = append(out.chunks, nc[:h:h], nc[h:])
		out.chunks = append(out.chunks, m.chunks[ci+1:]...)
		return out
	}
	out.chunks = append([][]kv(nil), m.chunks...)
	out.chunks[ci] = nc
	return out
}

func (m *pmodel) del(k []byte) *pmodel {
	ci, j, found := m.locate(k)
	if !found {
		return m
	}
	old := m.chunks[ci]
	out := &pmodel{n: m.n - 1, bytes: m.bytes - uint64(len(old[j].k)+len(old[j].v))}
	if len(old) == 1 {
		out.chunks = make([][]kv, 0, len(m.chunks)-1)
		out.chunks = append(out.chunks, m.chunks[:ci]...)
		out.chunks = append(out.chunks, m.chunks[ci+1:]...)
		return out
	}
	nc := make([]kv, 0, len(old)-1)
	nc = append(nc, old[:j]...)
	nc = append(nc, old[j+1:]...)
	out.chunks = append([][]kv(nil), m.chunks...)
	out.chunks[ci] = nc
	return out
}

// each calls fn in key order until it returns false.
func (m *pmodel) each(fn func(e kv) bool) {
	for _, c := range m.chunks {
		for _, e := range c {
			if !fn(e) {
				return
			}
		}
	}
}

// ceil returns the smallest entry with key >= k (strict: > k).
func (m *pmodel) ceil(k []byte, strict bool) (kv, bool) {
	if len(m.chunks) == 0 {
		return kv{}, false
	}
	ci, j, found := m.locate(k)
	if found && strict {
		j++
	}
	for ci < len(m.chunks) {
		if j < len(m.chunks[ci]) {
			return m.chunks[ci][j], true
		}
		ci++
		j = 0
	}
	return kv{}, false
}

// floor returns the largest entry with key <= k (strict: < k).
func (m *pmodel) floor(k []byte, strict bool) (kv, bool) {
	if len(m.chunks) == 0 {
		return kv{}, false
	}
	ci, j, found := m.locate(k)
	if !found || strict {
		j-- // position before the insertion point / before the match
	}
	for ci >= 0 {
		if j >= 0 && j < len(m.chunks[ci]) {
			return m.chunks[ci][j], true
		}
		ci--
		if ci >= 0 {
			j = len(m.chunks[ci]) - 1
		}
	}
	return kv{}, false
}

func (m *pmodel) first() (kv, bool) {
	if len(m.chunks) == 0 {
		return kv{}, false
	}
	return m.chunks[0][0], true
}

func (m *pmodel) last() (kv, bool) {
	if len(m.chunks) == 0 {
		return kv{}, false
	}
	c := m.chunks[len(m.chunks)-1]
	return c[len(c)-1], true
}
