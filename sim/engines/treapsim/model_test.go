package treapsim

import (
	"bytes"
	"sort"
	"testing"

	"verif/sim/core"
)

// TestModel checks the persistent reference model against a plain Go map,
// including that old versions never change.
func TestModel(t *testing.T) {
	r := core.NewRng(7)
	type snap struct {
		m   *pmodel
		ref map[string]string
	}
	var snaps []snap
	cur := emptyModel
	ref := map[string]string{}
	check := func(m *pmodel, ref map[string]string) {
		var keys []string
		for k := range ref {
			keys = append(keys, k)
		}
		sort.Strings(keys)
		if m.n != len(keys) {
			t.Fatalf("n %d vs %d", m.n, len(keys))
		}
		i := 0
		var sz uint64
		m.each(func(e kv) bool {
			if string(e.k) != keys[i] || string(e.v) != ref[keys[i]] {
				t.Fatalf("pos %d", i)
			}
			sz += uint64(len(e.k) + len(e.v))
			i++
			return true
		})
		if i != len(keys) || sz != m.bytes {
			t.Fatalf("walk %d/%d size %d/%d", i, len(keys), sz, m.bytes)
		}
		for q := 0; q < 50; q++ {
			k := []byte{byte(r.Intn(40)), byte(r.Intn(3))}[:1+r.Intn(2)]
			for _, strict := range []bool{false, true} {
				j := sort.SearchStrings(keys, string(k))
				if strict && j < len(keys) && keys[j] == string(k) {
					j++
				}
				e, ok := m.ceil(k, strict)
				if ok != (j < len(keys)) || (ok && string(e.k) != keys[j]) {
					t.Fatalf("ceil %x strict=%v", k, strict)
				}
				j = sort.SearchStrings(keys, string(k)) // first >= k
				if !strict && j < len(keys) && keys[j] == string(k) {
					j++
				}
				j--
				e, ok = m.floor(k, strict)
				if ok != (j >= 0) || (ok && string(e.k) != keys[j]) {
					t.Fatalf("floor %x strict=%v got %x ok=%v want idx %d", k, strict, e.k, ok, j)
				}
			}
			v, ok := m.get(k)
			rv, rok := ref[string(k)]
			if ok != rok || (ok && !bytes.Equal(v, []byte(rv))) {
				t.Fatalf("get")
			}
		}
	}
	for i := 0; i < 6000; i++ {
		k := []byte{byte(r.Intn(40)), byte(r.Intn(3))}[:1+r.Intn(2)]
		if i > 3000 {
			k = append(k, r.Bytes(2)...)
		}
		if r.Bool(0.6) {
			v := r.Bytes(r.Intn(5))
			cur = cur.put(k, v)
			ref[string(k)] = string(v)
		} else {
			cur = cur.del(k)
			delete(ref, string(k))
		}
		if i%97 == 0 {
			cp := map[string]string{}
			for k, v := range ref {
				cp[k] = v
			}
			snaps = append(snaps, snap{cur, cp})
			check(cur, ref)
		}
	}
	for _, s := range snaps {
		check(s.m, s.ref)
	}
}
