// Package treapsim checks C19: the mutable treap behaves as an ordered map and
// every retained version of the immutable treap keeps answering as it did when
// it was produced. Real code: database/internal/treap (through the verif
// re-export in database/ffldb). The simulator owns the priority stream (the
// process-global math/rand is reseeded per run and a competing task draws from
// it at plan-chosen moments) and the interleaving of writer, reader and
// iterator steps; the op-sequence part is model-based testing on the same
// plan/shrink/replay machinery.
package treapsim

import (
	"bytes"
	"encoding/json"
	"fmt"
	"hash/fnv"
	"math/rand"
	"strconv"
	"time"

	"github.com/elastos/Elastos.ELA/database/ffldb"

	"verif/sim/core"
)

type Engine struct{}

func (Engine) Name() string { return "treapsim" }

func (Engine) Components() ([]string, []string) {
	return []string{"database/internal/treap Mutable, Immutable, Iterator (via database/ffldb verif re-export)", "process-global math/rand as the priority source (reseeded per run)"},
		[]string{"competing user of global math/rand = scheduled draw steps", "reader/writer tasks = serial interleaved steps (no goroutines)"}
}

type version struct {
	t  *ffldb.VerifImmutable
	m  *pmodel
	id int
}

type iterState struct {
	it      *ffldb.VerifIterator
	mutable bool
	ver     *version
	start   []byte
	limit   []byte
	isNew   bool
	valid   bool
	cur     []byte
	stale   bool // underlying mutable treap changed since the last ForceReseek
	// reseekArmed: ForceReseek was called while positioned and no Next/Prev consumed it yet;
	// repositioned: a First/Last/Seek happened while armed.
	reseekArmed  bool
	repositioned bool
}

type run struct {
	c         *core.Ctx
	ks        int
	enc       int
	mt        *ffldb.VerifMutable
	mm        *pmodel
	vers      []*version
	its       [iterSlots]*iterState
	nodeConst int64 // per-node overhead learnt from the first insertion; -1 unknown
	stop      bool
	hung      bool // a step exceeded opDeadline; its goroutine was abandoned
}

func (r *run) key(idx int) []byte {
	if idx < 0 {
		return nil
	}
	if idx == r.ks {
		return []byte{}
	}
	if idx > r.ks {
		return []byte{0xff, 0xff, 0xff}
	}
	s := uint32(idx+1) * 2654435761
	switch r.enc {
	case 1:
		return []byte{0, byte(idx >> 16), byte(idx >> 8), byte(idx)}
	case 2:
		return append([]byte("bucket/prefix/shared/"), byte(s>>24), byte(s>>16), byte(s>>8), byte(s))
	}
	h := strconv.FormatUint(uint64(s), 16)
	l := 2 + int(s>>5)%7
	if l < len(h) {
		h = h[:l]
	}
	return []byte(h)
}

func val(v, n int) []byte {
	if n < 0 {
		return nil
	}
	b := make([]byte, n)
	for i := range b {
		b[i] = byte(v*31 + i*7 + 1)
	}
	return b
}

func (e Engine) Execute(c *core.Ctx) {
	p := c.Plan
	steps := make([]Step, len(p.Steps))
	for i, raw := range p.Steps {
		if err := json.Unmarshal(raw, &steps[i]); err != nil {
			panic(fmt.Sprintf("bad step %d: %v", i, err))
		}
	}
	sample := p.Steps
	if len(sample) > 10 {
		sample = sample[:10]
	}
	c.SetSample(map[string]interface{}{"knobs": p.Knobs, "steps": sample})
	r := &run{c: c, ks: int(p.Knob("keyspace", 16)), enc: int(p.Knob("keyenc", 0)), nodeConst: -1}
	if r.ks < 1 {
		r.ks = 1
	}
	// The treap draws node priorities from the process-global generator.
	rand.Seed(p.Knob("randseed", 1))
	r.mt = ffldb.VerifNewMutable()
	r.mm = emptyModel
	r.vers = []*version{{t: ffldb.VerifNewImmutable(), m: emptyModel}}
	r.checkSizes("init", r.mt.Len(), r.mt.Size(), r.mm)
	r.checkSizes("init", r.vers[0].t.Len(), r.vers[0].t.Size(), emptyModel)
	for i := range steps {
		c.CurStep = i
		r.guard(steps[i].Op, func() { r.step(&steps[i]) })
		if r.stop {
			break
		}
	}
	c.CurStep = len(steps) - 1
	if !r.stop {
		r.guard("final", func() { r.recheckAll("final") })
	}
}

// opDeadline bounds one step in real time. Treap operations on a few dozen
// keys take microseconds; a step that is still running after this long is
// walking a structure that has become cyclic (an ordered map whose walk or
// lookup does not end is a C19 violation, not harness trouble).
const opDeadline = 20 * time.Second

func (r *run) guard(op string, f func()) {
	done := make(chan interface{}, 1)
	go func() {
		defer func() { done <- recover() }()
		f()
	}()
	select {
	case x := <-done:
		if x != nil {
			r.c.Check()
			r.c.Violate("C19", "no-panic", "C19/panic/"+op, "panic in treap code during %s: %v", op, x)
			// state of model and treap may have diverged: stop this run
			r.stop = true
		}
	case <-time.After(opDeadline):
		// the step's goroutine is abandoned (it keeps spinning until the
		// worker process ends); nothing else of this run is executed
		r.c.Check()
		r.c.Violate("C19", "terminates", "C19/operation-does-not-terminate/"+op, "treap operation %s still running after %v: the structure no longer is a finite tree", op, opDeadline)
		r.stop = true
		r.hung = true
	}
}

func (r *run) fail(oracle, sig, format string, a ...interface{}) {
	if r.c.Violate("C19", oracle, sig, format, a...) {
		r.stop = true
	}
}

func (r *run) pickVer(sel int) *version {
	if sel < 0 {
		sel = -sel
	}
	return r.vers[len(r.vers)-1-sel%len(r.vers)]
}

// expectedSize is Σ(len k + len v) + n·const, with const learnt from the first insertion.
func (r *run) checkSizes(what string, gotLen int, gotSize uint64, m *pmodel) {
	c := r.c
	c.Check()
	if gotLen != m.n {
		r.fail("ordered-map", "C19/len-mismatch", "%s: Len()=%d, model has %d keys", what, gotLen, m.n)
	}
	if m.n == 0 {
		c.Check()
		if gotSize != 0 {
			r.fail("size", "C19/size/empty-not-zero", "%s: Size()=%d for an empty treap", what, gotSize)
		}
		return
	}
	if r.nodeConst < 0 {
		return
	}
	c.Check()
	want := m.bytes + uint64(m.n)*uint64(r.nodeConst)
	if gotSize != want {
		r.fail("size", "C19/size/not-sum-of-entries", "%s: Size()=%d, want %d (%d keys, %d key+value bytes, per-node constant %d learnt from the first insertion)", what, gotSize, want, m.n, m.bytes, r.nodeConst)
	}
}

func (r *run) learnConst(before *pmodel, k, v []byte, sizeAfter uint64) {
	if r.nodeConst >= 0 || before.n != 0 {
		return
	}
	d := int64(sizeAfter) - int64(len(k)+len(v))
	if d >= 0 {
		r.nodeConst = d
		r.c.Logf("node-const %d", d)
	} else {
		r.fail("size", "C19/size/first-insert-smaller-than-entry", "first insertion of %d+%d bytes gives Size()=%d", len(k), len(v), sizeAfter)
	}
}

// checkGet compares a point lookup with the model, including the documented
// nil / empty-slice distinction.
func (r *run) checkGet(what string, got []byte, has bool, m *pmodel, k []byte) {
	c := r.c
	want, ok := m.get(k)
	c.Check()
	if has != ok {
		r.fail("ordered-map", "C19/has-mismatch/"+kind(what), "%s: Has(%x)=%v, model %v", what, k, has, ok)
	}
	c.Check()
	if !ok {
		if got != nil {
			r.fail("ordered-map", "C19/get-absent-returns-value/"+kind(what), "%s: Get(%x) of an absent key returned %d bytes", what, k, len(got))
		}
		return
	}
	if got == nil {
		r.fail("ordered-map", "C19/get-present-returns-nil/"+kind(what), "%s: Get(%x) returned nil, model has %d bytes", what, k, len(want))
		return
	}
	if !bytes.Equal(got, want) {
		r.fail("ordered-map", "C19/get-wrong-value/"+kind(what), "%s: Get(%x) returned %d bytes %x.., model %d bytes %x..", what, k, len(got), head(got), len(want), head(want))
	}
}

func head(b []byte) []byte {
	if len(b) > 8 {
		return b[:8]
	}
	return b
}

// kind strips the version number from a description so signatures stay stable.
func kind(what string) string {
	for i := 0; i < len(what); i++ {
		if what[i] == '#' || what[i] == ' ' {
			return what[:i]
		}
	}
	return what
}

type orderedMap interface {
	Len() int
	Size() uint64
	Get(key []byte) []byte
	Has(key []byte) bool
	ForEach(fn func(k, v []byte) bool)
}

// fullCheck walks the real treap in order and compares every pair with the model.
func (r *run) fullCheck(what string, t orderedMap, m *pmodel) {
	c := r.c
	r.checkSizes(what, t.Len(), t.Size(), m)
	var want []kv
	m.each(func(e kv) bool { want = append(want, e); return true })
	i := 0
	bad := ""
	t.ForEach(func(k, v []byte) bool {
		c.Check()
		if i >= len(want) {
			bad = fmt.Sprintf("extra key %x at position %d (model has %d)", k, i, len(want))
			return false
		}
		if !bytes.Equal(k, want[i].k) {
			bad = fmt.Sprintf("position %d: key %x, model %x", i, k, want[i].k)
			return false
		}
		if v == nil || !bytes.Equal(v, want[i].v) {
			bad = fmt.Sprintf("position %d key %x: value %x.. (nil=%v, %d bytes), model %x.. (%d bytes)", i, k, head(v), v == nil, len(v), head(want[i].v), len(want[i].v))
			return false
		}
		i++
		return true
	})
	c.Check()
	if bad == "" && i != len(want) {
		bad = fmt.Sprintf("ForEach visited %d pairs, model has %d", i, len(want))
	}
	if bad != "" {
		sig := "C19/ordered-walk-mismatch/" + kind(what)
		if kind(what) == "immutable-old" {
			sig = "C19/persistence/old-version-changed"
		}
		r.fail("ordered-map", sig, "%s: %s", what, bad)
	}
}

func (r *run) recheckAll(tag string) {
	r.fullCheck("mutable "+tag, r.mt, r.mm)
	newest := len(r.vers) - 1
	for i, v := range r.vers {
		if i == newest {
			r.fullCheck(fmt.Sprintf("immutable-newest#%d %s", v.id, tag), v.t, v.m)
		} else {
			r.c.Fault("old-version-rechecked-after-later-update")
			r.fullCheck(fmt.Sprintf("immutable-old#%d %s", v.id, tag), v.t, v.m)
		}
		if r.stop {
			return
		}
	}
	r.c.Logf("recheck %s versions=%d mlen=%d", tag, len(r.vers), r.mm.n)
}

func (r *run) fp() {
	h := fnv.New64a()
	fmt.Fprintf(h, "%d/%d/%d/%d", r.mm.n, r.mm.bytes, len(r.vers), r.vers[len(r.vers)-1].m.bytes)
	r.c.State(h.Sum64())
}

func (r *run) mutated() {
	any := false
	for _, it := range r.its {
		if it != nil && it.mutable {
			it.stale = true
			any = true
		}
	}
	if any {
		r.c.Fault("mutation-under-open-iterator")
	}
}

func (r *run) mput(k, v []byte) {
	before := r.mm
	r.mt.Put(k, v)
	r.mm = r.mm.put(k, v)
	r.learnConst(before, k, v, r.mt.Size())
	if _, ok := before.get(k); ok {
		r.c.Probe("overwrite")
	}
	if v == nil {
		r.c.Probe("nil-value")
	}
}

func (r *run) iput(base *version, k, v []byte) *version {
	nt := base.t.Put(k, v)
	nv := &version{t: nt, m: base.m.put(k, v), id: len(r.vers)}
	r.learnConst(base.m, k, v, nt.Size())
	r.vers = append(r.vers, nv)
	return nv
}

func (r *run) step(s *Step) {
	c := r.c
	switch s.Op {
	case "rand":
		// the competing task: other users of the global generator shift the priority stream
		for i := 0; i < s.Cnt; i++ {
			_ = rand.Int()
		}
		c.Fault("competing-rand-draw")
		c.Logf("rand %d", s.Cnt)
	case "mput":
		k, v := r.key(s.K), val(s.V, s.N)
		r.mput(k, v)
		r.mutated()
		r.checkSizes("mutable", r.mt.Len(), r.mt.Size(), r.mm)
		r.checkGet("mutable", r.mt.Get(k), r.mt.Has(k), r.mm, k)
		c.Logf("mput %x %d len=%d", k, len(v), r.mt.Len())
		r.fp()
	case "mdel":
		k := r.key(s.K)
		if _, ok := r.mm.get(k); !ok {
			c.Probe("delete-absent")
		}
		r.mt.Delete(k)
		r.mm = r.mm.del(k)
		r.mutated()
		r.checkSizes("mutable", r.mt.Len(), r.mt.Size(), r.mm)
		r.checkGet("mutable", r.mt.Get(k), r.mt.Has(k), r.mm, k)
		c.Logf("mdel %x len=%d", k, r.mt.Len())
		r.fp()
	case "mget", "mhas":
		k := r.key(s.K)
		r.checkGet("mutable", r.mt.Get(k), r.mt.Has(k), r.mm, k)
		c.Logf("mget %x %v", k, r.mt.Has(k))
	case "mlen":
		r.checkSizes("mutable", r.mt.Len(), r.mt.Size(), r.mm)
		c.Logf("mlen %d %d", r.mt.Len(), r.mt.Size())
	case "mreset":
		r.mt.Reset()
		r.mm = emptyModel
		r.mutated()
		r.checkSizes("mutable", r.mt.Len(), r.mt.Size(), r.mm)
		c.Logf("mreset")
	case "mforeach":
		if s.Cnt == 0 {
			r.fullCheck("mutable", r.mt, r.mm)
		} else {
			r.partialForEach("mutable", r.mt, r.mm, s.Cnt)
		}
		c.Logf("mforeach %d", s.Cnt)
	case "mfill":
		n := 0
		for i := 0; i < s.Cnt; i++ {
			idx := (s.K + i*s.A) % r.ks
			k := r.key(idx)
			r.mput(k, val(idx, 1+idx%23))
			n++
		}
		r.mutated()
		r.checkSizes("mutable", r.mt.Len(), r.mt.Size(), r.mm)
		c.Logf("mfill %d len=%d", n, r.mt.Len())
		r.fp()
	case "ifill":
		cur := r.vers[len(r.vers)-1]
		for i := 0; i < s.Cnt; i++ {
			idx := (s.K + i*s.A) % r.ks
			k := r.key(idx)
			base := cur
			cur = r.iput(base, k, val(idx+3, 1+idx%17))
			// light persistence check on the version just derived from
			r.checkSizes(fmt.Sprintf("immutable-old#%d", base.id), base.t.Len(), base.t.Size(), base.m)
			r.checkGet(fmt.Sprintf("immutable-old#%d", base.id), base.t.Get(k), base.t.Has(k), base.m, k)
			r.checkSizes(fmt.Sprintf("immutable-newest#%d", cur.id), cur.t.Len(), cur.t.Size(), cur.m)
			if r.stop {
				return
			}
		}
		c.Logf("ifill %d versions=%d len=%d", s.Cnt, len(r.vers), cur.t.Len())
		r.fp()
	case "iput", "idel":
		base := r.pickVer(s.Ver)
		k := r.key(s.K)
		var nv *version
		if s.Op == "iput" {
			v := val(s.V, s.N)
			if _, ok := base.m.get(k); ok {
				c.Probe("overwrite")
			}
			if v == nil {
				c.Probe("nil-value")
			}
			nv = r.iput(base, k, v)
		} else {
			if _, ok := base.m.get(k); !ok {
				c.Probe("delete-absent")
			}
			nv = &version{t: base.t.Delete(k), m: base.m.del(k), id: len(r.vers)}
			r.vers = append(r.vers, nv)
		}
		if base != r.vers[len(r.vers)-2] {
			c.Fault("derived-from-old-version")
		}
		what := fmt.Sprintf("immutable-newest#%d", nv.id)
		r.checkSizes(what, nv.t.Len(), nv.t.Size(), nv.m)
		r.checkGet(what, nv.t.Get(k), nv.t.Has(k), nv.m, k)
		// persistence: the version derived from must answer as before, completely
		c.Fault("old-version-rechecked-after-later-update")
		r.fullCheck(fmt.Sprintf("immutable-old#%d", base.id), base.t, base.m)
		if nv.m.n <= 64 {
			r.fullCheck(what, nv.t, nv.m)
		}
		c.Logf("%s base=%d %x -> v%d len=%d", s.Op, base.id, k, nv.id, nv.t.Len())
		r.fp()
	case "iget", "ihas":
		v := r.pickVer(s.Ver)
		k := r.key(s.K)
		what := "immutable-old"
		if v == r.vers[len(r.vers)-1] {
			what = "immutable-newest"
		} else {
			c.Fault("reader-on-old-version")
		}
		r.checkGet(fmt.Sprintf("%s#%d", what, v.id), v.t.Get(k), v.t.Has(k), v.m, k)
		c.Logf("iget v%d %x %v", v.id, k, v.t.Has(k))
	case "iforeach":
		v := r.pickVer(s.Ver)
		what := "immutable-old"
		if v == r.vers[len(r.vers)-1] {
			what = "immutable-newest"
		} else {
			c.Fault("reader-on-old-version")
		}
		r.partialForEach(fmt.Sprintf("%s#%d", what, v.id), v.t, v.m, s.Cnt)
		c.Logf("iforeach v%d %d", v.id, s.Cnt)
	case "reader":
		r.reader(s)
	case "recheck":
		r.recheckAll("step")
	case "itopen", "itfirst", "itlast", "itnext", "itprev", "itseek", "itreseek", "itclose":
		r.iterStep(s)
	default:
		panic("unknown op " + s.Op)
	}
}

// partialForEach stops the walk after stop pairs (ForEach's early exit).
func (r *run) partialForEach(what string, t orderedMap, m *pmodel, stop int) {
	var want []kv
	m.each(func(e kv) bool { want = append(want, e); return len(want) < stop })
	i := 0
	bad := ""
	t.ForEach(func(k, v []byte) bool {
		r.c.Check()
		if i >= len(want) {
			bad = fmt.Sprintf("callback %d after it returned false / past the end (model %d)", i, len(want))
			return false
		}
		if !bytes.Equal(k, want[i].k) || v == nil || !bytes.Equal(v, want[i].v) {
			bad = fmt.Sprintf("position %d: key %x value %x.., model key %x value %x..", i, k, head(v), want[i].k, head(want[i].v))
			return false
		}
		i++
		return i < stop
	})
	r.c.Check()
	if bad == "" && i != len(want) {
		bad = fmt.Sprintf("ForEach visited %d pairs, expected %d (stop after %d)", i, len(want), stop)
	}
	if bad != "" {
		r.fail("ordered-map", "C19/foreach-early-exit-mismatch/"+kind(what), "%s: %s", what, bad)
	}
}

// reader: a reader task scans one retained version completely with a fresh
// iterator (forwards or backwards), as ffldb snapshot readers do.
func (r *run) reader(s *Step) {
	c := r.c
	v := r.pickVer(s.Ver)
	what := "immutable-newest"
	if v != r.vers[len(r.vers)-1] {
		what = "immutable-old"
		c.Fault("reader-on-old-version")
	}
	var want []kv
	v.m.each(func(e kv) bool { want = append(want, e); return true })
	it := v.t.Iterator(nil, nil)
	i := 0
	bad := ""
	if s.A == 0 {
		for ok := it.First(); ok; ok = it.Next() {
			c.Check()
			if i >= len(want) || !bytes.Equal(it.Key(), want[i].k) || !bytes.Equal(it.Value(), want[i].v) {
				bad = fmt.Sprintf("forward position %d: key %x", i, it.Key())
				break
			}
			i++
		}
	} else {
		for ok := it.Last(); ok; ok = it.Prev() {
			c.Check()
			j := len(want) - 1 - i
			if j < 0 || !bytes.Equal(it.Key(), want[j].k) || !bytes.Equal(it.Value(), want[j].v) {
				bad = fmt.Sprintf("backward position %d: key %x", i, it.Key())
				break
			}
			i++
		}
	}
	c.Check()
	if bad == "" && i != len(want) {
		bad = fmt.Sprintf("scan produced %d pairs, model has %d", i, len(want))
	}
	if bad == "" && it.Valid() {
		bad = "iterator still valid after exhaustion"
	}
	if bad != "" {
		sig := "C19/iter/scan-mismatch/" + what
		if what == "immutable-old" {
			sig = "C19/persistence/old-version-scan-changed"
		}
		r.fail("ordered-iteration", sig, "%s#%d dir=%d: %s", what, v.id, s.A, bad)
	}
	c.Logf("reader v%d dir=%d n=%d", v.id, s.A, i)
}

func (r *run) model(it *iterState) *pmodel {
	if it.mutable {
		return r.mm
	}
	return it.ver.m
}

func inRange(it *iterState, k []byte) bool {
	if it.start != nil && bytes.Compare(k, it.start) < 0 {
		return false
	}
	if it.limit != nil && bytes.Compare(k, it.limit) >= 0 {
		return false
	}
	return true
}

func (r *run) iterStep(s *Step) {
	c := r.c
	slot := s.It % iterSlots
	if slot < 0 {
		slot = -slot
	}
	if s.Op == "itopen" {
		st := &iterState{isNew: true, start: r.key(s.A), limit: r.key(s.B)}
		if s.Ver < 0 {
			st.mutable = true
			st.it = r.mt.Iterator(st.start, st.limit)
		} else {
			st.ver = r.pickVer(s.Ver)
			st.it = st.ver.t.Iterator(st.start, st.limit)
		}
		r.its[slot] = st
		if st.start != nil || st.limit != nil {
			c.Probe("range-limited-iterator")
		}
		c.Logf("itopen %d mutable=%v [%x,%x)", slot, st.mutable, st.start, st.limit)
		return
	}
	st := r.its[slot]
	if st == nil {
		c.Logf("%s %d (no iterator)", s.Op, slot)
		return
	}
	if s.Op == "itclose" {
		r.its[slot] = nil
		c.Logf("itclose %d", slot)
		return
	}
	kindName := "immutable"
	if st.mutable {
		kindName = "mutable"
	} else if st.ver != r.vers[len(r.vers)-1] {
		c.Fault("reader-on-old-version")
	}
	m := r.model(st)
	reseek := func() {
		st.it.ForceReseek()
		if st.mutable {
			st.stale = false
			if st.valid {
				st.reseekArmed = true
				st.repositioned = false
			} else {
				st.reseekArmed = false
			}
			c.Probe("force-reseek")
		}
	}
	// The contract: after the treap was mutated ForceReseek must be called
	// before the iterator is used again. The harness always honours it.
	if st.stale {
		reseek()
	}
	if s.Op == "itreseek" {
		reseek()
		c.Logf("itreseek %d", slot)
		return
	}
	// one positioning call, compared with the model
	var do func(op string, seek []byte)
	do = func(op string, seek []byte) {
		var got bool
		var wantValid bool
		var wantKey []byte
		altOK := false // Seek below the range start: contract is silent, two answers accepted
		var altValid bool
		switch op {
		case "first":
			got = st.it.First()
			var e kv
			var ok bool
			if st.start != nil {
				e, ok = m.ceil(st.start, false)
			} else {
				e, ok = m.first()
			}
			wantValid = ok && inRange(st, e.k)
			wantKey = e.k
		case "last":
			got = st.it.Last()
			var e kv
			var ok bool
			if st.limit != nil {
				e, ok = m.floor(st.limit, true)
			} else {
				e, ok = m.last()
			}
			wantValid = ok && inRange(st, e.k)
			wantKey = e.k
		case "seek":
			got = st.it.Seek(seek)
			from := seek
			if st.start != nil && bytes.Compare(seek, st.start) < 0 {
				// clamped answer expected; the unclamped "nothing" also accepted
				from = st.start
				e, ok := m.ceil(seek, false)
				if !(ok && inRange(st, e.k)) {
					altOK, altValid = true, false
				}
				c.Probe("seek-below-range-start")
			}
			e, ok := m.ceil(from, false)
			wantValid = ok && inRange(st, e.k)
			wantKey = e.k
		case "next":
			if st.isNew {
				do("first", nil)
				return
			}
			got = st.it.Next()
			if st.valid {
				e, ok := m.ceil(st.cur, true)
				wantValid = ok && inRange(st, e.k)
				wantKey = e.k
			}
		case "prev":
			if st.isNew {
				do("last", nil)
				return
			}
			got = st.it.Prev()
			if st.valid {
				e, ok := m.floor(st.cur, true)
				wantValid = ok && inRange(st, e.k)
				wantKey = e.k
			}
		}
		stepAfterRepos := (op == "next" || op == "prev") && st.reseekArmed && st.repositioned
		switch op {
		case "first", "last", "seek":
			st.isNew = false
			if st.reseekArmed {
				st.repositioned = true
				c.Probe("reposition-after-force-reseek")
			}
		case "next", "prev":
			// a step from an exhausted position does not consume the pending
			// reseek (there is nothing to step from), so the shape stays armed
			if st.valid {
				st.reseekArmed, st.repositioned = false, false
			}
		}
		if !wantValid {
			wantKey = nil
		}
		c.Check()
		gotKey := st.it.Key()
		okMain := got == wantValid && st.it.Valid() == wantValid && bytes.Equal(gotKey, wantKey) && (wantValid || gotKey == nil)
		okAlt := altOK && got == altValid && st.it.Valid() == altValid && gotKey == nil
		if okAlt && !okMain {
			c.Probe("seek-below-range-start-unclamped")
			st.valid, st.cur = false, nil
			return
		}
		if !okMain {
			// Signature = the input shape, so that each defect class keeps its own identity.
			sig := fmt.Sprintf("C19/iter/%s/%s-mismatch", kindName, op)
			if !st.mutable && st.ver != r.vers[len(r.vers)-1] {
				sig += "/old-version"
			}
			switch {
			case stepAfterRepos:
				sig = fmt.Sprintf("C19/iter/%s/step-after-reposition-following-ForceReseek", kindName)
			case (op == "first" || op == "last") && !got && !wantValid && st.it.Valid() && m.n == 0:
				sig = fmt.Sprintf("C19/iter/%s/First-or-Last-on-emptied-treap-returns-false-but-stays-valid", kindName)
			case op == "first" && st.start == nil && st.limit != nil && got && !wantValid && gotKey != nil && bytes.Compare(gotKey, st.limit) >= 0:
				sig = "C19/iter/First-without-start-key-ignores-limit"
			case op == "last" && st.limit == nil && st.start != nil && got && !wantValid && gotKey != nil && bytes.Compare(gotKey, st.start) < 0:
				sig = "C19/iter/Last-without-limit-key-ignores-start"
			}
			r.fail("ordered-iteration", sig, "iterator %d (%s, range [%x,%x)) %s(%x) from key %x: returned %v valid=%v key=%x, ordered map says valid=%v key=%x", slot, kindName, st.start, st.limit, op, seek, st.cur, got, st.it.Valid(), gotKey, wantValid, wantKey)
			// resynchronise: drop this iterator so one defect is not reported under many shapes
			r.its[slot] = nil
			st.valid = false
			return
		}
		if wantValid {
			c.Check()
			wv, _ := m.get(wantKey)
			if gv := st.it.Value(); gv == nil || !bytes.Equal(gv, wv) {
				r.fail("ordered-iteration", fmt.Sprintf("C19/iter/%s/value-mismatch", kindName), "iterator %d %s at key %x: value %x.. (nil=%v), model %x..", slot, op, wantKey, head(gv), gv == nil, head(wv))
			}
		} else {
			c.Check()
			if st.it.Value() != nil {
				r.fail("ordered-iteration", fmt.Sprintf("C19/iter/%s/value-when-exhausted", kindName), "iterator %d %s exhausted but Value() non-nil", slot, op)
			}
		}
		st.valid = wantValid
		st.cur = append([]byte(nil), wantKey...)
		if !wantValid {
			st.cur = nil
		}
	}
	switch s.Op {
	case "itfirst":
		do("first", nil)
	case "itlast":
		do("last", nil)
	case "itseek":
		k := r.key(s.K)
		if k == nil {
			k = []byte{}
		}
		if len(m.chunks) > 0 {
			if l, _ := m.last(); bytes.Compare(k, l.k) > 0 {
				c.Probe("seek-beyond-last")
			}
		}
		do("seek", k)
	case "itnext", "itprev":
		op := "next"
		if s.Op == "itprev" {
			op = "prev"
		}
		for i := 0; i < s.Cnt && r.its[slot] == st && !r.stop; i++ {
			do(op, nil)
		}
	}
	c.Logf("%s %d -> valid=%v key=%x", s.Op, slot, st.valid, st.cur)
}
