package chainsim

import (
	"bytes"
	"fmt"
	"sort"

	"github.com/elastos/Elastos.ELA/blockchain"
	"github.com/elastos/Elastos.ELA/common"
	"github.com/elastos/Elastos.ELA/core/types"
	"github.com/elastos/Elastos.ELA/database"
)

// checkCaches is the C15 oracle: every cache in front of persistent data gives
// the same answer as the uncached lookup that the code itself offers, whatever
// the eviction / cleaning schedule, and stays within its configured bound.
//   - transaction reference cache: UTXOCache.GetTxReference vs ChainStore.GetTxReference
//   - indexed transaction cache:   GetTransaction (UnspentIndex.FetchTx, cache first)
//     vs the transaction decoded from the raw block bytes in the database
//   - decoded block cache:         ChainStoreFFLDB.GetBlock vs decode of Tx.FetchBlock
//
// (the serialized-block send cache of the P2P layer belongs to wiresim)
func (s *sim) checkCaches(tip *mBlock) {
	c := s.c
	c.Check()
	chain, store := s.node.chain, s.node.store
	ffl := store.GetFFLDB()
	// sample: every transaction the run knows whose inputs the active chain may resolve
	var ids []common.Uint256
	for id := range s.txs {
		ids = append(ids, id)
	}
	sort.Slice(ids, func(i, j int) bool { return string(ids[i][:]) < string(ids[j][:]) })
	cs, _ := store.(*blockchain.ChainStore)
	for _, id := range ids {
		info := s.txs[id]
		cached, cerr := chain.UTXOCache.GetTxReference(info.tx)
		if cs == nil {
			break
		}
		plain, perr := cs.GetTxReference(info.tx)
		if (cerr == nil) != (perr == nil) {
			if cerr == nil {
				c.Violate("C15", "reference-cache", "C15/reference-cache-serves-what-the-store-cannot-resolve", "UTXOCache.GetTxReference(%x) succeeds but the uncached ChainStore.GetTxReference fails: %v (stale reference survived?)", id[:6], perr)
			} else {
				c.Violate("C15", "reference-cache", "C15/reference-cache-fails-where-the-store-resolves", "UTXOCache.GetTxReference(%x): %v, uncached lookup succeeds", id[:6], cerr)
			}
			return
		}
		if cerr != nil {
			continue
		}
		for in, out := range cached {
			p, ok := plain[in]
			if !ok || p.Value != out.Value || p.ProgramHash != out.ProgramHash || p.OutputLock != out.OutputLock {
				c.Violate("C15", "reference-cache", "C15/reference-cache-differs-from-store", "UTXOCache.GetTxReference(%x) input %x:%d gives %d/%x, uncached %v", id[:6], in.Previous.TxID[:4], in.Previous.Index, out.Value, out.ProgramHash[:4], p)
				return
			}
		}
	}
	// decoded block cache and indexed transaction cache vs raw bytes
	for _, b := range tip.chain() {
		got, err := ffl.GetBlock(b.hash)
		if err != nil {
			c.Violate("C15", "block-cache", "C15/block-cache-lookup-fails", "GetBlock(h=%d): %v", b.height, err)
			return
		}
		var raw []byte
		ffl.View(func(tx database.Tx) error {
			r, e := tx.FetchBlock(&b.hash)
			raw = append([]byte(nil), r...)
			return e
		})
		plain := new(types.DposBlock)
		if err := plain.Deserialize(bytes.NewReader(raw)); err != nil {
			c.Violate("C15", "block-cache", "C15/stored-block-does-not-decode", "raw block h=%d: %v", b.height, err)
			return
		}
		var b1, b2 bytes.Buffer
		got.Serialize(&b1)
		plain.Serialize(&b2)
		if !bytes.Equal(b1.Bytes(), b2.Bytes()) {
			c.Violate("C15", "block-cache", "C15/block-cache-differs-from-store", "GetBlock(h=%d) differs from the block decoded from the database", b.height)
			return
		}
		for _, tx := range plain.Transactions {
			id := tx.Hash()
			ct, h, err := ffl.GetTransaction(id)
			if err != nil || ct == nil {
				c.Violate("C15", "tx-cache", "C15/tx-cache-lookup-fails", "GetTransaction(%x) of block h=%d: %v", id[:6], b.height, err)
				return
			}
			var t1, t2 bytes.Buffer
			ct.Serialize(&t1)
			tx.Serialize(&t2)
			if h != b.height || !bytes.Equal(t1.Bytes(), t2.Bytes()) {
				c.Violate("C15", "tx-cache", "C15/tx-cache-differs-from-store", "GetTransaction(%x) = height %d / %d bytes, the block in the database has it at %d / %d bytes", id[:6], h, t1.Len(), b.height, t2.Len())
				return
			}
		}
	}
	// bounds, over every map the caches own
	refs, inputs, txs := blockchain.VerifUTXOCacheStats(chain.UTXOCache)
	max := blockchain.MaxReferenceSize
	if refs > max || inputs > max || txs > max+1 {
		c.Violate("C15", "bounds", "C15/reference-cache-exceeds-bound", "reference cache holds %d references / %d list entries / %d transactions, bound %d", refs, inputs, txs, max)
		return
	}
	if refs != inputs {
		c.Violate("C15", "bounds", "C15/reference-cache-map-and-list-disagree", "reference map has %d entries, its eviction list %d", refs, inputs)
		return
	}
	if refs >= max && max < 1000 {
		c.Probe("reference-cache-at-its-bound")
	}
	blocks, hashes := blockchain.VerifBlocksCacheStats(ffl)
	if blocks > blockchain.BlocksCacheSize || hashes > blockchain.BlocksCacheSize {
		c.Violate("C15", "bounds", "C15/block-cache-exceeds-bound", fmt.Sprintf("decoded block cache holds %d blocks / %d hashes, bound %d", blocks, hashes, blockchain.BlocksCacheSize))
	}
}
