package chainsim

import (
	"bytes"
	"fmt"
	"math"
	"math/big"
	"sort"

	"github.com/elastos/Elastos.ELA/common"
	"github.com/elastos/Elastos.ELA/core"
	"github.com/elastos/Elastos.ELA/core/contract"
	pg "github.com/elastos/Elastos.ELA/core/contract/program"
	"github.com/elastos/Elastos.ELA/core/transaction"
	"github.com/elastos/Elastos.ELA/core/types"
	common2 "github.com/elastos/Elastos.ELA/core/types/common"
	"github.com/elastos/Elastos.ELA/core/types/interfaces"
	"github.com/elastos/Elastos.ELA/core/types/outputpayload"
	"github.com/elastos/Elastos.ELA/core/types/payload"
	"github.com/elastos/Elastos.ELA/crypto"
)

// TxSpec describes a transaction relative to the ledger view it is built on;
// every selector is taken modulo what exists there, so a spec stays meaningful
// when earlier steps are removed by the shrinker.
type TxSpec struct {
	From   int   `json:"from"`
	InKind int   `json:"ink,omitempty"`  // 0 own utxos; 1 an already-spent outpoint; 2 a never-created outpoint; 3 another actor's utxo; 4 one own utxo twice; 5 own utxo + already spent
	InSel  []int `json:"ins,omitempty"`  // selectors into the sorted candidate list
	To     []int `json:"to,omitempty"`   // receiving actors
	Split  []int `json:"split,omitempty"` // per-mille of the input total per output (rest: change to From)
	Fee    int64 `json:"fee,omitempty"`   // sela
	Amt    int   `json:"amt,omitempty"`   // 0 conserve; 1 four outputs of 2^62; 2 one output 2^63-1 + one small; 3 a negative output; 4 outputs exceed inputs by 1 sela; 5 a zero-value output added; 6 two outputs of 2^62; 7 fee one below minimum
	Wd     *WdSpec `json:"wd,omitempty"` // a side-chain withdrawal instead of a transfer (withdraw.go)
	Seq    int     `json:"seq,omitempty"` // input sequence number (all inputs)
	Wide   int     `json:"wide,omitempty"` // the last output is split into this many more outputs (output indexes past 255)
	force  []outpoint // harness-internal: spend exactly these outpoints
	Sign   int   `json:"sign,omitempty"`  // 0 owner signs; 1 another key signs with its own code; 2 content altered after signing; 3 no program; 4 another actor's code with owner's signature; 5 valid signature of a different transaction
}

type txInfo struct {
	tx    interfaces.Transaction
	facts *txFacts
	outs  []mOut
	spec  TxSpec
	// nodeFee: inputs minus outputs as a verifier reading the parent ledger
	// would compute it, for Byzantine transactions the model does not price
	nodeFee *big.Int
}

func (s *sim) actorOf(ph common.Uint168) int {
	for _, a := range s.actors {
		if a.acc.ProgramHash == ph {
			return a.idx
		}
	}
	return -1
}

func mod(i, n int) int {
	if n <= 0 {
		return 0
	}
	i %= n
	if i < 0 {
		i += n
	}
	return i
}

// makeTx builds and signs a transfer according to spec on the given view.
// Returns nil when the view offers nothing to build it from.
func (s *sim) makeTx(v *view, spec TxSpec) *txInfo {
	if spec.Wd != nil {
		return s.makeWithdraw(v, spec)
	}
	from := s.actors[mod(spec.From, len(s.actors))]
	own := v.utxosOf(from.idx)
	// honest wallets spend mature outputs; InKind 8 is the Byzantine client
	// that deliberately picks an immature coinbase output
	{
		var mature, immature []outpoint
		for _, op := range own {
			o := v.utxo[op]
			if o.cbHeight >= 0 && int64(s.buildHeight)-1-o.cbHeight < int64(s.node.cfg.PowConfiguration.CoinbaseMaturity) {
				immature = append(immature, op)
			} else {
				mature = append(mature, op)
			}
		}
		if spec.InKind == 8 {
			own = immature
			spec.InKind = 0
		} else if len(mature) > 0 {
			own = mature
		}
	}
	var ins []outpoint
	pickOwn := func(k int) bool {
		if len(own) == 0 {
			return false
		}
		n := 1
		if len(spec.InSel) > 1 {
			n = len(spec.InSel)
		}
		used := map[outpoint]bool{}
		for i := 0; i < n && i < len(own); i++ {
			sel := 0
			if i < len(spec.InSel) {
				sel = spec.InSel[i]
			}
			op := own[mod(sel+k, len(own))]
			if used[op] {
				continue
			}
			used[op] = true
			ins = append(ins, op)
		}
		return true
	}
	sel0 := 0
	if len(spec.InSel) > 0 {
		sel0 = spec.InSel[0]
	}
	var respent *big.Int // value behind an outpoint re-spent inside one block
	withCross := false   // a cross-chain output is spent next to From's own
	switch spec.InKind {
	case 0:
		if len(spec.force) > 0 {
			ins = append(ins, spec.force...)
		} else if !pickOwn(0) {
			return nil
		}
	case 1:
		sp := v.spentList()
		if len(sp) == 0 {
			return nil
		}
		ins = append(ins, sp[mod(sel0, len(sp))])
	case 2:
		var fake common.Uint256
		copy(fake[:], fmt.Sprintf("never-created-%d-%d", spec.From, sel0))
		ins = append(ins, outpoint{fake, uint16(mod(sel0, 3))})
	case 3:
		victim := s.actors[mod(spec.From+1+mod(sel0, len(s.actors)-1), len(s.actors))]
		vo := v.utxosOf(victim.idx)
		if len(vo) == 0 {
			return nil
		}
		ins = append(ins, vo[mod(sel0, len(vo))])
	case 4:
		if len(own) == 0 {
			return nil
		}
		op := own[mod(sel0, len(own))]
		ins = append(ins, op, op)
	case 5:
		sp := v.spentList()
		if len(sp) == 0 || !pickOwn(0) {
			return nil
		}
		ins = append(ins, sp[mod(sel0, len(sp))])
	case 10: // own outputs plus one output waiting at the cross-chain address
		if !pickOwn(0) {
			return nil
		}
		if cc := s.ccActor(); cc != nil && from.weird == "" && from.multi == nil {
			if co := v.utxosOf(cc.idx); len(co) > 0 {
				ins = append(ins, co[mod(sel0, len(co))])
				withCross = true
			}
		}
	case 9: // an outpoint an earlier transaction of this same block already spends
		if len(v.freshSpent) == 0 {
			return nil
		}
		rec := v.freshSpent[mod(sel0, len(v.freshSpent))]
		if rec.o.owner < 0 {
			return nil
		}
		// spent and signed by its owner, so only the double spend is wrong with it
		from = s.actors[rec.o.owner]
		ins = append(ins, rec.op)
		respent = big.NewInt(rec.o.value)
	case 7: // an output created by an earlier transaction of the same block
		var fr []outpoint
		for op := range v.fresh {
			if v.utxo[op].owner == from.idx {
				fr = append(fr, op)
			}
		}
		if len(fr) == 0 {
			return nil
		}
		sort.Slice(fr, func(i, j int) bool { return fr[i].less(fr[j]) })
		ins = append(ins, fr[mod(sel0, len(fr))])
	}
	// input total as far as the view knows (spent / foreign outputs count 0 or their value)
	inTotal := new(big.Int)
	if respent != nil {
		inTotal.Set(respent)
	}
	for _, in := range ins {
		if o, ok := v.utxo[in]; ok {
			inTotal.Add(inTotal, big.NewInt(o.value))
		}
	}
	fee := spec.Fee
	if fee <= 0 {
		fee = int64(s.node.cfg.MinTransactionFee)
	}
	if spec.Amt == 7 {
		fee = int64(s.node.cfg.MinTransactionFee) - 1
	}
	avail := new(big.Int).Sub(inTotal, big.NewInt(fee))
	if spec.InKind == 1 || spec.InKind == 2 {
		avail = big.NewInt(100000000) // nothing real behind it; ask for 1 ELA
	}
	if avail.Sign() < 0 {
		avail = big.NewInt(0)
	}
	var outs []*common2.Output
	addOut := func(to *actor, val int64) {
		outs = append(outs, &common2.Output{AssetID: core.ELAAssetID, Value: common.Fixed64(val), ProgramHash: to.acc.ProgramHash, Type: common2.OTNone, Payload: &outputpayload.DefaultOutput{}})
	}
	rest := new(big.Int).Set(avail)
	for i, t := range spec.To {
		pm := 100
		if i < len(spec.Split) {
			pm = mod(spec.Split[i], 1001)
		}
		val := new(big.Int).Mul(avail, big.NewInt(int64(pm)))
		val.Div(val, big.NewInt(1000))
		if val.Cmp(rest) > 0 {
			val.Set(rest)
		}
		rest.Sub(rest, val)
		addOut(s.actors[mod(t, len(s.actors))], val.Int64())
	}
	if rest.Sign() > 0 || len(outs) == 0 {
		addOut(from, rest.Int64())
	}
	if spec.Wide > 0 && spec.Amt == 0 && len(outs) > 0 {
		// a payout-shaped transaction: hundreds of outputs, indexes beyond one byte
		last := outs[len(outs)-1]
		n := int64(spec.Wide) + 1
		if each := int64(last.Value) / n; each >= 20*int64(s.node.cfg.MinTransactionFee) {
			to := last.ProgramHash
			last.Value -= common.Fixed64(each * int64(spec.Wide))
			for i := 0; i < spec.Wide; i++ {
				outs = append(outs, &common2.Output{AssetID: core.ELAAssetID, Value: common.Fixed64(each), ProgramHash: to, Type: common2.OTNone, Payload: &outputpayload.DefaultOutput{}})
			}
			s.c.Fault("wide-transaction-built")
		}
	}
	switch spec.Amt {
	case 1:
		outs = outs[:0]
		for i := 0; i < 4; i++ {
			addOut(from, 1<<62)
		}
		addOut(from, avail.Int64()) // 4*2^62 wraps to 0: "fee" = inputs - change
	case 6:
		outs = outs[:0]
		addOut(from, 1<<62)
		addOut(from, 1<<62)
	case 2:
		outs = outs[:0]
		addOut(from, math.MaxInt64)
		addOut(from, avail.Int64()+2)
	case 3:
		addOut(from, -1)
		outs[0].Value += 1
	case 4:
		outs[0].Value += common.Fixed64(fee + 1)
	case 5:
		addOut(s.actors[mod(spec.From+1, len(s.actors))], 0)
	}
	var inputs []*common2.Input
	for _, in := range ins {
		inputs = append(inputs, &common2.Input{Previous: common2.OutPoint{TxID: in.tx, Index: in.idx}, Sequence: uint32(spec.Seq)})
	}
	tx := transaction.CreateTransaction(common2.TxVersion09, common2.TransferAsset, 0, &payload.TransferAsset{}, []*common2.Attribute{}, inputs, outs, 0, []*pg.Program{})
	// unique nonce attribute so otherwise identical transfers differ
	s.txNonce++
	nonce := common2.NewAttribute(common2.Nonce, []byte(fmt.Sprintf("%d", s.txNonce)))
	tx.SetAttributes([]*common2.Attribute{&nonce})
	if spec.Sign == 8 && (from.multi != nil || from.weird != "") {
		spec.Sign = 1
	}
	if spec.Sign == 8 && len(ins) > 0 && s.nKeyed >= 2 {
		// Byzantine client: a Script attribute naming the cross-chain-prefixed
		// alias of the spent output's own code hash (an "additional owner"
		// whose hash collides with the real one in all but the prefix byte)
		if o, ok := v.utxo[ins[0]]; ok {
			alias := append([]byte{byte(contract.PrefixCrossChain)}, o.ph[1:]...)
			sa := common2.NewAttribute(common2.Script, alias)
			tx.SetAttributes([]*common2.Attribute{&nonce, &sa})
			s.c.Fault("script-attribute-aliases-the-owner-under-the-cross-chain-prefix")
		}
	}

	facts := &txFacts{signedBy: map[int]bool{}}
	facts.ins = ins
	signer := from
	codeOf := from
	// "another actor": the next key-holding actor that is not From itself
	other := s.keyed(from.idx + 1)
	if other == from {
		other = s.keyed(from.idx + 2)
	}
	if from.multi == nil && spec.Sign > 5 && spec.Sign != 8 {
		spec.Sign = 1 + spec.Sign%5 // modes 6, 7 exist for multisig actors only
	}
	if other == from && (spec.Sign == 1 || spec.Sign == 4) {
		spec.Sign = 0 // nobody else holds a key in this run
	}
	switch spec.Sign {
	case 1:
		signer = other
		codeOf = signer
	case 4:
		codeOf = other
	}
	// owners of the referenced outputs that are not From need their own programs;
	// an honest multi-owner spend is not generated, so only From's program is attached.
	if from.weird == ccShape {
		// the cross-chain address: a self-made cross-chain script over the
		// client's own keys, validly signed
		if p := s.ccProgram(tx, sel0, nil); p != nil {
			tx.SetPrograms([]*pg.Program{p})
		}
		s.c.Fault("spend-from-cross-chain-address")
	} else if from.weird != "" {
		// a script actor: nobody holds a key; the Byzantine client attaches the
		// matching (malformed) code with arbitrary parameter bytes
		tx.SetPrograms([]*pg.Program{{Code: from.acc.RedeemScript, Parameter: weirdParam(spec.Sign+len(spec.InSel), uint64(s.txNonce))}})
		s.c.Fault("spend-from-script-actor:" + from.weird)
	} else if from.multi != nil {
		if spec.Sign != 3 {
			var buf bytes.Buffer
			tx.SerializeUnsigned(&buf)
			mode := spec.Sign
			if mode == 2 {
				mode = 0 // signed honestly, altered below
			}
			pick := 0
			if len(spec.InSel) > 0 {
				pick = spec.InSel[0]
			}
			param, ok := s.multiParam(from, mode, pick, buf.Bytes())
			tx.SetPrograms([]*pg.Program{{Code: from.acc.RedeemScript, Parameter: param}})
			if ok {
				facts.signedBy[from.idx] = true
			}
		}
	} else if spec.Sign == 8 {
		// ... and, for that alias, a self-made cross-chain script over the
		// client's own keys, validly signed; nothing by the real owner
		if p := s.ccProgram(tx, sel0, nil); p != nil {
			tx.SetPrograms([]*pg.Program{p})
		}
	} else if spec.Sign != 3 {
		var buf bytes.Buffer
		signTx := tx
		if spec.Sign == 5 {
			other := transaction.CreateTransaction(common2.TxVersion09, common2.TransferAsset, 0, &payload.TransferAsset{}, []*common2.Attribute{}, inputs, outs, 7, []*pg.Program{})
			signTx = other
		}
		signTx.SerializeUnsigned(&buf)
		sig, err := signData(signer.acc.PrivKey(), buf.Bytes())
		if err != nil {
			panic(fmt.Sprintf("harness: sign: %v", err))
		}
		param := append([]byte{byte(len(sig))}, sig...)
		tx.SetPrograms([]*pg.Program{{Code: codeOf.acc.RedeemScript, Parameter: param}})
		if spec.Sign == 0 {
			facts.signedBy[signer.idx] = true
		}
		if spec.Sign == 1 {
			facts.signedBy[signer.idx] = true // valid, but by the wrong party
		}
	}
	if withCross {
		if p := s.ccProgram(tx, sel0, from); p != nil {
			tx.SetPrograms(append(tx.Programs(), p))
		}
		s.c.Fault("spend-from-cross-chain-address:mixed-with-own-inputs")
	}
	if spec.Sign == 2 {
		// a corrupting relay alters the signed content after signing
		outs[0].Value += 1
		if len(outs) > 1 {
			outs[len(outs)-1].Value -= 1
		} else {
			outs[0].Value -= 2
		}
		tx.SetOutputs(outs)
		facts.tampered = true
	}
	info := &txInfo{tx: tx, facts: facts, spec: spec}
	facts.outs = txOutValues(tx)
	if respent != nil {
		nf := new(big.Int).Set(inTotal)
		for _, x := range facts.outs {
			nf.Sub(nf, big.NewInt(x))
		}
		info.nodeFee = nf
	} else if spec.Amt != 0 && spec.Amt != 5 && inTotal.IsInt64() {
		// amounts that wrap: a verifier summing in 64-bit fixed point sees
		// this fee (the Byzantine miner prices its coinbase accordingly, so
		// that nothing but the amounts is wrong with the block)
		var sum int64
		for _, x := range facts.outs {
			sum += x // wraps like Fixed64
		}
		if nf := inTotal.Int64() - sum; nf >= 0 {
			info.nodeFee = big.NewInt(nf)
		}
	}
	for _, o := range tx.Outputs() {
		info.outs = append(info.outs, mOut{ph: o.ProgramHash, owner: s.actorOf(o.ProgramHash), value: int64(o.Value), cbHeight: -1})
	}
	return info
}

// BlockSpec describes a block to build.
type BlockSpec struct {
	Parent int      `json:"parent"`          // see pickParent
	PMode  int      `json:"pmode,omitempty"` // 0 node tip; 1 any block (Parent mod n); 2 fork Parent blocks below the node tip; 3 best valid model tip; 4 the last block built
	Txs    []TxSpec `json:"txs,omitempty"`
	Miner  int      `json:"miner,omitempty"`
	Dt     int      `json:"dt,omitempty"`
	Bad    string   `json:"bad,omitempty"` // "", ts-old, ts-future, bits, reward+1, reward-1, merkle, dup-tx, second-coinbase, no-coinbase, no-tx, pow
	Hold   bool     `json:"hold,omitempty"`
	Pool    []int   `json:"pool,omitempty"`    // include these of the node's pooled transactions (selectors)
	Variant bool    `json:"variant,omitempty"` // ... with a differently sized valid witness where one exists (multisig: M+1 signatures)
	Revert  bool    `json:"revert,omitempty"`  // carries a revert-to-PoW transaction (consensus-mode transition)
}

func medianTimePast(b *mBlock) uint32 {
	var ts []uint32
	for x, i := b, 0; x != nil && i < 11; x, i = x.parent, i+1 {
		ts = append(ts, x.ts)
	}
	sort.Slice(ts, func(i, j int) bool { return ts[i] < ts[j] })
	return ts[len(ts)/2]
}

func (s *sim) pickParent(bs *BlockSpec) *mBlock {
	switch bs.PMode {
	case 1:
		return s.blocks[mod(bs.Parent, len(s.blocks))]
	case 2:
		b := s.nodeTip()
		for i := 0; i < mod(bs.Parent, 9) && b.parent != nil; i++ {
			b = b.parent
		}
		return b
	case 3:
		return s.bestValid()
	case 4:
		return s.blocks[len(s.blocks)-1]
	case 5: // a sibling of the last block built (same parent)
		if p := s.blocks[len(s.blocks)-1].parent; p != nil {
			return p
		}
	}
	return s.nodeTip()
}

// buildBlock constructs (and mines) a block on parent. The model labels it.
func (s *sim) buildBlock(parent *mBlock, bs *BlockSpec) *mBlock {
	cfg := s.node.cfg
	height := parent.height + 1
	v := parent.view.clone()
	v.fresh = map[outpoint]bool{}
	s.buildHeight = height
	miner := s.actors[mod(bs.Miner, len(s.actors))]
	var txs []interfaces.Transaction
	var infos []*txInfo
	fees := new(big.Int)
	var lastFee *big.Int
	selfOK, why := true, ""
	var labels []string
	// a miner who heard the same traffic as the node includes transactions the
	// node holds in its pool: the very same bytes, or (Variant) the same
	// transaction with a differently sized but equally valid witness
	var picked []*txInfo
	if len(bs.Pool) > 0 {
		pts := s.poolTxs()
		used := map[common.Uint256]bool{}
		for _, sel := range bs.Pool {
			if len(pts) == 0 {
				break
			}
			pi := pts[mod(sel, len(pts))]
			if used[pi.tx.Hash()] {
				continue
			}
			used[pi.tx.Hash()] = true
			if bs.Variant {
				if vtx := s.witnessVariant(pi); vtx != nil {
					pi = &txInfo{tx: vtx, facts: pi.facts, outs: pi.outs, spec: pi.spec, nodeFee: pi.nodeFee}
					s.c.Fault("block-carries-pooled-tx-with-other-witness-size")
				}
			}
			s.c.Probe("block-carries-pooled-tx")
			picked = append(picked, pi)
		}
	}
	// consensus-mode transition (C30): a block carrying a revert-to-PoW
	// transaction of kind "no block for too long". It costs nothing and spends
	// nothing; it is valid from RevertToPOWStartHeight on when the block's
	// timestamp is at least RevertToPOWNoBlockTime after its parent's.
	var revertTx interfaces.Transaction
	if bs.Revert {
		revertTx = transaction.CreateTransaction(common2.TxVersion09, common2.RevertToPOW, 0,
			&payload.RevertToPOW{Type: payload.NoBlock, WorkingHeight: height}, []*common2.Attribute{}, []*common2.Input{}, []*common2.Output{}, 0, []*pg.Program{})
		s.c.Fault("block-carries-revert-to-pow")
	}
	nPicked := len(picked)
	for i := 0; i < nPicked+len(bs.Txs); i++ {
		var info *txInfo
		if i < nPicked {
			info = picked[i]
		} else {
			info = s.makeTx(v, bs.Txs[i-nPicked])
		}
		if info == nil {
			continue
		}
		label, fee := s.label(v, info, height)
		labels = append(labels, label)
		if label == "" {
			applyTx(v, info.tx.Hash(), info.facts, info.outs, height)
			fees.Add(fees, fee)
			lastFee = fee
		} else {
			lastFee = nil
			if selfOK {
				selfOK, why = false, label
			}
			// A Byzantine miner prices the coinbase the way a verifier would:
			// the fee a node would compute for this transaction if it let it
			// through, so that nothing but the broken rule is wrong with the block.
			if info.nodeFee != nil {
				fees.Add(fees, info.nodeFee)
			} else if fee != nil && fee.Sign() >= 0 {
				fees.Add(fees, fee)
			}
		}
		txs = append(txs, info.tx)
		infos = append(infos, info)
		s.txs[info.tx.Hash()] = info
	}
	cb, err := s.node.svc.CreateCoinbaseTx(miner.acc.Address, height)
	if err != nil {
		panic(fmt.Sprintf("harness: coinbase: %v", err))
	}
	if s.v2Regime(height) {
		// CreateCoinbaseTx pays the CR share to the foundation address below
		// CRCommitteeStartHeight; on a real chain DPoS v2 comes long after that
		// height, so a miner of this regime pays the CR assets address.
		cb.Outputs()[0].ProgramHash = *cfg.CRConfiguration.CRAssetsProgramHash
	}
	blk := &types.Block{Header: common2.Header{Version: 0, Previous: parent.hash, Height: height, Bits: cfg.PowConfiguration.PowLimitBits}}
	blk.Transactions = append([]interfaces.Transaction{cb}, txs...)
	if revertTx != nil {
		blk.Transactions = append(blk.Transactions, revertTx)
		v.txs[revertTx.Hash()] = height // findable on the chain that holds this block
	}
	if bs.Bad == "dup-tx" && lastFee != nil {
		// the Byzantine miner who includes a transaction twice also collects its fee twice
		fees.Add(fees, lastFee)
	}
	reward := new(big.Int).Add(fees, big.NewInt(int64(cfg.GetBlockReward(height))))
	total := reward.Int64()
	switch bs.Bad {
	case "reward+1":
		total++
	case "reward-1":
		total--
	}
	if err := s.node.svc.AssignCoinbaseTxRewards(blk, common.Fixed64(total)); err != nil {
		panic(fmt.Sprintf("harness: rewards: %v", err))
	}
	if s.v2Regime(height) {
		// the node's reward assembly looks at the consensus mode of the chain
		// it is on NOW; a miner extending another branch uses that branch's
		if outs := blk.Transactions[0].Outputs(); len(outs) >= 3 {
			if parent.view.pow {
				outs[0].ProgramHash, outs[2].ProgramHash = *cfg.DestroyELAProgramHash, *cfg.DestroyELAProgramHash
			} else {
				outs[0].ProgramHash, outs[2].ProgramHash = *cfg.CRConfiguration.CRAssetsProgramHash, *cfg.DPoSConfiguration.DPoSV2RewardAccumulateProgramHash
			}
		}
		s.tweakCoinbase(blk, bs.Bad, height, miner)
	}
	if w := s.labelCoinbase(blk, height, fees, parent.view.pow); w != "" && selfOK {
		selfOK, why = false, w
	}
	ts := parent.ts + 1 + uint32(mod(bs.Dt, 600))
	mtp := medianTimePast(parent)
	// honest miners stamp blocks from their clocks: never more than a few
	// minutes ahead of the node's (blocks mined by the node itself carry "now",
	// so a long run of +dt children would drift past the 2 h future limit)
	if lim := uint32(s.now().Unix()) + 600; ts > lim {
		ts = lim
	}
	if ts < mtp+2 {
		ts = mtp + 2 // generated away from the boundary (DESIGN A.4)
	}
	if revertTx != nil {
		nb := uint32(cfg.DPoSConfiguration.RevertToPOWNoBlockTime)
		if height >= cfg.DPoSConfiguration.ChangeViewV1Height {
			nb = uint32(cfg.DPoSConfiguration.RevertToPOWNoBlockTimeV1)
		}
		// an honest miner waits until the silence has lasted long enough (if
		// the simulated clock allows; otherwise the block is too early)
		if want := parent.ts + nb + 5; want > ts && want <= uint32(s.now().Unix())+600 {
			ts = want
		}
		switch {
		case height < cfg.DPoSConfiguration.RevertToPOWStartHeight:
			if selfOK {
				selfOK, why = false, "revert-to-pow-before-start-height"
			}
		case ts-parent.ts < nb:
			if selfOK {
				selfOK, why = false, "revert-to-pow-before-no-block-time"
			}
		default:
			s.c.Probe("valid-revert-to-pow-block-built")
			v.pow = true // for the blocks that follow this one
		}
	}
	sane := true
	switch bs.Bad {
	case "ts-old":
		if mtp > 10 {
			ts = mtp - 5
			if selfOK {
				selfOK, why = false, "timestamp-not-after-median"
			}
		}
	case "ts-future":
		// far enough ahead that no sequence of clock advances inside a run makes it
		// acceptable later (a block 3 h ahead IS valid once an hour has passed: the
		// model's label is not time-relative - false alarm met at thorough seed 13)
		ts = uint32(s.now().Unix()) + 90*24*3600
		sane = false
		selfOK, why = false, "timestamp-too-far-ahead"
	case "bits":
		blk.Header.Bits = 0x207ffffe
		if selfOK {
			selfOK, why = false, "wrong-difficulty-bits"
		}
	case "dup-tx":
		if len(txs) > 0 {
			blk.Transactions = append(blk.Transactions, txs[len(txs)-1])
			sane, selfOK, why = false, false, "duplicate-transaction"
		}
	case "second-coinbase":
		cb2, _ := s.node.svc.CreateCoinbaseTx(miner.acc.Address, height)
		blk.Transactions = append(blk.Transactions, cb2)
		sane, selfOK, why = false, false, "second-coinbase"
	case "no-coinbase":
		if len(txs) > 0 {
			blk.Transactions = blk.Transactions[1:]
			sane, selfOK, why = false, false, "first-tx-not-coinbase"
		}
	}
	blk.Header.Timestamp = ts
	root, err := crypto.ComputeRoot(txHashes(blk.Transactions))
	if err != nil {
		panic(fmt.Sprintf("harness: merkle: %v", err))
	}
	blk.Header.MerkleRoot = root
	if bs.Bad == "merkle" {
		blk.Header.MerkleRoot[3] ^= 0x40
		sane, selfOK, why = false, false, "merkle-root-mismatch"
	}
	if !s.node.svc.SolveBlock(blk, nil) {
		panic("harness: SolveBlock failed")
	}
	if bs.Bad == "pow" {
		// an aux proof that commits to a different block hash
		blk.Header.Nonce ^= 1
		sane, selfOK, why = false, false, "auxpow-for-other-hash"
	}
	mb := &mBlock{idx: len(s.blocks), blk: blk, hash: blk.Hash(), parent: parent, height: height, ts: ts, selfOK: selfOK, why: why, sane: sane, txLabel: labels}
	mb.valid = selfOK && parent.valid
	if !mb.valid && mb.why == "" {
		mb.why = "descends-from-invalid:" + parent.why
	}
	mb.work = new(big.Int).Add(parent.work, calcWork(blk.Header.Bits))
	// coinbase outputs
	cbID := blk.Transactions[0].Hash()
	if blk.Transactions[0].IsCoinBaseTx() {
		for i, o := range blk.Transactions[0].Outputs() {
			v.utxo[outpoint{cbID, uint16(i)}] = mOut{ph: o.ProgramHash, owner: s.actorOf(o.ProgramHash), value: int64(o.Value), cbHeight: int64(height)}
			v.minted.Add(v.minted, big.NewInt(int64(o.Value)))
		}
		v.txs[cbID] = height
	}
	v.subsidy.Add(v.subsidy, big.NewInt(int64(cfg.GetBlockReward(height))))
	v.fresh, v.freshSpent = nil, nil
	mb.view = v
	s.blocks = append(s.blocks, mb)
	s.byHash[mb.hash] = mb
	return mb
}

// calcWork is the textbook work of a compact target: 2^256 / (target+1).
func calcWork(bits uint32) *big.Int {
	mant := int64(bits & 0x007fffff)
	exp := uint(bits >> 24)
	t := big.NewInt(mant)
	if exp <= 3 {
		t.Rsh(t, 8*(3-exp))
	} else {
		t.Lsh(t, 8*(exp-3))
	}
	if bits&0x00800000 != 0 || t.Sign() <= 0 {
		return big.NewInt(0)
	}
	den := new(big.Int).Add(t, big.NewInt(1))
	return new(big.Int).Div(new(big.Int).Lsh(big.NewInt(1), 256), den)
}
