package chainsim

import (
	"encoding/json"
	"fmt"
	"os"
	"path/filepath"
	"strings"

	"github.com/elastos/Elastos.ELA/common/config"
	"github.com/elastos/Elastos.ELA/common/config/settings"
	"github.com/elastos/Elastos.ELA/core/types/functions"
	"github.com/elastos/Elastos.ELA/elanet/pact"

	"verif/sim/core"
)

// The configuration clause of C31 and C32: "on mainnet both heights are the
// coordinated constants whatever the local configuration says, and other
// networks keep the policy disabled" / "on mainnet the frozen list is the
// coordinated one". A conf step writes one local configuration file and runs
// the node's real start-up path (settings.SetupConfig) on it, between two
// simulated operations of the run; the process-wide configuration globals are
// saved before and restored after, so the simulated node is not touched.
//
// "On mainnet" is judged by the network the node comes up on: a configuration
// names another network only by one of the names SetupConfig switches
// parameters for (testnet/test, regnet/regtest/reg, any letter case) or by a
// name of its own (a private network); the recognised mainnet names in any
// letter case, and no name at all, are mainnet.

type ConfSpec struct {
	Net    string `json:"net"`              // ActiveNet as written in the file
	NoNet  bool   `json:"nonet,omitempty"`  // the key is absent
	FH     int64  `json:"fh"`               // CrossChainUTXOFreezeHeight override (-1: absent)
	RH     int64  `json:"rh"`               // CrossChainUTXORestrictionHeight override (-1: absent)
	Frozen int    `json:"frozen,omitempty"` // 0 absent, 1 empty list, 2 another address, 3 the coordinated address from a later height
}

func recase(r *core.Rng, s string) string {
	b := []byte(s)
	switch r.Intn(4) {
	case 0: // as is
	case 1:
		return strings.ToUpper(s)
	case 2:
		if len(b) > 0 {
			b[0] = strings.ToUpper(s[:1])[0]
		}
	default:
		for i := range b {
			if r.Bool(0.5) {
				b[i] = strings.ToUpper(string(b[i]))[0]
			}
		}
	}
	return string(b)
}

func genConf(r *core.Rng) *ConfSpec {
	c := &ConfSpec{FH: -1, RH: -1}
	names := []string{"mainnet", "main", "", "testnet", "test", "regnet", "regtest", "reg", "private-net", "mainnet2", "main net"}
	c.Net = recase(r, names[r.Pick(5, 4, 2, 2, 1, 2, 1, 1, 2, 1, 1)])
	if c.Net == "" && r.Bool(0.5) {
		c.NoNet = true
	}
	h := func() int64 {
		switch r.Intn(5) {
		case 0:
			return 0
		case 1:
			return int64(config.DisabledCrossChainUTXORestrictionHeight)
		case 2:
			return int64(r.Intn(3000000))
		case 3:
			return int64(config.MainNetCrossChainUTXOFreezeHeight) + int64(r.Intn(3)) - 1
		}
		return -1
	}
	c.FH, c.RH = h(), h()
	c.Frozen = r.Pick(3, 2, 2, 2)
	return c
}

// coordinatedFrozen is the coordinated main-net list, copied entry by entry
// when the process starts - before any configuration file has been loaded, so
// that nothing a later load does to the node's own copy can reach it.
var coordinatedFrozen = func() []config.FrozenAddress {
	var out []config.FrozenAddress
	for _, fa := range config.MainNetFrozenAddresses() {
		out = append(out, config.FrozenAddress{Address: string(append([]byte(nil), fa.Address...)), DisableStartHeight: fa.DisableStartHeight})
	}
	return out
}()

func mainnetName(n string) bool {
	switch strings.ToLower(n) {
	case "", "mainnet", "main":
		return true
	}
	return false
}

func (s *sim) confStep(cs *ConfSpec) {
	c := s.c
	body := map[string]interface{}{}
	if !cs.NoNet {
		body["ActiveNet"] = cs.Net
	}
	if cs.FH >= 0 {
		body["CrossChainUTXOFreezeHeight"] = cs.FH
	}
	if cs.RH >= 0 {
		body["CrossChainUTXORestrictionHeight"] = cs.RH
	}
	other := s.actors[0].acc.Address
	switch cs.Frozen {
	case 1:
		body["FrozenAddresses"] = []interface{}{}
	case 2:
		body["FrozenAddresses"] = []interface{}{map[string]interface{}{"Address": other, "DisableStartHeight": 1}}
	case 3:
		body["FrozenAddresses"] = []interface{}{map[string]interface{}{"Address": config.ExploitIntermediateFrozenAddress, "DisableStartHeight": int64(config.DisabledCrossChainUTXORestrictionHeight)}}
	}
	file, err := json.Marshal(map[string]interface{}{"Configuration": body})
	if err != nil {
		panic(fmt.Sprintf("harness: conf: %v", err))
	}
	dir := filepath.Join(s.dir, "conf")
	os.MkdirAll(dir, 0o755)
	path := filepath.Join(dir, "config.json")
	if err := os.WriteFile(path, file, 0o600); err != nil {
		panic(fmt.Sprintf("harness: conf: %v", err))
	}
	// process-wide state SetupConfig writes: saved and restored around the call
	savedDefault, savedParams := config.DefaultParams, config.Parameters
	savedCtx, savedHdr, savedTxs := pact.MaxBlockContextSize, pact.MaxBlockHeaderSize, pact.MaxTxPerBlock
	f1, f2, f3, f4 := functions.GetTransactionByTxType, functions.GetTransactionByBytes, functions.CreateTransaction, functions.GetTransactionParameters
	defer func() {
		config.DefaultParams, config.Parameters = savedDefault, savedParams
		pact.MaxBlockContextSize, pact.MaxBlockHeaderSize, pact.MaxTxPerBlock = savedCtx, savedHdr, savedTxs
		functions.GetTransactionByTxType, functions.GetTransactionByBytes, functions.CreateTransaction, functions.GetTransactionParameters = f1, f2, f3, f4
		os.Remove(path)
	}()
	config.DefaultParams = *config.GetDefaultParams() // a fresh value: nothing nested is shared with the saved one
	config.DefaultParams.Conf = path
	got := settings.NewSettings().SetupConfig(false, "", "")
	c.Fault("local-configuration:" + strings.ToLower(cs.Net))
	onMain := cs.NoNet || mainnetName(cs.Net)
	c.Logf("conf net=%q absent=%v fh=%d rh=%d frozen=%d -> mainnet=%v freeze=%d restriction=%d frozen=%d", cs.Net, cs.NoNet, cs.FH, cs.RH, cs.Frozen, onMain,
		got.CrossChainUTXOFreezeHeight, got.CrossChainUTXORestrictionHeight, len(got.FrozenAddresses))
	c.Check()
	if onMain {
		c.Probe("configuration-judged:mainnet-name")
		if got.CrossChainUTXOFreezeHeight != config.MainNetCrossChainUTXOFreezeHeight || got.CrossChainUTXORestrictionHeight != config.MainNetCrossChainUTXORestrictionHeight {
			c.Violate("C31", "configuration", "C31/configuration/mainnet-heights-not-the-coordinated-constants",
				"ActiveNet %q (absent=%v) with local heights %d/%d: the node comes up with freeze %d restriction %d, coordinated constants are %d/%d",
				cs.Net, cs.NoNet, cs.FH, cs.RH, got.CrossChainUTXOFreezeHeight, got.CrossChainUTXORestrictionHeight, config.MainNetCrossChainUTXOFreezeHeight, config.MainNetCrossChainUTXORestrictionHeight)
		}
		c.Check()
		want := coordinatedFrozen
		same := len(got.FrozenAddresses) == len(want)
		for i := 0; same && i < len(want); i++ {
			same = got.FrozenAddresses[i].Address == want[i].Address && got.FrozenAddresses[i].DisableStartHeight == want[i].DisableStartHeight
		}
		if !same {
			c.Violate("C32", "configuration", "C32/configuration/mainnet-frozen-list-not-the-coordinated-one",
				"ActiveNet %q (absent=%v) with local frozen-list override %d: the node comes up with %d frozen entries %v", cs.Net, cs.NoNet, cs.Frozen, len(got.FrozenAddresses), got.FrozenAddresses)
		}
	} else {
		c.Probe("configuration-judged:other-network")
		if got.CrossChainUTXOFreezeHeight != config.DisabledCrossChainUTXORestrictionHeight || got.CrossChainUTXORestrictionHeight != config.DisabledCrossChainUTXORestrictionHeight {
			c.Violate("C31", "configuration", "C31/configuration/policy-not-disabled-on-another-network",
				"ActiveNet %q with local heights %d/%d: the node comes up with freeze %d restriction %d", cs.Net, cs.FH, cs.RH, got.CrossChainUTXOFreezeHeight, got.CrossChainUTXORestrictionHeight)
		}
	}
}
