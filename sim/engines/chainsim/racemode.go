package chainsim

import (
	"bufio"
	"bytes"
	"encoding/json"
	"fmt"
	"os"
	"path/filepath"
	"runtime/debug"
	"sort"
	"strings"
	"sync"
	"testing/synctest"
	"time"

	"github.com/elastos/Elastos.ELA/common"
	crstate "github.com/elastos/Elastos.ELA/cr/state"

	"verif/sim/core"
)

// C40. Race mode: the same simulated node, built with the race detector, and
// driven by several LOGICAL THREADS the way the shipped node is: one block
// processor (peers' blocks, the node's own miner), one transaction admitter
// (sendrawtransaction / relayed transactions), RPC-style readers, and the
// node's own checkpoint saver.
//
// Scheduling. Every operation of the concurrent phase owns one slot of
// simulated time; its thread sleeps (fake clock) until that slot. Inside a
// synctest bubble time only advances when every goroutine is blocked, so
// exactly one operation runs at a time, in plan order: the execution is
// serial, decided by the plan alone, and replays exactly. But sleeping creates
// no happens-before edge between two goroutines, so the race detector still
// sees the threads as unordered: every pair of conflicting accesses that is
// not ordered by the NODE'S OWN synchronisation (its mutexes, channels) is
// reported, although nothing ever runs in parallel. A report whose two
// innermost frames are both in the repository is a C40 violation; reports
// touching harness frames are the harness's own business and are ignored.

const raceSlot = 10 * time.Second

var snapMu sync.Mutex

func genRace(r *core.Rng, p *core.Plan, tier string) *core.Plan {
	p.Meta["mode"] = "race"
	p.Meta["stratum"] = "faults"
	p.SetKnob("actors", int64(r.Range(3, 5)))
	p.SetKnob("maturity", int64(r.Range(0, 2)))
	// the DPoS state processes blocks (and tracks irreversibility) inside the run
	cr := 2 + int64(r.Intn(6))
	p.SetKnob("crconly", cr)
	p.SetKnob("revertpowoff", max(1, 7-cr)+int64(r.Intn(3)))
	p.SetKnob("ckpsave", int64(r.Range(1, 3))) // checkpoint save period in blocks
	if r.Bool(0.5) {
		p.SetKnob("multi", 1)
	}
	g := &gen{r: r, p: p, prop: "C40", on: map[string]bool{"fork": true, "mempool": true, "badtx": r.Bool(0.5)}}
	// sequential prologue (thread -1): funding
	for i := int64(0); i < p.Knob("maturity", 2)+1; i++ {
		p.Add(Step{Op: "mine", Task: -1, Block: &BlockSpec{Miner: r.Intn(10)}})
	}
	for i := 0; i < 3; i++ {
		t := TxSpec{From: 0, InSel: []int{0}, To: []int{1 + r.Intn(5), 1 + r.Intn(5), r.Intn(10)}, Split: []int{r.Range(50, 300), r.Range(50, 300), r.Range(50, 300)}}
		p.Add(Step{Op: "mine", Task: -1, Block: &BlockSpec{Miner: r.Intn(10), Txs: []TxSpec{t}}})
	}
	n := r.Range(14, 30)
	if tier == "thorough" {
		n = r.Range(14, 60)
	}
	// most plans carry one deliberate reorganization: a side branch forked d
	// blocks below the tip and grown past it, DPoS state readers in between
	// (the rollback of the DPoS state by the block thread is what they meet)
	overtakeAt := -1
	if r.Bool(0.7) {
		overtakeAt = r.Range(2, n-1)
	}
	for i := 0; i < n; i++ {
		if i == overtakeAt {
			d := r.Range(1, 3)
			for j := 0; j <= d; j++ {
				b := &BlockSpec{Miner: r.Intn(10), Dt: r.Intn(600), PMode: 4}
				if j == 0 {
					b.PMode, b.Parent = 2, d
				}
				p.Add(Step{Op: "mine", Task: 0, Block: b})
				p.Add(Step{Op: "query", Task: 2 + r.Intn(2), Ref: 3 + r.Intn(2) + 8*r.Intn(100)})
			}
		}
		switch r.Pick(30, 25, 40, 5) {
		case 0:
			b := g.block()
			b.Hold = false
			p.Add(Step{Op: "mine", Task: 0, Block: b})
		case 1:
			t := g.tx()
			p.Add(Step{Op: "submit", Task: 1, Tx: &t})
		case 2:
			p.Add(Step{Op: "query", Task: 2 + r.Intn(2), Ref: r.Intn(1000)})
		case 3:
			p.Add(Step{Op: "minepool", Task: 0})
		}
	}
	return p
}

func executeRace(c *core.Ctx) {
	p := c.Plan
	steps := make([]Step, len(p.Steps))
	for i, raw := range p.Steps {
		if err := json.Unmarshal(raw, &steps[i]); err != nil {
			panic(fmt.Sprintf("bad step %d: %v", i, err))
		}
	}
	c.SetSample(map[string]interface{}{"knobs": p.Knobs, "steps": sampleSteps(p.Steps, 10)})
	s := &sim{c: c, prop: p.Property, byHash: map[common.Uint256]*mBlock{}, txs: map[common.Uint256]*txInfo{}}
	s.dir = tmpDir("race")
	defer removeDir(s.dir)
	seedGlobals(p.Seed)
	s.actors = makeActors(p.Seed, int(p.Knob("actors", 4)))
	s.nKeyed = len(s.actors)
	s.actors = addMultisigActors(s.actors, s.nKeyed, p.Seed, int(p.Knob("multi", 0)))
	if err := s.start(true); err != nil {
		panic(fmt.Sprintf("harness: node start: %v", err))
	}
	defer func() {
		if s.node != nil {
			s.node.close()
		}
	}()
	raceLogSkip() // whatever earlier runs of this process left in the log
	// sequential prologue
	first := 0
	for first < len(steps) && steps[first].Task < 0 {
		c.CurStep = first
		s.step(&steps[first])
		synctest.Wait()
		time.Sleep(time.Second)
		s.checkAll()
		first++
	}
	// concurrent phase: one goroutine per logical thread, one time slot per op
	base := time.Now()
	threads := map[int][]int{}
	for i := first; i < len(steps); i++ {
		threads[steps[i].Task] = append(threads[steps[i].Task], i)
	}
	var ids []int
	for id := range threads {
		ids = append(ids, id)
	}
	sort.Ints(ids)
	var wg sync.WaitGroup
	for _, id := range ids {
		ops := threads[id]
		wg.Add(1)
		go func(id int, ops []int) {
			defer wg.Done()
			for _, i := range ops {
				time.Sleep(time.Until(base.Add(time.Duration(i-first+1) * raceSlot)))
				if s.dead || c.Violated() {
					return
				}
				c.CurStep = i
				c.Fault(fmt.Sprintf("thread-%d-op", id))
				if steps[i].Op == "query" {
					s.query(steps[i].Ref)
				} else {
					s.step(&steps[i])
					if id == 0 && len(s.snaps) < 6 {
						// as the checkpoint manager does on the block-processing
						// thread: deep-copy now, hand the copy to the saver
						for _, key := range []string{"cp_dpos", "cp_cr", "cp_txPool"} {
							if cp, ok := s.node.ckp.GetCheckpoint(key, s.node.chain.GetHeight()); ok && cp != nil {
								if snap := cp.Snapshot(); snap != nil {
									// the shipped manager hands the copy over a
									// channel: a real happens-before edge, here a mutex
									snapMu.Lock()
									s.snaps = append(s.snaps, snap)
									snapMu.Unlock()
								}
							}
						}
					}
				}
				synctest.Wait()
				s.checkAll()
			}
		}(id, ops)
	}
	wg.Wait()
	c.AddSimSeconds(time.Since(base).Seconds())
	// what the race detector wrote while this run executed
	c.UnhashedViolations = true
	c.MaxViols = 64
	for _, r := range raceLogNew() {
		c.Check()
		c.Violate("C40", "race-detector", "C40/race/"+r.sig, "data race between logical threads not ordered by the node's own synchronisation: %s", r.text)
	}
	if len(raceLogFiles()) == 0 {
		c.Note("no race detector log file found (GORACE log_path unset or nothing reported yet)")
	}
	c.Probe("race-log-examined")
}

// query is one RPC-style read of node state (what servers/interfaces.go and
// the P2P getdata/getblocks handlers call while blocks are being processed).
func (s *sim) query(kind int) {
	n := s.node
	c := s.c
	defer func() {
		if x := recover(); x != nil {
			c.Violate("C40", "query", "C40/query-panic/"+panicSite(string(debug.Stack())), "state query %d panicked: %v", mod(kind, 8), x)
		}
	}()
	h := n.chain.GetHeight()
	switch mod(kind, 8) {
	case 0: // chain
		for x := uint32(0); x <= h; x++ {
			if hash, err := n.chain.GetBlockHash(x); err == nil {
				n.chain.BlockExists(&hash)
				n.chain.GetBlockByHash(hash)
			}
		}
		n.chain.LatestBlockLocator()
		n.chain.GetBestBlockHash()
	case 1: // store / ledger views
		ffl := n.store.GetFFLDB()
		for _, a := range s.actors {
			ffl.GetUTXO(&a.acc.ProgramHash)
			n.ledger.GetAmount(a.acc.ProgramHash)
		}
		for _, id := range s.someTxIDs(kind, 6) {
			ffl.GetTransaction(id)
			ffl.GetUnspent(id)
			// (a transaction object obtained from the node itself: objects the
			// harness built on another thread never cross threads unsynchronised)
			if tx, _, err := ffl.GetTransaction(id); err == nil && tx != nil {
				n.chain.UTXOCache.GetTxReference(tx)
			}
		}
	case 2: // mempool
		n.pool.GetTxsInPool()
		n.pool.GetTransactionCount()
		for _, id := range s.someTxIDs(kind, 4) {
			n.pool.GetTransaction(id)
		}
	case 3: // DPoS state
		st := n.arbiters.State
		st.GetLastIrreversibleHeight()
		st.GetConsensusAlgorithm()
		st.GetAllProducers()
		st.GetActiveProducers()
		st.GetPendingProducers()
		st.GetCanceledProducers()
		n.arbiters.GetArbitrators()
		n.arbiters.GetNextArbitrators()
		n.arbiters.GetCRCArbiters()
		n.arbiters.GetOnDutyArbitrator()
		n.arbiters.IsInPOWMode()
		n.arbiters.GetArbitersCount()
		n.arbiters.GetArbitersMajorityCount()
	case 4: // DPoS history (listproducers / getarbitersinfo at a height)
		if h > 1 {
			n.arbiters.State.GetHistory(h - uint32(mod(kind/8, 3)))
		}
		n.arbiters.State.IsIrreversible(h, mod(kind/8, 8))
	case 5: // CR committee
		cm := n.committee
		cm.GetAllMembersCopy()
		cm.GetCurrentMembers()
		cm.GetCandidates(crstate.Active)
		cm.IsInVotingPeriod(h)
		cm.IsInElectionPeriod()
		cm.IsProposalAllowed(h)
		cm.IsAppropriationNeeded()
		cm.GetMembersDIDs()
		cm.IsProposalResultNeeded()
	case 6: // createauxblock: the miner RPC assembles a block from the pool
		n.svc.GenerateBlock(s.actors[1%len(s.actors)].acc.Address, 100)
	case 7: // the checkpoint saver: serializes the deep copies the block processor took
		snapMu.Lock()
		todo := s.snaps
		s.snaps = nil
		snapMu.Unlock()
		for _, snap := range todo {
			var buf bytes.Buffer
			snap.Serialize(&buf)
			c.Probe("checkpoint-snapshot-serialized-by-saver-thread")
		}
	}
	c.Logf("query kind %d at h=%d", mod(kind, 8), h)
}

func (s *sim) someTxIDs(sel, n int) []common.Uint256 {
	var ids []common.Uint256
	for id := range s.txs {
		ids = append(ids, id)
	}
	sort.Slice(ids, func(i, j int) bool { return string(ids[i][:]) < string(ids[j][:]) })
	if len(ids) == 0 {
		return nil
	}
	var out []common.Uint256
	for k := 0; k < n; k++ {
		out = append(out, ids[mod(sel+k*7, len(ids))])
	}
	return out
}

// ---- race detector log ------------------------------------------------------

type raceReport struct {
	sig  string
	text string
}

var raceOffsets = map[string]int64{}

func raceLogFiles() []string {
	// GORACE="... log_path=<prefix>": the runtime writes <prefix>.<pid>
	for _, f := range strings.Fields(os.Getenv("GORACE")) {
		if strings.HasPrefix(f, "log_path=") {
			m, _ := filepath.Glob(strings.TrimPrefix(f, "log_path=") + ".*")
			sort.Strings(m)
			return m
		}
	}
	return nil
}

func raceLogSkip() {
	for _, f := range raceLogFiles() {
		if st, err := os.Stat(f); err == nil {
			raceOffsets[f] = st.Size()
		}
	}
}

// raceLogNew parses the reports written since the last call.
func raceLogNew() []raceReport {
	var out []raceReport
	seen := map[string]bool{}
	for _, f := range raceLogFiles() {
		fh, err := os.Open(f)
		if err != nil {
			continue
		}
		fh.Seek(raceOffsets[f], 0)
		sc := bufio.NewScanner(fh)
		sc.Buffer(make([]byte, 1<<20), 1<<26)
		var block []string
		flush := func() {
			if len(block) == 0 {
				return
			}
			if r, ok := parseRace(block); ok && !seen[r.sig] {
				seen[r.sig] = true
				out = append(out, r)
			}
			block = nil
		}
		in := false
		for sc.Scan() {
			l := sc.Text()
			if strings.HasPrefix(l, "WARNING: DATA RACE") {
				flush()
				in = true
				continue
			}
			if strings.HasPrefix(l, "==================") {
				flush()
				in = false
				continue
			}
			if in {
				block = append(block, l)
			}
		}
		flush()
		if st, err := fh.Stat(); err == nil {
			raceOffsets[f] = st.Size()
		}
		fh.Close()
	}
	sort.Slice(out, func(i, j int) bool { return out[i].sig < out[j].sig })
	return out
}

const repoPrefix = "github.com/elastos/Elastos.ELA/"

// parseRace reduces one report to the innermost frame of each of the two
// conflicting accesses. ok is false unless both are repository functions.
func parseRace(lines []string) (raceReport, bool) {
	var tops []string
	var kinds []string
	for i := 0; i < len(lines); i++ {
		l := lines[i]
		isAccess := (strings.HasPrefix(l, "Read at ") || strings.HasPrefix(l, "Write at ") || strings.HasPrefix(l, "Previous read at ") || strings.HasPrefix(l, "Previous write at "))
		if !isAccess {
			continue
		}
		kind := "read"
		if strings.Contains(strings.ToLower(l[:16]), "write") {
			kind = "write"
		}
		// the first frame line after the header is the innermost function
		top := ""
		for j := i + 1; j < len(lines); j++ {
			f := strings.TrimSpace(lines[j])
			if f == "" {
				break
			}
			if strings.HasPrefix(lines[j], "  ") && !strings.HasPrefix(lines[j], "      ") {
				// skip runtime-internal helpers (map access, slice copy): the
				// first non-runtime frame names the accessing function
				if strings.HasPrefix(f, "runtime.") || strings.HasPrefix(f, "internal/") || strings.HasPrefix(f, "sync/atomic.") {
					continue
				}
				top = f
				break
			}
		}
		if k := strings.LastIndex(top, "("); k > 0 {
			top = top[:k]
		}
		// closures: f.func6, f.func2.1 -> f.func (numbering shifts with any edit)
		if k := strings.Index(top, ".func"); k > 0 {
			rest := top[k+5:]
			if strings.Trim(rest, "0123456789.") == "" {
				top = top[:k] + ".func"
			}
		}
		tops = append(tops, top)
		kinds = append(kinds, kind)
		if len(tops) == 2 {
			break
		}
	}
	if os.Getenv("SIM_DEBUG") != "" {
		fmt.Fprintf(os.Stderr, "DEBUG race report tops=%q\n", tops)
	}
	if len(tops) != 2 {
		return raceReport{}, false
	}
	for _, t := range tops {
		if !strings.HasPrefix(t, repoPrefix) {
			return raceReport{}, false
		}
	}
	a := strings.TrimPrefix(tops[0], repoPrefix) + "[" + kinds[0] + "]"
	b := strings.TrimPrefix(tops[1], repoPrefix) + "[" + kinds[1] + "]"
	if b < a {
		a, b = b, a
	}
	return raceReport{sig: a + "<->" + b, text: a + " and " + b}, true
}
