package chainsim

import (
	"math/big"

	"github.com/elastos/Elastos.ELA/common"
	"github.com/elastos/Elastos.ELA/core"
	"github.com/elastos/Elastos.ELA/core/types"
	common2 "github.com/elastos/Elastos.ELA/core/types/common"
	"github.com/elastos/Elastos.ELA/core/types/outputpayload"
)

// C11. After DPoS v2 is active every accepted block's coinbase pays exactly
// subsidy + fees, split into the CR (30%), miner (35%) and DPoS (35%) shares at
// the fixed addresses. The model states that with exact integers and a
// one-sela tolerance on each percentage share (it does not mirror the node's
// rounding); the total must be exact.

func (s *sim) v2Regime(height uint32) bool {
	return s.v2active > 0 && height > s.v2active+1
}

// tweakCoinbase is the Byzantine miner editing an honestly assembled coinbase.
func (s *sim) tweakCoinbase(blk *types.Block, bad string, height uint32, miner *actor) {
	cb := blk.Transactions[0]
	outs := cb.Outputs()
	if len(outs) < 2 {
		return
	}
	switch bad {
	case "cb-shift":
		// move value from the CR share to the miner's own output
		d := common.Fixed64(1000)
		if outs[0].Value > d {
			outs[0].Value -= d
			outs[1].Value += d
		}
	case "cb-shift-dpos":
		if len(outs) >= 3 && outs[2].Value > 2 {
			outs[2].Value -= 2
			outs[1].Value += 2
		}
	case "cb-addr":
		// the CR share paid to the miner's address
		outs[0].ProgramHash = miner.acc.ProgramHash
	case "cb-addr-dpos":
		if len(outs) >= 3 {
			outs[2].ProgramHash = miner.acc.ProgramHash
		}
	case "cb-count4":
		if outs[1].Value > 1 {
			half := outs[1].Value / 2
			outs[1].Value -= half
			outs = append(outs, &common2.Output{AssetID: core.ELAAssetID, Value: half, ProgramHash: miner.acc.ProgramHash, Type: common2.OTNone, Payload: &outputpayload.DefaultOutput{}})
		}
	case "cb-extra-0", "cb-extra-1", "cb-extra-big":
		// the three expected outputs untouched, plus one more for the miner
		v := map[string]common.Fixed64{"cb-extra-0": 0, "cb-extra-1": 1, "cb-extra-big": 1000 * 100000000}[bad]
		outs = append(outs, &common2.Output{AssetID: core.ELAAssetID, Value: v, ProgramHash: miner.acc.ProgramHash, Type: common2.OTNone, Payload: &outputpayload.DefaultOutput{}})
	case "cb-count2":
		if len(outs) >= 3 {
			outs[1].Value += outs[2].Value
			outs = outs[:2]
		}
	case "cb-drop3":
		// the first two outputs exactly as they should be, the third missing
		if len(outs) >= 3 {
			outs = outs[:2]
		}
	default:
		return
	}
	cb.SetOutputs(outs)
}

// labelCoinbase is the model's verdict on a block's coinbase given the exact
// fee total of the block's (valid) transactions. "" means it obeys C11.
func (s *sim) labelCoinbase(blk *types.Block, height uint32, fees *big.Int, powMode bool) string {
	cfg := s.node.cfg
	cb := blk.Transactions[0]
	if !cb.IsCoinBaseTx() {
		return ""
	}
	want := new(big.Int).Add(fees, big.NewInt(int64(cfg.GetBlockReward(height))))
	sum := new(big.Int)
	for _, o := range cb.Outputs() {
		sum.Add(sum, big.NewInt(int64(o.Value)))
	}
	if c := sum.Cmp(want); c > 0 {
		return "coinbase-overpays"
	} else if c < 0 {
		return "coinbase-underpays"
	}
	if !s.v2Regime(height) {
		return "" // before DPoS v2 the property only asks for the schedule
	}
	s.c.Probe("coinbase-judged-under-dposv2-rules")
	outs := cb.Outputs()
	if len(outs) != 3 {
		return "coinbase-output-count"
	}
	near := func(v common.Fixed64, pct int64) bool {
		exact := new(big.Int).Mul(want, big.NewInt(pct))
		lo := new(big.Int).Div(exact, big.NewInt(100))
		hi := new(big.Int).Add(lo, big.NewInt(1))
		x := big.NewInt(int64(v))
		return x.Cmp(lo) >= 0 && x.Cmp(hi) <= 0
	}
	if !near(outs[0].Value, 30) || !near(outs[2].Value, 35) {
		return "coinbase-share-wrong"
	}
	// fixed addresses: CR assets and the DPoS v2 reward accumulation address
	// (both burnt to the destroy address while the chain is in PoW fallback mode)
	crAddr, dposAddr := *cfg.CRConfiguration.CRAssetsProgramHash, *cfg.DPoSConfiguration.DPoSV2RewardAccumulateProgramHash
	if powMode {
		crAddr, dposAddr = *cfg.DestroyELAProgramHash, *cfg.DestroyELAProgramHash
	}
	if outs[0].ProgramHash != crAddr || outs[2].ProgramHash != dposAddr {
		return "coinbase-address-wrong"
	}
	return ""
}

// checkSchedule (C11 first sentence): the subsidy is never negative and never
// increases with height once the new issuance schedule applies.
func (s *sim) checkSchedule() {
	cfg := s.node.cfg
	c := s.c
	c.Check()
	start := cfg.NewELAIssuanceHeight
	last := cfg.HalvingRewardHeight + 6*cfg.HalvingRewardInterval + 3
	if last < start+10 {
		last = start + 10
	}
	prev := cfg.GetBlockReward(start)
	for h := uint32(0); h <= last; h++ {
		r := cfg.GetBlockReward(h)
		if r < 0 {
			c.Violate("C11", "schedule", "C11/subsidy-negative", "GetBlockReward(%d) = %d", h, r)
			return
		}
		if h > start {
			if r > prev {
				c.Violate("C11", "schedule", "C11/subsidy-increases", "GetBlockReward(%d) = %d > GetBlockReward(%d) = %d (new issuance from %d, halving from %d every %d)", h, r, h-1, prev, start, cfg.HalvingRewardHeight, cfg.HalvingRewardInterval)
				return
			}
			if r < prev {
				c.Probe("subsidy-halving-crossed")
			}
			prev = r
		}
	}
	// far future: around every halving boundary up to the 100th (the subsidy
	// has long reached zero there; it must stay non-negative and non-increasing)
	if iv := cfg.HalvingRewardInterval; iv > 0 {
		for k := uint32(6); k <= 100; k++ {
			for _, h := range []uint32{cfg.HalvingRewardHeight + k*iv - 1, cfg.HalvingRewardHeight + k*iv, cfg.HalvingRewardHeight + k*iv + 1} {
				if h <= last {
					continue // heights are probed in increasing order only
				}
				last = h
				r := cfg.GetBlockReward(h)
				if r < 0 {
					c.Violate("C11", "schedule", "C11/subsidy-negative", "GetBlockReward(%d) = %d (%d halvings after height %d)", h, r, k, cfg.HalvingRewardHeight)
					return
				}
				if r > prev {
					c.Violate("C11", "schedule", "C11/subsidy-increases", "GetBlockReward(%d) = %d > %d at the previous boundary probe (halving from %d every %d)", h, r, prev, cfg.HalvingRewardHeight, iv)
					return
				}
				prev = r
			}
		}
		c.Probe("subsidy-swept-to-100-halvings")
	}
}
