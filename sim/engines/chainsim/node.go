package chainsim

import (
	"github.com/elastos/Elastos.ELA/utils"
	"crypto/sha256"
	"encoding/binary"
	"fmt"
	"math/rand"
	"os"
	"path/filepath"
	"sync"
	"time"

	"github.com/elastos/Elastos.ELA/account"
	"github.com/elastos/Elastos.ELA/blockchain"
	"github.com/elastos/Elastos.ELA/common"
	"github.com/elastos/Elastos.ELA/common/config"
	"github.com/elastos/Elastos.ELA/common/log"
	"github.com/elastos/Elastos.ELA/core/checkpoint"
	"github.com/elastos/Elastos.ELA/core/transaction"
	"github.com/elastos/Elastos.ELA/core/types"
	"github.com/elastos/Elastos.ELA/core/types/functions"
	"github.com/elastos/Elastos.ELA/core/types/interfaces"
	crstate "github.com/elastos/Elastos.ELA/cr/state"
	"github.com/elastos/Elastos.ELA/database/ffldb"
	"github.com/elastos/Elastos.ELA/dpos/state"
	"github.com/elastos/Elastos.ELA/events"
	"github.com/elastos/Elastos.ELA/mempool"
	"github.com/elastos/Elastos.ELA/p2p"
	"github.com/elastos/Elastos.ELA/pow"
)

var initOnce sync.Once

func processInit() {
	initOnce.Do(func() {
		functions.GetTransactionByTxType = transaction.GetTransaction
		functions.GetTransactionByBytes = transaction.GetTransactionByBytes
		functions.CreateTransaction = transaction.CreateTransaction
		functions.GetTransactionParameters = transaction.GetTransactionparameters
		dir := os.Getenv("SIM_TMP")
		if dir == "" {
			dir = os.TempDir()
		}
		// level 6 is above Fatal: nothing is ever written; the logger only has to exist.
		if d := os.Getenv("SIM_DEBUG_NODELOG"); d != "" {
			// developer aid: the node's own log, level Info, into the given directory
			log.NewDefault(d, 1, 0, 0)
			return
		}
		log.NewDefault(filepath.Join(dir, "nodelog"), 6, 0, 0)
	})
}

// actor is a simulated participant with a key derived from the plan seed.
type actor struct {
	idx   int
	acc   *account.Account
	weird string // non-empty: a key-less script actor (see weird.go)
	multi *multiInfo // non-nil: an M-of-N multisig address over key-holding actors (see multisig.go)
}

func makeActors(seed uint64, n int) []*actor {
	out := make([]*actor, n)
	for i := range out {
		var b [16]byte
		binary.LittleEndian.PutUint64(b[:], seed)
		binary.LittleEndian.PutUint64(b[8:], uint64(i)+1)
		priv := sha256.Sum256(b[:])
		priv[0] &= 0x7f // stay below the curve order
		acc, err := account.NewAccountWithPrivateKey(priv[:])
		if err != nil {
			panic(fmt.Sprintf("harness: actor key: %v", err))
		}
		out[i] = &actor{idx: i, acc: acc}
	}
	return out
}

// node is one full node instance built from the real components.
type node struct {
	dir       string
	cfg       *config.Configuration
	store     blockchain.IChainStore
	chain     *blockchain.BlockChain
	pool      *mempool.TxPool
	blockPool *mempool.BlockPool
	svc       *pow.Service
	arbiters  *state.Arbiters
	lockset   []string // lock-discipline breaches seen by the History probe
	locksetChecks int
	locksetRollbacks int
	locksetCommittee int
	committee *crstate.Committee
	ckp       *checkpoint.Manager
	ledger    *blockchain.Ledger
	discon    []*types.Block // ETBlockDisconnected events seen since last drain
	connected []*types.Block
	// C30: the last irreversible height as it stood before the current
	// reorganisation began (refreshed at every connect), and the blocks seen
	// detached at or below it
	lihRef     uint32
	lihCrossed []string
}

// baseConfig is the regnet configuration with instant proof of work and the
// genesis allocation owned by actor 0. Everything else is the shipped regnet.
func baseConfig(foundation *common.Uint168) *config.Configuration {
	cfg := config.GetDefaultParams().RegNet()
	cfg.ActiveNet = "regnet"
	cfg.FoundationProgramHash = foundation
	cfg.PowConfiguration.PowLimitBits = 0x207fffff
	cfg.PowConfiguration.PowLimit = blockchain.CompactToBig(0x207fffff)
	cfg.PowConfiguration.CoinbaseMaturity = 2
	cfg.PowConfiguration.PayToAddr = ""
	cfg.PowConfiguration.AutoMining = false
	cfg.CheckPointConfiguration.NeedSave = false
	cfg.FoundationAddress = ""
	// Below CheckRewardHeight the node deliberately tolerates historical
	// coinbase amounts; the simulated chain runs with rewards enforced.
	cfg.CheckRewardHeight = 0
	cfg.Sterilize() // derives the genesis block from the foundation program hash
	return cfg
}

// v2Arbiters is the real arbiter set with one answer supplied by the simulated
// environment: the height at which DPoS v2 became active. Reaching that state
// for real needs a populated producer/stake history (dposstate engine); the
// coinbase rules that depend on it are what runs for real here (C11).
type v2Arbiters struct {
	*state.Arbiters
	active uint32
	// cc: the current cross-chain arbiter set as the simulated environment
	// reports it (C33: "a controlled arbiter set"); electing one for real needs
	// a CR/producer history. nil: the real answers.
	cc []*state.ArbiterInfo
}

func (a *v2Arbiters) GetDPoSV2ActiveHeight() uint32 {
	if a.active == 0 {
		return a.Arbiters.GetDPoSV2ActiveHeight()
	}
	return a.active
}

func (a *v2Arbiters) GetCrossChainArbiters() []*state.ArbiterInfo {
	if a.cc == nil {
		return a.Arbiters.GetCrossChainArbiters()
	}
	return a.cc
}

func (a *v2Arbiters) GetCRCArbiters() []*state.ArbiterInfo {
	if a.cc == nil {
		return a.Arbiters.GetCRCArbiters()
	}
	return a.cc
}

func (a *v2Arbiters) GetCrossChainArbitersCount() int {
	if a.cc == nil {
		return a.Arbiters.GetCrossChainArbitersCount()
	}
	return len(a.cc)
}

func (a *v2Arbiters) GetCrossChainArbitersMajorityCount() int {
	if a.cc == nil {
		return a.Arbiters.GetCrossChainArbitersMajorityCount()
	}
	return len(a.cc) * 2 / 3
}

func newNode(dir string, cfg *config.Configuration, minerAddr string, v2active uint32, cc []*state.ArbiterInfo) (*node, error) {
	processInit()
	events.VerifReset()
	ffldb.Verif = &ffldb.VerifHooks{LdbWriteBuffer: 64 << 10, LdbBlockCache: 64 << 10}
	n := &node{dir: dir, cfg: cfg}
	config.DefaultParams = *cfg
	n.ckp = checkpoint.NewManager(cfg)
	n.ckp.SetDataPath(filepath.Join(dir, "checkpoints"))
	ledger := &blockchain.Ledger{}
	blockchain.FoundationAddress = *cfg.FoundationProgramHash
	store, err := blockchain.NewChainStore(dir, cfg)
	if err != nil {
		return nil, err
	}
	n.store = store
	ledger.Store = store
	n.pool = mempool.NewTxPool(cfg, n.ckp)
	n.blockPool = mempool.NewBlockPool(cfg)
	n.blockPool.Store = store
	blockchain.DefaultLedger = ledger
	n.committee = crstate.NewCommittee(cfg, n.ckp)
	ledger.Committee = n.committee
	arbiters, err := state.NewArbitrators(cfg, n.committee, ledger.GetAmount,
		n.committee.TryUpdateCRMemberInactivity,
		n.committee.TryRevertCRMemberInactivity,
		n.committee.TryUpdateCRMemberIllegal,
		n.committee.TryRevertCRMemberIllegal,
		n.committee.UpdateCRInactivePenalty,
		n.committee.RevertUpdateCRInactivePenalty,
		n.ckp)
	if err != nil {
		return nil, err
	}
	n.arbiters = arbiters
	ledger.Arbitrators = arbiters
	// Lock discipline (C40): whatever rewrites the DPoS state through its change
	// history (commit, seek, rollback) does so with the owner's lock held. The
	// probe runs on the operating goroutine at the start of the History call.
	utils.VerifOnHistoryOp = func(h *utils.History, op string) {
		switch h {
		case arbiters.State.History:
			n.locksetChecks++
			if op == "rollback" {
				n.locksetRollbacks++
			}
			if !arbiters.State.VerifWriteLockHeld() {
				n.lockset = append(n.lockset, "state-history-"+op+"-without-state-write-lock")
			}
		case arbiters.History:
			n.locksetChecks++
			if !arbiters.VerifLockHeld() {
				n.lockset = append(n.lockset, "arbiters-history-"+op+"-without-arbiters-lock")
			}
		default:
			for _, ch := range n.committee.VerifHistories() {
				if h == ch {
					n.locksetChecks++
					n.locksetCommittee++
					if !n.committee.VerifWriteLockHeld() {
						n.lockset = append(n.lockset, "committee-history-"+op+"-without-committee-write-lock")
					}
					break
				}
			}
		}
	}
	var arbIface state.Arbitrators = arbiters
	if v2active > 0 || cc != nil {
		arbIface = &v2Arbiters{Arbiters: arbiters, active: v2active, cc: cc}
		ledger.Arbitrators = arbIface
	}
	chain, err := blockchain.New(store, cfg, arbiters.State, n.committee, n.ckp)
	if err != nil {
		return nil, err
	}
	if err := chain.Init(nil); err != nil {
		return nil, err
	}
	n.chain = chain
	ledger.Blockchain = chain
	n.ledger = ledger
	n.blockPool.Chain = chain
	arbiters.RegisterFunction(chain.GetHeight, chain.GetBestBlockHash, chain.GetBlock, chain.UTXOCache.GetTxReference)
	isCurrent := func() bool { return true }
	n.blockPool.IsCurrent = isCurrent
	arbiters.State.RegisterFuncitons(&state.StateFuncsConfig{
		GetHeight:                           store.GetHeight,
		IsCurrent:                           isCurrent,
		Broadcast:                           func(p2p.Message) {},
		AppendToTxpool:                      n.pool.AppendToTxPool,
		CreateDposV2RealWithdrawTransaction: chain.CreateDposV2RealWithdrawTransaction,
		CreateVotesRealWithdrawTransaction:  chain.CreateVotesRealWithdrawTransaction,
	})
	n.committee.RegisterFuncitons(&crstate.CommitteeFuncsConfig{
		GetTxReference:                   chain.UTXOCache.GetTxReference,
		GetUTXO:                          store.GetFFLDB().GetUTXO,
		GetHeight:                        store.GetHeight,
		CreateCRAppropriationTransaction: chain.CreateCRCAppropriationTransaction,
		CreateCRAssetsRectifyTransaction: chain.CreateCRAssetsRectifyTransaction,
		CreateCRRealWithdrawTransaction:  chain.CreateCRRealWithdrawTransaction,
		IsCurrent:                        isCurrent,
		Broadcast:                        func(p2p.Message) {},
		AppendToTxpool:                   n.pool.AppendToTxPool,
		GetCurrentArbiters:               arbiters.GetCurrentArbitratorKeys,
	})
	n.svc = pow.NewService(&pow.Config{
		PayToAddr:      minerAddr,
		MinerInfo:      "sim",
		Chain:          chain,
		ChainParams:    cfg,
		TxMemPool:      n.pool,
		BlkMemPool:     n.blockPool,
		BroadcastBlock: func(*types.Block) {},
		Arbitrators:    arbIface,
	})
	if err := chain.InitCheckpoint(nil, nil, nil); err != nil {
		return nil, err
	}
	// The netsync manager's event glue, mirrored (stub): what the node does to
	// its mempool and caches when blocks connect and disconnect.
	events.Subscribe(func(e *events.Event) {
		switch e.Type {
		case events.ETBlockProcessed:
			n.pool.CheckAndCleanAllTransactions()
		case events.ETBlockConnected:
			if b, ok := e.Data.(*types.Block); ok {
				n.pool.CleanSubmittedTransactions(b)
				n.chain.UTXOCache.CleanTxCache()
				n.connected = append(n.connected, b)
				n.lihRef = n.arbiters.State.GetLastIrreversibleHeight()
			}
		case events.ETBlockDisconnected:
			if b, ok := e.Data.(*types.Block); ok {
				n.discon = append(n.discon, b)
				undo := false
				for _, cb := range n.connected {
					undo = undo || cb.Hash() == b.Hash()
				}
				// (undo: a block attached earlier in this very delivery is taken
				// off again - the branch turned out invalid and the node returns
				// to its previous chain; heights "recorded" while walking an
				// invalid branch bind nothing)
				if !undo && n.lihRef > 0 && b.Height <= n.lihRef {
					n.lihCrossed = append(n.lihCrossed, fmt.Sprintf("block at height %d detached while the last irreversible height was %d", b.Height, n.lihRef))
				}
				for _, tx := range b.Transactions[1:] {
					if err := n.pool.MaybeAcceptTransaction(tx); err != nil {
						n.pool.RemoveTransaction(tx)
					}
				}
			}
		}
	})
	return n, nil
}

func (n *node) close() {
	n.store.Close()
	// the shipped node leaves the legacy leveldb handle to process exit
	if cs, ok := n.store.(interface{ CloseLeveldb() }); ok {
		cs.CloseLeveldb()
	}
	events.VerifReset()
	utils.VerifOnHistoryOp = nil
}

// seedGlobals pins the process-global sources the node draws from.
func seedGlobals(seed uint64) {
	rand.Seed(int64(seed))
}

func txHashes(txs []interfaces.Transaction) []common.Uint256 {
	out := make([]common.Uint256, len(txs))
	for i, t := range txs {
		out[i] = t.Hash()
	}
	return out
}

var _ = time.Now
