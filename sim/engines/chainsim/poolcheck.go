package chainsim

import (
	"fmt"

	"github.com/elastos/Elastos.ELA/common"
	"github.com/elastos/Elastos.ELA/mempool"
)

// checkPoolBookkeeping is the C34 oracle: the mempool's fee ordering, size
// accounting and per-resource index agree exactly with the transactions it
// holds, and its size stays within the limit. It reads a copy of the pool's
// internals taken under the pool's own lock (verif export).
func (s *sim) checkPoolBookkeeping() {
	c := s.c
	c.Check()
	snap := mempool.VerifSnapshot(s.node.pool)
	held := map[common.Uint256]bool{}
	for _, h := range snap.Txs {
		held[h] = true
	}
	if n := s.node.pool.GetTransactionCount(); n != len(snap.Txs) {
		c.Violate("C34", "count", "C34/transaction-count-disagrees", "GetTransactionCount()=%d, pool holds %d", n, len(snap.Txs))
		return
	}
	// fee list: same set as the held transactions, no duplicates, ordered, sizes right
	seen := map[common.Uint256]bool{}
	var total uint64
	for i, it := range snap.FeeList {
		if seen[it.Hash] {
			c.Violate("C34", "fee-list", "C34/fee-list-duplicate-entry", "fee list holds %x twice", it.Hash[:6])
			return
		}
		seen[it.Hash] = true
		if !held[it.Hash] {
			c.Violate("C34", "fee-list", "C34/fee-list-entry-without-transaction", "fee list entry %x has no transaction in the pool", it.Hash[:6])
			return
		}
		if sz := snap.TxSizes[it.Hash]; sz != int(it.Size) {
			c.Violate("C34", "fee-list", "C34/fee-list-size-disagrees", "fee list says %d bytes for %x, the transaction has %d", it.Size, it.Hash[:6], sz)
			return
		}
		if i > 0 && snap.FeeList[i-1].FeeRate < it.FeeRate {
			c.Violate("C34", "fee-list", "C34/fee-list-out-of-order", "fee list entry %d (rate %g) ranks below entry %d (rate %g)", i-1, snap.FeeList[i-1].FeeRate, i, it.FeeRate)
			return
		}
		total += uint64(it.Size)
	}
	for _, h := range snap.Txs {
		if !seen[h] {
			c.Violate("C34", "fee-list", "C34/transaction-missing-from-fee-list", "pool holds %x but the fee list does not", h[:6])
			return
		}
	}
	if total != snap.TotalSize {
		c.Violate("C34", "size", "C34/size-accounting-disagrees", "recorded total size %d, sum of held transactions %d", snap.TotalSize, total)
		return
	}
	if snap.TotalSize > snap.MaxSize {
		c.Violate("C34", "size", "C34/size-limit-exceeded", "pool size %d exceeds the limit %d", snap.TotalSize, snap.MaxSize)
		return
	}
	if snap.MaxSize < 1<<20 && len(snap.Txs) > 0 {
		c.Probe("pool-under-small-size-limit")
	}
	// per-resource index: every occupied key belongs to a held transaction ...
	index := map[string]common.Uint256{}
	for _, e := range snap.Slots {
		if !held[e.Tx] {
			c.Violate("C34", "index", "C34/index-entry-for-absent-transaction/"+e.Slot, "slot %s key %s points to %x which the pool does not hold", e.Slot, short(e.Key), e.Tx[:6])
			return
		}
		index[e.Slot+"|"+e.Key] = e.Tx
	}
	// ... and every held transaction owns each of its keys
	for _, tx := range s.node.pool.GetTxsInPool() {
		h := tx.Hash()
		for _, k := range mempool.VerifSlotKeys(s.node.pool, tx) {
			owner, ok := index[k.Slot+"|"+k.Key]
			if !ok {
				c.Violate("C34", "index", "C34/held-transaction-missing-from-index/"+k.Slot, "transaction %x is held but its key %s is not in slot %s", h[:6], short(k.Key), k.Slot)
				return
			}
			if owner != h {
				c.Violate("C34", "index", "C34/two-transactions-claim-one-resource/"+k.Slot, "slot %s key %s belongs to %x but held transaction %x claims it too", k.Slot, short(k.Key), owner[:6], h[:6])
				return
			}
		}
	}
	if snap.ProposalsUsedAmount != 0 {
		// no proposal transactions in this engine's workload
		c.Violate("C34", "budget", "C34/pending-proposal-budget-nonzero-without-proposals", "proposalsUsedAmount=%d with no proposal transaction in the pool", snap.ProposalsUsedAmount)
	}
}

func short(k string) string {
	if len(k) > 22 {
		return k[:22] + fmt.Sprintf("..(%d)", len(k))
	}
	return k
}
