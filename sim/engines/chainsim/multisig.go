package chainsim

import (
	"bytes"
	"crypto/sha256"
	"encoding/binary"
	"fmt"

	"github.com/elastos/Elastos.ELA/account"
	"github.com/elastos/Elastos.ELA/common"
	"github.com/elastos/Elastos.ELA/core/contract"
	pg "github.com/elastos/Elastos.ELA/core/contract/program"
	"github.com/elastos/Elastos.ELA/core/types/interfaces"
	"github.com/elastos/Elastos.ELA/crypto"
)

// Multisig actors (C05): an address controlled by M of N key-holding actors
// (2 <= M <= N <= 4). The harness knows which member signed what, so the
// model's verdict needs no script interpretation: a spend is authorised iff
// the attached program carries the address's own script and at least M valid
// signatures over exactly the unsigned content by M DISTINCT members.

type multiInfo struct {
	m       int
	members []int // indexes of key-holding actors
}

func addMultisigActors(actors []*actor, nKeyed int, seed uint64, n int) []*actor {
	if nKeyed < 2 {
		return actors
	}
	for i := 0; i < n; i++ {
		var b [16]byte
		binary.LittleEndian.PutUint64(b[:], seed^0xC05C05)
		binary.LittleEndian.PutUint64(b[8:], uint64(i))
		h := sha256.Sum256(b[:])
		nn := 2 + int(h[0])%3
		if nn > nKeyed {
			nn = nKeyed
		}
		m := 2 + int(h[1])%(nn-1)
		if m > nn {
			m = nn
		}
		var members []int
		var keys []*crypto.PublicKey
		for k := 0; k < nn; k++ {
			idx := (int(h[2]) + k) % nKeyed
			members = append(members, idx)
			keys = append(keys, actors[idx].acc.PublicKey)
		}
		code, err := contract.CreateMultiSigRedeemScript(m, keys)
		if err != nil || code == nil {
			panic(fmt.Sprintf("harness: multisig script: %v", err))
		}
		ph := common.ToProgramHash(byte(contract.PrefixMultiSig), code)
		dup := false
		for _, a := range actors {
			dup = dup || a.acc.ProgramHash == *ph
		}
		if dup {
			continue // same members and threshold as an earlier one: one address, one actor
		}
		addr, _ := ph.ToAddress()
		actors = append(actors, &actor{idx: len(actors), multi: &multiInfo{m: m, members: members},
			acc: &account.Account{ProgramHash: *ph, RedeemScript: code, Address: addr}})
	}
	return actors
}

// witnessVariant returns the same transaction (same id) carrying a larger but
// equally valid witness, or nil when none exists: an honest spend from an
// M-of-N multisig address with M < N may carry M+1 member signatures.
func (s *sim) witnessVariant(pi *txInfo) interfaces.Transaction {
	progs := pi.tx.Programs()
	if len(progs) != 1 || pi.facts.tampered {
		return nil
	}
	var from *actor
	for _, a := range s.actors {
		if a.multi != nil && bytes.Equal(a.acc.RedeemScript, progs[0].Code) {
			from = a
		}
	}
	if from == nil || !pi.facts.signedBy[from.idx] || from.multi.m >= len(from.multi.members) {
		return nil
	}
	cp := cloneTx(pi.tx)
	var unsigned bytes.Buffer
	cp.SerializeUnsigned(&unsigned)
	var param []byte
	for k := 0; k < from.multi.m+1; k++ {
		who := s.actors[from.multi.members[k]]
		sig, err := signData(who.acc.PrivKey(), unsigned.Bytes())
		if err != nil {
			panic(fmt.Sprintf("harness: sign: %v", err))
		}
		param = append(param, byte(len(sig)))
		param = append(param, sig...)
	}
	cp.SetPrograms([]*pg.Program{{Code: from.acc.RedeemScript, Parameter: param}})
	if cp.Hash() != pi.tx.Hash() {
		panic("harness: witness variant changed the transaction id")
	}
	return cp
}

// multiParam builds the parameter (signature area) of a spend from a multisig
// actor. mode: 0 M distinct members sign; 1 one member signs M times (fresh
// signatures: different bytes, same key); 4 only M-1 distinct members sign;
// 5 M signatures, one of them by a key that is not a member; 6 one member's
// signature repeated M times byte for byte; 7 M-1 distinct members + the first
// of them once more. Returns whether M distinct members signed data.
func (s *sim) multiParam(a *actor, mode, pick int, data []byte) ([]byte, bool) {
	mi := a.multi
	sign := func(who *actor) []byte {
		sig, err := signData(who.acc.PrivKey(), data)
		if err != nil {
			panic(fmt.Sprintf("harness: sign: %v", err))
		}
		return append([]byte{byte(len(sig))}, sig...)
	}
	member := func(k int) *actor { return s.actors[mi.members[mod(pick+k, len(mi.members))]] }
	var out []byte
	switch mode {
	case 1:
		for k := 0; k < mi.m; k++ {
			out = append(out, sign(member(0))...)
		}
		s.c.Fault("multisig:one-member-signs-m-times")
		return out, false
	case 4:
		for k := 0; k < mi.m-1; k++ {
			out = append(out, sign(member(k))...)
		}
		s.c.Fault("multisig:m-minus-one-signatures")
		return out, false
	case 5:
		var outsider *actor
		for i := 0; i < s.nKeyed; i++ {
			in := false
			for _, x := range mi.members {
				in = in || x == i
			}
			if !in {
				outsider = s.actors[i]
				break
			}
		}
		if outsider == nil {
			return s.multiParam(a, 1, pick, data)
		}
		for k := 0; k < mi.m-1; k++ {
			out = append(out, sign(member(k))...)
		}
		out = append(out, sign(outsider)...)
		s.c.Fault("multisig:non-member-signature")
		return out, false
	case 6:
		one := sign(member(0))
		for k := 0; k < mi.m; k++ {
			out = append(out, one...)
		}
		s.c.Fault("multisig:same-signature-repeated")
		return out, false
	case 7:
		for k := 0; k < mi.m-1; k++ {
			out = append(out, sign(member(k))...)
		}
		out = append(out, sign(member(0))...)
		s.c.Fault("multisig:m-signatures-by-m-minus-one-members")
		return out, false
	}
	for k := 0; k < mi.m; k++ {
		out = append(out, sign(member(k))...)
	}
	s.c.Probe("multisig-honest-spend-built")
	return out, true
}
