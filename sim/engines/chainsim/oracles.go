package chainsim

import (
	"fmt"
	"math/big"
	"sort"

	"github.com/elastos/Elastos.ELA/blockchain"
	"github.com/elastos/Elastos.ELA/common"
	"github.com/elastos/Elastos.ELA/common/config"
	"github.com/elastos/Elastos.ELA/core/types/interfaces"
)

func bigInt(x int64) *big.Int { return big.NewInt(x) }

func (s *sim) applyKnobs(cfg *config.Configuration) {
	p := s.c.Plan
	if v := p.Knob("maturity", -1); v >= 0 {
		cfg.PowConfiguration.CoinbaseMaturity = uint32(v)
	}
	// cache knobs (C15): a reference cache of a handful of entries evicts on
	// nearly every lookup. MaxReferenceSize is a package variable of the node.
	blockchain.MaxReferenceSize = 100000
	if v := p.Knob("maxref", 0); v > 0 {
		blockchain.MaxReferenceSize = int(v)
	}
	if v := p.Knob("txcachevol", -1); v >= 0 {
		cfg.TxCacheVolume = uint32(v)
	}
	// irreversibility regime (C30): the CRC-only DPoS era and the height from
	// which the state tracks a last irreversible height, inside the run
	if v := p.Knob("crconly", 0); v > 0 {
		cfg.CRCOnlyDPOSHeight = uint32(v)
		cfg.DPoSConfiguration.RevertToPOWStartHeight = uint32(v + p.Knob("revertpowoff", 0))
		// the DPoS state processes blocks from VoteStartHeight /
		// CRCOnlyDPOSHeight-PreConnectOffset on (checkpoint StartHeight)
		cfg.VoteStartHeight = 1
		cfg.DPoSConfiguration.PreConnectOffset = 1
		if nb := p.Knob("nbtime", 0); nb > 0 {
			// how long the chain must have been silent before a revert-to-PoW
			// transaction is admissible
			cfg.DPoSConfiguration.RevertToPOWNoBlockTime = nb
			cfg.DPoSConfiguration.RevertToPOWNoBlockTimeV1 = nb
		}
	}
	// compressed issuance schedule (C11)
	if v := p.Knob("newissue", -1); v >= 0 {
		cfg.NewELAIssuanceHeight = uint32(v)
	}
	if v := p.Knob("halvingh", -1); v >= 0 {
		cfg.HalvingRewardHeight = uint32(v)
	}
	if v := p.Knob("halvingint", -1); v > 0 {
		cfg.HalvingRewardInterval = uint32(v)
	}
}

// checkAll runs after every step, once the node's goroutines are quiescent.
func (s *sim) checkAll() {
	if s.dead || s.node == nil {
		return
	}
	c := s.c
	tip := s.nodeTip()
	c.State(uint64(tip.idx)<<32 ^ uint64(len(s.blocks))<<8 ^ uint64(s.node.pool.GetTransactionCount()))

	// (0) lock discipline of the DPoS change histories (C40)
	if n := s.node.locksetChecks; n > 0 {
		c.ProbeN("history-op-lock-probed", n)
		s.node.locksetChecks = 0
		if s.node.locksetCommittee > 0 {
			c.ProbeN("committee-history-op-lock-probed", s.node.locksetCommittee)
			s.node.locksetCommittee = 0
		}
		if s.node.locksetRollbacks > 0 {
			c.ProbeN("state-history-rollback-lock-probed", s.node.locksetRollbacks)
			s.node.locksetRollbacks = 0
		}
		c.Check()
	}
	for _, l := range s.node.lockset {
		c.Violate("C40", "lock-discipline", "C40/lockset/"+l,
			"DPoS / CR state was rewritten through its change history without its owner's lock (%s): a state query holding the read lock at that moment reads maps that are being written", l)
	}
	s.node.lockset = nil

	// (1) the active chain is a chain of model-valid blocks
	c.Check()
	if !tip.valid {
		bad := tip
		for bad.parent != nil && !bad.parent.valid {
			bad = bad.parent
		}
		p := propOfReason(bad.why)
		msg := fmt.Sprintf("active chain contains block #%d (h=%d) which the ledger model labels %s", bad.idx, bad.height, bad.why)
		sig := p + "/accepted-block/" + classOf(bad.why)
		c.Violate(p, "active-chain-valid", sig, "%s", msg)
		if p != "C12" && !c.IsKnown(p, sig) {
			c.Violate("C12", "active-chain-valid", "C12/active-chain-invalid/"+classOf(bad.why), "%s", msg)
		}
		if c.IsKnown(p, sig) && bad == tip {
			// a listed known finding: the model adopts the node's verdict for this
			// block so that the rest of the run keeps being checked
			s.adopt(bad)
			c.Probe("model-adopted-node-verdict-for-known-finding")
		}
		return
	}

	// (4) height, per-height hashes and best chain agree with each other and the model
	chain := tip.chain()
	if got := s.node.chain.GetHeight(); got != tip.height {
		c.Violate("C12", "height", "C12/height-disagrees-with-tip", "GetHeight()=%d but best chain tip is at %d", got, tip.height)
	}
	if got := s.node.store.GetHeight(); got != tip.height {
		c.Violate("C12", "height", "C12/store-height-disagrees-with-tip", "store height %d, tip %d", got, tip.height)
	}
	for _, b := range chain {
		h, err := s.node.chain.GetBlockHash(b.height)
		if err != nil || h != b.hash {
			c.Violate("C12", "block-hash", "C12/block-hash-at-height-wrong", "GetBlockHash(%d)=%x err=%v, active chain has %x", b.height, h[:6], err, b.hash[:6])
			break
		}
	}

	// (2) no valid chain the node retains has strictly more work
	c.Check()
	lih := s.node.arbiters.State.GetLastIrreversibleHeight()
	for _, b := range s.blocks {
		if !b.valid || b.work.Cmp(tip.work) <= 0 || b.isAncestorOf(tip) {
			continue
		}
		if !s.allKnown(b) {
			continue
		}
		// exception: switching would detach a block at or below the last irreversible height
		fork := b
		for fork != nil && !fork.isAncestorOf(tip) {
			fork = fork.parent
		}
		if fork != nil && lih > 0 && fork.height < lih {
			c.Probe("reorg-refused-as-irreversible")
			continue
		}
		sig := "C12/heavier-valid-chain-known"
		if fork != nil && fork.height == lih && tip.height > s.node.cfg.CRCOnlyDPOSHeight {
			// the lowest block to detach is the one just above the last
			// irreversible height: kept apart (IsIrreversible's boundary)
			sig += "/fork-exactly-at-last-irreversible-height"
		} else if fork != nil && lih == 0 && tip.height-fork.height > 6 && tip.height > s.node.cfg.CRCOnlyDPOSHeight {
			sig += "/deeper-than-six-before-an-irreversible-height-is-recorded"
		}
		if s.failedSwitch {
			// consequence of an earlier failed switch in this very run; kept
			// apart so the generic signature still reports any other cause
			sig += "/after-failed-switch"
		}
		c.Violate("C12", "most-work", sig, "node is on #%d (h=%d, work %v) although it retains the valid chain ending in #%d (h=%d, work %v)", tip.idx, tip.height, tip.work, b.idx, b.height, b.work)
		break
	}

	s.checkViews(tip)
	s.checkPool(tip)
	s.checkPoolBookkeeping()
	if s.prop == "C15" || s.c.Plan.Knob("maxref", 0) > 0 {
		s.checkCaches(tip)
	}
}

// checkViews is the C14 oracle: every queryable UTXO view agrees with the
// ledger obtained by replaying the active chain.
func (s *sim) checkViews(tip *mBlock) {
	c := s.c
	c.Check()
	v := tip.view
	ffl := s.node.store.GetFFLDB()
	// unspent outputs per transaction
	var ids []common.Uint256
	for id := range v.txs {
		ids = append(ids, id)
	}
	sort.Slice(ids, func(i, j int) bool { return string(ids[i][:]) < string(ids[j][:]) })
	want := map[common.Uint256][]uint16{}
	for op := range v.utxo {
		want[op.tx] = append(want[op.tx], op.idx)
	}
	for _, id := range ids {
		got, err := ffl.GetUnspent(id)
		w := want[id]
		sort.Slice(w, func(i, j int) bool { return w[i] < w[j] })
		g := append([]uint16(nil), got...)
		sort.Slice(g, func(i, j int) bool { return g[i] < g[j] })
		if fmt.Sprint(g) != fmt.Sprint(w) && !(len(g) == 0 && len(w) == 0) {
			c.Violate("C14", "unspent", "C14/unspent-index-disagrees", "GetUnspent(%x)=%v err=%v, ledger has %v unspent (tip h=%d)", id[:6], g, err, w, tip.height)
			return
		}
		tx, h, err := ffl.GetTransaction(id)
		if err != nil || tx == nil || h != v.txs[id] {
			c.Violate("C14", "tx-lookup", "C14/tx-lookup-disagrees", "GetTransaction(%x) -> height %d err=%v, ledger has it at height %d", id[:6], h, err, v.txs[id])
			return
		}
	}
	// transactions only on other branches must not be found
	for _, b := range s.blocks {
		if b.isAncestorOf(tip) {
			continue
		}
		for _, tx := range b.blk.Transactions {
			id := tx.Hash()
			if _, on := v.txs[id]; on {
				continue
			}
			if t, h, err := ffl.GetTransaction(id); err == nil && t != nil {
				c.Violate("C14", "tx-lookup", "C14/tx-of-inactive-branch-found", "GetTransaction(%x) finds a transaction at height %d that is only on an inactive branch (block #%d)", id[:6], h, b.idx)
				return
			}
		}
	}
	// per-address lists and balances
	for _, a := range s.actors {
		utxos, err := ffl.GetUTXO(&a.acc.ProgramHash)
		if err != nil {
			c.Violate("C14", "address-utxo", "C14/getutxo-error", "GetUTXO(actor %d): %v", a.idx, err)
			return
		}
		gotSet := map[outpoint]int64{}
		for _, u := range utxos {
			if u.Value == 0 {
				c.Violate("C14", "address-utxo", "C14/zero-value-output-listed", "GetUTXO(actor %d) lists zero-value output %x:%d", a.idx, u.TxID[:6], u.Index)
				return
			}
			gotSet[outpoint{u.TxID, u.Index}] = int64(u.Value)
		}
		wantSum := new(big.Int)
		n := 0
		for _, op := range v.utxosOf(a.idx) {
			o := v.utxo[op]
			if o.value == 0 {
				continue
			}
			n++
			wantSum.Add(wantSum, bigInt(o.value))
			if gv, ok := gotSet[op]; !ok || gv != o.value {
				c.Violate("C14", "address-utxo", "C14/address-utxo-list-disagrees", "GetUTXO(actor %d) lacks %s=%d (has %d entries, ledger %d)", a.idx, fmtOut(op), o.value, len(gotSet), len(v.utxosOf(a.idx)))
				return
			}
		}
		if n != len(gotSet) {
			c.Violate("C14", "address-utxo", "C14/address-utxo-list-disagrees", "GetUTXO(actor %d) has %d entries, ledger %d", a.idx, len(gotSet), n)
			return
		}
		amt, err := s.node.ledger.GetAmount(a.acc.ProgramHash)
		if err != nil || (wantSum.IsInt64() && int64(amt) != wantSum.Int64()) {
			c.Violate("C14", "balance", "C14/balance-disagrees", "GetAmount(actor %d)=%d err=%v, ledger %v", a.idx, amt, err, wantSum)
			return
		}
	}
	// conservation on what the node itself reports (C01 backstop): the sum of
	// all listed outputs never exceeds what was issued
	tot := v.total()
	if tot.Cmp(v.minted) > 0 {
		c.Violate("C01", "conservation", "C01/unspent-total-exceeds-issuance", "unspent total %v exceeds everything ever minted %v", tot, v.minted)
	}
}

// checkPool: the mempool never holds two transactions spending one outpoint
// (C06) nor a transaction spending something not unspent on the active chain.
func (s *sim) checkPool(tip *mBlock) {
	c := s.c
	c.Check()
	seen := map[outpoint]common.Uint256{}
	txs := s.node.pool.GetTxsInPool()
	sort.Slice(txs, func(i, j int) bool {
		a, b := txs[i].Hash(), txs[j].Hash()
		return string(a[:]) < string(b[:])
	})
	for _, tx := range txs {
		id := tx.Hash()
		for _, in := range tx.Inputs() {
			op := outpoint{in.Previous.TxID, in.Previous.Index}
			if other, dup := seen[op]; dup {
				c.Violate("C06", "mempool-disjoint", "C06/mempool-holds-two-spends-of-one-outpoint", "mempool holds %x and %x both spending %s", id[:6], other[:6], fmtOut(op))
				return
			}
			seen[op] = id
			if _, ok := tip.view.utxo[op]; !ok {
				if _, spent := tip.view.spent[op]; spent {
					c.Violate("C06", "mempool-vs-chain", "C06/mempool-holds-spend-of-spent-outpoint", "after cleanup the mempool still holds %x spending %s, already spent on the active chain", id[:6], fmtOut(op))
					return
				}
			}
		}
	}
}

var _ interfaces.Transaction
