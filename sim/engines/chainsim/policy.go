package chainsim

import (
	"math/big"
	"strings"

	"github.com/elastos/Elastos.ELA/common/config"
	"github.com/elastos/Elastos.ELA/core/contract"
)

// label is the ledger model's verdict for one transaction at one height:
// first the policy rules written from the property texts (C32: frozen
// addresses), then the ledger rules (labelTx).
func (s *sim) label(v *view, info *txInfo, height uint32) (string, *big.Int) {
	cfg := s.node.cfg
	lbl, fee := labelTx(v, info.facts, height, int64(cfg.MinTransactionFee), cfg.PowConfiguration.CoinbaseMaturity)
	if lbl == "missing-signature-of-owner" || lbl == "signature-over-other-content" {
		// spends from a script actor get their own class, naming the script shape
		for _, in := range info.facts.ins {
			if o, ok := v.utxo[in]; ok && o.owner >= 0 && s.actors[o.owner].weird != "" {
				lbl = "unsigned-spend-from-script-address/" + s.actors[o.owner].weird
				if cc := s.ccActor(); cc != nil && contract.GetPrefixType(o.ph) == contract.PrefixCrossChain && s.actors[mod(info.spec.From, len(s.actors))] == cc {
					// the client of the cross-chain actor attaches its
					// well-formed self-made script to whatever 'X' output it
					// takes: one defect, one name
					lbl = "unsigned-spend-from-script-address/" + ccShape
				}
				break
			}
		}
	}
	if info.facts.wd != nil && lbl == "" {
		lbl = s.labelWithdraw(v, info, height)
	}
	if v.pow && lbl == "" {
		// the chain this transaction would join has reverted to PoW consensus
		s.c.Probe("transaction-judged-in-pow-consensus-mode")
		return "not-allowed-in-pow-consensus", fee
	}
	// C31: in the freeze window nothing spends a cross-chain output; from the
	// restriction height on only side-chain withdrawals / legacy deposit
	// returns may (this engine builds transfers only, so: nothing it builds).
	if s.ccFreeze > 0 || s.ccRestrict > 0 {
		spendsCross := false
		for _, in := range info.facts.ins {
			if o, ok := v.utxo[in]; ok && contract.GetPrefixType(o.ph) == contract.PrefixCrossChain {
				spendsCross = true
			}
		}
		if spendsCross {
			band := "before-freeze"
			if height >= s.ccFreeze && height < s.ccRestrict {
				band = "freeze-window"
			} else if height >= s.ccFreeze {
				band = "restricted"
			}
			s.c.Probe("cross-chain-spend-judged:" + band)
			policyFirst := lbl == "" || lbl == "missing-signature-of-owner" || lbl == "signature-over-other-content" || strings.HasPrefix(lbl, "unsigned-spend-from-script-address")
			if policyFirst && band == "freeze-window" {
				return "crosschain-utxo-frozen", fee
			}
			if policyFirst && band == "restricted" && info.facts.wd == nil {
				return "crosschain-utxo-restricted", fee
			}
		}
	}
	if s.frozen >= 0 {
		// C32: from its start height on, no non-coinbase transaction that spends
		// an output owned by a frozen address or pays to it is accepted. Each
		// listed address has its own start height.
		active := func(owner int) bool {
			return owner >= 0 && (owner == s.frozen && height >= s.frozenHeight || owner == s.frozen2 && height >= s.frozenHeight2)
		}
		listed := func(owner int) bool { return owner >= 0 && (owner == s.frozen || owner == s.frozen2) }
		touches, early := false, false
		for _, in := range info.facts.ins {
			if o, ok := v.utxo[in]; ok {
				touches = touches || active(o.owner)
			}
		}
		for _, o := range info.outs {
			touches = touches || active(o.owner)
			early = early || listed(o.owner) && !active(o.owner)
		}
		if touches {
			s.c.Probe("tx-touches-frozen-address-at-or-after-start")
			if s.frozen2 >= 0 && height < max(s.frozenHeight, s.frozenHeight2) {
				s.c.Probe("tx-touches-frozen-address-while-another-entry-not-yet-active")
			}
			if lbl == "" {
				return "frozen-address", fee
			}
		} else if early {
			s.c.Probe("tx-touches-frozen-address-before-start")
		}
	}
	return lbl, fee
}

// applyPolicyKnobs configures the emergency-policy parameters of the node
// under simulation from the plan.
func (s *sim) applyPolicyKnobs(cfg *config.Configuration) {
	p := s.c.Plan
	// cross-chain UTXO emergency policy: disabled unless the plan sets it
	cfg.CrossChainUTXOFreezeHeight = config.DisabledCrossChainUTXORestrictionHeight
	cfg.CrossChainUTXORestrictionHeight = config.DisabledCrossChainUTXORestrictionHeight
	s.ccFreeze, s.ccRestrict = 0, 0
	if f := p.Knob("ccfreeze", 0); f > 0 {
		s.ccFreeze = uint32(f)
		s.ccRestrict = uint32(f + p.Knob("ccwindow", 0))
		cfg.CrossChainUTXOFreezeHeight = s.ccFreeze
		cfg.CrossChainUTXORestrictionHeight = s.ccRestrict
	}
	s.frozen = int(p.Knob("frozen", -1))
	s.frozenHeight = uint32(p.Knob("frozenh", 0))
	if s.frozen >= 0 {
		s.frozen = mod(s.frozen, len(s.actors))
		a := s.actors[s.frozen]
		ph := a.acc.ProgramHash
		cfg.FrozenAddresses = []config.FrozenAddress{{Address: a.acc.Address, DisableStartHeight: s.frozenHeight, ProgramHash: &ph}}
	}
	// a second entry with its own start height, listed before or after the first
	s.frozen2 = -1
	if f2 := p.Knob("frozen2", -1); f2 >= 0 && s.frozen >= 0 {
		s.frozen2 = mod(int(f2), len(s.actors))
		s.frozenHeight2 = uint32(p.Knob("frozen2h", 0))
		if s.frozen2 == s.frozen {
			s.frozen2 = -1
		} else {
			a := s.actors[s.frozen2]
			ph := a.acc.ProgramHash
			e := config.FrozenAddress{Address: a.acc.Address, DisableStartHeight: s.frozenHeight2, ProgramHash: &ph}
			if p.Knob("frozen2first", 0) > 0 {
				cfg.FrozenAddresses = append([]config.FrozenAddress{e}, cfg.FrozenAddresses...)
			} else {
				cfg.FrozenAddresses = append(cfg.FrozenAddresses, e)
			}
		}
	}
}

// adopt makes the model follow the node for one block whose acceptance is a
// listed known finding: the block's effects are applied in full and it counts
// as valid from here on, so later steps are judged against the chain the node
// is really on. Only ever called for listed signatures; any other accepted
// invalid block stops the run with a violation.
func (s *sim) adopt(b *mBlock) {
	v := b.parent.view.clone()
	for _, tx := range b.blk.Transactions {
		id := tx.Hash()
		if tx.IsCoinBaseTx() {
			for i, o := range tx.Outputs() {
				v.utxo[outpoint{id, uint16(i)}] = mOut{ph: o.ProgramHash, owner: s.actorOf(o.ProgramHash), value: int64(o.Value), cbHeight: int64(b.height)}
				v.minted.Add(v.minted, big.NewInt(int64(o.Value)))
			}
			v.txs[id] = b.height
			continue
		}
		if info := s.txs[id]; info != nil {
			applyTx(v, id, info.facts, info.outs, b.height)
		}
	}
	v.subsidy.Add(v.subsidy, big.NewInt(int64(s.node.cfg.GetBlockReward(b.height))))
	b.view = v
	b.selfOK, b.valid, b.why = true, b.parent.valid, ""
	for _, d := range s.blocks {
		if d.idx > b.idx && d.parent != nil {
			d.valid = d.selfOK && d.parent.valid
		}
	}
}
