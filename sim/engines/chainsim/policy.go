package chainsim

import (
	"math/big"

	"github.com/elastos/Elastos.ELA/common/config"
)

// label is the ledger model's verdict for one transaction at one height:
// first the policy rules written from the property texts (C32: frozen
// addresses), then the ledger rules (labelTx).
func (s *sim) label(v *view, info *txInfo, height uint32) (string, *big.Int) {
	cfg := s.node.cfg
	lbl, fee := labelTx(v, info.facts, height, int64(cfg.MinTransactionFee), cfg.PowConfiguration.CoinbaseMaturity)
	if s.frozen >= 0 && height >= s.frozenHeight {
		// C32: from the start height on, no non-coinbase transaction that spends
		// an output owned by the frozen address or pays to it is accepted.
		touches := false
		for _, in := range info.facts.ins {
			if o, ok := v.utxo[in]; ok && o.owner == s.frozen {
				touches = true
			}
		}
		for _, o := range info.outs {
			if o.owner == s.frozen {
				touches = true
			}
		}
		if touches {
			s.c.Probe("tx-touches-frozen-address-at-or-after-start")
			if lbl == "" {
				return "frozen-address", fee
			}
		}
	} else if s.frozen >= 0 {
		for _, o := range info.outs {
			if o.owner == s.frozen {
				s.c.Probe("tx-touches-frozen-address-before-start")
			}
		}
	}
	return lbl, fee
}

// applyPolicyKnobs configures the emergency-policy parameters of the node
// under simulation from the plan.
func (s *sim) applyPolicyKnobs(cfg *config.Configuration) {
	p := s.c.Plan
	s.frozen = int(p.Knob("frozen", -1))
	s.frozenHeight = uint32(p.Knob("frozenh", 0))
	if s.frozen >= 0 {
		s.frozen = mod(s.frozen, len(s.actors))
		a := s.actors[s.frozen]
		ph := a.acc.ProgramHash
		cfg.FrozenAddresses = []config.FrozenAddress{{Address: a.acc.Address, DisableStartHeight: s.frozenHeight, ProgramHash: &ph}}
	}
}
