package chainsim

import (
	"encoding/json"
	"fmt"
	"os"
	"path/filepath"
	"runtime/debug"
	"sort"
	"strings"
	"testing/synctest"
	"time"

	"github.com/elastos/Elastos.ELA/common"
	"github.com/elastos/Elastos.ELA/core/checkpoint"
	"github.com/elastos/Elastos.ELA/core/types"
	"github.com/elastos/Elastos.ELA/core/types/interfaces"
	"github.com/elastos/Elastos.ELA/mempool"

	"verif/sim/core"
)

// Step is one simulator step.
type Step struct {
	Op    string     `json:"op"` // mine | deliver | submit | minepool | restart | sleep
	Block *BlockSpec `json:"block,omitempty"`
	Tx    *TxSpec    `json:"tx,omitempty"`
	Ref   int        `json:"ref,omitempty"` // deliver: which held/known block
	Muts  []MutSpec  `json:"muts,omitempty"` // blockmut: the single mutations to show the node first
	Secs  int64      `json:"secs,omitempty"`
	Task  int        `json:"task,omitempty"` // race mode: the logical thread that executes the step (-1: sequential prologue)
	Conf  *ConfSpec  `json:"conf,omitempty"` // conf: a local configuration file for settings.SetupConfig (confsweep.go)
}

type Engine struct{}

func (Engine) Name() string { return "chainsim" }

func (Engine) Components() ([]string, []string) {
	return []string{
			"blockchain.BlockChain (ProcessBlock, orphans, connectBestChain, reorganizeChain, validators)",
			"blockchain.ChainStore/ChainStoreFFLDB + index manager (tx, unspent, utxo, return-deposit indexes) on real ffldb+goleveldb files",
			"blockchain.UTXOCache, indexers.TxCache", "mempool.TxPool", "pow.Service (coinbase, rewards, SolveBlock, GenerateBlock)",
			"core/transaction sanity+context checkers, blockchain.RunPrograms, crypto", "dpos/state.Arbiters+State, cr/state.Committee, core/checkpoint.Manager (PoW-era heights)", "auxpow.GenerateAuxPow/Check",
		}, []string{
			"peers / miners / clients: simulated actors calling ProcessBlock and AppendToTxPool (the only ingress the P2P layer uses)",
			"netsync event glue (mempool cleanup on connect/disconnect): mirrored in ~25 harness lines",
			"clock: testing/synctest fake clock", "P2P transport, RPC: not part of this engine",
		}
}

type sim struct {
	c       *core.Ctx
	prop    string
	node    *node
	dir     string
	actors  []*actor
	blocks  []*mBlock
	byHash  map[common.Uint256]*mBlock
	held    []*mBlock
	txs     map[common.Uint256]*txInfo
	txNonce int
	poolSub []*txInfo // transactions the node's mempool acknowledged
	dead    bool
	// failedSwitch: a delivery errored and still moved the node off its chain
	failedSwitch bool
	buildHeight  uint32 // height of the block the transaction being built is meant for
	nKeyed       int    // actors [0,nKeyed) hold keys; the rest are script actors
	v2active     uint32 // simulated DPoS v2 activation height (0: never)
	frozen       int    // actor whose address is frozen (-1: none)
	frozenHeight uint32
	frozen2      int // a second frozen address with its own start height (-1: none)
	frozenHeight2 uint32
	arbKeys     []arbiterKey // the simulated environment's cross-chain arbiters (C33; nil: none)
	snaps       []checkpoint.ICheckPoint // race mode: deep copies waiting for the saver thread
	ccFreeze    uint32 // cross-chain UTXO freeze height (0: policy disabled)
	ccRestrict   uint32 // cross-chain UTXO restriction height
	typedNamed   []int  // side-chain hash indexes named by typed outputs of legacy withdrawals built so far
}

func (s *sim) now() time.Time { return time.Now() }

// keyed returns an actor that holds a key.
func (s *sim) keyed(i int) *actor { return s.actors[mod(i, s.nKeyed)] }

func (s *sim) nodeTip() *mBlock {
	h := *s.node.chain.BestChain.Hash
	b := s.byHash[h]
	if b == nil {
		panic(fmt.Sprintf("harness: node tip %x unknown to the model", h[:6]))
	}
	return b
}

func (s *sim) bestValid() *mBlock {
	best := s.blocks[0]
	for _, b := range s.blocks {
		if b.valid && b.work.Cmp(best.work) > 0 {
			best = b
		}
	}
	return best
}

func (Engine) Execute(c *core.Ctx) {
	core.Bubble(c.T, func() { execute(c) })
}

func tmpDir(tag string) string {
	base := os.Getenv("SIM_TMP")
	if base == "" {
		base = os.TempDir()
	}
	d := filepath.Join(base, fmt.Sprintf("chainsim-%s-%d", tag, os.Getpid()))
	os.RemoveAll(d)
	return d
}

func removeDir(d string) { os.RemoveAll(d) }

func execute(c *core.Ctx) {
	p := c.Plan
	if p.Meta["mode"] == "store" {
		executeStore(c)
		return
	}
	if p.Meta["mode"] == "race" {
		executeRace(c)
		return
	}
	steps := make([]Step, len(p.Steps))
	for i, raw := range p.Steps {
		if err := json.Unmarshal(raw, &steps[i]); err != nil {
			panic(fmt.Sprintf("bad step %d: %v", i, err))
		}
	}
	c.SetSample(map[string]interface{}{"knobs": p.Knobs, "steps": sampleSteps(p.Steps, 10)})
	s := &sim{c: c, prop: p.Property, byHash: map[common.Uint256]*mBlock{}, txs: map[common.Uint256]*txInfo{}}
	base := os.Getenv("SIM_TMP")
	if base == "" {
		base = os.TempDir()
	}
	s.dir = filepath.Join(base, fmt.Sprintf("chainsim-%d", os.Getpid()))
	os.RemoveAll(s.dir)
	defer os.RemoveAll(s.dir)
	seedGlobals(p.Seed)
	s.actors = makeActors(p.Seed, int(p.Knob("actors", 5)))
	s.nKeyed = len(s.actors)
	// actor order (the generator relies on it): key holders, the cross-chain
	// address, multisig addresses, script addresses
	if p.Knob("ccactor", 0) > 0 {
		s.actors = addCrossChainActor(s.actors, p.Seed)
	}
	s.actors = addMultisigActors(s.actors, s.nKeyed, p.Seed, int(p.Knob("multi", 0)))
	s.actors = addScriptActors(s.actors, p.Seed, int(p.Knob("weird", 0)), int(p.Knob("weirdpick", 0)))
	if err := s.start(true); err != nil {
		panic(fmt.Sprintf("harness: node start: %v", err))
	}
	defer func() {
		if s.node != nil {
			s.node.close()
		}
	}()
	s.checkSchedule()
	for i := range steps {
		if s.dead || c.Violated() {
			break
		}
		c.CurStep = i
		s.step(&steps[i])
		synctest.Wait()
		time.Sleep(time.Second)
		c.AddSimSeconds(1)
		s.checkAll()
	}
}

func sampleSteps(s []json.RawMessage, n int) []json.RawMessage {
	if len(s) > n {
		return s[:n]
	}
	return s
}

func (s *sim) config() *configT {
	return nil
}

type configT struct{}

func (s *sim) start(fresh bool) error {
	processInit()
	cfg := baseConfig(&s.actors[0].acc.ProgramHash)
	s.applyKnobs(cfg)
	s.applyPolicyKnobs(cfg)
	s.applyWithdrawKnobs(cfg)
	s.v2active = uint32(s.c.Plan.Knob("v2active", 0))
	n, err := newNode(s.dir, cfg, s.actors[1%len(s.actors)].acc.Address, s.v2active, arbiterInfos(s.arbKeys))
	if err != nil {
		return err
	}
	s.node = n
	if pm := s.c.Plan.Knob("poolmax", 0); pm > 0 {
		mempool.VerifSetMaxSize(n.pool, uint64(pm))
	}
	if fresh {
		g, err := n.chain.GetBlockByHeight(0)
		if err != nil {
			return err
		}
		mb := &mBlock{idx: 0, blk: g, hash: g.Hash(), height: 0, valid: true, selfOK: true, sane: true, ts: g.Timestamp, known: true}
		mb.work = calcWork(g.Header.Bits)
		v := newView()
		for _, tx := range g.Transactions {
			id := tx.Hash()
			cbh := int64(-1)
			if tx.IsCoinBaseTx() {
				cbh = 0 // the genesis allocation is a coinbase output like any other
			}
			for i, o := range tx.Outputs() {
				v.utxo[outpoint{id, uint16(i)}] = mOut{ph: o.ProgramHash, owner: s.actorOf(o.ProgramHash), value: int64(o.Value), cbHeight: cbh}
				v.minted.Add(v.minted, bigInt(int64(o.Value)))
				v.subsidy.Add(v.subsidy, bigInt(int64(o.Value)))
			}
			v.txs[id] = 0
		}
		mb.view = v
		s.blocks = []*mBlock{mb}
		s.byHash[mb.hash] = mb
	}
	return nil
}

func (s *sim) step(st *Step) {
	c := s.c
	switch st.Op {
	case "conf":
		if st.Conf != nil {
			s.confStep(st.Conf)
		}
	case "sleep":
		time.Sleep(time.Duration(st.Secs) * time.Second)
		c.AddSimSeconds(float64(st.Secs))
		c.Logf("sleep %d", st.Secs)
	case "mine":
		if st.Block == nil {
			return
		}
		parent := s.pickParent(st.Block)
		mb := s.buildBlock(parent, st.Block)
		c.Logf("built #%d h=%d on #%d txs=%d valid=%v %s %q", mb.idx, mb.height, parent.idx, len(mb.blk.Transactions)-1, mb.valid, mb.why, mb.txLabel)
		if !mb.valid {
			c.Fault("byzantine-block:" + classOf(mb.why))
		}
		if parent != s.nodeTip() {
			c.Fault("fork-block")
		}
		if st.Block.Hold {
			s.held = append(s.held, mb)
			c.Fault("delivery-delayed")
			return
		}
		s.deliver(mb)
	case "deliver":
		var mb *mBlock
		if len(s.held) > 0 && st.Ref%3 != 2 {
			i := mod(st.Ref, len(s.held))
			mb = s.held[i]
			s.held = append(s.held[:i], s.held[i+1:]...)
			c.Fault("out-of-order-delivery")
		} else {
			mb = s.blocks[mod(st.Ref, len(s.blocks))]
			if mb.sent > 0 {
				c.Fault("duplicate-delivery")
			}
		}
		s.deliver(mb)
	case "submit":
		if st.Tx == nil {
			return
		}
		s.submit(*st.Tx)
	case "blockmut":
		if st.Block != nil {
			s.blockMutants(st.Block, st.Muts)
		}
	case "minepool":
		s.minePool()
	case "restart":
		s.restart()
	default:
		panic("harness: unknown step " + st.Op)
	}
}

func classOf(why string) string {
	if i := strings.Index(why, ":"); i > 0 {
		return why[:i]
	}
	return why
}

// propOfReason attributes an invalidity class to the property that forbids it.
func propOfReason(why string) string {
	if strings.HasPrefix(why, "unsigned-spend-from-script-address") {
		return "C05"
	}
	if strings.HasPrefix(why, "withdraw-") || strings.HasPrefix(why, "sidechain-hash-withdrawn-twice") {
		return "C33"
	}
	switch classOf(why) {
	case "outputs-exceed-inputs", "negative-output", "fee-too-small":
		return "C01"
	case "input-already-spent", "input-never-created", "dup-input", "input-created-in-same-block":
		return "C06"
	case "missing-signature-of-owner", "signature-over-other-content":
		return "C05"
	case "merkle-root-mismatch", "duplicate-transaction", "second-coinbase", "first-tx-not-coinbase":
		return "C07"
	case "coinbase-overpays", "coinbase-underpays", "coinbase-output-count", "coinbase-share-wrong", "coinbase-address-wrong":
		return "C11"
	case "frozen-address":
		return "C32"
	case "crosschain-utxo-frozen", "crosschain-utxo-restricted":
		return "C31"
	case "sidechain-hash-withdrawn-twice":
		return "C33"
	case "auxpow-for-other-hash":
		return "C10"
	}
	return "C12"
}

func (s *sim) deliver(mb *mBlock) {
	c := s.c
	prevTip := s.nodeTip()
	s.node.discon = s.node.discon[:0]
	s.node.connected = s.node.connected[:0]
	lihBefore := s.node.arbiters.State.GetLastIrreversibleHeight()
	s.node.lihRef, s.node.lihCrossed = lihBefore, nil
	mb.sent++
	var inMain, orphan bool
	var err error
	panicked := callGuard(func() { inMain, orphan, err = s.node.chain.ProcessBlock(mb.blk, nil) })
	if panicked != nil {
		c.Violate("C03", "process-block", "C03/ProcessBlock-panic/"+lastPanicSite, "ProcessBlock panicked in %s on block #%d (%s): %v", lastPanicSite, mb.idx, mb.why, panicked)
		s.dead = true
		return
	}
	c.Logf("deliver #%d h=%d -> main=%v orphan=%v err=%v", mb.idx, mb.height, inMain, orphan, err != nil)
	if err != nil && os.Getenv("SIM_DEBUG") != "" {
		fmt.Fprintf(os.Stderr, "DEBUG deliver #%d: %v\n", mb.idx, err)
		for e := err; e != nil; {
			ie, ok := e.(interface{ InnerError() error })
			if !ok || ie.InnerError() == nil {
				break
			}
			e = ie.InnerError()
			fmt.Fprintf(os.Stderr, "DEBUG   inner: %v\n", e)
		}
	}
	if orphan && err == nil {
		c.Probe("orphan-held")
	}
	newTip := s.nodeTip()
	// C30: nothing at or below the last irreversible height was detached, and
	// the height does not decrease while the node moves forward
	lihAfter := s.node.arbiters.State.GetLastIrreversibleHeight()
	if os.Getenv("SIM_DEBUG") != "" && len(s.arbKeys) > 0 {
		var have []int
		for k := 0; k < 8; k++ {
			if s.node.chain.GetDB().IsSidechainTxHashDuplicate(sideHash(k)) {
				have = append(have, k)
			}
		}
		fmt.Fprintf(os.Stderr, "DEBUG withdrawn-hash index after #%d holds %v\n", mb.idx, have)
	}
	if os.Getenv("SIM_DEBUG") != "" {
		fmt.Fprintf(os.Stderr, "DEBUG lih %d -> %d (tip h=%d, consensus %v, revertpowstart cfg %d state %d)\n", lihBefore, lihAfter, newTip.height, s.node.arbiters.State.GetConsensusAlgorithm(),
			s.node.cfg.DPoSConfiguration.RevertToPOWStartHeight, s.node.arbiters.State.ChainParams.DPoSConfiguration.RevertToPOWStartHeight)
	}
	if lihBefore > 0 || lihAfter > 0 {
		c.Check()
		c.Probe("irreversible-height-recorded")
		if lihAfter > lihBefore {
			c.Probe("irreversible-height-advanced")
		}
		for _, m := range s.node.lihCrossed {
			c.Violate("C30", "irreversible-detached", "C30/detached-at-or-below-last-irreversible-height", "delivery of #%d: %s", mb.idx, m)
		}
		if prevTip.isAncestorOf(newTip) && lihAfter < lihBefore {
			c.Violate("C30", "irreversible-monotone", "C30/last-irreversible-height-decreased-moving-forward", "delivery of #%d extended the chain from h=%d to h=%d but the last irreversible height went from %d to %d", mb.idx, prevTip.height, newTip.height, lihBefore, lihAfter)
		}
		if len(s.node.discon) > 0 {
			c.Probe("reorg-while-irreversible-height-recorded")
		}
	}
	if len(s.node.discon) > 0 {
		c.Probe("reorg")
		c.ProbeN("reorg-blocks-detached", len(s.node.discon))
		if len(s.node.discon) >= 3 {
			c.Probe("reorg-depth>=3")
		}
	}
	// sentence 2 of C12: a failed switch leaves the node on its previous valid chain
	// (a delivery can resolve several orphans; an error about one of them while
	// another moved the node to a heavier valid chain is not a failed switch)
	if err != nil && newTip != prevTip && prevTip.valid && !prevTip.isAncestorOf(newTip) && newTip.work.Cmp(prevTip.work) < 0 {
		c.Check()
		s.failedSwitch = true
		c.Violate("C12", "failed-switch", "C12/failed-switch-left-previous-chain", "delivery of #%d (h=%d, %s) returned an error, yet the node moved from valid tip #%d (h=%d) to #%d (h=%d, work %v vs %v)", mb.idx, mb.height, orNone(mb.why), prevTip.idx, prevTip.height, newTip.idx, newTip.height, newTip.work, prevTip.work)
	}
	if mb.valid && err != nil && !orphan && s.allKnown(mb.parent) && s.c.Plan.Meta["stratum"] == "fault-free" {
		c.Violate("C12", "completeness", "C12/valid-block-rejected", "valid block #%d on a known valid parent was rejected: %v", mb.idx, err)
	}
}

func orNone(s string) string {
	if s == "" {
		return "valid"
	}
	return s
}

// lastPanicSite is the repo function in which the last guarded panic arose.
var lastPanicSite string

func callGuard(f func()) (p interface{}) {
	defer func() {
		if x := recover(); x != nil {
			p = x
			lastPanicSite = panicSite(string(debug.Stack()))
		}
	}()
	f()
	return nil
}

// panicSite extracts the innermost function of the code under test from a
// stack trace taken inside recover.
func panicSite(stack string) string {
	lines := strings.Split(stack, "\n")
	seenPanic := false
	for _, l := range lines {
		if strings.HasPrefix(l, "panic(") {
			seenPanic = true
			continue
		}
		if !seenPanic || strings.HasPrefix(l, "\t") {
			continue
		}
		if i := strings.Index(l, "github.com/elastos/Elastos.ELA/"); i >= 0 {
			fn := l[i+len("github.com/elastos/Elastos.ELA/"):]
			if j := strings.LastIndex(fn, "("); j > 0 {
				fn = fn[:j]
			}
			return fn
		}
	}
	return "unknown-site"
}

func (s *sim) retained(b *mBlock) bool {
	// "knows": the block is in the node's block index / store, or parked in
	// its orphan pool (the node answers "already have block (orphan)" to a
	// second delivery, so nobody can make it known any better)
	return s.node.chain.BlockExists(&b.hash) || s.node.chain.IsKnownOrphan(&b.hash)
}

func (s *sim) allKnown(b *mBlock) bool {
	for x := b; x != nil; x = x.parent {
		if !s.retained(x) {
			return false
		}
	}
	return true
}

func (s *sim) submit(spec TxSpec) {
	c := s.c
	tip := s.nodeTip()
	// the pool's own pending spends shrink what is available
	v := tip.view.clone()
	for _, pi := range s.poolTxs() {
		// pooled spends consume their inputs; their own outputs are not
		// spendable before confirmation
		for _, in := range pi.facts.ins {
			if _, ok := v.utxo[in]; ok {
				delete(v.utxo, in)
				v.spent[in] = pi.tx.Hash()
			}
		}
	}
	var info *txInfo
	conflict := false
	s.buildHeight = tip.height + 1
	if spec.InKind == 6 && spec.Wd == nil { // deliberately collide with a pooled transaction's input
		pool := s.poolTxs()
		if len(pool) == 0 {
			return
		}
		victim := pool[mod(spec.From, len(pool))]
		spec.InKind = 0
		spec.From = s.ownerOf(tip.view, victim.facts.ins[0])
		info = s.makeTxOn(tip.view, spec, victim.facts.ins[0])
		conflict = true
	} else {
		info = s.makeTx(v, spec)
	}
	if info == nil {
		return
	}
	s.txs[info.tx.Hash()] = info
	label, _ := s.label(v, info, tip.height+1)
	if conflict {
		label = "input-already-spent"
		c.Fault("mempool-conflicting-spend")
	}
	if info.facts.wd != nil && label == "" {
		// a pooled withdrawal already claims one of these side-chain hashes
		for _, pi := range s.poolTxs() {
			if pi.facts.wd == nil {
				continue
			}
			for _, a := range pi.facts.wd.hashes {
				for _, b := range info.facts.wd.hashes {
					if a == b {
						label = fmt.Sprintf("sidechain-hash-withdrawn-twice/v%d-claimed-by-a-pooled-withdrawal", info.facts.wd.ver)
					}
				}
			}
		}
		if label != "" {
			c.Fault("mempool-conflicting-withdrawal")
		}
	}
	if label != "" {
		c.Fault("byzantine-tx:" + classOf(label))
	}
	var err error
	before := s.node.pool.GetTransactionCount()
	panicked := callGuard(func() {
		if e := s.node.pool.AppendToTxPool(info.tx); e != nil {
			err = e
		}
	})
	if err == nil && panicked == nil && s.node.pool.GetTransactionCount() <= before {
		c.Fault("mempool-eviction-by-fee-rate")
	}
	if err != nil && strings.Contains(err.Error(), "over capacity") {
		// the pool is at its size limit (admission refuses before the
		// fee-ordered list would evict)
		c.Fault("mempool-full-submission-refused")
	}
	if panicked != nil {
		c.Violate("C03", "mempool", "C03/AppendToTxPool-panic/"+lastPanicSite, "AppendToTxPool panicked in %s (%s, from %s): %v", lastPanicSite, label, s.actors[mod(spec.From, len(s.actors))].weird, panicked)
		s.dead = true
		return
	}
	c.Logf("submit %s -> accepted=%v", orNone(label), err == nil)
	if err != nil && os.Getenv("SIM_DEBUG") != "" {
		fmt.Fprintf(os.Stderr, "DEBUG submit amt=%d sign=%d ink=%d label=%s: %v\n", spec.Amt, spec.Sign, spec.InKind, label, err)
	}
	c.Check()
	if err == nil && label != "" {
		p := propOfReason(label)
		c.Violate(p, "mempool-admission", p+"/mempool-accepted/"+classOf(label), "mempool accepted a transaction the ledger model labels %s (spec %+v)", label, spec)
	}
	if err != nil && label == "" && s.c.Plan.Meta["stratum"] == "fault-free" {
		c.Violate(propOfReason(""), "mempool-completeness", "C12/mempool-rejected-valid-tx", "mempool rejected a valid transaction: %v", err)
	}
}

func (s *sim) ownerOf(v *view, op outpoint) int {
	if o, ok := v.utxo[op]; ok && o.owner >= 0 {
		return o.owner
	}
	return 0
}

// makeTxOn builds an honest spend of one specific outpoint.
func (s *sim) makeTxOn(v *view, spec TxSpec, op outpoint) *txInfo {
	if _, ok := v.utxo[op]; !ok {
		return nil
	}
	spec.force = []outpoint{op}
	return s.makeTx(v, spec)
}

// poolTxs returns the node's mempool content as model transactions, in a
// deterministic order.
func (s *sim) poolTxs() []*txInfo {
	var out []*txInfo
	for _, tx := range s.node.pool.GetTxsInPool() {
		if info := s.txs[tx.Hash()]; info != nil {
			out = append(out, info)
		}
	}
	sort.Slice(out, func(i, j int) bool {
		a, b := out[i].tx.Hash(), out[j].tx.Hash()
		return string(a[:]) < string(b[:])
	})
	return out
}

// minePool lets the node's own miner assemble a block from its mempool.
func (s *sim) minePool() {
	c := s.c
	parent := s.nodeTip()
	var blk *types.Block
	var err error
	if p := callGuard(func() { blk, err = s.node.svc.GenerateBlock(s.actors[1%len(s.actors)].acc.Address, 100) }); p != nil {
		c.Violate("C03", "generate-block", "C03/GenerateBlock-panic/"+lastPanicSite, "GenerateBlock panicked in %s: %v", lastPanicSite, p)
		s.dead = true
		return
	}
	if err != nil {
		c.Logf("minepool generate err")
		return
	}
	mtp := medianTimePast(parent)
	if blk.Header.Timestamp < mtp+2 {
		blk.Header.Timestamp = mtp + 2
	}
	if !s.node.svc.SolveBlock(blk, nil) {
		panic("harness: SolveBlock failed")
	}
	// model the node-built block from its transactions
	v := parent.view.clone()
	mb := &mBlock{idx: len(s.blocks), blk: blk, hash: blk.Hash(), parent: parent, height: parent.height + 1, ts: blk.Header.Timestamp, selfOK: true, sane: true}
	fees := bigInt(0)
	for _, tx := range blk.Transactions[1:] {
		info := s.txs[tx.Hash()]
		if info == nil {
			panic("harness: node mined a transaction the harness never made")
		}
		label, fee := s.label(v, info, mb.height)
		mb.txLabel = append(mb.txLabel, label)
		if label == "" {
			applyTx(v, tx.Hash(), info.facts, info.outs, mb.height)
			fees.Add(fees, fee)
		} else if mb.selfOK {
			mb.selfOK, mb.why = false, label
		}
	}
	cbID := blk.Transactions[0].Hash()
	cbSum := bigInt(0)
	for i, o := range blk.Transactions[0].Outputs() {
		v.utxo[outpoint{cbID, uint16(i)}] = mOut{ph: o.ProgramHash, owner: s.actorOf(o.ProgramHash), value: int64(o.Value), cbHeight: int64(mb.height)}
		v.minted.Add(v.minted, bigInt(int64(o.Value)))
		cbSum.Add(cbSum, bigInt(int64(o.Value)))
	}
	v.txs[cbID] = mb.height
	v.subsidy.Add(v.subsidy, bigInt(int64(s.node.cfg.GetBlockReward(mb.height))))
	if w := s.labelCoinbase(blk, mb.height, fees, parent.view.pow); w != "" && mb.selfOK {
		// the node's own miner broke the issuance rule
		mb.selfOK, mb.why = false, w
	}
	mb.valid = mb.selfOK && parent.valid
	mb.work = bigInt(0).Add(parent.work, calcWork(blk.Header.Bits))
	mb.view = v
	s.blocks = append(s.blocks, mb)
	s.byHash[mb.hash] = mb
	c.Probe("node-mined-block")
	c.ProbeN("node-mined-txs", len(blk.Transactions)-1)
	c.Logf("minepool built #%d h=%d txs=%d valid=%v %s", mb.idx, mb.height, len(blk.Transactions)-1, mb.valid, mb.why)
	s.deliver(mb)
}

func (s *sim) restart() {
	c := s.c
	tipBefore := s.node.chain.GetBestChain().Hash.String()
	s.node.close()
	s.node = nil
	synctest.Wait()
	defer func() {
		// (no property of its own: a restart that comes up on another block of
		// the same height shows through the ledger / index oracles; counted and
		// logged so that a replay names it)
		if s.node != nil && s.node.chain.GetBestChain().Hash.String() != tipBefore {
			c.Probe("restart-came-up-on-another-tip")
			c.Logf("restart: tip before %.12s, after %.12s", tipBefore, s.node.chain.GetBestChain().Hash.String())
		}
	}()
	if err := s.start(false); err != nil {
		c.Violate("C12", "restart", "C12/restart-failed", "node failed to restart on its own data directory: %v", err)
		s.dead = true
		return
	}
	s.held = nil
	c.Fault("restart")
	c.Logf("restart tip=%d", s.node.chain.GetHeight())
}

var _ interfaces.Transaction
