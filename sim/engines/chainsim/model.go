package chainsim

import (
	"bytes"
	"fmt"
	"math/big"
	"sort"

	"github.com/elastos/Elastos.ELA/common"
	"github.com/elastos/Elastos.ELA/core/types"
	"github.com/elastos/Elastos.ELA/core/types/interfaces"
)

// The ledger model: a block tree; per block the UTXO set obtained by replaying
// its chain from genesis. Written from the properties' vocabulary (outpoints,
// amounts, owners), with exact integers; it never calls the validation code.

type outpoint struct {
	tx  common.Uint256
	idx uint16
}

func (o outpoint) less(p outpoint) bool {
	if c := bytes.Compare(o.tx[:], p.tx[:]); c != 0 {
		return c < 0
	}
	return o.idx < p.idx
}

type mOut struct {
	ph       common.Uint168
	owner    int // actor index or -1
	value    int64
	cbHeight int64 // height of the coinbase that created it, -1 otherwise
}

type view struct {
	utxo    map[outpoint]mOut
	spent   map[outpoint]common.Uint256 // outpoint -> spending tx on this chain
	txs     map[common.Uint256]uint32   // tx -> height on this chain
	minted  *big.Int                    // sum of coinbase outputs
	subsidy *big.Int                    // sum of scheduled subsidies + genesis allocation
	// fresh: outputs created by earlier transactions of the block being
	// assembled. This chain validates every transaction of a block against the
	// ledger as of the parent block, so they are not spendable yet.
	fresh map[outpoint]bool
	// freshSpent: outpoints consumed by earlier transactions of the block
	// being assembled (what a Byzantine miner re-spends inside one block).
	freshSpent []spentRec
	// withdrawn: side-chain transaction hashes withdrawn on this chain (C33)
	// (1: by an earlier block, 2: by an earlier transaction of the block being assembled)
	withdrawn map[common.Uint256]int8
	// pow: an earlier block of this chain reverted consensus to PoW. In that
	// emergency mode the node admits no ordinary transfers or withdrawals.
	pow bool
}

type spentRec struct {
	op outpoint
	o  mOut
}

func newView() *view {
	return &view{utxo: map[outpoint]mOut{}, spent: map[outpoint]common.Uint256{}, txs: map[common.Uint256]uint32{}, minted: new(big.Int), subsidy: new(big.Int), withdrawn: map[common.Uint256]int8{}}
}

func (v *view) clone() *view {
	n := newView()
	for k, x := range v.utxo {
		n.utxo[k] = x
	}
	for k, x := range v.spent {
		n.spent[k] = x
	}
	for k, x := range v.txs {
		n.txs[k] = x
	}
	for k := range v.withdrawn {
		n.withdrawn[k] = 1
	}
	n.minted.Set(v.minted)
	n.subsidy.Set(v.subsidy)
	n.pow = v.pow
	return n
}

// total is the exact sum of all unspent values.
func (v *view) total() *big.Int {
	t := new(big.Int)
	for _, o := range v.utxo {
		t.Add(t, big.NewInt(o.value))
	}
	return t
}

func (v *view) utxosOf(owner int) []outpoint {
	var out []outpoint
	for k, o := range v.utxo {
		if o.owner == owner && !v.fresh[k] {
			out = append(out, k)
		}
	}
	sort.Slice(out, func(i, j int) bool { return out[i].less(out[j]) })
	return out
}

func (v *view) spentList() []outpoint {
	var out []outpoint
	for k := range v.spent {
		out = append(out, k)
	}
	sort.Slice(out, func(i, j int) bool { return out[i].less(out[j]) })
	return out
}

// mBlock is a node of the model's block tree.
type mBlock struct {
	idx     int
	blk     *types.Block
	hash    common.Uint256
	parent  *mBlock
	height  uint32
	work    *big.Int // cumulative
	valid   bool     // this block and all ancestors valid in context
	selfOK  bool     // this block valid given its parent's chain
	why     string
	sane    bool // passes context-free rules as far as the harness built it
	view    *view
	ts      uint32
	known   bool // the node accepted it (main, side or resolved orphan) at some point
	sent    int
	txLabel []string // per non-coinbase tx: "" valid or reason
}

func (b *mBlock) chain() []*mBlock {
	var out []*mBlock
	for x := b; x != nil; x = x.parent {
		out = append(out, x)
	}
	for i, j := 0, len(out)-1; i < j; i, j = i+1, j-1 {
		out[i], out[j] = out[j], out[i]
	}
	return out
}

func (b *mBlock) isAncestorOf(c *mBlock) bool {
	for x := c; x != nil; x = x.parent {
		if x == b {
			return true
		}
	}
	return false
}

// txCheck labels one transaction against a view, by the properties' own rules.
type txFacts struct {
	ins      []outpoint
	outs     []int64
	signedBy map[int]bool // actors whose valid signature over exactly this content is attached with matching code
	tampered bool
	wd       *wdFacts // non-nil: a side-chain withdrawal (withdraw.go)
}

// labelTx returns "" when the transaction is valid on this view at this block
// height, else the first broken rule. minFee and maturity come from the same
// Configuration the node runs with.
func labelTx(v *view, f *txFacts, height uint32, minFee int64, maturity uint32) (string, *big.Int) {
	seen := map[outpoint]bool{}
	inSum := new(big.Int)
	owners := map[int]bool{}
	for _, in := range f.ins {
		if seen[in] {
			return "dup-input", nil
		}
		seen[in] = true
		if v.fresh[in] {
			return "input-created-in-same-block", nil
		}
		o, ok := v.utxo[in]
		if !ok {
			if _, was := v.spent[in]; was {
				return "input-already-spent", nil
			}
			return "input-never-created", nil
		}
		if o.cbHeight >= 0 && int64(height)-1-o.cbHeight < int64(maturity) {
			return "coinbase-immature", nil
		}
		inSum.Add(inSum, big.NewInt(o.value))
		owners[o.owner] = true
	}
	outSum := new(big.Int)
	for _, x := range f.outs {
		if x < 0 {
			return "negative-output", nil
		}
		outSum.Add(outSum, big.NewInt(x))
	}
	fee := new(big.Int).Sub(inSum, outSum)
	if fee.Cmp(big.NewInt(minFee)) < 0 {
		if fee.Sign() < 0 {
			return "outputs-exceed-inputs", fee
		}
		return "fee-too-small", fee
	}
	if f.tampered {
		return "signature-over-other-content", fee
	}
	for o := range owners {
		if !f.signedBy[o] {
			return "missing-signature-of-owner", fee
		}
	}
	return "", fee
}

func applyTx(v *view, id common.Uint256, f *txFacts, outsPH []mOut, height uint32) {
	for _, in := range f.ins {
		if v.fresh != nil {
			v.freshSpent = append(v.freshSpent, spentRec{in, v.utxo[in]})
		}
		delete(v.utxo, in)
		v.spent[in] = id
	}
	for i, o := range outsPH {
		v.utxo[outpoint{id, uint16(i)}] = o
		if v.fresh != nil {
			v.fresh[outpoint{id, uint16(i)}] = true
		}
	}
	v.txs[id] = height
	if f.wd != nil {
		for _, h := range f.wd.hashes {
			if v.fresh != nil {
				v.withdrawn[h] = 2
			} else {
				v.withdrawn[h] = 1
			}
		}
	}
}

func fmtOut(o outpoint) string { return fmt.Sprintf("%x:%d", o.tx[:4], o.idx) }

func txOutValues(tx interfaces.Transaction) []int64 {
	var out []int64
	for _, o := range tx.Outputs() {
		out = append(out, int64(o.Value))
	}
	return out
}
