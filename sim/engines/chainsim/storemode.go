package chainsim

import (
	"bytes"
	"crypto/sha256"
	"encoding/json"
	"fmt"
	"sort"
	"strings"
	"testing/synctest"
	"time"

	"github.com/elastos/Elastos.ELA/blockchain"
	"github.com/elastos/Elastos.ELA/common"
	elacore "github.com/elastos/Elastos.ELA/core"
	pg "github.com/elastos/Elastos.ELA/core/contract/program"
	"github.com/elastos/Elastos.ELA/core/transaction"
	"github.com/elastos/Elastos.ELA/core/types"
	common2 "github.com/elastos/Elastos.ELA/core/types/common"
	"github.com/elastos/Elastos.ELA/core/types/interfaces"
	"github.com/elastos/Elastos.ELA/core/types/outputpayload"
	"github.com/elastos/Elastos.ELA/core/types/payload"
	"github.com/elastos/Elastos.ELA/crypto"
	"github.com/elastos/Elastos.ELA/database"

	"verif/sim/core"
)

// Store mode (C13): the persistent store is driven directly - SaveBlock /
// RollbackBlock with the per-transaction save/rollback processors and the
// index manager, exactly the calls connectBlock/disconnectBlock make - with
// blocks holding any mix of well-formed transactions. The store does not
// validate, so payload versions and transaction kinds that a PoW-era chain
// cannot reach through validation are reachable here.

// STx describes one transaction of a store-mode block.
type STx struct {
	Kind   string `json:"kind"` // transfer | wd0 | wd1 | wd2 | retdep | proposal | review | review0
	From   int    `json:"from,omitempty"`
	In     int    `json:"in,omitempty"`
	Hashes []int  `json:"h,omitempty"` // small ids of side-chain / deposit / draft hashes
	Zero   bool   `json:"zero,omitempty"`
}

type SStep struct {
	Op  string `json:"op"` // connect | disconnect | reopen
	Txs []STx  `json:"txs,omitempty"`
}

type sOut struct {
	ph    common.Uint168
	value int64
}

type sModel struct {
	utxo   map[outpoint]sOut
	txs    map[common.Uint256]uint32
	tx3    map[common.Uint256]bool
	retdep map[common.Uint256]bool
	drafts map[common.Uint256][]byte
}

func (m *sModel) clone() *sModel {
	n := &sModel{utxo: map[outpoint]sOut{}, txs: map[common.Uint256]uint32{}, tx3: map[common.Uint256]bool{}, retdep: map[common.Uint256]bool{}, drafts: map[common.Uint256][]byte{}}
	for k, v := range m.utxo {
		n.utxo[k] = v
	}
	for k, v := range m.txs {
		n.txs[k] = v
	}
	for k := range m.tx3 {
		n.tx3[k] = true
	}
	for k := range m.retdep {
		n.retdep[k] = true
	}
	for k, v := range m.drafts {
		n.drafts[k] = v
	}
	return n
}

type sBlock struct {
	blk    *types.Block
	node   *blockchain.BlockNode
	before *sModel // model before this block was connected
	dump   string  // metadata dump before this block was connected
}

func smallHash(kind string, id int) common.Uint256 {
	return common.Uint256(sha256.Sum256([]byte(fmt.Sprintf("%s-%d", kind, id))))
}

func draftData(id int) []byte {
	return bytes.Repeat([]byte{byte(id), 0xd7}, 5+id%9)
}

func executeStore(c *core.Ctx) {
	p := c.Plan
	steps := make([]SStep, len(p.Steps))
	for i, raw := range p.Steps {
		if err := json.Unmarshal(raw, &steps[i]); err != nil {
			panic(fmt.Sprintf("bad store step %d: %v", i, err))
		}
	}
	c.SetSample(map[string]interface{}{"mode": "store", "knobs": p.Knobs, "steps": sampleSteps(p.Steps, 10)})
	s := &sim{c: c, prop: p.Property, byHash: map[common.Uint256]*mBlock{}, txs: map[common.Uint256]*txInfo{}}
	s.dir = tmpDir("store")
	defer removeDir(s.dir)
	seedGlobals(p.Seed)
	s.actors = makeActors(p.Seed, int(p.Knob("actors", 4)))
	s.nKeyed = len(s.actors)
	if err := s.start(true); err != nil {
		panic(fmt.Sprintf("harness: node start: %v", err))
	}
	defer func() {
		if s.node != nil {
			s.node.close()
		}
	}()
	st := &storeRun{s: s, c: c}
	st.model = &sModel{utxo: map[outpoint]sOut{}, txs: map[common.Uint256]uint32{}, tx3: map[common.Uint256]bool{}, retdep: map[common.Uint256]bool{}, drafts: map[common.Uint256][]byte{}}
	g := s.blocks[0]
	for _, tx := range g.blk.Transactions {
		id := tx.Hash()
		for i, o := range tx.Outputs() {
			st.model.utxo[outpoint{id, uint16(i)}] = sOut{o.ProgramHash, int64(o.Value)}
		}
		st.model.txs[id] = 0
	}
	st.tipNode = s.node.chain.BestChain
	st.tipTime = g.blk.Timestamp
	for i := range steps {
		if st.dead || c.Violated() {
			break
		}
		c.CurStep = i
		st.step(&steps[i])
		synctest.Wait()
		time.Sleep(time.Second)
		c.AddSimSeconds(1)
		st.checkQueries()
	}
}

type storeRun struct {
	s       *sim
	c       *core.Ctx
	model   *sModel
	stack   []*sBlock
	tipNode *blockchain.BlockNode
	tipTime uint32
	dead    bool
	nonce   int
	everTx  map[common.Uint256]bool // every transaction any connected block ever held
}

func (st *storeRun) ffl() blockchain.IFFLDBChainStore { return st.s.node.store.GetFFLDB() }

func (st *storeRun) step(sp *SStep) {
	c := st.c
	switch sp.Op {
	case "connect":
		st.connect(sp.Txs)
	case "disconnect":
		if len(st.stack) == 0 {
			return
		}
		top := st.stack[len(st.stack)-1]
		err := st.s.node.store.RollbackBlock(top.blk, top.node, nil, time.Unix(int64(st.tipTime), 0))
		if err != nil {
			c.Violate("C13", "rollback", "C13/rollback-error", "RollbackBlock(h=%d): %v", top.node.Height, err)
			st.dead = true
			return
		}
		c.Fault("block-disconnected")
		st.stack = st.stack[:len(st.stack)-1]
		st.model = top.before
		st.tipNode = top.node.Parent
		c.Logf("disconnect h=%d", top.node.Height)
		// every persistent index is exactly what it was before the block was connected
		c.Check()
		now := st.dump()
		if now != top.dump {
			d := firstDiff(top.dump, now)
			c.Violate("C13", "metadata-dump", "C13/disconnect-does-not-undo-connect/"+bucketOf(d), "after connecting and disconnecting block h=%d (%s) the persistent store differs from before: %s", top.node.Height, kindsOf(top.blk), d)
		}
	case "reopen":
		st.s.node.close()
		st.s.node = nil
		synctest.Wait()
		if err := st.s.start(false); err != nil {
			c.Violate("C13", "reopen", "C13/reopen-failed", "node failed to reopen its store: %v", err)
			st.dead = true
			return
		}
		c.Fault("reopen")
		c.Logf("reopen")
	}
}

func kindsOf(b *types.Block) string {
	var ks []string
	for _, tx := range b.Transactions[1:] {
		ks = append(ks, fmt.Sprintf("%s/v%d", tx.TxType().Name(), tx.PayloadVersion()))
	}
	return strings.Join(ks, ",")
}

func bucketOf(diff string) string {
	if i := strings.Index(diff, "|"); i > 0 {
		p := strings.TrimPrefix(diff[:i], "/")
		if j := strings.Index(p, "/"); j > 0 {
			p = p[:j] // top-level bucket only: nested names are addresses
		}
		return p
	}
	return "unknown"
}

func firstDiff(a, b string) string {
	la, lb := strings.Split(a, "\n"), strings.Split(b, "\n")
	sa, sb := map[string]bool{}, map[string]bool{}
	for _, l := range la {
		sa[l] = true
	}
	for _, l := range lb {
		sb[l] = true
	}
	for _, l := range lb {
		if !sa[l] && l != "" {
			return l + " (left behind)"
		}
	}
	for _, l := range la {
		if !sb[l] && l != "" {
			return l + " (lost)"
		}
	}
	return "order differs"
}

// dump walks every metadata bucket through the public database API. Rows that
// legitimately name the tip, the store's own block index and empty buckets are
// left out.
func (st *storeRun) dump() string {
	var lines []string
	var walk func(b database.Bucket, path string)
	walk = func(b database.Bucket, path string) {
		b.ForEach(func(k, v []byte) error {
			if path == "" && (string(k) == "chainstate" || strings.HasPrefix(string(k), "ffldb")) {
				return nil
			}
			if len(v) == 1 && v[0] == 0 && strings.HasPrefix(path, "/utxobyhashidx") {
				// an (address, height) row holding an empty list: same content
				// as no row for every query the node offers; counted, not judged
				st.c.Probe("empty-utxo-index-row-present")
				return nil
			}
			lines = append(lines, fmt.Sprintf("%s|%x=%x", path, k, v))
			return nil
		})
		var subs []string
		b.ForEachBucket(func(k []byte) error { subs = append(subs, string(k)); return nil })
		for _, sname := range subs {
			if path == "" && strings.HasPrefix(sname, "ffldb") {
				continue
			}
			if path == "" && (sname == "unspentbyhashidx" || sname == "utxobyhashidx") {
				// list-valued indexes: the order of a list is not content, so
				// these two are compared through GetUnspent / GetUTXO for every
				// transaction and address the run ever produced (checkQueries)
				continue
			}
			if sub := b.Bucket([]byte(sname)); sub != nil {
				walk(sub, path+"/"+printable(sname))
			}
		}
	}
	st.ffl().View(func(tx database.Tx) error {
		walk(tx.Metadata(), "")
		return nil
	})
	sort.Strings(lines)
	return strings.Join(lines, "\n")
}

func printable(s string) string {
	for _, r := range s {
		if r < 32 || r > 126 {
			return fmt.Sprintf("%x", s)
		}
	}
	return s
}

func (st *storeRun) ownUTXOs(a *actor) []outpoint {
	var out []outpoint
	for op, o := range st.model.utxo {
		if o.ph == a.acc.ProgramHash && o.value > 0 {
			out = append(out, op)
		}
	}
	sort.Slice(out, func(i, j int) bool { return out[i].less(out[j]) })
	return out
}

func (st *storeRun) connect(specs []STx) {
	c := st.c
	s := st.s
	height := st.tipNode.Height + 1
	before := st.model.clone()
	m := st.model
	var txs []interfaces.Transaction
	used := map[outpoint]bool{}
	for _, sp := range specs {
		from := s.actors[mod(sp.From, len(s.actors))]
		if sp.Kind == "zeroout" {
			// a transaction type that consensus requires to have no outputs
			// (activate producer): nothing for the unspent index to record
			st.nonce++
			nonce := common2.NewAttribute(common2.Nonce, []byte(fmt.Sprintf("z%d", st.nonce)))
			pk, _ := from.acc.PublicKey.EncodePoint(true)
			tx := transaction.CreateTransaction(common2.TxVersion09, common2.ActivateProducer, 0,
				&payload.ActivateProducer{NodePublicKey: pk, Signature: bytes.Repeat([]byte{3}, crypto.SignatureLength)},
				[]*common2.Attribute{&nonce}, []*common2.Input{}, []*common2.Output{}, 0, []*pg.Program{})
			m.txs[tx.Hash()] = height
			txs = append(txs, tx)
			c.Probe("store-tx:zeroout")
			continue
		}
		own := st.ownUTXOs(from)
		var free []outpoint
		for _, op := range own {
			// outputs created earlier in this same block are not spendable on
			// this chain (every transaction is validated against the parent
			// ledger), so a validated block never contains such a spend
			if _, existed := before.utxo[op]; !used[op] && existed {
				free = append(free, op)
			}
		}
		if len(free) == 0 {
			continue
		}
		in := free[mod(sp.In, len(free))]
		used[in] = true
		val := m.utxo[in].value
		st.nonce++
		nonce := common2.NewAttribute(common2.Nonce, []byte(fmt.Sprintf("s%d", st.nonce)))
		inputs := []*common2.Input{{Previous: common2.OutPoint{TxID: in.tx, Index: in.idx}}}
		mkOut := func(to *actor, v int64) *common2.Output {
			return &common2.Output{AssetID: elacore.ELAAssetID, Value: common.Fixed64(v), ProgramHash: to.acc.ProgramHash, Type: common2.OTNone, Payload: &outputpayload.DefaultOutput{}}
		}
		to := s.actors[mod(sp.From+1, len(s.actors))]
		outs := []*common2.Output{mkOut(to, val/3), mkOut(from, val-val/3-100)}
		if sp.Zero {
			outs = append(outs, mkOut(to, 0))
		}
		var tx interfaces.Transaction
		fresh := func(kind string, ids []int, taken func(common.Uint256) bool) []common.Uint256 {
			var hs []common.Uint256
			seen := map[common.Uint256]bool{}
			for _, id := range ids {
				h := smallHash(kind, mod(id, 12))
				// a validated chain never repeats one of these hashes on one
				// branch; across branches (after a rollback) it may
				if taken(h) || seen[h] {
					continue
				}
				seen[h] = true
				hs = append(hs, h)
			}
			return hs
		}
		switch sp.Kind {
		case "wd0":
			hs := fresh("side", sp.Hashes, func(h common.Uint256) bool { return m.tx3[h] })
			if len(hs) == 0 {
				continue
			}
			pl := &payload.WithdrawFromSideChain{BlockHeight: height, GenesisBlockAddress: "XKUh4GLhFJiqAMTF6HyWQrV9pK9HcGUdfJ", SideChainTransactionHashes: hs}
			tx = transaction.CreateTransaction(common2.TxVersion09, common2.WithdrawFromSideChain, payload.WithdrawFromSideChainVersion, pl, []*common2.Attribute{&nonce}, inputs, outs, 0, []*pg.Program{})
			for _, h := range hs {
				m.tx3[h] = true
			}
		case "wd1", "wd2":
			hs := fresh("side", sp.Hashes, func(h common.Uint256) bool { return m.tx3[h] })
			if len(hs) == 0 {
				continue
			}
			ver := payload.WithdrawFromSideChainVersionV1
			if sp.Kind == "wd2" {
				ver = payload.WithdrawFromSideChainVersionV2
			}
			outs = outs[:0]
			each := (val - 100) / int64(len(hs))
			for _, h := range hs {
				outs = append(outs, &common2.Output{AssetID: elacore.ELAAssetID, Value: common.Fixed64(each), ProgramHash: to.acc.ProgramHash, Type: common2.OTWithdrawFromSideChain,
					Payload: &outputpayload.Withdraw{Version: 0, GenesisBlockAddress: "XKUh4GLhFJiqAMTF6HyWQrV9pK9HcGUdfJ", SideChainTransactionHash: h, TargetData: []byte{1, 2}}})
				m.tx3[h] = true
			}
			tx = transaction.CreateTransaction(common2.TxVersion09, common2.WithdrawFromSideChain, ver, &payload.WithdrawFromSideChain{}, []*common2.Attribute{&nonce}, inputs, outs, 0, []*pg.Program{})
		case "retdep":
			hs := fresh("deposit", sp.Hashes, func(h common.Uint256) bool { return m.retdep[h] })
			if len(hs) == 0 {
				continue
			}
			outs = outs[:0]
			each := (val - 100) / int64(len(hs))
			for _, h := range hs {
				outs = append(outs, &common2.Output{AssetID: elacore.ELAAssetID, Value: common.Fixed64(each), ProgramHash: to.acc.ProgramHash, Type: common2.OTReturnSideChainDepositCoin,
					Payload: &outputpayload.ReturnSideChainDeposit{Version: 0, GenesisBlockAddress: "XKUh4GLhFJiqAMTF6HyWQrV9pK9HcGUdfJ", DepositTransactionHash: h}})
				m.retdep[h] = true
			}
			tx = transaction.CreateTransaction(common2.TxVersion09, common2.ReturnSideChainDepositCoin, payload.ReturnSideChainDepositCoinVersion, &payload.ReturnSideChainDepositCoin{}, []*common2.Attribute{&nonce}, inputs, outs, 0, []*pg.Program{})
		case "proposal":
			hs := fresh("draft", sp.Hashes, func(h common.Uint256) bool { _, ok := m.drafts[h]; return ok })
			if len(hs) == 0 {
				continue
			}
			id := mod(sp.Hashes[0], 12)
			pk, _ := from.acc.PublicKey.EncodePoint(true)
			pl := &payload.CRCProposal{ProposalType: payload.Normal, CategoryData: "sim", OwnerKey: pk, DraftHash: hs[0], DraftData: draftData(id),
				Budgets: []payload.Budget{{Type: payload.Imprest, Stage: 0, Amount: 10}, {Type: payload.FinalPayment, Stage: 1, Amount: 20}}, Recipient: to.acc.ProgramHash,
				Signature: bytes.Repeat([]byte{7}, crypto.SignatureLength), CRCouncilMemberDID: to.acc.ProgramHash, CRCouncilMemberSignature: bytes.Repeat([]byte{9}, crypto.SignatureLength)}
			tx = transaction.CreateTransaction(common2.TxVersion09, common2.CRCProposal, payload.CRCProposalVersion01, pl, []*common2.Attribute{&nonce}, inputs, outs, 0, []*pg.Program{})
			m.drafts[hs[0]] = draftData(id)
		case "review", "review0":
			hs := fresh("opinion", sp.Hashes, func(h common.Uint256) bool { _, ok := m.drafts[h]; return ok })
			if len(hs) == 0 {
				continue
			}
			id := mod(sp.Hashes[0], 12)
			ver, data := payload.CRCProposalReviewVersion01, draftData(id+3)
			if sp.Kind == "review0" {
				ver, data = payload.CRCProposalReviewVersion, nil
			}
			pl := &payload.CRCProposalReview{ProposalHash: smallHash("proposal", id), VoteResult: payload.Approve, OpinionHash: hs[0], OpinionData: data, DID: to.acc.ProgramHash, Signature: bytes.Repeat([]byte{5}, crypto.SignatureLength)}
			tx = transaction.CreateTransaction(common2.TxVersion09, common2.CRCProposalReview, ver, pl, []*common2.Attribute{&nonce}, inputs, outs, 0, []*pg.Program{})
			if data == nil {
				data = []byte{}
			}
			m.drafts[hs[0]] = data
		default:
			tx = transaction.CreateTransaction(common2.TxVersion09, common2.TransferAsset, 0, &payload.TransferAsset{}, []*common2.Attribute{&nonce}, inputs, outs, 0, []*pg.Program{})
		}
		tx.SetPrograms([]*pg.Program{{Code: from.acc.RedeemScript, Parameter: []byte{0x40}}})
		id := tx.Hash()
		delete(m.utxo, in)
		for i, o := range tx.Outputs() {
			m.utxo[outpoint{id, uint16(i)}] = sOut{o.ProgramHash, int64(o.Value)}
		}
		m.txs[id] = height
		txs = append(txs, tx)
		c.Probe("store-tx:" + sp.Kind)
	}
	miner := s.actors[mod(len(st.stack), len(s.actors))]
	cb, err := s.node.svc.CreateCoinbaseTx(miner.acc.Address, height)
	if err != nil {
		panic(fmt.Sprintf("harness: coinbase: %v", err))
	}
	blk := &types.Block{Header: common2.Header{Version: 0, Previous: *st.tipNode.Hash, Height: height, Bits: s.node.cfg.PowConfiguration.PowLimitBits, Timestamp: st.tipTime + 30}}
	blk.Transactions = append([]interfaces.Transaction{cb}, txs...)
	s.node.svc.AssignCoinbaseTxRewards(blk, s.node.cfg.GetBlockReward(height))
	root, _ := crypto.ComputeRoot(txHashes(blk.Transactions))
	blk.Header.MerkleRoot = root
	cbID := cb.Hash()
	for i, o := range cb.Outputs() {
		m.utxo[outpoint{cbID, uint16(i)}] = sOut{o.ProgramHash, int64(o.Value)}
	}
	m.txs[cbID] = height
	hash := blk.Hash()
	node := blockchain.NewBlockNode(&blk.Header, &hash)
	node.Parent = st.tipNode
	node.Height = height
	sb := &sBlock{blk: blk, node: node, before: before, dump: st.dump()}
	if err := s.node.store.SaveBlock(blk, node, nil, time.Unix(int64(st.tipTime), 0)); err != nil {
		c.Violate("C13", "save", "C13/save-error", "SaveBlock(h=%d, %s): %v", height, kindsOf(blk), err)
		st.dead = true
		return
	}
	if st.everTx == nil {
		st.everTx = map[common.Uint256]bool{}
	}
	for _, tx := range blk.Transactions {
		st.everTx[tx.Hash()] = true
	}
	st.stack = append(st.stack, sb)
	st.tipNode = node
	st.tipTime = blk.Timestamp
	c.Logf("connect h=%d %s", height, kindsOf(blk))
}

// checkQueries compares the store's public queries with the model.
func (st *storeRun) checkQueries() {
	if st.dead {
		return
	}
	c := st.c
	c.Check()
	ffl := st.ffl()
	m := st.model
	c.State(uint64(len(st.stack))<<40 ^ uint64(len(m.utxo))<<20 ^ uint64(len(m.tx3)*31+len(m.retdep)*7+len(m.drafts)))
	for id := 0; id < 12; id++ {
		h := smallHash("side", id)
		if got := ffl.IsTx3Exist(&h); got != m.tx3[h] {
			c.Violate("C13", "tx3", "C13/withdrawn-hash-index-disagrees", "IsTx3Exist(side-%d)=%v, on the current chain withdrawn=%v", id, got, m.tx3[h])
			return
		}
		d := smallHash("deposit", id)
		if got := ffl.IsSideChainReturnDepositExist(&d); got != m.retdep[d] {
			c.Violate("C13", "return-deposit", "C13/return-deposit-index-disagrees", "IsSideChainReturnDepositExist(deposit-%d)=%v, model %v", id, got, m.retdep[d])
			return
		}
		for _, kind := range []string{"draft", "opinion"} {
			dh := smallHash(kind, id)
			got, err := ffl.GetProposalDraftDataByDraftHash(&dh)
			want, ok := m.drafts[dh]
			if ok != (err == nil) || (ok && !bytes.Equal(got, want)) {
				c.Violate("C13", "draft-data", "C13/draft-data-store-disagrees", "GetProposalDraftDataByDraftHash(%s-%d) = %x err=%v, model has=%v %x", kind, id, got, err, ok, want)
				return
			}
		}
	}
	want := map[common.Uint256][]uint16{}
	for op := range m.utxo {
		want[op.tx] = append(want[op.tx], op.idx)
	}
	var ids []common.Uint256
	for id := range m.txs {
		ids = append(ids, id)
	}
	sort.Slice(ids, func(i, j int) bool { return string(ids[i][:]) < string(ids[j][:]) })
	for _, id := range ids {
		got, _ := ffl.GetUnspent(id)
		g := append([]uint16(nil), got...)
		w := want[id]
		sort.Slice(g, func(i, j int) bool { return g[i] < g[j] })
		sort.Slice(w, func(i, j int) bool { return w[i] < w[j] })
		if fmt.Sprint(g) != fmt.Sprint(w) && !(len(g) == 0 && len(w) == 0) {
			c.Violate("C13", "unspent", "C13/unspent-index-disagrees", "GetUnspent(%x)=%v, model %v", id[:6], g, w)
			return
		}
		tx, h, err := ffl.GetTransaction(id)
		if err != nil || tx == nil || h != m.txs[id] {
			c.Violate("C13", "tx-lookup", "C13/tx-location-disagrees", "GetTransaction(%x) height %d err=%v, model height %d", id[:6], h, err, m.txs[id])
			return
		}
	}
	// transactions of disconnected blocks: no unspent outputs, no location
	var gone []common.Uint256
	for id := range st.everTx {
		if _, on := m.txs[id]; !on {
			gone = append(gone, id)
		}
	}
	sort.Slice(gone, func(i, j int) bool { return string(gone[i][:]) < string(gone[j][:]) })
	for _, id := range gone {
		if got, _ := ffl.GetUnspent(id); len(got) != 0 {
			c.Violate("C13", "unspent", "C13/unspent-entry-of-disconnected-transaction", "GetUnspent(%x)=%v for a transaction whose block was disconnected", id[:6], got)
			return
		}
		if tx, h, err := ffl.GetTransaction(id); err == nil && tx != nil {
			c.Violate("C13", "tx-lookup", "C13/location-of-disconnected-transaction", "GetTransaction(%x) still finds a disconnected transaction at height %d", id[:6], h)
			// the transaction index itself (uncached) decides which of the two it is
			indexed := false
			st.ffl().View(func(tx database.Tx) error {
				if b := tx.Metadata().Bucket([]byte("txbyhashidx")); b != nil {
					indexed = b.Get(id[:]) != nil
				}
				return nil
			})
			if !indexed {
				c.Violate("C15", "tx-cache", "C15/transaction-cache-returns-detached-transaction", "GetTransaction(%x) answers from the transaction cache (height %d) what the transaction index no longer holds", id[:6], h)
			}
			return
		}
	}
	for _, a := range st.s.actors {
		utxos, err := ffl.GetUTXO(&a.acc.ProgramHash)
		if err != nil {
			c.Violate("C13", "address-utxo", "C13/getutxo-error", "GetUTXO: %v", err)
			return
		}
		got := map[outpoint]int64{}
		for _, u := range utxos {
			got[outpoint{u.TxID, u.Index}] = int64(u.Value)
		}
		own := st.ownUTXOs(a)
		ok := len(got) == len(own)
		for _, op := range own {
			if got[op] != m.utxo[op].value {
				ok = false
			}
		}
		if !ok {
			c.Violate("C13", "address-utxo", "C13/address-utxo-list-disagrees", "GetUTXO(actor %d) has %d entries, model %d (or values differ)", a.idx, len(got), len(own))
			return
		}
	}
}
