package chainsim

import (
	"bytes"
	"crypto/sha256"
	"fmt"

	"github.com/elastos/Elastos.ELA/account"
	"github.com/elastos/Elastos.ELA/common"
	"github.com/elastos/Elastos.ELA/core/contract"
	pg "github.com/elastos/Elastos.ELA/core/contract/program"
	"github.com/elastos/Elastos.ELA/core/types/interfaces"
)

// The cross-chain actor (C31, C05): an address with the cross-chain prefix
// ('X', the hash of [32 <side-chain genesis hash> CROSSCHAIN]), where side
// chains' deposits wait. Anyone can pay to it. Nobody in the simulation holds
// an authority over it: a Byzantine client spends from it by attaching a
// well-formed M-of-N cross-chain script over ITS OWN keys with valid
// signatures - the shape of spend the emergency policy of C31 exists to stop.

const ccShape = "crosschain-wellformed"

func addCrossChainActor(actors []*actor, seed uint64) []*actor {
	g := sha256.Sum256([]byte(fmt.Sprintf("side-chain-genesis-%d", seed)))
	code := cat([]byte{32}, g[:], []byte{0xaf})
	ph := common.ToProgramHash(byte(contract.PrefixCrossChain), code)
	addr, _ := ph.ToAddress()
	return append(actors, &actor{idx: len(actors), weird: ccShape, acc: &account.Account{ProgramHash: *ph, RedeemScript: code, Address: addr}})
}

func (s *sim) ccActor() *actor {
	for _, a := range s.actors {
		if a.weird == ccShape {
			return a
		}
	}
	return nil
}

type ccVariant struct {
	code    []byte
	signers []*actor
}

// ccVariants: self-made cross-chain scripts over the keys of the first actors.
func (s *sim) ccVariants() []ccVariant {
	key := func(a *actor) []byte {
		e, _ := a.acc.PublicKey.EncodePoint(true)
		return e
	}
	mk := func(m int, as ...*actor) ccVariant {
		code := []byte{byte(0x50 + m)}
		for _, a := range as {
			code = append(code, 33)
			code = append(code, key(a)...)
		}
		code = append(code, byte(0x50+len(as)), 0xaf)
		return ccVariant{code: code, signers: as[:m]}
	}
	a, b := s.keyed(0), s.keyed(1)
	c := s.keyed(2)
	out := []ccVariant{mk(2, a, b), mk(2, b, a), mk(1, a, b), mk(1, b, a)}
	if c != a && c != b {
		out = append(out, mk(2, a, b, c), mk(2, c, b, a), mk(3, a, b, c), mk(2, b, c, a), mk(1, c, a), mk(2, c, a))
	}
	return out
}

// ccProgram builds the program a Byzantine client attaches for the
// cross-chain input(s) of tx. When the transaction also spends an ordinary
// output of `with`, the node pairs programs and owners after sorting both by
// code hash, so the client picks a script whose hash sorts like the address.
func (s *sim) ccProgram(tx interfaces.Transaction, pick int, with *actor) *pg.Program {
	cc := s.ccActor()
	vs := s.ccVariants()
	var buf bytes.Buffer
	tx.SerializeUnsigned(&buf)
	for k := 0; k < len(vs); k++ {
		v := vs[mod(pick+k, len(vs))]
		if with != nil {
			wantBefore := cc.acc.ProgramHash.ToCodeHash().Compare(with.acc.ProgramHash.ToCodeHash()) < 0
			gotBefore := common.ToCodeHash(v.code).Compare(*common.ToCodeHash(with.acc.RedeemScript)) < 0
			if wantBefore != gotBefore {
				continue
			}
		}
		var param []byte
		for _, a := range v.signers {
			sig, err := signData(a.acc.PrivKey(), buf.Bytes())
			if err != nil {
				panic(fmt.Sprintf("harness: sign: %v", err))
			}
			param = append(param, byte(len(sig)))
			param = append(param, sig...)
		}
		return &pg.Program{Code: v.code, Parameter: param}
	}
	return nil
}
