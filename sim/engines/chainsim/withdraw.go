package chainsim

import (
	"bytes"
	"crypto/sha256"
	"encoding/binary"
	"fmt"
	"math/big"

	"github.com/elastos/Elastos.ELA/account"
	"github.com/elastos/Elastos.ELA/common"
	"github.com/elastos/Elastos.ELA/common/config"
	"github.com/elastos/Elastos.ELA/core"
	"github.com/elastos/Elastos.ELA/core/contract"
	pg "github.com/elastos/Elastos.ELA/core/contract/program"
	"github.com/elastos/Elastos.ELA/core/transaction"
	common2 "github.com/elastos/Elastos.ELA/core/types/common"
	"github.com/elastos/Elastos.ELA/core/types/outputpayload"
	"github.com/elastos/Elastos.ELA/core/types/payload"
	"github.com/elastos/Elastos.ELA/crypto"
	"github.com/elastos/Elastos.ELA/dpos/state"
)

// C33. Side-chain withdrawals: transactions that move deposits waiting at the
// cross-chain address back to main-chain addresses, authorised by the current
// cross-chain arbiters. The simulated environment supplies the arbiter set
// (their keys are the harness's own); everything that judges a withdrawal -
// sanity, context check, arbiter/quorum checks, signature verification, the
// withdrawn-hash index of the store, the mempool's side-chain-hash slot - is
// the node's real code.

type arbiterKey struct {
	priv []byte
	pub  []byte // 33-byte compressed node public key
	acc  *account.Account
}

func makeArbiterKeys(seed uint64, n int) []arbiterKey {
	out := make([]arbiterKey, n)
	for i := range out {
		var b [16]byte
		binary.LittleEndian.PutUint64(b[:], seed^0xC33C33)
		binary.LittleEndian.PutUint64(b[8:], uint64(i)+1)
		priv := sha256.Sum256(b[:])
		priv[0] &= 0x7f
		acc, err := account.NewAccountWithPrivateKey(priv[:])
		if err != nil {
			panic(fmt.Sprintf("harness: arbiter key: %v", err))
		}
		pub, _ := acc.PublicKey.EncodePoint(true)
		out[i] = arbiterKey{priv: priv[:], pub: pub, acc: acc}
	}
	return out
}

func arbiterInfos(ks []arbiterKey) []*state.ArbiterInfo {
	var out []*state.ArbiterInfo
	for _, k := range ks {
		out = append(out, &state.ArbiterInfo{NodePublicKey: k.pub, IsNormal: true, IsCRMember: true, ClaimedDPOSNode: true})
	}
	return out
}

// applyWithdrawKnobs: all three payload versions are admissible in one run
// (Schnorr programs allowed from genesis, no Schnorr-only height), and every
// quorum parameter of the configuration says "more than two thirds of the
// arbiters", which is what the model requires.
func (s *sim) applyWithdrawKnobs(cfg *config.Configuration) {
	n := int(s.c.Plan.Knob("wdarbiters", 0))
	s.arbKeys = nil
	if n <= 0 {
		return
	}
	s.arbKeys = makeArbiterKeys(s.c.Plan.Seed, n)
	cfg.NormalSchnorrStartHeight = 0
	cfg.ReturnCrossChainCoinStartHeight = 0
	cfg.CRConfiguration.MemberCount = uint32(n)
	cfg.CRConfiguration.CRAgreementCount = uint32(n*2/3 + 1)
}

func (s *sim) quorum() int { return len(s.arbKeys)*2/3 + 1 }

// WdSpec describes one side-chain withdrawal.
type WdSpec struct {
	Ver    int   `json:"ver"`              // payload version 0, 1, 2
	Hashes []int `json:"hashes"`           // side-chain transaction hashes (small space, so that repeats happen)
	Auth   int   `json:"auth,omitempty"`   // 0 quorum of distinct arbiters; see makeWithdraw
	Mixed  bool  `json:"mixed,omitempty"`  // also spends an ordinary output
	DupIn  bool  `json:"dupin,omitempty"`  // the same side-chain hash twice inside this transaction
	Signer int   `json:"signer,omitempty"` // selector: which arbiters sign / which index is repeated or out of range
	// Ret > 0: not a withdrawal but a side-chain deposit return (C31) with
	// payload version Ret-1, authorised by the arbiters' multisig script
	Ret int `json:"ret,omitempty"`
	// Typed: a legacy (version 0) withdrawal whose outputs are typed withdraw
	// outputs naming other side-chain transactions than its payload does
	Typed bool `json:"typed,omitempty"`
	// Again: withdraw the side-chain transaction that such a typed output named
	Again bool `json:"again,omitempty"`
}

type wdFacts struct {
	ver      int
	hashes   []common.Uint256
	authOK   bool   // at least quorum() DISTINCT current arbiters authorised exactly this content
	authWhy  string // why not
	dupIn    bool
	nonCross bool
	ret      bool // a deposit return
	retVer   int
}

func sideHash(i int) common.Uint256 {
	return common.Uint256(sha256.Sum256([]byte(fmt.Sprintf("side-chain-tx-%d", mod(i, 8)))))
}

// ccScript is an M-of-N cross-chain script over the given 33-byte keys.
func ccScript(m int, keys [][]byte) []byte {
	code := []byte{byte(0x50 + m)}
	for _, k := range keys {
		code = append(code, 33)
		code = append(code, k...)
	}
	return append(code, byte(0x50+len(keys)), 0xaf)
}

// makeWithdraw builds a withdrawal on view v. Auth:
//
//	0 quorum of distinct arbiters (valid)
//	1 script threshold one below the quorum, that many signatures        (V0, V1)
//	2 script over the client's own keys instead of the arbiters'          (V0, V1)
//	3 correct script, one signature fewer than its threshold              (V0, V1)
//	4 correct script, threshold-many signatures all by ONE arbiter        (V0, V1)
//	5 signer list with one index repeated to reach the quorum             (V2)
//	6 signer list containing an index that names no arbiter               (V2)
//	7 signer list one short of the quorum                                 (V2)
//	8 aggregate key of the listed signers, signature by other arbiters    (V2)
func (s *sim) makeWithdraw(v *view, spec TxSpec) *txInfo {
	w := spec.Wd
	cc := s.ccActor()
	if cc == nil || len(s.arbKeys) == 0 {
		return nil
	}
	own := v.utxosOf(cc.idx)
	if len(own) == 0 {
		return nil
	}
	sel0 := 0
	if len(spec.InSel) > 0 {
		sel0 = spec.InSel[0]
	}
	ins := []outpoint{own[mod(sel0, len(own))]}
	wf := &wdFacts{ver: mod(w.Ver, 3)}
	if len(s.arbKeys) > 16 {
		wf.ver = 2 // the multisig script forms name at most 16 keys
	}
	if w.Ret > 0 {
		if len(s.arbKeys) > 16 {
			return nil
		}
		wf.ret, wf.retVer, wf.ver = true, mod(w.Ret-1, 256), 0
	}
	facts := &txFacts{signedBy: map[int]bool{}, wd: wf}
	facts.signedBy[cc.idx] = true // the authority over the cross-chain address is judged by labelWithdraw
	var payer *actor
	if w.Mixed {
		payer = s.keyed(spec.From)
		if po := v.utxosOf(payer.idx); len(po) > 0 {
			ins = append(ins, po[mod(sel0, len(po))])
			wf.nonCross = true
		} else {
			payer = nil
		}
	}
	inTotal := int64(0)
	for _, in := range ins {
		inTotal += v.utxo[in].value
	}
	fee := spec.Fee
	if fee <= 0 {
		fee = int64(s.node.cfg.MinTransactionFee)
	}
	avail := inTotal - fee
	if avail < 0 {
		avail = 0
	}
	// side-chain hashes
	hs := w.Hashes
	if len(hs) == 0 {
		hs = []int{sel0}
	}
	if w.Again && len(s.typedNamed) > 0 {
		// the side-chain transaction that a typed output of an earlier legacy
		// withdrawal named (without withdrawing it)
		hs = []int{s.typedNamed[len(s.typedNamed)-1-mod(w.Signer, min(len(s.typedNamed), 3))]}
		s.c.Probe("withdrawal-of-a-hash-named-by-an-earlier-typed-legacy-output")
	}
	if len(hs) > 3 {
		hs = hs[:3]
	}
	seen := map[common.Uint256]bool{}
	for _, h := range hs {
		x := sideHash(h)
		if seen[x] {
			continue
		}
		seen[x] = true
		wf.hashes = append(wf.hashes, x)
	}
	if wf.ret {
		wf.hashes = wf.hashes[:1] // one plain output; a return names no side-chain hash here
	} else if w.DupIn && wf.ver == 0 {
		// (versions 1 and 2 name the hash per output, and one side-chain
		// transaction may legitimately pay several main-chain outputs)
		wf.dupIn = true
		wf.hashes = append(wf.hashes, wf.hashes[0])
	}
	// outputs: one per hash (V1/V2 carry the hash in the output payload)
	var outs []*common2.Output
	outHashes := append([]common.Uint256(nil), wf.hashes...)
	if w.DupIn && wf.ver >= 1 {
		outHashes = append(outHashes, wf.hashes[0]) // a second output of the same side-chain transaction
		s.c.Probe("withdrawal-with-two-outputs-of-one-side-chain-transaction")
	}
	per := avail / int64(len(outHashes))
	for i, h := range outHashes {
		to := s.keyed(spec.From + i)
		if i < len(spec.To) {
			to = s.keyed(spec.To[i])
		}
		val := per
		if i == len(outHashes)-1 {
			val = avail - per*int64(len(outHashes)-1)
		}
		o := &common2.Output{AssetID: core.ELAAssetID, Value: common.Fixed64(val), ProgramHash: to.acc.ProgramHash, Type: common2.OTNone, Payload: &outputpayload.DefaultOutput{}}
		if wf.ver >= 1 {
			o.Type = common2.OTWithdrawFromSideChain
			o.Payload = &outputpayload.Withdraw{Version: 0, GenesisBlockAddress: cc.acc.Address, SideChainTransactionHash: h, TargetData: []byte{}}
		} else if w.Typed && !wf.ret {
			// a legacy withdrawal names its hashes in the payload; a typed output
			// on it, naming ANOTHER side-chain transaction, withdraws nothing
			namedIdx := hs[0] + 1 + i + w.Signer
			named := sideHash(namedIdx)
			defer func() { s.typedNamed = append(s.typedNamed, mod(namedIdx, 8)) }()
			for k := 0; k < 8; k++ {
				// by preference one that HAS been withdrawn on this branch
				if x := sideHash(w.Signer + k); v.withdrawn[x] == 1 && !seen[x] {
					named, namedIdx = x, w.Signer+k
					s.c.Probe("legacy-withdrawal-with-typed-output-naming-a-withdrawn-hash")
					break
				}
			}
			o.Type = common2.OTWithdrawFromSideChain
			o.Payload = &outputpayload.Withdraw{Version: 0, GenesisBlockAddress: cc.acc.Address, SideChainTransactionHash: named, TargetData: []byte{}}
			s.c.Fault("withdraw:legacy-with-typed-output-naming-another-hash")
		}
		outs = append(outs, o)
	}
	switch spec.Amt {
	case 1, 6:
		// individually non-negative amounts whose sum wraps past 2^64 / 2^63:
		// copies of the first output (the same side-chain transaction may pay
		// several outputs) at 2^62 sela each
		n := map[int]int{1: 4, 6: 2}[spec.Amt]
		first := *outs[0]
		var big []*common2.Output
		for i := 0; i < n; i++ {
			o := first
			o.Value = 1 << 62
			big = append(big, &o)
		}
		if spec.Amt == 1 {
			outs = append(big, outs...) // 4 x 2^62 = 0 mod 2^64: the rest still "balances"
		} else {
			outs = big
		}
		s.c.Fault("withdraw:amounts-wrap")
	case 4:
		outs[0].Value += common.Fixed64(fee + 1) // outputs exceed inputs by one sela
		s.c.Fault("withdraw:outputs-exceed-inputs-by-one")
	}
	pld := &payload.WithdrawFromSideChain{BlockHeight: 1, GenesisBlockAddress: cc.acc.Address}
	if wf.ver == 0 {
		pld.SideChainTransactionHashes = wf.hashes
	}
	var inputs []*common2.Input
	for _, in := range ins {
		inputs = append(inputs, &common2.Input{Previous: common2.OutPoint{TxID: in.tx, Index: in.idx}, Sequence: 0})
	}
	n := len(s.arbKeys)
	q := s.quorum()
	auth := w.Auth
	if wf.ver <= 1 && auth > 4 || wf.ver == 2 && auth != 0 && auth < 5 || wf.ret {
		auth = 0
	}
	// V2: the signer list is part of the signed content
	var signerIdx []int
	if wf.ver == 2 {
		for k := 0; k < q; k++ {
			signerIdx = append(signerIdx, mod(w.Signer+k, n))
		}
		switch auth {
		case 5:
			// one arbiter's index fills every slot but... it alone "reaches" q
			switch mod(w.Signer/3, 3) {
			case 0: // the same index everywhere
				for k := range signerIdx {
					signerIdx[k] = mod(w.Signer, n)
				}
			case 1: // two arbiters taking turns: no repeat is adjacent (seed C33-3)
				for k := range signerIdx {
					signerIdx[k] = mod(w.Signer+k%2, n)
				}
			default: // all distinct but the last, which names the first again
				signerIdx[len(signerIdx)-1] = signerIdx[0]
			}
			wf.authWhy = "withdraw-signer-index-repeated"
		case 6:
			signerIdx[len(signerIdx)-1] = n + mod(w.Signer, 200)
			wf.authWhy = "withdraw-signer-index-names-no-arbiter"
		case 7:
			signerIdx = signerIdx[:q-1]
			wf.authWhy = "withdraw-too-few-signers"
		case 8:
			wf.authWhy = "withdraw-signature-by-others"
		}
		for _, i := range signerIdx {
			pld.Signers = append(pld.Signers, uint8(i))
		}
	}
	tx := transaction.CreateTransaction(common2.TxVersion09, common2.WithdrawFromSideChain, byte(wf.ver), pld, []*common2.Attribute{}, inputs, outs, 0, []*pg.Program{})
	if wf.ret {
		wf.hashes = nil
		tx = transaction.CreateTransaction(common2.TxVersion09, common2.ReturnSideChainDepositCoin, byte(wf.retVer), &payload.ReturnSideChainDepositCoin{}, []*common2.Attribute{}, inputs, outs, 0, []*pg.Program{})
		s.c.Fault(fmt.Sprintf("deposit-return:payload-version-%d", wf.retVer))
	}
	s.txNonce++
	nonce := common2.NewAttribute(common2.Nonce, []byte(fmt.Sprintf("%d", s.txNonce)))
	tx.SetAttributes([]*common2.Attribute{&nonce})
	var buf bytes.Buffer
	tx.SerializeUnsigned(&buf)
	data := buf.Bytes()
	sign := func(k arbiterKey) []byte {
		sig, err := signData(k.priv, data)
		if err != nil {
			panic(fmt.Sprintf("harness: sign: %v", err))
		}
		return append([]byte{byte(len(sig))}, sig...)
	}
	var progs []*pg.Program
	if wf.ver <= 1 {
		var keys [][]byte
		for _, k := range s.arbKeys {
			keys = append(keys, k.pub)
		}
		m := q
		var param []byte
		switch auth {
		case 1:
			m = q - 1
			wf.authWhy = "withdraw-threshold-below-quorum"
			for k := 0; k < m; k++ {
				param = append(param, sign(s.arbKeys[mod(w.Signer+k, n)])...)
			}
		case 2:
			// the client's own keys, as many as there are arbiters
			own := makeArbiterKeys(s.c.Plan.Seed^0xBAD, n)
			keys = nil
			for _, k := range own {
				keys = append(keys, k.pub)
			}
			for k := 0; k < m; k++ {
				param = append(param, sign(own[k])...)
			}
			wf.authWhy = "withdraw-script-not-over-arbiters"
		case 3:
			for k := 0; k < m-1; k++ {
				param = append(param, sign(s.arbKeys[mod(w.Signer+k, n)])...)
			}
			wf.authWhy = "withdraw-too-few-signatures"
		case 4:
			for k := 0; k < m; k++ {
				param = append(param, sign(s.arbKeys[mod(w.Signer, n)])...)
			}
			wf.authWhy = "withdraw-one-arbiter-signs-for-all"
		default:
			for k := 0; k < m; k++ {
				param = append(param, sign(s.arbKeys[mod(w.Signer+k, n)])...)
			}
			wf.authOK = true
		}
		if m < 1 {
			return nil
		}
		progs = append(progs, &pg.Program{Code: ccScript(m, keys), Parameter: param})
	} else {
		// Schnorr: program = aggregate key of the listed signers, one signature
		var privs []*big.Int
		var pubs [][]byte
		for _, i := range signerIdx {
			if i >= n {
				// an index naming no arbiter: the client cannot know "its" key;
				// it aggregates over the arbiters it can name
				continue
			}
			privs = append(privs, new(big.Int).SetBytes(s.arbKeys[i].priv))
			pubs = append(pubs, s.arbKeys[i].pub)
		}
		if auth == 8 {
			// as many signatures as listed signers, but by keys that are no arbiters'
			privs = nil
			for _, k := range makeArbiterKeys(s.c.Plan.Seed^0xBAD, q) {
				privs = append(privs, new(big.Int).SetBytes(k.priv))
			}
		}
		agg, err := crypto.AggregatePublickeys(pubs)
		if err != nil || len(pubs) == 0 {
			return nil
		}
		pk, err := crypto.DecodePoint(agg)
		if err != nil {
			return nil
		}
		code, err := contract.CreateSchnorrRedeemScript(pk)
		if err != nil {
			return nil
		}
		sig, err := crypto.AggregateSignatures(privs, common.Sha256D(data))
		if err != nil {
			return nil
		}
		progs = append(progs, &pg.Program{Code: code, Parameter: sig[:]})
		wf.authOK = auth == 0
	}
	if payer != nil {
		sig, err := signData(payer.acc.PrivKey(), data)
		if err != nil {
			panic(fmt.Sprintf("harness: sign: %v", err))
		}
		progs = append(progs, &pg.Program{Code: payer.acc.RedeemScript, Parameter: append([]byte{byte(len(sig))}, sig...)})
		facts.signedBy[payer.idx] = true
	}
	tx.SetPrograms(progs)
	if auth != 0 {
		s.c.Fault("withdraw:" + wf.authWhy)
	}
	if w.DupIn {
		s.c.Fault("withdraw:same-hash-twice-in-one-transaction")
	}
	if wf.nonCross {
		s.c.Fault("withdraw:spends-an-ordinary-output-too")
	}
	facts.ins = ins
	facts.outs = txOutValues(tx)
	info := &txInfo{tx: tx, facts: facts, spec: spec}
	for _, o := range tx.Outputs() {
		info.outs = append(info.outs, mOut{ph: o.ProgramHash, owner: s.actorOf(o.ProgramHash), value: int64(o.Value), cbHeight: -1})
	}
	return info
}

// labelWithdraw is the model's verdict on a withdrawal (C33), given that the
// ledger rules (inputs exist, amounts, fee) found nothing.
func (s *sim) labelWithdraw(v *view, info *txInfo, height uint32) string {
	wf := info.facts.wd
	if wf.ret {
		// C31: from the restriction height on only LEGACY deposit returns that
		// spend nothing but cross-chain outputs may spend them (the freeze
		// window is judged by label); no rule names deposit returns before
		if s.ccFreeze > 0 && height >= s.ccRestrict && (wf.retVer != 0 || wf.nonCross) {
			s.c.Probe(fmt.Sprintf("deposit-return-judged-restricted:legacy=%v,only-cross=%v", wf.retVer == 0, !wf.nonCross))
			return "crosschain-utxo-restricted"
		}
		return ""
	}
	if wf.nonCross {
		return "withdraw-spends-ordinary-output"
	}
	if wf.dupIn {
		return fmt.Sprintf("sidechain-hash-withdrawn-twice/v%d-twice-in-one-transaction", wf.ver)
	}
	for _, h := range wf.hashes {
		switch v.withdrawn[h] {
		case 1:
			return fmt.Sprintf("sidechain-hash-withdrawn-twice/v%d-after-an-earlier-block", wf.ver)
		case 2:
			return fmt.Sprintf("sidechain-hash-withdrawn-twice/v%d-after-a-transaction-of-the-same-block", wf.ver)
		}
	}
	if !wf.authOK {
		why := wf.authWhy
		if (why == "withdraw-signer-index-repeated" || why == "withdraw-signer-index-names-no-arbiter") && (s.ccFreeze == 0 || height < s.ccRestrict) {
			// sentence 1 of C33 asks for distinct arbiters at every height; the
			// explicit index rules only "from the restriction height on"
			why += "-before-restriction"
		}
		return why
	}
	return ""
}
