package chainsim

import (
	"crypto/ecdsa"
	"crypto/rand"
	"crypto/sha256"
	"math/big"

	"github.com/elastos/Elastos.ELA/crypto"
)

// signData produces the same 64-byte r||s signature over sha256(data) as the
// repo's crypto.Sign. crypto.Sign leaves the public half of the key unset,
// which the go1.26 crypto/ecdsa this harness is built with refuses (the repo's
// own toolchain accepts it); signing by simulated clients is environment, not
// code under test, so the harness signs with a fully populated key.
func signData(priv []byte, data []byte) ([]byte, error) {
	digest := sha256.Sum256(data)
	k := new(ecdsa.PrivateKey)
	k.Curve = crypto.DefaultCurve
	k.D = new(big.Int).SetBytes(priv)
	k.X, k.Y = k.Curve.ScalarBaseMult(priv)
	r, s, err := ecdsa.Sign(rand.Reader, k, digest[:])
	if err != nil {
		return nil, err
	}
	sig := make([]byte, crypto.SignatureLength)
	rb, sb := r.Bytes(), s.Bytes()
	copy(sig[crypto.SignerLength-len(rb):], rb)
	copy(sig[crypto.SignatureLength-len(sb):], sb)
	return sig, nil
}
