package chainsim

import (
	"verif/sim/core"
)

// Generate draws a workload. One engine serves many properties; the property
// id selects the mix (what the Byzantine actors concentrate on), while every
// oracle stays switched on in every run.
func (Engine) Generate(r *core.Rng, property, tier string) *core.Plan {
	p := &core.Plan{Knobs: map[string]int64{}, Meta: map[string]string{}}
	if property == "C13" || property == "C15" && r.Bool(0.25) {
		// (C15: the transaction cache in front of the store, over histories
		// with every transaction kind incl. the output-less ones)
		return genStore(r, p, tier)
	}
	if property == "C40" {
		return genRace(r, p, tier)
	}
	p.SetKnob("actors", int64(r.Range(3, 6)))
	p.SetKnob("maturity", int64(r.Range(0, 3)))
	g := &gen{r: r, p: p, prop: property}
	if property == "C32" || r.Bool(0.2) {
		// emergency policy: one actor's address is frozen from some height on
		p.SetKnob("frozen", int64(r.Intn(10)))
		p.SetKnob("frozenh", p.Knob("maturity", 2)+3+int64(r.Intn(14)))
		if r.Bool(0.6) {
			// a second listed address with its own start height, before or
			// after the first one in the list
			p.SetKnob("frozen2", int64(r.Intn(10)))
			p.SetKnob("frozen2h", p.Knob("maturity", 2)+3+int64(r.Intn(14)))
			p.SetKnob("frozen2first", int64(r.Intn(2)))
		}
	}
	if property == "C03" || property == "C05" {
		// script actors: key-less addresses behind malformed redeem scripts
		p.SetKnob("weird", int64(r.Range(1, 4)))
		p.SetKnob("weirdpick", int64(r.Intn(1000)))
	}
	if property == "C05" || property == "C34" || r.Bool(0.2) {
		// multisig actors: addresses controlled by M of N key-holding actors
		p.SetKnob("multi", int64(r.Range(1, 2)))
	}
	if property == "C33" || (property == "C34" || property == "C03") && r.Bool(0.3) || property == "C31" && r.Bool(0.5) || property == "C01" && r.Bool(0.4) {
		// side-chain withdrawals: the environment's cross-chain arbiters
		p.SetKnob("wdarbiters", int64(r.Range(3, 6)))
		if property == "C33" && r.Bool(0.15) {
			// a full-size set (12 council + 24 elected): signer indexes beyond
			// 31; only Schnorr withdrawals can name that many arbiters
			p.SetKnob("wdarbiters", int64(r.Range(33, 36)))
		}
		if property == "C31" || property == "C33" && r.Bool(0.3) || property == "C01" && r.Bool(0.5) {
			// side-chain deposit returns (all payload versions) next to withdrawals
			p.SetKnob("ccreturns", 1)
		}
	}
	if property == "C31" || property == "C33" || p.Knob("wdarbiters", 0) > 0 || property == "C05" && r.Bool(0.3) {
		// a cross-chain ('X') address holding deposits, and the emergency
		// policy thresholds inside the run: freeze from ccfreeze, restriction
		// from ccfreeze+ccwindow (window 0: no freeze window at all)
		p.SetKnob("ccactor", 1)
		if property == "C31" || r.Bool(0.5) || p.Knob("wdarbiters", 0) > 16 {
			p.SetKnob("ccfreeze", p.Knob("maturity", 2)+5+int64(r.Intn(12)))
			p.SetKnob("ccwindow", int64([]int{0, 1, 1, 2, 3, 5, 8, 30}[r.Intn(8)]))
			if p.Knob("wdarbiters", 0) > 16 {
				// the signer-index rules start early in runs with a full-size set
				p.SetKnob("ccfreeze", p.Knob("maturity", 2)+5)
				p.SetKnob("ccwindow", int64(r.Intn(3)))
			}
		}
	}
	if property == "C30" || (property == "C12" || property == "C07") && r.Bool(0.25) {
		// the CRC-only DPoS era starts inside the run, so the state records a
		// last irreversible height a few blocks later
		// (the tracking start stays >= 7: the code computes height-6 there, and
		// real networks start it hundreds of thousands of blocks up)
		cr := 2 + int64(r.Intn(6))
		p.SetKnob("crconly", cr)
		// and strictly above the CRC-only height, as on every real network
		p.SetKnob("revertpowoff", max(1, 7-cr)+int64(r.Intn(3)))
		if r.Bool(0.6) {
			p.SetKnob("nbtime", int64(r.Range(120, 900)))
		}
	}
	n := r.Range(12, 45)
	if tier == "thorough" {
		n = r.Range(12, 80)
	}
	// strata: fault-free runs are kept apart so relaxations under faults hide nothing
	if r.Bool(0.25) {
		p.Meta["stratum"] = "fault-free"
		g.faultFree = true
	} else {
		p.Meta["stratum"] = "faults"
	}
	// swarm: each run enables a random subset of adversarial behaviours
	g.on = map[string]bool{}
	for _, k := range []string{"fork", "badtx", "badblock", "reorder", "mempool", "restart", "dup"} {
		g.on[k] = r.Bool(0.6)
	}
	switch property {
	case "C01":
		g.on["badtx"], g.on["reorder"] = true, true
		g.bias = []int{1, 1, 2, 3, 4, 6, 7, 1} // amount modes favoured
	case "C05":
		g.on["badtx"] = true
	case "C06":
		g.on["badtx"], g.on["fork"], g.on["mempool"] = true, true, true
	case "C12", "C30":
		g.on["fork"], g.on["reorder"], g.on["badblock"] = true, true, true
	case "C14":
		g.on["fork"] = true
	case "C31", "C33":
		g.on["fork"], g.on["mempool"], g.on["reorder"] = true, true, true
	case "C07":
		g.on["badblock"] = true
		g.badKinds = []string{"merkle", "dup-tx", "dup-tx", "second-coinbase", "no-coinbase"}
	case "C15":
		g.on["fork"], g.on["mempool"], g.on["reorder"] = true, true, true
		// small bounds evict on nearly every lookup; large ones let entries
		// live across reorganisations (staleness)
		p.SetKnob("maxref", []int64{1, 2, 3, 5, 8, 50, 1000, 100000}[r.Intn(8)])
		p.SetKnob("txcachevol", int64(r.Range(0, 4)))
	case "C34":
		g.on["mempool"], g.on["badtx"], g.on["fork"] = true, true, true
		g.poolHeavy = true
	case "C11":
		g.on["badblock"] = true
		g.badKinds = []string{"reward+1", "reward-1", "cb-shift", "cb-shift-dpos", "cb-addr", "cb-addr-dpos", "cb-count4", "cb-count2", "cb-drop3", "cb-extra-0", "cb-extra-1", "cb-extra-big"}
	case "C03":
		// "never panics" includes the coinbase rules: every coinbase shape, in
		// both reward regimes
		g.on["badblock"] = true
		g.badKinds = []string{"reward+1", "cb-count4", "cb-count2", "cb-drop3", "cb-extra-0", "cb-shift", "merkle", "dup-tx", "second-coinbase", "no-coinbase", "ts-old", "bits"}
	}
	if property == "C11" || property == "C03" && r.Bool(0.4) || r.Bool(0.15) {
		// the simulated environment reports DPoS v2 as active from an early
		// height; the issuance schedule is compressed into the run
		p.SetKnob("v2active", int64(r.Range(1, 10)))
		ni := int64(r.Range(0, 12))
		p.SetKnob("newissue", ni)
		p.SetKnob("halvingh", ni+int64(r.Range(1, 12)))
		p.SetKnob("halvingint", int64(r.Range(1, 9)))
	}
	if g.faultFree {
		for k := range g.on {
			g.on[k] = false
		}
		g.on["mempool"] = true
	} else if property == "C34" && r.Bool(0.6) || r.Bool(0.1) {
		// a small size limit so eviction by fee rate happens within a short run
		p.SetKnob("poolmax", r.LogUniform(250, 1500))
	}
	// a short funding prologue so several actors own mature outputs
	for i := int64(0); i < p.Knob("maturity", 2); i++ {
		g.p.Add(Step{Op: "mine", Block: &BlockSpec{Miner: r.Intn(10)}})
	}
	for i := 0; i < 3; i++ {
		// actor 0 holds the genesis allocation and spreads it
		t := TxSpec{From: 0, InSel: []int{0}, To: []int{1 + r.Intn(5), 1 + r.Intn(5), r.Intn(10)}, Split: []int{r.Range(50, 300), r.Range(50, 300), r.Range(50, 300)}}
		g.p.Add(Step{Op: "mine", Block: &BlockSpec{Miner: r.Intn(10), Txs: []TxSpec{t}}})
	}
	for i := 0; i < n; i++ {
		g.step()
	}
	if property == "C31" || property == "C32" {
		// the configuration clause: what settings.SetupConfig makes of a local
		// configuration file (network name spelling, overridden heights, an
		// overridden frozen list), at a random point of the run
		for k := r.Range(1, 3); k > 0; k-- {
			g.p.Add(Step{Op: "conf", Conf: genConf(r)})
		}
	}
	return p
}

type gen struct {
	r         *core.Rng
	p         *core.Plan
	prop      string
	on        map[string]bool
	faultFree bool
	bias      []int
	badKinds  []string
	poolHeavy bool
}

func (g *gen) goodTx() TxSpec {
	r := g.r
	t := TxSpec{From: r.Intn(10), InSel: []int{r.Intn(8)}}
	if r.Bool(0.3) {
		t.InSel = append(t.InSel, r.Intn(8))
	}
	for k := r.Range(1, 3); k > 0; k-- {
		t.To = append(t.To, r.Intn(10))
		t.Split = append(t.Split, r.Range(1, 600))
	}
	if r.Bool(0.3) {
		t.Fee = r.LogUniform(100, 1000000)
	}
	if r.Bool(0.1) {
		t.Amt = 5 // zero-value output: legal, must stay out of address lists
	}
	if (g.prop == "C06" || g.prop == "C14" || g.prop == "C15") && r.Intn(20) == 0 {
		t.Wide = r.Range(250, 330) // payout shape: output indexes beyond one byte (seed C06-3)
	}
	if g.p.Knob("ccactor", 0) > 0 {
		// the cross-chain address sits right after the key holders: deposits
		// arrive there and a Byzantine client tries to take them
		cc := int(g.p.Knob("actors", 5))
		if r.Bool(0.3) {
			t.To[0] = cc
		}
		switch r.Pick(60, 25, 15) {
		case 1:
			t.From = cc
		case 2:
			t.InKind = 10 // an own output and a cross-chain output in one transaction
		}
	}
	if nm := int(g.p.Knob("multi", 0)); nm > 0 {
		// multisig actors sit right after the key-holding ones: pay them and
		// spend from them often enough that both happen within a short run
		first := int(g.p.Knob("actors", 5) + g.p.Knob("ccactor", 0))
		if r.Bool(0.25) {
			t.To[0] = first + r.Intn(nm)
		}
		if r.Bool(0.25) {
			t.From = first + r.Intn(nm)
		}
	}
	return t
}

func (g *gen) badTx() TxSpec {
	r := g.r
	t := g.goodTx()
	t.Amt = 0
	kind := r.Pick(3, 3, 3)
	switch g.prop {
	case "C01":
		kind = r.Pick(8, 1, 1)
	case "C05":
		kind = r.Pick(1, 8, 1)
	case "C06":
		kind = r.Pick(1, 1, 8)
	}
	switch kind {
	case 0:
		modes := []int{1, 2, 3, 4, 6, 7}
		t.Amt = modes[r.Intn(len(modes))]
	case 1:
		t.Sign = r.Range(1, 8)
		if r.Bool(0.3) {
			t.Sign = 0
			t.InKind = 3 // someone else's output, own signature
		}
	case 2:
		t.InKind = []int{1, 2, 4, 5, 7, 8, 9, 9}[r.Intn(8)]
		if r.Bool(0.5) {
			t.Seq = r.Range(1, 3) // the same outpoint under another input sequence number
		}
	}
	return t
}

// wdTx: a side-chain withdrawal; honest ones reuse hashes now and then (the
// same withdrawal relayed twice), Byzantine ones vary the authorisation.
func (g *gen) wdTx() TxSpec {
	r := g.r
	t := TxSpec{From: r.Intn(10), InSel: []int{r.Intn(8)}, To: []int{r.Intn(10), r.Intn(10)}}
	w := &WdSpec{Ver: r.Intn(3), Signer: r.Intn(40)}
	if n := int(g.p.Knob("wdarbiters", 0)); n > 16 {
		w.Ver = 2
		if n > 32 && r.Bool(0.5) {
			w.Signer = n - 1 - r.Intn(n-32) // an arbiter whose index is beyond 31
		}
	}
	for k := r.Pick(0, 6, 3, 1); k > 0; k-- {
		w.Hashes = append(w.Hashes, r.Intn(8))
	}
	if r.Bool(0.3) {
		t.Fee = r.LogUniform(100, 1000000)
	}
	if r.Bool(0.4) {
		switch r.Pick(6, 1, 1) {
		case 0:
			if w.Ver == 2 {
				w.Auth = r.Range(5, 8)
			} else {
				w.Auth = r.Range(1, 4)
			}
		case 1:
			w.Mixed = true
		case 2:
			w.DupIn = true
		}
	}
	if g.prop == "C01" && r.Bool(0.5) {
		// value creation through another transaction type (seed C01-3): an
		// authorised withdrawal / deposit return whose amounts wrap or exceed
		w.Auth, w.Mixed, w.DupIn = 0, false, false
		t.Amt = []int{1, 6, 4, 4}[r.Intn(4)]
	}
	if w.Ver == 0 && r.Bool(0.35) {
		w.Typed = true
	} else if r.Bool(0.2) {
		w.Again = true
	}
	if g.p.Knob("ccreturns", 0) > 0 && r.Bool(0.45) {
		// a deposit return: legacy (0), Schnorr (1), or a version nobody defined
		w.Ret = 1 + r.Pick(5, 2, 3)
		if w.Ret == 3 {
			w.Ret = 3 + []int{0, 1, 2, 5, 125, 126, 253}[r.Intn(7)]
		}
		w.Auth, w.DupIn = 0, false
	}
	t.Wd = w
	return t
}

func (g *gen) tx() TxSpec {
	if g.p.Knob("wdarbiters", 0) > 0 && g.r.Bool(0.4) {
		return g.wdTx()
	}
	if g.on["badtx"] && g.r.Bool(0.3) {
		return g.badTx()
	}
	return g.goodTx()
}

func (g *gen) block() *BlockSpec {
	r := g.r
	b := &BlockSpec{Miner: r.Intn(10), Dt: r.Intn(600)}
	for k := r.Pick(2, 4, 3, 2, 1); k > 0; k-- {
		b.Txs = append(b.Txs, g.tx())
	}
	if g.on["mempool"] && r.Bool(0.15) || g.poolHeavy && r.Bool(0.3) {
		// another miner heard the same transactions the node pooled
		for k := r.Range(1, 3); k > 0; k-- {
			b.Pool = append(b.Pool, r.Intn(1000))
		}
		b.Variant = r.Bool(0.5)
	}
	if g.on["fork"] && r.Bool(0.35) {
		switch r.Intn(4) {
		case 0:
			b.PMode, b.Parent = 2, r.Range(1, 8)
		case 1:
			b.PMode, b.Parent = 1, r.Intn(1000)
		case 2:
			b.PMode = 4 // extend the last block built (grows a side branch)
		case 3:
			b.PMode = 3
		}
	}
	if g.on["badblock"] && r.Bool(0.15) {
		bads := []string{"ts-old", "bits", "reward+1", "reward-1", "merkle", "dup-tx", "second-coinbase", "no-coinbase", "pow", "ts-future"}
		if len(g.badKinds) > 0 {
			bads = g.badKinds
		}
		b.Bad = bads[r.Intn(len(bads))]
	}
	if g.on["reorder"] && r.Bool(0.3) {
		b.Hold = true
	}
	return b
}

// mutStep: a valid block of 1..12 transactions and a set of single mutations.
func (g *gen) mutStep() Step {
	r := g.r
	b := &BlockSpec{Miner: r.Intn(10), Dt: r.Intn(600)}
	for k := r.Range(0, 11); k > 0; k-- {
		b.Txs = append(b.Txs, g.goodTx())
	}
	kinds := []string{"change", "remove", "swap", "dup", "dup-last", "move-coinbase", "second-coinbase"}
	var muts []MutSpec
	for _, k := range kinds {
		for rep := r.Range(1, 3); rep > 0; rep-- {
			muts = append(muts, MutSpec{Kind: k, I: r.Intn(16), J: r.Intn(16)})
		}
		if k == "dup" || k == "dup-last" || k == "second-coinbase" || k == "move-coinbase" {
			muts = append(muts, MutSpec{Kind: k, I: r.Intn(16), J: r.Intn(16), Reroot: true})
		}
	}
	return Step{Op: "blockmut", Block: b, Muts: muts}
}

// orphanFamily: a parent is withheld while several of its descendants on two
// or three sibling branches are delivered first (they wait as orphans that
// share one missing parent); then the parent arrives.
func (g *gen) orphanFamily() {
	r := g.r
	small := func(pm, parent int, hold bool) Step {
		b := &BlockSpec{Miner: r.Intn(10), Dt: r.Intn(300), PMode: pm, Parent: parent, Hold: hold}
		if r.Bool(0.5) {
			// (g.tx: Byzantine transactions too - what a block is checked for
			// must not depend on whether it arrived before its parent)
			b.Txs = append(b.Txs, g.tx())
		}
		return Step{Op: "mine", Block: b}
	}
	start := 0
	if r.Bool(0.5) {
		start = 2 // fork a little below the tip
	}
	g.p.Add(small(start, r.Range(1, 3), true)) // the withheld parent P
	g.p.Add(small(4, 0, false))                // a1 on P: orphan
	for b := r.Range(1, 3); b > 0; b-- {
		g.p.Add(small(5, 0, false)) // a sibling of the last block: also a child of P
	}
	for k := r.Range(0, 3); k > 0; k-- {
		g.p.Add(small(4, 0, false)) // the last sibling's branch grows longer than the others
	}
	g.p.Add(Step{Op: "deliver", Ref: -1}) // P (the block held last) arrives
}

// deepFork: a branch forking 1..9 blocks below the tip and grown until it is
// heavier than the active chain (C30: across the last irreversible height).
func (g *gen) deepFork() {
	r := g.r
	d := r.Range(1, 9)
	small := func(pm, parent int) Step {
		b := &BlockSpec{Miner: r.Intn(10), Dt: r.Intn(200), PMode: pm, Parent: parent}
		if r.Bool(0.3) {
			b.Txs = append(b.Txs, g.goodTx())
		}
		return Step{Op: "mine", Block: b}
	}
	g.p.Add(small(2, d))
	for k := d + r.Range(0, 2); k > 0; k-- {
		g.p.Add(small(4, 0))
	}
}

func (g *gen) step() {
	r := g.r
	if (g.prop == "C30" || g.prop == "C12" && g.p.Knob("crconly", 0) > 0) && r.Bool(0.12) {
		g.deepFork()
		return
	}
	if nb := g.p.Knob("nbtime", 0); nb > 0 && r.Bool(0.05) {
		// the chain falls silent, then a miner reverts consensus to PoW: from
		// here on the last irreversible height is frozen while the tip grows
		g.p.Add(Step{Op: "sleep", Secs: nb + int64(r.Intn(120))})
		g.p.Add(Step{Op: "mine", Block: &BlockSpec{Miner: r.Intn(10), Revert: true}})
		if g.prop == "C30" && r.Bool(0.5) {
			// silence again and a second revert block on the chain that already is
			// in PoW mode; then a two-block branch from its parent replaces it (a
			// one-block reorganization that rolls the second revert back)
			g.p.Add(Step{Op: "sleep", Secs: nb + int64(r.Intn(120))})
			g.p.Add(Step{Op: "mine", Block: &BlockSpec{Miner: r.Intn(10), Revert: true}})
			g.p.Add(Step{Op: "mine", Block: &BlockSpec{Miner: r.Intn(10), PMode: 2, Parent: 1}})
			g.p.Add(Step{Op: "mine", Block: &BlockSpec{Miner: r.Intn(10), PMode: 4}})
			for k := r.Range(0, 3); k > 0; k-- {
				g.p.Add(Step{Op: "mine", Block: &BlockSpec{Miner: r.Intn(10)}})
			}
		}
		return
	}
	if g.on["reorder"] && r.Bool(0.06) {
		g.orphanFamily()
		return
	}
	if (g.prop == "C07" && r.Bool(0.45)) || (g.prop != "C07" && g.on["badblock"] && r.Bool(0.04)) {
		st := g.mutStep()
		if nb := g.p.Knob("nbtime", 0); nb > 0 && r.Bool(0.35) {
			// the block to mutate ends in an input-less transaction (a
			// revert-to-PoW after simulated silence): duplicating IT re-spends nothing
			g.p.Add(Step{Op: "sleep", Secs: nb + int64(r.Intn(60))})
			st.Block.Revert = true
		}
		g.p.Add(st)
		return
	}
	if g.poolHeavy && r.Bool(0.6) {
		if r.Bool(0.9) {
			t := g.tx()
			if r.Bool(0.6) {
				t = g.goodTx() // fill the pool: eviction needs it to reach its limit
			}
			if r.Bool(0.15) {
				t.InKind = 6 // collide with a pooled transaction's outpoint
			}
			if r.Bool(0.5) {
				t.Fee = r.LogUniform(100, 5000000) // spread fee rates: ordering and eviction
			}
			g.p.Add(Step{Op: "submit", Tx: &t})
		} else {
			g.p.Add(Step{Op: "minepool"})
		}
		return
	}
	switch r.Pick(50, 12, 18, 8, 3, 4) {
	case 0:
		g.p.Add(Step{Op: "mine", Block: g.block()})
	case 1:
		if g.on["reorder"] || g.on["dup"] {
			g.p.Add(Step{Op: "deliver", Ref: r.Intn(1000)})
		} else {
			g.p.Add(Step{Op: "mine", Block: g.block()})
		}
	case 2:
		if g.on["mempool"] {
			t := g.tx()
			if g.on["badtx"] && r.Bool(0.2) {
				t.InKind = 6
			}
			g.p.Add(Step{Op: "submit", Tx: &t})
		} else {
			g.p.Add(Step{Op: "mine", Block: g.block()})
		}
	case 3:
		if g.on["mempool"] {
			g.p.Add(Step{Op: "minepool"})
		}
	case 4:
		if g.on["restart"] {
			g.p.Add(Step{Op: "restart"})
		}
	case 5:
		g.p.Add(Step{Op: "sleep", Secs: r.LogUniform(1, 7200)})
	}
}
