package chainsim

import "verif/sim/core"

// genStore draws a store-mode plan (C13): connect / disconnect in reorg-shaped
// orders (connect k, disconnect j <= k, connect another branch ...) with reopen
// in between, blocks mixing transfers with every side-chain / proposal kind.
func genStore(r *core.Rng, p *core.Plan, tier string) *core.Plan {
	p.Meta["mode"] = "store"
	p.SetKnob("actors", int64(r.Range(2, 5)))
	p.SetKnob("maturity", 0)
	n := r.Range(10, 40)
	if tier == "thorough" {
		n = r.Range(10, 90)
	}
	kinds := []string{"transfer", "transfer", "wd0", "wd1", "wd2", "retdep", "proposal", "review", "review0", "zeroout"}
	depth := 0
	for i := 0; i < n; i++ {
		switch {
		case depth > 0 && r.Bool(0.3):
			// reorg: take a few blocks off, the next connects build another branch
			for k := r.Range(1, depth); k > 0; k-- {
				p.Add(SStep{Op: "disconnect"})
				depth--
			}
		default:
			// (no store reopen here: this mode bypasses BlockChain, whose own
			// block-node index the restart path needs; restarts over
			// reorganised histories are exercised by the validated workload)
			st := SStep{Op: "connect"}
			for k := r.Pick(1, 3, 4, 3, 2); k > 0; k-- {
				t := STx{Kind: kinds[r.Intn(len(kinds))], From: r.Intn(6), In: r.Intn(8), Zero: r.Bool(0.1)}
				for h := r.Range(1, 3); h > 0; h-- {
					t.Hashes = append(t.Hashes, r.Intn(12))
				}
				st.Txs = append(st.Txs, t)
			}
			p.Add(st)
			depth++
		}
	}
	return p
}
