package chainsim

import (
	"bytes"
	"fmt"

	"github.com/elastos/Elastos.ELA/core/types"
	"github.com/elastos/Elastos.ELA/core/types/functions"
	"github.com/elastos/Elastos.ELA/core/types/interfaces"
	"github.com/elastos/Elastos.ELA/crypto"
)

// MutSpec is one single mutation of an otherwise valid block (C07): a
// Byzantine relay forwards the block with its transaction list altered.
type MutSpec struct {
	Kind   string `json:"kind"` // change | remove | swap | dup | dup-last | move-coinbase | second-coinbase
	I      int    `json:"i,omitempty"`
	J      int    `json:"j,omitempty"`
	Reroot bool   `json:"reroot,omitempty"` // recompute the merkle root (and re-mine) so only the structural rule is broken
}

func cloneTx(tx interfaces.Transaction) interfaces.Transaction {
	var buf bytes.Buffer
	if err := tx.Serialize(&buf); err != nil {
		panic(fmt.Sprintf("harness: serialize tx: %v", err))
	}
	r := bytes.NewReader(buf.Bytes())
	n, err := functions.GetTransactionByBytes(r)
	if err != nil {
		panic(fmt.Sprintf("harness: tx type: %v", err))
	}
	if err := n.Deserialize(r); err != nil {
		panic(fmt.Sprintf("harness: deserialize tx: %v", err))
	}
	return n
}

// mutate returns the mutated transaction list, or nil when the mutation does
// not apply to this block (or would leave it unchanged).
func mutate(txs []interfaces.Transaction, m MutSpec) []interfaces.Transaction {
	n := len(txs)
	out := append([]interfaces.Transaction(nil), txs...)
	switch m.Kind {
	case "change":
		if n < 2 {
			return nil
		}
		i := 1 + mod(m.I, n-1)
		c := cloneTx(out[i])
		outs := c.Outputs()
		if len(outs) == 0 {
			return nil
		}
		outs[mod(m.J, len(outs))].Value ^= 1 << uint(mod(m.J, 20))
		c.SetOutputs(outs)
		out[i] = c
	case "remove":
		if n < 2 {
			return nil
		}
		i := 1 + mod(m.I, n-1)
		out = append(out[:i], out[i+1:]...)
	case "swap":
		if n < 3 {
			return nil
		}
		i, j := 1+mod(m.I, n-1), 1+mod(m.J, n-1)
		if i == j {
			return nil
		}
		out[i], out[j] = out[j], out[i]
	case "dup":
		if n < 2 {
			return nil
		}
		out = append(out, out[1+mod(m.I, n-1)])
	case "dup-last":
		// the CVE-2012-2459 shape: with an odd number of leaves the duplicated
		// tail yields the same merkle root
		out = append(out, out[n-1])
	case "move-coinbase":
		if n < 2 {
			return nil
		}
		j := 1 + mod(m.J, n-1)
		out[0], out[j] = out[j], out[0]
	case "second-coinbase":
		// a different coinbase (other nonce), so that only the "one coinbase"
		// rule is broken, not also the "no duplicate transaction" rule
		cb2 := cloneTx(out[0])
		if attrs := cb2.Attributes(); len(attrs) > 0 && len(attrs[0].Data) > 0 {
			attrs[0].Data[0] ^= byte(1 + mod(m.I, 200))
			cb2.SetAttributes(attrs)
		}
		out = append(out, cb2)
	default:
		return nil
	}
	return out
}

// blockMutants builds a valid block on the node's tip, shows the node every
// requested single mutation of it first (each must be rejected and must leave
// the tip where it was), then the original (must be accepted).
func (s *sim) blockMutants(bs *BlockSpec, muts []MutSpec) {
	c := s.c
	parent := s.nodeTip()
	spec := *bs
	spec.PMode, spec.Parent, spec.Bad, spec.Hold = 0, 0, "", false
	orig := s.buildBlock(parent, &spec)
	c.Logf("mutants of #%d h=%d txs=%d valid=%v", orig.idx, orig.height, len(orig.blk.Transactions), orig.valid)
	if !orig.valid {
		// built from Byzantine transaction specs: nothing to learn from mutating it
		s.deliver(orig)
		return
	}
	c.ProbeN(fmt.Sprintf("mutated-block-with-%d-txs", len(orig.blk.Transactions)), 1)
	if len(orig.blk.Transactions)%2 == 1 {
		c.Probe("mutated-block-odd-tx-count")
	} else {
		c.Probe("mutated-block-even-tx-count")
	}
	for _, m := range muts {
		txs := mutate(orig.blk.Transactions, m)
		if txs == nil {
			continue
		}
		mb := &types.Block{Header: orig.blk.Header, Transactions: txs}
		kind := m.Kind
		if m.Reroot {
			if m.Kind != "dup" && m.Kind != "dup-last" && m.Kind != "second-coinbase" && m.Kind != "move-coinbase" {
				continue // with a recomputed root these would be different, possibly valid, blocks
			}
			root, err := crypto.ComputeRoot(txHashes(txs))
			if err != nil {
				continue
			}
			mb.Header.MerkleRoot = root
			if !s.node.svc.SolveBlock(mb, nil) {
				panic("harness: SolveBlock failed")
			}
			kind += "+reroot"
		}
		c.Fault("byzantine-relay:" + kind)
		var inMain, orphan bool
		var err error
		if p := callGuard(func() { inMain, orphan, err = s.node.chain.ProcessBlock(mb, nil) }); p != nil {
			c.Violate("C03", "process-block", "C03/ProcessBlock-panic/"+lastPanicSite, "ProcessBlock panicked in %s on a %s mutant of block #%d: %v", lastPanicSite, kind, orig.idx, p)
			s.dead = true
			return
		}
		c.Check()
		c.Logf("mutant %s i=%d j=%d -> main=%v orphan=%v err=%v", kind, m.I, m.J, inMain, orphan, err != nil)
		tipNow := *s.node.chain.BestChain.Hash
		if err == nil || tipNow != parent.hash {
			c.Violate("C07", "mutant-rejected", "C07/mutant-accepted/"+kind, "a %s mutant (i=%d j=%d) of valid block #%d (%d txs) was not rejected: main=%v orphan=%v err=%v, tip moved=%v", kind, m.I, m.J, orig.idx, len(orig.blk.Transactions), inMain, orphan, err, tipNow != parent.hash)
			s.dead = true
			return
		}
	}
	var inMain bool
	var err error
	if p := callGuard(func() { inMain, _, err = s.node.chain.ProcessBlock(orig.blk, nil) }); p != nil {
		c.Violate("C03", "process-block", "C03/ProcessBlock-panic/"+lastPanicSite, "ProcessBlock panicked in %s: %v", lastPanicSite, p)
		s.dead = true
		return
	}
	orig.sent++
	c.Logf("original #%d -> main=%v err=%v", orig.idx, inMain, err != nil)
	if err != nil || !inMain {
		// not something C07 states (it only says when a block may be accepted);
		// recorded so it is visible in the evidence
		c.Note("valid block rejected after its mutants (same header hash) were shown to the node")
		c.Probe("original-rejected-after-mutants")
	} else {
		c.Probe("original-accepted-after-mutants")
	}
}
