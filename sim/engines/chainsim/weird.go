package chainsim

import (
	"crypto/sha256"
	"encoding/binary"
	"fmt"

	"github.com/elastos/Elastos.ELA/account"
	"github.com/elastos/Elastos.ELA/common"
)

// Script actors (C03/C05): addresses whose redeem script is NOT one of the
// well-formed standard shapes. Nobody holds a key for them. Anyone can pay to
// such an address (an output only names a program hash); a Byzantine client
// then tries to spend from it with the matching code and arbitrary parameter
// bytes. Validating that spend must reject without crashing (C03), and must
// never accept (C05: no signature by any key of the script exists).

type weirdShape struct {
	name   string
	prefix byte
	code   func(pk1, pk2 []byte) []byte
}

var weirdShapes = []weirdShape{
	// m-of-n multisig tails cut off after the n marker's length byte
	{"multisig-tail-1-missing-n", 0x12, func(a, b []byte) []byte { return cat([]byte{81, 33}, a, []byte{33}, b, []byte{1}) }},
	{"multisig-tail-2-missing-n", 0x12, func(a, b []byte) []byte { return cat([]byte{81, 33}, a, []byte{33}, b, []byte{2}) }},
	{"multisig-tail-2-short-n", 0x12, func(a, b []byte) []byte { return cat([]byte{81, 33}, a, []byte{33}, b, []byte{2, 2}) }},
	{"multisig-no-checkmultisig", 0x12, func(a, b []byte) []byte { return cat([]byte{81, 33}, a, []byte{33}, b, []byte{82}) }},
	{"multisig-m-form-1", 0x12, func(a, b []byte) []byte { return cat([]byte{1, 1, 33}, a, []byte{33}, b, []byte{1, 2, 0xae}) }},
	{"multisig-m-form-2", 0x12, func(a, b []byte) []byte { return cat([]byte{2, 1, 0, 33}, a, []byte{33}, b, []byte{2, 2, 0, 0xae}) }},
	{"multisig-m-greater-n", 0x12, func(a, b []byte) []byte { return cat([]byte{83, 33}, a, []byte{33}, b, []byte{82, 0xae}) }},
	{"multisig-one-key-repeated", 0x12, func(a, b []byte) []byte { return cat([]byte{82, 33}, a, []byte{33}, a, []byte{82, 0xae}) }},
	{"multisig-ends-in-key-marker", 0x12, func(a, b []byte) []byte { return cat([]byte{81, 33}, a, []byte{33}, b, []byte{33}) }},
	// the script ends exactly after its last key push (no n, no CHECKMULTISIG)
	{"multisig-ends-after-last-key", 0x12, func(a, b []byte) []byte { return cat([]byte{81, 33}, a, []byte{33}, b) }},
	{"std-prefix-multisig-ends-after-last-key", 0x21, func(a, b []byte) []byte { return cat([]byte{82, 33}, a, []byte{33}, b) }},
	// the same malformed scripts behind a standard-prefix address
	{"std-prefix-multisig-tail-1", 0x21, func(a, b []byte) []byte { return cat([]byte{81, 33}, a, []byte{33}, b, []byte{1}) }},
	{"std-prefix-multisig-tail-2", 0x21, func(a, b []byte) []byte { return cat([]byte{81, 33}, a, []byte{33}, b, []byte{2}) }},
	{"std-garbage-key", 0x21, func(a, b []byte) []byte { return cat([]byte{33}, garbage(a), []byte{0xac}) }},
	{"std-wrong-tail-opcode", 0x21, func(a, b []byte) []byte { return cat([]byte{33}, a, []byte{0xae}) }},
	{"schnorr-shaped-garbage", 0x21, func(a, b []byte) []byte { return cat([]byte{0x51, 33}, garbage(a)) }},
	{"short-code", 0x21, func(a, b []byte) []byte { return a[:25] }},
	// cross-chain prefix: the node parses the script to find the arbiter set
	{"crosschain-tail-1", 0x4b, func(a, b []byte) []byte { return cat([]byte{81, 33}, a, []byte{33}, b, []byte{1}) }},
	{"crosschain-one-key", 0x4b, func(a, b []byte) []byte { return cat([]byte{81, 33}, a, []byte{81, 0xaf}) }},
	{"crosschain-garbage", 0x4b, func(a, b []byte) []byte { return garbage(cat(a, b)) }},
}

func cat(parts ...[]byte) []byte {
	var out []byte
	for _, p := range parts {
		out = append(out, p...)
	}
	return out
}

func garbage(b []byte) []byte {
	out := make([]byte, len(b))
	for i := range b {
		out[i] = b[i] ^ 0x5a
	}
	return out
}

// weirdParams are the parameter (signature area) variants a Byzantine client
// attaches when spending from a script actor.
func weirdParam(kind int, seed uint64) []byte {
	h := sha256.Sum256([]byte(fmt.Sprintf("param-%d-%d", kind, seed)))
	sig := append(h[:], h[:]...)
	switch mod(kind, 8) {
	case 0:
		return []byte{}
	case 1:
		return []byte{0x40}
	case 2:
		return append([]byte{0x40}, sig[:63]...)
	case 3:
		return append([]byte{0x40}, sig...)
	case 4:
		return cat([]byte{0x40}, sig, []byte{0x40}, sig)
	case 5:
		return cat([]byte{0x40}, sig, []byte{0x40}, sig, []byte{0x40}, sig)
	case 6:
		return sig[:64]
	default:
		return cat([]byte{0x41}, sig, []byte{0})
	}
}

// addScriptActors appends n key-less actors with malformed redeem scripts.
func addScriptActors(actors []*actor, seed uint64, n int, pick int) []*actor {
	base := len(actors)
	for i := 0; i < n; i++ {
		var b [16]byte
		binary.LittleEndian.PutUint64(b[:], seed^0xC03C03)
		binary.LittleEndian.PutUint64(b[8:], uint64(i))
		h := sha256.Sum256(b[:])
		shape := weirdShapes[mod(pick+i*7+int(h[0]), len(weirdShapes))]
		pk1, pk2 := actors[0].acc.PublicKey, actors[1%base].acc.PublicKey
		e1, _ := pk1.EncodePoint(true)
		e2, _ := pk2.EncodePoint(true)
		code := shape.code(e1, e2)
		ph := common.ToProgramHash(shape.prefix, code)
		addr, _ := ph.ToAddress()
		actors = append(actors, &actor{idx: base + i, weird: shape.name, acc: &account.Account{ProgramHash: *ph, RedeemScript: code, Address: addr}})
	}
	return actors
}
