// Package histsim checks C20 against the real utils.History: after any
// sequence of append/commit/rollback/seek/rollback-seek (several changes per
// height, temporary changes, capacity overflow) the visible state equals the
// snapshot of the height it was rolled back or seeked to, and seeking around
// and then committing equals never having seeked.
//
// Oracle = DESIGN Appendix A.2: one state snapshot per committed height, built
// from the *execute* semantics of the changes only. The closures handed to
// History are written the way the repository's callers write them; which
// (execute, rollback) pairs are generated is controlled by the run's profile so
// that every run adds at most one contract-edge feature to a base vocabulary
// that a correct History must handle (see NOTES.md).
package histsim

import (
	"encoding/json"
	"fmt"
	"hash/fnv"
	"sort"
	"strings"

	"github.com/elastos/Elastos.ELA/utils"

	"verif/sim/core"
)

type Engine struct{}

func (Engine) Name() string { return "histsim" }

func (Engine) Components() ([]string, []string) {
	return []string{"utils.History (NewHistory, Append, Commit, SeekTo, RollbackTo, RollbackSeekTo, Height)"},
		[]string{"the state being versioned: 4 integers + a small map with closures written like dpos/state callers (capture old value, then Append(exec, rollback))"}
}

// Profiles: what a run adds to the base vocabulary.
const (
	pBase              = 0 // strict undo pairs, one non-commuting change per variable per height, contiguous heights, temp batches, seeks, rollbacks (seek back to the tip first), rollback-seek pairs, deep seeks, capacity overflow
	pRollbackUnderSeek = 1 // base + RollbackTo while a SeekTo is outstanding (A.2: quantifier lists rollback after seek)
	pSameVarAppendCap  = 2 // base + several changes to one variable at one height, old values captured at Append time (the callers' convention); only shapes that a reverse-order undo log restores
	pSameVarExecCap    = 3 // base + several changes to one variable at one height, old values captured when the change executes (strict undo pairs)
	pGaps              = 4 // base + increasing but non-contiguous heights
	pRecommit          = 5 // base + a second Append/Commit round at the current height (Arbiters.History does this)
	pAppendUnderSeek   = 6 // base + callers' capture-at-Append closures appended while a seek is outstanding
	pAppendAfterTemp   = 7 // base + callers' capture-at-Append closures appended while temporary changes are visible
	// base + RollbackTo under an outstanding SeekTo followed at once by a Commit,
	// all changes absolute (set / map put / map delete): the transient state
	// after the rollback is the recorded rollback-under-seek finding and is not
	// looked at; the state after the commit must equal the model (the commit
	// re-executes the seeked-away heights that survived the rollback). The
	// History is replaced afterwards (its undo records are not to be trusted).
	pRollbackUnderSeekCommit = 8
	nProfiles                = 9
)

var profileName = [...]string{"base", "rollback-under-seek", "same-var-append-capture", "same-var-exec-capture", "height-gaps", "recommit-height", "append-capture-under-seek", "append-capture-after-temp", "rollback-under-seek-then-commit"}

// Chg is one change: (execute, rollback) pair.
type Chg struct {
	Kind string `json:"kind"` // set | add | subset | mput | mdel
	Var  int    `json:"var"`  // integer variable 0..3 or map key 0..4
	Val  int64  `json:"val,omitempty"`
}

type Step struct {
	Op  string `json:"op"` // commit | recommit | temp | seek | rollback | rseek | deepseek
	Chg []Chg  `json:"chg,omitempty"`
	G   int    `json:"g,omitempty"`   // height gap - 1 (gaps profile)
	D   int    `json:"d,omitempty"`   // rank distance from the tip
	Off int    `json:"off,omitempty"` // offset above the target height (gaps profile: a height between two committed ones)
}

func (Engine) Generate(r *core.Rng, property, tier string) *core.Plan {
	p := &core.Plan{Knobs: map[string]int64{}}
	prof := r.Pick(30, 8, 12, 10, 8, 8, 8, 8, 8)
	p.SetKnob("profile", int64(prof))
	p.SetKnob("cap", int64(r.Range(2, 8)))
	p.SetKnob("start", int64(1+r.Intn(3))*int64(r.Pick(1, 1)*999+1)) // first height 1..3 or 1000..3000
	n := r.Range(6, 60)
	if tier == "thorough" {
		n = r.Range(6, 150)
	}
	chg := func() Chg {
		c := Chg{Var: r.Intn(4), Val: int64(1 + r.Intn(9))}
		switch r.Pick(5, 6, 3, 4, 2) {
		case 0:
			c.Kind = "set"
			c.Val = int64(r.Intn(100))
		case 1:
			c.Kind = "add"
		case 2:
			c.Kind = "subset"
		case 3:
			c.Kind = "mput"
			c.Var = r.Intn(5)
			c.Val = int64(r.Intn(100))
		case 4:
			c.Kind = "mdel"
			c.Var = r.Intn(5)
		}
		// same-variable pressure: few variables
		if r.Bool(0.5) && c.Kind != "mput" && c.Kind != "mdel" {
			c.Var = r.Intn(2)
		}
		return c
	}
	chgs := func(lo, hi int) []Chg {
		k := r.Range(lo, hi)
		out := make([]Chg, 0, k)
		for i := 0; i < k; i++ {
			out = append(out, chg())
		}
		return out
	}
	for i := 0; i < n; i++ {
		switch r.Pick(40, 6, 14, 10, 6, 3, 3, 4) {
		case 7:
			p.Add(Step{Op: "edgeseek", D: r.Intn(2)})
		case 0:
			s := Step{Op: "commit", Chg: chgs(0, 3)}
			if r.Bool(0.5) {
				s.G = r.Intn(4)
			}
			p.Add(s)
		case 1:
			p.Add(Step{Op: "temp", Chg: chgs(1, 2)})
		case 2:
			p.Add(Step{Op: "seek", D: r.Intn(9), Off: r.Intn(4)})
		case 3:
			p.Add(Step{Op: "rollback", D: r.Intn(5), Off: r.Intn(4)})
		case 4:
			p.Add(Step{Op: "rseek", D: r.Intn(5)})
		case 5:
			p.Add(Step{Op: "deepseek", D: r.Intn(6)})
		case 6:
			p.Add(Step{Op: "recommit", Chg: chgs(1, 2)})
		}
	}
	return p
}

// ---- the state under History's care -----------------------------------------

type state struct {
	x [4]int64
	m map[int]int64
}

func (s *state) clone() *state {
	c := &state{x: s.x, m: make(map[int]int64, len(s.m))}
	for k, v := range s.m {
		c.m[k] = v
	}
	return c
}

func (s *state) String() string {
	ks := make([]int, 0, len(s.m))
	for k := range s.m {
		ks = append(ks, k)
	}
	sort.Ints(ks)
	out := fmt.Sprintf("x=%v m={", s.x)
	for i, k := range ks {
		if i > 0 {
			out += " "
		}
		out += fmt.Sprintf("%d:%d", k, s.m[k])
	}
	return out + "}"
}

func (s *state) equal(o *state) bool { return s.String() == o.String() }

// apply is the execute semantics of a change: the only thing the model knows.
func (s *state) apply(c Chg) {
	switch c.Kind {
	case "set":
		s.x[c.Var] = c.Val
	case "add":
		s.x[c.Var] += c.Val
	case "subset":
		s.x[c.Var] -= c.Val
	case "mput":
		s.m[c.Var] = c.Val
	case "mdel":
		delete(s.m, c.Var)
	}
}

// closures builds the (execute, rollback) pair on the real state. atAppend:
// old values are read now (the callers' `ori := s.x; history.Append(...)`
// convention); otherwise when the change executes.
func closures(st *state, c Chg, atAppend bool) (func(), func()) {
	switch c.Kind {
	case "add":
		return func() { st.x[c.Var] += c.Val }, func() { st.x[c.Var] -= c.Val }
	case "set", "subset":
		old := st.x[c.Var]
		return func() {
				if !atAppend {
					old = st.x[c.Var]
				}
				if c.Kind == "set" {
					st.x[c.Var] = c.Val
				} else {
					st.x[c.Var] -= c.Val
				}
			}, func() {
				st.x[c.Var] = old
			}
	case "mput", "mdel":
		old, had := st.m[c.Var]
		return func() {
				if !atAppend {
					old, had = st.m[c.Var]
				}
				if c.Kind == "mput" {
					st.m[c.Var] = c.Val
				} else {
					delete(st.m, c.Var)
				}
			}, func() {
				if had {
					st.m[c.Var] = old
				} else {
					delete(st.m, c.Var)
				}
			}
	}
	panic("bad change kind " + c.Kind)
}

func varID(c Chg) int {
	if c.Kind == "mput" || c.Kind == "mdel" {
		return 4 + c.Var
	}
	return c.Var
}

// ---- run --------------------------------------------------------------------

type run struct {
	c     *core.Ctx
	prof  int
	cap   int
	start uint32
	h     *utils.History
	st    *state            // real state mutated by History's closures
	snaps map[uint32]*state // model: snapshot per committed height
	base  *state            // model: state before the first commit
	hs    []uint32          // committed heights still known, ascending
	top   uint32            // model height (0 before the first commit)
	seek  uint32            // model: height the state is seeked to (== top when none outstanding)
	temp  []Chg             // visible temporary changes
	ret   int               // heights History can be asked to keep: +1 per new height up to the capacity, minus what a rollback removed
	// afterRollback: a RollbackTo removed heights and no Commit happened since
	afterRollback bool
	pendingCommit bool   // rollback-under-seek-then-commit: a rollback under a seek happened, the next operation is a commit
	opctx         string // operation context of the History call in flight (signature part)
	taint         string // base profile: first contract-edge context exercised on this History instance
	stop          bool
	// changes recorded per height still known (for the same-variable rule on a recommit)
	changesAt map[uint32][]Chg
}

func (e Engine) Execute(c *core.Ctx) {
	p := c.Plan
	steps := make([]Step, len(p.Steps))
	for i, raw := range p.Steps {
		if err := json.Unmarshal(raw, &steps[i]); err != nil {
			panic(fmt.Sprintf("bad step %d: %v", i, err))
		}
	}
	r := &run{c: c, prof: int(p.Knob("profile", 0)), cap: int(p.Knob("cap", 4))}
	if r.prof < 0 || r.prof >= nProfiles {
		r.prof = 0
	}
	if r.cap < 2 {
		r.cap = 2
	}
	sample := p.Steps
	if len(sample) > 12 {
		sample = sample[:12]
	}
	c.SetSample(map[string]interface{}{"knobs": p.Knobs, "profile": profileName[r.prof], "steps": sample})
	r.start = uint32(p.Knob("start", 1))
	if r.start == 0 {
		r.start = 1
	}
	c.Logf("profile=%s cap=%d start=%d", profileName[r.prof], r.cap, r.start)
	r.reset()
	for i := range steps {
		c.CurStep = i
		func() {
			defer func() {
				if x := recover(); x != nil {
					c.Check()
					r.violate(r.opctx, "panic", "History panicked on a sequence inside its contract (%s): %v", r.describe(), x)
				}
			}()
			r.opctx = steps[i].Op
			r.step(&steps[i])
		}()
		if r.stop {
			// real state and model have diverged: continue the remaining steps
			// on a fresh History so that one defect does not end the exploration
			if c.NumViolations() >= c.MaxViols {
				return
			}
			c.Logf("restart after violation")
			r.reset()
		}
	}
}

func (r *run) reset() {
	r.h = utils.NewHistory(r.cap)
	r.st = &state{m: map[int]int64{}}
	r.base = r.st.clone()
	r.snaps = map[uint32]*state{}
	r.changesAt = map[uint32][]Chg{}
	r.hs, r.top, r.seek, r.temp, r.ret, r.afterRollback, r.stop, r.taint = nil, 0, 0, nil, 0, false, false, ""
	r.pendingCommit = false
}

func (r *run) describe() string {
	return fmt.Sprintf("tip %d, seeked to %d, known heights %v, capacity %d", r.top, r.seek, r.hs, r.cap)
}

// violate: the signature names the root-cause class, not the manifestation.
// In a feature profile that is the feature itself (the operation at which the
// damage becomes visible - rollback, backward seek, rollback-seek, a later
// commit - varies with the plan, the cause does not). In the base profile it
// is the operation context, with every "first seek directly after a
// RollbackTo" folded into one class. Panics keep a suffix of their own.
func (r *run) violate(opctx, what, format string, a ...interface{}) {
	class := opctx
	if i := strings.Index(opctx, "-directly-after-rollback"); i >= 0 {
		class = "seek-directly-after-rollback"
	}
	if r.taint != "" {
		// an earlier operation of this History already was in one of the
		// contexts below; its damage can stay invisible at first (closures that
		// capture at execute time re-capture when re-executed), so whatever
		// surfaces later on the same History belongs to that class
		class = r.taint
	}
	sig := "C20/base/" + class
	if r.prof != pBase {
		sig = "C20/" + profileName[r.prof]
	}
	if what == "panic" {
		sig += "/panic"
	}
	r.c.Violate("C20", "snapshot-per-height", sig, "[%s at %s] "+format, append([]interface{}{what, opctx}, a...)...)
	r.stop = true
}

// snapAt is the model state at the largest committed height <= h.
func (r *run) snapAt(h uint32) *state {
	var best *state = r.base
	for _, x := range r.hs {
		if x <= h {
			best = r.snaps[x]
		}
	}
	return best
}

func (r *run) visible() *state {
	v := r.snapAt(r.seek)
	if len(r.temp) > 0 {
		v = v.clone()
		for _, c := range r.temp {
			v.apply(c)
		}
	}
	return v
}

func (r *run) check() {
	c := r.c
	c.Check()
	want := r.visible()
	if !r.st.equal(want) {
		r.violate(r.opctx, "state-mismatch", "after %s: visible state %s, snapshot of height %d says %s (%s)", r.opctx, r.st, r.seek, want, r.describe())
		return
	}
	c.Check()
	if r.h.Height() != r.top {
		r.violate(r.opctx, "height-mismatch", "after %s: Height()=%d, model %d", r.opctx, r.h.Height(), r.top)
		return
	}
	f := fnv.New64a()
	fmt.Fprintf(f, "%s|%d|%d", r.st, len(r.hs), r.top-r.seek)
	c.State(f.Sum64())
}

// retained is the number of heights a seek/rollback may go back (exclusive
// bound), derived from the number of committed heights still known and the
// capacity, minus one of slack (A.2) - not from History's eviction arithmetic.
func (r *run) retained() int {
	if r.ret-1 > 0 {
		return r.ret - 1
	}
	return 0
}

// filter enforces the profile's rule about changes to one variable at one
// height. It is applied at execution time so that the rule still holds after
// the shrinker deleted steps. existing = changes already recorded at the height.
func (r *run) filter(existing, in []Chg) []Chg {
	var out []Chg
	all := append([]Chg(nil), existing...)
	for _, c := range in {
		ok := true
		var same []Chg
		for _, e := range all {
			if varID(e) == varID(c) {
				same = append(same, e)
			}
		}
		if len(same) > 0 {
			switch r.prof {
			case pSameVarExecCap:
				// strict undo pairs compose in any number
			case pSameVarAppendCap:
				// capture-at-Append closures all restore the pre-height value: a
				// reverse-order undo ends with the first change's rollback, so the
				// first change on the variable must be a restoring one, or all
				// must be pure deltas.
				if same[0].Kind == "add" && c.Kind != "add" {
					ok = false
				}
			default:
				// base: only commuting deltas may share a variable
				if c.Kind != "add" || !allAdd(same) {
					ok = false
				}
			}
		}
		if !ok {
			r.c.Probe("change-dropped-by-profile-rule")
			continue
		}
		if len(same) > 0 {
			if c.Kind == "add" && allAdd(same) {
				r.c.Probe("same-var-commuting")
			} else {
				r.c.Fault("same-var-non-commuting")
			}
		}
		out = append(out, c)
		all = append(all, c)
	}
	return out
}

func allAdd(cs []Chg) bool {
	for _, c := range cs {
		if c.Kind != "add" {
			return false
		}
	}
	return true
}

func (r *run) captureAtAppend() bool {
	switch r.prof {
	case pSameVarAppendCap, pAppendUnderSeek, pAppendAfterTemp:
		return true
	}
	return false
}

// seekToTip is what a careful caller does before touching History again.
func (r *run) seekToTip(why string) bool {
	if r.seek == r.top {
		return true
	}
	saved := r.opctx
	r.opctx = "seek-forward-to-tip"
	err := r.h.SeekTo(r.top)
	r.c.Check()
	if err != nil {
		r.violate(r.opctx, "error-within-capacity", "SeekTo(tip %d) before %s failed: %v", r.top, why, err)
		return false
	}
	r.seek = r.top
	r.c.Fault("seek-forward")
	r.c.Logf("seek-to-tip %d", r.top)
	r.check()
	r.opctx = saved
	return !r.stop
}

// target picks the height at rank distance d below the tip (gaps profile: any
// height number from there up to just below the next committed one).
func (r *run) target(d, off int) uint32 {
	t := r.hs[len(r.hs)-1-d]
	if r.prof == pGaps && d > 0 {
		next := r.hs[len(r.hs)-d]
		if gap := next - t; gap > 1 {
			t += uint32(off) % gap
		}
	}
	return t
}

func (r *run) step(s *Step) {
	c := r.c
	if r.pendingCommit && s.Op != "commit" {
		c.Logf("%s skipped (a commit follows the rollback under a seek)", s.Op)
		return
	}
	switch s.Op {
	case "commit", "recommit":
		height := r.top + 1
		if r.top == 0 {
			height = r.start
		}
		re := false
		if s.Op == "recommit" {
			if r.prof != pRecommit || r.top == 0 {
				c.Logf("recommit skipped")
				return
			}
			height = r.top
			re = true
		} else if r.prof == pGaps && r.top != 0 {
			height += uint32(s.G)
			if s.G > 0 {
				c.Probe("height-gap")
			}
		}
		underSeek := r.seek != r.top
		if underSeek && r.prof != pAppendUnderSeek && len(s.Chg) > 0 && r.captureAtAppend() {
			if !r.seekToTip("append") {
				return
			}
			underSeek = false
		}
		var existing []Chg
		if re {
			existing = r.changesAt[height]
		}
		wanted := s.Chg
		if r.prof == pRollbackUnderSeekCommit {
			// absolute changes only: relative ones (add / subtract) are not
			// idempotent under the double undo of the recorded finding
			wanted = make([]Chg, len(s.Chg))
			for i, ch := range s.Chg {
				if ch.Kind == "add" || ch.Kind == "subset" {
					ch.Kind = "set"
				}
				wanted[i] = ch
			}
		}
		chgs := r.filter(existing, wanted)
		hadTemp := len(r.temp) > 0
		if hadTemp && len(chgs) > 0 && r.captureAtAppend() && r.prof != pAppendAfterTemp {
			// a careful caller does not read state under visible temporary
			// changes; only the dedicated profile does
			chgs = nil
		}
		if hadTemp && len(chgs) == 0 {
			// Commit with only temporary changes pending re-executes them; the
			// contract (A.2) has one Append(0..)+Commit per batch, so no empty
			// height is committed on top of visible temporary changes.
			c.Logf("%s skipped (temporary changes visible, nothing to append)", s.Op)
			return
		}
		r.opctx = s.Op
		if underSeek {
			r.opctx += "-after-seek"
			c.Fault("commit-after-seek")
			if len(chgs) > 0 && r.captureAtAppend() {
				c.Fault("append-captured-under-outstanding-seek")
			}
		}
		if hadTemp && r.captureAtAppend() {
			c.Fault("append-captured-under-visible-temp")
		}
		for _, ch := range chgs {
			ex, rb := closures(r.st, ch, r.captureAtAppend())
			r.h.Append(height, ex, rb)
		}
		// temporary changes leave no trace from the first real Append on
		r.temp = nil
		r.h.Commit(height)
		// model
		var snap *state
		if re {
			snap = r.snaps[height].clone()
		} else {
			snap = r.snapAt(r.top).clone()
		}
		for _, ch := range chgs {
			snap.apply(ch)
		}
		r.snaps[height] = snap
		if !re {
			r.hs = append(r.hs, height)
			if r.ret+1 > r.cap {
				c.Fault("capacity-overflow")
			} else {
				r.ret++
			}
			r.changesAt[height] = nil
		} else {
			c.Fault("recommit-same-height")
		}
		r.changesAt[height] = append(r.changesAt[height], chgs...)
		r.top, r.seek = height, height
		r.afterRollback = false
		c.Logf("%s %d n=%d", r.opctx, height, len(chgs))
		r.check()
		if r.pendingCommit {
			r.pendingCommit = false
			c.Probe("commit-after-rollback-under-seek-checked")
			if !r.stop {
				c.Logf("fresh History after rollback-under-seek + commit")
				r.reset()
			}
		}
	case "temp":
		if r.top == 0 || len(r.temp) > 0 || r.seek != r.top {
			c.Logf("temp skipped")
			return
		}
		// one variable per temporary change
		var uniq []Chg
		seen := map[int]bool{}
		for _, ch := range s.Chg {
			if !seen[varID(ch)] {
				seen[varID(ch)] = true
				uniq = append(uniq, ch)
			}
		}
		if len(uniq) == 0 {
			return
		}
		for _, ch := range uniq {
			ex, rb := closures(r.st, ch, r.captureAtAppend())
			r.h.Append(0, ex, rb)
		}
		r.h.Commit(r.top)
		r.temp = uniq
		c.Fault("temporary-change")
		c.Logf("temp n=%d", len(uniq))
		r.check()
	case "seek":
		if r.top == 0 || len(r.temp) > 0 {
			c.Logf("seek skipped")
			return
		}
		ret := r.retained()
		if ret == 0 {
			c.Logf("seek skipped (nothing retained)")
			return
		}
		d := s.D % ret // 0 .. ret-1: strictly less than the retained heights
		target := r.target(d, s.Off)
		if r.prof != pBase {
			// feature profiles keep to operation contexts the base profile is
			// clean on, so that their signatures name the feature (see NOTES.md):
			// no seek directly after a RollbackTo, and from a seeked position only
			// back to the tip (then on from there)
			if r.afterRollback {
				c.Logf("seek skipped (directly after rollback; base profile only)")
				return
			}
			if r.seek != r.top && target != r.top && target != r.seek {
				if !r.seekToTip("seek") {
					return
				}
			}
		}
		switch {
		case target == r.seek:
			r.opctx = "seek-same-height"
		case r.seek == r.top:
			r.opctx = "seek-backward-from-tip"
		case target == r.top:
			r.opctx = "seek-forward-to-tip"
		default:
			r.opctx = "seek-between-non-tip-heights"
			c.Fault("seek-between-non-tip-heights")
		}
		if r.afterRollback {
			r.opctx += "-directly-after-rollback"
			c.Fault("seek-directly-after-rollback")
		}
		if r.taint == "" {
			if r.afterRollback {
				r.taint = "seek-directly-after-rollback"
			} else if r.opctx == "seek-between-non-tip-heights" {
				r.taint = r.opctx
			}
		}
		err := r.h.SeekTo(target)
		c.Check()
		if err != nil {
			r.violate(r.opctx, "error-within-capacity", "SeekTo(%d) returned %v (%s)", target, err, r.describe())
			return
		}
		if target < r.seek {
			c.Fault("seek-backward")
		} else if target > r.seek {
			c.Fault("seek-forward")
		}
		r.seek = target
		c.Logf("%s %d (d=%d)", r.opctx, target, d)
		r.check()
	case "edgeseek":
		// the deepest seek History itself accepts: every retained height (D=0)
		// or all but the oldest (D=1) undone. Base profile, contiguous heights.
		if r.prof != pBase || r.top == 0 || len(r.temp) > 0 || r.afterRollback {
			return
		}
		depth := r.ret - s.D%2
		if depth <= 0 || depth > len(r.hs) || uint32(depth) > r.top {
			return
		}
		if !r.seekToTip("edgeseek") {
			return
		}
		target := r.top - uint32(depth)
		if depth < len(r.hs) && r.hs[len(r.hs)-1-depth] != target {
			return // heights not contiguous here
		}
		r.opctx = "seek-backward-to-the-capacity-edge"
		err := r.h.SeekTo(target)
		c.Check()
		if err != nil {
			// History refuses it: then it is outside what it calls its capacity
			c.Logf("edgeseek %d refused", target)
			c.Probe("edge-seek-refused")
			return
		}
		c.Fault("seek-backward")
		c.Probe("seek-to-the-capacity-edge")
		r.seek = target
		c.Logf("%s %d (depth=%d)", r.opctx, target, depth)
		r.check()
	case "deepseek":
		if r.prof == pGaps || r.top == 0 || len(r.temp) > 0 {
			return
		}
		if r.prof != pBase && r.afterRollback {
			return
		}
		depth := uint32(r.cap + 1 + s.D)
		if depth >= r.top || int(depth) > len(r.hs) {
			return
		}
		target := r.top - depth
		before := r.st.clone()
		r.opctx = "seek-beyond-capacity"
		if r.afterRollback {
			r.opctx += "-directly-after-rollback"
			if r.taint == "" {
				r.taint = "seek-directly-after-rollback"
			}
		}
		err := r.h.SeekTo(target)
		c.Check()
		c.Probe("seek-beyond-capacity")
		if err == nil {
			r.violate(r.opctx, "no-error", "SeekTo(%d) returned nil (%s)", target, r.describe())
			return
		}
		c.Check()
		if !r.st.equal(before) {
			r.violate(r.opctx, "failed-seek-changed-state", "failed SeekTo(%d) changed the state from %s to %s", target, before, r.st)
			return
		}
		c.Logf("deepseek %d err", target)
		r.check()
	case "rollback", "rseek":
		if r.top == 0 {
			return
		}
		ret := r.retained()
		if ret == 0 {
			c.Logf("%s skipped (nothing retained)", s.Op)
			return
		}
		d := s.D % ret
		if d == 0 && len(r.temp) > 0 {
			// RollbackTo(tip) under visible temporary changes: contract silent
			c.Logf("%s skipped", s.Op)
			return
		}
		target := r.target(d, s.Off)
		if s.Op == "rseek" {
			if len(r.temp) > 0 {
				c.Logf("rseek skipped")
				return
			}
			if r.afterRollback && r.prof != pBase {
				c.Logf("rseek skipped (directly after rollback; base profile only)")
				return
			}
			if r.seek != r.top && target != r.seek {
				// RollbackSeekTo is used directly after a backward SeekTo(h) from the tip
				if !r.seekToTip("rollback-seek") {
					return
				}
			}
			r.opctx = "seek+rollback-seek"
			if r.afterRollback {
				r.opctx += "-directly-after-rollback"
				c.Fault("seek-directly-after-rollback")
				if r.taint == "" {
					r.taint = "seek-directly-after-rollback"
				}
			}
			if err := r.h.SeekTo(target); err != nil {
				c.Check()
				r.violate(r.opctx, "error-within-capacity", "SeekTo(%d) returned %v (%s)", target, err, r.describe())
				return
			}
			r.h.RollbackSeekTo(target)
			c.Fault("rollback-seek")
			r.afterRollback = false
		} else {
			r.opctx = "rollback"
			if r.seek != r.top {
				if r.prof == pRollbackUnderSeek || r.prof == pRollbackUnderSeekCommit {
					c.Fault("rollback-under-outstanding-seek")
					r.opctx = "rollback-under-outstanding-seek"
					r.pendingCommit = r.prof == pRollbackUnderSeekCommit
				} else if !r.seekToTip("rollback") {
					return
				}
			}
			err := r.h.RollbackTo(target)
			c.Check()
			if err != nil {
				r.violate(r.opctx, "error-within-capacity", "RollbackTo(%d) returned %v (%s)", target, err, r.describe())
				return
			}
			if target < r.top {
				c.Fault("rollback")
				r.afterRollback = true
			}
		}
		if target < r.top {
			// later heights are forgotten; temporary changes leave no trace
			var keep []uint32
			for _, x := range r.hs {
				if x <= target {
					keep = append(keep, x)
				} else {
					delete(r.snaps, x)
					delete(r.changesAt, x)
				}
			}
			if r.prof == pGaps && (len(keep) == 0 || keep[len(keep)-1] != target) {
				// the target height itself was never committed: it now names the
				// state of the committed height below it
				r.snaps[target] = r.snapAt(target).clone()
				keep = append(keep, target)
				c.Probe("rollback-to-uncommitted-height")
			}
			r.hs = keep
			r.top = target
			r.temp = nil
			r.ret -= d
		}
		r.seek = r.top
		c.Logf("%s %d (d=%d)", r.opctx, target, d)
		if r.pendingCommit {
			// the transient state is the recorded finding; judged after the commit
			return
		}
		r.check()
	default:
		panic("unknown op " + s.Op)
	}
}
