package dbsim

import (
	"bytes"
	"encoding/json"
	"fmt"
	"os"
	"path/filepath"
	"sort"
	"runtime/debug"
	"strings"
	"time"

	"github.com/btcsuite/btcd/wire"
	"github.com/elastos/Elastos.ELA/database"
	"github.com/elastos/Elastos.ELA/database/ffldb"

	"verif/sim/core"
)

// TxOp is one operation inside a database transaction.
type TxOp struct {
	Op   string `json:"op"`
	Path []int  `json:"p,omitempty"` // nested bucket path below the user root
	K    int    `json:"k,omitempty"` // key index / bucket index / block id
	N    int    `json:"n,omitempty"` // value length / region length
	Off  int    `json:"off,omitempty"`
	V    int    `json:"v,omitempty"` // value id (unique per write)
}

// Mid describes reader activity scheduled inside a writer's commit, at one of
// the named points (where ffldb holds no locks).
type Mid struct {
	Point string `json:"point"`
	R     int    `json:"r"`    // reader slot; -1: open a fresh reader, scan, close
}

// Step is one simulator step.
type Step struct {
	Op     string `json:"op"` // update | view | sleep | reopen | ropen | rread | rclose | diskfull
	Ops    []TxOp `json:"ops,omitempty"`
	End    int    `json:"end,omitempty"` // update: 0 commit, 1 fn returns error, 2 fn panics, 3 manual commit, 4 manual rollback
	Secs   int64  `json:"secs,omitempty"`
	R      int    `json:"r,omitempty"`
	On     bool   `json:"on,omitempty"`
	Fault  *Fault `json:"fault,omitempty"`  // I/O error during this step
	Crash  *Fault `json:"crash,omitempty"`  // process stop during this step
	Crash2 *Fault `json:"crash2,omitempty"` // second stop, during the recovery that follows
	Mid    *Mid   `json:"mid,omitempty"`
}

type Engine struct{}

func (Engine) Name() string { return "dbsim" }

func (Engine) Components() ([]string, []string) {
	return []string{"database/ffldb (db, transaction, bucket, cursor, dbCache, blockStore, reconcileDB)", "database/internal/treap", "github.com/syndtr/goleveldb (real files)", "flat block files (real files behind the interposer)"},
		[]string{"process stop = freeze interposer + quiesce + directory snapshot reopened by the real openDB", "clock = testing/synctest fake clock", "goleveldb transaction commit trusted atomic"}
}

type reader struct {
	tx  database.Tx
	ver *version
	alt *version // a reader opened inside a commit may see either side
}

type run struct {
	c       *core.Ctx
	seed    uint64
	dir     string
	base    string
	db      database.DB
	disk    *simDisk
	cur     *version   // last committed model version
	vers    []*version // all committed versions
	floor   int        // index in vers of last version observed fully flushed
	readers map[int]*reader
	allBlk  map[int]bool // every block id ever attempted
	blkMax  int
	gen     int
	prop    string
	dead    bool
	record  bool
	evCount []int
	evKinds [][]string
	recEvents int
	stepEvents int
	stepKinds  []string
}

const netMagic = wire.BitcoinNet(0x0a0b0c0d)

// sizeOf: block size is a pure function of (seed, id). A record (block + 12
// bytes of framing) never exceeds the maximum file size: the node's own limits
// guarantee that (8 MB blocks, 64 MiB files), and ffldb is not specified for
// records that cannot fit a file.
func (r *run) sizeOf(id int) int {
	h := core.NewRng(r.seed ^ uint64(id)*0x9E3779B97F4A7C15)
	max := r.blkMax
	if lim := int(r.c.Plan.Knob("maxfile", 4096)) - 12; max > lim {
		max = lim
	}
	switch h.Intn(10) {
	case 0:
		return 1 + h.Intn(16)
	case 1:
		if max >= 84 {
			return 84 // exactly a header
		}
		return max
	case 2:
		return max // exactly fills a file
	default:
		return int(h.LogUniform(1, int64(max)))
	}
}

func (e Engine) Execute(c *core.Ctx) {
	core.Bubble(c.T, func() { execute(c) })
}

func tmpBase() string {
	if d := os.Getenv("SIM_TMP"); d != "" {
		return d
	}
	return os.TempDir()
}

func newRun(c *core.Ctx, tag string) *run {
	p := c.Plan
	r := &run{c: c, seed: p.Seed, readers: map[int]*reader{}, allBlk: map[int]bool{}, prop: p.Property}
	r.blkMax = int(p.Knob("blkmax", 2048))
	r.base = filepath.Join(tmpBase(), fmt.Sprintf("dbsim-%d-%s", os.Getpid(), tag))
	os.RemoveAll(r.base)
	os.MkdirAll(r.base, 0755)
	r.dir = filepath.Join(r.base, "g0")
	r.disk = &simDisk{dir: r.dir, inBubble: true, snapDir: filepath.Join(r.base, "g1")}
	r.installHooks()
	return r
}

func (r *run) installHooks() {
	p := r.c.Plan
	h := &ffldb.VerifHooks{
		WrapFile:         r.disk.wrap,
		DeleteFile:       r.disk.del,
		Point:            r.disk.point,
		MaxBlockFileSize: uint32(p.Knob("maxfile", 4096)),
		CacheMaxSize:     uint64(p.Knob("cachemax", 1<<20)),
		FlushInterval:    time.Duration(p.Knob("flushms", 300000)) * time.Millisecond,
		FlushIntervalSet: true,
		LdbWriteBuffer:   int(p.Knob("ldbwbuf", 64<<10)),
		LdbBlockCache:    int(p.Knob("ldbcache", 64<<10)),
	}
	ffldb.Verif = h
}

func (r *run) cleanup() {
	ffldb.Verif = nil
	os.RemoveAll(r.base)
}

// guarded runs f and reports whether the simulated process stopped inside it.
func guarded(f func()) (crashed bool, other interface{}) {
	defer func() {
		if x := recover(); x != nil {
			if _, ok := x.(crashSentinel); ok {
				crashed = true
				return
			}
			// keep the stack of where it arose: the caller re-raises it, and a
			// panic inside the database code is judged by where it came from
			other = fmt.Sprintf("%v\n%s", x, panicStack())
		}
	}()
	f()
	return
}

func panicStack() string {
	s := string(debug.Stack())
	if i := strings.Index(s, "panic("); i >= 0 {
		s = s[i:]
	}
	if len(s) > 3000 {
		s = s[:3000]
	}
	return s
}

func execute(c *core.Ctx) {
	p := c.Plan
	steps := make([]Step, len(p.Steps))
	for i, raw := range p.Steps {
		if err := json.Unmarshal(raw, &steps[i]); err != nil {
			panic(fmt.Sprintf("bad step %d: %v", i, err))
		}
	}
	c.SetSample(map[string]interface{}{"knobs": p.Knobs, "steps": sampleSteps(p.Steps, 12)})
	if p.Knob("enumerate", 0) == 1 {
		enumerateCrashes(c, steps)
		return
	}
	r := newRun(c, "x")
	defer r.cleanup()
	r.runSteps(steps, 0)
	r.finish()
}

func sampleSteps(s []json.RawMessage, n int) []json.RawMessage {
	if len(s) > n {
		return s[:n]
	}
	return s
}

func (r *run) open(create bool) error {
	var db database.DB
	var err error
	if create {
		db, err = database.Create("ffldb", r.dir, netMagic)
	} else {
		db, err = database.Open("ffldb", r.dir, netMagic)
	}
	if err != nil {
		return err
	}
	r.db = db
	return nil
}

func (r *run) userRoot(tx database.Tx, create bool) database.Bucket {
	if create {
		b, err := tx.Metadata().CreateBucketIfNotExists([]byte("u"))
		if err != nil {
			panic(fmt.Sprintf("harness: cannot create user root: %v", err))
		}
		return b
	}
	return tx.Metadata().Bucket([]byte("u"))
}

// runSteps executes steps[from:]; returns false when the run must stop.
func (r *run) runSteps(steps []Step, from int) {
	c := r.c
	if r.db == nil {
		if err := r.open(true); err != nil {
			panic(fmt.Sprintf("harness: create failed: %v", err))
		}
		r.cur = &version{n: 0, root: newMBucket(), blocks: map[int]bool{}}
		r.cur.freeze()
		r.vers = []*version{r.cur}
		// the user root bucket is created by the first commit that needs it;
		// make it exist from the start so every version has it.
		r.disk.beginStep(nil, nil)
		if err := r.db.Update(func(tx database.Tx) error { r.userRoot(tx, true); return nil }); err != nil {
			panic(fmt.Sprintf("harness: initial commit failed: %v", err))
		}
		// make the setup durable so every version, also a recovered one, has it
		if err := r.db.Close(); err != nil {
			panic(fmt.Sprintf("harness: setup close failed: %v", err))
		}
		if err := r.open(false); err != nil {
			panic(fmt.Sprintf("harness: setup reopen failed: %v", err))
		}
		r.noteFlushed()
	}
	for i := from; i < len(steps); i++ {
		if r.dead || c.Violated() {
			return
		}
		c.CurStep = i
		st := &steps[i]
		r.stepEvents, r.stepKinds = 0, nil
		r.step(st)
		if r.record {
			r.evCount = append(r.evCount, r.stepEvents)
			r.evKinds = append(r.evKinds, r.stepKinds)
		}
		time.Sleep(time.Millisecond)
		c.AddSimSeconds(0.001)
	}
}

func (r *run) finish() {
	if r.dead || r.db == nil {
		return
	}
	r.closeReaders()
	r.disk.beginStep(nil, nil)
	if !r.c.Violated() {
		r.verifyAgainst("final", []*version{r.cur})
	}
	if err := r.db.Close(); err != nil {
		r.c.Violate(r.prop16(), "close", "C16/close-error", "Close returned %v", err)
	}
	r.db = nil
}

func (r *run) prop16() string {
	if r.prop == "C18" {
		return "C18"
	}
	if r.prop == "C17" {
		return "C17"
	}
	return "C16"
}

func (r *run) closeReaders() {
	var ids []int
	for id := range r.readers {
		ids = append(ids, id)
	}
	sort.Ints(ids)
	for _, id := range ids {
		r.readers[id].tx.Rollback()
		delete(r.readers, id)
	}
}

// noteFlushed observes (not predicts) whether everything committed so far has
// reached leveldb: the write cache is empty.
func (r *run) noteFlushed() {
	k, rm, _, _ := ffldb.VerifStats(r.db)
	if k == 0 && rm == 0 {
		r.floor = len(r.vers) - 1
		r.c.Probe("observed-flushed")
	} else {
		r.c.Probe("observed-cached")
	}
}

func (r *run) step(st *Step) {
	c := r.c
	switch st.Op {
	case "sleep":
		time.Sleep(time.Duration(st.Secs) * time.Second)
		c.AddSimSeconds(float64(st.Secs))
		c.Logf("sleep %d", st.Secs)
	case "diskfull":
		r.disk.diskFull = st.On
		c.Logf("diskfull %v", st.On)
	case "ropen":
		if _, ok := r.readers[st.R]; ok {
			return
		}
		tx, err := r.db.Begin(false)
		if err != nil {
			c.Violate(r.prop16(), "begin", "C16/begin-ro-error", "Begin(false): %v", err)
			return
		}
		r.readers[st.R] = &reader{tx: tx, ver: r.cur}
		c.Logf("ropen %d at v%d", st.R, r.cur.n)
	case "rclose":
		if rd, ok := r.readers[st.R]; ok {
			rd.tx.Rollback()
			delete(r.readers, st.R)
			c.Logf("rclose %d", st.R)
		}
	case "rread":
		if rd, ok := r.readers[st.R]; ok {
			c.Probe("snapshot-read-after-later-commit")
			r.scanCompare(rd.tx, "reader", []*version{rd.ver})
			w := rd.ver.clone()
			r.applyOps(rd.tx, w, st.Ops, false)
		}
	case "view":
		r.disk.beginStep(nil, nil)
		err := r.db.View(func(tx database.Tx) error {
			w := r.cur.clone()
			r.applyOps(tx, w, st.Ops, false)
			return nil
		})
		if err != nil {
			c.Violate(r.prop16(), "view", "C16/view-error", "View: %v", err)
		}
	case "reopen":
		r.closeReaders()
		r.disk.beginStep(st.Fault, st.Crash)
		crashed, other := guarded(func() {
			err := r.db.Close()
			if err != nil {
				c.Logf("close err")
				if len(r.disk.fired) == 0 {
					c.Violate(r.prop16(), "close", "C16/close-error", "Close: %v", err)
				}
			}
		})
		if other != nil {
			panic(other)
		}
		r.stepEvents, r.stepKinds = r.disk.events, append([]string(nil), r.disk.kinds...)
		r.flushFired()
		if crashed {
			// stop during the closing flush: the cache may or may not have reached leveldb
			r.recover(st, r.cur, "close")
			return
		}
		r.db = nil
		r.disk.beginStep(nil, nil)
		if err := r.open(false); err != nil {
			c.Violate(r.prop16(), "reopen", "C16/reopen-error", "Open after clean Close: %v", err)
			r.dead = true
			return
		}
		c.Probe("clean-reopen")
		c.Logf("reopen")
		r.floor = len(r.vers) - 1
		r.verifyAgainst("reopen", []*version{r.cur})
	case "update":
		r.update(st)
	default:
		panic("harness: unknown step op " + st.Op)
	}
}

func (r *run) flushFired() {
	for _, f := range r.disk.fired {
		r.c.Fault(f)
		r.c.Logf("fault %s", f)
	}
	r.disk.fired = r.disk.fired[:0]
}

type userErr struct{}

func (userErr) Error() string { return "user function failed" }

func (r *run) update(st *Step) {
	c := r.c
	work := r.cur.clone()
	work.n = r.cur.n + 1
	r.disk.beginStep(st.Fault, st.Crash)
	if st.Mid != nil {
		mid := st.Mid
		done := false
		r.disk.onPoint = func(name string) {
			if done || name != mid.Point {
				return
			}
			done = true
			r.midRead(mid, work, st.End == 0 || st.End == 3)
		}
	}
	var commitErr error
	var userPanicked bool
	crashed, other := guarded(func() {
		switch st.End {
		case 3, 4:
			tx, err := r.db.Begin(true)
			if err != nil {
				commitErr = err
				return
			}
			r.applyOps(tx, work, st.Ops, true)
			if st.End == 3 {
				commitErr = tx.Commit()
			} else {
				commitErr = tx.Rollback()
				if commitErr == nil {
					commitErr = userErr{}
				} else {
					c.Violate(r.prop16(), "rollback", "C16/rollback-error", "Rollback: %v", commitErr)
				}
			}
		default:
			func() {
				defer func() {
					if x := recover(); x != nil {
						if s, ok := x.(string); ok && s == "user panic" {
							userPanicked = true
							return
						}
						panic(x)
					}
				}()
				commitErr = r.db.Update(func(tx database.Tx) error {
					r.applyOps(tx, work, st.Ops, true)
					if st.End == 1 {
						return userErr{}
					}
					if st.End == 2 {
						panic("user panic")
					}
					return nil
				})
			}()
		}
	})
	r.disk.onPoint = nil
	if other != nil {
		panic(other)
	}
	r.stepEvents, r.stepKinds = r.disk.events, append([]string(nil), r.disk.kinds...)
	nfired := len(r.disk.fired)
	r.flushFired()
	if crashed {
		c.Logf("update crashed")
		var ceil *version
		if st.End == 0 || st.End == 3 {
			work.freeze()
			ceil = work
		} else {
			ceil = r.cur
		}
		r.recover(st, ceil, "update")
		return
	}
	switch {
	case userPanicked:
		c.Probe("user-panic-rolled-back")
		c.Logf("update user-panic")
	case st.End == 1 || st.End == 4:
		if _, ok := commitErr.(userErr); !ok {
			c.Violate(r.prop16(), "update", "C16/user-error-not-returned", "Update returned %v, want the user error", commitErr)
		}
		c.Logf("update rolled-back")
	case commitErr != nil:
		if nfired == 0 && !r.disk.diskFull {
			c.Violate(r.prop16(), "commit", "C16/commit-error-without-fault", "commit failed without an injected fault: %v", commitErr)
			return
		}
		c.Probe("commit-failed-under-fault")
		c.Logf("update failed")
	default:
		work.freeze()
		r.cur = work
		r.vers = append(r.vers, work)
		c.State(fp(work.canonS))
		c.Logf("update committed v%d %x", work.n, fp(work.canonS))
	}
	r.noteFlushed()
	// After every update (committed, rolled back or failed) the database must
	// show exactly the last committed version.
	r.verifyAgainst("post-update", []*version{r.cur})
}

// midRead runs while the writer is inside Commit.
func (r *run) midRead(m *Mid, work *version, willCommit bool) {
	c := r.c
	c.Fault("reader-inside-commit@" + m.Point)
	if m.R >= 0 {
		if rd, ok := r.readers[m.R]; ok {
			r.scanCompare(rd.tx, "reader-mid-commit", []*version{rd.ver})
		}
		return
	}
	tx, err := r.db.Begin(false)
	if err != nil {
		c.Violate(r.prop16(), "begin", "C16/begin-ro-error", "Begin(false) inside commit: %v", err)
		return
	}
	cands := []*version{r.cur}
	if willCommit {
		w := work.clone()
		w.freeze()
		cands = append(cands, w)
	}
	r.scanCompare(tx, "new-reader-mid-commit", cands)
	tx.Rollback()
}

// recover handles a simulated process stop: abandon the instance, reopen the
// snapshot with the real openDB/reconcileDB, and check the recovered state.
func (r *run) recover(st *Step, ceil *version, where string) {
	c := r.c
	// Candidates: any single version from the last observed-flushed one up to
	// the interrupted commit.
	var cands []*version
	for i := r.floor; i < len(r.vers); i++ {
		cands = append(cands, r.vers[i])
	}
	if ceil != r.cur {
		cands = append(cands, ceil)
	}
	r.readers = map[int]*reader{}
	old := r.db
	r.db = nil
	ffldb.VerifAbandon(old)
	for attempt := 0; ; attempt++ {
		r.gen++
		r.dir = r.disk.snapDir
		nd := &simDisk{dir: r.dir, inBubble: true}
		nd.snapDir = filepath.Join(r.base, fmt.Sprintf("g%d", r.gen+1))
		r.disk = nd
		r.installHooks()
		var crash2 *Fault
		if attempt == 0 {
			crash2 = st.Crash2
		}
		nd.beginStep(nil, crash2)
		var openErr error
		crashed, other := guarded(func() { openErr = r.open(false) })
		if other != nil {
			r.c.Violate("C17", "recovery", "C17/reopen-panic", "reopen after stop at %s panicked: %v", where, other)
			r.dead = true
			return
		}
		c.ProbeN("recovery-events", nd.events)
		if nd.events > 0 {
			c.Probe("reconcile-repaired-files")
		}
		if attempt == 0 {
			r.recEvents = nd.events
		}
		for _, f := range nd.fired {
			c.Fault("recovery:" + f)
		}
		nd.fired = nil
		if crashed {
			c.Logf("crashed during recovery")
			continue
		}
		if openErr != nil {
			c.Violate("C17", "recovery", "C17/reopen-failed", "reopen after stop at %s failed: %v", where, openErr)
			r.dead = true
			return
		}
		break
	}
	c.Logf("recovered")
	got := r.verifyAgainst("recovery", cands)
	if got == nil {
		r.dead = true
		return
	}
	if got == ceil && ceil != r.cur {
		c.Probe("recovered-to-interrupted-commit")
		r.vers = append(r.vers, ceil)
	} else if got == r.cur {
		c.Probe("recovered-to-last-commit")
	} else {
		c.Probe("recovered-to-earlier-flushed-version")
	}
	// the model continues from whatever single version survived
	for i, v := range r.vers {
		if v == got {
			r.vers = r.vers[:i+1]
		}
	}
	r.cur = got
	r.floor = len(r.vers) - 1
}

// verifyAgainst scans the whole database in a fresh read transaction and
// requires it to equal exactly one of the candidate versions.
func (r *run) verifyAgainst(what string, cands []*version) *version {
	var got *version
	err := r.db.View(func(tx database.Tx) error {
		got = r.scanCompare(tx, what, cands)
		return nil
	})
	if err != nil {
		r.c.Violate(r.prop16(), what, "C16/view-error", "View: %v", err)
	}
	return got
}

func (r *run) scanCompare(tx database.Tx, what string, cands []*version) *version {
	c := r.c
	c.Check()
	root := r.userRoot(tx, false)
	var sb strings.Builder
	if root != nil {
		if msg := scanBucket(root, &sb, ""); msg != "" {
			c.Violate(r.propFor(what), what, r.sigBase(what)+"/scan-inconsistent", "%s: %s", what, msg)
			return nil
		}
	} else {
		c.Violate(r.propFor(what), what, r.sigBase(what)+"/user-root-missing", "%s: user root bucket missing", what)
		return nil
	}
	var ids []int
	for id := range r.allBlk {
		ids = append(ids, id)
	}
	sort.Ints(ids)
	var have []int
	for _, id := range ids {
		h := blockHash(r.seed, id)
		ok, err := tx.HasBlock(h)
		if err != nil {
			c.Violate(r.propFor(what), what, r.sigBase(what)+"/hasblock-error", "%s: HasBlock: %v", what, err)
			return nil
		}
		if !ok {
			if _, err := tx.FetchBlock(&h); err == nil {
				c.Violate("C18", what, "C18/fetch-of-absent-block-succeeds", "%s: FetchBlock of a block HasBlock denies succeeded", what)
				return nil
			}
			continue
		}
		have = append(have, id)
		got, err := tx.FetchBlock(&h)
		want := blockBytes(r.seed, id, r.sizeOf(id))
		if err != nil {
			p := "C18"
			if what == "recovery" {
				p = "C17"
			}
			c.Violate(p, what, p+"/reported-block-unreadable", "%s: block %d (size %d) is reported present but FetchBlock fails: %v", what, id, len(want), err)
			return nil
		}
		if !bytes.Equal(got, want) {
			p := "C18"
			if what == "recovery" {
				p = "C17"
			}
			c.Violate(p, what, p+"/block-bytes-differ", "%s: block %d read back %d bytes, differs from the %d stored", what, id, len(got), len(want))
			return nil
		}
	}
	fmt.Fprintf(&sb, "blocks=%v\n", have)
	dump := sb.String()
	for _, v := range cands {
		if v.canon() == dump {
			return v
		}
	}
	var names []string
	for _, v := range cands {
		names = append(names, fmt.Sprintf("v%d", v.n))
	}
	sig := r.sigBase(what) + "/state-differs-from-model"
	if what == "recovery" {
		sig = "C17/recovered-state-is-no-single-version"
	}
	c.Violate(r.propFor(what), what, sig, "%s: database content matches none of the allowed versions %v.\n--- database ---\n%s--- model %s ---\n%s", what, names, clip(dump), names[len(names)-1], clip(cands[len(cands)-1].canon()))
	return nil
}

func clip(s string) string {
	if len(s) > 1500 {
		return s[:1500] + "...\n"
	}
	return s
}

func (r *run) propFor(what string) string {
	if what == "recovery" {
		return "C17"
	}
	return r.prop16()
}

func (r *run) sigBase(what string) string {
	return r.propFor(what) + "/" + what
}

// scanBucket dumps a bucket through ForEach/ForEachBucket and cross-checks the
// cursor: the same keys, in order, forwards and backwards.
func scanBucket(b database.Bucket, sb *strings.Builder, indent string) string {
	var keys []string
	var vals [][]byte
	if err := b.ForEach(func(k, v []byte) error {
		keys = append(keys, string(k))
		vals = append(vals, append([]byte(nil), v...))
		return nil
	}); err != nil {
		return "ForEach: " + err.Error()
	}
	if !sort.StringsAreSorted(keys) {
		return fmt.Sprintf("ForEach keys out of order: %q", keys)
	}
	for i, k := range keys {
		if i > 0 && keys[i-1] == k {
			return fmt.Sprintf("ForEach yields key %q twice", k)
		}
		if g := b.Get([]byte(k)); !bytes.Equal(g, vals[i]) {
			return fmt.Sprintf("Get(%q)=%x but ForEach gave %x", k, g, vals[i])
		}
		fmt.Fprintf(sb, "%s%s=%x\n", indent, k, vals[i])
	}
	var subs []string
	if err := b.ForEachBucket(func(k []byte) error { subs = append(subs, string(k)); return nil }); err != nil {
		return "ForEachBucket: " + err.Error()
	}
	if !sort.StringsAreSorted(subs) {
		return fmt.Sprintf("ForEachBucket out of order: %q", subs)
	}
	// cursor cross-check
	cur := b.Cursor()
	var ck, cb []string
	for ok := cur.First(); ok; ok = cur.Next() {
		k := string(cur.Key())
		if strings.HasPrefix(k, "b") && cur.Value() == nil {
			cb = append(cb, k)
		} else {
			ck = append(ck, k)
		}
	}
	if strings.Join(ck, ",") != strings.Join(keys, ",") {
		return fmt.Sprintf("cursor keys %q != ForEach keys %q", ck, keys)
	}
	if strings.Join(cb, ",") != strings.Join(subs, ",") {
		return fmt.Sprintf("cursor buckets %q != ForEachBucket %q", cb, subs)
	}
	var rev []string
	for ok := cur.Last(); ok; ok = cur.Prev() {
		rev = append(rev, string(cur.Key()))
	}
	if len(rev) != len(ck)+len(cb) {
		return fmt.Sprintf("backward walk yields %d entries, forward %d", len(rev), len(ck)+len(cb))
	}
	for _, s := range subs {
		fmt.Fprintf(sb, "%s[%s]\n", indent, s)
		child := b.Bucket([]byte(s))
		if child == nil {
			return fmt.Sprintf("ForEachBucket names %q but Bucket() returns nil", s)
		}
		if msg := scanBucket(child, sb, indent+" "); msg != "" {
			return msg
		}
	}
	return ""
}

func errCode(err error) (database.ErrorCode, bool) {
	if e, ok := err.(database.Error); ok {
		return e.ErrorCode, true
	}
	return 0, false
}

func pathNames(p []int) []string {
	out := make([]string, len(p))
	for i, x := range p {
		out[i] = bucketName(x)
	}
	return out
}

func resolve(root database.Bucket, path []string) database.Bucket {
	cur := root
	for _, p := range path {
		if cur == nil {
			return nil
		}
		cur = cur.Bucket([]byte(p))
	}
	return cur
}

// applyOps performs in-transaction operations against the real transaction and
// the working copy of the model, comparing every observable result.
func (r *run) applyOps(tx database.Tx, work *version, ops []TxOp, writable bool) {
	c := r.c
	P := r.prop16()
	root := r.userRoot(tx, false)
	if root == nil {
		c.Violate(P, "tx", "C16/user-root-missing", "user root bucket missing in transaction")
		return
	}
	for _, op := range ops {
		if c.Violated() {
			return
		}
		names := pathNames(op.Path)
		mb := work.root.walk(names)
		rb := resolve(root, names)
		if (mb == nil) != (rb == nil) {
			c.Violate(P, "bucket", "C16/bucket-existence", "bucket %v: model exists=%v, database exists=%v", names, mb != nil, rb != nil)
			return
		}
		isBlockOp := op.Op == "storeblk" || op.Op == "hasblk" || op.Op == "fetchblk" || op.Op == "region" || op.Op == "header" || op.Op == "regions"
		if mb == nil && !isBlockOp {
			c.Logf("op %s nobucket", op.Op)
			continue
		}
		c.Check()
		switch op.Op {
		case "put":
			k := keyName(op.K)
			v := valueBytes(r.seed, op.V, op.N)
			err := rb.Put([]byte(k), v)
			if !writable {
				if code, ok := errCode(err); !ok || code != database.ErrTxNotWritable {
					c.Violate(P, "put", "C16/readonly-put-allowed", "Put in a read-only tx returned %v", err)
				}
				continue
			}
			if err != nil {
				c.Violate(P, "put", "C16/put-error", "Put: %v", err)
				continue
			}
			mb.keys[k] = v
			c.Logf("put %v %s %d", names, k, len(v))
		case "get":
			k := keyName(op.K)
			got := rb.Get([]byte(k))
			want, ok := mb.keys[k]
			if !ok && got != nil {
				c.Violate(P, "get", "C16/get-absent-key-returns-value", "Get(%v/%s) = %x for an absent key", names, k, got)
			} else if ok && !bytes.Equal(got, want) {
				c.Violate(P, "get", "C16/get-wrong-value", "Get(%v/%s) = %x, model %x", names, k, got, want)
			} else if ok && len(want) > 0 && got == nil {
				c.Violate(P, "get", "C16/get-wrong-value", "Get(%v/%s) = nil, model %x", names, k, want)
			}
			c.Logf("get %v %s %v", names, k, ok)
		case "del":
			k := keyName(op.K)
			err := rb.Delete([]byte(k))
			if !writable {
				if code, ok := errCode(err); !ok || code != database.ErrTxNotWritable {
					c.Violate(P, "del", "C16/readonly-delete-allowed", "Delete in a read-only tx returned %v", err)
				}
				continue
			}
			if err != nil {
				c.Violate(P, "del", "C16/delete-error", "Delete: %v", err)
				continue
			}
			delete(mb.keys, k)
			c.Logf("del %v %s", names, k)
		case "mkb", "mkbine":
			if !writable {
				continue
			}
			n := bucketName(op.K)
			var err error
			if op.Op == "mkb" {
				_, err = rb.CreateBucket([]byte(n))
			} else {
				_, err = rb.CreateBucketIfNotExists([]byte(n))
			}
			_, exists := mb.subs[n]
			switch {
			case exists && op.Op == "mkb":
				if code, ok := errCode(err); !ok || code != database.ErrBucketExists {
					c.Violate(P, "mkb", "C16/create-existing-bucket", "CreateBucket of an existing bucket returned %v", err)
				}
			case err != nil:
				c.Violate(P, "mkb", "C16/create-bucket-error", "%s: %v", op.Op, err)
			case !exists:
				mb.subs[n] = newMBucket()
			}
			c.Logf("%s %v %s", op.Op, names, n)
		case "rmb":
			if !writable {
				continue
			}
			n := bucketName(op.K)
			err := rb.DeleteBucket([]byte(n))
			if _, exists := mb.subs[n]; !exists {
				if code, ok := errCode(err); !ok || code != database.ErrBucketNotFound {
					c.Violate(P, "rmb", "C16/delete-missing-bucket", "DeleteBucket of a missing bucket returned %v", err)
				}
			} else if err != nil {
				c.Violate(P, "rmb", "C16/delete-bucket-error", "DeleteBucket: %v", err)
			} else {
				delete(mb.subs, n)
			}
			c.Logf("rmb %v %s", names, n)
		case "walk":
			r.walk(rb, mb, names)
		case "seek":
			r.seek(rb, mb, names, op.K)
		case "cdel":
			if writable {
				r.cursorDelete(rb, mb, names, op.K, op.N)
			}
		case "scan":
			var sb strings.Builder
			if msg := scanBucket(root, &sb, ""); msg != "" {
				c.Violate(P, "scan", "C16/in-tx/scan-inconsistent", "%s", msg)
				continue
			}
			var wsb strings.Builder
			work.root.canon(&wsb, "")
			if sb.String() != wsb.String() {
				c.Violate(P, "scan", "C16/in-tx/state-differs-from-model", "inside tx:\n--- database ---\n%s--- model ---\n%s", clip(sb.String()), clip(wsb.String()))
			}
			c.Logf("scan %x", fp(sb.String()))
		case "storeblk":
			if !writable {
				continue
			}
			id := op.K
			r.allBlk[id] = true
			h := blockHash(r.seed, id)
			data := blockBytes(r.seed, id, r.sizeOf(id))
			err := tx.StoreBlock(h, data)
			if work.blocks[id] {
				if code, ok := errCode(err); !ok || code != database.ErrBlockExists {
					c.Violate("C18", "storeblk", "C18/duplicate-store-allowed", "StoreBlock of an existing block returned %v", err)
				}
			} else if err != nil {
				c.Violate("C18", "storeblk", "C18/store-error", "StoreBlock: %v", err)
			} else {
				work.blocks[id] = true
			}
			c.Logf("storeblk %d %d", id, len(data))
		case "hasblk":
			h := blockHash(r.seed, op.K)
			ok, err := tx.HasBlock(h)
			if err != nil || ok != work.blocks[op.K] {
				c.Violate("C18", "hasblk", "C18/hasblock-wrong", "HasBlock(%d) = %v,%v; model %v", op.K, ok, err, work.blocks[op.K])
			}
		case "fetchblk":
			h := blockHash(r.seed, op.K)
			got, err := tx.FetchBlock(&h)
			if !work.blocks[op.K] {
				if code, ok := errCode(err); !ok || code != database.ErrBlockNotFound {
					c.Violate("C18", "fetchblk", "C18/fetch-of-absent-block-succeeds", "FetchBlock of an absent block returned %v", err)
				}
				continue
			}
			want := blockBytes(r.seed, op.K, r.sizeOf(op.K))
			if err != nil {
				c.Violate("C18", "fetchblk", "C18/reported-block-unreadable", "FetchBlock(%d): %v", op.K, err)
			} else if !bytes.Equal(got, want) {
				c.Violate("C18", "fetchblk", "C18/block-bytes-differ", "FetchBlock(%d) returned %d bytes that differ from the %d stored", op.K, len(got), len(want))
			}
			c.Logf("fetchblk %d", op.K)
		case "header":
			h := blockHash(r.seed, op.K)
			got, err := tx.FetchBlockHeader(&h)
			r.checkRegion("header", op.K, 0, 84, got, err, work)
		case "region":
			h := blockHash(r.seed, op.K)
			got, err := tx.FetchBlockRegion(&database.BlockRegion{Hash: &h, Offset: uint32(op.Off), Len: uint32(op.N)})
			r.checkRegion("region", op.K, uint32(op.Off), uint32(op.N), got, err, work)
		case "regions":
			// two regions in one call, second one first in file order
			h := blockHash(r.seed, op.K)
			h2 := blockHash(r.seed, op.V)
			regs := []database.BlockRegion{{Hash: &h, Offset: uint32(op.Off), Len: uint32(op.N)}, {Hash: &h2, Offset: 0, Len: uint32(op.N)}}
			got, err := tx.FetchBlockRegions(regs)
			ok1 := r.regionValid(op.K, uint32(op.Off), uint32(op.N), work)
			ok2 := r.regionValid(op.V, 0, uint32(op.N), work)
			if ok1 && ok2 {
				if err != nil || len(got) != 2 {
					c.Violate("C18", "regions", "C18/valid-regions-rejected", "FetchBlockRegions of two valid regions: %v", err)
				} else {
					r.checkRegion("regions", op.K, uint32(op.Off), uint32(op.N), got[0], nil, work)
					r.checkRegion("regions", op.V, 0, uint32(op.N), got[1], nil, work)
				}
			} else if err == nil {
				c.Violate("C18", "regions", "C18/region-past-end-returns-bytes", "FetchBlockRegions accepted an invalid region (block %d off %d len %d valid=%v; block %d len %d valid=%v)", op.K, op.Off, op.N, ok1, op.V, op.N, ok2)
			}
		default:
			panic("harness: unknown tx op " + op.Op)
		}
	}
}

func (r *run) regionValid(id int, off, n uint32, work *version) bool {
	if !work.blocks[id] {
		return false
	}
	size := uint32(r.sizeOf(id))
	end := off + n
	return end >= off && end <= size
}

func (r *run) checkRegion(what string, id int, off, n uint32, got []byte, err error, work *version) {
	c := r.c
	if !work.blocks[id] {
		if code, ok := errCode(err); !ok || code != database.ErrBlockNotFound {
			c.Violate("C18", what, "C18/region-of-absent-block", "%s of an absent block returned %v", what, err)
		}
		return
	}
	data := blockBytes(r.seed, id, r.sizeOf(id))
	size := uint32(len(data))
	end := off + n
	valid := end >= off && end <= size
	c.Logf("%s %d %d %d valid=%v", what, id, off, n, valid)
	if !valid {
		c.Probe("region-out-of-range-requested")
		if err == nil {
			c.Violate("C18", what, "C18/region-past-end-returns-bytes", "%s(block %d of %d bytes, offset %d, len %d) exceeds the block but returned %d bytes instead of ErrBlockRegionInvalid", what, id, size, off, n, len(got))
		} else if code, ok := errCode(err); !ok || code != database.ErrBlockRegionInvalid {
			c.Violate("C18", what, "C18/region-past-end-wrong-error", "%s(block %d of %d bytes, offset %d, len %d): %v, want ErrBlockRegionInvalid", what, id, size, off, n, err)
		}
		return
	}
	if err != nil {
		c.Violate("C18", what, "C18/valid-region-rejected", "%s(block %d of %d bytes, offset %d, len %d): %v", what, id, size, off, n, err)
		return
	}
	if !bytes.Equal(got, data[off:end]) {
		c.Violate("C18", what, "C18/region-bytes-differ", "%s(block %d of %d bytes, offset %d, len %d) returned other bytes", what, id, size, off, n)
	}
}

type entry struct {
	name   string
	bucket bool
}

// expected cursor contents; keys and buckets are checked as two ordered
// subsequences (the interface does not promise how the two kinds interleave).
func modelEntries(mb *mBucket) (keys, subs []string) { return mb.sortedKeys(), mb.sortedSubs() }

func (r *run) walk(rb database.Bucket, mb *mBucket, names []string) {
	c := r.c
	P := r.prop16()
	wk, wb := modelEntries(mb)
	cur := rb.Cursor()
	var fw []entry
	for ok := cur.First(); ok; ok = cur.Next() {
		k := string(cur.Key())
		v := cur.Value()
		isB := strings.HasPrefix(k, "b")
		if isB && v != nil {
			c.Violate(P, "cursor", "C16/cursor-bucket-has-value", "cursor at nested bucket %q reports a value", k)
			return
		}
		if !isB {
			if want, ok := mb.keys[k]; !ok || !bytes.Equal(want, v) {
				c.Violate(P, "cursor", "C16/cursor-wrong-entry", "cursor in %v yields %q=%x; model has=%v %x", names, k, v, ok, want)
				return
			}
		}
		fw = append(fw, entry{k, isB})
		if len(fw) > 200 {
			c.Violate(P, "cursor", "C16/cursor-does-not-terminate", "cursor walk exceeded 200 entries")
			return
		}
	}
	var gk, gb []string
	for _, e := range fw {
		if e.bucket {
			gb = append(gb, e.name)
		} else {
			gk = append(gk, e.name)
		}
	}
	if strings.Join(gk, ",") != strings.Join(wk, ",") || strings.Join(gb, ",") != strings.Join(wb, ",") {
		c.Violate(P, "cursor", "C16/cursor-forward-walk-differs", "cursor in %v: keys %q buckets %q; model keys %q buckets %q", names, gk, gb, wk, wb)
		return
	}
	var bw []entry
	for ok := cur.Last(); ok; ok = cur.Prev() {
		k := string(cur.Key())
		bw = append(bw, entry{k, strings.HasPrefix(k, "b")})
		if len(bw) > 200 {
			break
		}
	}
	if len(bw) != len(fw) {
		c.Violate(P, "cursor", "C16/cursor-backward-walk-differs", "cursor in %v: backward %d entries, forward %d", names, len(bw), len(fw))
		return
	}
	for i := range bw {
		if bw[i] != fw[len(fw)-1-i] {
			c.Violate(P, "cursor", "C16/cursor-backward-walk-differs", "cursor in %v: backward walk is not the reverse of the forward walk", names)
			return
		}
	}
	c.Logf("walk %v %d", names, len(fw))
}

func (r *run) seek(rb database.Bucket, mb *mBucket, names []string, k int) {
	c := r.c
	P := r.prop16()
	wk, _ := modelEntries(mb)
	target := keyName(k)
	cur := rb.Cursor()
	ok := cur.Seek([]byte(target))
	want := ""
	for _, x := range wk {
		if x >= target {
			want = x
			break
		}
	}
	got := ""
	if ok {
		got = string(cur.Key())
	}
	if want != "" {
		if got != want {
			c.Violate(P, "cursor", "C16/seek-wrong-position", "Seek(%s) in %v landed on %q, first key >= target is %q", target, names, got, want)
			return
		}
		if !bytes.Equal(cur.Value(), mb.keys[want]) {
			c.Violate(P, "cursor", "C16/seek-wrong-value", "Seek(%s) value differs", target)
			return
		}
		// Next after Seek continues in key order
		idx := sort.SearchStrings(wk, want)
		if idx+1 < len(wk) {
			if !cur.Next() || string(cur.Key()) != wk[idx+1] {
				c.Violate(P, "cursor", "C16/seek-next-wrong", "Next after Seek(%s) gave %q, want %q", target, cur.Key(), wk[idx+1])
			}
		}
	} else if ok && !strings.HasPrefix(got, "b") {
		c.Violate(P, "cursor", "C16/seek-wrong-position", "Seek(%s) in %v landed on key %q though no key >= target exists", target, names, got)
	}
	c.Logf("seek %v %s -> %s", names, target, got)
}

// cursorDelete walks forward, deleting every n-th key through the cursor; the
// cursor must carry on with the next element (documented safe).
func (r *run) cursorDelete(rb database.Bucket, mb *mBucket, names []string, start, every int) {
	c := r.c
	P := r.prop16()
	if every < 1 {
		every = 1
	}
	wk, _ := modelEntries(mb)
	cur := rb.Cursor()
	i := 0
	var seen []string
	for ok := cur.First(); ok; ok = cur.Next() {
		k := string(cur.Key())
		if strings.HasPrefix(k, "b") {
			if err := cur.Delete(); err == nil {
				c.Violate(P, "cursor", "C16/cursor-deletes-bucket", "Cursor.Delete on a nested bucket succeeded")
				return
			}
			continue
		}
		seen = append(seen, k)
		if (i+start)%every == 0 {
			if err := cur.Delete(); err != nil {
				c.Violate(P, "cursor", "C16/cursor-delete-error", "Cursor.Delete: %v", err)
				return
			}
			delete(mb.keys, k)
		}
		i++
		if i > 200 {
			c.Violate(P, "cursor", "C16/cursor-does-not-terminate", "cursor walk with deletes exceeded 200 entries")
			return
		}
	}
	if strings.Join(seen, ",") != strings.Join(wk, ",") {
		c.Violate(P, "cursor", "C16/cursor-delete-walk-differs", "walk with Cursor.Delete in %v visited %q, model keys were %q", names, seen, wk)
	}
	c.Logf("cdel %v %d", names, len(seen))
}
