package dbsim

import (
	"crypto/sha256"
	"encoding/binary"
	"fmt"
	"sort"
	"strings"

	"github.com/elastos/Elastos.ELA/common"
)

// mBucket is the reference model of one bucket: an ordered map of keys plus
// named nested buckets. Keys and nested buckets are separate namespaces.
type mBucket struct {
	keys map[string][]byte
	subs map[string]*mBucket
}

func newMBucket() *mBucket { return &mBucket{keys: map[string][]byte{}, subs: map[string]*mBucket{}} }

func (b *mBucket) clone() *mBucket {
	n := newMBucket()
	for k, v := range b.keys {
		n.keys[k] = append([]byte(nil), v...)
	}
	for k, s := range b.subs {
		n.subs[k] = s.clone()
	}
	return n
}

func (b *mBucket) sortedKeys() []string {
	ks := make([]string, 0, len(b.keys))
	for k := range b.keys {
		ks = append(ks, k)
	}
	sort.Strings(ks)
	return ks
}

func (b *mBucket) sortedSubs() []string {
	ks := make([]string, 0, len(b.subs))
	for k := range b.subs {
		ks = append(ks, k)
	}
	sort.Strings(ks)
	return ks
}

func (b *mBucket) canon(sb *strings.Builder, indent string) {
	for _, k := range b.sortedKeys() {
		fmt.Fprintf(sb, "%s%s=%x\n", indent, k, b.keys[k])
	}
	for _, k := range b.sortedSubs() {
		fmt.Fprintf(sb, "%s[%s]\n", indent, k)
		b.subs[k].canon(sb, indent+" ")
	}
}

func (b *mBucket) walk(path []string) *mBucket {
	cur := b
	for _, p := range path {
		cur = cur.subs[p]
		if cur == nil {
			return nil
		}
	}
	return cur
}

// version is the model of the whole database after one successful commit.
type version struct {
	n      int
	root   *mBucket       // contents of the user root bucket
	blocks map[int]bool   // block ids stored
	canonS string         // canonical dump (cached)
}

func (v *version) clone() *version {
	n := &version{n: v.n, root: v.root.clone(), blocks: map[int]bool{}}
	for k := range v.blocks {
		n.blocks[k] = true
	}
	return n
}

func (v *version) canon() string {
	if v.canonS != "" {
		return v.canonS
	}
	var sb strings.Builder
	v.root.canon(&sb, "")
	var ids []int
	for id := range v.blocks {
		ids = append(ids, id)
	}
	sort.Ints(ids)
	fmt.Fprintf(&sb, "blocks=%v\n", ids)
	return sb.String()
}

func (v *version) freeze() { v.canonS = ""; v.canonS = v.canon() }

func fp(s string) uint64 {
	h := sha256.Sum256([]byte(s))
	return binary.LittleEndian.Uint64(h[:8])
}

// Block contents are a pure function of (plan seed, block id, size).
func blockBytes(seed uint64, id int, size int) []byte {
	out := make([]byte, size)
	var ctr [24]byte
	binary.LittleEndian.PutUint64(ctr[0:], seed)
	binary.LittleEndian.PutUint64(ctr[8:], uint64(id))
	for off := 0; off < size; off += 32 {
		binary.LittleEndian.PutUint64(ctr[16:], uint64(off))
		h := sha256.Sum256(ctr[:])
		copy(out[off:], h[:])
	}
	return out
}

func blockHash(seed uint64, id int) common.Uint256 {
	var ctr [17]byte
	binary.LittleEndian.PutUint64(ctr[0:], seed)
	binary.LittleEndian.PutUint64(ctr[8:], uint64(id))
	ctr[16] = 'h'
	return common.Uint256(sha256.Sum256(ctr[:]))
}

func keyName(i int) string    { return fmt.Sprintf("k%02d", i) }
func bucketName(i int) string { return fmt.Sprintf("b%d", i) }

func valueBytes(seed uint64, vid int, n int) []byte {
	if n == 0 {
		return []byte{}
	}
	b := blockBytes(seed^0x5bd1e995, vid, n)
	return b
}
