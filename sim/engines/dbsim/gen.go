package dbsim

import (
	"fmt"

	"verif/sim/core"
)

// Generate draws knobs and a workload. Profiles:
//
//	C16  metadata-heavy: buckets, cursors, readers, rollbacks, reopen, flush knobs, I/O errors
//	C17  crash workload: commits with blocks and metadata, tiny files (rollover), failed commits;
//	     Execute enumerates every crash position (knob enumerate=1)
//	C18  block-heavy: sizes vs file sizes, regions inside and beyond blocks, many files, reopen
func (Engine) Generate(r *core.Rng, property, tier string) *core.Plan {
	p := &core.Plan{Knobs: map[string]int64{}, Meta: map[string]string{}}
	// knobs ("buggify": correctness must not depend on one configuration)
	switch r.Intn(4) {
	case 0:
		p.SetKnob("cachemax", r.LogUniform(64, 4096)) // flush on nearly every commit
	case 1:
		p.SetKnob("cachemax", r.LogUniform(4096, 1<<16))
	default:
		p.SetKnob("cachemax", 20<<20) // effectively never by size
	}
	switch r.Intn(4) {
	case 0:
		p.SetKnob("flushms", 0) // every commit flushes (time strictly advances between steps)
	case 1:
		p.SetKnob("flushms", r.LogUniform(1, 5000))
	default:
		p.SetKnob("flushms", r.LogUniform(5000, 3600_000))
	}
	p.SetKnob("maxfile", r.LogUniform(256, 1<<16))
	p.SetKnob("blkmax", r.LogUniform(16, 8192))
	g := &gen{r: r, p: p}
	switch property {
	case "C17":
		p.SetKnob("enumerate", 1)
		p.SetKnob("maxfile", r.LogUniform(256, 4096))
		p.SetKnob("blkmax", r.LogUniform(40, 2048))
		if tier == "thorough" {
			p.SetKnob("maxscen", 1200)
		} else {
			p.SetKnob("maxscen", 160)
		}
		g.crashWorkload()
	case "C18":
		if r.Bool(0.5) {
			p.SetKnob("maxfile", r.LogUniform(256, 2048))
		}
		if r.Bool(0.2) { // force >25 files so the read-handle LRU evicts
			p.SetKnob("maxfile", 256)
			p.SetKnob("blkmax", 200)
		}
		g.blockWorkload(tier)
	default:
		g.kvWorkload(tier)
	}
	return p
}

type gen struct {
	r      *core.Rng
	p      *core.Plan
	nextV  int
	nextB  int
	stored []int
}

func (g *gen) path() []int {
	d := g.r.Pick(5, 4, 2, 1)
	p := make([]int, d)
	for i := range p {
		p[i] = g.r.Intn(3)
	}
	return p
}

func (g *gen) val() (int, int) {
	g.nextV++
	n := int(g.r.LogUniform(1, 200))
	if g.r.Bool(0.03) {
		n = 0
	}
	return g.nextV, n
}

func (g *gen) kvOp() TxOp {
	r := g.r
	switch r.Pick(30, 12, 14, 8, 5, 6, 8, 6, 6, 3) {
	case 0:
		v, n := g.val()
		return TxOp{Op: "put", Path: g.path(), K: r.Intn(12), V: v, N: n}
	case 1:
		return TxOp{Op: "get", Path: g.path(), K: r.Intn(12)}
	case 2:
		return TxOp{Op: "del", Path: g.path(), K: r.Intn(12)}
	case 3:
		return TxOp{Op: "mkb", Path: g.parentPath(), K: r.Intn(3)}
	case 4:
		return TxOp{Op: "mkbine", Path: g.parentPath(), K: r.Intn(3)}
	case 5:
		return TxOp{Op: "rmb", Path: g.parentPath(), K: r.Intn(3)}
	case 6:
		return TxOp{Op: "walk", Path: g.path()}
	case 7:
		return TxOp{Op: "seek", Path: g.path(), K: r.Intn(13)}
	case 8:
		return TxOp{Op: "cdel", Path: g.path(), K: r.Intn(3), N: 1 + r.Intn(3)}
	default:
		return TxOp{Op: "scan"}
	}
}

func (g *gen) blockOp() TxOp {
	r := g.r
	pickStored := func() int {
		if len(g.stored) == 0 || r.Bool(0.1) {
			return g.nextB + r.Intn(3) // probably absent
		}
		return g.stored[r.Intn(len(g.stored))]
	}
	switch r.Pick(30, 5, 15, 10, 30, 6, 4) {
	case 0:
		id := g.nextB
		g.nextB++
		g.stored = append(g.stored, id)
		return TxOp{Op: "storeblk", K: id}
	case 1:
		return TxOp{Op: "hasblk", K: pickStored()}
	case 2:
		return TxOp{Op: "fetchblk", K: pickStored()}
	case 3:
		return TxOp{Op: "header", K: pickStored()}
	case 4:
		return g.region(pickStored())
	case 5:
		o := g.region(pickStored())
		o.Op = "regions"
		o.V = pickStored()
		return o
	default:
		return TxOp{Op: "storeblk", K: pickStored()} // duplicate store
	}
}

// region picks offsets/lengths around the interesting boundaries; the block
// size is a function of (seed,id) known only at execution, so lengths here are
// relative hints resolved against knob blkmax.
func (g *gen) region(id int) TxOp {
	r := g.r
	max := int(g.p.Knob("blkmax", 2048))
	op := TxOp{Op: "region", K: id}
	switch r.Intn(6) {
	case 0:
		op.Off, op.N = 0, 0
	case 1:
		op.Off, op.N = r.Intn(max+16), r.Intn(32)
	case 2:
		op.Off, op.N = 0, r.Intn(max+16)
	case 3:
		op.Off, op.N = r.Intn(max+1), r.Intn(max+16)
	case 4:
		op.Off, op.N = r.Intn(max), 0xFFFFFFFF-r.Intn(max) // offset+len overflows uint32
	default:
		op.Off, op.N = r.Intn(200), r.Intn(200)
	}
	return op
}

func (g *gen) ioFault(nblocks int) *Fault {
	r := g.r
	span := 4*nblocks + 6
	kinds := []string{"werr", "werr", "werr", "syncerr", "openerr"}
	return &Fault{Kind: kinds[r.Intn(len(kinds))], At: r.Intn(span), Arg: r.Intn(256)}
}

func (g *gen) kvWorkload(tier string) {
	r := g.r
	n := r.Range(8, 40)
	if tier == "thorough" {
		n = r.Range(8, 120)
	}
	withFaults := r.Bool(0.5) // fault-free stratum kept separate
	withBlocks := r.Bool(0.4)
	if withFaults {
		g.p.Meta["stratum"] = "io-faults"
	} else {
		g.p.Meta["stratum"] = "fault-free"
	}
	for i := 0; i < n; i++ {
		switch r.Pick(50, 8, 8, 5, 6, 6, 6) {
		case 0:
			st := Step{Op: "update"}
			k := r.Range(1, 10)
			nb := 0
			for j := 0; j < k; j++ {
				if withBlocks && r.Bool(0.2) {
					op := g.blockOp()
					if op.Op == "region" || op.Op == "regions" {
						op = TxOp{Op: "fetchblk", K: op.K}
					}
					if op.Op == "storeblk" {
						nb++
					}
					st.Ops = append(st.Ops, op)
				} else {
					st.Ops = append(st.Ops, g.kvOp())
				}
			}
			st.End = r.Pick(70, 10, 4, 10, 6)
			if withFaults && r.Bool(0.25) && (st.End == 0 || st.End == 3) {
				st.Fault = g.ioFault(nb)
			}
			if r.Bool(0.15) {
				pts := []string{"commit:blocks-written", "flush:synced", "flush:cache-committed", "commitTx:flushed", "commitTx:tx-committed"}
				st.Mid = &Mid{Point: pts[r.Intn(len(pts))], R: r.Intn(4) - 1}
			}
			g.p.Add(st)
		case 1:
			st := Step{Op: "view"}
			for j := r.Range(1, 6); j > 0; j-- {
				op := g.kvOp()
				st.Ops = append(st.Ops, op)
			}
			g.p.Add(st)
		case 2:
			g.p.Add(Step{Op: "sleep", Secs: r.LogUniform(1, 7200)})
		case 3:
			g.p.Add(Step{Op: "reopen"})
		case 4:
			g.p.Add(Step{Op: "ropen", R: r.Intn(3)})
		case 5:
			st := Step{Op: "rread", R: r.Intn(3)}
			for j := r.Range(0, 4); j > 0; j-- {
				op := g.kvOp()
				if op.Op == "put" || op.Op == "del" || op.Op == "mkb" || op.Op == "mkbine" || op.Op == "rmb" || op.Op == "cdel" {
					op = TxOp{Op: "get", Path: op.Path, K: op.K}
				}
				st.Ops = append(st.Ops, op)
			}
			g.p.Add(st)
		case 6:
			g.p.Add(Step{Op: "rclose", R: r.Intn(3)})
		}
	}
}

func (g *gen) blockWorkload(tier string) {
	r := g.r
	n := r.Range(6, 30)
	if tier == "thorough" {
		n = r.Range(6, 80)
	}
	many := g.p.Knob("maxfile", 0) == 256
	for i := 0; i < n; i++ {
		switch r.Pick(60, 20, 6, 8, 6) {
		case 0:
			st := Step{Op: "update"}
			k := r.Range(1, 8)
			if many {
				k = r.Range(4, 12)
			}
			nb := 0
			for j := 0; j < k; j++ {
				op := g.blockOp()
				if many && r.Bool(0.5) {
					op = TxOp{Op: "storeblk", K: g.nextB}
					g.stored = append(g.stored, g.nextB)
					g.nextB++
				}
				if op.Op == "storeblk" {
					nb++
				}
				st.Ops = append(st.Ops, op)
			}
			if r.Bool(0.2) {
				v, nn := g.val()
				st.Ops = append(st.Ops, TxOp{Op: "put", K: r.Intn(12), V: v, N: nn})
			}
			st.End = r.Pick(80, 8, 2, 8, 2)
			if r.Bool(0.1) && (st.End == 0 || st.End == 3) {
				st.Fault = g.ioFault(nb)
			}
			if r.Bool(0.15) {
				pts := []string{"commit:blocks-written", "flush:synced", "commitTx:flushed"}
				st.Mid = &Mid{Point: pts[r.Intn(len(pts))], R: r.Intn(3) - 1}
			}
			g.p.Add(st)
		case 1:
			st := Step{Op: "view"}
			for j := r.Range(1, 8); j > 0; j-- {
				op := g.blockOp()
				if op.Op == "storeblk" {
					op.Op = "fetchblk"
				}
				st.Ops = append(st.Ops, op)
			}
			g.p.Add(st)
		case 2:
			g.p.Add(Step{Op: "sleep", Secs: r.LogUniform(1, 7200)})
		case 3:
			g.p.Add(Step{Op: "reopen"})
		case 4:
			if r.Bool(0.5) {
				g.p.Add(Step{Op: "ropen", R: r.Intn(2)})
			} else {
				g.p.Add(Step{Op: "rread", R: r.Intn(2), Ops: []TxOp{{Op: "fetchblk", K: r.Intn(g.nextB + 1)}}})
			}
		}
	}
}

// crashWorkload: 3..25 committing steps; every crash position is enumerated
// at execution time, so no crash is placed here.
func (g *gen) crashWorkload() {
	r := g.r
	n := r.Range(3, 14)
	for i := 0; i < n; i++ {
		switch r.Pick(70, 10, 10, 10) {
		case 0:
			st := Step{Op: "update"}
			nb := r.Pick(3, 5, 3, 1)
			for j := 0; j < nb; j++ {
				st.Ops = append(st.Ops, TxOp{Op: "storeblk", K: g.nextB})
				g.stored = append(g.stored, g.nextB)
				g.nextB++
			}
			for j := r.Range(0, 4); j > 0; j-- {
				op := g.kvOp()
				if op.Op == "walk" || op.Op == "seek" || op.Op == "scan" || op.Op == "get" {
					v, nn := g.val()
					op = TxOp{Op: "put", Path: op.Path, K: r.Intn(12), V: v, N: nn}
				}
				st.Ops = append(st.Ops, op)
			}
			if len(st.Ops) == 0 {
				v, nn := g.val()
				st.Ops = append(st.Ops, TxOp{Op: "put", K: r.Intn(12), V: v, N: nn})
			}
			st.End = r.Pick(85, 5, 0, 10, 0)
			if r.Bool(0.15) && nb > 0 {
				st.Fault = g.ioFault(nb)
				st.Fault.Kind = "werr"
			}
			g.p.Add(st)
		case 1:
			g.p.Add(Step{Op: "sleep", Secs: r.LogUniform(1, 7200)})
		case 2:
			g.p.Add(Step{Op: "reopen"})
		case 3:
			st := Step{Op: "update", Ops: []TxOp{{Op: "mkbine", K: r.Intn(3)}}}
			v, nn := g.val()
			st.Ops = append(st.Ops, TxOp{Op: "put", Path: []int{st.Ops[0].K}, K: r.Intn(12), V: v, N: nn})
			g.p.Add(st)
		}
	}
	g.p.Meta["workload"] = fmt.Sprintf("%d steps, %d blocks", n, g.nextB)
}

func (g *gen) parentPath() []int {
	d := g.r.Pick(5, 4, 2)
	p := make([]int, d)
	for i := range p {
		p[i] = g.r.Intn(3)
	}
	return p
}
