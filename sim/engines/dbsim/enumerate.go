package dbsim

import (
	"encoding/json"
	"fmt"

	"verif/sim/core"
)

// enumerateCrashes is the C17 executor: it runs the workload once without a
// crash to number every interposed event (flat-file mutation or named point)
// of every step, then re-runs the workload once per event with a process stop
// at exactly that event (for writes additionally with a torn in-flight write),
// and, where recovery itself touched files, once more per recovery event with
// a second stop during recovery.
func enumerateCrashes(c *core.Ctx, steps []Step) {
	dry := newRun(c, "dry")
	dry.record = true
	dry.runSteps(steps, 0)
	dry.finish()
	counts := dry.evCount
	kinds := dry.evKinds
	dry.cleanup()
	if c.Violated() {
		return // the fault-free run itself failed; reported as is
	}
	type scen struct {
		step, at, arg int
		power         bool
	}
	var all []scen
	for s := range steps {
		if s >= len(counts) {
			break
		}
		for e := 0; e < counts[s]; e++ {
			all = append(all, scen{s, e, 0, false})
			// the same instant as a power loss: unsynced flat-file bytes are gone
			all = append(all, scen{s, e, 0, true})
			if kinds[s][e] == "write" {
				h := core.NewRng(c.Plan.Seed ^ uint64(s)<<20 ^ uint64(e))
				all = append(all, scen{s, e, 1 + h.Intn(255), false})
			}
		}
	}
	c.ProbeN("crash-positions", len(all))
	max := int(c.Plan.Knob("maxscen", 250))
	stride := 1
	if len(all) > max {
		stride = (len(all) + max - 1) / max
		c.Probe("workload-sampled-not-exhaustive")
	} else {
		c.Probe("workload-fully-enumerated")
	}
	only := c.Plan.Knob("only", -1)
	ran := 0
	for i := 0; i < len(all); i += stride {
		if only >= 0 && int64(i) != only {
			continue
		}
		sc := all[i]
		runScenario := func(crash2 *Fault) int {
			sp := append([]Step(nil), steps...)
			cut := sc.step + 4
			if cut < len(sp) {
				sp = sp[:cut]
			}
			st := sp[sc.step]
			st.Crash = &Fault{Kind: "crash", At: sc.at, Arg: sc.arg, Power: sc.power}
			st.Crash2 = crash2
			sp[sc.step] = st
			before := c.NumViolations()
			r := newRun(c, "s")
			c.Logf("scenario step=%d at=%d arg=%d kind=%s crash2=%v", sc.step, sc.at, sc.arg, kinds[sc.step][sc.at], crash2 != nil)
			r.runSteps(sp, 0)
			r.finish()
			rec := r.recEvents
			r.cleanup()
			ran++
			if c.NumViolations() > before {
				rp := c.Plan.Clone()
				rp.SetKnob("enumerate", 0)
				rp.Steps = nil
				for _, x := range sp {
					b, _ := json.Marshal(x)
					rp.Steps = append(rp.Steps, b)
				}
				if rp.Meta == nil {
					rp.Meta = map[string]string{}
				}
				rp.Meta["crash"] = fmt.Sprintf("process stop in step %d at event %d (%s), torn=%d/256, second stop in recovery: %v", sc.step, sc.at, kinds[sc.step][sc.at], sc.arg, crash2)
				c.AttachPlan(before, rp)
			}
			return rec
		}
		rec := runScenario(nil)
		if c.Violated() {
			return
		}
		for e2 := 0; e2 < rec && e2 < 8; e2++ {
			runScenario(&Fault{Kind: "crash", At: e2})
			if c.Violated() {
				return
			}
		}
	}
	c.ProbeN("crash-executions", ran)
}
