package dbsim

import (
	"errors"
	"fmt"
	"io"
	"os"
	"path/filepath"
	"testing/synctest"

	"github.com/elastos/Elastos.ELA/database/ffldb"
)

// Fault is an injected I/O fault or process stop, positioned by the index of
// the interposed event (flat-file mutation or named point) inside one step.
type Fault struct {
	Kind string `json:"kind"` // crash | werr | syncerr | openerr | truncerr | delerr
	At   int    `json:"at"`
	Arg  int    `json:"arg,omitempty"` // 0..255: fraction of an in-flight write that reaches the file
	// Power: the stop is a power loss, not a process death: of every flat file
	// only the bytes covered by a completed Sync survive (the key-value store's
	// own files are kept as written - the operating system may write back in
	// any order, and "metadata ahead of block data" is the dangerous one).
	Power bool `json:"power,omitempty"`
}

var errInjected = errors.New("simulated I/O error")

type crashSentinel struct{}

// simDisk interposes on every flat-file operation of ffldb and on its named
// points. It numbers mutating events per step, injects the armed fault when
// its index comes up, and implements process stop: quiesce, snapshot the data
// directory, freeze (every later mutation panics with the sentinel).
type simDisk struct {
	dir       string // live data dir
	snapDir   string // where the crash snapshot goes
	events    int    // events seen in the current step
	kinds     []string
	armed     *Fault // I/O error fault
	crash     *Fault // process stop
	frozen    bool
	fired     []string
	onPoint   func(name string)
	diskFull  bool
	crashed   bool
	inBubble  bool
	powerLoss bool
	synced    map[uint32]int64 // file -> length known synced (power-loss stratum)
	length    map[uint32]int64
}

func (d *simDisk) beginStep(io *Fault, crash *Fault) {
	d.events = 0
	d.kinds = d.kinds[:0]
	d.armed = io
	d.crash = crash
}

// next numbers one mutating event and says which fault, if any, fires on it.
func (d *simDisk) next(kind string) (ioFault *Fault, crash *Fault) {
	if d.frozen {
		panic(crashSentinel{})
	}
	idx := d.events
	d.events++
	d.kinds = append(d.kinds, kind)
	if d.crash != nil && d.crash.At == idx {
		crash = d.crash
	}
	if d.armed != nil && d.armed.At == idx {
		ioFault = d.armed
	}
	return
}

// stop is the simulated process stop.
func (d *simDisk) stop() {
	if d.inBubble {
		synctest.Wait() // leveldb's own goroutines are idle before the directory is copied
	}
	d.frozen = true
	d.crashed = true
	if err := copyTree(d.dir, d.snapDir); err != nil {
		panic(fmt.Sprintf("harness: snapshot failed: %v", err))
	}
	if d.crash != nil && d.crash.Power {
		for num, n := range d.length {
			if s := d.synced[num]; s < n {
				p := filepath.Join(d.snapDir, fmt.Sprintf("%09d.fdb", num))
				if st, err := os.Stat(p); err == nil && st.Size() > s {
					os.Truncate(p, s)
					d.fired = append(d.fired, "power-loss-dropped-unsynced-bytes")
				}
			}
		}
		d.fired = append(d.fired, "crash-is-power-loss")
	}
	panic(crashSentinel{})
}

// noteWrite / noteSync keep the durability model of the flat files.
func (d *simDisk) noteLen(num uint32, f ffldb.VerifFiler) {
	if d.length == nil {
		d.length, d.synced = map[uint32]int64{}, map[uint32]int64{}
	}
	if _, ok := d.length[num]; !ok {
		// first contact in this process life: what is there is on disk
		n := int64(0)
		if p := filepath.Join(d.dir, fmt.Sprintf("%09d.fdb", num)); true {
			if st, err := os.Stat(p); err == nil {
				n = st.Size()
			}
		}
		d.length[num], d.synced[num] = n, n
	}
}

func copyTree(src, dst string) error {
	os.RemoveAll(dst)
	return filepath.Walk(src, func(p string, info os.FileInfo, err error) error {
		if err != nil {
			return err
		}
		rel, _ := filepath.Rel(src, p)
		target := filepath.Join(dst, rel)
		if info.IsDir() {
			return os.MkdirAll(target, 0755)
		}
		in, err := os.Open(p)
		if err != nil {
			return err
		}
		defer in.Close()
		out, err := os.Create(target)
		if err != nil {
			return err
		}
		_, err = io.Copy(out, in)
		out.Close()
		return err
	})
}

type simFile struct {
	d     *simDisk
	num   uint32
	f     ffldb.VerifFiler
	write bool
}

func (d *simDisk) wrap(fileNum uint32, f ffldb.VerifFiler, write bool) (ffldb.VerifFiler, error) {
	if write {
		io, crash := d.next("open")
		if crash != nil {
			d.fired = append(d.fired, "crash@open")
			f.Close()
			d.stop()
		}
		if io != nil && io.Kind == "openerr" {
			d.fired = append(d.fired, "openerr")
			return nil, errInjected
		}
		d.noteLen(fileNum, f)
	}
	return &simFile{d: d, num: fileNum, f: f, write: write}, nil
}

func (d *simDisk) del(fileNum uint32) error {
	io, crash := d.next("delete")
	if crash != nil {
		d.fired = append(d.fired, "crash@delete")
		d.stop()
	}
	if io != nil && io.Kind == "delerr" {
		d.fired = append(d.fired, "delerr")
		return errInjected
	}
	return nil
}

func (d *simDisk) point(name string) {
	if d.frozen {
		panic(crashSentinel{})
	}
	if d.onPoint != nil {
		d.onPoint(name)
	}
	_, crash := d.next("point:" + name)
	if crash != nil {
		d.fired = append(d.fired, "crash@"+name)
		d.stop()
	}
}

func (s *simFile) WriteAt(p []byte, off int64) (int, error) {
	io, crash := s.d.next("write")
	if crash != nil {
		// torn in-flight write: a prefix reaches the file, then the process stops
		n := len(p) * crash.Arg / 256
		if n > 0 {
			s.f.WriteAt(p[:n], off)
			s.wrote(off, n)
			s.d.fired = append(s.d.fired, "crash@write-torn")
		} else {
			s.d.fired = append(s.d.fired, "crash@write")
		}
		s.d.stop()
	}
	if s.d.diskFull {
		s.d.fired = append(s.d.fired, "enospc")
		return 0, errInjected
	}
	if io != nil && io.Kind == "werr" {
		n := len(p) * io.Arg / 256
		if n > 0 {
			s.f.WriteAt(p[:n], off)
			s.wrote(off, n)
		}
		s.d.fired = append(s.d.fired, "werr")
		return n, errInjected
	}
	n, err := s.f.WriteAt(p, off)
	s.wrote(off, n)
	return n, err
}

func (s *simFile) wrote(off int64, n int) {
	s.d.noteLen(s.num, s.f)
	if end := off + int64(n); n > 0 && end > s.d.length[s.num] {
		s.d.length[s.num] = end
	}
}

func (s *simFile) ReadAt(p []byte, off int64) (int, error) { return s.f.ReadAt(p, off) }

func (s *simFile) Truncate(size int64) error {
	io, crash := s.d.next("truncate")
	if crash != nil {
		s.d.fired = append(s.d.fired, "crash@truncate")
		s.d.stop()
	}
	if io != nil && io.Kind == "truncerr" {
		s.d.fired = append(s.d.fired, "truncerr")
		return errInjected
	}
	err := s.f.Truncate(size)
	if err == nil {
		s.d.noteLen(s.num, s.f)
		s.d.length[s.num] = size
		if s.d.synced[s.num] > size {
			s.d.synced[s.num] = size
		}
	}
	return err
}

func (s *simFile) Sync() error {
	io, crash := s.d.next("sync")
	if crash != nil {
		s.d.fired = append(s.d.fired, "crash@sync")
		s.d.stop()
	}
	if io != nil && io.Kind == "syncerr" {
		s.d.fired = append(s.d.fired, "syncerr")
		return errInjected
	}
	err := s.f.Sync()
	if err == nil {
		s.d.noteLen(s.num, s.f)
		s.d.synced[s.num] = s.d.length[s.num]
	}
	return err
}

// Close is not an event: it changes nothing durable. It must keep working after
// a freeze so the abandoned instance can release its descriptors.
func (s *simFile) Close() error { return s.f.Close() }
