package dbsim

import (
	"errors"
	"fmt"
	"io"
	"os"
	"path/filepath"
	"testing/synctest"

	"github.com/elastos/Elastos.ELA/database/ffldb"
)

// Fault is an injected I/O fault or process stop, positioned by the index of
// the interposed event (flat-file mutation or named point) inside one step.
type Fault struct {
	Kind string `json:"kind"` // crash | werr | syncerr | openerr | truncerr | delerr
	At   int    `json:"at"`
	Arg  int    `json:"arg,omitempty"` // 0..255: fraction of an in-flight write that reaches the file
}

var errInjected = errors.New("simulated I/O error")

type crashSentinel struct{}

// simDisk interposes on every flat-file operation of ffldb and on its named
// points. It numbers mutating events per step, injects the armed fault when
// its index comes up, and implements process stop: quiesce, snapshot the data
// directory, freeze (every later mutation panics with the sentinel).
type simDisk struct {
	dir       string // live data dir
	snapDir   string // where the crash snapshot goes
	events    int    // events seen in the current step
	kinds     []string
	armed     *Fault // I/O error fault
	crash     *Fault // process stop
	frozen    bool
	fired     []string
	onPoint   func(name string)
	diskFull  bool
	crashed   bool
	inBubble  bool
	powerLoss bool
	synced    map[uint32]int64 // file -> length known synced (power-loss stratum)
	length    map[uint32]int64
}

func (d *simDisk) beginStep(io *Fault, crash *Fault) {
	d.events = 0
	d.kinds = d.kinds[:0]
	d.armed = io
	d.crash = crash
}

// next numbers one mutating event and says which fault, if any, fires on it.
func (d *simDisk) next(kind string) (ioFault *Fault, crash *Fault) {
	if d.frozen {
		panic(crashSentinel{})
	}
	idx := d.events
	d.events++
	d.kinds = append(d.kinds, kind)
	if d.crash != nil && d.crash.At == idx {
		crash = d.crash
	}
	if d.armed != nil && d.armed.At == idx {
		ioFault = d.armed
	}
	return
}

// stop is the simulated process stop.
func (d *simDisk) stop() {
	if d.inBubble {
		synctest.Wait() // leveldb's own goroutines are idle before the directory is copied
	}
	d.frozen = true
	d.crashed = true
	if err := copyTree(d.dir, d.snapDir); err != nil {
		panic(fmt.Sprintf("harness: snapshot failed: %v", err))
	}
	panic(crashSentinel{})
}

func copyTree(src, dst string) error {
	os.RemoveAll(dst)
	return filepath.Walk(src, func(p string, info os.FileInfo, err error) error {
		if err != nil {
			return err
		}
		rel, _ := filepath.Rel(src, p)
		target := filepath.Join(dst, rel)
		if info.IsDir() {
			return os.MkdirAll(target, 0755)
		}
		in, err := os.Open(p)
		if err != nil {
			return err
		}
		defer in.Close()
		out, err := os.Create(target)
		if err != nil {
			return err
		}
		_, err = io.Copy(out, in)
		out.Close()
		return err
	})
}

type simFile struct {
	d     *simDisk
	num   uint32
	f     ffldb.VerifFiler
	write bool
}

func (d *simDisk) wrap(fileNum uint32, f ffldb.VerifFiler, write bool) (ffldb.VerifFiler, error) {
	if write {
		io, crash := d.next("open")
		if crash != nil {
			d.fired = append(d.fired, "crash@open")
			f.Close()
			d.stop()
		}
		if io != nil && io.Kind == "openerr" {
			d.fired = append(d.fired, "openerr")
			return nil, errInjected
		}
	}
	return &simFile{d: d, num: fileNum, f: f, write: write}, nil
}

func (d *simDisk) del(fileNum uint32) error {
	io, crash := d.next("delete")
	if crash != nil {
		d.fired = append(d.fired, "crash@delete")
		d.stop()
	}
	if io != nil && io.Kind == "delerr" {
		d.fired = append(d.fired, "delerr")
		return errInjected
	}
	return nil
}

func (d *simDisk) point(name string) {
	if d.frozen {
		panic(crashSentinel{})
	}
	if d.onPoint != nil {
		d.onPoint(name)
	}
	_, crash := d.next("point:" + name)
	if crash != nil {
		d.fired = append(d.fired, "crash@"+name)
		d.stop()
	}
}

func (s *simFile) WriteAt(p []byte, off int64) (int, error) {
	io, crash := s.d.next("write")
	if crash != nil {
		// torn in-flight write: a prefix reaches the file, then the process stops
		n := len(p) * crash.Arg / 256
		if n > 0 {
			s.f.WriteAt(p[:n], off)
			s.d.fired = append(s.d.fired, "crash@write-torn")
		} else {
			s.d.fired = append(s.d.fired, "crash@write")
		}
		s.d.stop()
	}
	if s.d.diskFull {
		s.d.fired = append(s.d.fired, "enospc")
		return 0, errInjected
	}
	if io != nil && io.Kind == "werr" {
		n := len(p) * io.Arg / 256
		if n > 0 {
			s.f.WriteAt(p[:n], off)
		}
		s.d.fired = append(s.d.fired, "werr")
		return n, errInjected
	}
	return s.f.WriteAt(p, off)
}

func (s *simFile) ReadAt(p []byte, off int64) (int, error) { return s.f.ReadAt(p, off) }

func (s *simFile) Truncate(size int64) error {
	io, crash := s.d.next("truncate")
	if crash != nil {
		s.d.fired = append(s.d.fired, "crash@truncate")
		s.d.stop()
	}
	if io != nil && io.Kind == "truncerr" {
		s.d.fired = append(s.d.fired, "truncerr")
		return errInjected
	}
	return s.f.Truncate(size)
}

func (s *simFile) Sync() error {
	io, crash := s.d.next("sync")
	if crash != nil {
		s.d.fired = append(s.d.fired, "crash@sync")
		s.d.stop()
	}
	if io != nil && io.Kind == "syncerr" {
		s.d.fired = append(s.d.fired, "syncerr")
		return errInjected
	}
	return s.f.Sync()
}

// Close is not an event: it changes nothing durable. It must keep working after
// a freeze so the abandoned instance can release its descriptors.
func (s *simFile) Close() error { return s.f.Close() }
