// Package walletsim is the C37 engine: wallet actors (real account.Client
// keystores) sign transfer transactions with standard, m-of-n and aggregated
// Schnorr accounts and send them over a simulated corrupting link to the
// node-side signature check (blockchain.RunPrograms).
//
// This engine is built with the repository's own toolchain (go 1.20 language
// level): no builtin min/max, no range-over-int, no testing/synctest.
package walletsim

import (
	"bytes"
	"encoding/json"
	"fmt"
	"hash/fnv"
	"math"
	"math/big"
	"os"
	"path/filepath"
	"strings"
	"sync"

	"github.com/elastos/Elastos.ELA/account"
	"github.com/elastos/Elastos.ELA/blockchain"
	"github.com/elastos/Elastos.ELA/common"
	elog "github.com/elastos/Elastos.ELA/common/log"
	"github.com/elastos/Elastos.ELA/core/contract"
	pg "github.com/elastos/Elastos.ELA/core/contract/program"
	"github.com/elastos/Elastos.ELA/core/transaction"
	common2 "github.com/elastos/Elastos.ELA/core/types/common"
	"github.com/elastos/Elastos.ELA/core/types/functions"
	"github.com/elastos/Elastos.ELA/core/types/interfaces"
	"github.com/elastos/Elastos.ELA/core/types/outputpayload"
	"github.com/elastos/Elastos.ELA/core/types/payload"
	"github.com/elastos/Elastos.ELA/crypto"

	"verif/sim/core"
)

type Engine struct{}

func (Engine) Name() string { return "walletsim" }

func (Engine) Components() ([]string, []string) {
	return []string{
			"account.Client on keystore files (CreateFromAccount, SaveAccount, Open/LoadAccounts, Sign, MultiSign -> SignStandardTransaction / SignMultiSignTransaction / SignMultiSignTransactionByM / SignBySigner)",
			"account.NewAccountWithPrivateKey, account.NewSchnorrAggregateAccount",
			"crypto.Sign / Verify / VerifyMultisigSignatures / AggregateSignatures / SchnorrVerify (shipped toolchain go1.23.5)",
			"core/contract CreateStandardContract / CreateMultiSigContract / CreateSchnorrContract",
			"blockchain.RunPrograms (node-side signature check)",
			"core/transaction serialisation (SerializeUnsigned, Serialize, GetTransactionByBytes + Deserialize for the wire path)",
			"common.Uint168 ToAddress / Uint168FromAddress, common.Fixed64 String / StringToFixed64",
		}, []string{
			"Schnorr signing step of the wallet: cmd/script/api signSchnorrTx (6 lines: AggregateSignatures over Sha256D(unsigned), program = redeem script + signature) is mirrored; the Lua binding itself is not driven",
			"link between wallet and node: byte flips, signature duplication / swapping / reordering / dropping are explicit plan steps",
			"node side: RunPrograms with the program hash of the spent address supplied by the harness (no UTXO set)",
		}
}

// Step is one fault applied to a pristine wallet-signed transaction.
type Step struct {
	Op   string `json:"op"` // flip-data | wire-flip | flip-code | flip-param | dup-sig | swap | reorder | drop | sweep
	Pos  int    `json:"pos,omitempty"`
	Mask int    `json:"mask,omitempty"`
	K    int    `json:"k,omitempty"`
	Src  int    `json:"src,omitempty"`
	Perm uint64 `json:"perm,omitempty"`
}

func (Engine) Generate(r *core.Rng, property, tier string) *core.Plan {
	p := &core.Plan{Knobs: map[string]int64{}, Meta: map[string]string{}}
	kind := r.Pick(4, 5, 3) // 0 standard, 1 multisig, 2 schnorr
	p.SetKnob("kind", int64(kind))
	p.SetKnob("keyseed", int64(r.U64()>>1))
	n := r.Range(1, 6)
	m := r.Range(1, n)
	p.SetKnob("n", int64(n))
	p.SetKnob("m", int64(m))
	p.SetKnob("signers", int64(r.Range(m, n))) // how many cosigners actually sign
	p.SetKnob("order", int64(r.U64()>>1))      // signing order of the cosigner wallets
	p.SetKnob("bym", int64(r.Pick(3, 1)))      // 1: one wallet holding several keys uses Client.MultiSign(m)
	p.SetKnob("reopen", int64(r.Intn(2)))      // sign with a client re-opened from the keystore file
	p.SetKnob("nin", int64(r.Range(1, 4)))
	p.SetKnob("nout", int64(r.Range(1, 4)))
	p.SetKnob("txseed", int64(r.U64()>>1))
	if r.Bool(0.12) {
		p.Meta["stratum"] = "fault-free"
		return p
	}
	p.Meta["stratum"] = "corrupting-link"
	nf := r.Range(1, 10)
	for i := 0; i < nf; i++ {
		st := Step{Pos: r.Intn(1 << 20), Mask: 1 + r.Intn(255)}
		switch r.Pick(8, 4, 2, 4, 3, 2, 2, 2) {
		case 0:
			st.Op = "flip-data"
			if r.Bool(0.3) {
				st.Mask = 1 << uint(r.Intn(8)) // single bit
			}
		case 1:
			st.Op = "wire-flip"
		case 2:
			st.Op = "flip-code"
		case 3:
			st.Op = "flip-param"
		case 4:
			st.Op = "dup-sig"
			st.K = r.Intn(6)
			st.Src = r.Intn(6)
		case 5:
			st.Op = "swap"
		case 6:
			st.Op = "reorder"
			st.Perm = r.U64()
		default:
			st.Op = "drop"
		}
		p.Add(st)
	}
	if r.Bool(0.25) {
		p.Add(Step{Op: "sweep", Mask: 1 + r.Intn(255)})
	}
	return p
}

var wireOnce sync.Once

func tmpBase() string {
	if d := os.Getenv("SIM_TMP"); d != "" {
		return d
	}
	return os.TempDir()
}

func wire() {
	wireOnce.Do(func() {
		functions.GetTransactionByTxType = transaction.GetTransaction
		functions.GetTransactionByBytes = transaction.GetTransactionByBytes
		functions.CreateTransaction = transaction.CreateTransaction
		functions.GetTransactionParameters = transaction.GetTransactionparameters
		elog.NewDefault(filepath.Join(tmpBase(), "walletsim-logs"), 255, 0, 0)
	})
}

func mkAccount(seed uint64, purpose string, i int) *account.Account {
	r := core.NewRng(seed).Fork(fmt.Sprintf("%s-%d", purpose, i))
	for {
		priv := r.Bytes(32)
		priv[0] &= 0x7f
		if new(big.Int).SetBytes(priv).Sign() == 0 {
			continue
		}
		if r.Bool(0.25) && priv[1] != 0 {
			// one key in 256 has a leading zero byte; crypto.GenerateKeyPair
			// hands those out as 31-byte slices (big.Int.Bytes)
			priv = priv[1:]
		}
		a, err := account.NewAccountWithPrivateKey(priv)
		if err != nil {
			continue
		}
		return a
	}
}

type sim struct {
	c        *core.Ctx
	kind     int
	kindName string
	m, n     int
	keys     []*account.Account
	code     []byte
	hash     common.Uint168
	dir      string
	pw       []byte
	wallets  []*account.Client // per key (multisig cosigners) / [0] for standard
	all      *account.Client   // one wallet holding several keys (bym mode)
	schnorr  *account.SchnorAccount
	addrs    []string
	amounts  []common.Fixed64
}

// codecAddress: every address string the wallet produces must parse back to
// the same program hash.
func (s *sim) codecAddress(addr string, want common.Uint168, what string) common.Uint168 {
	c := s.c
	c.Check()
	got, err := common.Uint168FromAddress(addr)
	if err != nil {
		c.Violate("C37", "address-codec", "C37/address-codec/wallet-address-does-not-parse/"+what,
			"address %q produced for program hash %s does not parse: %v", addr, want.String(), err)
		return want
	}
	if !got.IsEqual(want) {
		c.Violate("C37", "address-codec", "C37/address-codec/address-parses-to-other-program-hash/"+what,
			"address %q produced for program hash %s parses to %s", addr, want.String(), got.String())
	}
	c.Probe("address-round-trip")
	return *got
}

func (s *sim) codecHash(h common.Uint168, what string) {
	c := s.c
	addr, err := h.ToAddress()
	c.Check()
	if err != nil {
		c.Violate("C37", "address-codec", "C37/address-codec/program-hash-has-no-address/"+what, "program hash %s: ToAddress failed: %v", h.String(), err)
		return
	}
	s.codecAddress(addr, h, what)
}

func (s *sim) codecAmount(v common.Fixed64, what string) {
	c := s.c
	str := v.String()
	c.Check()
	back, err := common.StringToFixed64(str)
	shape := "fractional-amount"
	if !strings.Contains(str, ".") {
		shape = "whole-amount-up-to-8-chars"
		if len(str) >= 9 {
			shape = "whole-amount-of-9-or-more-chars"
		}
	}
	if err != nil {
		c.Violate("C37", "amount-codec", "C37/amount-codec/amount-string-does-not-parse/"+shape, "Fixed64(%d).String() = %q does not parse: %v (%s)", int64(v), str, err, what)
		return
	}
	if *back != v {
		c.Violate("C37", "amount-codec", "C37/amount-codec/amount-string-parses-to-other-value/"+shape, "Fixed64(%d).String() = %q parses to %d (%s)", int64(v), str, int64(*back), what)
	}
	c.Probe("amount-round-trip")
}

// buildTx: a transfer as the wallet builds it: destination addresses are
// strings that are parsed back to program hashes, amounts likewise.
func (s *sim) buildTx(seed uint64, tag string, nin, nout int) interfaces.Transaction {
	r := core.NewRng(seed).Fork("tx-" + tag)
	var ins []*common2.Input
	for i := 0; i < nin; i++ {
		var id common.Uint256
		copy(id[:], r.Bytes(32))
		ins = append(ins, &common2.Input{Previous: common2.OutPoint{TxID: id, Index: uint16(r.Intn(4))}, Sequence: uint32(r.Intn(3))})
	}
	var outs []*common2.Output
	for i := 0; i < nout; i++ {
		dst := mkAccount(seed, "dst-"+tag, i)
		ph := s.codecAddress(dst.Address, dst.ProgramHash, "standard")
		var amt common.Fixed64
		switch r.Intn(5) {
		case 0:
			amt = common.Fixed64(r.Intn(3))
		case 1:
			amt = common.Fixed64(int64(1+r.Intn(1000)) * 100000000)
		default:
			amt = common.Fixed64(r.Int63n(math.MaxInt64 / 8))
		}
		str := amt.String()
		parsed, err := common.StringToFixed64(str)
		if err == nil {
			s.codecAmount(amt, "transfer-amount")
			amt = *parsed
		} else {
			s.codecAmount(amt, "transfer-amount")
		}
		s.addrs = append(s.addrs, dst.Address)
		s.amounts = append(s.amounts, amt)
		outs = append(outs, &common2.Output{AssetID: common.Uint256{1}, Value: amt, OutputLock: 0, ProgramHash: ph, Type: common2.OTNone, Payload: &outputpayload.DefaultOutput{}})
	}
	nonce := r.Bytes(8)
	attrs := []*common2.Attribute{{Usage: common2.Nonce, Data: nonce}}
	return functions.CreateTransaction(common2.TxVersion09, common2.TransferAsset, 0, &payload.TransferAsset{}, attrs, ins, outs, uint32(r.Intn(1000)), []*pg.Program{})
}

func unsigned(tx interfaces.Transaction) []byte {
	buf := new(bytes.Buffer)
	if err := tx.SerializeUnsigned(buf); err != nil {
		panic("walletsim: SerializeUnsigned: " + err.Error())
	}
	return buf.Bytes()
}

// nodeCheck is the node side: the signature check over the received content.
func (s *sim) nodeCheck(data []byte, progs []*pg.Program) (err error) {
	defer func() {
		if r := recover(); r != nil {
			s.c.Probe("runprograms-panicked")
			err = fmt.Errorf("panic: %v", r)
		}
	}()
	return blockchain.RunPrograms(data, []common.Uint168{s.hash}, progs)
}

// sign lets the wallet actor(s) sign tx; returns the signer key indices in
// signing order (multisig).
func (s *sim) sign(tx interfaces.Transaction) ([]int, error) {
	p := s.c.Plan
	switch s.kind {
	case 0:
		tx.SetPrograms([]*pg.Program{{Code: s.code}})
		_, err := s.wallets[0].Sign(tx)
		return []int{0}, err
	case 1:
		tx.SetPrograms([]*pg.Program{{Code: s.code}})
		if s.all != nil {
			_, err := s.all.MultiSign(s.m, tx)
			// the wallet signs with the keys it holds in script order, at most m+1 of them
			var idx []int
			for i := 0; i < s.n && i <= s.m; i++ {
				idx = append(idx, i)
			}
			return idx, err
		}
		k := int(p.Knob("signers", int64(s.m)))
		if k < s.m {
			k = s.m
		}
		if k > s.n {
			k = s.n
		}
		order := core.NewRng(uint64(p.Knob("order", 1))).Perm(s.n)[:k]
		for _, i := range order {
			if _, err := s.wallets[i].Sign(tx); err != nil {
				return order, err
			}
		}
		return order, nil
	default:
		// cmd/script/api signSchnorrTx
		sig, err := crypto.AggregateSignatures(s.schnorr.PrivateKeys, common.Sha256D(unsigned(tx)))
		if err != nil {
			return nil, err
		}
		tx.SetPrograms([]*pg.Program{{Code: s.schnorr.RedeemScript, Parameter: sig[:]}})
		return nil, nil
	}
}

func (s *sim) openWallet(name string, main *account.Account, extra []*account.Account, reopen bool) *account.Client {
	path := filepath.Join(s.dir, name)
	cl, err := account.CreateFromAccount(path, s.pw, main)
	if err != nil {
		panic("walletsim: create keystore: " + err.Error())
	}
	for _, a := range extra {
		if err := cl.SaveAccount(a); err != nil {
			panic("walletsim: SaveAccount: " + err.Error())
		}
	}
	if reopen {
		cl2, err := account.Open(path, s.pw)
		if err != nil {
			panic("walletsim: reopen keystore: " + err.Error())
		}
		s.c.Probe("keystore-reopened")
		return cl2
	}
	return cl
}

func (e Engine) Execute(c *core.Ctx) {
	wire()
	p := c.Plan
	s := &sim{c: c, kind: int(p.Knob("kind", 0)), m: int(p.Knob("m", 1)), n: int(p.Knob("n", 1))}
	if s.n < 1 {
		s.n = 1
	}
	if s.n > 6 {
		s.n = 6
	}
	if s.m < 1 {
		s.m = 1
	}
	if s.m > s.n {
		s.m = s.n
	}
	seed := uint64(p.Knob("keyseed", 1))
	s.kindName = []string{"standard", "multisig", "schnorr"}[s.kind%3]
	s.kind %= 3
	s.dir = filepath.Join(tmpBase(), fmt.Sprintf("walletsim-%d", os.Getpid()))
	os.RemoveAll(s.dir)
	os.MkdirAll(s.dir, 0755)
	defer os.RemoveAll(s.dir)
	s.pw = []byte(fmt.Sprintf("pw-%x", core.NewRng(seed).Fork("pw").U64()))
	reopen := p.Knob("reopen", 0) == 1
	for i := 0; i < s.n; i++ {
		s.keys = append(s.keys, mkAccount(seed, "key", i))
	}
	switch s.kind {
	case 0:
		s.n, s.m = 1, 1
		s.code = s.keys[0].RedeemScript
		s.hash = s.keys[0].ProgramHash
		s.wallets = []*account.Client{s.openWallet("w0.dat", s.keys[0], nil, reopen)}
		s.codecAddress(s.keys[0].Address, s.keys[0].ProgramHash, "standard")
	case 1:
		var pubs []*crypto.PublicKey
		for _, k := range s.keys {
			pubs = append(pubs, k.PublicKey)
		}
		ct, err := contract.CreateMultiSigContract(s.m, pubs)
		if err != nil {
			if len(pubs) < 2 {
				// a one-key multisig is refused at creation (nothing the verifier
				// cannot parse is handed out): nothing to sign or spend
				c.Probe("one-key-multisig-refused-at-creation")
				c.Logf("1-of-1 multisig refused at creation")
				return
			}
			panic("walletsim: CreateMultiSigContract: " + err.Error())
		}
		s.code = ct.Code
		s.hash = *ct.ToProgramHash()
		s.codecHash(s.hash, "multisig")
		// CreateMultiSigContract sorts the keys: find the script order
		ordered, perr := scriptOrder(s.keys, s.code)
		if perr != nil {
			// the wallet created an account (and hands out its address) whose
			// redeem script neither its own signer nor the node can parse
			c.Check()
			tx := s.buildTx(uint64(p.Knob("txseed", 1)), "a", 1, 1)
			tx.SetPrograms([]*pg.Program{{Code: s.code}})
			w := s.openWallet("w0.dat", s.keys[0], nil, reopen)
			_, serr := w.Sign(tx)
			nerr := s.nodeCheck(unsigned(tx), []*pg.Program{{Code: s.code, Parameter: make([]byte, slot)}})
			c.SetSample(map[string]interface{}{"kind": s.kindName, "m": s.m, "n": s.n, "knobs": p.Knobs})
			c.Logf("kind=multisig m=%d n=%d script-unparseable sign-error=%v", s.m, s.n, serr != nil)
			c.Violate("C37", "completeness", fmt.Sprintf("C37/multisig/%d-of-%d-account-created-by-wallet-cannot-be-signed-or-verified", s.m, s.n),
				"contract.CreateMultiSigContract(m=%d, %d keys) and account.NewMultiSigAccount succeed and yield address %s, but crypto.ParseMultisigScript rejects the %d-byte redeem script (%v): Client.Sign fails (%v) and RunPrograms can never accept a spend (%v)",
				s.m, s.n, addrOf(s.hash), len(s.code), perr, serr, nerr)
			return
		}
		s.keys = ordered
		if p.Knob("bym", 0) == 1 {
			s.all = s.openWallet("wall.dat", s.keys[0], s.keys[1:], reopen)
			ms, err := s.all.CreateMultiSigAccount(s.m, pubs)
			if err != nil {
				panic("walletsim: CreateMultiSigAccount: " + err.Error())
			}
			s.codecAddress(ms.Address, ms.ProgramHash, "multisig")
			c.Check()
			if !ms.ProgramHash.IsEqual(s.hash) {
				c.Violate("C37", "address-codec", "C37/multisig-account-hash-differs-from-contract", "wallet multisig account hash %s != contract hash %s", ms.ProgramHash.String(), s.hash.String())
			}
		} else {
			for i, k := range s.keys {
				s.wallets = append(s.wallets, s.openWallet(fmt.Sprintf("w%d.dat", i), k, nil, reopen))
			}
		}
	default:
		s.schnorr = account.NewSchnorrAggregateAccount(s.keys)
		s.code = s.schnorr.RedeemScript
		s.hash = *s.schnorr.ProgramHash
		s.m = 1
		s.codecHash(s.hash, "schnorr")
	}

	txseed := uint64(p.Knob("txseed", 1))
	nin, nout := int(p.Knob("nin", 1)), int(p.Knob("nout", 1))
	tx1 := s.buildTx(txseed, "a", nin, nout)
	tx2 := s.buildTx(txseed, "b", nin, nout)
	signers, err := s.sign(tx1)
	if err != nil {
		c.Check()
		c.Violate("C37", "wallet-signs", "C37/"+s.kindName+"/wallet-failed-to-sign", "wallet could not sign (m=%d n=%d): %v", s.m, s.n, err)
		return
	}
	if _, err := s.sign(tx2); err != nil {
		c.Check()
		c.Violate("C37", "wallet-signs", "C37/"+s.kindName+"/wallet-failed-to-sign", "wallet could not sign second tx (m=%d n=%d): %v", s.m, s.n, err)
		return
	}
	data := unsigned(tx1)
	progs := tx1.Programs()
	c.SetSample(map[string]interface{}{"kind": s.kindName, "m": s.m, "n": s.n, "signers": len(signers), "unsigned_len": len(data), "knobs": p.Knobs, "steps": sample(p.Steps, 10)})
	c.Logf("kind=%s m=%d n=%d signers=%v bym=%v reopen=%v unsigned=%d param=%d", s.kindName, s.m, s.n, signers, s.all != nil, reopen, len(data), len(progs[0].Parameter))
	c.State(fp(s.kind, s.m, s.n, len(signers), len(data)))

	// untampered => accepted (both transactions)
	c.Check()
	if err := s.nodeCheck(data, progs); err != nil {
		c.Violate("C37", "completeness", "C37/"+s.kindName+"/untampered-wallet-signed-transaction-rejected",
			"wallet-signed %s transaction (m=%d n=%d, %d signatures, bym=%v, reopened=%v) rejected by RunPrograms: %v", s.kindName, s.m, s.n, len(signers), s.all != nil, reopen, err)
		return
	}
	c.Check()
	if err := s.nodeCheck(unsigned(tx2), tx2.Programs()); err != nil {
		c.Violate("C37", "completeness", "C37/"+s.kindName+"/untampered-wallet-signed-transaction-rejected", "second wallet-signed transaction rejected: %v", err)
		return
	}
	c.Probe("untampered-accepted-" + s.kindName)

	for i, raw := range p.Steps {
		c.CurStep = i
		var st Step
		if err := json.Unmarshal(raw, &st); err != nil {
			panic(fmt.Sprintf("bad step %d: %v", i, err))
		}
		s.apply(st, tx1, tx2, data, progs)
		if c.NumViolations() >= c.MaxViols {
			return
		}
	}
	c.CurStep = len(p.Steps)
	s.codecBoundaries(seed)
}

func cloneProg(p *pg.Program) *pg.Program {
	return &pg.Program{Code: append([]byte(nil), p.Code...), Parameter: append([]byte(nil), p.Parameter...)}
}

func (s *sim) mustReject(err error, sig, format string, a ...interface{}) {
	s.c.Check()
	if err == nil {
		s.c.Violate("C37", "only-for-signed-data", "C37/"+s.kindName+"/"+sig, format, a...)
	}
}

const slot = crypto.SignatureScriptLength // 1 length byte + 64 signature bytes

func (s *sim) apply(st Step, tx1, tx2 interfaces.Transaction, data []byte, progs []*pg.Program) {
	c := s.c
	mask := byte(st.Mask)
	if mask == 0 {
		mask = 1
	}
	nsig := len(progs[0].Parameter) / slot
	switch st.Op {
	case "flip-data":
		pos := st.Pos % len(data)
		d := append([]byte(nil), data...)
		d[pos] ^= mask
		c.Fault("signed-content-byte-flipped")
		err := s.nodeCheck(d, progs)
		c.Logf("flip-data pos=%d mask=%02x rejected=%v", pos, mask, err != nil)
		s.mustReject(err, "signed-content-byte-changed-still-accepted", "byte %d of the %d-byte signed content xor %02x: RunPrograms still accepts the %s signature (m=%d n=%d)", pos, len(data), mask, s.kindName, s.m, s.n)
	case "sweep":
		// every byte position of the signed content once
		step := 1
		if s.kind == 1 && len(data)*s.m*s.n > 2000 {
			step = 1 + len(data)*s.m*s.n/2000
		}
		bad := -1
		for pos := st.Pos % step; pos < len(data); pos += step {
			d := append([]byte(nil), data...)
			d[pos] ^= mask
			c.Check()
			if s.nodeCheck(d, progs) == nil && bad < 0 {
				bad = pos
			}
			c.Probe("sweep-positions")
		}
		c.Fault("signed-content-swept")
		if step == 1 {
			c.Probe("sweep-exhaustive")
		}
		c.Logf("sweep len=%d step=%d mask=%02x all-rejected=%v", len(data), step, mask, bad < 0)
		if bad >= 0 {
			c.Violate("C37", "only-for-signed-data", "C37/"+s.kindName+"/signed-content-byte-changed-still-accepted", "byte %d of the %d-byte signed content xor %02x: RunPrograms still accepts", bad, len(data), mask)
		}
	case "wire-flip":
		buf := new(bytes.Buffer)
		if err := tx1.Serialize(buf); err != nil {
			panic("walletsim: Serialize: " + err.Error())
		}
		wireb := buf.Bytes()
		pos := st.Pos % len(data) // the unsigned part is the prefix of the wire form
		wireb[pos] ^= mask
		c.Fault("wire-byte-flipped")
		rd := bytes.NewReader(wireb)
		var derr error
		var got interfaces.Transaction
		func() {
			defer func() {
				if r := recover(); r != nil {
					derr = fmt.Errorf("panic: %v", r)
					c.Probe("decode-panicked")
				}
			}()
			got, derr = functions.GetTransactionByBytes(rd)
			if derr == nil {
				derr = got.Deserialize(rd)
			}
		}()
		if derr != nil {
			c.Probe("wire-flip-undecodable")
			c.Logf("wire-flip pos=%d mask=%02x undecodable", pos, mask)
			return
		}
		var d2 []byte
		func() {
			defer func() {
				if r := recover(); r != nil {
					derr = fmt.Errorf("panic: %v", r)
				}
			}()
			b := new(bytes.Buffer)
			if e := got.SerializeUnsigned(b); e != nil {
				derr = e
			}
			d2 = b.Bytes()
		}()
		if derr != nil || len(got.Programs()) != 1 {
			c.Probe("wire-flip-undecodable")
			c.Logf("wire-flip pos=%d mask=%02x unserialisable", pos, mask)
			return
		}
		if bytes.Equal(d2, data) {
			// the flipped wire byte decoded to the same content: the signed data did not change
			c.Probe("wire-flip-decodes-to-identical-content")
			c.Note("a flipped wire byte decodes to identical signed content (non-canonical encoding accepted by the decoder)")
			c.Logf("wire-flip pos=%d mask=%02x same-content", pos, mask)
			return
		}
		err := s.nodeCheck(d2, got.Programs())
		c.Probe("wire-flip-decoded")
		c.Logf("wire-flip pos=%d mask=%02x decoded rejected=%v", pos, mask, err != nil)
		s.mustReject(err, "signed-content-byte-changed-still-accepted", "wire byte %d xor %02x decodes to a different transaction that RunPrograms still accepts", pos, mask)
	case "flip-code":
		pr := cloneProg(progs[0])
		pos := st.Pos % len(pr.Code)
		pr.Code[pos] ^= mask
		c.Fault("code-byte-flipped")
		err := s.nodeCheck(data, []*pg.Program{pr})
		c.Check()
		if err == nil {
			c.Probe("code-flip-accepted")
			c.Note("a flipped redeem-script byte was accepted (kind %s)", s.kindName)
		} else {
			c.Probe("code-flip-rejected")
		}
		c.Logf("flip-code pos=%d mask=%02x rejected=%v", pos, mask, err != nil)
	case "flip-param":
		pr := cloneProg(progs[0])
		pos := st.Pos % len(pr.Parameter)
		pr.Parameter[pos] ^= mask
		c.Fault("parameter-byte-flipped")
		err := s.nodeCheck(data, []*pg.Program{pr})
		intact := nsig
		inSig := true
		if s.kind != 2 {
			inSig = pos%slot != 0 // byte 0 of each slot is the push-length byte
		}
		if inSig {
			intact--
		}
		if s.kind == 2 {
			intact = 0
		}
		c.Logf("flip-param pos=%d mask=%02x in-signature=%v intact=%d rejected=%v", pos, mask, inSig, intact, err != nil)
		if intact < s.m {
			s.mustReject(err, "accepted-with-fewer-than-m-intact-signatures", "parameter byte %d xor %02x leaves %d intact signatures, m=%d, yet RunPrograms accepts", pos, mask, intact, s.m)
		} else {
			c.Check()
			if err == nil {
				c.Probe("param-flip-accepted-enough-intact-signatures")
			} else {
				c.Probe("param-flip-rejected")
			}
		}
	case "dup-sig":
		if s.kind != 1 || s.m < 2 || nsig < 1 {
			return
		}
		// k distinct signatures (k < m), the rest of the m (or more) slots filled with copies
		k := 1 + st.K%(s.m-1)
		if k > nsig {
			k = nsig
		}
		src := st.Src % k
		total := s.m + st.Pos%(s.n-s.m+1)
		pr := cloneProg(progs[0])
		par := append([]byte(nil), progs[0].Parameter[:k*slot]...)
		for len(par)/slot < total {
			par = append(par, progs[0].Parameter[src*slot:(src+1)*slot]...)
		}
		pr.Parameter = par
		c.Fault("signature-duplicated-to-fill-slots")
		err := s.nodeCheck(data, []*pg.Program{pr})
		c.Logf("dup-sig distinct=%d total=%d m=%d rejected=%v", k, total, s.m, err != nil)
		s.mustReject(err, "duplicated-signer-counted-twice", "%d distinct signatures padded with copies to %d slots accepted for m=%d of n=%d", k, total, s.m, s.n)
	case "swap":
		if bytes.Equal(unsigned(tx2), data) {
			return
		}
		c.Fault("signatures-swapped-between-transactions")
		err := s.nodeCheck(data, tx2.Programs())
		c.Logf("swap rejected=%v", err != nil)
		s.mustReject(err, "signature-of-other-transaction-accepted", "signatures made for another transaction accepted (%s m=%d n=%d)", s.kindName, s.m, s.n)
	case "reorder":
		if s.kind != 1 || nsig < 2 {
			return
		}
		perm := core.NewRng(st.Perm).Perm(nsig)
		pr := cloneProg(progs[0])
		par := make([]byte, 0, len(pr.Parameter))
		for _, i := range perm {
			par = append(par, progs[0].Parameter[i*slot:(i+1)*slot]...)
		}
		pr.Parameter = par
		c.Fault("signatures-delivered-out-of-order")
		err := s.nodeCheck(data, []*pg.Program{pr})
		c.Logf("reorder n=%d accepted=%v", nsig, err == nil)
		c.Check()
		if err != nil {
			// any order is what cosigner wallets signing in that order produce
			c.Violate("C37", "completeness", "C37/multisig/valid-signatures-in-other-order-rejected", "%d valid signatures of distinct cosigners (m=%d n=%d) rejected when delivered in another order: %v", nsig, s.m, s.n, err)
		}
	case "drop":
		if s.kind != 1 || s.m < 1 {
			return
		}
		keep := s.m - 1
		pr := cloneProg(progs[0])
		pr.Parameter = append([]byte(nil), progs[0].Parameter[:keep*slot]...)
		c.Fault("signatures-dropped-below-m")
		err := s.nodeCheck(data, []*pg.Program{pr})
		c.Logf("drop keep=%d m=%d rejected=%v", keep, s.m, err != nil)
		s.mustReject(err, "accepted-with-fewer-than-m-intact-signatures", "only %d signatures for m=%d accepted", keep, s.m)
	}
}

// codecBoundaries: boundary amounts and program hashes of every issued prefix.
func (s *sim) codecBoundaries(seed uint64) {
	r := core.NewRng(seed).Fork("codec")
	vals := []int64{0, 1, -1, math.MaxInt64, math.MinInt64, math.MaxInt64 - 1, math.MinInt64 + 1, 100000000, -100000000, 99999999, -99999999, 100000001, 10, 12345678900000000, 10000000000000000, 9999999900000000, -1000000000000000, -10000000000000000}
	for i := 0; i < 8; i++ {
		vals = append(vals, int64(r.U64()), int64(r.Intn(1000))*100000000, -int64(r.Intn(1000000)))
	}
	for _, v := range vals {
		s.codecAmount(common.Fixed64(v), "boundary")
	}
	prefixes := []contract.PrefixType{contract.PrefixStandard, contract.PrefixMultiSig, contract.PrefixCrossChain, contract.PrefixDeposit, contract.PrefixCRDID, contract.PrefixDPoSV2}
	for _, pf := range prefixes {
		for j := 0; j < 4; j++ {
			var h common.Uint168
			h[0] = byte(pf)
			switch j {
			case 0:
			case 1:
				for i := 1; i < len(h); i++ {
					h[i] = 0xff
				}
			default:
				copy(h[1:], r.Bytes(20))
			}
			s.codecHash(h, fmt.Sprintf("prefix-%02x", byte(pf)))
		}
	}
}

func addrOf(h common.Uint168) string {
	a, _ := h.ToAddress()
	return a
}

func scriptOrder(keys []*account.Account, code []byte) ([]*account.Account, error) {
	pubs, err := crypto.ParseMultisigScript(code)
	if err != nil {
		return nil, err
	}
	var out []*account.Account
	for _, pk := range pubs {
		for _, k := range keys {
			enc, _ := k.PublicKey.EncodePoint(true)
			if bytes.Equal(enc, pk[1:]) {
				out = append(out, k)
			}
		}
	}
	if len(out) != len(keys) {
		panic("walletsim: cannot map script keys")
	}
	return out, nil
}

func fp(a, b, c, d, e int) uint64 {
	h := fnv.New64a()
	fmt.Fprintf(h, "%d|%d|%d|%d|%d", a, b, c, d, e)
	return h.Sum64()
}

func sample(s []json.RawMessage, n int) []json.RawMessage {
	if len(s) > n {
		return s[:n]
	}
	return s
}
