// Package powsim checks C09: compact target encoding, the proof-of-work check
// and difficulty retargeting, on a simulated chain of headers.
//
// Simulated miners with skewed, jumping clocks produce headers on top of a
// chain of real blockchain.BlockNode values; the required Bits come from the
// real BlockChain.CalcNextRequiredDifficulty (through a verif export that
// builds a BlockChain carrying only the retarget configuration), the parent
// chain header is produced by the real auxpow.GenerateAuxPow and solved by
// nonce search, and every header - honest or Byzantine - goes through the
// real CheckProofOfWork. The retargeting configuration is small (4..12 blocks
// per retarget) so a run sees many retargets; PowLimit varies per run.
package powsim

import (
	"bytes"
	"crypto/sha256"
	"encoding/json"
	"fmt"
	"hash/fnv"
	"math/big"
	"os"
	"path/filepath"
	"sync"
	"time"

	"github.com/elastos/Elastos.ELA/auxpow"
	"github.com/elastos/Elastos.ELA/blockchain"
	ecommon "github.com/elastos/Elastos.ELA/common"
	"github.com/elastos/Elastos.ELA/common/config"
	elog "github.com/elastos/Elastos.ELA/common/log"
	tcommon "github.com/elastos/Elastos.ELA/core/types/common"

	"verif/sim/core"
)

type Engine struct{}

func (Engine) Name() string { return "powsim" }

func (Engine) Components() ([]string, []string) {
	return []string{"blockchain.CompactToBig / BigToCompact / HashToBig / CalcWork", "blockchain.BlockChain.CalcNextRequiredDifficulty over real BlockNode chains (retarget fields via verif export VerifNewRetargetChain, same expressions as blockchain.New)", "blockchain.CheckProofOfWork", "auxpow.GenerateAuxPow + BtcHeader.Hash (parent-chain header, solved by nonce search)"},
		[]string{"block acceptance glue = CheckProofOfWork plus the Bits equality test of CheckBlockContext (2 lines mirrored); no database, no transactions, no AuxPow merkle check (C10)", "miners: honest and Byzantine actors with skewed/jumping clocks on the synctest fake clock; block time grows with difficulty (hashrate model)"}
}

// Step is one mining attempt by one miner.
type Step struct {
	M    int    `json:"m"`              // miner
	Dt   int64  `json:"dt"`             // true seconds since the previous step (before the hashrate model)
	Jump int64  `json:"jump,omitempty"` // the miner's clock jumps by this many seconds before stamping
	Byz  string `json:"byz,omitempty"`  // Byzantine behaviour, "" = honest
	X    uint32 `json:"x,omitempty"`    // parameter of the Byzantine behaviour
}

var byzKinds = []string{"lowwork", "above-limit", "zero-target", "negative-target", "wrong-bits", "huge-exponent", "stale-bits"}

func (Engine) Generate(r *core.Rng, property, tier string) *core.Plan {
	p := &core.Plan{Knobs: map[string]int64{}}
	// retarget configuration
	tpb := int64(r.Range(2, 60))
	per := int64(r.Range(4, 12))
	af := int64([]int{2, 3, 4, 4, 4, 8}[r.Intn(6)])
	span := tpb * per
	if r.Bool(0.85) {
		// the usual case: timespan divisible by the factor
		span = span / af * af
		if span < af*2 {
			span = af * 2
		}
		tpb = span / per
		if tpb < 1 {
			tpb = 1
		}
	}
	p.SetKnob("tpb", tpb)
	p.SetKnob("span", span)
	p.SetKnob("af", af)
	// PowLimit: probability of a hash meeting the limit between 1/2 and 2^-6
	var limit uint32
	switch r.Intn(4) {
	case 0:
		limit = 0x20000000 | uint32(r.LogUniform(0x040000, 0x7fffff))
	case 1:
		limit = 0x207ffffe - uint32(r.Intn(4))
	case 2:
		limit = 0x20000000 | uint32(r.LogUniform(0x020000, 0x7fffff))
	default:
		limit = 0x2000ffff + uint32(r.Intn(0x700000))
	}
	p.SetKnob("limit", int64(limit))
	miners := r.Range(1, 4)
	p.SetKnob("miners", int64(miners))
	for i := 0; i < miners; i++ {
		sk := int64(0)
		if r.Bool(0.6) {
			sk = r.Int63n(2*span+1) - span // skew up to a whole timespan either way
		}
		p.SetKnob(fmt.Sprintf("skew%d", i), sk)
	}
	// hashrate regime: mean true interval relative to the target time per block
	regime := []float64{1.0 / 24, 1.0 / 6, 0.5, 1, 1, 2, 6, 24}[r.Intn(8)]
	n := r.Range(30, 140)
	if tier == "thorough" {
		n = r.Range(30, 320)
	}
	for i := 0; i < n; i++ {
		s := Step{M: r.Intn(miners)}
		base := float64(tpb) * regime
		f := []float64{0.1, 0.5, 1, 1, 1, 2, 5}[r.Intn(7)]
		dt := int64(base*f + 0.5)
		if dt < 0 {
			dt = 0
		}
		s.Dt = dt
		switch r.Pick(70, 10, 5, 3) {
		case 1: // clock jumps of the order of a block time
			s.Jump = r.Int63n(8*tpb+1) - 4*tpb
		case 2: // of the order of the timespan and beyond: actual timespans far outside [min,max]
			s.Jump = r.Int63n(16*span+1) - 8*span
		case 3: // absurd: years
			s.Jump = r.Int63n(200_000_000) - 100_000_000
		}
		if r.Bool(0.16) {
			s.Byz = byzKinds[r.Intn(len(byzKinds))]
			s.X = uint32(r.U64())
		}
		// regime drift
		if r.Bool(0.03) {
			regime = []float64{1.0 / 24, 1.0 / 6, 0.5, 1, 2, 6, 24}[r.Intn(7)]
		}
		p.Add(s)
	}
	if r.Bool(0.3) {
		// the configured starting bits (PowLimitBits) name a harder target than
		// the limit itself (PowLimit / 2^floor), as the shipped parameters do
		// (limit 2^255-1, starting bits 0x1f0008ff): the chain starts there and
		// retargets may ease up to the limit
		p.SetKnob("floor", int64(r.Range(1, 6)))
	}
	return p
}

// ---- reference encoding (written from the compact-format specification) -----

var big256 = big.NewInt(256)

// refDecode: N = (-1^sign) * mantissa * 256^(exponent-3).
func refDecode(c uint32) *big.Int {
	mant := int64(c & 0x007fffff)
	exp := int(c >> 24)
	n := big.NewInt(mant)
	if exp >= 3 {
		n.Mul(n, new(big.Int).Exp(big256, big.NewInt(int64(exp-3)), nil))
	} else {
		n.Quo(n, new(big.Int).Exp(big256, big.NewInt(int64(3-exp)), nil))
	}
	if c&0x00800000 != 0 {
		n.Neg(n)
	}
	return n
}

// refEncode: the canonical encoding - smallest exponent whose 23-bit mantissa
// holds the most significant bytes of |n|, mantissa truncated.
func refEncode(n *big.Int) uint32 {
	if n.Sign() == 0 {
		return 0
	}
	a := new(big.Int).Abs(n)
	size := (a.BitLen() + 7) / 8
	var mant uint32
	if size <= 3 {
		mant = uint32(a.Uint64()) << (8 * uint(3-size))
	} else {
		mant = uint32(new(big.Int).Rsh(a, 8*uint(size-3)).Uint64())
	}
	if mant&0x00800000 != 0 {
		mant >>= 8
		size++
	}
	c := uint32(size)<<24 | mant
	if n.Sign() < 0 {
		c |= 0x00800000
	}
	return c
}

func canonical(c uint32) bool {
	if c>>24 > 0xff {
		return false
	}
	return refEncode(refDecode(c)) == c
}

// ulp is the weight of one mantissa unit at the encoding of t.
func ulp(t *big.Int) *big.Int {
	c := refEncode(t)
	exp := int(c >> 24)
	if exp <= 3 {
		return big.NewInt(1)
	}
	return new(big.Int).Exp(big256, big.NewInt(int64(exp-3)), nil)
}

var two256 = new(big.Int).Lsh(big.NewInt(1), 256)

// ---- run --------------------------------------------------------------------

type run struct {
	c         *core.Ctx
	params    *config.Configuration
	chain     *blockchain.BlockChain
	limit     *big.Int
	af        int64
	per       uint32 // blocks per retarget, from the configuration
	tip       *blockchain.BlockNode
	seenC     map[uint32]bool
	nEnc      int
	divisible bool
	stop      bool
	limitBits uint32 // compact form of the limit (the configured starting bits may name a harder target)
}

func (r *run) violate(oracle, sig, format string, a ...interface{}) {
	if !r.divisible && oracle == "retarget-bounded" {
		sig += "/timespan-not-divisible-by-factor"
	}
	if r.c.Violate("C09", oracle, sig, format, a...) {
		r.stop = true
	}
}

// compactSeen runs oracle (a) on a compact value that arose in the run (once per value).
func (r *run) compactSeen(cv uint32, origin string) {
	if r.seenC[cv] || len(r.seenC) > 20000 {
		return
	}
	r.seenC[cv] = true
	c := r.c
	var t *big.Int
	var back uint32
	func() {
		defer func() {
			if x := recover(); x != nil {
				r.violate("compact-roundtrip", "C09/compact/panic", "CompactToBig/BigToCompact panicked on %08x (%s): %v", cv, origin, x)
			}
		}()
		t = blockchain.CompactToBig(cv)
		back = blockchain.BigToCompact(t)
	}()
	if t == nil {
		return
	}
	r.nEnc++
	if canonical(cv) {
		c.Check()
		c.Probe("canonical-compact-roundtrip")
		if back != cv {
			cls := "positive"
			if cv&0x00800000 != 0 {
				cls = "negative"
			}
			r.violate("compact-roundtrip", "C09/compact/roundtrip-not-identity/"+cls, "BigToCompact(CompactToBig(%08x)) = %08x on a canonical encoding (%s)", cv, back, origin)
		}
	} else {
		c.Probe("non-canonical-compact")
	}
	// the decoded value, re-encoded and decoded again, is never larger (for positive targets)
	if t.Sign() > 0 && t.Cmp(two256) <= 0 {
		r.targetSeen(t, origin)
	}
}

// targetSeen runs the second half of oracle (a) on a positive big target.
func (r *run) targetSeen(t *big.Int, origin string) {
	c := r.c
	if t.Sign() <= 0 || t.Cmp(two256) > 0 {
		return
	}
	var back *big.Int
	var enc uint32
	func() {
		defer func() {
			if x := recover(); x != nil {
				r.violate("compact-roundtrip", "C09/compact/panic", "BigToCompact/CompactToBig panicked on %x (%s): %v", t, origin, x)
			}
		}()
		enc = blockchain.BigToCompact(t)
		back = blockchain.CompactToBig(enc)
	}()
	if back == nil {
		return
	}
	c.Check()
	c.Probe("target-encode-decode")
	if back.Cmp(t) > 0 {
		r.violate("encode-never-larger", "C09/compact/encode-yields-larger-target", "CompactToBig(BigToCompact(%x)) = %x (compact %08x) is larger than the target (%s)", t, back, enc, origin)
	}
}

func sha256d(b []byte) *big.Int {
	h1 := sha256.Sum256(b)
	h2 := sha256.Sum256(h1[:])
	// the hash is a little-endian number
	for i, j := 0, len(h2)-1; i < j; i, j = i+1, j-1 {
		h2[i], h2[j] = h2[j], h2[i]
	}
	return new(big.Int).SetBytes(h2[:])
}

func parentHashNum(h *tcommon.Header) *big.Int {
	buf := new(bytes.Buffer)
	h.AuxPow.ParBlockHeader.Serialize(buf)
	return sha256d(buf.Bytes())
}

var logOnce sync.Once

// The node initialises its default logger at start-up; the retargeting code
// logs through it. Level above every message: nothing is formatted or written.
// Done once per process and outside the bubble (the logger owns a goroutine).
func initNodeLog() {
	logOnce.Do(func() {
		dir := os.Getenv("SIM_TMP")
		if dir == "" {
			dir = os.TempDir()
		}
		elog.NewDefault(filepath.Join(dir, "nodelog"), 255, 0, 0)
	})
}

func (e Engine) Execute(c *core.Ctx) {
	initNodeLog()
	core.Bubble(c.T, func() { execute(c) })
}

func execute(c *core.Ctx) {
	p := c.Plan
	steps := make([]Step, len(p.Steps))
	for i, raw := range p.Steps {
		if err := json.Unmarshal(raw, &steps[i]); err != nil {
			panic(fmt.Sprintf("bad step %d: %v", i, err))
		}
	}
	sample := p.Steps
	if len(sample) > 8 {
		sample = sample[:8]
	}
	c.SetSample(map[string]interface{}{"knobs": p.Knobs, "steps": sample})
	tpb, span, af := p.Knob("tpb", 10), p.Knob("span", 80), p.Knob("af", 4)
	limitBits := uint32(p.Knob("limit", 0x2000ffff))
	if tpb < 1 {
		tpb = 1
	}
	if af < 1 {
		af = 1
	}
	if span < tpb {
		span = tpb
	}
	params := &config.Configuration{}
	startBits := limitBits
	if fl := p.Knob("floor", 0); fl > 0 {
		if sb := refEncode(new(big.Int).Rsh(refDecode(limitBits), uint(fl))); refDecode(sb).Sign() > 0 {
			startBits = sb
			c.Fault("starting-bits-harder-than-the-limit")
		}
	}
	params.PowConfiguration.PowLimitBits = startBits
	params.PowConfiguration.PowLimit = refDecode(limitBits)
	params.PowConfiguration.TargetTimespan = time.Duration(span) * time.Second
	params.PowConfiguration.TargetTimePerBlock = time.Duration(tpb) * time.Second
	params.PowConfiguration.AdjustmentFactor = af
	r := &run{c: c, params: params, limit: params.PowConfiguration.PowLimit, af: af, per: uint32(span / tpb), seenC: map[uint32]bool{}, divisible: span%af == 0, limitBits: limitBits}
	r.chain = blockchain.VerifNewRetargetChain(params)
	miners := int(p.Knob("miners", 1))
	if miners < 1 {
		miners = 1
	}
	skew := make([]int64, miners)
	for i := range skew {
		skew[i] = p.Knob(fmt.Sprintf("skew%d", i), 0)
	}
	c.Logf("limit=%08x tpb=%d span=%d af=%d per=%d miners=%d", limitBits, tpb, span, af, r.per, miners)

	// boundary values of the compact format, independent of the run
	for _, cv := range boundaryCompacts {
		r.compactSeen(cv, "boundary")
	}
	for _, cv := range []uint32{limitBits, limitBits + 1, limitBits - 1, limitBits | 0x00800000, limitBits + 0x01000000, limitBits - 0x01000000} {
		r.compactSeen(cv, "limit neighbourhood")
	}
	for _, t := range boundaryTargets() {
		r.targetSeen(t, "boundary")
	}

	// genesis
	t0 := time.Now()
	gen := &tcommon.Header{Version: 0, Timestamp: uint32(t0.Unix()), Bits: startBits, Height: 0}
	gh := gen.Hash()
	r.tip = blockchain.NewBlockNode(gen, &gh)
	lastGoodBits := startBits
	slow := false
	for i := range steps {
		if r.stop {
			break
		}
		c.CurStep = i
		s := &steps[i]
		m := s.M % miners
		if m < 0 {
			m = -m
		}
		// hashrate model: the harder the target, the longer a block takes
		curT := refDecode(r.tip.Bits)
		diff := int64(1)
		if curT.Sign() > 0 {
			q := new(big.Int).Quo(r.limit, curT)
			if q.IsInt64() && q.Int64() > 1 {
				diff = q.Int64()
			}
			if !q.IsInt64() {
				diff = 1 << 40
			}
		}
		// probability that one hash meets the current target, as a power of two
		bitsHard := 256 - curT.BitLen()
		if bitsHard >= 13 && !slow {
			slow = true
			c.Probe("hashrate-crisis")
		} else if bitsHard <= 9 {
			slow = false
		}
		dt := s.Dt
		if diff > 4 {
			dt *= diff / 4
		}
		if slow {
			// nobody finds blocks quickly at this difficulty, whatever their clocks say
			dt = 8 * af * tpb
		}
		if dt > 64*span {
			dt = 64 * span
		}
		time.Sleep(time.Duration(dt) * time.Second)
		c.AddSimSeconds(float64(dt))
		if s.Jump != 0 && !slow {
			skew[m] += s.Jump
			c.Fault("clock-jump")
		}
		now := time.Now().Unix()
		ts := now
		if !slow {
			ts += skew[m]
			if skew[m] != 0 {
				c.Fault("skewed-timestamp")
			}
		}
		if ts < 1 {
			ts = 1
		}
		if ts > 0xfffffff0 {
			ts = 0xfffffff0
		}
		r.mine(s, m, uint32(ts), &lastGoodBits)
	}
	c.Logf("end height=%d compacts=%d", r.tip.Height, r.nEnc)
}

func (r *run) required(prev *blockchain.BlockNode, ts uint32) (bits uint32, err error, panicked interface{}) {
	defer func() {
		if x := recover(); x != nil {
			panicked = x
		}
	}()
	bits, err = r.chain.CalcNextRequiredDifficulty(prev, time.Unix(int64(ts), 0))
	return
}

func (r *run) mine(s *Step, m int, ts uint32, lastGoodBits *uint32) {
	c := r.c
	prev := r.tip
	height := prev.Height + 1
	need, err, pan := r.required(prev, ts)
	if pan != nil {
		c.Check()
		r.violate("retarget-bounded", "C09/retarget/panic", "CalcNextRequiredDifficulty panicked at height %d: %v", height, pan)
		r.stop = true
		return
	}
	if err != nil {
		c.Check()
		r.violate("retarget-bounded", "C09/retarget/error", "CalcNextRequiredDifficulty failed at height %d: %v", height, err)
		r.stop = true
		return
	}
	r.compactSeen(need, "required bits")
	isRetarget := r.per > 0 && height%r.per == 0 && prev.Height != 0
	// oracle (c) on every value the retargeting code hands out
	r.checkMove(prev, need, height, isRetarget, "required")

	bits := need
	mustFail := false // the header is certainly invalid by the property's own terms
	switch s.Byz {
	case "":
	case "lowwork":
		mustFail = true
	case "above-limit":
		// a target above the limit: bump the mantissa or the exponent of the limit
		lb := r.limitBits
		if s.X%2 == 0 && lb&0x007fffff < 0x007fffff {
			bits = lb + 1 + s.X%(0x007fffff-lb&0x007fffff)
		} else {
			bits = lb + 0x01000000*(1+s.X%3)
		}
		mustFail = true
	case "zero-target":
		bits = []uint32{0, 0x01000000, 0x20000000, 0x03000000, 0x00123456, 0x01003456, 0x02000056}[s.X%7]
		mustFail = true
	case "negative-target":
		bits = need | 0x00800000
		if s.X%3 == 0 {
			bits = 0x04923456
		}
		mustFail = true
	case "huge-exponent":
		bits = 0xff000001 + s.X%0x7ffffe
		if s.X%4 == 0 {
			bits = 0x22000001 + s.X%0x7ffffe
		}
		mustFail = true
	case "wrong-bits":
		// a legal target, honestly mined, but not the one required at this height
		bits = r.params.PowConfiguration.PowLimitBits
		if bits == need {
			bits = need - 1 - s.X%16
		}
	case "stale-bits":
		// the parent's bits at a retarget height / the last retarget's bits elsewhere
		bits = prev.Bits
		if bits == need {
			bits = *lastGoodBits
		}
		if bits == need {
			bits = need - 1
		}
	}
	r.compactSeen(bits, "header bits")
	if tt := refDecode(bits); tt.Sign() <= 0 || tt.Cmp(r.limit) > 0 {
		mustFail = true
	} else if s.Byz != "lowwork" {
		mustFail = false
	}
	hdr := &tcommon.Header{Version: 0, Previous: *prev.Hash, Timestamp: ts, Bits: bits, Height: height}
	hdr.MerkleRoot[0], hdr.MerkleRoot[1], hdr.MerkleRoot[2], hdr.MerkleRoot[3] = byte(height), byte(height>>8), byte(m), byte(len(s.Byz))
	blockHash := hdr.Hash()
	hdr.AuxPow = *auxpow.GenerateAuxPow(blockHash)
	// solve (or, for the low-work miner, find a nonce that does NOT meet the target)
	target := refDecode(bits)
	solved := false
	tries := 0
	const budget = 1 << 17
	for tries < budget {
		hn := parentHashNum(hdr)
		tries++
		meets := target.Sign() > 0 && hn.Cmp(target) <= 0
		if s.Byz == "lowwork" {
			if !meets {
				solved = true
				break
			}
		} else if meets || target.Sign() <= 0 {
			solved = true
			break
		}
		hdr.AuxPow.ParBlockHeader.Nonce++
	}
	if !solved {
		c.Probe("mining-budget-exhausted")
		c.Logf("h=%d m=%d %s bits=%08x no solution in %d hashes", height, m, s.Byz, bits, tries)
		return
	}
	if s.Byz != "" {
		c.Fault("byzantine-" + s.Byz)
	}
	hashNum := parentHashNum(hdr)
	r.targetSeen(hashNum, "parent header hash")

	// --- the node's decision (real CheckProofOfWork + the Bits equality of CheckBlockContext) ---
	var powErr error
	func() {
		defer func() {
			if x := recover(); x != nil {
				c.Check()
				r.violate("pow-check", "C09/pow/panic", "CheckProofOfWork panicked on bits %08x: %v", bits, x)
				powErr = fmt.Errorf("panic")
			}
		}()
		powErr = blockchain.CheckProofOfWork(hdr, r.params.PowConfiguration.PowLimit)
	}()
	// oracle (b): passes only if hash <= target and 0 < target <= limit
	c.Check()
	if powErr == nil {
		switch {
		case target.Sign() <= 0:
			r.violate("pow-check", "C09/pow/accepted-non-positive-target", "CheckProofOfWork accepted bits %08x whose target %s is not positive", bits, target)
		case target.Cmp(r.limit) > 0:
			r.violate("pow-check", "C09/pow/accepted-target-above-limit", "CheckProofOfWork accepted bits %08x: target %x above the limit %x", bits, target, r.limit)
		case hashNum.Cmp(target) > 0:
			r.violate("pow-check", "C09/pow/accepted-hash-above-target", "CheckProofOfWork accepted a header whose parent-chain hash %x exceeds its target %x (bits %08x)", hashNum, target, bits)
		}
	} else {
		c.Probe("pow-rejected")
	}
	accepted := powErr == nil && bits == need
	if powErr == nil && bits != need {
		c.Probe("rejected-wrong-bits")
	}
	if s.Byz == "" && !accepted {
		// not demanded by the property (it says "only if"); a stall here shows as a mandatory probe stuck at zero
		c.Probe("honest-header-rejected")
	}
	c.Logf("h=%d m=%d %s ts=%d bits=%08x need=%08x tries=%d pow=%v accepted=%v", height, m, s.Byz, ts, bits, need, tries, powErr == nil, accepted)
	if !accepted {
		return
	}
	if mustFail {
		// already reported by oracle (b) above if it got this far; keep the chain honest
		return
	}
	// work accounting of the real code (not part of the statement; logged for the determinism test)
	hh := hdr.Hash()
	node := blockchain.NewBlockNode(hdr, &hh)
	node.Parent = prev
	node.WorkSum = new(big.Int).Add(prev.WorkSum, blockchain.CalcWork(bits))
	// oracle (c) on the accepted chain
	r.checkMove(prev, bits, height, isRetarget, "accepted")
	r.tip = node
	if isRetarget {
		c.Fault("retarget")
		*lastGoodBits = prev.Bits
	}
	c.Probe("honest-accepted")
	f := fnv.New64a()
	fmt.Fprintf(f, "%08x/%d", bits, height%r.per)
	c.State(f.Sum64())
}

// checkMove: each retarget moves the target by at most the configured factor
// and never above the limit; between retargets the target does not move.
func (r *run) checkMove(prev *blockchain.BlockNode, newBits uint32, height uint32, isRetarget bool, what string) {
	c := r.c
	if prev.Height == 0 {
		return
	}
	oldT, newT := refDecode(prev.Bits), refDecode(newBits)
	c.Check()
	if newT.Cmp(r.limit) > 0 {
		r.violate("retarget-bounded", "C09/retarget/above-limit", "%s bits %08x at height %d: target %x above the limit %x", what, newBits, height, newT, r.limit)
		return
	}
	c.Check()
	if newT.Sign() <= 0 {
		r.violate("retarget-bounded", "C09/retarget/non-positive-target", "%s bits %08x at height %d: target not positive", what, newBits, height)
		return
	}
	if !isRetarget {
		c.Check()
		if newT.Cmp(oldT) != 0 {
			r.violate("retarget-bounded", "C09/retarget/moved-outside-retarget-height", "%s bits at height %d (not a retarget height, %d blocks per retarget): %08x -> %08x", what, height, r.per, prev.Bits, newBits)
		}
		return
	}
	c.Probe("retarget-checked")
	afb := big.NewInt(r.af)
	hi := new(big.Int).Mul(oldT, afb)
	lo := new(big.Int).Quo(oldT, afb)
	lo.Sub(lo, ulp(newT)) // truncation to the compact form: one unit of the mantissa
	c.Check()
	switch {
	case newT.Cmp(hi) > 0:
		r.violate("retarget-bounded", "C09/retarget/moved-up-more-than-factor", "retarget at height %d: %08x -> %08x, target grew by more than the factor %d (%x -> %x)", height, prev.Bits, newBits, r.af, oldT, newT)
	case newT.Cmp(lo) < 0:
		r.violate("retarget-bounded", "C09/retarget/moved-down-more-than-factor", "retarget at height %d: %08x -> %08x, target shrank by more than the factor %d (%x -> %x)", height, prev.Bits, newBits, r.af, oldT, newT)
	}
	switch {
	case newT.Cmp(r.limit) == 0:
		c.Probe("retarget-clamped-to-limit")
	case newT.Cmp(oldT) > 0:
		c.Probe("retarget-easier")
	case newT.Cmp(oldT) < 0:
		c.Probe("retarget-harder")
	}
	// the exact product, before encoding, is a target that arises in the run
	for _, k := range []int64{1, r.af, r.af * 2} {
		t := new(big.Int).Mul(oldT, big.NewInt(k))
		t.Quo(t, big.NewInt(r.af*2-1))
		r.targetSeen(t, "retarget product")
	}
}

var boundaryCompacts = []uint32{
	0, 1, 0x00800000, 0x007fffff, 0x01000000, 0x01010000, 0x01120000, 0x017f0000, 0x01800000, 0x01ff0000, 0x01123456,
	0x02000000, 0x02008000, 0x02123400, 0x027fff00, 0x02800000, 0x03000000, 0x03000001, 0x03008000, 0x03123456, 0x037fffff, 0x03800000, 0x03ffffff,
	0x04000001, 0x04000080, 0x04008000, 0x04123456, 0x047fffff, 0x04800001, 0x04923456, 0x05009234, 0x05123456,
	0x1b0404cb, 0x1d00ffff, 0x1e0fffff, 0x1f0008ff, 0x1f00ffff, 0x1f7fffff, 0x2000ffff, 0x20008000, 0x20007fff, 0x207fffff, 0x20800000, 0x207ffffe,
	0x21000001, 0x2100ffff, 0x21008000, 0x217fffff, 0x22000001, 0x22008000, 0x23000001,
	0x80000001, 0x80008000, 0xfe7fffff, 0xff000001, 0xff008000, 0xff7fffff, 0xff800001, 0xffffffff,
}

func boundaryTargets() []*big.Int {
	var out []*big.Int
	one := big.NewInt(1)
	for _, bitsN := range []uint{1, 7, 8, 9, 15, 16, 17, 23, 24, 25, 31, 32, 33, 63, 64, 65, 127, 128, 129, 223, 224, 231, 232, 233, 239, 240, 247, 248, 249, 254, 255, 256} {
		p := new(big.Int).Lsh(one, bitsN)
		out = append(out, new(big.Int).Sub(p, one), p)
		if bitsN < 256 {
			out = append(out, new(big.Int).Add(p, one))
		}
	}
	// mantissa edge: 0x7fffff / 0x800000 / 0x800001 at several byte positions
	for _, sh := range []uint{0, 8, 16, 64, 200, 224, 232} {
		for _, mnt := range []int64{0x7fffff, 0x800000, 0x800001, 0xffffff, 0x1000000, 0x0080ff, 0x00ffff} {
			t := new(big.Int).Lsh(big.NewInt(mnt), sh)
			if t.Cmp(two256) <= 0 {
				out = append(out, t, new(big.Int).Add(t, one), new(big.Int).Sub(t, one))
			}
		}
	}
	return out
}

var _ = ecommon.EmptyHash
