// Package entropysim is the C38 engine: deterministic simulation used in
// reverse. Everything the simulator can own is pinned (fake clock instant,
// process-global math/rand seed, file paths, keys, messages, passwords); only
// the operating system's secure source stays free. Each entry point that
// creates key material, nonces or IVs is run repeatedly in fresh bubbles: a
// secret that repeats under equal pins and changes with a pin is derived from
// a seeded or time-derived generator.
//
// The event log carries verdicts only, never secret bytes.
package entropysim

import (
	"encoding/json"
	"fmt"
	"hash/fnv"
	"math/big"
	"math/rand"
	"os"
	"path/filepath"
	"strings"
	"time"

	"github.com/elastos/Elastos.ELA/account"
	"github.com/elastos/Elastos.ELA/crypto"

	"verif/sim/core"
)

type Engine struct{}

func (Engine) Name() string { return "entropysim" }

var entryPoints = []string{"keystore", "new-account", "generate-keypair", "ecdsa-sign", "schnorr", "ecies"}

func (Engine) Components() ([]string, []string) {
	return []string{
			"account.Create -> createClient -> NewClient(create=true): keystore IV and master key (read back with the package's own FileStore.LoadStoredData + crypto.AesDecrypt under the password), main account key via CreateAccount/NewAccount",
			"account.NewAccount, crypto.GenerateKeyPair (private keys)",
			"crypto.AggregateSignatures -> deterministicGetK0 -> randomBytes (Schnorr signing nonce, observed through the signature's R.x)",
			"crypto.Encrypt -> ecies.Encrypt (ephemeral key and IV, observed in the ciphertext)",
			"crypto.Sign / SignDigest (ECDSA nonce) - attempted; see stub list",
			"process-global math/rand (godebug default=go1.20), time.Now via the synctest fake clock, crypto/rand (left free)",
		}, []string{
			"clock = testing/synctest fake clock: every evaluation runs in a fresh bubble at a chosen instant",
			"math/rand pin = rand.Seed(const) immediately before the entry point",
			"crypto.Sign cannot run under the harness toolchain (go1.26 crypto/ecdsa needs the public key the repo leaves unset; fine under the repo's go1.23.5): the ECDSA nonce entry point is recorded as not judgeable (probe), not as a verdict",
			"only the entry points listed in the evidence sample are judged; the property's 'all code paths' is not covered by this technique",
		}
}

// Step judges one entry point.
type Step struct {
	Entry string `json:"entry"`
	Reps  int    `json:"reps"`
}

func (Engine) Generate(r *core.Rng, property, tier string) *core.Plan {
	p := &core.Plan{Knobs: map[string]int64{}, Meta: map[string]string{}}
	p.SetKnob("seedA", int64(r.U64()>>1))
	p.SetKnob("seedB", int64(r.U64()>>1))
	// instants: nanosecond offsets from the simulation epoch
	a := r.Int63n(int64(400 * 24 * time.Hour))
	b := r.Int63n(int64(400 * 24 * time.Hour))
	if r.Bool(0.3) {
		b = a + 1 + r.Int63n(1000) // the next nanoseconds
	}
	if b == a {
		b++
	}
	p.SetKnob("clockA", a)
	p.SetKnob("clockB", b)
	p.SetKnob("inputseed", int64(r.U64()>>1))
	p.SetKnob("nkeys", int64(r.Range(1, 4)))
	reps := r.Range(8, 12)
	for _, i := range r.Perm(len(entryPoints)) {
		p.Add(Step{Entry: entryPoints[i], Reps: reps})
	}
	return p
}

type pins struct {
	seed  int64
	clock int64
}

type sim struct {
	c    *core.Ctx
	dir  string
	pw   []byte
	keys [][]byte // fixed private keys (inputs)
	pub  *crypto.PublicKey
	msg  [32]byte
	msg2 [32]byte
}

func tmpBase() string {
	if d := os.Getenv("SIM_TMP"); d != "" {
		return d
	}
	return os.TempDir()
}

// in runs f in a fresh bubble with the pins applied: same fake instant, same
// math/rand state, same paths.
func (s *sim) in(p pins, f func()) {
	core.Bubble(s.c.T, func() {
		time.Sleep(time.Duration(p.clock))
		os.RemoveAll(s.dir)
		os.MkdirAll(s.dir, 0755)
		rand.Seed(p.seed)
		f()
	})
	s.c.AddSimSeconds(float64(p.clock) / 1e9)
}

// observe runs one entry point once and returns its secrets by name. Nothing
// returned from here is ever logged.
func (s *sim) observe(entry string, p pins, alt bool) (out map[string]string, skipped string) {
	out = map[string]string{}
	s.in(p, func() {
		defer func() {
			if r := recover(); r != nil {
				skipped = fmt.Sprint(r)
			}
		}()
		switch entry {
		case "keystore":
			path := filepath.Join(s.dir, "keystore.dat")
			cl, err := account.Create(path, s.pw)
			if err != nil {
				panic("entropysim: account.Create: " + err.Error())
			}
			iv, err := cl.LoadStoredData("IV")
			if err != nil {
				panic("entropysim: IV: " + err.Error())
			}
			enc, err := cl.LoadStoredData("MasterKey")
			if err != nil {
				panic("entropysim: MasterKey: " + err.Error())
			}
			mk, err := crypto.AesDecrypt(enc, crypto.ToAesKey(s.pw), iv)
			if err != nil {
				panic("entropysim: decrypt master key: " + err.Error())
			}
			out["keystore-iv"] = string(iv)
			out["keystore-master-key"] = string(mk)
			out["keystore-main-account-private-key"] = string(cl.GetMainAccount().PrivKey())
		case "new-account":
			a, err := account.NewAccount()
			if err != nil {
				panic("entropysim: NewAccount: " + err.Error())
			}
			out["account-private-key"] = string(a.PrivKey())
		case "generate-keypair":
			priv, _, err := crypto.GenerateKeyPair()
			if err != nil {
				panic("entropysim: GenerateKeyPair: " + err.Error())
			}
			out["generated-private-key"] = string(priv)
		case "ecdsa-sign":
			m := s.msg
			if alt {
				m = s.msg2
			}
			sig, err := crypto.Sign(s.keys[0], m[:])
			if err != nil {
				panic("entropysim: Sign: " + err.Error())
			}
			out["ecdsa-nonce"] = string(sig[:32]) // r = (k*G).x
		case "schnorr":
			var ks []*big.Int
			for _, k := range s.keys {
				ks = append(ks, new(big.Int).SetBytes(k))
			}
			m := s.msg
			if alt {
				m = s.msg2
			}
			sig, err := crypto.AggregateSignatures(ks, m)
			if err != nil {
				panic("entropysim: AggregateSignatures: " + err.Error())
			}
			out["schnorr-nonce"] = string(sig[:32]) // R.x
		case "ecies":
			ct, err := crypto.Encrypt(s.pub, s.msg[:])
			if err != nil {
				panic("entropysim: Encrypt: " + err.Error())
			}
			if len(ct) < 65+16 {
				panic("entropysim: short ecies ciphertext")
			}
			out["ecies-ephemeral-key"] = string(ct[:65])
			out["ecies-iv"] = string(ct[65 : 65+16])
		}
	})
	return out, skipped
}

func allEqual(x []string) bool {
	for _, v := range x {
		if v != x[0] {
			return false
		}
	}
	return true
}

func allDistinct(groups ...[]string) bool {
	seen := map[string]bool{}
	for _, g := range groups {
		for _, v := range g {
			if seen[v] {
				return false
			}
			seen[v] = true
		}
	}
	return true
}

var keyMaterial = map[string]bool{
	"keystore-iv": true, "keystore-master-key": true, "keystore-main-account-private-key": true,
	"account-private-key": true, "generated-private-key": true, "ecies-ephemeral-key": true, "ecies-iv": true,
	// nonces: a value derived from key+message only (RFC 6979 style) is allowed
	"ecdsa-nonce": false, "schnorr-nonce": false,
}

var secretOrder = []string{"keystore-iv", "keystore-master-key", "keystore-main-account-private-key", "account-private-key", "generated-private-key", "ecdsa-nonce", "schnorr-nonce", "ecies-ephemeral-key", "ecies-iv"}

func (e Engine) Execute(c *core.Ctx) {
	p := c.Plan
	s := &sim{c: c, dir: filepath.Join(tmpBase(), fmt.Sprintf("entropysim-%d", os.Getpid()))}
	defer os.RemoveAll(s.dir)
	ir := core.NewRng(uint64(p.Knob("inputseed", 1)))
	s.pw = []byte(fmt.Sprintf("pw-%x", ir.U64()))
	nk := int(p.Knob("nkeys", 1))
	if nk < 1 {
		nk = 1
	}
	for i := 0; i < nk; i++ {
		k := ir.Bytes(32)
		k[0] &= 0x7f
		k[31] |= 1
		s.keys = append(s.keys, k)
	}
	s.pub = crypto.NewPubKey(s.keys[0])
	copy(s.msg[:], ir.Bytes(32))
	copy(s.msg2[:], ir.Bytes(32))
	base := pins{seed: p.Knob("seedA", 1), clock: p.Knob("clockA", 0)}
	altSeed := pins{seed: p.Knob("seedB", 2), clock: base.clock}
	altClock := pins{seed: base.seed, clock: p.Knob("clockB", 1)}
	if altSeed.seed == base.seed {
		altSeed.seed++
	}
	if altClock.clock == base.clock {
		altClock.clock++
	}
	var judged []string
	for i, raw := range p.Steps {
		c.CurStep = i
		var st Step
		if err := json.Unmarshal(raw, &st); err != nil {
			panic(fmt.Sprintf("bad step %d: %v", i, err))
		}
		reps := st.Reps
		if reps < 8 {
			reps = 8
		}
		if reps > 16 {
			reps = 16
		}
		// three groups of repetitions: all pins equal; only the math/rand seed
		// changed; only the clock instant changed
		type group map[string][]string
		collect := func(pn pins) (group, string) {
			g := group{}
			for k := 0; k < reps; k++ {
				o, skipped := s.observe(st.Entry, pn, false)
				if skipped != "" {
					return nil, skipped
				}
				for name, v := range o {
					g[name] = append(g[name], v)
				}
			}
			return g, ""
		}
		gBase, skipped := collect(base)
		if skipped != "" {
			if st.Entry == "ecdsa-sign" && strings.Contains(skipped, "nil pointer") {
				c.Probe("ecdsa-sign-not-judgeable-under-harness-toolchain")
				c.Logf("entry %s not judgeable under this toolchain", st.Entry)
				continue
			}
			panic("entropysim: entry point " + st.Entry + ": " + skipped)
		}
		c.Fault("rerun-with-all-owned-sources-pinned-equal")
		gSeed, _ := collect(altSeed)
		c.Fault("only-math-rand-seed-repinned")
		gClock, _ := collect(altClock)
		c.Fault("only-clock-instant-repinned")
		// nonce entries: the same pins with another message (is a nonce reused across messages?)
		var otherMsg map[string]string
		if st.Entry == "schnorr" || st.Entry == "ecdsa-sign" {
			otherMsg, _ = s.observe(st.Entry, base, true)
		}
		for _, name := range secretOrder {
			b, ok := gBase[name]
			if !ok {
				continue
			}
			sd, ck := gSeed[name], gClock[name]
			judged = append(judged, name)
			c.Probe("judged:" + name)
			c.Check()
			verdict := "free"
			switch {
			case allDistinct(b, sd, ck):
				verdict = "free"
			case allEqual(b) && allEqual(sd) && allEqual(ck):
				ts := sd[0] != b[0]
				tc := ck[0] != b[0]
				switch {
				case ts && tc:
					verdict = "tracks-math-rand-seed-and-clock"
				case ts:
					verdict = "tracks-math-rand-seed"
				case tc:
					verdict = "tracks-clock"
				default:
					verdict = "function-of-fixed-inputs-only"
				}
			default:
				verdict = "repeats-sometimes"
			}
			c.Logf("entry=%s secret=%s reps=3x%d verdict=%s", st.Entry, name, reps, verdict)
			c.State(fp(name, verdict))
			switch verdict {
			case "free":
				c.Probe("secret-differs-under-equal-pins")
			case "function-of-fixed-inputs-only":
				if keyMaterial[name] {
					c.Violate("C38", "pinned-rerun", "C38/"+name+"/identical-with-all-simulator-owned-sources-pinned",
						"%s is identical in %d fresh runs with clock, math/rand seed, paths and inputs pinned, and does not change with either pin: it is a pure function of predictable inputs (entry point %s)", name, 3*reps, st.Entry)
				} else {
					c.Probe("nonce-deterministic-in-key-and-message")
				}
			case "repeats-sometimes":
				c.Violate("C38", "pinned-rerun", "C38/"+name+"/repeats-in-some-independent-runs",
					"%s repeated in some but not all of %d fresh runs (entry point %s)", name, 3*reps, st.Entry)
			default:
				extra := ""
				if otherMsg != nil && otherMsg[name] == b[0] {
					extra = "; with equal pins a DIFFERENT message is signed with the SAME nonce (two such signatures reveal the private key)"
					c.Probe("nonce-reused-across-messages-under-equal-pins")
				}
				src := map[string]string{
					"tracks-clock":                    "the clock instant (time-derived generator)",
					"tracks-math-rand-seed":           "the process-global math/rand seed (seeded generator)",
					"tracks-math-rand-seed-and-clock": "both the math/rand seed and the clock instant",
				}[verdict]
				c.Violate("C38", "pinned-rerun", "C38/"+name+"/"+verdict,
					"%s is identical in %d fresh runs when the simulator pins clock and math/rand seed, although the OS secure source is free, and it changes exactly when %s is re-pinned (%d runs each): it is not drawn from the secure source (entry point %s)%s",
					name, reps, src, reps, st.Entry, extra)
			}
		}
	}
	c.SetSample(map[string]interface{}{"entry_points_called": entryPoints, "secrets_judged": judged, "pins": map[string]int64{"seedA": base.seed, "seedB": altSeed.seed, "clockA_ns": base.clock, "clockB_ns": altClock.clock}, "repetitions_per_group": repsOf(p)})
}

func repsOf(p *core.Plan) int {
	for _, raw := range p.Steps {
		var st Step
		if json.Unmarshal(raw, &st) == nil {
			return st.Reps
		}
	}
	return 0
}

func fp(a, b string) uint64 {
	h := fnv.New64a()
	h.Write([]byte(a))
	h.Write([]byte{0})
	h.Write([]byte(b))
	return h.Sum64()
}
