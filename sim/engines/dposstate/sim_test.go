package dposstate

import (
	"testing"

	"verif/sim/core"
)

func TestSim(t *testing.T) { core.Main(t, Engine{}) }
