package dposstate

import (
	"math"

	"verif/sim/core"
)

const (
	ela             = int64(100000000)
	minDepositV1    = 5000 * ela // the generator's idea of a sufficient deposit; the real check decides
	minDepositV2    = 2000 * ela
	realisticLock   = 7200 // DPoS v2 lock times are kept at mainnet scale: vote weight is log10(lock/720)
	maxRealistLock  = 720000
)

// Generate draws the configuration knobs and the step list. Profiles:
//
//	C21  producer life cycle + votes + v2 stake/votes + evidence, 1-4 rollbacks (one-call and
//	     per-block), seeks, small history capacities
//	C27  fee-bearing blocks over many short rounds plus direct distribution cases
//	C28  deposit / stake heavy with an adversarial client and a Byzantine block producer, rollbacks
func (Engine) Generate(r *core.Rng, property, tier string) *core.Plan {
	p := &core.Plan{Knobs: map[string]int64{}, Meta: map[string]string{}}
	g := &gen{r: r, p: p, prop: property, tier: tier}
	g.config()
	switch property {
	case "C27":
		g.rewardWorkload()
	case "C28":
		g.chainWorkload(true)
	case "C23":
		g.restartWorkload()
	default:
		g.chainWorkload(false)
	}
	return p
}

type gen struct {
	r    *core.Rng
	p    *core.Plan
	prop string
	tier string
	h    int // approximate height of the next block
	hV2  int
	hPub int
	hRev int
	mono int // remaining blocks of a fixed-sponsor stretch
	monoIdx int
	sloppy float64
	lock   int // scale of DPoS v2 lock times in this run (realisticLock, or a few blocks)
}

func (g *gen) set(n string, v int64) { g.p.SetKnob(n, v) }

// config draws the network configuration: arbiter counts, the compressed
// activation heights (in mainnet order), penalties, lockup, history capacity.
func (g *gen) config() {
	r := g.r
	g.set("nProd", int64(r.Range(7, 12)))
	g.set("nVoter", int64(r.Range(3, 5)))
	g.set("nOrigin", int64(r.Range(2, 4)))
	nCRC := r.Range(1, 3)
	g.set("nCRC", int64(nCRC))
	nNormal := r.Range(2, 4)
	g.set("nNormal", int64(nNormal))
	g.set("nCand", int64(r.Range(0, 3)))
	pre := r.Range(1, 3)
	g.set("preConnect", int64(pre))

	gap := func(lo, hi int) int { return r.Range(lo, hi) }
	fast := r.Bool(0.6) || g.prop == "C28" && r.Bool(0.6)
	hVote := gap(1, 3)
	hCRCOnly := hVote + pre + gap(1, 4)
	if hCRCOnly <= pre {
		hCRCOnly = pre + 1
	}
	var hPublic, hAct, hCRVoting, hCommittee, hClaim, hNewCR, hNoCRC, hRevert, hV2 int
	hCRVoting = gap(1, hCRCOnly)
	if fast {
		hPublic = hCRCOnly + pre + gap(1, 3)
		hAct = hPublic + gap(0, 2)
		hCommittee = hPublic + gap(0, 4)
		hClaim = hCommittee + gap(0, 3)
		hNewCR = hClaim + gap(0, 4)
		hRevert = hNewCR + gap(0, 2)
		hNoCRC = hNewCR + gap(0, 2)
		hV2 = hNewCR + gap(1, 8)
	} else {
		hPublic = hCRCOnly + pre + gap(2, 8)
		hAct = hPublic + gap(0, 8)
		hCommittee = hPublic + gap(2, 14)
		hClaim = hCommittee + gap(0, 12)
		hNewCR = hClaim + gap(0, 14)
		hRevert = hNewCR + gap(0, 4)
		hNoCRC = hNewCR + gap(-2, 3)
		hV2 = hNewCR + gap(3, 20)
	}
	if r.Bool(0.15) {
		hV2 = math.MaxInt32 // DPoS v2 never starts
	}
	g.set("hVote", int64(hVote))
	g.set("hCRCOnly", int64(hCRCOnly))
	g.set("hPublic", int64(hPublic))
	g.set("hActIllegal", int64(hAct))
	g.set("hVoteStat", int64(hAct+gap(0, 6)))
	g.set("hCRVoting", int64(hCRVoting))
	g.set("hCRCommittee", int64(hCommittee))
	g.set("hCRClaim", int64(hClaim))
	g.set("hNewCR", int64(hNewCR))
	g.set("hNoCRC", int64(hNoCRC))
	g.set("hRevertPOW", int64(hRevert))
	g.set("hV2Start", int64(hV2))
	if r.Bool(0.3) && hV2 != math.MaxInt32 {
		g.set("hRecordSponsor", int64(hV2+gap(2, 20)))
	}
	if r.Bool(0.3) {
		g.set("hNodeCross", int64(hClaim+gap(0, 10)))
	}
	g.hV2, g.hPub, g.hRev = hV2, hPublic, hRevert

	g.set("lockup", int64(r.Range(2, 8)))
	g.set("maxInactive", int64(r.Range(2, 6)))
	g.set("maxInactiveRandom", int64(r.Range(2, 8)))
	g.set("randomPeriod", int64(r.Range(4, 20)))
	pen := func() int64 {
		switch r.Intn(4) {
		case 0:
			return 0
		case 1:
			return 1
		default:
			return r.LogUniform(ela, 600*ela)
		}
	}
	g.set("penInactive", pen())
	g.set("penIllegal", pen())
	g.set("penEmergency", pen())
	g.set("penV2Illegal", pen())
	g.set("v2Effective", r.LogUniform(10*ela, 4000*ela))
	g.set("v2DepMinLock", realisticLock)
	g.set("v2MinLock", realisticLock)
	g.set("v2MaxLock", maxRealistLock)
	g.lock = realisticLock
	if g.prop == "C28" && r.Bool(0.4) {
		// lock times of a few blocks: producers' stakes and voters' DPoS v2
		// votes expire (and are renewed at the last moment) inside the run
		// (never shorter than the 6 blocks a registration stays pending: every
		// network's minimum lock time is 7200, and a stake that runs out
		// before the producer was ever activated is not a state they reach)
		g.lock = r.Range(8, 16)
		g.set("v2DepMinLock", int64(g.lock))
		g.set("v2MinLock", int64(g.lock))
		g.set("v2MaxLock", int64(100*g.lock))
	}
	switch r.Intn(5) {
	case 0, 1:
		g.set("histCap", int64(r.Range(4, 12)))
	case 2:
		g.set("histCap", int64(r.Range(12, 40)))
	default:
		g.set("histCap", 0) // the node's 720
	}
	switch r.Intn(4) {
	case 0:
		g.sloppy = 0.25
	case 1:
		g.sloppy = 0.05
	}
}

func (g *gen) amountDeposit(v2 bool) int64 {
	base := minDepositV1
	if v2 {
		base = minDepositV2
	}
	switch g.r.Intn(10) {
	case 0:
		return base - 1 // insufficient
	case 1, 2, 3:
		return base
	default:
		return base + g.r.LogUniform(1, 3000*ela)
	}
}

func (g *gen) sel() int { return g.r.Intn(64) }

func (g *gen) sels() []int {
	n := g.r.Pick(5, 4, 2, 1) + 1
	out := make([]int, n)
	for i := range out {
		out[i] = g.sel()
	}
	return out
}

func (g *gen) fee() int64 {
	switch g.r.Intn(8) {
	case 0:
		return 0
	case 1:
		return g.r.LogUniform(1, 1000*ela)
	default:
		return 100
	}
}

// tx draws one transaction descriptor for the current approximate height.
func (g *gen) tx(depositHeavy bool) TxD {
	r := g.r
	v2era := g.h >= g.hV2
	early := g.h <= 6
	var kinds []string
	var weights []int
	add := func(k string, w int) { kinds = append(kinds, k); weights = append(weights, w) }
	if early {
		add("reg", 40)
		add("vote", 20)
		add("topup", 5)
	} else if g.h <= 13 && !v2era && g.r.Bool(0.5) {
		// the first producers have just become active: get them voted so that
		// the elections that follow find enough candidates
		add("vote", 30)
		add("reg", 4)
	} else {
		add("reg", 8)
		add("upd", 6)
		add("cancel", 3)
		add("activate", 6)
		add("topup", 6)
		add("retdep", 9)
		add("illprop", 1)
		add("illvote", 1)
		add("illblock", 1)
		add("inactive", 1)
		add("r2pow", 1)
		add("r2dpos", 4)
		if !v2era {
			add("vote", 16)
			add("unvote", 6)
		} else {
			add("vote", 3)
			add("unvote", 3)
			add("reg2", 10)
			add("upd2", 12)
			add("stake", 14)
			add("vote2", 18)
			add("renew", 4)
			add("unstake", 6)
		}
		if depositHeavy {
			add("retdep", 14)
			add("topup", 6)
			add("cancel", 4)
			if v2era {
				add("stake", 8)
				add("vote2", 10)
				add("unstake", 10)
				add("renew", 3)
				if g.lock != realisticLock {
					add("renew", 16)
					add("upd2", 8) // StakeUntil extended: room for renewals
				}
			}
		}
	}
	k := kinds[r.Pick(weights...)]
	d := TxD{K: k, P: g.sel(), V: g.sel(), Fee: g.fee()}
	switch k {
	case "reg":
		d.A = g.amountDeposit(false)
		if r.Bool(0.1) {
			d.F = 4 // do not avoid registered actors
		}
	case "reg2":
		d.K = "reg"
		d.F = 1
		d.A = g.amountDeposit(true)
		d.B = int64(g.lock + 1 + r.Intn(3*g.lock))
		if r.Bool(0.08) {
			d.B = int64(r.Intn(g.lock)) // too short
		}
	case "upd":
		d.F = r.Intn(4)
	case "upd2":
		d.K = "upd"
		d.F = 4 | r.Intn(4)
		d.B = int64(g.lock + 1 + r.Intn(3*g.lock))
	case "vote":
		d.A = r.LogUniform(ela, 100000*ela)
		d.C = g.sels()
		if g.h > 6 && g.h <= 13 {
			d.C = append(d.C, g.sel(), g.sel(), g.sel())
		}
		d.F = r.Intn(2)
	case "topup":
		d.A = r.LogUniform(1, 1000*ela)
	case "retdep":
		d.A = r.LogUniform(1, 6000*ela)
		d.F = []int{0, 0, 0, 0, 0, 1, 1, 2, 3, 3, 4}[r.Intn(11)]
	case "stake":
		d.A = r.LogUniform(ela, 50000*ela)
	case "vote2":
		d.A = r.LogUniform(ela, 30000*ela)
		d.B = int64(g.lock + r.Intn(2*g.lock))
		d.C = g.sels()
		if r.Bool(0.25) {
			d.F |= 1
		}
		if r.Bool(0.15) {
			d.F |= 2
		}
		if r.Bool(0.05) {
			d.F |= 4
		}
	case "renew":
		d.B = int64(1 + r.Intn(g.lock))
		d.A = r.LogUniform(1, 100*ela)
		d.F = []int{0, 0, 0, 1, 2}[r.Intn(5)]
		if g.lock != realisticLock && d.F == 0 {
			d.F = 3 // the vote that expires in this very block, if there is one
		}
	case "unstake":
		d.A = r.LogUniform(10001, 30000*ela)
		d.F = []int{0, 0, 0, 1}[r.Intn(4)]
	case "illprop", "illvote", "illblock":
		d.B = int64(r.Intn(200))
		if r.Bool(0.2) {
			d.F = 8
		}
		if r.Bool(0.25) {
			d.F |= 16
		}
	case "inactive":
		d.C = g.sels()
	case "r2dpos":
		d.B = 10
	}
	return d
}

func (g *gen) block(depositHeavy bool) Step {
	r := g.r
	s := Step{Op: "block", Dt: []int{120, 120, 120, 1, 600, 7200}[r.Intn(6)]}
	n := []int{0, 0, 1, 1, 1, 2, 2, 3, 4, 6}[r.Intn(10)]
	if g.h <= 6 {
		n = 2 + r.Intn(4)
	}
	for i := 0; i < n; i++ {
		s.Txs = append(s.Txs, g.tx(depositHeavy))
	}
	if depositHeavy && r.Bool(0.12) {
		// Byzantine block producer: the same signer twice in one block
		s.Byz = true
		d := g.tx(true)
		for tries := 0; tries < 8 && d.K != "retdep" && d.K != "vote2" && d.K != "unstake"; tries++ {
			d = g.tx(true)
		}
		d2 := d
		d2.A = d.A/2 + 1
		if d.K == "vote2" && r.Bool(0.5) {
			d2.K = "unstake"
			d2.F = 0
			d2.A = r.LogUniform(10001, 30000*ela)
		}
		s.Txs = append(s.Txs, d, d2)
	}
	// sponsor
	if g.mono > 0 {
		g.mono--
		s.Sp = 1000 + g.monoIdx
	} else if r.Bool(g.sloppy) {
		s.Sp = 1 + r.Intn(2)
	} else if r.Bool(0.04) {
		g.mono = r.Range(3, 10)
		g.monoIdx = r.Intn(8)
	}
	g.h++
	return s
}

// chainWorkload: blocks with interleaved rollbacks and seeks.
func (g *gen) chainWorkload(depositHeavy bool) {
	r := g.r
	nBlocks := r.Range(35, 80)
	if g.tier == "thorough" {
		nBlocks = r.Range(40, 120)
	}
	nRoll := r.Pick(0, 4, 4, 2, 1) // 1..4 mostly
	if r.Bool(0.1) {
		nRoll = 0 // fault free stratum
	}
	nSeek := 0
	if !depositHeavy && r.Bool(0.25) {
		nSeek = r.Range(1, 3)
	}
	type ev struct {
		at   int
		kind string
	}
	var evs []ev
	for i := 0; i < nRoll; i++ {
		evs = append(evs, ev{r.Range(6, nBlocks-1), "rollback"})
	}
	for i := 0; i < nSeek; i++ {
		evs = append(evs, ev{r.Range(6, nBlocks-1), "seek"})
	}
	g.h = 1
	for b := 0; b < nBlocks; b++ {
		g.p.Add(g.block(depositHeavy))
		for _, e := range evs {
			if e.at != b {
				continue
			}
			switch e.kind {
			case "rollback":
				d := []int{1, 1, 1, 1, 2, 2, 3, 3, 4, 5, 6, 8, 10, 14}[r.Intn(14)]
				mode := 1 // block by block, as reorganizeChain does
				if r.Bool(0.2) {
					mode = 0 // one call over the whole depth
				}
				g.p.Add(Step{Op: "rollback", D: d, Mode: mode})
				g.h -= d
				if g.h < 2 {
					g.h = 2
				}
				// the new branch gets at least as many blocks as were dropped, and then some
				for i := 0; i < d+r.Intn(3); i++ {
					g.p.Add(g.block(depositHeavy))
				}
			case "seek":
				g.p.Add(Step{Op: "seek", D: r.Intn(12)})
				if r.Bool(0.1) {
					g.p.Add(Step{Op: "rollback", D: 1 + r.Intn(3), Mode: 1})
					g.h -= 2
				}
			}
		}
	}
}

// restartWorkload (C23, DPoS half): the C21 block workload without rollbacks
// or seeks; 1-3 times a checkpoint is saved, 0-12 blocks later the node stops
// (cleanly, or with one or both checkpoint files torn, or without files) and
// comes up again from the files; the restarted node is fed the following
// blocks alongside the one that never restarted.
func (g *gen) restartWorkload() {
	r := g.r
	nBlocks := r.Range(35, 80)
	if g.tier == "thorough" {
		nBlocks = r.Range(40, 120)
	}
	type ev struct {
		at   int
		kind string
		mode int
		d    int
	}
	var evs []ev
	for i, n := 0, r.Range(1, 3); i < n; i++ {
		at := r.Range(4, nBlocks-2)
		evs = append(evs, ev{at: at, kind: "ckpt", d: r.Pick(3, 2, 2)})
		gap := []int{0, 0, 1, 1, 2, 3, 4, 6, 8, 12}[r.Intn(10)]
		mode := 0
		if r.Bool(0.3) {
			mode = r.Range(1, 4)
		}
		evs = append(evs, ev{at: at + gap, kind: "restart", mode: mode, d: r.Intn(1000)})
	}
	g.h = 1
	for b := 0; b < nBlocks; b++ {
		g.p.Add(g.block(false))
		for _, k := range []string{"ckpt", "restart"} { // a save before the restart of the same block
			for _, e := range evs {
				if e.at == b && e.kind == k {
					g.p.Add(Step{Op: k, Mode: e.mode, D: e.d})
				}
			}
		}
	}
}

// rewardWorkload: many short rounds with fees, a few rollbacks, and direct
// distribution cases.
func (g *gen) rewardWorkload() {
	r := g.r
	nBlocks := r.Range(30, 70)
	g.h = 1
	roll := -1
	if r.Bool(0.4) {
		roll = r.Range(8, nBlocks-1)
	}
	for b := 0; b < nBlocks; b++ {
		s := g.block(false)
		for i := range s.Txs {
			switch r.Intn(5) {
			case 0:
				s.Txs[i].Fee = r.LogUniform(1, 1<<40)
			case 1:
				s.Txs[i].Fee = 0
			}
		}
		g.p.Add(s)
		if b == roll {
			g.p.Add(Step{Op: "rollback", D: 1 + r.Intn(4), Mode: 1})
		}
	}
	n := r.Range(8, 20)
	for i := 0; i < n; i++ {
		g.p.Add(Step{Op: "reward", R: g.rewardCase()})
	}
}

func (g *gen) rewardCase() *RewardCase {
	r := g.r
	rc := &RewardCase{Era: r.Intn(4), NCRC: r.Range(1, 4), NNorm: r.Range(1, 6), CRKind: r.Intn(4), Pow: r.Bool(0.1)}
	rc.CRCIn = r.Intn(rc.NCRC + 1)
	if r.Bool(0.6) {
		rc.CRCIn = rc.NCRC
	}
	nArb := rc.NNorm
	switch r.Intn(6) {
	case 0:
		nArb = 0
	case 1:
		nArb = r.Intn(rc.NNorm + 1) // understaffed
	case 2:
		nArb = rc.NNorm + r.Intn(3) // more than configured
	}
	nCand := r.Intn(5)
	rc.NArb = nArb
	n := nArb + nCand
	// vote distribution
	mode := r.Intn(7)
	for i := 0; i < n; i++ {
		var v int64
		switch mode {
		case 0: // zero votes everywhere
			v = 0
		case 1: // one whale, rest dust
			if i == 0 {
				v = r.LogUniform(1<<40, 1<<62)
			} else {
				v = int64(r.Intn(3))
			}
		case 2: // dust
			v = int64(1 + r.Intn(5))
		case 3: // equal
			v = 1000 * ela
		case 4: // near the top of the range
			v = (1 << 61) / int64(n+1)
		default:
			v = r.LogUniform(1, 1<<50)
		}
		rc.Votes = append(rc.Votes, v)
		rc.InSnap = append(rc.InSnap, !r.Bool(0.1))
	}
	if r.Bool(0.25) {
		rc.Extra = r.LogUniform(1, 1<<50)
	}
	switch r.Intn(8) {
	case 0:
		rc.Reward = 0
	case 1:
		rc.Reward = 1
	case 2:
		rc.Reward = (1 << 62) - int64(r.Intn(4096))
	case 3:
		rc.Reward = r.LogUniform(1<<53, 1<<62)
	case 4:
		rc.Reward = int64(r.Range(2, 100))
	default:
		rc.Reward = r.LogUniform(1, 1<<50)
	}
	return rc
}
