package dposstate

import (
	"fmt"
	"os"
	"runtime/debug"
	"sort"
	"testing/synctest"

	"github.com/elastos/Elastos.ELA/blockchain"
	"github.com/elastos/Elastos.ELA/common"
	"github.com/elastos/Elastos.ELA/core/contract/program"
	"github.com/elastos/Elastos.ELA/core/types"
	common2 "github.com/elastos/Elastos.ELA/core/types/common"
	"github.com/elastos/Elastos.ELA/core/types/functions"
	"github.com/elastos/Elastos.ELA/core/types/interfaces"
	"github.com/elastos/Elastos.ELA/core/types/outputpayload"
	"github.com/elastos/Elastos.ELA/core/types/payload"
	"github.com/elastos/Elastos.ELA/crypto"
	"github.com/elastos/Elastos.ELA/dpos/state"
	"github.com/elastos/Elastos.ELA/events"
)

const simGenesisTime = 1546300800 // 2019-01-01, the bubble's epoch

func (w *world) height() uint32 { return uint32(len(w.chain) - 1) }

func (w *world) initChain() {
	g := &types.Block{Header: common2.Header{Height: 0, Timestamp: simGenesisTime}}
	w.chain = []*simBlock{{blk: g}}
	w.txs = map[common.Uint256]interfaces.Transaction{}
}

// buildBlock assembles the next block of the current branch.
func (w *world) buildBlock(txs []interfaces.Transaction, dt uint32, sponsor []byte) *simBlock {
	prev := w.chain[len(w.chain)-1].blk
	h := prev.Height + 1
	cb := functions.CreateTransaction(
		common2.TxVersionDefault, common2.CoinBase, payload.CoinBaseVersion,
		&payload.CoinBase{Content: []byte(fmt.Sprintf("sim %d/%d", h, w.branch))},
		[]*common2.Attribute{}, []*common2.Input{{
			Previous: common2.OutPoint{Index: 0xffff}, Sequence: 0xffffffff}},
		[]*common2.Output{
			{Value: 0, ProgramHash: *w.params.FoundationProgramHash, Payload: &outputpayload.DefaultOutput{}},
			{Value: 0, ProgramHash: w.voters[0].ownerPH, Payload: &outputpayload.DefaultOutput{}},
		}, h, []*program.Program{})
	all := append([]interfaces.Transaction{cb}, txs...)
	hashes := make([]common.Uint256, 0, len(all))
	for _, t := range all {
		hashes = append(hashes, t.Hash())
	}
	root, err := crypto.ComputeRoot(hashes)
	if err != nil {
		panic(err)
	}
	b := &types.Block{
		Header: common2.Header{
			Version:    1,
			Previous:   prev.Hash(),
			MerkleRoot: root,
			Timestamp:  prev.Timestamp + dt,
			Bits:       0x207fffff,
			Nonce:      w.branch,
			Height:     h,
		},
		Transactions: all,
	}
	sb := &simBlock{blk: b}
	if sponsor != nil {
		sb.confirm = &payload.Confirm{Proposal: payload.DPOSProposal{
			Sponsor: sponsor, BlockHash: b.Hash()}}
	}
	return sb
}

// appendBlock makes sb the tip of the simulated chain.
func (w *world) appendBlock(sb *simBlock) {
	w.chain = append(w.chain, sb)
	for _, t := range sb.blk.Transactions {
		w.txs[t.Hash()] = t
	}
}

// subscribe installs the event tap that collects the transactions the
// arbiters ask the node to put into its pool (next-turn info, revert to PoW).
func (w *world) subscribe() {
	events.Subscribe(func(e *events.Event) {
		switch e.Type {
		case events.ETAppendTxToTxPool, events.ETAppendTxToTxPoolWithoutRelay:
			if tx, ok := e.Data.(interfaces.Transaction); ok {
				w.capMu.Lock()
				w.captured = append(w.captured, capturedTx{e.Type, tx})
				w.capMu.Unlock()
			}
		}
	})
}

// drainCaptured waits for the notification goroutines the arbiters spawned
// and returns what they delivered, in a canonical order.
func (w *world) drainCaptured() []capturedTx {
	synctest.Wait()
	w.capMu.Lock()
	out := w.captured
	w.captured = nil
	w.capMu.Unlock()
	sort.SliceStable(out, func(i, j int) bool {
		if out[i].tx.TxType() != out[j].tx.TxType() {
			return out[i].tx.TxType() < out[j].tx.TxType()
		}
		hi, hj := out[i].tx.Hash(), out[j].tx.Hash()
		return hi.Compare(hj) < 0
	})
	return out
}

// feed delivers one block to an instance the way the node does after the
// block has been stored: special payloads first (PreProcessSpecialTx), then
// checkpoint.Manager.OnBlockSaved, which reaches Arbiters.ProcessBlock.
// A panic of the code under test is contained and reported to the caller.
// between, when not nil, runs after the special payloads and before the block.
func (in *instance) feed(sb *simBlock, between func()) (captured []capturedTx, panicked interface{}) {
	defer func() {
		if r := recover(); r != nil {
			panicked = r
			in.dead = true
		}
	}()
	if in.initReplay && in.replayTip != nil {
		// BlockChain.InitCheckpoint replays while the chain database already holds the whole chain
		in.best = in.replayTip.blk.Height
		in.bc.VerifDposstateSetBest(in.replayTip.blk.Height, in.replayTip.blk.Timestamp)
	} else {
		in.best = sb.blk.Height
		in.bc.VerifDposstateSetBest(sb.blk.Height, sb.blk.Timestamp)
	}
	for _, tx := range sb.blk.Transactions {
		if tx.TxType() == common2.InactiveArbitrators {
			if err := in.arb.ProcessSpecialTxPayload(tx.Payload(), sb.blk.Height-1); err != nil {
				in.w.c.Probe("inactive-payload-forcechange-failed")
			}
		}
	}
	if between != nil {
		between()
	}
	isPow := in.arb.State.GetConsensusAlgorithm() == state.POW
	in.ckp.OnBlockSaved(&types.DposBlock{Block: sb.blk, HaveConfirm: sb.confirm != nil, Confirm: sb.confirm},
		nil, isPow, in.arb.GetRevertToPOWBlockHeight(), in.initReplay)
	captured = in.w.drainCaptured()
	return
}

// rollbackTo takes the instance back to height h. mode 0: one
// Manager.OnRollbackTo(h); mode 1: one call per detached block, descending,
// as BlockChain.reorganizeChain does.
func (in *instance) rollbackTo(h uint32, mode int) (err error, panicked interface{}) {
	defer func() {
		if r := recover(); r != nil {
			panicked = r
			in.dead = true
			if os.Getenv("DPOSSTATE_STACK") != "" {
				fmt.Printf("PANIC in rollback: %v\n%s\n", r, debug.Stack())
			}
		}
	}()
	isPow := in.arb.State.GetConsensusAlgorithm() == state.POW
	if mode == 1 {
		for cur := in.best; cur > h; cur-- {
			if err = in.ckp.OnRollbackTo(cur-1, isPow); err != nil {
				return
			}
			if os.Getenv("DPOSSTATE_STACK") != "" {
				fmt.Printf("  rolled %s to %d: pending=%d active=%d histH=%d\n", in.name, cur-1, len(in.arb.GetPendingProducers()), len(in.arb.GetActiveProducers()), in.arb.State.History.Height())
			}
		}
	} else {
		err = in.ckp.OnRollbackTo(h, isPow)
	}
	in.best = h
	ts := in.w.chain[h].blk.Timestamp
	in.bc.VerifDposstateSetBest(h, ts)
	return
}

func (in *instance) setLedger() {
	blockchain.DefaultLedger = &blockchain.Ledger{Arbitrators: in.arb, Committee: in.committee, Blockchain: in.bc}
}
