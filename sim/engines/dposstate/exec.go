package dposstate

import (
	"bytes"
	"encoding/json"
	"fmt"
	"os"
	"strings"

	"github.com/elastos/Elastos.ELA/blockchain"
	"github.com/elastos/Elastos.ELA/common"
	"github.com/elastos/Elastos.ELA/core/transaction"
	"github.com/elastos/Elastos.ELA/core/types"
	common2 "github.com/elastos/Elastos.ELA/core/types/common"
	"github.com/elastos/Elastos.ELA/core/types/interfaces"
	"github.com/elastos/Elastos.ELA/dpos/state"

	"verif/sim/core"
)

var debugWhy = os.Getenv("DPOSSTATE_WHY") != ""

// Step is one entry of the plan.
type Step struct {
	Op string `json:"op"` // block | rollback | seek | reward | ckpt | restart

	// block
	Txs  []TxD `json:"txs,omitempty"`
	Sp   int   `json:"sp,omitempty"`  // sponsor = arbiter at (on-duty index + Sp)
	Dt   int   `json:"dt,omitempty"`  // timestamp delta (s)
	Byz  bool  `json:"byz,omitempty"` // Byzantine block producer: no mempool conflict rules
	NoNT bool  `json:"nont,omitempty"`

	// rollback / seek
	D    int `json:"d,omitempty"`    // depth in blocks
	Mode int `json:"mode,omitempty"` // rollback: 0 one call, 1 one call per block (as reorganizeChain)

	// reward: direct distribution case (C27)
	R *RewardCase `json:"r,omitempty"`
}

// pendingExt is an input the node gets from outside the block stream and
// that a twin must receive at the same point of the history.
type blockExt struct {
	needRevertToDPOS bool
}

type run struct {
	*world
	steps      []Step
	ext        map[uint32]blockExt // by height, current branch
	pendingNT  interfaces.Transaction
	pendingPOW interfaces.Transaction
	seekViews  map[uint32][]leaf // GetHistory(h) taken when the instance was at h
	recordSeek bool
	crossed    struct{ round, mode bool }
	// reach bookkeeping across a rollback
	roundAt map[uint32]int  // number of round changes seen up to height
	algAt   map[uint32]byte // consensus algorithm after height
	rounds  int
	stop    bool
	seekOutstanding bool // GetHistory left the State seeked and no block came since
	stakeBad        map[common.Uint168]bool
	stakeByz        map[common.Uint168]bool // stake addresses with two or more vote transactions in one (Byzantine) block
	dualListed      bool // a producer has been seen in two of the state's producer maps at once
	seekTaint       bool // a block was processed while a seek was outstanding (until the instance is replaced)
	forcedInSpan    bool // a rolled-back block carried an InactiveArbitrators payload (pre-processed at height-1)
	deepSingleCall  bool // the last rollback was one OnRollbackTo over more than one block (the node itself goes block by block)
	// C23 (DPoS restart): the last saved checkpoint, the restarted node fed alongside
	saved      *savedCkpt
	shadow     *instance
	shadowCtx  string
	shadowLeft int
	cmpAliased bool // the restored state held producers the live node shares between collections
	// C28 bookkeeping of the previous state
}


// Execute interprets the plan.
func (Engine) Execute(c *core.Ctx) {
	core.Bubble(c.T, func() { execute(c) })
}

func execute(c *core.Ctx) {
	resetGlobals()
	defer resetGlobals()
	p := c.Plan
	w := &world{c: c, plan: p, seed: p.Seed}
	w.params = buildParams(p)
	nProd := int(p.Knob("nProd", 8))
	nVot := int(p.Knob("nVoter", 4))
	for i := 0; i < nProd; i++ {
		w.producers = append(w.producers, newActor(p.Seed, "prod", i))
	}
	for i := 0; i < nVot; i++ {
		w.voters = append(w.voters, newActor(p.Seed, "voter", i))
	}
	w.initChain()
	w.ledger = newLedger(w)
	w.lastReturn = map[int]*candTx{}
	w.subscribe()
	r := &run{world: w, ext: map[uint32]blockExt{}, seekViews: map[uint32][]leaf{},
		roundAt: map[uint32]int{}, algAt: map[uint32]byte{}, stakeBad: map[common.Uint168]bool{}, stakeByz: map[common.Uint168]bool{}}
	for _, raw := range p.Steps {
		var s Step
		if err := json.Unmarshal(raw, &s); err != nil {
			panic(err)
		}
		r.steps = append(r.steps, s)
		if s.Op == "seek" {
			r.recordSeek = true
		}
	}
	w.inst = w.newInstance("inst")
	defer func() {
		w.inst.close()
		w.twin.close()
		r.shadow.close()
	}()
	c.SetSample(map[string]interface{}{"knobs": p.Knobs, "steps": len(p.Steps)})
	for i, s := range r.steps {
		c.CurStep = i
		if r.stop {
			break
		}
		switch s.Op {
		case "block":
			r.stepBlock(&s)
		case "rollback":
			r.stepRollback(&s)
		case "seek":
			r.stepSeek(&s)
		case "ckpt":
			r.stepCkpt(&s)
		case "restart":
			r.stepRestart(&s)
		case "reward":
			if s.R != nil {
				runRewardCase(c, p, s.R)
			}
		}
	}
	c.AddSimSeconds(float64(w.chain[len(w.chain)-1].blk.Timestamp - simGenesisTime))
	// Why the canonical form is a field walk and not the components' own
	// bytes: serialise the same checkpoint a few times and see whether the
	// bytes agree (they do not once maps hold more than one entry).
	if !w.inst.dead && w.height() > 0 {
		func() {
			defer func() { recover() }()
			cp := w.inst.arb.Snapshot()
			first := newBuf()
			if cp.Serialize(first) != nil {
				return
			}
			for i := 0; i < 4; i++ {
				b := newBuf()
				cp.Serialize(b)
				if !bytes.Equal(b.Bytes(), first.Bytes()) {
					c.Probe("own-serialisation-is-map-ordered")
					return
				}
			}
			c.Probe("own-serialisation-stable-in-this-run")
		}()
	}
}

// era probes: which regimes of the state machine this block was processed in.
func (r *run) eraProbes(h uint32) {
	c, p := r.c, r.params
	switch {
	case h < p.CRCOnlyDPOSHeight:
		c.Probe("era/origin-arbiters")
	case h < p.PublicDPOSHeight:
		c.Probe("era/crc-only")
	default:
		c.Probe("era/public-dpos")
	}
	if h >= p.CRConfiguration.CRCommitteeStartHeight {
		c.Probe("era/cr-committee-start")
	}
	if h >= p.CRConfiguration.CRClaimDPOSNodeStartHeight {
		c.Probe("era/cr-claim-node")
	}
	if h >= p.CRConfiguration.ChangeCommitteeNewCRHeight {
		c.Probe("era/new-cr")
	}
	if h >= p.DPoSConfiguration.RevertToPOWStartHeight {
		c.Probe("era/revert-to-pow-enabled")
	}
	if h >= p.DPoSV2StartHeight {
		c.Probe("era/dposv2-started")
	}
	if r.inst.arb.IsDPoSV2Run(h) {
		c.Probe("era/dposv2-active")
	}
	if r.inst.arb.GetConsensusAlgorithm() == state.POW {
		c.Probe("era/pow-mode")
	}
}

// accept runs the acceptance pipeline of the node for one candidate against
// the pre-block state of the instance under test. Returns "" when accepted,
// otherwise the stage that refused it.
func (r *run) accept(cd *candTx, h uint32, ts uint32, spent map[string]bool) string {
	tx := cd.tx
	// ledger stage: inputs must be known, unspent, and not spent twice in
	// this block; their scripts must be satisfied by the programs.
	if len(tx.Inputs()) > 0 {
		refs := map[*common2.Input]common2.Output{}
		for _, in := range tx.Inputs() {
			e, ok := r.ledger.has(in.Previous)
			if !ok {
				return "ledger:unknown-or-spent-input"
			}
			if spent[in.Previous.ReferKey()] {
				return "ledger:double-spend-in-block"
			}
			full, err := r.txReference(tx)
			if err != nil {
				return "ledger:unknown-or-spent-input"
			}
			refs[in] = full[in]
			_ = e
		}
		hashes, err := blockchain.GetTxProgramHashes(tx, refs)
		if err != nil {
			return "ledger:program-hashes"
		}
		if err := blockchain.RunPrograms(txData(tx), hashes, tx.Programs()); err != nil {
			return "ledger:signature"
		}
		tx.SetReferences(refs)
	}
	if !cd.checked {
		return ""
	}
	r.inst.setLedger()
	tx.SetParameters(&transaction.TransactionParameters{
		Transaction: tx, BlockHeight: h, TimeStamp: ts, Config: r.inst.params, BlockChain: r.inst.bc})
	if err := tx.HeightVersionCheck(); err != nil {
		return "height-version"
	}
	if err := tx.CheckTransactionPayload(); err != nil {
		return "payload"
	}
	if r.inst.arb.GetConsensusAlgorithm() == state.POW && !tx.IsAllowedInPOWConsensus() {
		return "not-in-pow"
	}
	if e, _ := tx.SpecialContextCheck(); e != nil {
		if debugWhy {
			msg := e.Error()
			if len(msg) > 70 {
				msg = msg[:70]
			}
			r.c.Probe("why/" + cd.kind + "/" + msg)
		}
		return "special-context"
	}
	return ""
}

func txData(tx interfaces.Transaction) []byte {
	buf := newBuf()
	tx.SerializeUnsigned(buf)
	return buf.Bytes()
}

// build resolves a descriptor into a candidate transaction.
func (r *run) build(d TxD, h uint32) *candTx {
	switch d.K {
	case "reg":
		return r.txRegister(d, h)
	case "upd":
		return r.txUpdate(d, h)
	case "cancel":
		return r.txCancel(d)
	case "activate":
		return r.txActivate(d)
	case "vote":
		if h >= r.params.DPoSV2StartHeight && r.inst.arb.IsDPoSV2Run(h) {
			return nil
		}
		return r.txVoteV1(d)
	case "unvote":
		return r.txUnvote(d)
	case "topup":
		return r.txTopup(d)
	case "retdep":
		return r.txReturnDeposit(d)
	case "stake":
		return r.txStake(d)
	case "vote2":
		return r.txVoteV2(d, h)
	case "renew":
		return r.txRenew(d, h)
	case "unstake":
		return r.txReturnVotes(d)
	case "illprop", "illvote", "illblock":
		if h < r.params.CRCOnlyDPOSHeight {
			return nil
		}
		return r.txIllegal(d, h)
	case "inactive":
		if h < r.params.PublicDPOSHeight {
			return nil
		}
		return r.txInactive(d, h)
	case "r2pow":
		if h < r.params.DPoSConfiguration.RevertToPOWStartHeight || r.inst.arb.GetConsensusAlgorithm() != state.DPOS {
			return nil
		}
		return r.txRevertToPOW(d, h)
	case "r2dpos":
		if r.inst.arb.GetConsensusAlgorithm() != state.POW || r.inst.arb.State.DPOSWorkHeight > h ||
			h < r.params.DPoSConfiguration.RevertToPOWStartHeight {
			return nil
		}
		return r.txRevertToDPOS(d, h)
	}
	return nil
}

// conflictKey mirrors which transactions the node's pool would not hold at
// the same time (one per producer owner / program code / stake address).
func conflictKey(cd *candTx) string {
	switch cd.kind {
	case "reg", "upd", "cancel", "activate":
		return fmt.Sprintf("prod/%d", cd.prod.idx)
	case "retdep":
		return fmt.Sprintf("code/%x", cd.signer.ownerCode[:8])
	case "vote2", "renew", "unstake":
		return fmt.Sprintf("stake/%d", cd.stake.idx)
	}
	return ""
}

type blockAcct struct {
	withdrawn map[int]common.Fixed64 // by producer actor idx
	topup     map[int]common.Fixed64
	retTxs    map[int]int
	stakeTxs  map[common.Uint168]int // accepted vote / renew / return-votes transactions per stake address
}

func (r *run) stepBlock(s *Step) {
	c := r.c
	h := r.height() + 1
	prev := r.chain[len(r.chain)-1].blk
	dt := uint32(s.Dt)
	if dt == 0 {
		dt = 120
	}
	ts := prev.Timestamp + dt
	in := r.inst
	alg := in.arb.GetConsensusAlgorithm()

	// pre-block observations for the oracles
	pre := r.preBlock()

	var txs []interfaces.Transaction
	var accepted []*candTx
	ext := blockExt{}
	// transactions the arbiters themselves asked for
	if in.arb.IsNeedNextTurnDPOSInfo() && r.pendingNT != nil && !s.NoNT {
		txs = append(txs, r.pendingNT)
		c.Probe("tx/nextturn")
	}
	if r.pendingPOW != nil && alg == state.DPOS {
		txs = append(txs, r.pendingPOW)
		c.Probe("tx/r2pow-by-arbiters")
	}
	spent := map[string]bool{}
	conflicts := map[string]bool{}
	acct := blockAcct{withdrawn: map[int]common.Fixed64{}, topup: map[int]common.Fixed64{}, retTxs: map[int]int{}, stakeTxs: map[common.Uint168]int{}}
	hasR2POW := r.pendingPOW != nil && alg == state.DPOS
	planTxs := s.Txs
	if h == r.params.VoteStatisticsHeight {
		// State.ProcessVoteStatisticsBlock applies the transactions of this one
		// block twice (it replays a historic mainnet block). What that block
		// contains is history, not something a client or miner chooses.
		planTxs = nil
		c.Probe("vote-statistics-block")
	}
	restoreInst := func() {}
	if r.seekOutstanding {
		r.seekTaint = true
		if r.twin != nil && !r.twin.dead {
			// The State is seeked to an old height: its transaction checks
			// would judge candidates against history (and admit, say, a second
			// registration of a producer). Blocks are what a node that never
			// seeked would accept: judge against the unseeked twin.
			orig := r.world.inst
			r.world.inst = r.twin
			restoreInst = func() { r.world.inst = orig }
		}
	}
	r.seekOutstanding = false
	for _, d := range planTxs {
		cd := r.build(d, h)
		if cd == nil {
			c.Probe("unbuildable/" + d.K)
			continue
		}
		if cd.kind == "r2pow" {
			if hasR2POW {
				continue
			}
		}
		if d.Fee > 0 {
			cd.tx.SetFee(common.Fixed64(d.Fee))
		}
		if ck := conflictKey(cd); ck != "" && !s.Byz {
			if conflicts[ck] {
				c.Probe("pool-conflict/" + cd.kind)
				continue
			}
		}
		if cd.kind == "inactive" && !r.inactiveWouldPass(cd) {
			// BlockChain.connectBlock runs PreProcessSpecialTx first and
			// refuses the block when the forced arbiter change fails; such a
			// block never reaches the arbiters (but see NOTES: the attempt
			// leaves uncommitted changes behind in the node that tried).
			c.Probe("rejected/inactive/force-change-would-fail")
			continue
		}
		why := r.accept(cd, h, ts, spent)
		if cd.adversarial {
			c.Probe("adversarial-tried/" + cd.kind)
		}
		if why != "" {
			c.Probe("rejected/" + cd.kind + "/" + why)
			continue
		}
		// block level rule of the node (CheckDuplicateTx in block sanity)
		trial := &types.Block{Transactions: append(append([]interfaces.Transaction{}, txs...), cd.tx)}
		if err := blockchain.CheckDuplicateTx(trial); err != nil {
			c.Probe("rejected/" + cd.kind + "/block-duplicate")
			continue
		}
		txs = append(txs, cd.tx)
		accepted = append(accepted, cd)
		if ck := conflictKey(cd); ck != "" {
			if conflicts[ck] && s.Byz {
				c.Fault("byzantine-block-same-signer-twice")
			}
			conflicts[ck] = true
		}
		for _, inp := range cd.tx.Inputs() {
			spent[inp.Previous.ReferKey()] = true
		}
		if cd.adversarial {
			c.Fault("adversarial-accepted/" + cd.kind)
		}
		c.Probe("tx/" + cd.kind)
		if debugWhy && cd.prod != nil {
			fmt.Printf("  h=%d accepted %s prod=%d\n", h, cd.kind, cd.prod.idx)
		}
		switch cd.kind {
		case "retdep":
			acct.withdrawn[cd.prod.idx] += cd.withdrawn
			acct.retTxs[cd.prod.idx]++
			r.lastReturn[cd.prod.idx] = cd
			if cd.d.F == 3 {
				c.Fault("replayed-return-deposit-accepted")
			}
		case "reg", "topup":
			acct.topup[cd.prod.idx] += cd.topup
		case "r2pow":
			hasR2POW = true
		case "r2dpos":
			ext.needRevertToDPOS = true
		case "vote2", "renew", "unstake":
			acct.stakeTxs[cd.stake.stakePH]++
		}
		r.noteAccepted(cd)
	}

	restoreInst()

	// sponsor / confirm
	var sponsor []byte
	if alg == state.DPOS && h >= r.params.CRCOnlyDPOSHeight {
		arbs := in.arb.GetArbitrators()
		if len(arbs) > 0 {
			duty := mod(in.arb.GetDutyIndex(), len(arbs))
			idx := mod(duty+s.Sp, len(arbs))
			if s.Sp >= 1000 { // a fixed arbiter proposes whoever is on duty
				idx = mod(s.Sp-1000, len(arbs))
			}
			sponsor = arbs[idx].NodePublicKey
			if idx != duty {
				c.Probe("sponsor-not-on-duty")
			}
		}
	}
	sb := r.buildBlock(txs, dt, sponsor)
	r.appendBlock(sb)
	r.ext[h] = ext
	r.ledger.applyBlock(sb.blk)

	cap, pan := r.feedWithExt(in, sb, func() {
		// a special payload forced an arbiter change (and a reward clearing)
		// at height-1 before the block itself is processed: judge that
		// clearing on its own; no new block reward entered the pool with it.
		if in.arb.VerifDposstateClearingHeight() != pre.clearing && in.arb.VerifDposstateClearingHeight() == h-1 {
			r.c27ObservedEvent(h-1, pre, 0, "forced by a special payload before block")
			mid := r.preBlock()
			pre.acc, pre.clearing, pre.nArbs, pre.nCands, pre.totalVotes = mid.acc, mid.clearing, mid.nArbs, mid.nCands, mid.totalVotes
		}
	})
	if pan != nil {
		c.Probe("panic-in-code-under-test")
		c.Note("panic at height %d on %s: %v", h, in.name, short(fmt.Sprint(pan)))
		if msg := fmt.Sprint(pan); strings.Contains(msg, "clear DPOS reward") {
			// clearingDPOSReward panics when distributeDPOSReward reports that
			// the rule attributed more than the pool
			c.Check()
			seats := len(r.params.DPoSConfiguration.CRCArbiters) + r.params.DPoSConfiguration.NormalArbitratorsCount
			c.Violate("C27", "distribution", c27StopSig(roundClass(pre, seats)),
				"height %d: the reward rule attributed more than the accumulated pool while clearing the round (%d arbiters for %d seats, %d candidates, %d votes in the round's snapshot); the node panics: %s",
				h, pre.nArbs, seats, pre.nCands, int64(pre.totalVotes), short(msg))
		}
	}
	var tpan interface{}
	if r.twin != nil && !r.twin.dead {
		_, tpan = r.feedWithExt(r.twin, sb, nil)
	}
	if r.twin != nil && (pan != nil) != (tpan != nil) {
		c.Check()
		sg := "C21/twin-differs/panic-on-one-side-only"
		if r.seekTaint {
			sg = "C21/state-differs-after-block-processed-during-seek"
		}
		c.Violate("C21", "twin", sg,
			"height %d: panic on rolled-back instance=%v, on directly built twin=%v", h, pan, tpan)
	}
	r.shadowBlock(sb, pan != nil)
	r.ckptTick()
	if pan != nil {
		r.stop = true
		c.Logf("B %d panic", h)
		return
	}
	// transactions requested by the instance for the next block
	r.pendingNT, r.pendingPOW = nil, nil
	for _, ct := range cap {
		switch ct.tx.TxType() {
		case common2.NextTurnDPOSInfo:
			r.pendingNT = ct.tx
		case common2.RevertToPOW:
			r.pendingPOW = ct.tx
		}
	}
	if !in.arb.IsNeedNextTurnDPOSInfo() {
		r.pendingNT = nil
	}

	r.eraProbes(h)
	r.postBlock(h, sb, pre, accepted, &acct, s.Byz)
	if r.recordSeek {
		if kf, err := in.arb.State.GetHistory(h); err == nil {
			r.seekViews[h] = canonOf("History", kf)
		}
	}
	c.Logf("B %d txs=%d sp=%d alg=%d duty=%d arbs=%d cands=%d next=%d votes=%d/%d acc=%d", h, len(txs), s.Sp, in.arb.GetConsensusAlgorithm(),
		in.arb.GetDutyIndex(), len(in.arb.GetArbitrators()), len(in.arb.GetCandidates()), len(in.arb.GetNextArbitrators()),
		int64(in.arb.GetCurrentRewardData().TotalVotesInRound), int64(in.arb.GetNextRewardData().TotalVotesInRound),
		int64(in.arb.VerifDposstateAccumulativeReward()))
}

// feedWithExt applies the out-of-band inputs recorded for the block's height
// and then delivers the block.
func (r *run) feedWithExt(in *instance, sb *simBlock, between func()) ([]capturedTx, interface{}) {
	if e := r.ext[sb.blk.Height]; e.needRevertToDPOS {
		in.arb.SetNeedRevertToDPOSTX(true)
	}
	return in.feed(sb, between)
}

func (r *run) stepRollback(s *Step) {
	c := r.c
	cur := r.height()
	min := r.params.VoteStartHeight // the node never rolls the checkpoints back below this height
	if min < 1 {
		min = 1
	}
	if cur <= min {
		c.Probe("rollback-skipped/too-early")
		return
	}
	maxDepth := int(cur - min)
	capDepth := r.capacityDepth()
	if maxDepth > capDepth {
		maxDepth = capDepth
	}
	if maxDepth < 1 {
		c.Probe("rollback-skipped/no-capacity")
		return
	}
	d := s.D
	if d < 1 {
		d = 1
	}
	if d > maxDepth {
		d = 1 + mod(d-1, maxDepth)
	}
	target := cur - uint32(d)
	if d == capDepth && r.plan.Knob("histCap", 0) > 0 {
		c.Probe("history-capacity-boundary-used")
	}
	if r.roundAt[cur] != r.roundAt[target] {
		c.Probe("rollback-crossed-round-change")
	}
	if r.algAt[cur] != r.algAt[target] {
		c.Probe("rollback-crossed-consensus-mode-switch")
	} else {
		for hh := target + 1; hh <= cur; hh++ {
			if r.algAt[hh] != r.algAt[target] {
				c.Probe("rollback-crossed-consensus-mode-switch")
				break
			}
		}
	}
	r.forcedInSpan = false
	for hh := target + 1; hh <= cur; hh++ {
		for _, tx := range r.chain[hh].blk.Transactions {
			if tx.TxType() == common2.InactiveArbitrators {
				r.forcedInSpan = true
			}
		}
	}
	err, pan := r.inst.rollbackTo(target, s.Mode)
	c.Fault("rollback")
	r.deepSingleCall = s.Mode == 0 && d > 1
	if s.Mode == 1 || d == 1 {
		c.Fault("rollback-as-the-node-does")
	} else {
		c.Fault("rollback-deep-single-call")
	}
	c.ProbeN("rollback-depth-total", d)
	if (pan != nil || err != nil) && r.seekOutstanding {
		c.Check()
		c.Violate("C21", "twin", "C21/rollback-during-seek-corrupts-state",
			"rollback from %d to %d while a GetHistory seek is outstanding failed: err=%v panic=%v", cur, target, err, pan)
		r.stop = true
		return
	}
	if pan != nil || err != nil {
		c.Check()
		c.Violate("C21", "rollback", "C21/rollback-failed-within-capacity",
			"rollback from %d to %d (mode %d) failed: err=%v panic=%v", cur, target, s.Mode, err, pan)
		r.stop = true
		return
	}
	// the simulated chain follows
	r.saved = nil
	if r.shadow != nil {
		r.shadow.close()
		r.shadow = nil
	}
	r.chain = r.chain[:target+1]
	for hh := range r.ext {
		if hh > target {
			delete(r.ext, hh)
		}
	}
	for hh := range r.seekViews {
		if hh > target {
			delete(r.seekViews, hh)
		}
	}
	r.ledger.rebuild()
	r.branch++
	r.pendingNT, r.pendingPOW = nil, nil
	r.rounds = r.roundAt[target]
	c.Logf("R %d->%d mode=%d", cur, target, s.Mode)
	r.freshTwin()
	r.compare(target, "after-rollback")
	r.c28Invariants(target, "after-rollback", nil, false)
	// the arbiters will re-announce what they need at the next block; the
	// pending next-turn transaction of the abandoned branch is gone with it.
	if r.inst.arb.IsNeedNextTurnDPOSInfo() {
		r.pendingNT = r.nextTurnFromTwin()
	}
}

// capacityDepth is how deep a rollback may go and still be "within history
// capacity": derived from the number of committed heights and the capacity
// handed to NewHistory, minus one of slack (DESIGN A.2), not from the
// eviction arithmetic.
func (r *run) capacityDepth() int {
	hc := int(r.plan.Knob("histCap", 0))
	if hc <= 0 {
		hc = 720
	}
	d := hc - 2
	if d < 0 {
		d = 0
	}
	return d
}

// freshTwin builds the comparison instance: a new node fed only the blocks of
// the surviving branch.
func (r *run) freshTwin() {
	r.twin.close()
	r.twin = r.newInstance("twin")
	for _, sb := range r.chain[1:] {
		if _, pan := r.feedWithExt(r.twin, sb, nil); pan != nil {
			r.c.Note("twin replay panicked at %d: %v", sb.blk.Height, short(fmt.Sprint(pan)))
			break
		}
	}
	r.c.Probe("twin-built")
}

// nextTurnFromTwin: after a rollback the pool of a real node still holds (or
// is re-sent) the next-turn transaction for the surviving tip. The directly
// built twin announced exactly that transaction when it processed the tip.
func (r *run) nextTurnFromTwin() interfaces.Transaction {
	// replay of the twin delivered its announcements through the same tap;
	// they were drained per block and the last one is what a node at this
	// tip would hold. Re-feed is not possible, so rebuild it from a scratch
	// instance fed the same blocks and keep its last announcement.
	sc := r.newInstance("scratch")
	defer sc.close()
	var last interfaces.Transaction
	for _, sb := range r.chain[1:] {
		cap, pan := r.feedWithExt(sc, sb, nil)
		if pan != nil {
			return nil
		}
		last = nil
		for _, ct := range cap {
			if ct.tx.TxType() == common2.NextTurnDPOSInfo {
				last = ct.tx
			}
		}
	}
	return last
}

func (r *run) stepSeek(s *Step) {
	c := r.c
	cur := r.height()
	if cur < 2 {
		return
	}
	maxDepth := int(cur) - 1
	if cd := r.capacityDepth(); maxDepth > cd {
		maxDepth = cd
	}
	if maxDepth < 1 {
		return
	}
	d := 1 + mod(s.D, maxDepth)
	target := cur - uint32(d)
	if target < r.params.VoteStartHeight {
		// below the height from which the node keeps DPoS state at all
		c.Probe("seek-skipped/too-early")
		return
	}
	want, ok := r.seekViews[target]
	if !ok {
		c.Probe("seek-skipped/no-record")
		return
	}
	if r.twin == nil {
		r.freshTwin()
	}
	var kf *state.StateKeyFrame
	var err error
	func() {
		defer func() {
			if p := recover(); p != nil {
				err = fmt.Errorf("panic: %v", p)
			}
		}()
		kf, err = r.inst.arb.State.GetHistory(target)
	}()
	c.Fault("seek")
	r.seekOutstanding = true
	c.Logf("S %d->%d", cur, target)
	c.Check()
	if err != nil {
		c.Violate("C21", "seek", "C21/seek-failed-within-capacity", "GetHistory(%d) at height %d: %v", target, cur, err)
		return
	}
	got := canonOf("History", kf)
	ds := diffLeaves(got, want)
	if len(ds) == 0 {
		return
	}
	// One signature for the seek path: GetHistory has no caller in the node
	// and the fields that do not follow a seek are the ones a rollback does
	// not restore either (reported per field by the twin oracle).
	seen := map[string]bool{}
	var classes []string
	for _, df := range ds {
		if !seen[df.class] {
			seen[df.class] = true
			classes = append(classes, df.class)
		}
	}
	if len(classes) > 6 {
		classes = append(classes[:6], "...")
	}
	c.Violate("C21", "seek", "C21/seek-differs",
		"GetHistory(%d) from height %d differs from the state recorded at that height in %d leaves (%v); e.g. %s = %s, was %s",
		target, cur, len(ds), classes, ds[0].path, short(ds[0].a), short(ds[0].b))
}

// inactiveWouldPass tries the special payload on a scratch node fed the
// current branch: would PreProcessSpecialTx accept a block carrying it?
func (r *run) inactiveWouldPass(cd *candTx) bool {
	sc := r.newInstance("scratch")
	defer sc.close()
	for _, sb := range r.chain[1:] {
		if _, pan := r.feedWithExt(sc, sb, nil); pan != nil {
			return false
		}
	}
	ok := true
	func() {
		defer func() {
			if recover() != nil {
				ok = false
			}
		}()
		if err := sc.arb.ProcessSpecialTxPayload(cd.tx.Payload(), r.height()); err != nil {
			ok = false
		}
	}()
	r.drainCaptured()
	return ok
}

func c27StopSig(class string) string {
	if class != "" {
		return "C27/observed" + class
	}
	return "C27/observed/rule-exceeds-pool-node-stops"
}
