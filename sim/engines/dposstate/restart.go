package dposstate

import (
	"bytes"
	"fmt"
	"math"
	"os"
	"path/filepath"
	"sort"
	"strings"

	"github.com/elastos/Elastos.ELA/core/checkpoint"
	common2 "github.com/elastos/Elastos.ELA/core/types/common"
)

// C23 (b), DPoS half: a node restored from a checkpoint and fed the following
// blocks reaches the state of a node that processed every block.
//
// Real code: the checkpoints' own Snapshot / Serialize (what the manager's
// file goroutine writes), checkpoint.Manager.Restore (reads the default files,
// Deserialize, OnInit -> Arbiters.RecoverFromCheckPoints and the committee's
// counterpart), Manager.SafeHeight, Manager.OnBlockSaved with init=true.
// Simulated: the moment of the save (the node saves every 720 blocks, a
// constant no run reaches: the plan picks the height, the calls made are the
// manager's), the crash (clean stop, file of one or both checkpoints torn or
// missing), the replay loop of BlockChain.InitCheckpoint (mirrored, 10 lines).
//
// The reference is the primary instance itself: in this profile it never
// rolls back, it is "a node that processed all blocks without restarting".

var ckpKeys = []string{"cp_cr", "cp_dpos"}

type savedCkpt struct {
	h     uint32
	files map[string][]byte
	ext   map[string]string
	view  *view // the saving node's state at the moment of the save
	// the manager hands the snapshots to its file goroutine, which serialises
	// them later: up to `delay` further blocks are processed first
	snaps map[string]checkpoint.ICheckPoint
	delay int
}

// stepCkpt: the save the manager makes at a save height, at the current tip.
func (r *run) stepCkpt(s *Step) {
	c := r.c
	in := r.inst
	h := r.height()
	if in.dead || h == 0 {
		return
	}
	if r.branch > 0 || r.seekOutstanding || r.seekTaint {
		c.Probe("checkpoint-skipped/instance-went-through-a-rollback-or-seek")
		return
	}
	sv := &savedCkpt{h: h, files: map[string][]byte{}, ext: map[string]string{}, snaps: map[string]checkpoint.ICheckPoint{}, delay: mod(s.D, 3)}
	for _, key := range ckpKeys {
		cp, ok := in.ckp.GetCheckpoint(key, math.MaxUint32)
		if !ok || cp == nil {
			c.Note("checkpoint %s is not registered", key)
			return
		}
		if h <= cp.SaveStartHeight() {
			c.Probe("checkpoint-skipped/before-save-start-height")
			return
		}
		// Manager.onBlockSaved: v.SetHeight(block.Height); snapshot := v.Snapshot();
		// the file goroutine then serialises the snapshot. The live object's
		// height is put back: the next real save would be 720 blocks away.
		var failed string
		func() {
			defer func() {
				if p := recover(); p != nil {
					failed = "panic: " + short(fmt.Sprint(p))
				}
			}()
			old := cp.GetHeight()
			cp.SetHeight(h)
			snap := cp.Snapshot()
			cp.SetHeight(old)
			if snap == nil {
				failed = "Snapshot returned nil"
				return
			}
			sv.snaps[key] = snap
		}()
		c.Check()
		if failed != "" {
			c.Violate("C23", "dpos-restart", "C23/dpos-restart/"+key+"/snapshot-failed",
				"height %d: the %s checkpoint could not be saved: %s", h, key, failed)
			return
		}
		sv.ext[key] = cp.DataExtension()
	}
	sv.view = in.takeView()
	r.saved = sv
	c.Probe("checkpoint-saved")
	c.Logf("K %d write-after=%d", h, sv.delay)
	if sv.delay == 0 {
		r.flushCkpt()
	}
}

// flushCkpt is the file goroutine getting round to its job: the snapshots
// taken at the save are serialised now.
func (r *run) flushCkpt() {
	sv := r.saved
	if sv == nil || sv.snaps == nil {
		return
	}
	for _, key := range ckpKeys {
		var failed string
		func() {
			defer func() {
				if p := recover(); p != nil {
					failed = "panic: " + short(fmt.Sprint(p))
				}
			}()
			buf := new(bytes.Buffer)
			if err := sv.snaps[key].Serialize(buf); err != nil {
				failed = "Serialize: " + err.Error()
				return
			}
			sv.files[key] = buf.Bytes()
		}()
		r.c.Check()
		if failed != "" {
			r.c.Violate("C23", "dpos-restart", "C23/dpos-restart/"+key+"/snapshot-failed",
				"the %s checkpoint taken at height %d could not be written: %s", key, sv.h, failed)
			r.saved = nil
			return
		}
	}
	if r.height() > sv.h {
		r.c.Probe("checkpoint-written-after-further-blocks")
	}
	sv.snaps = nil
	r.c.Logf("W %d at=%d cr=%dB dpos=%dB", sv.h, r.height(), len(sv.files["cp_cr"]), len(sv.files["cp_dpos"]))
}

// ckptTick: one more block has been processed since the save.
func (r *run) ckptTick() {
	if sv := r.saved; sv != nil && sv.snaps != nil {
		sv.delay--
		if sv.delay <= 0 {
			r.flushCkpt()
		}
	}
}

// stepRestart: the node stops (s.Mode: 0 clean; 1 the DPoS file torn; 2 the CR
// file torn; 3 both torn; 4 no files at all) and comes up again the way
// BlockChain.InitCheckpoint does.
func (r *run) stepRestart(s *Step) {
	c := r.c
	tip := r.height()
	if r.inst.dead || tip == 0 {
		return
	}
	if r.branch > 0 || r.seekOutstanding || r.seekTaint {
		c.Probe("restart-skipped/instance-went-through-a-rollback-or-seek")
		return
	}
	mode := mod(s.Mode, 5)
	r.flushCkpt() // a stopping node lets the pending save complete
	sv := r.saved
	if sv == nil && mode != 4 {
		c.Probe("restart-skipped/no-checkpoint-saved")
		return
	}
	base := os.Getenv("SIM_TMP")
	if base == "" {
		base = os.TempDir()
	}
	dir, err := os.MkdirTemp(base, "dposstate-ckp-")
	if err != nil {
		panic("dposstate: temp dir: " + err.Error())
	}
	defer os.RemoveAll(dir)
	kind := "restart-clean"
	torn := map[string]bool{}
	switch mode {
	case 1:
		torn["cp_dpos"] = true
		kind = "restart-dpos-file-torn"
	case 2:
		torn["cp_cr"] = true
		kind = "restart-cr-file-torn"
	case 3:
		torn["cp_dpos"], torn["cp_cr"] = true, true
		kind = "restart-both-files-torn"
	case 4:
		kind = "restart-without-files"
	}
	if mode != 4 {
		for _, key := range ckpKeys {
			data := sv.files[key]
			if torn[key] {
				cut := len(data) / 2
				if s.D > 0 && len(data) > 1 {
					cut = 1 + mod(s.D*7919, len(data)-1)
				}
				data = data[:cut]
			}
			d := filepath.Join(dir, key)
			if err := os.MkdirAll(d, 0o755); err != nil {
				panic(err)
			}
			if err := os.WriteFile(filepath.Join(d, "default"+sv.ext[key]), data, 0o644); err != nil {
				panic(err)
			}
		}
	}
	n := r.newInstance("restarted")
	n.params.CheckPointConfiguration.DataPath = dir
	n.initReplay = true
	var restoreErr error
	var pan interface{}
	func() {
		defer func() {
			if p := recover(); p != nil {
				pan = p
			}
		}()
		restoreErr = n.ckp.Restore()
	}()
	c.Fault(kind)
	c.Check()
	if pan != nil {
		c.Violate("C23", "dpos-restart", "C23/dpos-restart/panic-in-restore@"+kind,
			"%s at height %d (checkpoint of height %d): Manager.Restore panicked: %s", kind, tip, svH(sv), short(fmt.Sprint(pan)))
		n.close()
		return
	}
	_ = restoreErr // carries a temp path; a file that does not load is skipped by the manager
	start := uint32(0)
	if safe := n.ckp.SafeHeight(); start < safe {
		start = safe + 1
	}
	restored := map[string]uint32{}
	for _, key := range ckpKeys {
		if cp, ok := n.ckp.GetCheckpoint(key, math.MaxUint32); ok && cp != nil {
			restored[key] = cp.GetHeight()
		}
	}
	c.Logf("S %s tip=%d saved=%d restored cr=%d dpos=%d replay-from=%d", kind, tip, svH(sv), restored["cp_cr"], restored["cp_dpos"], start)
	// the block at the checkpoints' start height is never replayed by
	// InitCheckpoint's start rule when nothing was loaded (crstate records the
	// CR side of that); when that block carried transactions everything that
	// follows is one consequence
	ctx := kind
	if mode != 0 {
		// whichever file is unusable, the node must come up as if it were absent
		ctx = "some-checkpoint-file-unusable"
	}
	if start >= 1 && int(start) <= len(r.chain) && start-1 >= 1 && restored["cp_dpos"] == 0 {
		if sb := r.chain[start-1]; len(sb.blk.Transactions) > 1 {
			ctx = "start-height-block-not-replayed"
			c.Probe("restart-skipped-start-height-block-with-content")
		}
	}
	// InitCheckpoint pre-processes the special payloads (PreProcessSpecialTx) of
	// every block it replays, also of blocks at or below the restored checkpoint
	// height, which the checkpoints themselves then skip: the forced arbiter
	// change of an InactiveArbitrators payload is applied a second time, to a
	// state that is already past it. One context for everything that follows.
	if rd := restored["cp_dpos"]; rd > 0 {
		for hh := start; hh <= rd && int(hh) < len(r.chain); hh++ {
			if hh == 0 {
				continue
			}
			for _, tx := range r.chain[hh].blk.Transactions {
				if tx.TxType() == common2.InactiveArbitrators {
					ctx = "special-payload-of-block-below-checkpoint-preprocessed-again"
				}
			}
		}
		if strings.HasPrefix(ctx, "special-payload") {
			c.Probe("restart-replayed-special-payload-below-checkpoint")
		}
	}
	// Phase A: what the files carry. A clean restore, before any block is
	// replayed, must be the state the saving node had at the save; every field
	// that is not is a field the checkpoint loses (one signature per field).
	lossy := false
	if sv != nil && restored["cp_dpos"] == sv.h {
		vn := n.takeView()
		lost := append(diffLeaves(vn.named, sv.view.named), diffLeaves(vn.live, sv.view.live)...)
		c.Check()
		seen := map[string]bool{}
		for _, d := range lost {
			lossy = true
			if seen[d.class] {
				continue
			}
			seen[d.class] = true
			c.Violate("C23", "dpos-restart", "C23/dpos-restart/field-not-restored/"+d.class,
				"checkpoint saved at height %d and restored by Manager.Restore: %s is %s on the restored node, %s on the node that saved it", sv.h, d.path, short(d.a), short(d.b))
		}
		if !lossy {
			c.Probe("restored-equals-saved")
		}
	}
	// Does the restored state hold producers that the live node reaches through
	// more than one collection (arbiter / candidate lists, the pending-cancel and
	// v2-effective maps)? The checkpoint restores each with copies of its own.
	aliased := false
	if sv != nil && restored["cp_dpos"] == sv.h {
		for _, l := range sv.view.live {
			if strings.Contains(l.path, ".producer.") || strings.HasPrefix(l.path, "State.PendingCanceledProducers{") || strings.HasPrefix(l.path, "State.DposV2EffectedProducers{") {
				aliased = true
				break
			}
		}
	}
	if aliased {
		c.Probe("restart-restored-shared-producer-objects-as-copies")
	} else {
		c.Probe("restart-no-shared-producer-objects-at-restore")
	}
	r.cmpAliased = aliased
	n.replayTip = r.chain[tip]
	for hh := start; hh <= tip; hh++ {
		if hh == 0 {
			continue
		}
		if _, p := r.feedWithExt(n, r.chain[hh], nil); p != nil {
			c.Check()
			c.Violate("C23", "dpos-restart", "C23/dpos-restart/panic-during-replay@"+ctx,
				"%s at height %d (checkpoint of height %d, restored cr=%d dpos=%d, replay from %d as InitCheckpoint does): replaying block %d panicked: %s",
				kind, tip, svH(sv), restored["cp_cr"], restored["cp_dpos"], start, hh, short(fmt.Sprint(p)))
			n.close()
			return
		}
	}
	n.initReplay = false
	if restored["cp_dpos"] > 0 {
		c.Probe("restart-restored-dpos-from-file")
	}
	if restored["cp_cr"] > 0 {
		c.Probe("restart-restored-cr-from-file")
	}
	if tip > svH(sv) && mode == 0 {
		c.Probe("restart-replayed-blocks-after-checkpoint")
		if r.roundAt[tip] != r.roundAt[svH(sv)] {
			c.Probe("restart-replay-crossed-round-change")
		}
	}
	if lossy {
		// whatever differs from here on follows from the fields already reported
		c.Probe("restart-not-followed/fields-lost-at-restore")
		n.close()
		return
	}
	if !r.compareRestarted(n, tip, ctx, "after-restart") {
		n.close()
		return
	}
	if r.shadow != nil {
		r.shadow.close()
	}
	r.shadow, r.shadowCtx, r.shadowLeft = n, ctx, 8
}

func svH(sv *savedCkpt) uint32 {
	if sv == nil {
		return 0
	}
	return sv.h
}

// compareRestarted: every canonical leaf of the restored instance equals the
// one of the instance that never restarted. One violation per comparison (the
// differing field classes are in the message): after the first difference
// everything else is a consequence. Returns whether the two agree.
func (r *run) compareRestarted(n *instance, h uint32, ctx, when string) bool {
	c := r.c
	if n.dead || r.inst.dead {
		return false
	}
	vi, vn := r.inst.takeView(), n.takeView()
	c.Check()
	all := append(diffLeaves(vn.named, vi.named), diffLeaves(vn.live, vi.live)...)
	if len(all) == 0 {
		c.Probe("restarted-equals-continuous")
		return true
	}
	var cls []string
	for _, d := range all {
		dup := false
		for _, x := range cls {
			dup = dup || x == d.class
		}
		if !dup {
			cls = append(cls, d.class)
		}
	}
	if len(cls) > 8 {
		cls = append(cls[:8], "...")
	}
	d := all[0]
	// where the difference sits: the top-level collections it is confined to
	var roots []string
	for _, x := range all {
		root := x.path
		for i := 0; i < len(root); i++ {
			if root[i] == '{' || root[i] == '[' || (root[i] == '.' && i > 0 && strings.Count(root[:i], ".") >= 1) {
				root = root[:i]
				break
			}
		}
		dup := false
		for _, y := range roots {
			dup = dup || y == root
		}
		if !dup {
			roots = append(roots, root)
		}
	}
	sort.Strings(roots)
	where := "everywhere"
	if len(roots) <= 3 {
		where = strings.Join(roots, "+")
	}
	// The live node keeps ONE Producer object per producer, reachable from several
	// state maps and from the arbiter / candidate lists; the checkpoint writes
	// every map and list with copies of its own, so after a restore an update
	// made through one of them is not seen through the others. One signature
	// when nothing but Producer objects differs.
	onlyProducers := true
	for _, x := range all {
		if !(strings.Contains(x.path, ".producer.") || strings.HasPrefix(x.class, "State.Producer.")) {
			onlyProducers = false
		}
	}
	if onlyProducers {
		where = "producer-objects-only"
	}
	switch {
	case strings.HasPrefix(ctx, "special-payload") || strings.HasPrefix(ctx, "start-height"):
		where = "-" // one known cause, named by the context
	case r.cmpAliased:
		// any later difference can stem from a stale copy (a producer judged by
		// the state of its copy moves between collections differently)
		where = "after-restore-with-shared-producer-objects"
	}
	c.Violate("C23", "dpos-restart", "C23/dpos-restart/diverged-"+when+"/"+where+"@"+ctx,
		"%s height %d (%s): %d leaves differ between the restarted node and the one that never restarted (%v); e.g. %s is %s on the restarted node, %s on the other",
		when, h, ctx, len(all), cls, d.path, short(d.a), short(d.b))
	return false
}

// shadowBlock feeds the block the primary just processed to the restarted
// node as well and compares (the first blocks after a restart every time).
func (r *run) shadowBlock(sb *simBlock, primaryPanicked bool) {
	n := r.shadow
	if n == nil || n.dead {
		return
	}
	_, p := r.feedWithExt(n, sb, nil)
	if (p != nil) != primaryPanicked {
		r.c.Check()
		r.c.Violate("C23", "dpos-restart", "C23/dpos-restart/panic-on-one-side-only@"+r.shadowCtx,
			"height %d: panic on the restarted node=%v, on the node that never restarted=%v", sb.blk.Height, p != nil, primaryPanicked)
	}
	if p != nil || primaryPanicked {
		n.close()
		r.shadow = nil
		return
	}
	if r.shadowLeft > 0 || sb.blk.Height%5 == 0 {
		if r.shadowLeft > 0 {
			r.shadowLeft--
		}
		r.c.Probe("restarted-node-fed-following-blocks")
		if !r.compareRestarted(n, sb.blk.Height, r.shadowCtx, "following-blocks") {
			n.close()
			r.shadow = nil
		}
	}
}
