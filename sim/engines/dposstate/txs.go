package dposstate

import (
	"bytes"
	"sort"

	"github.com/elastos/Elastos.ELA/common"
	"github.com/elastos/Elastos.ELA/core"
	"github.com/elastos/Elastos.ELA/core/contract/program"
	common2 "github.com/elastos/Elastos.ELA/core/types/common"
	"github.com/elastos/Elastos.ELA/core/types/functions"
	"github.com/elastos/Elastos.ELA/core/types/interfaces"
	"github.com/elastos/Elastos.ELA/core/types/outputpayload"
	"github.com/elastos/Elastos.ELA/core/types/payload"
	"github.com/elastos/Elastos.ELA/dpos/state"
)

// TxD is a transaction descriptor of the plan. Indices are resolved modulo
// what exists when the step executes, so a descriptor stays meaningful when
// other steps are deleted by the shrinker.
type TxD struct {
	K string `json:"k"`           // kind
	P int    `json:"p,omitempty"` // producer selector
	V int    `json:"v,omitempty"` // voter / staker selector
	A int64  `json:"a,omitempty"` // amount (sela)
	B int64  `json:"b,omitempty"` // second number: lock time / height offset / interval
	C []int  `json:"c,omitempty"` // candidate selectors
	F int    `json:"f,omitempty"` // flavour (per kind; adversarial variants are > 0)
	Fee int64 `json:"fee,omitempty"`
}

// candidate transaction built from a descriptor.
type candTx struct {
	d       TxD
	tx      interfaces.Transaction
	kind    string
	checked bool     // goes through the real SpecialContextCheck before acceptance
	signer  *actor   // whose keys signed it
	prod    *actor   // producer it concerns (deposit accounting)
	stake   *actor   // stake address it concerns
	withdrawn common.Fixed64 // retdep: inputs - change back to the deposit address
	topup     common.Fixed64 // value newly sent to prod's deposit address
	adversarial bool
}

func sortedProducers(ps []*state.Producer) []*state.Producer {
	sort.Slice(ps, func(i, j int) bool {
		return bytes.Compare(ps[i].OwnerPublicKey(), ps[j].OwnerPublicKey()) < 0
	})
	return ps
}

// actorOf finds the simulated producer owning key pk (owner key).
func (w *world) actorOfOwner(pk []byte) *actor {
	for _, a := range w.producers {
		if bytes.Equal(a.owner.pk, pk) {
			return a
		}
	}
	return nil
}

func mod(i, n int) int {
	if n <= 0 {
		return 0
	}
	i %= n
	if i < 0 {
		i += n
	}
	return i
}

// pickActor chooses a producer actor; with want != nil only among actors whose
// registered producer satisfies want (falls back to the plain index).
func (w *world) pickActor(sel int, want func(p *state.Producer) bool) *actor {
	if want != nil {
		var ok []*actor
		for _, a := range w.producers {
			if p := w.inst.arb.GetProducer(a.owner.pk); p != nil && want(p) {
				ok = append(ok, a)
			}
		}
		if len(ok) > 0 {
			return ok[mod(sel, len(ok))]
		}
	}
	return w.producers[mod(sel, len(w.producers))]
}

func (w *world) newTx(ver common2.TransactionVersion, typ common2.TxType, pver byte, pl interfaces.Payload,
	ins []*common2.Input, outs []*common2.Output, progs []*program.Program) interfaces.Transaction {
	if ins == nil {
		ins = []*common2.Input{}
	}
	if outs == nil {
		outs = []*common2.Output{}
	}
	if progs == nil {
		progs = []*program.Program{}
	}
	return w.uniq(functions.CreateTransaction(ver, typ, pver, pl, []*common2.Attribute{}, ins, outs, 0, progs))
}

// uniq gives a transaction a nonce attribute so that two transactions with
// the same content (two equal top-ups, say) still have different hashes, as
// they would through their inputs on a real chain.
func (w *world) uniq(tx interfaces.Transaction) interfaces.Transaction {
	w.txNonce++
	n := w.txNonce
	tx.SetAttributes([]*common2.Attribute{{Usage: common2.Nonce,
		Data: []byte{byte(n), byte(n >> 8), byte(n >> 16), byte(w.branch), byte(w.branch >> 8)}}})
	return tx
}

func elaOut(ph common.Uint168, v common.Fixed64) *common2.Output {
	return &common2.Output{AssetID: core.ELAAssetID, Value: v, ProgramHash: ph,
		Type: common2.OTNone, Payload: &outputpayload.DefaultOutput{}}
}

func (a *actor) program() *program.Program {
	return &program.Program{Code: a.ownerCode, Parameter: []byte{}}
}

// signProgram fills the program parameter with a real signature over the
// transaction (standard single-signature script).
func signProgram(tx interfaces.Transaction, a *actor) {
	buf := new(bytes.Buffer)
	tx.SerializeUnsigned(buf)
	sig := a.owner.sign(buf.Bytes())
	param := append([]byte{byte(len(sig))}, sig...)
	tx.SetPrograms([]*program.Program{{Code: a.ownerCode, Parameter: param}})
}

// ---- producer life cycle ----------------------------------------------------

func (w *world) txRegister(d TxD, h uint32) *candTx {
	a := w.producers[mod(d.P, len(w.producers))]
	if d.F&4 == 0 {
		// prefer an actor that is not registered yet
		for i := 0; i < len(w.producers); i++ {
			c := w.producers[mod(d.P+i, len(w.producers))]
			if w.inst.arb.GetProducer(c.owner.pk) == nil {
				a = c
				break
			}
		}
	}
	v2 := d.F&1 != 0
	info := &payload.ProducerInfo{
		OwnerKey:      a.owner.pk,
		NodePublicKey: a.nodes[mod(a.nodeVar, len(a.nodes))].pk,
		NickName:      a.nick(),
		Url:           "http://sim",
		Location:      uint64(a.idx),
		NetAddress:    "127.0.0.1",
	}
	pver := payload.ProducerInfoVersion
	if v2 {
		pver = payload.ProducerInfoDposV2Version
		info.StakeUntil = h + uint32(d.B)
	}
	buf := new(bytes.Buffer)
	info.SerializeUnsigned(buf, pver)
	info.Signature = a.owner.sign(buf.Bytes())
	tx := w.newTx(common2.TxVersion09, common2.RegisterProducer, pver, info, nil,
		[]*common2.Output{elaOut(a.depositPH, common.Fixed64(d.A))}, nil)
	return &candTx{d: d, tx: tx, kind: "reg", checked: true, signer: a, prod: a, topup: common.Fixed64(d.A)}
}

func (w *world) txUpdate(d TxD, h uint32) *candTx {
	a := w.pickActor(d.P, func(p *state.Producer) bool {
		return p.State() == state.Active || p.State() == state.Pending || p.State() == state.Inactive
	})
	p := w.inst.arb.GetProducer(a.owner.pk)
	nodeVar, nickVar := a.nodeVar, a.nickVar
	if d.F&1 != 0 {
		nodeVar++
	}
	if d.F&2 != 0 {
		nickVar++
	}
	info := &payload.ProducerInfo{
		OwnerKey:      a.owner.pk,
		NodePublicKey: a.nodes[mod(nodeVar, len(a.nodes))].pk,
		NickName:      (&actor{idx: a.idx, nickVar: nickVar}).nick(),
		Url:           "http://sim/u",
		Location:      uint64(a.idx),
		NetAddress:    "127.0.0.1",
	}
	pver := payload.ProducerInfoVersion
	if p != nil && p.Info().StakeUntil != 0 {
		pver = payload.ProducerInfoDposV2Version
		info.StakeUntil = p.Info().StakeUntil
	}
	if d.F&4 != 0 { // move to / extend DPoS v2
		pver = payload.ProducerInfoDposV2Version
		base := h
		if p != nil && p.Info().StakeUntil > base {
			base = p.Info().StakeUntil
		}
		info.StakeUntil = base + uint32(d.B)
	}
	buf := new(bytes.Buffer)
	info.SerializeUnsigned(buf, pver)
	info.Signature = a.owner.sign(buf.Bytes())
	tx := w.newTx(common2.TxVersion09, common2.UpdateProducer, pver, info, nil, nil, nil)
	c := &candTx{d: d, tx: tx, kind: "upd", checked: true, signer: a, prod: a}
	return c
}

// noteAccepted records harness-side key/nick rotation once an update or
// register made it into a block.
func (w *world) noteAccepted(c *candTx) {
	switch c.kind {
	case "upd":
		if c.d.F&1 != 0 {
			c.prod.nodeVar++
		}
		if c.d.F&2 != 0 {
			c.prod.nickVar++
		}
	}
}

func (w *world) txCancel(d TxD) *candTx {
	a := w.pickActor(d.P, func(p *state.Producer) bool {
		return p.State() == state.Active || p.State() == state.Pending || p.State() == state.Inactive
	})
	pl := &payload.ProcessProducer{OwnerKey: a.owner.pk}
	buf := new(bytes.Buffer)
	pl.SerializeUnsigned(buf, payload.ProcessProducerVersion)
	pl.Signature = a.owner.sign(buf.Bytes())
	tx := w.newTx(common2.TxVersion09, common2.CancelProducer, payload.ProcessProducerVersion, pl, nil, nil, nil)
	return &candTx{d: d, tx: tx, kind: "cancel", checked: true, signer: a, prod: a}
}

func (w *world) txActivate(d TxD) *candTx {
	a := w.pickActor(d.P, func(p *state.Producer) bool {
		return p.State() == state.Inactive || p.State() == state.Illegal
	})
	p := w.inst.arb.GetProducer(a.owner.pk)
	node := a.nodes[mod(a.nodeVar, len(a.nodes))]
	if p != nil {
		for _, n := range a.nodes {
			if bytes.Equal(n.pk, p.NodePublicKey()) {
				node = n
			}
		}
	}
	pl := &payload.ActivateProducer{NodePublicKey: node.pk}
	buf := new(bytes.Buffer)
	pl.SerializeUnsigned(buf, payload.ActivateProducerVersion)
	pl.Signature = node.sign(buf.Bytes())
	tx := w.newTx(common2.TxVersion09, common2.ActivateProducer, payload.ActivateProducerVersion, pl, nil, nil, nil)
	return &candTx{d: d, tx: tx, kind: "activate", checked: true, signer: a, prod: a}
}

// ---- v1 votes ---------------------------------------------------------------

func (w *world) activeCandidates(sel []int) [][]byte {
	act := sortedProducers(w.inst.arb.GetActiveProducers())
	var out [][]byte
	seen := map[string]bool{}
	for _, s := range sel {
		if len(act) == 0 {
			break
		}
		// candidates are named by owner key (what the node's vote checks accept)
		pk := act[mod(s, len(act))].OwnerPublicKey()
		if !seen[string(pk)] {
			seen[string(pk)] = true
			out = append(out, pk)
		}
	}
	return out
}

func (w *world) txVoteV1(d TxD) *candTx {
	voter := w.voters[mod(d.V, len(w.voters))]
	cands := w.activeCandidates(d.C)
	if len(cands) == 0 {
		return nil
	}
	ver := byte(outputpayload.VoteProducerVersion)
	if d.F&1 != 0 {
		ver = outputpayload.VoteProducerAndCRVersion
	}
	var cvs []outputpayload.CandidateVotes
	for i, pk := range cands {
		v := common.Fixed64(0)
		if ver == outputpayload.VoteProducerAndCRVersion {
			v = common.Fixed64(d.A) / common.Fixed64(i+1)
		}
		cvs = append(cvs, outputpayload.CandidateVotes{Candidate: pk, Votes: v})
	}
	out := &common2.Output{AssetID: core.ELAAssetID, Value: common.Fixed64(d.A), ProgramHash: voter.ownerPH,
		Type: common2.OTVote, Payload: &outputpayload.VoteOutput{Version: ver,
			Contents: []outputpayload.VoteContent{{VoteType: outputpayload.Delegate, CandidateVotes: cvs}}}}
	tx := w.newTx(common2.TxVersion09, common2.TransferAsset, 0, &payload.TransferAsset{}, nil,
		[]*common2.Output{out}, nil)
	return &candTx{d: d, tx: tx, kind: "vote", signer: voter}
}

// txUnvote cancels a live v1 vote by spending its output.
func (w *world) txUnvote(d TxD) *candTx {
	live := w.ledger.liveVotes()
	if len(live) == 0 {
		return nil
	}
	ref := live[mod(d.V, len(live))]
	voter := ref.owner
	tx := w.newTx(common2.TxVersion09, common2.TransferAsset, 0, &payload.TransferAsset{},
		[]*common2.Input{{Previous: ref.op, Sequence: 0}},
		[]*common2.Output{elaOut(voter.ownerPH, ref.value)}, nil)
	signProgram(tx, voter)
	return &candTx{d: d, tx: tx, kind: "unvote", signer: voter}
}

// ---- deposits ---------------------------------------------------------------

func (w *world) txTopup(d TxD) *candTx {
	a := w.pickActor(d.P, func(p *state.Producer) bool { return true })
	tx := w.newTx(common2.TxVersionDefault, common2.TransferAsset, 0, &payload.TransferAsset{}, nil,
		[]*common2.Output{elaOut(a.depositPH, common.Fixed64(d.A))}, nil)
	return &candTx{d: d, tx: tx, kind: "topup", signer: w.voters[mod(d.V, len(w.voters))], prod: a,
		topup: common.Fixed64(d.A)}
}

// txReturnDeposit builds a ReturnDepositCoin transaction.
// Flavours: 0 withdraw up to A of what is available with change back;
// 1 withdraw available+A (over-withdraw); 2 spend everything without change;
// 3 replay the producer's last accepted return transaction unchanged;
// 4 signed by another producer (inputs of P, program of Q).
func (w *world) txReturnDeposit(d TxD) *candTx {
	a := w.pickActor(d.P, func(p *state.Producer) bool {
		if d.F == 0 {
			return p.AvailableAmount() > 0
		}
		return true
	})
	if d.F == 3 {
		if last := w.lastReturn[a.idx]; last != nil {
			c := *last
			c.d = d
			c.adversarial = true
			return &c
		}
	}
	utxos := w.ledger.depositUTXOs(a)
	if len(utxos) == 0 {
		return nil
	}
	p := w.inst.arb.GetProducer(a.owner.pk)
	avail := common.Fixed64(0)
	if p != nil {
		avail = p.AvailableAmount()
	}
	fee := w.params.MinTransactionFee
	want := common.Fixed64(d.A)
	adversarial := false
	switch d.F {
	case 0:
		if want > avail {
			want = avail
		}
	case 1, 4:
		want = avail + common.Fixed64(d.A)
		adversarial = true
	case 2:
		want = 1 << 62
		adversarial = true
	}
	if want <= 0 {
		want = 1
	}
	var ins []*common2.Input
	total := common.Fixed64(0)
	for _, u := range utxos {
		ins = append(ins, &common2.Input{Previous: u.op, Sequence: 0})
		total += u.value
		if total >= want && d.F != 2 {
			break
		}
	}
	if want > total {
		want = total
	}
	adversarial = want > avail || d.F == 4
	change := total - want
	var outs []*common2.Output
	if want > fee {
		outs = append(outs, elaOut(a.ownerPH, want-fee))
	} else {
		outs = append(outs, elaOut(a.ownerPH, 0))
	}
	if change > 0 {
		outs = append(outs, elaOut(a.depositPH, change))
	}
	tx := w.newTx(common2.TxVersion09, common2.ReturnDepositCoin, 0, &payload.ReturnDepositCoin{}, ins, outs, nil)
	signer := a
	if d.F == 4 {
		signer = w.pickActor(d.P+1, func(q *state.Producer) bool { return !bytes.Equal(q.OwnerPublicKey(), a.owner.pk) })
	}
	signProgram(tx, signer)
	return &candTx{d: d, tx: tx, kind: "retdep", checked: true, signer: signer, prod: a,
		withdrawn: want, topup: 0, adversarial: adversarial}
}

// ---- DPoS v2 stake / vote / renew / return ----------------------------------

func (w *world) txStake(d TxD) *candTx {
	v := w.voters[mod(d.V, len(w.voters))]
	out := &common2.Output{AssetID: core.ELAAssetID, Value: common.Fixed64(d.A),
		ProgramHash: *w.params.StakePoolProgramHash, Type: common2.OTStake,
		Payload: &outputpayload.ExchangeVotesOutput{Version: 0, StakeAddress: v.stakePH}}
	tx := w.newTx(common2.TxVersion09, common2.ExchangeVotes, 0, &payload.ExchangeVotes{}, nil,
		[]*common2.Output{out}, []*program.Program{v.program()})
	return &candTx{d: d, tx: tx, kind: "stake", checked: true, signer: v, stake: v}
}

// v2Candidates resolves selectors to DPoS v2 capable active producers.
func (w *world) v2Candidates(sel []int) []*state.Producer {
	act := sortedProducers(w.inst.arb.GetActivityV2Producers())
	var out []*state.Producer
	seen := map[string]bool{}
	for _, s := range sel {
		if len(act) == 0 {
			break
		}
		p := act[mod(s, len(act))]
		if !seen[string(p.OwnerPublicKey())] {
			seen[string(p.OwnerPublicKey())] = true
			out = append(out, p)
		}
	}
	return out
}

// pickVoter chooses a voter; with want != nil only among the voters that
// satisfy it (falls back to the plain index).
func (w *world) pickVoter(sel int, want func(v *actor) bool) *actor {
	if want != nil {
		var ok []*actor
		for _, v := range w.voters {
			if want(v) {
				ok = append(ok, v)
			}
		}
		if len(ok) > 0 {
			return ok[mod(sel, len(ok))]
		}
	}
	return w.voters[mod(sel, len(w.voters))]
}

func (w *world) freeRights(v *actor) common.Fixed64 {
	st := w.inst.arb.State
	return st.DposV2VoteRights[v.stakePH] - st.UsedDposV2Votes[v.stakePH]
}

// txVoteV2 builds a Voting transaction. Flavours: bit0 = also a Delegate
// content (stake based DPoS v1 vote); bit1 = ask for more votes than the
// unused rights (A is added on top); bit2 = lock time beyond the producer's
// StakeUntil.
func (w *world) txVoteV2(d TxD, h uint32) *candTx {
	v := w.pickVoter(d.V, func(v *actor) bool { return w.freeRights(v) > 0 })
	rights := w.inst.arb.State.DposV2VoteRights[v.stakePH]
	used := w.inst.arb.State.UsedDposV2Votes[v.stakePH]
	free := rights - used
	pl := &payload.Voting{}
	cands := w.v2Candidates(d.C)
	adversarial := false
	if len(cands) > 0 {
		total := common.Fixed64(d.A)
		if d.F&2 != 0 {
			total = free + common.Fixed64(d.A)
			adversarial = true
		} else if total > free {
			total = free
		}
		if total > 0 {
			var vi []payload.VotesWithLockTime
			for i, p := range cands {
				share := total / common.Fixed64(len(cands))
				if i == 0 {
					share = total - share*common.Fixed64(len(cands)-1)
				}
				if share <= 0 {
					continue
				}
				lock := h + uint32(d.B)
				if lock > p.Info().StakeUntil && d.F&4 == 0 {
					lock = p.Info().StakeUntil
				}
				if d.F&4 != 0 {
					lock = p.Info().StakeUntil + 1 + uint32(d.B)
					adversarial = true
				}
				vi = append(vi, payload.VotesWithLockTime{Candidate: p.OwnerPublicKey(), Votes: share, LockTime: lock})
			}
			if len(vi) > 0 {
				pl.Contents = append(pl.Contents, payload.VotesContent{VoteType: outputpayload.DposV2, VotesInfo: vi})
			}
		}
	}
	if d.F&1 != 0 {
		v1 := w.activeCandidatesV1(d.C)
		var vi []payload.VotesWithLockTime
		for _, pk := range v1 {
			amt := common.Fixed64(d.A)
			if d.F&2 == 0 && amt > rights {
				amt = rights
			}
			if amt > 0 {
				vi = append(vi, payload.VotesWithLockTime{Candidate: pk, Votes: amt})
			}
		}
		if len(vi) > 0 {
			pl.Contents = append(pl.Contents, payload.VotesContent{VoteType: outputpayload.Delegate, VotesInfo: vi})
		}
	}
	if len(pl.Contents) == 0 {
		return nil
	}
	tx := w.newTx(common2.TxVersion09, common2.Voting, payload.VoteVersion, pl, nil, nil,
		[]*program.Program{v.program()})
	return &candTx{d: d, tx: tx, kind: "vote2", checked: true, signer: v, stake: v, adversarial: adversarial}
}

func (w *world) activeCandidatesV1(sel []int) [][]byte {
	act := sortedProducers(w.inst.arb.GetActiveV1Producers())
	var out [][]byte
	seen := map[string]bool{}
	for _, s := range sel {
		if len(act) == 0 {
			break
		}
		pk := act[mod(s, len(act))].OwnerPublicKey()
		if !seen[string(pk)] {
			seen[string(pk)] = true
			out = append(out, pk)
		}
	}
	return out
}

// txRenew renews one existing DPoS v2 vote of a staker. Flavours: 1 = change
// the number of votes (must be refused), 2 = shorter lock time.
func (w *world) txRenew(d TxD, h uint32) *candTx {
	v := w.pickVoter(d.V, func(v *actor) bool { return w.inst.arb.State.UsedDposV2Votes[v.stakePH] > 0 })
	ph := v.stakePH
	votes := w.inst.arb.State.GetDetailedDPoSV2Votes(&ph)
	if len(votes) == 0 {
		return nil
	}
	old := votes[mod(d.P, len(votes))]
	if d.F == 3 {
		// renewal at the last moment: the vote whose lock time is the previous
		// height, so that this block is the one that would expire it
		for _, cand := range votes {
			if len(cand.Info) > 0 && cand.Info[0].LockTime+1 == h {
				old = cand
				w.c.Probe("renewal-built-for-the-block-that-expires-the-vote")
				break
			}
		}
	}
	info := old.Info[0]
	nv := payload.VotesWithLockTime{Candidate: info.Candidate, Votes: info.Votes, LockTime: info.LockTime + uint32(d.B)}
	adversarial := false
	switch d.F {
	case 3:
		if p := w.inst.arb.State.GetProducer(info.Candidate); p != nil && nv.LockTime > p.Info().StakeUntil && p.Info().StakeUntil > info.LockTime {
			nv.LockTime = p.Info().StakeUntil
		}
	case 1:
		nv.Votes += common.Fixed64(d.A)
		adversarial = true
	case 2:
		if nv.LockTime > uint32(d.B)*2 {
			nv.LockTime = info.LockTime - 1
		}
		adversarial = true
	}
	pl := &payload.Voting{RenewalContents: []payload.RenewalVotesContent{{ReferKey: old.ReferKey(), VotesInfo: nv}}}
	tx := w.newTx(common2.TxVersion09, common2.Voting, payload.RenewalVoteVersion, pl, nil, nil,
		[]*program.Program{v.program()})
	return &candTx{d: d, tx: tx, kind: "renew", checked: true, signer: v, stake: v, adversarial: adversarial}
}

// txReturnVotes. Flavours: 0 = up to the unused rights; 1 = unused rights + A.
func (w *world) txReturnVotes(d TxD) *candTx {
	v := w.pickVoter(d.V, func(v *actor) bool { return w.inst.arb.State.DposV2VoteRights[v.stakePH] > 0 })
	rights := w.inst.arb.State.DposV2VoteRights[v.stakePH]
	used := w.inst.arb.State.UsedDposV2Votes[v.stakePH]
	ph := v.stakePH
	if u1 := w.inst.arb.State.GetUsedDPoSVoteRights(&ph); u1 > used {
		used = u1
	}
	free := rights - used
	val := common.Fixed64(d.A)
	adversarial := false
	if d.F == 1 {
		val = free + common.Fixed64(d.A)
		adversarial = true
	} else if val > free {
		val = free
	}
	pl := &payload.ReturnVotes{ToAddr: v.ownerPH, Code: v.ownerCode, Value: val}
	buf := new(bytes.Buffer)
	pl.SerializeUnsigned(buf, payload.ReturnVotesVersionV0)
	pl.Signature = v.owner.sign(buf.Bytes())
	tx := w.newTx(common2.TxVersion09, common2.ReturnVotes, payload.ReturnVotesVersionV0, pl, nil, nil,
		[]*program.Program{v.program()})
	return &candTx{d: d, tx: tx, kind: "unstake", checked: true, signer: v, stake: v, adversarial: adversarial}
}

// ---- evidence / consensus mode ----------------------------------------------

// arbiterKey picks the node key of a current arbiter (or, failing that, of an
// active producer).
func (w *world) arbiterKey(sel int, normalOnly bool) []byte {
	arbs := w.inst.arb.GetArbitrators()
	var keys [][]byte
	for _, a := range arbs {
		if normalOnly && w.inst.arb.IsCRCArbitrator(a.NodePublicKey) {
			continue
		}
		keys = append(keys, a.NodePublicKey)
	}
	if len(keys) == 0 {
		for _, p := range sortedProducers(w.inst.arb.GetActiveProducers()) {
			keys = append(keys, p.NodePublicKey())
		}
	}
	if len(keys) == 0 {
		return nil
	}
	return keys[mod(sel, len(keys))]
}

func (w *world) txIllegal(d TxD, h uint32) *candTx {
	pk := w.arbiterKey(d.P, d.F&8 == 0)
	if d.F&16 != 0 { // aim at a registered producer whatever its state
		a := w.pickActor(d.P, func(p *state.Producer) bool { return true })
		if p := w.inst.arb.GetProducer(a.owner.pk); p != nil {
			pk = p.NodePublicKey()
		}
	}
	if pk == nil {
		return nil
	}
	var tx interfaces.Transaction
	kind := ""
	switch d.K {
	case "illprop":
		kind = "illprop"
		pl := &payload.DPOSIllegalProposals{
			Evidence:        payload.ProposalEvidence{Proposal: payload.DPOSProposal{Sponsor: pk, ViewOffset: uint32(d.B)}, BlockHeight: h - 1},
			CompareEvidence: payload.ProposalEvidence{Proposal: payload.DPOSProposal{Sponsor: pk, ViewOffset: uint32(d.B) + 1}, BlockHeight: h - 1},
		}
		tx = w.newTx(common2.TxVersion09, common2.IllegalProposalEvidence, payload.IllegalProposalVersion, pl, nil, nil, nil)
	case "illvote":
		kind = "illvote"
		pl := &payload.DPOSIllegalVotes{
			Evidence:        payload.VoteEvidence{Vote: payload.DPOSProposalVote{Signer: pk, Accept: true}, ProposalEvidence: payload.ProposalEvidence{BlockHeight: h - 1}},
			CompareEvidence: payload.VoteEvidence{Vote: payload.DPOSProposalVote{Signer: pk, Accept: false}, ProposalEvidence: payload.ProposalEvidence{BlockHeight: h - 1}},
		}
		tx = w.newTx(common2.TxVersion09, common2.IllegalVoteEvidence, payload.IllegalVoteVersion, pl, nil, nil, nil)
	default:
		kind = "illblock"
		pl := &payload.DPOSIllegalBlocks{
			CoinType:    payload.ELACoin,
			BlockHeight: h - 1,
			Evidence:    payload.BlockEvidence{Header: []byte{byte(d.B)}, Signers: [][]byte{pk}},
			CompareEvidence: payload.BlockEvidence{Header: []byte{byte(d.B), 1}, Signers: [][]byte{pk}},
		}
		tx = w.newTx(common2.TxVersion09, common2.IllegalBlockEvidence, payload.IllegalBlockVersion, pl, nil, nil, nil)
	}
	return &candTx{d: d, tx: tx, kind: kind}
}

func (w *world) txInactive(d TxD, h uint32) *candTx {
	var keys [][]byte
	for _, s := range d.C {
		if pk := w.arbiterKey(s, true); pk != nil {
			dup := false
			for _, k := range keys {
				dup = dup || bytes.Equal(k, pk)
			}
			if !dup {
				keys = append(keys, pk)
			}
		}
	}
	if len(keys) == 0 {
		return nil
	}
	var sponsor []byte
	if crc := w.params.DPoSConfiguration.CRCArbiters; len(crc) > 0 {
		sponsor, _ = common.HexStringToBytes(crc[mod(d.P, len(crc))])
	}
	pl := &payload.InactiveArbitrators{Sponsor: sponsor, Arbitrators: keys, BlockHeight: h}
	tx := w.newTx(common2.TxVersion09, common2.InactiveArbitrators, payload.InactiveArbitratorsVersion, pl, nil, nil, nil)
	return &candTx{d: d, tx: tx, kind: "inactive"}
}

func (w *world) txRevertToPOW(d TxD, h uint32) *candTx {
	pl := &payload.RevertToPOW{Type: payload.NoBlock, WorkingHeight: h}
	tx := w.newTx(common2.TxVersion09, common2.RevertToPOW, payload.RevertToPOWVersion, pl, nil, nil, nil)
	return &candTx{d: d, tx: tx, kind: "r2pow"}
}

func (w *world) txRevertToDPOS(d TxD, h uint32) *candTx {
	pl := &payload.RevertToDPOS{WorkHeightInterval: uint32(d.B), RevertToPOWBlockHeight: w.inst.arb.GetRevertToPOWBlockHeight()}
	tx := w.newTx(common2.TxVersion09, common2.RevertToDPOS, payload.RevertToDPOSVersion, pl, nil, nil, nil)
	return &candTx{d: d, tx: tx, kind: "r2dpos"}
}
