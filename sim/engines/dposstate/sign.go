package dposstate

import (
	"crypto/elliptic"
	"crypto/sha256"
	"encoding/binary"
	"math/big"

	"github.com/elastos/Elastos.ELA/crypto"
)

// Keys and signatures of the simulated actors. Everything derives from the
// plan seed; ECDSA nonces are derived from (key, message) so that signatures,
// and with them payload bytes and transaction hashes, are a pure function of
// the plan (crypto.Sign draws its nonce from crypto/rand).

type keyPair struct {
	priv []byte
	pub  *crypto.PublicKey
	pk   []byte // compressed public key (33 bytes)
}

func curve() elliptic.Curve { return crypto.DefaultCurve }

// deriveKey returns the key of actor (role, idx, variant) under seed.
func deriveKey(seed uint64, role string, idx, variant int) *keyPair {
	n := curve().Params().N
	var ctr uint32
	for {
		h := sha256.New()
		var b [8]byte
		binary.LittleEndian.PutUint64(b[:], seed)
		h.Write(b[:])
		h.Write([]byte(role))
		binary.LittleEndian.PutUint64(b[:], uint64(idx)<<32|uint64(uint32(variant)))
		h.Write(b[:])
		binary.LittleEndian.PutUint32(b[:4], ctr)
		h.Write(b[:4])
		d := new(big.Int).SetBytes(h.Sum(nil))
		if d.Sign() > 0 && d.Cmp(n) < 0 {
			priv := make([]byte, 32)
			d.FillBytes(priv)
			x, y := curve().ScalarBaseMult(priv)
			pub := &crypto.PublicKey{X: x, Y: y}
			pk, err := pub.EncodePoint(true)
			if err != nil {
				panic(err)
			}
			return &keyPair{priv: priv, pub: pub, pk: pk}
		}
		ctr++
	}
}

// sign is ECDSA over sha256(data) in the r||s layout of crypto.Sign, with a
// deterministic nonce.
func (k *keyPair) sign(data []byte) []byte {
	digest := sha256.Sum256(data)
	c := curve()
	n := c.Params().N
	d := new(big.Int).SetBytes(k.priv)
	z := new(big.Int).SetBytes(digest[:])
	var ctr byte
	for {
		h := sha256.New()
		h.Write([]byte("dposstate-nonce"))
		h.Write(k.priv)
		h.Write(digest[:])
		h.Write([]byte{ctr})
		kk := new(big.Int).SetBytes(h.Sum(nil))
		ctr++
		kk.Mod(kk, n)
		if kk.Sign() == 0 {
			continue
		}
		kb := make([]byte, 32)
		kk.FillBytes(kb)
		rx, _ := c.ScalarBaseMult(kb)
		r := new(big.Int).Mod(rx, n)
		if r.Sign() == 0 {
			continue
		}
		kinv := new(big.Int).ModInverse(kk, n)
		s := new(big.Int).Mul(r, d)
		s.Add(s, z)
		s.Mul(s, kinv)
		s.Mod(s, n)
		if s.Sign() == 0 {
			continue
		}
		sig := make([]byte, crypto.SignatureLength)
		r.FillBytes(sig[:crypto.SignerLength])
		s.FillBytes(sig[crypto.SignerLength:])
		return sig
	}
}
