// Package dposstate is the deterministic-simulation engine for the DPoS
// arbiter state machine of Elastos.ELA (dpos/state: State, Arbiters, change
// history, reward distribution) and the deposit / vote-right transaction
// checks that guard it. Serves properties C21, C27 and C28; see NOTES.md.
package dposstate

// Engine implements core.Engine.
type Engine struct{}

func (Engine) Name() string { return "dposstate" }

func (Engine) Components() (real []string, stub []string) {
	real = []string{
		"dpos/state.Arbiters + State + StateKeyFrame + CheckPoint (ProcessBlock, IncreaseChainHeight, RollbackTo, GetHistory, reward clearing and distribution rules V0-V3)",
		"utils.History (both change logs; capacity is a knob)",
		"core/checkpoint.Manager (OnBlockSaved / OnRollbackTo dispatch; no files written)",
		"cr/state.Committee (never elected: no CR transactions are generated)",
		"core/transaction: HeightVersionCheck + CheckTransactionPayload + SpecialContextCheck of RegisterProducer, UpdateProducer, CancelProducer, ActivateProducer, ReturnDepositCoin, ExchangeVotes, Voting, ReturnVotes",
		"blockchain.CheckDuplicateTx, blockchain.GetTxProgramHashes + RunPrograms (script check of deposit/vote spends)",
		"core/types payloads, transactions, blocks (real serialisation and hashes)",
		"events (the arbiters' own next-turn / revert-to-PoW transactions are taken from their notifications)",
	}
	stub = []string{
		"block chain and UTXO database: a height-indexed list of harness-built blocks and a deposit-address / vote-output UTXO model (blockchain.BlockChain is a bare carrier of params+state+committee+height)",
		"mempool conflict rules: one transaction per producer / program code / stake address and block unless the block producer is Byzantine",
		"DPoS consensus: confirms carry only the sponsor, chosen by the plan relative to the on-duty arbiter",
		"evidence, inactive-arbitrators, revert-to-PoW/DPoS and v1 vote transactions are not passed through their own context checks (they need signed proposals / arbiter multisignatures)",
	}
	return
}
