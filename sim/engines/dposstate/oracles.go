package dposstate

import (
	"bytes"
	"fmt"
	"math/big"
	"os"
	"sort"
	"strings"

	"github.com/elastos/Elastos.ELA/common"
	"github.com/elastos/Elastos.ELA/dpos/state"
)

func newBuf() *bytes.Buffer { return new(bytes.Buffer) }

// debugStake (SIM_DEBUG_STAKE): per-block dump of every stake address (developer aid).
var debugStake = os.Getenv("SIM_DEBUG_STAKE") != ""

type prodObs struct {
	present                       bool
	avail, deposit, penalty, total common.Fixed64
	st                            state.ProducerState
}

type preObs struct {
	nArbs      int
	nCands     int
	totalVotes common.Fixed64
	acc      common.Fixed64
	clearing uint32
	duty     int
	arbs     string
	alg      state.ConsesusAlgorithm
	prods    []prodObs
}

func (r *run) observeProducers() []prodObs {
	out := make([]prodObs, len(r.producers))
	for i, a := range r.producers {
		if p := r.inst.arb.GetProducer(a.owner.pk); p != nil {
			out[i] = prodObs{true, p.AvailableAmount(), p.DepositAmount(), p.Penalty(), p.TotalAmount(), p.State()}
		}
	}
	return out
}

func (r *run) preBlock() *preObs {
	a := r.inst.arb
	return &preObs{
		nArbs:      len(a.GetArbitrators()),
		nCands:     len(a.GetCandidates()),
		totalVotes: a.GetCurrentRewardData().TotalVotesInRound,
		acc:      a.VerifDposstateAccumulativeReward(),
		clearing: a.VerifDposstateClearingHeight(),
		duty:     a.GetDutyIndex(),
		arbs:     infos(a.GetArbitrators()),
		alg:      a.GetConsensusAlgorithm(),
		prods:    r.observeProducers(),
	}
}

func (r *run) postBlock(h uint32, sb *simBlock, pre *preObs, accepted []*candTx, acct *blockAcct, byz bool) {
	c := r.c
	a := r.inst.arb
	// ---- reach bookkeeping
	if h >= r.params.CRCOnlyDPOSHeight && (infos(a.GetArbitrators()) != pre.arbs || a.GetDutyIndex() < pre.duty) {
		r.rounds++
		c.Probe("round-change")
	}
	r.roundAt[h] = r.rounds
	r.algAt[h] = byte(a.GetConsensusAlgorithm())
	if a.GetConsensusAlgorithm() != pre.alg {
		c.Probe("consensus-mode-switch")
	}
	if len(a.GetInactiveProducers()) > 0 {
		c.Probe("inactive-producer-present")
	}
	if len(a.GetIllegalProducers()) > 0 {
		c.Probe("illegal-producer-present")
	}
	if a.IsInactiveMode() {
		c.Probe("degradation-inactive-mode")
	}
	if a.IsUnderstaffedMode() {
		c.Probe("degradation-understaffed-mode")
	}
	if a.GetLastIrreversibleHeight() > 0 {
		c.Probe("last-irreversible-height-set")
	}

	r.c27Observed(h, sb, pre)
	r.c28AfterBlock(h, pre, acct, byz)
	r.c28Invariants(h, "after-block", acct, byz)
	r.compare(h, "after-block")
}

// ---- C27: what the node recorded for this block's reward clearing ----------

func (r *run) c27Observed(h uint32, sb *simBlock, pre *preObs) {
	a := r.inst.arb
	if a.VerifDposstateClearingHeight() != h || pre.clearing == h {
		return
	}
	r.c27ObservedEvent(h, pre, a.VerifDposstateBlockDPOSReward(sb.blk), "with block")
}

// c27ObservedEvent judges one clearing: pool = what had been accumulated +
// the reward that newly entered - what is carried forward as accumulated.
func (r *run) c27ObservedEvent(h uint32, pre *preObs, entered common.Fixed64, how string) {
	c := r.c
	a := r.inst.arb
	accPost := a.VerifDposstateAccumulativeReward()
	pool := new(big.Int).Add(big.NewInt(int64(pre.acc)), big.NewInt(int64(entered)))
	pool.Sub(pool, big.NewInt(int64(accPost)))
	payouts := a.GetArbitersRoundReward()
	change := a.GetFinalRoundChange()
	c.Probe("c27-observed-clearing")
	seats := len(r.params.DPoSConfiguration.CRCArbiters) + r.params.DPoSConfiguration.NormalArbitratorsCount
	sig, class := "C27/observed", roundClass(pre, seats)
	if entered == 0 && how != "with block" {
		// the forced clearing is a cause of its own whatever the round looked like
		sig, class = "C27", "/observed-forced-change"
	}
	checkDistribution(c, sig, class, fmt.Sprintf("clearing at height %d %s (round had %d arbiters for %d seats, %d candidates, %d votes in the round's snapshot; accumulated before %d, entered %d, carried forward %d)",
		h, how, pre.nArbs, seats, pre.nCands, int64(pre.totalVotes), int64(pre.acc), int64(entered), int64(accPost)), pool, payouts, change, nil)
}

// roundClass names the shape of the round a clearing belonged to, so that
// findings with different causes get different signatures.
func roundClass(pre *preObs, seats int) string {
	switch {
	case pre.totalVotes == 0:
		return "/zero-votes-in-snapshot"
	case pre.nArbs < seats:
		return "/fewer-arbiters-than-seats"
	case pre.nArbs > seats:
		return "/more-arbiters-than-seats"
	}
	return ""
}

// checkDistribution is the C27 oracle proper, in big.Int: no payout negative,
// the payouts together at most the pool, the change carried forward not
// negative, and payouts plus change (both are paid by the coinbase of the
// next block) at most the pool.
func checkDistribution(c interface {
	Check()
	Violate(prop, oracle, signature, format string, a ...interface{}) bool
}, sigPrefix, class, what string, pool *big.Int, payouts map[common.Uint168]common.Fixed64, change common.Fixed64, real *common.Fixed64) {
	// The signature names the shape of the round (zero votes in the snapshot,
	// empty seats, ...) AND the check that failed: a recorded finding about one
	// round shape must not cover a different failure in rounds of that shape.
	sig := func(check string) string {
		return sigPrefix + class + "/" + check
	}
	sum := new(big.Int)
	neg := false
	var negV common.Fixed64
	ks := make([]common.Uint168, 0, len(payouts))
	for k := range payouts {
		ks = append(ks, k)
	}
	sort.Slice(ks, func(i, j int) bool { return bytes.Compare(ks[i][:], ks[j][:]) < 0 })
	for _, k := range ks {
		v := payouts[k]
		if v < 0 {
			neg, negV = true, v
		}
		sum.Add(sum, big.NewInt(int64(v)))
	}
	c.Check()
	if neg {
		c.Violate("C27", "distribution", sig("negative-payout"), "%s: a payout is negative (%d); pool=%s payouts=%d", what, int64(negV), pool, len(payouts))
	}
	c.Check()
	if sum.Cmp(pool) > 0 {
		c.Violate("C27", "distribution", sig("payouts-exceed-pool"), "%s: sum of payouts %s > pool %s", what, sum, pool)
	}
	c.Check()
	if change < 0 {
		c.Violate("C27", "distribution", sig("negative-change"), "%s: change %d < 0 (pool %s, payouts %s)", what, int64(change), pool, sum)
	}
	c.Check()
	tot := new(big.Int).Add(sum, big.NewInt(int64(change)))
	if change >= 0 && !neg && sum.Cmp(pool) <= 0 && tot.Cmp(pool) > 0 {
		c.Violate("C27", "distribution", sig("payouts-plus-change-exceed-pool"),
			"%s: payouts %s + change %d = %s > pool %s (both are paid out by the next coinbase)", what, sum, int64(change), tot, pool)
	}
	if real != nil {
		c.Check()
		if big.NewInt(int64(*real)).Cmp(pool) > 0 {
			c.Violate("C27", "distribution", sig("attributed-paid-exceeds-pool"), "%s: amount attributed as paid %d > pool %s", what, int64(*real), pool)
		}
	}
}

// ---- C28 --------------------------------------------------------------------

// c28AfterBlock judges the withdrawals that were accepted into this block
// against what the producers had available before it.
func (r *run) c28AfterBlock(h uint32, pre *preObs, acct *blockAcct, byz bool) {
	c := r.c
	for i, a := range r.producers {
		w := acct.withdrawn[i]
		if w <= 0 {
			continue
		}
		po := pre.prods[i]
		suffix := ""
		if byz && acct.retTxs[i] > 1 {
			suffix = "/byzantine-block"
		}
		avail := po.avail
		if avail < 0 {
			avail = 0
		}
		c.Check()
		if big.NewInt(int64(w)).Cmp(new(big.Int).Add(big.NewInt(int64(avail)), big.NewInt(int64(acct.topup[i])))) > 0 {
			c.Violate("C28", "deposit", "C28/withdrawn-more-than-available"+suffix,
				"height %d producer %d: %d withdrawn by %d accepted return-deposit tx(s), available before the block was %d (total %d, lock %d, penalty %d)",
				h, i, int64(w), acct.retTxs[i], int64(po.avail), int64(po.total), int64(po.deposit), int64(po.penalty))
		}
		// what actually remains on the deposit address must still cover the
		// lock and the penalties the node knew when it accepted the withdrawal
		bal := r.ledger.balance(a)
		c.Check()
		if big.NewInt(int64(bal)).Cmp(new(big.Int).Add(big.NewInt(int64(po.deposit)), big.NewInt(int64(po.penalty)))) < 0 {
			c.Violate("C28", "deposit", "C28/deposit-address-below-lock-and-penalty"+suffix,
				"height %d producer %d: after withdrawing %d the deposit address holds %d < lock %d + penalty %d",
				h, i, int64(w), int64(bal), int64(po.deposit), int64(po.penalty))
		}
		if p := r.inst.arb.GetProducer(a.owner.pk); p != nil {
			c.Check()
			if p.AvailableAmount() < 0 && po.avail >= 0 && p.Penalty() == po.penalty {
				c.Violate("C28", "deposit", "C28/available-negative-after-withdrawal"+suffix,
					"height %d producer %d: AvailableAmount %d after accepted withdrawal of %d (was %d)", h, i, int64(p.AvailableAmount()), int64(w), int64(po.avail))
			}
		}
	}
}

// c28Invariants are the balance invariants that must hold whenever the state
// is at rest (after a block, after a rollback).
func (r *run) c28Invariants(h uint32, when string, acct *blockAcct, byz bool) {
	c := r.c
	st := r.inst.arb.State
	for i, a := range r.producers {
		p := r.inst.arb.GetProducer(a.owner.pk)
		if p == nil {
			continue
		}
		c.Check()
		if p.TotalAmount() < 0 {
			c.Violate("C28", "balances", "C28/negative/TotalAmount", "%s %d: producer %d TotalAmount %d", when, h, i, int64(p.TotalAmount()))
		}
		if p.DepositAmount() < 0 {
			c.Violate("C28", "balances", "C28/negative/DepositAmount", "%s %d: producer %d DepositAmount %d", when, h, i, int64(p.DepositAmount()))
		}
		if p.Penalty() < 0 {
			c.Violate("C28", "balances", "C28/negative/Penalty", "%s %d: producer %d Penalty %d", when, h, i, int64(p.Penalty()))
		}
		if p.AvailableAmount() < 0 {
			c.Probe("available-amount-negative-seen")
		}
		// the node's book of a producer's deposit must not exceed what sits
		// on the deposit address: AvailableAmount is computed from the book.
		c.Check()
		if bal := r.ledger.balance(a); p.TotalAmount() > bal {
			c.Violate("C28", "balances", "C28/total-amount-exceeds-deposit-address-balance",
				"%s %d: producer %d TotalAmount %d > %d on its deposit address (state %s)", when, h, i, int64(p.TotalAmount()), int64(bal), p.State())
		}
	}
	v2run := r.inst.arb.IsDPoSV2Run(h)
	// A producer held in two of the state's producer maps at once is handed out
	// twice by every "all producers" walk: its expiring votes are released
	// twice. Violations in a run where that has happened carry the cause in
	// their signature, so that a listed finding about it covers nothing else.
	if !r.dualListed {
		in := map[string][]string{}
		for _, nm := range []struct {
			name string
			m    map[string]*state.Producer
		}{{"pending", st.PendingProducers}, {"active", st.ActivityProducers}, {"inactive", st.InactiveProducers}, {"canceled", st.CanceledProducers}, {"illegal", st.IllegalProducers}} {
			for key := range nm.m {
				in[key] = append(in[key], nm.name)
			}
		}
		var dual []string
		for key, names := range in {
			if len(names) > 1 {
				dual = append(dual, fmt.Sprintf("%.8s:%s", key, strings.Join(names, "+")))
			}
		}
		if len(dual) > 0 {
			sort.Strings(dual)
			r.dualListed = true
			c.Probe("producer-listed-in-two-state-maps")
			c.Logf("%s %d: producer(s) listed in two state maps: %v", when, h, dual)
		}
	}
	dualSfx := ""
	if r.dualListed {
		dualSfx = "/after-a-producer-was-listed-in-two-state-maps"
	}
	seen := map[common.Uint168]bool{}
	var addrs []common.Uint168
	for k := range st.DposV2VoteRights {
		if !seen[k] {
			seen[k] = true
			addrs = append(addrs, k)
		}
	}
	for k := range st.UsedDposV2Votes {
		if !seen[k] {
			seen[k] = true
			addrs = append(addrs, k)
		}
	}
	for k := range st.UsedDposVotes {
		if !seen[k] {
			seen[k] = true
			addrs = append(addrs, k)
		}
	}
	sort.Slice(addrs, func(i, j int) bool { return bytes.Compare(addrs[i][:], addrs[j][:]) < 0 })
	for _, k := range addrs {
		rights, used := st.DposV2VoteRights[k], st.UsedDposV2Votes[k]
		sfx := ""
		if byz && acct != nil && acct.stakeTxs[k] > 1 {
			// (the damage of two renewals of one vote in one block shows when
			// the copies expire, many blocks later: the cause stays with the address)
			r.stakeByz[k] = true
		}
		if r.stakeByz[k] {
			sfx = "/byzantine-block"
		}
		c.Check()
		if r.stakeBad[k] {
			continue // already reported for this address when it first went wrong
		}
		kk0 := k
		// the votes really standing on producers for this address (the state's
		// own UsedDposV2Votes counter is bookkeeping, not the votes)
		var standing common.Fixed64
		seenVote := map[common.Uint256]bool{}
		for _, dv := range st.GetDetailedDPoSV2Votes(&kk0) {
			// (a producer listed in two of the state's maps is handed out twice)
			if rk := dv.ReferKey(); seenVote[rk] {
				continue
			} else {
				seenVote[rk] = true
			}
			for _, vi := range dv.Info {
				standing += vi.Votes
			}
		}
		if debugStake {
			line := fmt.Sprintf("DBG %s %d stake %x rights=%d used=%d standing=%d:", when, h, k[:4], int64(rights), int64(used), int64(standing))
			for _, dv := range st.GetDetailedDPoSV2Votes(&kk0) {
				line += fmt.Sprintf(" [%x votes=%d lock=%d at=%d]", dv.ReferKey().Bytes()[:3], int64(dv.Info[0].Votes), dv.Info[0].LockTime, dv.BlockHeight)
			}
			c.Logf("%s", line) // (shown by VERIF_SHOWLOG=1 ./check replay <file>)
		}
		if rights < 0 || used < 0 || used > rights || standing > rights || (!v2run && st.GetUsedDPoSVoteRights(&kk0) > rights) {
			r.stakeBad[k] = true
		}
		if standing > rights && used <= rights {
			c.Violate("C28", "vote-rights", "C28/v2-votes-standing-on-producers-exceed-rights"+dualSfx+sfx, "%s %d: DPoS v2 votes of a stake address standing on producers %d, vote rights %d (the state's used-votes counter says %d)", when, h, int64(standing), int64(rights), int64(used))
		}
		if rights < 0 {
			c.Violate("C28", "vote-rights", "C28/vote-rights-negative"+sfx, "%s %d: stake address vote rights %d", when, h, int64(rights))
		}
		if used < 0 {
			c.Violate("C28", "vote-rights", "C28/used-v2-votes-negative"+dualSfx+sfx, "%s %d: stake address used DPoS v2 votes %d", when, h, int64(used))
		}
		if used > rights {
			c.Violate("C28", "vote-rights", "C28/used-v2-votes-exceed-rights"+sfx, "%s %d: stake address uses %d DPoS v2 votes with %d rights", when, h, int64(used), int64(rights))
		}
		if !v2run {
			kk := k
			if u1 := st.GetUsedDPoSVoteRights(&kk); u1 > rights {
				c.Violate("C28", "vote-rights", "C28/used-dpos-votes-exceed-rights"+sfx, "%s %d: stake address uses %d delegate votes with %d rights", when, h, int64(u1), int64(rights))
			}
		}
		if used > 0 {
			c.Probe("v2-votes-in-use")
		}
	}
}

// ---- C21 --------------------------------------------------------------------

// compare is the twin oracle: every canonical leaf of the instance that went
// through the rollback equals the one of the directly built instance.
func (r *run) compare(h uint32, when string) {
	if r.twin == nil || r.twin.dead || r.inst.dead {
		return
	}
	c := r.c
	vi, vt := r.inst.takeView(), r.twin.takeView()
	c.Check()
	c.State(leavesHash(vi.live))
	diffs := diffLeaves(vi.live, vt.live)
	named := diffLeaves(vi.named, vt.named)
	if len(diffs) == 0 && len(named) == 0 {
		return
	}
	// The arbiter lists and reward data (CheckPoint.*) are computed from the
	// producer state: where the State itself already differs, differences
	// there are consequences and are not reported as classes of their own.
	// A bug in the arbiters' own change log shows when the State is equal.
	stateDiffers := len(named) > 0
	for _, d := range diffs {
		if strings.HasPrefix(d.class, "State.") {
			stateDiffers = true
		}
	}
	seen := map[string]bool{}
	for _, d := range append(named, diffs...) {
		if seen[d.class] {
			continue
		}
		if stateDiffers && strings.HasPrefix(d.class, "CheckPoint.") {
			continue
		}
		seen[d.class] = true
		if r.seekOutstanding {
			// RollbackTo right after GetHistory, before any block re-applied
			// the seek: History.RollbackTo takes no notice of an outstanding
			// seek and undoes changes the seek already undid. One class for
			// the whole family (GetHistory has no caller in the node).
			c.Violate("C21", "twin", "C21/rollback-during-seek-corrupts-state",
				"%s height %d: RollbackTo while a GetHistory seek is outstanding: e.g. %s is %s on the instance, %s on the directly built one (%d leaves differ)",
				when, h, d.path, short(d.a), short(d.b), len(diffs)+len(named))
			break
		}
		if r.seekTaint {
			// A block processed while the State was still seeked: ProcessBlock
			// reads the historical values, and the rollback closures it
			// appends capture them as "original". Everything that differs
			// from then on is one family (GetHistory has no caller in the node).
			c.Violate("C21", "twin", "C21/state-differs-after-block-processed-during-seek",
				"%s height %d: after GetHistory + ProcessBlock: e.g. %s is %s on the instance, %s on the directly built one (%d leaves differ)",
				when, h, d.path, short(d.a), short(d.b), len(diffs)+len(named))
			break
		}
		if r.forcedInSpan {
			// connectBlock pre-processes an InactiveArbitrators payload with
			// ProcessSpecialTxPayload(p, height-1): the forced arbiter change
			// (and reward clearing) is committed to Arbiters.History under
			// height-1, so rolling the block back to height-1 does not undo it.
			// One signature for everything that differs after such a rollback.
			var cls []string
			for _, dd := range append(named, diffs...) {
				dup := false
				for _, x := range cls {
					dup = dup || x == dd.class
				}
				if !dup {
					cls = append(cls, dd.class)
				}
			}
			if len(cls) > 8 {
				cls = append(cls[:8], "...")
			}
			c.Violate("C21", "twin", "C21/twin-differs/special-payload-preprocessing-not-undone",
				"%s height %d: a rolled-back block carried an InactiveArbitrators payload; %d leaves differ (%v); e.g. %s is %s, directly built %s",
				when, h, len(diffs)+len(named), cls, d.path, short(d.a), short(d.b))
			break
		}
		if r.deepSingleCall {
			// one Manager.OnRollbackTo over several blocks: Arbiters.RollbackTo
			// then undoes all heights of its own log before any height of the
			// State's log. reorganizeChain never does that (it goes block by
			// block): one signature for the whole family, classes in the message.
			var cls []string
			for _, dd := range append(named, diffs...) {
				dup := false
				for _, x := range cls {
					dup = dup || x == dd.class
				}
				if !dup && !(stateDiffers && strings.HasPrefix(dd.class, "CheckPoint.")) {
					cls = append(cls, dd.class)
				}
			}
			if len(cls) > 8 {
				cls = append(cls[:8], "...")
			}
			c.Violate("C21", "twin", "C21/twin-differs-deep-single-call",
				"%s height %d: after one OnRollbackTo over several blocks %d leaves differ from the directly built instance (%v); e.g. %s is %s, directly built %s",
				when, h, len(diffs)+len(named), cls, d.path, short(d.a), short(d.b))
			break
		}
		family := "C21/twin-differs/"
		c.Violate("C21", "twin", family+d.class,
			"%s height %d: %s is %s on the instance that was rolled back, %s on the instance built directly from the same blocks",
			when, h, d.path, short(d.a), short(d.b))
	}
	c.Logf("D %d %s classes=%d", h, when, len(seen))
	// From here on the two instances would only drift further apart and
	// every later difference would be a consequence of this one. Continue
	// from the directly built instance so that later rollbacks are judged on
	// their own (C21 runs); other profiles keep the instance a real node
	// would be left with.
	if r.plan.Property == "C21" || r.plan.Property == "" {
		r.inst.close()
		r.inst = r.twin
		r.inst.name = "inst(resynced)"
		r.twin = nil
		r.seekTaint = false
		c.Probe("resynced-after-divergence")
	} else {
		r.twin.close()
		r.twin = nil
	}
}
