package dposstate

import (
	"github.com/elastos/Elastos.ELA/common"
	"github.com/elastos/Elastos.ELA/core/contract"
	"github.com/elastos/Elastos.ELA/core/types"
	common2 "github.com/elastos/Elastos.ELA/core/types/common"
	"github.com/elastos/Elastos.ELA/core/types/interfaces"
)

// ledger is the harness's own model of the two kinds of outputs the DPoS
// state machine cares about on the current branch: outputs sitting on
// producer deposit addresses, and live DPoS v1 vote outputs. It is rebuilt
// from the surviving blocks after a rollback. It knows nothing about
// producers' states, penalties or locks.
type ledger struct {
	w     *world
	order []string // insertion order of outpoint keys (deterministic listing)
	utxo  map[string]*utxoEntry
	// totals per deposit address since genesis of this branch
	deposited map[common.Uint168]common.Fixed64
	returned  map[common.Uint168]common.Fixed64
}

type utxoEntry struct {
	op     common2.OutPoint
	value  common.Fixed64
	ph     common.Uint168
	height uint32
	vote   bool   // a v1 vote output
	owner  *actor // deposit owner or voter
}

func newLedger(w *world) *ledger {
	return &ledger{w: w, utxo: map[string]*utxoEntry{},
		deposited: map[common.Uint168]common.Fixed64{}, returned: map[common.Uint168]common.Fixed64{}}
}

func (l *ledger) ownerOfDeposit(ph common.Uint168) *actor {
	for _, a := range l.w.producers {
		if a.depositPH.IsEqual(ph) {
			return a
		}
	}
	return nil
}

func (l *ledger) ownerOfStandard(ph common.Uint168) *actor {
	for _, a := range l.w.voters {
		if a.ownerPH.IsEqual(ph) {
			return a
		}
	}
	return nil
}

func (l *ledger) applyTx(tx interfaces.Transaction, height uint32) {
	for _, in := range tx.Inputs() {
		k := in.Previous.ReferKey()
		if e, ok := l.utxo[k]; ok {
			if !e.vote {
				l.returned[e.ph] += e.value
			}
			delete(l.utxo, k)
		}
	}
	for i, out := range tx.Outputs() {
		op := common2.OutPoint{TxID: tx.Hash(), Index: uint16(i)}
		if contract.GetPrefixType(out.ProgramHash) == contract.PrefixDeposit {
			if a := l.ownerOfDeposit(out.ProgramHash); a != nil {
				k := op.ReferKey()
				l.utxo[k] = &utxoEntry{op: op, value: out.Value, ph: out.ProgramHash, height: height, owner: a}
				l.order = append(l.order, k)
				l.deposited[out.ProgramHash] += out.Value
			}
		} else if out.Type == common2.OTVote {
			if a := l.ownerOfStandard(out.ProgramHash); a != nil {
				k := op.ReferKey()
				l.utxo[k] = &utxoEntry{op: op, value: out.Value, ph: out.ProgramHash, height: height, vote: true, owner: a}
				l.order = append(l.order, k)
			}
		}
	}
}

func (l *ledger) applyBlock(b *types.Block) {
	for _, tx := range b.Transactions {
		l.applyTx(tx, b.Height)
	}
}

func (l *ledger) rebuild() {
	l.order = nil
	l.utxo = map[string]*utxoEntry{}
	l.deposited = map[common.Uint168]common.Fixed64{}
	l.returned = map[common.Uint168]common.Fixed64{}
	for _, sb := range l.w.chain[1:] {
		l.applyBlock(sb.blk)
	}
}

func (l *ledger) list(f func(e *utxoEntry) bool) []*utxoEntry {
	var out []*utxoEntry
	for _, k := range l.order {
		if e, ok := l.utxo[k]; ok && f(e) {
			out = append(out, e)
		}
	}
	return out
}

func (l *ledger) depositUTXOs(a *actor) []*utxoEntry {
	return l.list(func(e *utxoEntry) bool { return !e.vote && e.owner == a })
}

func (l *ledger) liveVotes() []*utxoEntry {
	return l.list(func(e *utxoEntry) bool { return e.vote })
}

// balance is what sits on a's deposit address on this branch.
func (l *ledger) balance(a *actor) common.Fixed64 {
	var s common.Fixed64
	for _, e := range l.depositUTXOs(a) {
		s += e.value
	}
	return s
}

func (l *ledger) has(op common2.OutPoint) (*utxoEntry, bool) {
	e, ok := l.utxo[op.ReferKey()]
	return e, ok
}
