package dposstate

import (
	"encoding/hex"
	"errors"
	"fmt"
	"math"
	"sync"

	"github.com/elastos/Elastos.ELA/blockchain"
	"github.com/elastos/Elastos.ELA/common"
	"github.com/elastos/Elastos.ELA/common/config"
	"github.com/elastos/Elastos.ELA/core/checkpoint"
	"github.com/elastos/Elastos.ELA/core/contract"
	"github.com/elastos/Elastos.ELA/core/transaction"
	"github.com/elastos/Elastos.ELA/core/types"
	common2 "github.com/elastos/Elastos.ELA/core/types/common"
	"github.com/elastos/Elastos.ELA/core/types/functions"
	"github.com/elastos/Elastos.ELA/core/types/interfaces"
	"github.com/elastos/Elastos.ELA/core/types/payload"
	crstate "github.com/elastos/Elastos.ELA/cr/state"
	msg2 "github.com/elastos/Elastos.ELA/dpos/p2p/msg"
	"github.com/elastos/Elastos.ELA/dpos/state"
	"github.com/elastos/Elastos.ELA/events"
	"github.com/elastos/Elastos.ELA/utils"

	"verif/sim/core"
)

func init() {
	// The node does these assignments in its main package.
	functions.GetTransactionByTxType = transaction.GetTransaction
	functions.GetTransactionByBytes = transaction.GetTransactionByBytes
	functions.CreateTransaction = transaction.CreateTransaction
	functions.GetTransactionParameters = transaction.GetTransactionparameters
}

// knob names of the simulated network configuration. Every consensus
// parameter the oracles use is read back from the Configuration built here,
// which is the value the Arbiters under test are given.
var cfgKnobNames = []string{
	"nOrigin", "nCRC", "nNormal", "nCand", "preConnect",
	"hVote", "hCRCOnly", "hPublic", "hActIllegal", "hCRVoting", "hCRCommittee",
	"hCRClaim", "hNewCR", "hNoCRC", "hRevertPOW", "hV2Start", "hRecordSponsor",
	"hNodeCross", "hNFT", "hVoteStat",
	"lockup", "maxInactive", "maxInactiveRandom", "randomPeriod",
	"penInactive", "penIllegal", "penEmergency", "penV2Illegal",
	"v2Effective", "v2DepMinLock", "v2MinLock", "v2MaxLock",
}

// buildParams returns a fresh Configuration from the plan's knobs.
func buildParams(p *core.Plan) *config.Configuration {
	k := func(n string, def int64) int64 { return p.Knob(n, def) }
	u := func(n string, def int64) uint32 {
		v := k(n, def)
		if v < 0 || v > math.MaxUint32 {
			return math.MaxUint32
		}
		return uint32(v)
	}
	c := config.GetDefaultParams()
	seed := p.Seed
	nOrigin, nCRC := int(k("nOrigin", 3)), int(k("nCRC", 2))
	c.DPoSConfiguration.OriginArbiters = nil
	for i := 0; i < nOrigin; i++ {
		c.DPoSConfiguration.OriginArbiters = append(c.DPoSConfiguration.OriginArbiters,
			hex.EncodeToString(deriveKey(seed, "origin", i, 0).pk))
	}
	c.DPoSConfiguration.CRCArbiters = nil
	for i := 0; i < nCRC; i++ {
		c.DPoSConfiguration.CRCArbiters = append(c.DPoSConfiguration.CRCArbiters,
			hex.EncodeToString(deriveKey(seed, "crc", i, 0).pk))
	}
	c.CRConfiguration.MemberCount = uint32(nCRC)
	c.DPoSConfiguration.NormalArbitratorsCount = int(k("nNormal", 3))
	c.DPoSConfiguration.CandidatesCount = int(k("nCand", 2))
	c.DPoSConfiguration.PreConnectOffset = u("preConnect", 2)

	c.VoteStartHeight = u("hVote", 2)
	c.CRCOnlyDPOSHeight = u("hCRCOnly", 8)
	c.PublicDPOSHeight = u("hPublic", 14)
	c.EnableActivateIllegalHeight = u("hActIllegal", 16)
	c.VoteStatisticsHeight = u("hVoteStat", 17)
	c.CRConfiguration.CRVotingStartHeight = u("hCRVoting", 3)
	c.CRConfiguration.CRCommitteeStartHeight = u("hCRCommittee", 20)
	c.CRConfiguration.CRClaimDPOSNodeStartHeight = u("hCRClaim", 24)
	c.CRConfiguration.ChangeCommitteeNewCRHeight = u("hNewCR", 30)
	c.DPoSConfiguration.NoCRCDPOSNodeHeight = u("hNoCRC", 30)
	c.DPoSConfiguration.RevertToPOWStartHeight = u("hRevertPOW", 30)
	c.DPoSV2StartHeight = u("hV2Start", 40)
	c.DPoSConfiguration.RecordSponsorStartHeight = u("hRecordSponsor", math.MaxUint32)
	c.DPoSConfiguration.DPOSNodeCrossChainHeight = u("hNodeCross", math.MaxUint32)
	c.DPoSConfiguration.NFTStartHeight = u("hNFT", math.MaxUint32)
	c.DPoSConfiguration.CRDPoSNodeHotFixHeight = 0

	c.CRConfiguration.DepositLockupBlocks = u("lockup", 4)
	c.DPoSConfiguration.MaxInactiveRounds = u("maxInactive", 4)
	c.DPoSConfiguration.MaxInactiveRoundsOfRandomNode = u("maxInactiveRandom", 6)
	c.DPoSConfiguration.RandomCandidatePeriod = u("randomPeriod", 12)
	c.DPoSConfiguration.InactivePenalty = common.Fixed64(k("penInactive", 0))
	c.DPoSConfiguration.IllegalPenalty = common.Fixed64(k("penIllegal", 0))
	c.DPoSConfiguration.EmergencyInactivePenalty = common.Fixed64(k("penEmergency", 0))
	c.DPoSConfiguration.DPoSV2IllegalPenalty = common.Fixed64(k("penV2Illegal", 200*1e8))
	c.DPoSV2EffectiveVotes = common.Fixed64(k("v2Effective", 1000*1e8))
	c.DPoSConfiguration.DPoSV2DepositCoinMinLockTime = u("v2DepMinLock", 6)
	c.DPoSConfiguration.DPoSV2MinVotesLockTime = u("v2MinLock", 4)
	c.DPoSConfiguration.DPoSV2MaxVotesLockTime = u("v2MaxLock", 400)

	// Not consensus relevant for the state machine, but must not point at
	// anything real.
	c.DPoSConfiguration.SponsorsFilePath = "sponsors-absent"
	c.CheckPointConfiguration.NeedSave = false
	c.CheckPointConfiguration.EnableHistory = false
	c.FrozenAddresses = nil
	c.Sterilize()
	c.DPoSConfiguration.SignTolerance = 5
	return c
}

// actor is one simulated producer (owner + node keys) or voter.
type actor struct {
	idx       int
	owner     *keyPair
	nodes     []*keyPair // node key variants (update producer rotates)
	nodeVar   int        // variant used by the last accepted register/update
	nickVar   int
	depositPH common.Uint168
	ownerPH   common.Uint168 // standard address of the owner key
	ownerCode []byte
	stakePH   common.Uint168 // stake address derived from the owner code
}

func newActor(seed uint64, role string, idx int) *actor {
	a := &actor{idx: idx, owner: deriveKey(seed, role+"-owner", idx, 0)}
	for v := 0; v < 3; v++ {
		a.nodes = append(a.nodes, deriveKey(seed, role+"-node", idx, v))
	}
	dc, err := contract.CreateDepositContractByPubKey(a.owner.pub)
	if err != nil {
		panic(err)
	}
	a.depositPH = *dc.ToProgramHash()
	sc, err := contract.CreateStandardContract(a.owner.pub)
	if err != nil {
		panic(err)
	}
	a.ownerPH = *sc.ToProgramHash()
	a.ownerCode = sc.Code
	st, err := contract.CreateStakeContractByCode(sc.Code)
	if err != nil {
		panic(err)
	}
	a.stakePH = *st.ToProgramHash()
	return a
}

func (a *actor) nick() string { return fmt.Sprintf("p%d-%d", a.idx, a.nickVar) }

// simBlock is one block of the simulated chain with the confirm it was
// delivered with.
type simBlock struct {
	blk     *types.Block
	confirm *payload.Confirm
}

// world is everything one run owns.
type world struct {
	c      *core.Ctx
	plan   *core.Plan
	seed   uint64
	params *config.Configuration // template; every instance gets its own copy built the same way

	producers []*actor
	voters    []*actor

	chain  []*simBlock                          // current branch; index = height; [0] is the genesis placeholder
	txs    map[common.Uint256]interfaces.Transaction // every tx ever put in a block (any branch)
	branch uint32                               // bumped on every rollback: makes new-branch blocks differ

	inst *instance
	twin *instance

	ledger     *ledger
	lastReturn map[int]*candTx
	txNonce    uint32

	capMu    sync.Mutex
	captured []capturedTx
	capFor   *instance
}

type capturedTx struct {
	typ events.EventType
	tx  interfaces.Transaction
}

// instance is one "node": real Arbiters + State + Committee + checkpoint
// manager, plus the bare chain object the transaction checks read through.
type instance struct {
	name      string
	w         *world
	params    *config.Configuration
	arb       *state.Arbiters
	committee *crstate.Committee
	ckp       *checkpoint.Manager
	bc        *blockchain.BlockChain
	best      uint32
	dead      bool // a panic of the code under test escaped while processing
	initReplay bool // blocks are delivered with init=true, as BlockChain.InitCheckpoint replays them
	replayTip  *simBlock
}

func (w *world) newInstance(name string) *instance {
	in := &instance{name: name, w: w, params: buildParams(w.plan)}
	in.ckp = checkpoint.NewManager(in.params)
	in.committee = crstate.NewCommittee(in.params, in.ckp)
	arb, err := state.NewArbitrators(in.params, in.committee,
		func(common.Uint168) (common.Fixed64, error) { return 0, nil },
		in.committee.TryUpdateCRMemberInactivity,
		in.committee.TryRevertCRMemberInactivity,
		in.committee.TryUpdateCRMemberIllegal,
		in.committee.TryRevertCRMemberIllegal,
		in.committee.UpdateCRInactivePenalty,
		in.committee.RevertUpdateCRInactivePenalty,
		in.ckp)
	if err != nil {
		panic(fmt.Sprintf("NewArbitrators: %v", err))
	}
	in.arb = arb
	if hc := int(w.plan.Knob("histCap", 0)); hc > 0 {
		// History capacity is a construction-time tuning knob of both
		// change logs (exported fields, set before any block is processed).
		arb.History = utils.NewHistory(hc)
		arb.State.History = utils.NewHistory(hc)
	}
	arb.RegisterFunction(
		func() uint32 { return in.best },
		func() *common.Uint256 {
			h := w.chain[in.best].blk.Hash()
			return &h
		},
		func(h uint32) (*types.Block, error) {
			if int(h) >= len(w.chain) || h == 0 {
				return nil, errors.New("sim: no such block")
			}
			return w.chain[h].blk, nil
		},
		w.txReference)
	arb.State.RegisterFuncitons(&state.StateFuncsConfig{
		GetHeight: func() uint32 { return in.best },
	})
	in.committee.RegisterFuncitons(&crstate.CommitteeFuncsConfig{
		GetTxReference:     w.txReference,
		GetHeight:          func() uint32 { return in.best },
		GetUTXO:            func(*common.Uint168) ([]*common2.UTXO, error) { return nil, nil },
		GetCurrentArbiters: arb.GetCurrentArbitratorKeys,
	})
	in.bc = blockchain.VerifDposstateBareChain(in.params, arb.State, in.committee)
	return in
}

func (in *instance) close() {
	if in != nil && in.ckp != nil {
		in.ckp.Close()
		in.ckp = nil
	}
}

// txReference resolves the inputs of tx against every transaction the
// simulated chain has ever carried (the UTXO cache of the node).
func (w *world) txReference(tx interfaces.Transaction) (map[*common2.Input]common2.Output, error) {
	res := make(map[*common2.Input]common2.Output)
	for _, in := range tx.Inputs() {
		ref, ok := w.txs[in.Previous.TxID]
		if !ok || int(in.Previous.Index) >= len(ref.Outputs()) {
			return nil, errors.New("sim: unknown referred tx")
		}
		res[in] = *ref.Outputs()[in.Previous.Index]
	}
	return res, nil
}

// resetGlobals puts the process-global singletons the code under test
// touches into a defined state; a worker process executes many runs.
func resetGlobals() {
	events.VerifDposstateResetSubscribers()
	blockchain.DefaultLedger = nil
	msg2.SetPayloadVersion(msg2.DPoSV1Version)
}
