package dposstate

import (
	"fmt"
	"os"
	"sort"
	"testing"

	"github.com/elastos/Elastos.ELA/core/types"
	"github.com/elastos/Elastos.ELA/core/types/payload"

	"verif/sim/core"
)

// Hand-written histories used to pin down individual findings (development aid;
// skipped unless DEV_SCEN is set).

func baseKnobs() map[string]int64 {
	return map[string]int64{
		"nProd": 8, "nVoter": 4, "nOrigin": 3, "nCRC": 2, "nNormal": 2, "nCand": 2, "preConnect": 1,
		"hVote": 1, "hCRCOnly": 4, "hPublic": 10, "hActIllegal": 10, "hVoteStat": 1 << 30, "hCRVoting": 1,
		"hCRCommittee": 12, "hCRClaim": 13, "hNewCR": 14, "hNoCRC": 14, "hRevertPOW": 14, "hV2Start": 16,
		"lockup": 3, "maxInactive": 3, "maxInactiveRandom": 3, "randomPeriod": 8,
		"penInactive": 100 * ela, "penIllegal": 100 * ela, "penEmergency": 100 * ela, "penV2Illegal": 100 * ela,
		"v2Effective": 100 * ela, "v2DepMinLock": 7200, "v2MinLock": 7200, "v2MaxLock": 720000, "histCap": 0,
	}
}

func blk(txs ...TxD) Step { return Step{Op: "block", Txs: txs, Dt: 120} }
func roll(d, mode int) Step { return Step{Op: "rollback", D: d, Mode: mode} }

func runScenario(t *testing.T, name, prop string, knobs map[string]int64, steps []Step) {
	p := &core.Plan{Engine: "dposstate", Property: prop, Tier: "quick", Seed: 4242, Knobs: knobs}
	for _, s := range steps {
		p.Add(s)
	}
	out := core.Run(t, Engine{}, p, true)
	fmt.Printf("==== %s: harnessErr=%q\n", name, out.HarnessErr)
	if os.Getenv("DEV_LOG") != "" {
		for _, l := range out.Log {
			fmt.Println("   ", l)
		}
	}
	var pk []string
	for k, v := range out.Probes {
		if len(k) > 3 && (k[:3] == "tx/" || k[:4] == "rej" || k[:4] == "unbu") {
			pk = append(pk, fmt.Sprintf("%s=%d", k, v))
		}
	}
	sort.Strings(pk)
	fmt.Println("   probes:", pk)
	for _, n := range out.Notes {
		fmt.Println("   note:", n)
	}
	for _, v := range out.Violations {
		fmt.Printf("   %s %s [step %d]\n        %s\n", v.Property, v.Signature, v.Step, v.Message)
	}
}

func TestScen(t *testing.T) {
	which := os.Getenv("DEV_SCEN")
	if which == "" {
		t.Skip()
	}
	reg := func(p int) TxD { return TxD{K: "reg", P: p, A: minDepositV1 + 100*ela, F: 4} }
	vote := func(v int, amt int64, c ...int) TxD { return TxD{K: "vote", V: v, A: amt, C: c, F: 1} }
	_ = vote
	early := []Step{
		blk(reg(0), reg(1), reg(2)), blk(reg(3), reg(4), reg(5)), blk(), blk(), blk(), blk(), blk(), blk(),
		blk(vote(0, 1000*ela, 0, 1, 2, 3, 4, 5)),
	}
	empty := func(n int) []Step {
		var s []Step
		for i := 0; i < n; i++ {
			s = append(s, blk())
		}
		return s
	}
	cat := func(parts ...[]Step) []Step {
		var s []Step
		for _, p := range parts {
			s = append(s, p...)
		}
		return s
	}
	switch which {
	case "empty-roll":
		// empty blocks with producers registered and voted; roll back one block at every height
		for n := 10; n <= 30; n++ {
			runScenario(t, fmt.Sprintf("empty-roll at %d", n), "C21", baseKnobs(), cat(early, empty(n-9), []Step{roll(1, 0)}))
		}
	case "kinds":
		// one block with one transaction kind on top of a common history, then roll that block back:
		// which classes differ beyond those an empty block at the same height leaves behind?
		classes := func(name string, steps []Step) map[string]string {
			p := &core.Plan{Engine: "dposstate", Property: "C21", Tier: "quick", Seed: 4242, Knobs: baseKnobs()}
			for _, s := range steps {
				p.Add(s)
			}
			out := core.Run(t, Engine{}, p, false)
			m := map[string]string{}
			if out.HarnessErr != "" {
				m["HARNESS "+out.HarnessErr] = ""
			}
			for _, v := range out.Violations {
				if v.Property == "C21" {
					m[v.Signature] = v.Message
				}
			}
			acc := 0
			for k, v := range out.Probes {
				if len(k) > 3 && k[:3] == "tx/" && k != "tx/nextturn" && k != "tx/reg" {
					acc += v
				}
			}
			m["#accepted"] = fmt.Sprint(acc)
			return m
		}
		kinds := map[string]TxD{
			"reg":        {K: "reg", P: 6, A: minDepositV1 + 5},
			"upd-node":   {K: "upd", P: 1, F: 1},
			"upd-nick":   {K: "upd", P: 1, F: 2},
			"cancel":     {K: "cancel", P: 2},
			"vote-v0":    {K: "vote", V: 1, A: 500 * ela, C: []int{1, 2}},
			"vote-v1":    {K: "vote", V: 1, A: 500 * ela, C: []int{1, 2}, F: 1},
			"unvote":     {K: "unvote", V: 0},
			"topup":      {K: "topup", P: 1, A: 7 * ela},
			"retdep":     {K: "retdep", P: 1, A: 50 * ela},
			"illprop":    {K: "illprop", P: 0},
			"illvote":    {K: "illvote", P: 1},
			"illblock":   {K: "illblock", P: 0},
			"inactive":   {K: "inactive", C: []int{0}},
			"r2pow":      {K: "r2pow"},
			"stake":      {K: "stake", V: 1, A: 5000 * ela},
			"reg2":       {K: "reg", P: 7, A: minDepositV2 + 5, B: 9000, F: 1},
			"upd2":       {K: "upd", P: 1, F: 4, B: 9000},
		}
		var names []string
		for k := range kinds {
			names = append(names, k)
		}
		sort.Strings(names)
		for _, H := range []int{8, 12, 15, 19, 23} {
			base := classes("empty", cat(early, empty(H-9), []Step{blk(), roll(1, 0)}))
			fmt.Printf("---- height %d, empty block leaves: %d classes\n", H+1, len(base)-1)
			for _, n := range names {
				got := classes(n, cat(early, empty(H-9), []Step{blk(kinds[n]), roll(1, 0)}))
				var extra []string
				for k := range got {
					if _, ok := base[k]; !ok && k != "#accepted" {
						extra = append(extra, k)
					}
				}
				sort.Strings(extra)
				fmt.Printf("   %-10s accepted=%s extra=%v\n", n, got["#accepted"], extra)
			}
		}
	case "kinds2":
		classes := func(knobs map[string]int64, steps []Step) (map[string]string, map[string]int) {
			p := &core.Plan{Engine: "dposstate", Property: "C21", Tier: "quick", Seed: 4242, Knobs: knobs}
			for _, s := range steps {
				p.Add(s)
			}
			out := core.Run(t, Engine{}, p, false)
			m := map[string]string{}
			if out.HarnessErr != "" {
				m["HARNESS "+out.HarnessErr] = ""
			}
			for _, v := range out.Violations {
				if v.Property == "C21" {
					m[v.Signature] = v.Message
				}
			}
			return m, out.Probes
		}
		k := baseKnobs()
		k["hNewCR"], k["hNoCRC"], k["hRevertPOW"] = 1<<30, 1<<30, 1<<30
		prep := cat(early, empty(8), // height 17, DPoS v2 started at 16
			[]Step{blk(TxD{K: "upd", P: 1, F: 4, B: 9000}, TxD{K: "upd", P: 2, F: 4, B: 9000}, TxD{K: "stake", V: 1, A: 10000 * ela})},
			[]Step{blk(TxD{K: "vote2", V: 1, A: 3000 * ela, B: 7300, C: []int{0}})},
			[]Step{blk(TxD{K: "inactive", C: []int{0}})}, empty(1))
		cases := map[string]TxD{
			"vote2":          {K: "vote2", V: 1, A: 1000 * ela, B: 7300, C: []int{0, 1}},
			"vote2+delegate": {K: "vote2", V: 1, A: 1000 * ela, B: 7300, C: []int{0, 1}, F: 1},
			"unstake":        {K: "unstake", V: 1, A: 500 * ela},
			"renew":          {K: "renew", V: 1, B: 100},
			"stake":          {K: "stake", V: 2, A: 77 * ela},
			"activate":       {K: "activate", P: 0},
			"cancel":         {K: "cancel", P: 3},
			"upd-nick":       {K: "upd", P: 3, F: 2},
			"illprop":        {K: "illprop", P: 0, F: 16},
			"retdep":         {K: "retdep", P: 3, A: 10 * ela},
			"empty":          {},
		}
		var names []string
		for n := range cases {
			names = append(names, n)
		}
		sort.Strings(names)
		for _, depth := range []int{1, 2} {
			for _, n := range names {
				st := blk(cases[n])
				if n == "empty" {
					st = blk()
				}
				tail := []Step{st}
				if depth == 2 {
					tail = append(tail, blk())
				}
				got, probes := classes(k, cat(prep, tail, []Step{roll(depth, 1)}))
				var cl []string
				for c := range got {
					cl = append(cl, c[len("C21/"):])
				}
				sort.Strings(cl)
				fmt.Printf("depth %d %-15s tx=%d rej=%d  %v\n", depth, n, probes["tx/"+cases[n].K], probes["rejected/"+cases[n].K+"/special-context"], cl)
			}
		}
	case "incidental":
		// the two defects outside C21/C27/C28 that NOTES.md describes
		core.Bubble(t, func() {
			resetGlobals()
			k := baseKnobs()
			p := &core.Plan{Seed: 4242, Knobs: k}
			w := &world{plan: p, seed: 4242, c: nil}
			w.params = buildParams(p)
			for i := 0; i < 8; i++ {
				w.producers = append(w.producers, newActor(4242, "prod", i))
			}
			for i := 0; i < 3; i++ {
				w.voters = append(w.voters, newActor(4242, "voter", i))
			}
			w.initChain()
			w.subscribe()
			in := w.newInstance("node")
			w.inst = in
			feed := func() (pan interface{}) {
				sb := w.buildBlock(nil, 120, nil)
				w.appendBlock(sb)
				defer func() { pan = recover() }()
				in.best = sb.blk.Height
				in.ckp.OnBlockSaved(&types.DposBlock{Block: sb.blk}, nil, false, 0, false)
				return nil
			}
			for h := 1; h <= 16; h++ { // past ChangeCommitteeNewCRHeight (14); nobody is registered or voted
				if pan := feed(); pan != nil {
					fmt.Println("unexpected panic at", h, pan)
				}
			}
			pl := &payload.InactiveArbitrators{Arbitrators: [][]byte{w.producers[0].nodes[0].pk}, BlockHeight: 17}
			err := in.arb.ProcessSpecialTxPayload(pl, 16) // what PreProcessSpecialTx does for a block at 17
			fmt.Println("(a) ProcessSpecialTxPayload error (connectBlock refuses the block):", err)
			fmt.Println("(a) next block:", feed())

			in2 := w.newInstance("node2") // StartHeight() = min(VoteStartHeight 1, CRCOnly 4 - PreConnect 1) = 1
			func() {
				defer func() { fmt.Println("(b) OnRollbackTo(0) below StartHeight:", recover()) }()
				fmt.Println("(b) returned", in2.ckp.OnRollbackTo(0, false))
			}()
			in.close()
			in2.close()
		})
	case "reactivate":
		// cancel, wait out the lock-up, get marked illegal, activate, cancel again
		k := baseKnobs()
		k["hV2Start"] = 1 << 30
		k["hNewCR"], k["hNoCRC"], k["hRevertPOW"], k["hCRClaim"], k["hCRCommittee"] = 1<<30, 1<<30, 1<<30, 1<<30, 1<<30
		steps := cat(early, empty(1),
			[]Step{blk(TxD{K: "cancel", P: 0, F: 0})}, empty(4),
			[]Step{blk(TxD{K: "illprop", P: 0, F: 16})}, empty(1),
			[]Step{blk(TxD{K: "topup", P: 0, A: 6000 * ela})},
			[]Step{blk(TxD{K: "activate", P: 0})}, empty(7),
			[]Step{blk(TxD{K: "cancel", P: 0})}, empty(5))
		runScenario(t, "cancel-illegal-activate-cancel", "C28", k, steps)
	case "cancel-at-activation":
		// a cancel transaction in exactly the block that activates the pending
		// producer (registration + 5): DEV_LOG=1 shows the "listed in two state maps" line
		for gap := 3; gap <= 6; gap++ {
			steps := cat([]Step{blk(reg(0), reg(1))}, empty(gap), []Step{blk(TxD{K: "cancel", P: 0})}, empty(3))
			runScenario(t, fmt.Sprintf("register, %d empty blocks, cancel", gap), "C28", baseKnobs(), steps)
		}
	case "lih":
		runScenario(t, "last irreversible height", "C21", baseKnobs(), cat(early, empty(14), []Step{roll(1, 0)}))
	}
}
