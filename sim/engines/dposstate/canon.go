package dposstate

import (
	"encoding/hex"
	"fmt"
	"reflect"
	"regexp"
	"sort"
	"strings"

	"github.com/elastos/Elastos.ELA/dpos/state"
)

// Canonical view of a state value: a sorted list of "path = value" leaves.
// Maps are listed by sorted key, byte strings as hex, ArbiterMember values
// through their own Serialize (type byte + bytes); unexported fields are
// read through reflection (reading is allowed, only Interface() is not).
// Functions, channels, mutexes and the fields named in skip are not state.

type leaf struct {
	path string
	val  string
}

type canon struct {
	leaves []leaf
	skip   map[string]bool
}

var arbiterMemberType = reflect.TypeOf((*state.ArbiterMember)(nil)).Elem()

func (c *canon) add(path, val string) { c.leaves = append(c.leaves, leaf{path, val}) }

func keyString(k reflect.Value) string {
	switch k.Kind() {
	case reflect.String:
		return k.String()
	case reflect.Array:
		b := make([]byte, k.Len())
		for i := range b {
			b[i] = byte(k.Index(i).Uint())
		}
		return hex.EncodeToString(b)
	case reflect.Uint, reflect.Uint8, reflect.Uint16, reflect.Uint32, reflect.Uint64:
		return fmt.Sprintf("%020d", k.Uint())
	case reflect.Int, reflect.Int8, reflect.Int16, reflect.Int32, reflect.Int64:
		return fmt.Sprintf("%d", k.Int())
	}
	return fmt.Sprintf("%v", k)
}

func (c *canon) walk(path string, v reflect.Value) {
	if !v.IsValid() {
		c.add(path, "<invalid>")
		return
	}
	t := v.Type()
	if t.Implements(arbiterMemberType) && v.Kind() == reflect.Interface {
		if v.IsNil() {
			c.add(path, "nil")
			return
		}
		// An arbiter member is walked field by field like everything else
		// (its own Serialize writes the producer's vote maps in map order);
		// the concrete kind is part of the value.
		if v.CanInterface() {
			m := v.Interface().(state.ArbiterMember)
			c.add(path+".(type)", fmt.Sprintf("%d normal=%v", m.GetType(), m.IsNormal()))
		}
		c.walk(path, v.Elem())
		return
	}
	switch v.Kind() {
	case reflect.Bool:
		c.add(path, fmt.Sprintf("%v", v.Bool()))
	case reflect.Int, reflect.Int8, reflect.Int16, reflect.Int32, reflect.Int64:
		c.add(path, fmt.Sprintf("%d", v.Int()))
	case reflect.Uint, reflect.Uint8, reflect.Uint16, reflect.Uint32, reflect.Uint64, reflect.Uintptr:
		c.add(path, fmt.Sprintf("%d", v.Uint()))
	case reflect.Float32, reflect.Float64:
		c.add(path, fmt.Sprintf("%v", v.Float()))
	case reflect.String:
		c.add(path, fmt.Sprintf("%q", v.String()))
	case reflect.Ptr, reflect.Interface:
		if v.IsNil() {
			c.add(path, "nil")
			return
		}
		c.walk(path, v.Elem())
	case reflect.Array:
		if t.Elem().Kind() == reflect.Uint8 {
			b := make([]byte, v.Len())
			for i := range b {
				b[i] = byte(v.Index(i).Uint())
			}
			c.add(path, hex.EncodeToString(b))
			return
		}
		for i := 0; i < v.Len(); i++ {
			c.walk(fmt.Sprintf("%s[%d]", path, i), v.Index(i))
		}
	case reflect.Slice:
		if t.Elem().Kind() == reflect.Uint8 {
			b := make([]byte, v.Len())
			for i := range b {
				b[i] = byte(v.Index(i).Uint())
			}
			c.add(path, "x"+hex.EncodeToString(b)) // nil and empty are the same state
			return
		}
		c.add(path+".len", fmt.Sprintf("%d", v.Len()))
		for i := 0; i < v.Len(); i++ {
			c.walk(fmt.Sprintf("%s[%d]", path, i), v.Index(i))
		}
	case reflect.Map:
		keys := v.MapKeys()
		sort.Slice(keys, func(i, j int) bool { return keyString(keys[i]) < keyString(keys[j]) })
		for _, k := range keys {
			c.walk(fmt.Sprintf("%s{%s}", path, keyString(k)), v.MapIndex(k))
		}
	case reflect.Struct:
		if t.NumField() == 0 {
			c.add(path, "{}")
			return
		}
		for i := 0; i < t.NumField(); i++ {
			f := t.Field(i)
			if c.skip[f.Name] {
				continue
			}
			switch f.Type.Kind() {
			case reflect.Func, reflect.Chan, reflect.UnsafePointer:
				continue
			}
			if f.Type.PkgPath() == "sync" {
				continue
			}
			c.walk(path+"."+f.Name, v.Field(i))
		}
	case reflect.Func, reflect.Chan, reflect.UnsafePointer:
	default:
		c.add(path, fmt.Sprintf("<%s>", v.Kind()))
	}
}

func canonOf(root string, v interface{}, skip ...string) []leaf {
	c := &canon{skip: map[string]bool{}}
	for _, s := range skip {
		c.skip[s] = true
	}
	c.walk(root, reflect.ValueOf(v))
	sort.Slice(c.leaves, func(i, j int) bool { return c.leaves[i].path < c.leaves[j].path })
	return c.leaves
}

var keyRe = regexp.MustCompile(`\{[^}]*\}|\[[0-9]+\]`)

// fieldClass turns a leaf path into the stable class used in violation
// signatures: map keys and slice indices are dropped.
func fieldClass(path string) string {
	c := keyRe.ReplaceAllString(path, "")
	// The producer maps hold pointers to the same Producer objects; a field
	// of a producer is one class whichever map it was reached through
	// (membership of the maps themselves is reported as <map>/key-set).
	if m := prodRe.FindStringSubmatch(c); m != nil {
		c = m[1] + "Producer." + m[3]
	}
	// An arbiter list / map of the checkpoint is one class: which field of
	// which member differs is in the message.
	if m := arbListRe.FindStringSubmatch(c); m != nil {
		c = m[1]
	}
	return c
}

var arbListRe = regexp.MustCompile(`^(CheckPoint\.(LastArbitrators|CurrentArbitrators|NextArbitrators|CurrentCandidates|NextCandidates|NextCRCArbiters|CurrentCRCArbitersMap|CurrentOnDutyCRCArbitersMap|NextCRCArbitersMap))[./].*$`)

var prodRe = regexp.MustCompile(`^(State\.|History\.)(Pending|Activity|Inactive|Canceled|Illegal|PendingCanceled|DposV2Effected)Producers\.(.+)$`)

type fieldDiff struct {
	class string
	path  string
	a, b  string
}

// keyPrefixes returns every prefix of the leaf paths that ends with a map key.
func keyPrefixes(ls []leaf) map[string]bool {
	m := map[string]bool{}
	for _, l := range ls {
		for i := 0; i < len(l.path); i++ {
			if l.path[i] == '}' {
				m[l.path[:i+1]] = true
			}
		}
	}
	return m
}

// absentClass: a leaf that exists on one side only. If that is because a
// whole map entry is missing on the other side, the class names the map's
// key set once instead of every field below the entry.
func absentClass(path string, other map[string]bool) string {
	for i := 0; i < len(path); i++ {
		if path[i] == '}' && !other[path[:i+1]] {
			return fieldClass(path[:i+1] + "/key-set")
		}
	}
	return fieldClass(path)
}

// diffLeaves compares two sorted leaf lists.
func diffLeaves(a, b []leaf) []fieldDiff {
	var out []fieldDiff
	pa, pb := keyPrefixes(a), keyPrefixes(b)
	i, j := 0, 0
	for i < len(a) || j < len(b) {
		switch {
		case j >= len(b) || (i < len(a) && a[i].path < b[j].path):
			out = append(out, fieldDiff{absentClass(a[i].path, pb), a[i].path, a[i].val, "<absent>"})
			i++
		case i >= len(a) || b[j].path < a[i].path:
			out = append(out, fieldDiff{absentClass(b[j].path, pa), b[j].path, "<absent>", b[j].val})
			j++
		default:
			if a[i].val != b[j].val {
				out = append(out, fieldDiff{fieldClass(a[i].path), a[i].path, a[i].val, b[j].val})
			}
			i++
			j++
		}
	}
	return out
}

func short(s string) string {
	if len(s) > 90 {
		return s[:60] + "…" + s[len(s)-20:]
	}
	return s
}

func leavesHash(ls []leaf) uint64 {
	h := uint64(1469598103934665603)
	for _, l := range ls {
		for _, s := range []string{l.path, "=", l.val, "\n"} {
			for i := 0; i < len(s); i++ {
				h ^= uint64(s[i])
				h *= 1099511628211
			}
		}
	}
	return h
}

// view is the canonical content of one instance: the checkpoint the
// component itself builds (Arbiters.Snapshot) plus the live StateKeyFrame,
// and the facts the property names explicitly.
type view struct {
	live  []leaf
	named []leaf
}

func infos(as []*state.ArbiterInfo) string {
	var s []string
	for _, a := range as {
		s = append(s, fmt.Sprintf("%x/%v/%v/%v", a.NodePublicKey, a.IsNormal, a.IsCRMember, a.ClaimedDPOSNode))
	}
	return strings.Join(s, ",")
}

// takeView reads everything the C21 oracle compares from an instance.
func (in *instance) takeView() *view {
	a := in.arb
	v := &view{}
	// (1) the component's own full snapshot: CheckPoint as built by
	// Arbiters.Snapshot() (deep copies of every arbiter/reward field and the
	// StateKeyFrame maps) ...
	cp := a.Snapshot()
	v.live = canonOf("CheckPoint", cp, "arbitrators", "StateKeyFrame", "Height")
	// ... plus the live StateKeyFrame, which also carries the scalars
	// (consensus algorithm, irreversibility bookkeeping, ...) that
	// StateKeyFrame.snapshot() leaves out.
	// NeedRevertToDPOSTX is set by the node's own DPoS manager
	// (SetNeedRevertToDPOSTX), not derived from blocks: not part of "the
	// state obtained by processing the blocks".
	v.live = append(v.live, canonOf("State", a.State.StateKeyFrame, "NeedRevertToDPOSTX", "ConsensusAlgorithm", "LastIrreversibleHeight")...)
	sort.Slice(v.live, func(i, j int) bool { return v.live[i].path < v.live[j].path })
	// (2) what the property names explicitly, through the public accessors
	// (left out of the field walk above so that each fact is reported once),
	// and the degradation bookkeeping Arbiters.RollbackTo also handles.
	n := func(k, val string) { v.named = append(v.named, leaf{k, val}) }
	n("GetConsensusAlgorithm", a.GetConsensusAlgorithm().String())
	n("GetLastIrreversibleHeight", fmt.Sprint(a.GetLastIrreversibleHeight()))
	ds, us, ih, _ := a.VerifDposstateDegradation()
	n("degradation", fmt.Sprintf("state=%d understaffedSince=%d inactivateHeight=%d", ds, us, ih))
	return v
}
