package dposstate

import (
	"fmt"
	"math/big"
	"strings"

	"github.com/elastos/Elastos.ELA/common"
	"github.com/elastos/Elastos.ELA/core/checkpoint"
	"github.com/elastos/Elastos.ELA/core/types/payload"
	crstate "github.com/elastos/Elastos.ELA/cr/state"
	"github.com/elastos/Elastos.ELA/dpos/state"

	"verif/sim/core"
)

// RewardCase drives the reward distribution directly (C27): an arbiter set,
// a candidate set, the votes snapshot of the round and a reward pool, in one
// of the four rule eras.
type RewardCase struct {
	Era    int     `json:"era"`            // rule selected through the configured heights: 0..3
	NCRC   int     `json:"ncrc"`           // configured CRC arbiters
	CRCIn  int     `json:"crcin"`          // how many of them sit in the current arbiter list
	CRKind int     `json:"crkind"`         // 0: placeholder arbiters from config keys; 1: elected CR members (claimed node); 2: elected, node not claimed; 3: CR member not in elected state
	NNorm  int     `json:"nnorm"`          // configured number of normal arbiters
	Votes  []int64 `json:"votes"`          // votes of the normal arbiters then the candidates present in the round
	NArb   int     `json:"narb"`           // how many entries of Votes are arbiters (rest are candidates)
	InSnap []bool  `json:"insnap"`         // whether the member is part of the round's vote snapshot
	Extra  int64   `json:"extra"`          // votes in the snapshot total that belong to nobody present
	Reward int64   `json:"reward"`         // pool
	Pow    bool    `json:"pow,omitempty"`  // consensus currently PoW
	Via    int     `json:"via,omitempty"`  // 0 distributeDPOSReward; 1 the era's rule directly
}

func runRewardCase(c *core.Ctx, p *core.Plan, rc *RewardCase) {
	params := buildParams(p)
	seed := p.Seed
	// heights: put `height` into the wanted era for the arbiter count used.
	nCRC := rc.NCRC
	if nCRC < 1 {
		nCRC = 1
	}
	params.DPoSConfiguration.CRCArbiters = nil
	for i := 0; i < nCRC; i++ {
		params.DPoSConfiguration.CRCArbiters = append(params.DPoSConfiguration.CRCArbiters,
			fmt.Sprintf("%x", deriveKey(seed, "rcrc", i, 0).pk))
	}
	params.CRConfiguration.MemberCount = uint32(nCRC)
	params.DPoSConfiguration.NormalArbitratorsCount = rc.NNorm
	height := uint32(1000)
	far := uint32(1 << 30)
	params.CRConfiguration.CRCommitteeStartHeight = far
	params.CRConfiguration.CRClaimDPOSNodeStartHeight = far
	params.CRConfiguration.ChangeCommitteeNewCRHeight = far
	switch rc.Era {
	case 1:
		params.CRConfiguration.CRCommitteeStartHeight = 10
	case 2:
		params.CRConfiguration.CRCommitteeStartHeight = 10
		params.CRConfiguration.CRClaimDPOSNodeStartHeight = 20
	case 3:
		params.CRConfiguration.CRCommitteeStartHeight = 10
		params.CRConfiguration.CRClaimDPOSNodeStartHeight = 20
		params.CRConfiguration.ChangeCommitteeNewCRHeight = 30
	}
	ckp := checkpoint.NewManager(params)
	defer ckp.Close()
	committee := crstate.NewCommittee(params, ckp)
	arb, err := state.NewArbitrators(params, committee, nil, nil, nil, nil, nil, nil, nil, ckp)
	if err != nil {
		panic(err)
	}
	arb.RegisterFunction(func() uint32 { return height }, nil, nil, nil)

	var cur, cands []state.ArbiterMember
	crcMap := map[common.Uint168]state.ArbiterMember{}
	for i := 0; i < rc.CRCIn && i < nCRC; i++ {
		node := deriveKey(seed, "rcrc", i, 0)
		var m state.ArbiterMember
		if rc.CRKind == 0 {
			pr := &state.Producer{}
			pr.SetInfo(payload.ProducerInfo{OwnerKey: node.pk, NodePublicKey: node.pk})
			m, err = state.NewDPoSArbiter(pr)
		} else {
			owner := deriveKey(seed, "rcrowner", i, 0)
			code := append([]byte{33}, owner.pk...)
			code = append(code, 0xac)
			cr := &crstate.CRMember{Info: payload.CRInfo{Code: code}, MemberState: crstate.MemberElected}
			nodePK := node.pk
			switch rc.CRKind {
			case 1:
				cr.DPOSPublicKey = node.pk
			case 2:
				// node not claimed: the arbiter runs on a producer's node key
			case 3:
				cr.DPOSPublicKey = node.pk
				cr.MemberState = crstate.MemberInactive
			}
			m, err = state.NewCRCArbiter(nodePK, owner.pk, cr, rc.CRKind != 3)
			if rc.CRKind == 2 {
				// the node key must resolve to an owner key through the state
				arb.State.NodeOwnerKeys[fmt.Sprintf("%x", nodePK)] = fmt.Sprintf("%x", owner.pk)
			}
		}
		if err != nil {
			panic(err)
		}
		cur = append(cur, m)
		crcMap[m.GetOwnerProgramHash()] = m
	}
	reward := state.RewardData{OwnerVotesInRound: map[common.Uint168]common.Fixed64{}}
	total := new(big.Int)
	for i, v := range rc.Votes {
		k := deriveKey(seed, "rprod", i, 0)
		pr := &state.Producer{}
		pr.SetInfo(payload.ProducerInfo{OwnerKey: k.pk, NodePublicKey: k.pk})
		pr.SetVotes(common.Fixed64(v))
		m, err := state.NewDPoSArbiter(pr)
		if err != nil {
			panic(err)
		}
		if i < rc.NArb {
			cur = append(cur, m)
		} else {
			cands = append(cands, m)
		}
		if i >= len(rc.InSnap) || rc.InSnap[i] {
			reward.OwnerVotesInRound[m.GetOwnerProgramHash()] = common.Fixed64(v)
			total.Add(total, big.NewInt(v))
		}
	}
	total.Add(total, big.NewInt(rc.Extra))
	if !total.IsInt64() {
		c.Probe("c27-direct-skipped/total-votes-overflow")
		return
	}
	reward.TotalVotesInRound = common.Fixed64(total.Int64())
	arb.CurrentArbitrators = cur
	arb.CurrentCandidates = cands
	arb.CurrentCRCArbitersMap = crcMap
	arb.CurrentReward = reward
	if rc.Pow {
		arb.State.ConsensusAlgorithm = state.POW
	}

	var round map[common.Uint168]common.Fixed64
	var change, real common.Fixed64
	var derr error
	var pan interface{}
	func() {
		defer func() { pan = recover() }()
		if rc.Via == 0 {
			round, change, derr = arb.VerifDposstateDistribute(height, common.Fixed64(rc.Reward))
		} else {
			round, real, derr = arb.VerifDposstateDistributeEra(rc.Era, height, common.Fixed64(rc.Reward))
			change = common.Fixed64(rc.Reward) - real
		}
	}()
	c.Fault("c27-direct-case")
	c.Probe(fmt.Sprintf("c27-direct/era%d", rc.Era))
	if total.Sign() == 0 {
		c.Probe("c27-direct/zero-votes")
	}
	what := fmt.Sprintf("direct era=%d via=%d arbiters=%d(crc %d kind %d of %d) candidates=%d normal=%d totalVotes=%s reward=%d pow=%v",
		rc.Era, rc.Via, len(cur), rc.CRCIn, rc.CRKind, nCRC, len(cands), rc.NNorm, total, rc.Reward, rc.Pow)
	c.Logf("W era=%d via=%d err=%v pan=%v n=%d change=%d", rc.Era, rc.Via, derr != nil, pan != nil, len(round), int64(change))
	if pan != nil {
		c.Check()
		c.Violate("C27", "distribution", fmt.Sprintf("C27/direct/era%d/panic", rc.Era), "%s: panic %v", what, pan)
		return
	}
	if derr != nil {
		// the entry point refused to distribute (the node stops when this
		// happens while clearing): nothing was attributed as paid
		c.Check()
		c.Probe("c27-direct/refused")
		if strings.Contains(derr.Error(), "more than reward limit") {
			class := rewardClass(rc, total, len(cur), nCRC)
			if class == "/beyond-supply" {
				return // float rounding beyond what can exist, and refused: nothing attributed
			}
			sg := fmt.Sprintf("C27/direct/era%d/rule-exceeds-pool-and-is-refused", rc.Era)
			if class != "" {
				// shape of the round AND what went wrong in it
				sg = fmt.Sprintf("C27/direct/era%d%s/rule-exceeds-pool-and-is-refused", rc.Era, class)
			}
			c.Violate("C27", "distribution", sg,
				"%s: the era's rule attributed more than the pool; distributeDPOSReward refused it (%v) - a node clearing this round would stop", what, derr)
		}
		return
	}
	pool := big.NewInt(rc.Reward)
	var realp *common.Fixed64
	if rc.Via == 1 {
		realp = &real
	}
	sig := fmt.Sprintf("C27/direct/era%d", rc.Era)
	class := rewardClass(rc, total, len(cur), nCRC)
	checkDistribution(c, sig, class, what, pool, round, change, realp)
}

// rewardClass names the shape of a direct case: the cause a failure is filed
// under. float64 holds sela amounts exactly up to 2^53 (9.0e15), more than
// the 3.4e15 sela that can ever exist; what only goes wrong beyond that is a
// class of its own.
func rewardClass(rc *RewardCase, total *big.Int, nCur, nCRC int) string {
	seats := nCRC + rc.NNorm
	switch {
	case total.Sign() == 0:
		return "/zero-votes-in-snapshot"
	case rc.Reward > 1<<53 || !total.IsInt64() || total.Int64() > 1<<53:
		return "/beyond-supply"
	case rc.Era >= 2 && nCur < seats: // only rules V2/V3 share the confirm reward by seats
		return "/fewer-arbiters-than-seats"
	case rc.Era >= 2 && nCur > seats:
		return "/more-arbiters-than-seats"
	}
	return ""
}
