package dposstate

import (
	"encoding/json"
	"fmt"
	"os"
	"sort"
	"strconv"
	"testing"

	"verif/sim/core"
)

func TestDev(t *testing.T) {
	prop := os.Getenv("DEV_PROP")
	if prop == "" {
		t.Skip()
	}
	n, _ := strconv.Atoi(os.Getenv("DEV_N"))
	if n == 0 {
		n = 5
	}
	base, _ := strconv.Atoi(os.Getenv("DEV_SEED"))
	probes := map[string]int{}
	faults := map[string]int{}
	sigs := map[string]int{}
	msgs := map[string]string{}
	only := -1
	if v := os.Getenv("DEV_ONLY"); v != "" {
		only, _ = strconv.Atoi(v)
	}
	for i := 0; i < n; i++ {
		if only >= 0 && i != only {
			continue
		}
		seed := core.Mix(uint64(base), uint64(i))
		tier := "quick"
		if os.Getenv("DEV_TIER") != "" {
			tier = os.Getenv("DEV_TIER")
		}
		plan := Engine{}.Generate(core.NewRng(seed), prop, tier)
		plan.Engine, plan.Property, plan.Tier, plan.Seed = "dposstate", prop, tier, seed
		out := core.Run(t, Engine{}, plan, os.Getenv("DEV_LOG") != "")
		if out.HarnessErr != "" {
			fmt.Printf("seed %d HARNESS ERR: %s\n", i, out.HarnessErr)
		}
		for k, v := range out.Probes {
			probes[k] += v
		}
		for k, v := range out.Faults {
			faults[k] += v
		}
		for _, v := range out.Violations {
			sigs[v.Property+" "+v.Signature]++
			if _, ok := msgs[v.Signature]; !ok {
				msgs[v.Signature] = fmt.Sprintf("[run %d step %d] %s", i, v.Step, v.Message)
			}
		}
		for _, nn := range out.Notes {
			fmt.Printf("run %d note: %s\n", i, nn)
		}
		if os.Getenv("DEV_LOG") != "" {
			fmt.Printf("knobs: %v\n", plan.Knobs)
			for _, l := range out.Log {
				fmt.Println("  ", l)
			}
		}
		fmt.Printf("run %d steps=%d checks=%d post=%d hash=%s viol=%d\n", i, len(plan.Steps), out.Checks, out.ChecksPost, out.LogHash[:8], len(out.Violations))
	}
	pr := func(title string, m map[string]int) {
		var ks []string
		for k := range m {
			ks = append(ks, k)
		}
		sort.Strings(ks)
		fmt.Println("==", title)
		for _, k := range ks {
			fmt.Printf("  %-70s %d\n", k, m[k])
		}
	}
	pr("probes", probes)
	pr("faults", faults)
	pr("violations", sigs)
	var ks []string
	for k := range msgs {
		ks = append(ks, k)
	}
	sort.Strings(ks)
	for _, k := range ks {
		fmt.Printf("  %s\n      %s\n", k, msgs[k])
	}
}

func TestDevTwice(t *testing.T) {
	raw := os.Getenv("DEV_RAWSEED")
	if raw == "" {
		t.Skip()
	}
	seed, _ := strconv.ParseUint(raw, 10, 64)
	prop := os.Getenv("DEV_PROP")
	var logs [][]string
	for rep := 0; rep < 6; rep++ {
		plan := Engine{}.Generate(core.NewRng(seed), prop, "quick")
		plan.Engine, plan.Property, plan.Tier, plan.Seed = "dposstate", prop, "quick", seed
		out := core.Run(t, Engine{}, plan, true)
		var l []string
		l = append(l, out.Log...)
		for _, v := range out.Violations {
			l = append(l, "V "+v.Signature+" :: "+v.Message)
		}
		logs = append(logs, l)
		fmt.Println("rep", rep, out.LogHash, len(out.Log), out.HarnessErr)
	}
	for rep := 1; rep < len(logs); rep++ {
		a, b := logs[0], logs[rep]
		for i := 0; i < len(a) || i < len(b); i++ {
			var x, y string
			if i < len(a) {
				x = a[i]
			}
			if i < len(b) {
				y = b[i]
			}
			if x != y {
				fmt.Printf("rep %d first diff at line %d:\n  A: %s\n  B: %s\n", rep, i, x, y)
				for j := i - 3; j < i+4 && j < len(a) && j < len(b); j++ {
					if j >= 0 {
						fmt.Printf("   %d A %s\n   %d B %s\n", j, a[j], j, b[j])
					}
				}
				break
			}
		}
	}
}

func TestDevPlan(t *testing.T) {
	if os.Getenv("DEV_PLAN") == "" {
		t.Skip()
	}
	base, _ := strconv.Atoi(os.Getenv("DEV_SEED"))
	idx, _ := strconv.Atoi(os.Getenv("DEV_ONLY"))
	seed := core.Mix(uint64(base), uint64(idx))
	plan := Engine{}.Generate(core.NewRng(seed), os.Getenv("DEV_PROP"), "quick")
	fmt.Println(plan.Knobs)
	for i, s := range plan.Steps {
		fmt.Println(i, string(s))
	}
}

func TestDevReplay(t *testing.T) {
	f := os.Getenv("DEV_REPLAY")
	if f == "" {
		t.Skip()
	}
	b, err := os.ReadFile(f)
	if err != nil {
		t.Fatal(err)
	}
	var rf struct {
		Plan *core.Plan `json:"plan"`
	}
	if err := json.Unmarshal(b, &rf); err != nil {
		t.Fatal(err)
	}
	out := core.Run(t, Engine{}, rf.Plan, true)
	for _, l := range out.Log {
		fmt.Println("  ", l)
	}
	for _, v := range out.Violations {
		fmt.Println(v.Property, v.Signature, "::", v.Message)
	}
}
