// Package quorumsim is the C25 engine: a proposer collects DPoS votes that
// arrive over a simulated faulty network, assembles payload.Confirm values the
// way the node's dispatcher does (and the way a Byzantine proposer would), and
// every assembled confirm is judged by the real confirm checks against a real
// Arbiters holding the current member set.
package quorumsim

import (
	"crypto/ecdsa"
	crand "crypto/rand"
	"crypto/sha256"
	"encoding/json"
	"fmt"
	"hash/fnv"
	"math/big"
	"os"
	"path/filepath"
	"sync"

	"github.com/elastos/Elastos.ELA/blockchain"
	"github.com/elastos/Elastos.ELA/common"
	"github.com/elastos/Elastos.ELA/common/config"
	elog "github.com/elastos/Elastos.ELA/common/log"
	"github.com/elastos/Elastos.ELA/core/checkpoint"
	"github.com/elastos/Elastos.ELA/core/transaction"
	"github.com/elastos/Elastos.ELA/core/types"
	common2 "github.com/elastos/Elastos.ELA/core/types/common"
	"github.com/elastos/Elastos.ELA/core/types/functions"
	"github.com/elastos/Elastos.ELA/core/types/payload"
	crstate "github.com/elastos/Elastos.ELA/cr/state"
	"github.com/elastos/Elastos.ELA/crypto"
	"github.com/elastos/Elastos.ELA/dpos/state"

	"verif/sim/core"
)

type Engine struct{}

func (Engine) Name() string { return "quorumsim" }

func (Engine) Components() ([]string, []string) {
	return []string{
			"blockchain.ConfirmSanityCheck / ConfirmContextCheck / checkBlockWithConfirmation (via verif export) / VoteCheck",
			"dpos/state.Arbiters (real instance; CurrentArbitrators set to the simulated member set): GetArbitrators, GetArbitersMajorityCount, HasArbitersMajorityCount",
			"core/types/payload Confirm / DPOSProposal / DPOSProposalVote (Data, Hash)",
			"crypto.Verify / DecodePoint (P-256 signatures made with real keys derived from the plan seed)",
		}, []string{
			"honest proposer = mirror of dpos/manager: the handlers' proposal-hash filter (dposondutyhandler.go ProcessAcceptVote), ProposalDispatcher.ProcessVote/countAcceptedVote (real blockchain.VoteCheck, de-duplication by vote hash, real HasArbitersMajorityCount) and AppendConfirm (~20 lines); the real dispatcher needs a DPOSManager, network and consensus object",
			"Byzantine proposer: assembles confirms from raw received messages without filtering",
			"arbiters' signing: harness signer (same sha256 + P-256 r||s format as crypto.Sign; crypto.Sign itself cannot run under the harness toolchain)",
			"network: delivery order, duplication, stale votes, corruption are explicit plan steps",
			"members are origin-type arbiters (all 'normal'); CR members in abnormal state are not simulated",
		}
}

// Step is one plan step.
type Step struct {
	Op    string `json:"op"`              // vote | change | submit
	Who   int    `json:"who,omitempty"`   // vote: index into the key pool (mod len)
	Rej   bool   `json:"rej,omitempty"`   // vote: reject vote
	Stale bool   `json:"stale,omitempty"` // vote: for the earlier proposal
	Fault string `json:"fault,omitempty"` // vote: "" | sig | signer | rehash | flip
	Arg   int    `json:"arg,omitempty"`   // byte position / other signer
	Dup   int    `json:"dup,omitempty"`   // vote: delivered 1+Dup times
	Mode  string `json:"mode,omitempty"`  // submit: all | accepts | cur | firstk
	K     int    `json:"k,omitempty"`
}

func (Engine) Generate(r *core.Rng, property, tier string) *core.Plan {
	p := &core.Plan{Knobs: map[string]int64{}, Meta: map[string]string{}}
	n := r.Range(1, 40)
	if r.Bool(0.25) {
		n = r.Range(1, 7) // small sets: boundaries bite
	}
	p.SetKnob("n", int64(n))
	p.SetKnob("keyseed", int64(r.U64()>>1))
	p.SetKnob("nout", int64(r.Range(1, 4)))
	p.SetKnob("view", int64(r.Range(1, 9)))
	p.SetKnob("bn", int64(r.Range(1, 40))) // set size of this run's boundary sweep
	clean := r.Bool(0.15)
	if clean {
		p.Meta["stratum"] = "fault-free"
		p.SetKnob("drop", 0)
		p.SetKnob("join", 0)
		p.SetKnob("sponsor", 0)
		for _, i := range r.Perm(n) {
			p.Add(Step{Op: "vote", Who: i})
		}
		return p
	}
	p.Meta["stratum"] = "faulty-network"
	drop, join := 0, 0
	if r.Bool(0.5) {
		drop = r.Range(0, min(n, 4))
		join = r.Range(0, 4)
		if n-drop+join < 1 {
			join = 1
		}
	}
	p.SetKnob("drop", int64(drop))
	p.SetKnob("join", int64(join))
	p.SetKnob("sponsor", int64(r.Pick(8, 1, 1, 1))) // 0 member, 1 outsider, 2 member about to leave, 3 member with forged proposal signature
	if r.Bool(0.4) {
		// some current arbiters are council members in a non-normal state
		p.SetKnob("abnormal", int64(r.Range(1, max(1, n/3))))
	}
	pool := n + join + int(p.Knob("nout", 1))
	// honest votes of the members, then what the network and Byzantine actors add
	var msgs []Step
	for i := 0; i < n; i++ {
		if r.Bool(0.9) {
			msgs = append(msgs, Step{Op: "vote", Who: i, Rej: r.Bool(0.12)})
		}
	}
	extra := r.Range(0, n/2+4)
	faults := []string{"", "", "sig", "signer", "rehash", "flip"}
	for i := 0; i < extra; i++ {
		s := Step{Op: "vote", Who: r.Intn(pool), Rej: r.Bool(0.15), Stale: r.Bool(0.25), Fault: faults[r.Intn(len(faults))], Arg: r.Intn(1 << 16)}
		if r.Bool(0.3) {
			s.Who = n + r.Intn(pool-n) // newcomers / outsiders
		}
		if s.Fault == "rehash" {
			s.Stale = true
		}
		if s.Fault == "flip" {
			s.Rej = true
		}
		msgs = append(msgs, s)
	}
	for i := range msgs {
		if r.Bool(0.2) {
			msgs[i].Dup = r.Range(1, 3)
		}
	}
	// reorder
	perm := r.Perm(len(msgs))
	changeAt := -1
	if drop+join > 0 {
		changeAt = r.Intn(len(msgs) + 1)
	}
	nsub := r.Range(1, 4)
	subAt := map[int]bool{}
	for i := 0; i < nsub; i++ {
		subAt[r.Intn(len(msgs)+1)] = true
	}
	modes := []string{"all", "accepts", "cur", "firstk", "validlooking"}
	for i := 0; i <= len(perm); i++ {
		if i == changeAt {
			p.Add(Step{Op: "change"})
		}
		if subAt[i] {
			p.Add(Step{Op: "submit", Mode: modes[r.Intn(len(modes))], K: r.Range(1, n+2)})
		}
		if i < len(perm) {
			p.Add(msgs[perm[i]])
		}
	}
	return p
}

var wireOnce sync.Once

func wire() {
	wireOnce.Do(func() {
		functions.GetTransactionByTxType = transaction.GetTransaction
		functions.GetTransactionByBytes = transaction.GetTransactionByBytes
		functions.CreateTransaction = transaction.CreateTransaction
		functions.GetTransactionParameters = transaction.GetTransactionparameters
		// blockchain.VoteCheck logs through common/log's process-global logger
		dir := os.Getenv("SIM_TMP")
		if dir == "" {
			dir = os.TempDir()
		}
		elog.NewDefault(filepath.Join(dir, "quorumsim-logs"), 255, 0, 0)
	})
}

type key struct {
	priv []byte
	pub  []byte // compressed
	ec   *ecdsa.PrivateKey
}

func mkKey(seed uint64, i int) *key {
	r := core.NewRng(seed).Fork(fmt.Sprintf("arbiter-%d", i))
	for {
		priv := r.Bytes(32)
		priv[0] &= 0x7f
		d := new(big.Int).SetBytes(priv)
		if d.Sign() == 0 {
			continue
		}
		pk := crypto.NewPubKey(priv)
		enc, err := pk.EncodePoint(true)
		if err != nil {
			continue
		}
		ec := &ecdsa.PrivateKey{D: d}
		ec.Curve = crypto.DefaultCurve
		ec.X, ec.Y = pk.X, pk.Y
		return &key{priv: priv, pub: enc, ec: ec}
	}
}

// sign produces the node's signature format (sha256, P-256, r||s in 64 bytes).
// ECDSA is randomised: signatures never reach the event log.
func (k *key) sign(data []byte) []byte {
	digest := sha256.Sum256(data)
	r, s, err := ecdsa.Sign(crand.Reader, k.ec, digest[:])
	if err != nil {
		panic("quorumsim: harness signer: " + err.Error())
	}
	sig := make([]byte, crypto.SignatureLength)
	rb, sb := r.Bytes(), s.Bytes()
	copy(sig[crypto.SignerLength-len(rb):], rb)
	copy(sig[crypto.SignatureLength-len(sb):], sb)
	return sig
}

// label is the harness's own knowledge about one vote message, fixed when
// the message is constructed (never derived from the code under test).
type label struct {
	signer   int            // index in the key pool of the key named by the Signer field
	accept   bool           // Accept field as delivered
	forCur   bool           // ProposalHash field equals the current proposal's hash
	claims   common.Uint256 // ProposalHash field as delivered
	sigValid bool           // Sign was made by the Signer-field key over exactly the delivered fields
}

type msg struct {
	v payload.DPOSProposalVote
	l label
}

type sim struct {
	c               *core.Ctx
	keys            []*key
	n               int
	members         []int // indices into keys: the current arbiter set
	arb             *state.Arbiters
	cur             payload.DPOSProposal
	stale           payload.DPOSProposal
	block           *types.Block
	sponsor         int
	sponsorSigValid bool
	ckp             *checkpoint.Manager
	changed         bool
	raw             []msg
	// honest mirror
	accept   map[common.Uint256]bool
	acceptL  []msg
	finished bool
	nsub     int
	abnormal int // how many of the current members are CRC arbiters in a non-normal state
}

func (s *sim) isMember(i int) bool {
	for _, m := range s.members {
		if m == i {
			return true
		}
	}
	return false
}

// canVote: a current arbiter in a normal state (a council member that is not
// may neither sponsor nor vote, but still counts in the set the two-thirds
// rule is taken over).
func (s *sim) canVote(i int) bool {
	for k, m := range s.members {
		if m == i {
			return k >= s.abnormal
		}
	}
	return false
}

func (s *sim) install() {
	var ms []state.ArbiterMember
	for k, i := range s.members {
		var ar state.ArbiterMember
		var err error
		if k < s.abnormal {
			// a CRC arbiter whose council member is not in a normal state: still
			// a current arbiter, still counted by the two-thirds rule
			ar, err = state.NewCRCArbiter(s.keys[i].pub, s.keys[i].pub, &crstate.CRMember{}, false)
		} else {
			ar, err = state.NewOriginArbiter(s.keys[i].pub)
		}
		if err != nil {
			panic(err)
		}
		ms = append(ms, ar)
	}
	s.arb.CurrentArbitrators = ms
}

// quorumOK is the property's arithmetic: more than two-thirds (rounded down).
func quorumOK(distinct, n int) bool { return distinct > (2*n)/3 }

type verdict struct {
	distinctValid                                     int  // distinct current members with a valid accept vote for exactly this proposal
	allClean                                          bool // every vote in the confirm is such a vote, no signer twice
	rawAccepts                                        int
	dupSigners, nonMember, badSig, wrongProp, rejects int
}

func (s *sim) keyIndex(pub []byte) int {
	for i, k := range s.keys {
		if string(k.pub) == string(pub) {
			return i
		}
	}
	return -1
}

func (s *sim) judge(ms []msg, propHash common.Uint256) verdict {
	var v verdict
	seen := map[int]bool{}
	seenAny := map[int]bool{}
	v.allClean = true
	for _, m := range ms {
		forThis := m.l.claims == propHash
		good := m.l.accept && forThis && m.l.sigValid && m.l.signer >= 0 && s.canVote(m.l.signer)
		if good && !seen[m.l.signer] {
			seen[m.l.signer] = true
			v.distinctValid++
		} else {
			v.allClean = false
		}
		if m.l.accept {
			v.rawAccepts++
		} else {
			v.rejects++
		}
		if seenAny[m.l.signer] {
			v.dupSigners++
		}
		seenAny[m.l.signer] = true
		if m.l.signer < 0 || !s.isMember(m.l.signer) {
			v.nonMember++
		}
		if !m.l.sigValid {
			v.badSig++
		}
		if !forThis {
			v.wrongProp++
		}
	}
	return v
}

// submit hands one assembled confirm to the real checks and applies the oracles.
func (s *sim) submit(tag string, ms []msg, prop payload.DPOSProposal) (accepted bool) {
	c := s.c
	conf := &payload.Confirm{Proposal: prop}
	for _, m := range ms {
		conf.Votes = append(conf.Votes, m.v)
	}
	n := len(s.members)
	var errS, errC, errB error
	func() {
		defer func() {
			if r := recover(); r != nil {
				errS = fmt.Errorf("panic: %v", r)
			}
		}()
		errS = blockchain.ConfirmSanityCheck(conf)
		errC = blockchain.ConfirmContextCheck(conf)
		errB = blockchain.VerifQuorumCheckBlockWithConfirmation(s.block, conf, s.ckp, false)
	}()
	accepted = errS == nil && errC == nil
	v := s.judge(ms, prop.Hash())
	sponsorIdx := s.keyIndex(prop.Sponsor)
	sponsorMember := sponsorIdx >= 0 && s.canVote(sponsorIdx)
	sponsorSigValid := s.sponsorSigValid || string(prop.Sign) != string(s.cur.Sign)
	s.nsub++
	c.Logf("submit %s n=%d votes=%d distinct-valid=%d sanity=%v context=%v block=%v", tag, n, len(ms), v.distinctValid, errS == nil, errC == nil, errB == nil)
	c.State(fpState(n, v.distinctValid, len(ms), accepted, sponsorMember))
	if accepted {
		c.Probe("confirm-accepted")
	} else {
		c.Probe("confirm-rejected")
	}
	// soundness
	c.Check()
	if accepted && !quorumOK(v.distinctValid, n) {
		why := "unknown"
		switch {
		case v.allClean:
			why = "threshold-too-low"
		case v.dupSigners > 0 && quorumOK(v.distinctValid+v.dupSigners, n):
			why = "duplicate-signer-counted-twice"
		case v.nonMember > 0:
			why = "non-member-vote-counted"
		case v.badSig > 0:
			why = "invalid-signature-counted"
		case v.wrongProp > 0:
			why = "vote-for-other-proposal-counted"
		case v.rejects > 0:
			why = "reject-vote-counted"
		default:
			why = "threshold-too-low"
		}
		c.Violate("C25", "quorum-soundness", "C25/accepted-below-two-thirds-quorum/"+why,
			"confirm accepted by ConfirmSanityCheck+ConfirmContextCheck with only %d distinct current-member valid accept votes for this proposal; %d arbiters need more than %d (votes in confirm %d: duplicate signers %d, non-members %d, bad signatures %d, other proposal %d, rejects %d) [%s]",
			v.distinctValid, n, (2*n)/3, len(ms), v.dupSigners, v.nonMember, v.badSig, v.wrongProp, v.rejects, tag)
	}
	c.Check()
	if accepted && !sponsorMember {
		c.Violate("C25", "sponsor-membership", "C25/accepted-with-sponsor-not-a-current-arbiter",
			"confirm accepted although the proposal's sponsor (key #%d) is not in the current arbiter set of %d [%s]", sponsorIdx, n, tag)
	}
	// the block-level check must not be weaker than the confirm checks, and binds the block
	c.Check()
	if errB == nil && (errC != nil) {
		c.Violate("C25", "block-check", "C25/checkBlockWithConfirmation-accepts-what-ConfirmContextCheck-rejects",
			"checkBlockWithConfirmation accepted a confirm that ConfirmContextCheck rejects (%v) [%s]", errC, tag)
	}
	c.Check()
	if errB == nil && prop.BlockHash != s.block.Hash() {
		c.Violate("C25", "block-check", "C25/confirm-for-another-block-accepted",
			"checkBlockWithConfirmation accepted a confirm whose proposal names another block [%s]", tag)
	}
	// completeness (only when nothing at all is wrong with the confirm)
	c.Check()
	if v.allClean && quorumOK(v.distinctValid, n) && sponsorMember && sponsorSigValid {
		c.Probe("honest-quorum-submitted")
		if !accepted || (errB != nil && prop.BlockHash == s.block.Hash()) {
			c.Violate("C25", "quorum-completeness", "C25/honest-quorum-rejected",
				"confirm with %d distinct valid accept votes of current arbiters (n=%d, need more than %d) and a member sponsor was rejected: sanity=%v context=%v block=%v [%s]",
				v.distinctValid, n, (2*n)/3, errS, errC, errB, tag)
		}
	}
	return accepted
}

func fpState(a, b, c int, x, y bool) uint64 {
	h := fnv.New64a()
	fmt.Fprintf(h, "%d|%d|%d|%v|%v", a, b, c, x, y)
	return h.Sum64()
}

func (s *sim) mkVote(st Step) msg {
	pool := len(s.keys)
	who := ((st.Who % pool) + pool) % pool
	prop := &s.cur
	if st.Stale {
		prop = &s.stale
	}
	v := payload.DPOSProposalVote{ProposalHash: prop.Hash(), Signer: s.keys[who].pub, Accept: !st.Rej}
	v.Sign = s.keys[who].sign(v.Data())
	l := label{signer: who, accept: v.Accept, forCur: !st.Stale, sigValid: true, claims: v.ProposalHash}
	switch st.Fault {
	case "sig": // link corruption of the signature
		sig := append([]byte(nil), v.Sign...)
		sig[st.Arg%len(sig)] ^= byte(1 + (st.Arg>>8)%255)
		v.Sign = sig
		l.sigValid = false
	case "signer": // signer field rewritten to another arbiter's key
		other := who
		if pool > 1 {
			other = (who + 1 + st.Arg%(pool-1)) % pool
		}
		if other != who {
			v.Signer = s.keys[other].pub
			l.signer = other
			l.sigValid = false
		}
	case "rehash": // stale vote re-labelled for the current proposal, signature not redone
		v.ProposalHash = s.cur.Hash()
		l.forCur = true
		l.claims = v.ProposalHash
		l.sigValid = false
	case "flip": // reject turned into accept, signature not redone
		v.Accept = true
		l.accept = true
		l.sigValid = false
	}
	return msg{v: v, l: l}
}

// deliver feeds one message to both collectors.
func (s *sim) deliver(m msg) {
	c := s.c
	s.raw = append(s.raw, m)
	// --- honest proposer: mirror of the handlers + ProposalDispatcher.ProcessVote ---
	if s.finished {
		return
	}
	if !s.cur.Hash().IsEqual(m.v.ProposalHash) { // dposondutyhandler.go: currentProposal.Hash().IsEqual(p.ProposalHash)
		c.Probe("mirror-filtered-other-proposal")
		return
	}
	v := m.v
	if err := blockchain.VoteCheck(&v); err != nil { // real
		c.Probe("mirror-filtered-by-VoteCheck")
		return
	}
	if s.accept[m.v.Hash()] { // alreadyExistVote
		c.Probe("mirror-filtered-duplicate")
		return
	}
	if !m.v.Accept {
		s.accept[m.v.Hash()] = true
		return
	}
	s.accept[m.v.Hash()] = true
	s.acceptL = append(s.acceptL, m)
	if s.arb.HasArbitersMajorityCount(len(s.acceptL)) { // countAcceptedVote
		s.finished = true
		c.Probe("mirror-dispatcher-finished")
		s.submit("dispatcher", s.acceptL, s.cur) // AppendConfirm
	}
}

func (e Engine) Execute(c *core.Ctx) {
	wire()
	p := c.Plan
	n := int(p.Knob("n", 4))
	if n < 1 {
		n = 1
	}
	drop, join, nout := int(p.Knob("drop", 0)), int(p.Knob("join", 0)), int(p.Knob("nout", 1))
	if drop > n {
		drop = n
	}
	if n-drop+join < 1 {
		join = 1
	}
	seed := uint64(p.Knob("keyseed", 1))
	s := &sim{c: c, n: n, accept: map[common.Uint256]bool{}}
	for i := 0; i < n+join+nout; i++ {
		s.keys = append(s.keys, mkKey(seed, i))
	}
	for i := 0; i < n; i++ {
		s.members = append(s.members, i)
	}
	params := config.GetDefaultParams()
	params.DPoSConfiguration.SponsorsFilePath = "/nonexistent-sponsors"
	ckp := checkpoint.NewManager(params)
	arb, err := state.NewArbitrators(params, crstate.NewCommittee(params, ckp), nil, nil, nil, nil, nil, nil, nil, ckp)
	if err != nil {
		panic("quorumsim: NewArbitrators: " + err.Error())
	}
	s.arb = arb
	s.ckp = checkpoint.NewManager(params) // nothing registered: rollback on a failed check is a no-op
	saved := blockchain.DefaultLedger
	blockchain.DefaultLedger = &blockchain.Ledger{Arbitrators: arb}
	defer func() { blockchain.DefaultLedger = saved }()
	s.abnormal = int(p.Knob("abnormal", 0))
	s.install()

	// the block and the two proposals (an earlier view's and the current one)
	hr := core.NewRng(seed).Fork("block")
	var prev, root common.Uint256
	copy(prev[:], hr.Bytes(32))
	copy(root[:], hr.Bytes(32))
	s.block = &types.Block{Header: common2.Header{Previous: prev, MerkleRoot: root, Timestamp: 1546300800, Bits: 0x207fffff, Nonce: uint32(hr.U64()), Height: 1000}}
	switch p.Knob("sponsor", 0) {
	case 1:
		s.sponsor = n + join // an outsider
	case 2:
		s.sponsor = 0 // first to leave at a membership change
	default:
		s.sponsor = n - 1
	}
	view := uint32(p.Knob("view", 1))
	s.cur = payload.DPOSProposal{Sponsor: s.keys[s.sponsor].pub, BlockHash: s.block.Hash(), ViewOffset: view}
	s.cur.Sign = s.keys[s.sponsor].sign(s.cur.Data())
	s.sponsorSigValid = true
	if p.Knob("sponsor", 0) == 3 {
		sig := append([]byte(nil), s.cur.Sign...)
		sig[7] ^= 0x40
		s.cur.Sign = sig
		s.sponsorSigValid = false
	}
	s.stale = payload.DPOSProposal{Sponsor: s.keys[0].pub, BlockHash: s.block.Hash(), ViewOffset: view - 1}
	s.stale.Sign = s.keys[0].sign(s.stale.Data())

	c.SetSample(map[string]interface{}{"knobs": p.Knobs, "stratum": p.Meta["stratum"], "steps": sample(p.Steps, 14)})
	if p.Knob("sponsor", 0) == 1 {
		c.Fault("sponsor-not-a-member")
	}
	if p.Knob("sponsor", 0) == 3 {
		c.Fault("proposal-signature-forged")
	}

	seenMsg := map[string]bool{}
	for i, raw := range p.Steps {
		c.CurStep = i
		var st Step
		if err := json.Unmarshal(raw, &st); err != nil {
			panic(fmt.Sprintf("bad step %d: %v", i, err))
		}
		switch st.Op {
		case "vote":
			m := s.mkVote(st)
			// fault accounting: what the network / Byzantine actor did to this message
			if st.Stale && st.Fault != "rehash" {
				c.Fault("stale-vote-for-earlier-proposal")
			}
			if st.Rej && st.Fault != "flip" {
				c.Fault("reject-vote")
			}
			if st.Fault != "" && !m.l.sigValid {
				c.Fault("corrupt-" + st.Fault)
			}
			if !s.isMember(m.l.signer) {
				if m.l.signer < s.n {
					c.Fault("vote-by-last-rounds-member")
				} else {
					c.Fault("vote-by-non-member")
				}
			}
			id := fmt.Sprintf("%d/%v/%v/%s", m.l.signer, m.l.accept, m.l.forCur, st.Fault)
			if seenMsg[id] {
				c.Fault("duplicate-vote")
			}
			seenMsg[id] = true
			c.Logf("deliver signer=%d acc=%v cur=%v fault=%s x%d", m.l.signer, m.l.accept, m.l.forCur, st.Fault, 1+st.Dup)
			for d := 0; d <= st.Dup && d < 4; d++ {
				if d > 0 {
					c.Fault("duplicate-vote")
				}
				s.deliver(m)
			}
		case "change":
			if s.changed || drop+join == 0 {
				continue
			}
			s.changed = true
			var ms []int
			for i := drop; i < n; i++ {
				ms = append(ms, i)
			}
			for j := 0; j < join; j++ {
				ms = append(ms, n+j)
			}
			s.members = ms
			s.install()
			c.Fault("membership-changed-mid-collection")
			c.Logf("membership change: -%d +%d -> n=%d", drop, join, len(ms))
			if s.finished { // the already assembled confirm reaches nodes that are in the new round
				s.submit("dispatcher-after-change", s.acceptL, s.cur)
			}
		case "submit":
			s.byzSubmit(st)
		}
	}
	c.CurStep = len(p.Steps)
	if s.finished {
		s.submit("dispatcher-final", s.acceptL, s.cur)
	} else {
		c.Probe("mirror-dispatcher-never-finished")
	}
	s.byzSubmit(Step{Op: "submit", Mode: "all"})
	s.byzSubmit(Step{Op: "submit", Mode: "validlooking"})
	s.byzSubmit(Step{Op: "submit", Mode: "clonesig"})
	s.boundary()
}

// byzSubmit: a proposer that does not filter what it received.
func (s *sim) byzSubmit(st Step) {
	var ms []msg
	switch st.Mode {
	case "accepts":
		for _, m := range s.raw {
			if m.v.Accept {
				ms = append(ms, m)
			}
		}
	case "cur":
		for _, m := range s.raw {
			if m.v.Accept && s.cur.Hash().IsEqual(m.v.ProposalHash) {
				ms = append(ms, m)
			}
		}
	case "firstk":
		for _, m := range s.raw {
			if len(ms) < st.K {
				ms = append(ms, m)
			}
		}
	case "validlooking": // everything that individually passes the per-vote checks, duplicates kept
		for _, m := range s.raw {
			v := m.v
			if m.v.Accept && s.cur.Hash().IsEqual(m.v.ProposalHash) && blockchain.VoteCheck(&v) == nil {
				ms = append(ms, m)
			}
		}
	case "clonesig":
		// ONE genuine accept vote, then copies of it whose Signer field names
		// every other voting arbiter while the signature bytes stay the same
		first := -1
		for _, i := range s.members {
			if s.canVote(i) {
				first = i
				break
			}
		}
		if first < 0 {
			return
		}
		v := payload.DPOSProposalVote{ProposalHash: s.cur.Hash(), Signer: s.keys[first].pub, Accept: true}
		v.Sign = s.keys[first].sign(v.Data())
		ms = append(ms, msg{v: v, l: label{signer: first, accept: true, forCur: true, sigValid: true, claims: v.ProposalHash}})
		for _, i := range s.members {
			if i == first || !s.canVote(i) {
				continue
			}
			cl := v
			cl.Signer = s.keys[i].pub
			ms = append(ms, msg{v: cl, l: label{signer: i, accept: true, forCur: true, sigValid: false, claims: v.ProposalHash}})
		}
		if len(ms) > 1 {
			s.c.Fault("forged-vote:signature-bytes-of-another-vote-under-each-other-signer")
		}
	default:
		ms = append(ms, s.raw...)
	}
	s.c.Probe("byzantine-assembly-" + st.Mode)
	s.submit("byz-"+st.Mode, ms, s.cur)
	if st.Mode == "validlooking" && len(ms) > 0 {
		// the same votes under the earlier proposal, and under a proposal for another block
		s.submit("byz-validlooking-stale-proposal", ms, s.stale)
		other := s.cur
		other.BlockHash[3] ^= 0x55
		other.Sign = s.keys[s.sponsor].sign((&payload.DPOSProposal{Sponsor: other.Sponsor, BlockHash: other.BlockHash, ViewOffset: other.ViewOffset}).Data())
		s.submit("byz-validlooking-other-block", ms, payload.DPOSProposal{Sponsor: other.Sponsor, BlockHash: other.BlockHash, ViewOffset: other.ViewOffset, Sign: other.Sign})
	}
}

// boundary: for the current set size n, confirms with exactly k = 0..n
// distinct valid member votes (and a member sponsor) locate the observed
// accept/reject boundary q(n); the intersection arithmetic is evaluated on it.
func (s *sim) boundary() {
	c := s.c
	// a dedicated member set of exactly bn arbiters (bn uniform in 1..40 per plan)
	n := int(c.Plan.Knob("bn", int64(len(s.members))))
	if n < 1 {
		n = 1
	}
	if n > 40 {
		n = 40
	}
	savedKeys, savedMembers := s.keys, s.members
	s.keys, s.members = nil, nil
	for i := 0; i < n; i++ {
		s.keys = append(s.keys, mkKey(uint64(c.Plan.Knob("keyseed", 1)), 1000+i))
		s.members = append(s.members, i)
	}
	// (non-normal council members: at most so many that the normal ones alone
	// can still reach the quorum of the whole set)
	savedAbnormal := s.abnormal
	if s.abnormal > (n-1)/3 {
		s.abnormal = (n - 1) / 3
	}
	s.install()
	defer func() {
		s.keys, s.members, s.abnormal = savedKeys, savedMembers, savedAbnormal
		s.install()
	}()
	sp := s.members[n-1]
	prop := payload.DPOSProposal{Sponsor: s.keys[sp].pub, BlockHash: s.block.Hash(), ViewOffset: s.cur.ViewOffset + 1}
	prop.Sign = s.keys[sp].sign(prop.Data())
	savedSponsor, savedCur, savedValid := s.sponsor, s.cur, s.sponsorSigValid
	s.sponsor, s.cur, s.sponsorSigValid = sp, prop, true
	defer func() { s.sponsor, s.cur, s.sponsorSigValid = savedSponsor, savedCur, savedValid }()
	var all []msg
	for _, i := range s.members {
		if !s.canVote(i) {
			continue
		}
		v := payload.DPOSProposalVote{ProposalHash: prop.Hash(), Signer: s.keys[i].pub, Accept: true}
		v.Sign = s.keys[i].sign(v.Data())
		all = append(all, msg{v: v, l: label{signer: i, accept: true, forCur: true, sigValid: true, claims: v.ProposalHash}})
	}
	q := -1
	monotone := true
	for k := 0; k <= len(all); k++ {
		acc := s.submit(fmt.Sprintf("boundary-k=%d", k), all[:k], prop)
		if acc && q < 0 {
			q = k
		}
		if !acc && q >= 0 {
			monotone = false
		}
	}
	// a duplicated signer must not lift a confirm just below the observed line over it
	for _, k := range []int{q - 1, q - 2} {
		if q >= 0 && k >= 1 && k < n {
			dup := append(append([]msg(nil), all[:k]...), all[0])
			if k >= 2 {
				dup = append(dup, all[1])
			}
			s.submit(fmt.Sprintf("boundary-k=%d+dup", k), dup, prop)
			s.c.Probe("boundary-duplicate-signer-below-line")
		}
	}
	c.Probe(fmt.Sprintf("boundary-swept-n=%02d", n))
	c.Logf("boundary n=%d q=%d monotone=%v", n, q, monotone)
	c.Check()
	if !monotone {
		c.Violate("C25", "quorum-boundary", "C25/quorum-boundary/not-monotone", "n=%d: a confirm with more distinct valid votes was rejected after one with fewer was accepted (first accepted k=%d)", n, q)
	}
	c.Check()
	if q < 0 {
		c.Violate("C25", "quorum-boundary", "C25/quorum-boundary/full-set-rejected", "n=%d: even all %d arbiters' votes were not accepted", n, n)
		return
	}
	// two quorums of size q share at least 2q-n members; that must exceed a third of n
	if 3*(2*q-n) <= n {
		c.Violate("C25", "quorum-boundary", "C25/quorum-boundary/two-quorums-may-share-a-third-or-less",
			"n=%d: observed minimum accepted distinct signer count q=%d; two such quorums can share only %d arbiters, not more than n/3", n, q, 2*q-n)
	}
}

func sample(s []json.RawMessage, n int) []json.RawMessage {
	if len(s) > n {
		return s[:n]
	}
	return s
}
