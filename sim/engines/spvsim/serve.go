package spvsim

import (
	"bytes"
	"fmt"
	"hash/fnv"

	"github.com/elastos/Elastos.ELA/common"
	common2 "github.com/elastos/Elastos.ELA/core/types/common"
	"github.com/elastos/Elastos.ELA/elanet/bloom"
	"github.com/elastos/Elastos.ELA/elanet/filter"
	"github.com/elastos/Elastos.ELA/p2p/msg"
)

func (r *run) serve(st *Step) {
	c := r.c
	if !r.node.loaded() {
		// pushMerkleBlockMsg ignores the request when no filter is loaded
		c.Logf("serve skipped (no filter)")
		return
	}
	from := abs(st.From) % len(r.w.chain)
	n := st.N
	if n < 1 {
		n = 1
	}
	for h := from; h < from+n && h < len(r.w.chain); h++ {
		if c.Violated() {
			return
		}
		r.serveOne(h, st)
	}
}

// flagLayout replays the depth-first construction of BIP37's partial merkle
// tree from the match pattern (reference, independent of the code under
// test) and returns, for each flag bit, the leaf it belongs to (-1: inner node).
func flagLayout(ntx int, matched []bool) []int {
	width := func(h uint) int { return (ntx + (1 << h) - 1) >> h }
	var height uint
	for width(height) > 1 {
		height++
	}
	var bits []int
	var walk func(h uint, pos int)
	walk = func(h uint, pos int) {
		parent := false
		for i := pos << h; i < (pos+1)<<h && i < ntx; i++ {
			parent = parent || matched[i]
		}
		if h == 0 {
			bits = append(bits, pos)
			return
		}
		bits = append(bits, -1)
		if !parent {
			return
		}
		walk(h-1, 2*pos)
		if 2*pos+1 < width(h-1) {
			walk(h-1, 2*pos+1)
		}
	}
	walk(height, 0)
	return bits
}

func (r *run) serveOne(h int, st *Step) {
	c := r.c
	sb := r.w.chain[h]
	ntx := len(sb.ids)
	nf := r.node.real()

	// --- what the protocol says must be reported (model), in block order ---
	rel := make([]bool, ntx)
	why := make([]string, ntx)
	autoBefore := len(r.model.auto)
	// observe, for the report, whether the node inserts outpoints although nFlags says none
	var probeOut []byte
	if r.model.flag == updNone && !r.model.sidechain {
		for i, v := range sb.views {
			for j, a := range v.outAddr {
				if r.model.is(kAddr, a) && probeOut == nil {
					op := outpointBytes(sb.ids[i], uint16(j))
					if !nf.Matches(op) {
						probeOut = op
					}
				}
			}
		}
	}
	for i, v := range sb.views {
		rel[i], why[i] = r.model.relevant(v)
	}

	// --- node: production path and the bloom package's own builder in lock-step ---
	var mbP, mbT *msg.MerkleBlock
	var idxP, idxT []uint32
	if pan := safely(func() {
		mbP, idxP = filter.NewMerkleBlock(sb.blk.Transactions, r.node.f)
		mbP.Header = &sb.blk.Header
		mbT, idxT = bloom.NewMerkleBlock(sb.blk, r.node.twin)
	}); pan != nil {
		// an honest request for an honest block: a crash of the serving path is a
		// failure to serve, reported under the property being checked
		c.Check()
		c.Violate(c.Plan.Property, "serve", c.Plan.Property+"/node-panicked-serving-merkleblock", "block of %d txs: filtering / merkle-block construction panicked: %v", ntx, pan)
		return
	}
	r.served++
	matched := make([]bool, ntx)
	for _, i := range idxP {
		matched[i] = true
	}
	c.Check()
	if !sameMB(mbP, mbT) || fmt.Sprint(idxP) != fmt.Sprint(idxT) {
		c.Violate("C08", "builders-agree", "C08/bloom-and-filter-merkleblock-differ", "block of %d txs: filter.NewMerkleBlock gives %d hashes/%x flags/matched %v, bloom.NewMerkleBlock gives %d hashes/%x flags/matched %v",
			ntx, len(mbP.Hashes), mbP.Flags, idxP, len(mbT.Hashes), mbT.Flags, idxT)
		return
	}
	if probeOut != nil && nf.Matches(probeOut) {
		c.Probe("update-flag-none-but-node-inserted-outpoint")
	}

	// --- C39: no false negatives ---
	nfp := 0
	for i := 0; i < ntx; i++ {
		c.Check()
		if rel[i] && !matched[i] {
			m := nf.GetFilterLoadMsg()
			c.Violate("C39", "no-false-negative", "C39/relevant-tx-not-matched/"+why[i],
				"tx %d/%d of block %d is relevant (%s) but the node's filter (%d bytes, %d hash functions, tweak %d, flags %d) did not match it; %d outpoints had to be auto-inserted before",
				i, ntx, h, why[i], len(m.Filter), m.HashFuncs, m.Tweak, m.Flags, autoBefore)
			return
		}
		if rel[i] {
			c.Probe("relevant-" + why[i])
		}
		if !rel[i] && matched[i] {
			nfp++
		}
	}
	if nfp > 0 {
		c.ProbeN("false-positive-tx", nfp)
	}
	r.checkNodeHas("after-serve")
	if c.Violated() {
		return
	}
	c.State(patternFP(ntx, matched))

	// --- link, honest delivery: encode, decode ---
	wire := encodeMerkleBlock(mbP)
	m, err := decodeMerkleBlock(wire)
	if err != nil {
		c.Check()
		c.Violate("C08", "wire", "C08/honest-merkleblock-not-decodable", "merkleblock of %d bytes for a block of %d txs: %v", len(wire), ntx, err)
		return
	}
	var want []common.Uint256
	for _, i := range idxP {
		want = append(want, sb.ids[i])
	}
	v0 := checkReal(m, 0)
	v1 := checkReal(m, 1)
	c.Check()
	if v0.err != nil {
		c.Violate("C08", "complete", "C08/honest-merkleblock-rejected", "block of %d txs, matched %v: bloom.CheckMerkleBlock: %v", ntx, idxP, v0.err)
		return
	}
	c.Check()
	if !sameIDs(v0.ids, want) {
		c.Violate("C08", "complete", "C08/honest-recovered-set-differs", "block of %d txs, node matched %v (%d txs) but the client recovered %d txids", ntx, idxP, len(want), len(v0.ids))
		return
	}
	c.Check()
	if (v1.err == nil) != (v0.err == nil) || !sameIDs(v0.ids, v1.ids) {
		c.Violate("C08", "checkers-agree", "C08/check-implementations-disagree", "bloom.CheckMerkleBlock and filter.CheckMerkleBlock disagree on an honest merkleblock of %d txs (matched %v): %v vs %v", ntx, idxP, v0.err, v1.err)
		return
	}
	hdr := m.Header.(*common2.Header)
	c.Check()
	if hdr.Hash() != sb.hash || hdr.MerkleRoot != sb.blk.MerkleRoot {
		c.Violate("C08", "wire", "C08/header-changed-on-the-wire", "header hash/root differ after encode+decode")
		return
	}
	maxDepth := 0
	for k, id := range v0.ids {
		root, depth, err := branchRoot(m, id)
		c.Check()
		if err != nil {
			c.Violate("C08", "branch", "C08/branch-extraction-failed", "block of %d txs, matched %v: GetTxMerkleBranch for matched tx %d: %v", ntx, idxP, idxP[k], err)
			return
		}
		if root != sb.blk.MerkleRoot {
			c.Violate("C08", "branch", "C08/branch-root-mismatch", "block of %d txs, matched %v: branch of tx %d (depth %d) recomputes %x, header root %x", ntx, idxP, idxP[k], depth, root[:4], sb.blk.MerkleRoot[:4])
			return
		}
		if depth > maxDepth {
			maxDepth = depth
		}
	}
	c.Probe(fmt.Sprintf("tree-depth-%d", maxDepthOf(ntx)))
	if ntx%2 == 1 && ntx > 1 {
		c.Probe("odd-width-block")
	}
	if len(idxP) == 0 {
		c.Probe("no-tx-matched")
	} else if len(idxP) == ntx {
		c.Probe("all-tx-matched")
	} else {
		c.Probe("some-tx-matched")
	}
	c.Logf("serve h=%d ntx=%d matched=%v hashes=%d flags=%x fp=%d", h, ntx, idxP, len(mbP.Hashes), mbP.Flags, nfp)

	// --- corrupted copies of the same message ---
	layout := flagLayout(ntx, matched)
	for _, f := range st.Faults {
		if c.Violated() {
			return
		}
		r.deliverCorrupted(f, h, sb, m, wire, want, layout)
	}
	if st.Enum && ntx <= 16 {
		r.enumerate(sb, m, want, layout)
	}
}

func maxDepthOf(ntx int) int {
	d := 0
	for (1 << uint(d)) < ntx {
		d++
	}
	return d
}

func patternFP(ntx int, matched []bool) uint64 {
	h := fnv.New64a()
	b := []byte{byte(ntx)}
	for _, m := range matched {
		if m {
			b = append(b, 1)
		} else {
			b = append(b, 0)
		}
	}
	h.Write(b)
	return h.Sum64()
}

func sameMB(a, b *msg.MerkleBlock) bool {
	if a.Transactions != b.Transactions || !bytes.Equal(a.Flags, b.Flags) || len(a.Hashes) != len(b.Hashes) {
		return false
	}
	for i := range a.Hashes {
		if *a.Hashes[i] != *b.Hashes[i] {
			return false
		}
	}
	return true
}

// ---------------------------------------------------------------------------
// the faulty link / Byzantine server
// ---------------------------------------------------------------------------

type faultInfo struct {
	name    string
	flagBit int  // >= 0 when exactly one flag bit was flipped
	foreign *simBlock // the block whose proof/header was substituted
	hashChanged bool  // a hash the honest message carries was altered (not merely added behind the end)
	full    bool // whole message substituted
}

func (r *run) otherBlock(h, a int) *simBlock {
	if len(r.w.chain) < 2 {
		return nil
	}
	o := abs(a) % len(r.w.chain)
	if o == h {
		o = (o + 1) % len(r.w.chain)
	}
	return r.w.chain[o]
}

// foreignProof: what the node would serve for another block with the client's
// current filter (computed on a copy, the node's state is not touched).
func (r *run) foreignProof(o *simBlock) *msg.MerkleBlock {
	mb, _ := bloom.NewMerkleBlock(o.blk, r.node.cloneFilter())
	return copyMB(mb)
}

func (r *run) deliverCorrupted(f LinkFault, h int, sb *simBlock, honest *msg.MerkleBlock, wire []byte, want []common.Uint256, layout []int) {
	c := r.c
	m := copyMB(honest)
	info := faultInfo{flagBit: -1}
	nh, nfl := len(m.Hashes), len(m.Flags)
	raw := []byte(nil)
	switch f.Kind {
	case "hbit":
		i, b := abs(f.A)%nh, abs(f.B)%256
		m.Hashes[i][b/8] ^= 1 << uint(b%8)
		info.name, info.hashChanged = "link-hash-bitflip", true
	case "fbit":
		k := abs(f.A) % (nfl * 8)
		m.Flags[k/8] ^= 1 << uint(k%8)
		info.name, info.flagBit = "link-flag-bitflip", k
	case "trunch":
		m.Hashes = m.Hashes[:nh-1-abs(f.A)%nh]
		info.name = "link-truncate-hashes"
	case "truncf":
		m.Flags = m.Flags[:nfl-1-abs(f.A)%nfl]
		info.name = "link-truncate-flags"
	case "duph":
		i := abs(f.A) % nh
		d := *m.Hashes[i]
		m.Hashes = append(m.Hashes[:i+1:i+1], append([]*common.Uint256{&d}, m.Hashes[i+1:]...)...)
		info.name = "link-duplicate-hash"
	case "appendh":
		d := *m.Hashes[abs(f.A)%nh]
		m.Hashes = append(m.Hashes, &d)
		info.name = "link-append-hash"
	case "appendf":
		m.Flags = append(m.Flags, byte(f.B))
		info.name = "link-append-flags"
	case "swaph":
		if nh < 2 {
			return
		}
		i := abs(f.A) % (nh - 1)
		info.hashChanged = *m.Hashes[i] != *m.Hashes[i+1]
		m.Hashes[i], m.Hashes[i+1] = m.Hashes[i+1], m.Hashes[i]
		info.name = "link-swap-hashes"
	case "ntx":
		// bit 31 is never set here: treeDepth() does not terminate for counts above 2^31 (see NOTES.md)
		m.Transactions ^= 1 << uint(abs(f.A)%31)
		info.name = "link-txcount-bitflip"
	case "transplant":
		o := r.otherBlock(h, f.A)
		if o == nil {
			return
		}
		p := r.foreignProof(o)
		m.Hashes, m.Flags, m.Transactions = p.Hashes, p.Flags, p.Transactions
		info.name, info.foreign = "byzantine-proof-of-other-block-under-this-header", o
	case "wrongblock":
		o := r.otherBlock(h, f.A)
		if o == nil {
			return
		}
		m = r.foreignProof(o)
		info.name, info.foreign, info.full = "byzantine-other-block-served", o, true
	case "hdrroot":
		b := abs(f.A) % 256
		m.Header.(*common2.Header).MerkleRoot[b/8] ^= 1 << uint(b%8)
		info.name = "link-header-root-bitflip"
	case "hdrnonce":
		m.Header.(*common2.Header).Nonce ^= 1 << uint(abs(f.A)%32)
		info.name = "link-header-nonce-bitflip"
	case "bytetrunc":
		raw = wire[:abs(f.A)%len(wire)]
		info.name = "link-truncate-bytes"
	default:
		return
	}
	if raw == nil {
		raw = encodeMerkleBlock(m)
	}
	c.Fault(info.name)
	m2, derr := decodeMerkleBlock(raw)
	if derr != nil {
		c.Check()
		c.Probe("corrupted-undecodable")
		c.Logf("fault %s a=%d b=%d -> undecodable", f.Kind, f.A, f.B)
		return
	}
	res := r.judge(info, sb, m2, want, layout)
	c.Logf("fault %s a=%d b=%d -> %s", f.Kind, f.A, f.B, res)
}

// judge applies the soundness oracle to one delivered (possibly corrupted)
// message for the requested block sb whose honest recovered set is want.
func (r *run) judge(info faultInfo, sb *simBlock, m *msg.MerkleBlock, want []common.Uint256, layout []int) string {
	c := r.c
	v := checkReal(m, 0)
	c.Check()
	if v.panicv != nil {
		c.Probe("check-panicked-on-corrupted-message")
		c.Note("CheckMerkleBlock panicked on a corrupted message (%s): %v", info.name, v.panicv)
		return "panic"
	}
	if v.err != nil {
		return "rejected"
	}
	hdr := m.Header.(*common2.Header)
	if hdr.MerkleRoot != sb.blk.MerkleRoot {
		if info.full && info.foreign != nil {
			// a complete, genuine proof for another block: sound with respect to the
			// header it carries; only the client's header chain can tell (stub)
			for _, id := range v.ids {
				if !contains(info.foreign.ids, id) {
					c.Violate("C08", "sound", "C08/accepted-txid-not-in-block/"+info.name, "recovered txid %x is not in the block whose header was presented", id[:4])
					return "VIOLATION"
				}
			}
			c.Check()
			if hdr.Hash() == sb.hash {
				c.Violate("C08", "sound", "C08/other-block-has-requested-hash", "header of another block hashes to the requested hash")
				return "VIOLATION"
			}
			c.Probe("other-block-proof-rejected-by-header-chain-stub")
			return "accepted-for-its-own-header/rejected-by-header-hash"
		}
		c.Violate("C08", "sound", "C08/accepted-against-wrong-root/"+info.name, "verification succeeded against root %x, the block's root is %x", hdr.MerkleRoot[:4], sb.blk.MerkleRoot[:4])
		return "VIOLATION"
	}
	if info.hashChanged {
		// every hash of an honest message is consumed and feeds the root: a message
		// with a changed hash cannot recompute the block's root
		c.Violate("C08", "sound", "C08/corrupted-hash-accepted/"+info.name, "block of %d txs: a merkleblock with a corrupted hash verified (%d txids reported, honest %d)", len(sb.ids), len(v.ids), len(want))
		return "VIOLATION"
	}
	for _, id := range v.ids {
		if !contains(sb.ids, id) {
			c.Violate("C08", "sound", "C08/accepted-txid-not-in-block/"+info.name, "block of %d txs: corrupted merkleblock verified and reports txid %x which is not in the block", len(sb.ids), id[:4])
			return "VIOLATION"
		}
	}
	if sameIDs(v.ids, want) {
		c.Probe("corrupted-accepted-same-set-same-root/" + info.name)
		return "accepted-same-set"
	}
	// a different set verified against the genuine root
	if info.flagBit >= 0 && info.flagBit < len(layout) && layout[info.flagBit] >= 0 && !leafFlagsAuthenticated {
		leaf := sb.ids[layout[info.flagBit]]
		c.Check()
		if d := symDiff(v.ids, want); len(d) == 1 && d[0] == leaf {
			if len(v.ids) > len(want) {
				c.Probe("leaf-flag-flip-accepted-adds-one-genuine-tx")
			} else {
				c.Probe("leaf-flag-flip-accepted-drops-one-matched-tx")
			}
			return "accepted-leaf-flag"
		}
	}
	c.Violate("C08", "sound", "C08/corrupted-accepted-different-set/"+info.name, "block of %d txs: honest set has %d txids, corrupted message (%s) verified against the same root with %d txids", len(sb.ids), len(want), info.name, len(v.ids))
	return "VIOLATION"
}

func contains(s []common.Uint256, x common.Uint256) bool {
	for i := range s {
		if s[i] == x {
			return true
		}
	}
	return false
}

func symDiff(a, b []common.Uint256) []common.Uint256 {
	var d []common.Uint256
	for _, x := range a {
		if !contains(b, x) {
			d = append(d, x)
		}
	}
	for _, x := range b {
		if !contains(a, x) {
			d = append(d, x)
		}
	}
	return d
}

// enumerate: every single-bit flip of every hash and every flag bit of this
// message (blocks of at most 16 transactions).
func (r *run) enumerate(sb *simBlock, honest *msg.MerkleBlock, want []common.Uint256, layout []int) {
	c := r.c
	m := copyMB(honest)
	nacc := 0
	for i := range m.Hashes {
		for b := 0; b < 256; b++ {
			m.Hashes[i][b/8] ^= 1 << uint(b%8)
			c.Fault("enum-hash-bitflip")
			if res := r.judge(faultInfo{name: "enum-hash-bitflip", flagBit: -1, hashChanged: true}, sb, m, want, layout); res != "rejected" {
				nacc++
				c.Logf("enum hash %d bit %d -> %s", i, b, res)
			}
			m.Hashes[i][b/8] ^= 1 << uint(b%8)
			if c.Violated() {
				return
			}
		}
	}
	for k := 0; k < len(m.Flags)*8; k++ {
		m.Flags[k/8] ^= 1 << uint(k%8)
		c.Fault("enum-flag-bitflip")
		res := r.judge(faultInfo{name: "enum-flag-bitflip", flagBit: k}, sb, m, want, layout)
		m.Flags[k/8] ^= 1 << uint(k%8)
		if res != "rejected" {
			nacc++
		}
		if c.Violated() {
			return
		}
		// second implementation on the same corruption
		m.Flags[k/8] ^= 1 << uint(k%8)
		v0, v1 := checkReal(m, 0), checkReal(m, 1)
		m.Flags[k/8] ^= 1 << uint(k%8)
		c.Check()
		if (v0.err == nil) != (v1.err == nil) || !sameIDs(v0.ids, v1.ids) {
			c.Violate("C08", "checkers-agree", "C08/check-implementations-disagree", "flag bit %d flipped: bloom.CheckMerkleBlock %v, filter.CheckMerkleBlock %v", k, v0.err, v1.err)
			return
		}
	}
	c.Probe("message-fully-enumerated")
	c.Logf("enum ntx=%d hashes=%d flagbits=%d not-rejected=%d", len(sb.ids), len(m.Hashes), len(m.Flags)*8, nacc)
}

func safely(f func()) (pan interface{}) {
	defer func() { pan = recover() }()
	f()
	return nil
}
