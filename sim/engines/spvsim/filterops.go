package spvsim

import (
	"bytes"
	"fmt"
	"math"

	"github.com/elastos/Elastos.ELA/common"
	common2 "github.com/elastos/Elastos.ELA/core/types/common"
	"github.com/elastos/Elastos.ELA/elanet/bloom"
	"github.com/elastos/Elastos.ELA/p2p/msg"
)

const kRaw = 16

type elem struct {
	kind int
	data []byte
	name string
}

func kindName(k int) string {
	switch k {
	case kAddr:
		return "address"
	case kOut:
		return "outpoint"
	case kTx:
		return "txid"
	}
	return "raw"
}

// resolve turns the plan's modular references into concrete elements.
func (r *run) resolve(ws []Watch) []elem {
	var out []elem
	for _, w := range ws {
		switch w.K {
		case "addr":
			ph := r.w.addrs[abs(w.I)%len(r.w.addrs)].ph
			out = append(out, elem{kAddr, append([]byte(nil), ph[:]...), fmt.Sprintf("addr%d", abs(w.I)%len(r.w.addrs))})
		case "out":
			if len(r.w.utxos) == 0 {
				continue
			}
			u := r.w.utxos[abs(w.I)%len(r.w.utxos)]
			out = append(out, elem{kOut, outpointBytes(u.op.TxID, u.op.Index), fmt.Sprintf("out:%s:%d", short(u.op.TxID), u.op.Index)})
		case "tx":
			sb := r.w.chain[abs(w.I)%len(r.w.chain)]
			j := abs(w.J) % len(sb.ids)
			out = append(out, elem{kTx, append([]byte(nil), sb.ids[j][:]...), fmt.Sprintf("tx:%d/%d", abs(w.I)%len(r.w.chain), j)})
		case "raw":
			n := abs(w.J) % 521
			b := make([]byte, 0, n)
			for i := 0; len(b) < n; i++ {
				b = append(b, seedBytes(r.w.seed^uint64(abs(w.I)), "raw", i)...)
			}
			out = append(out, elem{kRaw, b[:n], fmt.Sprintf("raw:%d", n)})
		}
	}
	return out
}

func abs(i int) int {
	if i < 0 {
		return -i
	}
	return i
}

// clientAdd: the real client-side calls, each followed by the property's
// "what was added matches".
func (r *run) clientAdd(f *bloom.Filter, e elem, where string) {
	c := r.c
	ok := false
	defer func() {
		if x := recover(); x != nil {
			c.Check()
			c.Violate("C39", "added-matches", "C39/filter-add-or-match-panicked/"+where, "adding/matching a %d-byte element on a filter of %d bytes, %d hash functions panicked: %v", len(e.data), len(f.GetFilterLoadMsg().Filter), f.GetFilterLoadMsg().HashFuncs, x)
		}
	}()
	switch e.kind {
	case kOut:
		var id common.Uint256
		copy(id[:], e.data[:32])
		op := common2.NewOutPoint(id, uint16(e.data[32])|uint16(e.data[33])<<8)
		f.AddOutPoint(op)
		ok = f.MatchesOutPoint(op) && f.Matches(e.data)
	case kTx:
		var id common.Uint256
		copy(id[:], e.data)
		f.AddHash(&id)
		ok = f.Matches(e.data)
	default:
		f.Add(e.data)
		ok = f.Matches(e.data)
	}
	c.Check()
	if !ok {
		c.Violate("C39", "added-matches", "C39/added-element-not-matched/"+where+"/"+kindName(e.kind),
			"element %s (%d bytes) was added to a filter of %d bytes, %d hash functions, tweak %d and is not reported as matching",
			e.name, len(e.data), len(f.GetFilterLoadMsg().Filter), f.GetFilterLoadMsg().HashFuncs, f.GetFilterLoadMsg().Tweak)
	}
}

func fprate(exp int) float64 {
	if exp <= 0 {
		return 0.5
	}
	return math.Pow(10, -float64(exp))
}

// buildFilter constructs the client's filter as the step says. Returns the
// real filter (nil when the client is the reference implementation), the
// reference filter and the FilterLoad message to send.
func (r *run) buildFilter(st *Step, es []elem, where string) (*bloom.Filter, *refBloom, *msg.FilterLoad) {
	c := r.c
	var f *bloom.Filter
	size, k := st.Size, uint32(st.K)
	switch st.Via {
	case "new":
		n := st.Elems
		if n < 1 {
			n = 1
		}
		f = bloom.NewFilter(uint32(n), st.Tweak, fprate(st.FpExp))
		m := f.GetFilterLoadMsg()
		size, k = len(m.Filter), m.HashFuncs
		m.Flags = uint8(st.Flag)
	case "ref":
		// the client is an independent BIP37 implementation
	default:
		f = bloom.LoadFilter(&msg.FilterLoad{Filter: make([]byte, size), HashFuncs: k, Tweak: st.Tweak, Flags: uint8(st.Flag)})
	}
	ref := &refBloom{bits: make([]byte, size), k: k, tweak: st.Tweak}
	for _, e := range es {
		ref.add(e.data)
		if f != nil {
			r.clientAdd(f, e, where)
		}
	}
	var fl *msg.FilterLoad
	if f != nil {
		fl = f.GetFilterLoadMsg()
		// the bit positions are part of the protocol: a filter built by this
		// code must be the filter any other BIP37 implementation builds
		c.Check()
		if !bytes.Equal(fl.Filter, ref.bits) {
			c.Violate("C39", "bits-per-protocol", "C39/filter-bits-differ-from-bip37/"+where,
				"filter (%d bytes, %d hash functions, tweak %d) after adding %d elements differs from the BIP37 reference filter",
				size, k, st.Tweak, len(es))
		}
	} else {
		fl = &msg.FilterLoad{Filter: append([]byte(nil), ref.bits...), HashFuncs: k, Tweak: st.Tweak, Flags: uint8(st.Flag)}
	}
	if st.Tweak == math.MaxUint32 {
		for _, t := range st.Types {
			fl.TxTypes = append(fl.TxTypes, common2.TxType(t))
		}
	}
	return f, ref, fl
}

func (r *run) loadFilter(st *Step) {
	c := r.c
	es := r.resolve(st.Watch)
	hadHistory := r.node.loaded() && r.served > 0
	f, ref, fl := r.buildFilter(st, es, "client")
	if c.Violated() {
		return
	}
	buf := new(bytes.Buffer)
	if err := fl.Serialize(buf); err != nil {
		panic(fmt.Sprintf("harness: filterload serialize: %v", err))
	}
	if err := r.node.onFilterLoad(buf.Bytes()); err != nil {
		c.Check()
		c.Violate("C39", "filterload", "C39/valid-filterload-rejected-by-node", "filterload of %d bytes, %d hash functions refused: %v", len(fl.Filter), fl.HashFuncs, err)
		return
	}
	r.cliF, r.ref = f, ref
	r.model.reset()
	r.model.loaded = true
	r.model.flag = st.Flag
	if st.Tweak == math.MaxUint32 {
		r.model.sidechain = true
		r.model.noBits = len(fl.Filter) == 0
		if r.model.noBits && len(es) > 0 {
			c.Probe("sidechain-filter-without-bits-ignores-added-addresses")
		}
		for _, t := range st.Types {
			r.model.types = append(r.model.types, byte(t))
		}
		c.Probe("sidechain-filter-mode")
		r.adversarial("tweak-selects-sidechain-mode")
	}
	for _, e := range es {
		r.model.add(e.kind, e.data)
	}
	r.served = 0
	if hadHistory {
		r.adversarial("filter-reload-midstream")
	}
	nbits := len(fl.Filter) * 8
	if nbits > 0 && int(fl.HashFuncs)*len(es) >= nbits {
		r.adversarial("saturating-filter")
	}
	if len(fl.Filter) == 0 {
		c.Probe("empty-filter-matches-all")
	}
	c.Logf("filterload via=%s size=%d k=%d tweak=%d flag=%d elems=%d", st.Via, len(fl.Filter), fl.HashFuncs, fl.Tweak, fl.Flags, len(es))
	r.checkNodeHas("after-load")
}

// checkNodeHas: bits are never cleared - everything the client added, and every
// outpoint the protocol obliged the node to insert, matches in the node's filter.
func (r *run) checkNodeHas(when string) {
	c := r.c
	if !r.node.loaded() {
		return
	}
	nf := r.node.real()
	if r.model.sidechain && len(nf.GetFilterLoadMsg().Filter) == 0 {
		return // type-only side-chain filter: nothing is stored
	}
	for _, e := range r.model.elems {
		c.Check()
		if !nf.Matches(e) {
			c.Violate("C39", "node-has-added", "C39/added-element-not-matched/node-"+when, "an element of %d bytes the client added is not matched by the node-side filter (%s)", len(e), when)
			return
		}
	}
	for _, e := range r.model.auto {
		c.Check()
		if !nf.Matches(e) {
			c.Violate("C39", "node-has-auto", "C39/auto-inserted-outpoint-not-matched/"+when, "outpoint %x:%d of a matched output is not in the node-side filter (update flag %d)", e[:4], int(e[32])|int(e[33])<<8, r.model.flag)
			return
		}
	}
}

func (r *run) filterAdd(st *Step) {
	c := r.c
	if !r.node.loaded() {
		c.Logf("filteradd skipped (no filter)")
		return
	}
	es := r.resolve(st.Watch)
	for _, e := range es {
		if len(e.data) > msg.MaxFilterAddDataSize {
			continue
		}
		buf := new(bytes.Buffer)
		if err := (&msg.FilterAdd{Data: e.data}).Serialize(buf); err != nil {
			panic(fmt.Sprintf("harness: filteradd serialize: %v", err))
		}
		if err := r.node.onFilterAdd(buf.Bytes()); err != nil {
			c.Check()
			c.Violate("C39", "filteradd", "C39/valid-filteradd-rejected-by-node", "filteradd of %d bytes refused: %v", len(e.data), err)
			return
		}
		if r.cliF != nil {
			r.clientAdd(r.cliF, e, "client-add")
		}
		if r.ref != nil {
			r.ref.add(e.data)
		}
		r.model.add(e.kind, e.data)
		c.Logf("filteradd %s", e.name)
	}
	if r.served > 0 && len(es) > 0 {
		r.adversarial("filteradd-midstream")
	}
	r.checkNodeHas("after-add")
	// the node's filter after filteradd is the filter the protocol defines
	if r.ref != nil && !r.model.sidechain && len(r.model.auto) == 0 && r.served == 0 {
		c.Check()
		if !bytes.Equal(r.node.real().GetFilterLoadMsg().Filter, r.ref.bits) {
			c.Violate("C39", "bits-per-protocol", "C39/filter-bits-differ-from-bip37/node-add", "node-side filter after filteradd differs from the BIP37 reference filter")
		}
	}
}

// direct: a stand-alone filter (not loaded into the node): add, match, encode,
// decode, match again.
func (r *run) direct(st *Step) {
	c := r.c
	es := r.resolve(st.Watch)
	f, ref, fl := r.buildFilter(st, es, "direct")
	if c.Violated() || f == nil {
		return
	}
	buf := new(bytes.Buffer)
	if err := fl.Serialize(buf); err != nil {
		panic(fmt.Sprintf("harness: filterload serialize: %v", err))
	}
	var back msg.FilterLoad
	if err := back.Deserialize(bytes.NewReader(buf.Bytes())); err != nil {
		c.Check()
		c.Violate("C39", "filterload", "C39/valid-filterload-not-decodable", "filterload of %d bytes: %v", len(fl.Filter), err)
		return
	}
	g := bloom.LoadFilter(&back)
	for _, e := range es {
		c.Check()
		if !g.Matches(e.data) {
			c.Violate("C39", "added-matches", "C39/added-element-not-matched/after-wire/"+kindName(e.kind), "element of %d bytes not matched after the filter went over the wire", len(e.data))
			return
		}
		c.Check()
		if !ref.has(e.data) {
			panic("harness: reference filter lost an element")
		}
	}
	if len(fl.Filter) > 0 && int(fl.HashFuncs)*len(es) >= len(fl.Filter)*8 {
		r.adversarial("saturating-filter")
	}
	c.Logf("direct via=%s size=%d k=%d tweak=%d elems=%d", st.Via, len(fl.Filter), fl.HashFuncs, fl.Tweak, len(es))
}

// adversarial: events that stress the filter history (reload / filteradd in
// mid-stream, saturated or side-chain filters) are the fault kinds of the C39
// profile; in the C08 profile they are ordinary traffic and only counted.
func (r *run) adversarial(kind string) {
	if r.c.Plan.Property == "C39" {
		r.c.Fault(kind)
	} else {
		r.c.Probe(kind)
	}
}
