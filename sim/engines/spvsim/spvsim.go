// Package spvsim simulates an SPV light client talking to a serving node over
// a faulty link. The node side runs the real bloom filter (elanet/bloom Filter
// behind the production elanet/filter wrapper and bloom.TxFilter) and the real
// merkle-block construction (filter.NewMerkleBlock, the production path, and
// bloom.NewMerkleBlock); the client side runs the real CheckMerkleBlock,
// GetTxMerkleBranch and auxpow.GetMerkleRoot. Serves C08 and C39.
package spvsim

import (
	"bytes"
	"encoding/json"
	"fmt"

	"github.com/elastos/Elastos.ELA/auxpow"
	"github.com/elastos/Elastos.ELA/common"
	"github.com/elastos/Elastos.ELA/core/types"
	common2 "github.com/elastos/Elastos.ELA/core/types/common"
	"github.com/elastos/Elastos.ELA/core/types/interfaces"
	"github.com/elastos/Elastos.ELA/elanet/bloom"
	"github.com/elastos/Elastos.ELA/elanet/filter"
	"github.com/elastos/Elastos.ELA/p2p/msg"

	"verif/sim/core"
)

type Engine struct{}

func (Engine) Name() string { return "spvsim" }

func (Engine) Components() ([]string, []string) {
	return []string{
			"elanet/bloom Filter (Add/AddHash/AddOutPoint/Matches/MatchesOutPoint/MatchTxAndUpdate), MurmurHash3, NewFilter/LoadFilter",
			"elanet/bloom TxFilter behind elanet/filter.Filter (Load/Add/MatchConfirmed) - the production serving path",
			"elanet/filter.NewMerkleBlock + bloom.NewMerkleBlock/MBlock.TraverseAndBuild (both, cross-checked)",
			"bloom.CheckMerkleBlock + filter.CheckMerkleBlock (both), bloom.GetTxMerkleBranch, auxpow.GetMerkleRoot",
			"p2p/msg FilterLoad, FilterAdd, TxFilterLoad, MerkleBlock wire encoding (every delivery is encoded and decoded)",
			"core/transaction (CoinBase, TransferAsset), core/types Block/Header, crypto.ComputeRoot, auxpow.GenerateAuxPow",
		}, []string{
			"chain = list of real blocks of real transactions, no database, no consensus validation, unsigned programs",
			"SPV client header chain = harness table of block hashes (a full substitution by a Byzantine server is rejected by that stub, everything else by the real code)",
			"link = in-engine queue; corruption/truncation/duplication/transplant decided by the plan",
			"peer message dispatch (elanet/server.go OnFilterLoad/OnFilterAdd/pushMerkleBlockMsg) mirrored by ~30 harness lines",
		}
}

// Watch is one item the client asks to be told about.
type Watch struct {
	K string `json:"k"` // addr | out | tx | raw
	I int    `json:"i"` // addr: address index; out: k-th unspent output; tx: block (mod height+1)
	J int    `json:"j,omitempty"` // tx: transaction index in that block (mod count); raw: length
}

// LinkFault is one corrupted copy of a served merkleblock message.
type LinkFault struct {
	Kind string `json:"kind"`
	A    int    `json:"a,omitempty"`
	B    int    `json:"b,omitempty"`
}

// Step is one simulator step.
type Step struct {
	Op string `json:"op"` // block | reorg | filter | add | clear | serve | direct

	Txs  []TxSpec `json:"txs,omitempty"`  // block, reorg
	Keep []int    `json:"keep,omitempty"` // reorg: transactions of the replaced block to re-include

	// filter / direct
	Via    string  `json:"via,omitempty"` // raw | new | ref
	Size   int     `json:"size,omitempty"`
	K      int     `json:"hk,omitempty"`
	Tweak  uint32  `json:"tweak,omitempty"`
	Flag   int     `json:"flag,omitempty"`
	Elems  int     `json:"elems,omitempty"` // NewFilter(elements,...)
	FpExp  int     `json:"fpexp,omitempty"` // NewFilter fprate = 10^-FpExp (0: 0.5)
	Types  []int   `json:"types,omitempty"`
	Watch  []Watch `json:"watch,omitempty"`

	// serve
	From   int         `json:"from,omitempty"`
	N      int         `json:"n,omitempty"`
	Faults []LinkFault `json:"faults,omitempty"`
	Enum   bool        `json:"enum,omitempty"`
}

// leafFlagsAuthenticated: a partial merkle tree commits to hashes only. The
// flag bit of a leaf ("this txid is one you asked for") is not covered by the
// root, so flipping it yields a message that verifies against the same root
// with that one transaction added to / dropped from the reported set. That is
// inherent to the BIP37 format (any server can always add or omit matches).
// The engine therefore checks that such a flip changes the set by exactly that
// one genuine transaction of the block and counts it, instead of raising a
// violation. Set to true to treat every accepted set difference as a violation.
const leafFlagsAuthenticated = false

type run struct {
	c      *core.Ctx
	w      *world
	node   *nodeActor
	model  watchModel
	ref    *refBloom // reference filter mirroring what the client added (nil for side-chain filters)
	cliF   *bloom.Filter
	served int
}

func (e Engine) Execute(c *core.Ctx) {
	core.Bubble(c.T, func() { execute(c) })
}

func execute(c *core.Ctx) {
	if s := refSelfTest(); s != "" {
		panic("harness: " + s)
	}
	p := c.Plan
	steps := make([]Step, len(p.Steps))
	for i, raw := range p.Steps {
		if err := json.Unmarshal(raw, &steps[i]); err != nil {
			panic(fmt.Sprintf("bad step %d: %v", i, err))
		}
	}
	n := len(p.Steps)
	if n > 10 {
		n = 10
	}
	c.SetSample(map[string]interface{}{"meta": p.Meta, "steps": p.Steps[:n]})
	r := &run{c: c, w: newWorld(p.Seed)}
	r.node = &nodeActor{w: r.w}
	r.model.reset()
	c.Logf("genesis %s ntx=%d", short(r.w.chain[0].hash), len(r.w.chain[0].ids))
	for i := range steps {
		if c.Violated() {
			return
		}
		c.CurStep = i
		st := &steps[i]
		switch st.Op {
		case "block":
			sb := r.w.connect(st.Txs, nil)
			c.Logf("block h=%d ntx=%d %s root=%s", r.w.height(), len(sb.ids), short(sb.hash), short(sb.blk.MerkleRoot))
			r.checkRoot(sb)
		case "reorg":
			r.reorg(st)
		case "filter":
			r.loadFilter(st)
		case "add":
			r.filterAdd(st)
		case "clear":
			r.node.clear()
			r.model.reset()
			r.ref, r.cliF = nil, nil
			c.Logf("filterclear")
		case "serve":
			r.serve(st)
		case "servetip":
			n := st.N
			if n < 1 {
				n = 1
			}
			if n > len(r.w.chain) {
				n = len(r.w.chain)
			}
			st.From = len(r.w.chain) - n
			r.serve(st)
		case "zerosize":
			r.zeroSize(st)
		case "direct":
			r.direct(st)
		}
	}
}

func short(h common.Uint256) string { return fmt.Sprintf("%x", h[:4]) }

// checkRoot: the header's merkle root (crypto.ComputeRoot, as block assembly
// computes it) against the reference tree.
func (r *run) checkRoot(sb *simBlock) {
	r.c.Check()
	if ref := refMerkleRoot(sb.ids); ref != sb.blk.MerkleRoot {
		r.c.Violate("C08", "header-root", "C08/computeroot-differs-from-reference", "crypto.ComputeRoot over %d txids gives %x, reference merkle tree gives %x", len(sb.ids), sb.blk.MerkleRoot[:], ref[:])
	}
}

func (r *run) reorg(st *Step) {
	c := r.c
	old := r.w.disconnectTip()
	if old == nil {
		c.Logf("reorg skipped (genesis)")
		return
	}
	var keep []interfaces.Transaction
	seen := map[int]bool{}
	for _, k := range st.Keep {
		n := len(old.blk.Transactions) - 1
		if n <= 0 {
			break
		}
		i := 1 + k%n
		if !seen[i] {
			seen[i] = true
			keep = append(keep, old.blk.Transactions[i])
		}
	}
	sb := r.w.connect(st.Txs, keep)
	c.Fault("reorg")
	c.Logf("reorg h=%d old=%s(ntx=%d) new=%s(ntx=%d) kept<=%d", r.w.height(), short(old.hash), len(old.ids), short(sb.hash), len(sb.ids), len(keep))
	r.checkRoot(sb)
}

// ---------------------------------------------------------------------------
// node actor: mirrors elanet/server.go's handlers around the real filter.
// ---------------------------------------------------------------------------

type nodeActor struct {
	w    *world
	f    *filter.Filter // production wrapper, as NetServer creates it per peer
	twin *bloom.Filter  // same filter bytes driven through bloom.NewMerkleBlock in lock-step
}

func (n *nodeActor) onFilterLoad(wire []byte) error {
	var fl msg.FilterLoad
	if err := fl.Deserialize(bytes.NewReader(wire)); err != nil {
		return err
	}
	// OnFilterLoad: re-serialise and load as a bloom TxFilter
	buf := new(bytes.Buffer)
	if err := fl.Serialize(buf); err != nil {
		return err
	}
	n.f = filter.New(func(typ uint8) filter.TxFilter {
		if typ == filter.FTBloom {
			return bloom.NewTxFilter()
		}
		return nil
	})
	if err := n.f.Load(&msg.TxFilterLoad{Type: filter.FTBloom, Data: buf.Bytes()}); err != nil {
		n.f = nil
		return err
	}
	var fl2 msg.FilterLoad
	if err := fl2.Deserialize(bytes.NewReader(wire)); err != nil {
		return err
	}
	n.twin = bloom.LoadFilter(&fl2)
	return nil
}

func (n *nodeActor) clear() { n.f, n.twin = nil, nil }

func (n *nodeActor) loaded() bool { return n.f != nil && n.f.IsLoaded() }

func (n *nodeActor) real() *bloom.Filter {
	return n.f.Filter().(*bloom.TxFilter).VerifFilter()
}

func (n *nodeActor) onFilterAdd(wire []byte) error {
	var fa msg.FilterAdd
	if err := fa.Deserialize(bytes.NewReader(wire)); err != nil {
		return err
	}
	if err := n.f.Add(fa.Data); err != nil {
		return err
	}
	n.twin.Add(fa.Data)
	return nil
}

// cloneFilter returns an independent copy of the node's current filter state.
func (n *nodeActor) cloneFilter() *bloom.Filter {
	m := n.real().GetFilterLoadMsg()
	cp := *m
	cp.Filter = append([]byte(nil), m.Filter...)
	return bloom.LoadFilter(&cp)
}

func encodeMerkleBlock(m *msg.MerkleBlock) []byte {
	buf := new(bytes.Buffer)
	if err := m.Serialize(buf); err != nil {
		panic(fmt.Sprintf("harness: merkleblock serialize: %v", err))
	}
	return buf.Bytes()
}

func decodeMerkleBlock(wire []byte) (*msg.MerkleBlock, error) {
	m := &msg.MerkleBlock{Header: &common2.Header{}}
	rd := bytes.NewReader(wire)
	if err := m.Deserialize(rd); err != nil {
		return nil, err
	}
	if rd.Len() != 0 {
		return nil, fmt.Errorf("trailing bytes")
	}
	return m, nil
}

func copyMB(m *msg.MerkleBlock) *msg.MerkleBlock {
	h := *(m.Header.(*common2.Header))
	cp := &msg.MerkleBlock{Header: &h, Transactions: m.Transactions, Flags: append([]byte(nil), m.Flags...)}
	for _, x := range m.Hashes {
		y := *x
		cp.Hashes = append(cp.Hashes, &y)
	}
	return cp
}

// ---------------------------------------------------------------------------
// client side verification (real code) with panic containment
// ---------------------------------------------------------------------------

type verdict struct {
	err    error
	ids    []common.Uint256
	panicv interface{}
}

func checkReal(m *msg.MerkleBlock, which int) (v verdict) {
	defer func() {
		if x := recover(); x != nil {
			v.panicv = x
			v.err = fmt.Errorf("panic: %v", x)
		}
	}()
	var ids []*common.Uint256
	var err error
	if which == 0 {
		ids, err = bloom.CheckMerkleBlock(*m)
	} else {
		ids, err = filter.CheckMerkleBlock(*m)
	}
	v.err = err
	if err == nil {
		for _, id := range ids {
			v.ids = append(v.ids, *id)
		}
	}
	return
}

func sameIDs(a, b []common.Uint256) bool {
	if len(a) != len(b) {
		return false
	}
	for i := range a {
		if a[i] != b[i] {
			return false
		}
	}
	return true
}

func branchRoot(m *msg.MerkleBlock, id common.Uint256) (root common.Uint256, depth int, err error) {
	defer func() {
		if x := recover(); x != nil {
			err = fmt.Errorf("panic: %v", x)
		}
	}()
	mb, e := bloom.GetTxMerkleBranch(*m, &id)
	if e != nil {
		return root, 0, e
	}
	return auxpow.GetMerkleRoot(id, mb.Branches, mb.Index), len(mb.Branches), nil
}

var _ = types.Block{}

// zeroSize: a filterload with an empty bit field but hash functions > 0 is
// outside the property (there is no bit to set, so "what was added matches"
// cannot hold in any implementation) - the engine only records what the real
// code does with it (see NOTES.md: the answer is an integer-divide-by-zero panic).
func (r *run) zeroSize(st *Step) {
	k := uint32(st.K)
	if k == 0 {
		k = 1
	}
	f := bloom.LoadFilter(&msg.FilterLoad{Filter: []byte{}, HashFuncs: k, Tweak: st.Tweak})
	outcome := "no-panic"
	func() {
		defer func() {
			if x := recover(); x != nil {
				outcome = "panic"
			}
		}()
		f.Matches([]byte{1, 2, 3})
	}()
	r.c.Probe("zero-size-filter-with-hashfuncs-" + outcome)
	if outcome == "panic" {
		r.c.Note("outside C39: a filterload with an empty filter and HashFuncs>0 makes Filter.Matches/Add/MatchTxAndUpdate panic (integer divide by zero in Filter.hash)")
	}
	r.c.Logf("zerosize k=%d -> %s", k, outcome)
}
