package spvsim

import (
	"crypto/sha256"
	"encoding/binary"

	"github.com/elastos/Elastos.ELA/common"
)

// ---------------------------------------------------------------------------
// Reference models. Everything in this file is written from the protocol
// descriptions (BIP37 as adapted by Elastos: the comments of
// elanet/bloom/filter.go; Bitcoin's merkle tree rule "an odd row duplicates its
// last node"; the public MurmurHash3 x86_32 algorithm) and calls nothing of
// the code under test.
// ---------------------------------------------------------------------------

func sha256d(b []byte) (h common.Uint256) {
	a := sha256.Sum256(b)
	h = sha256.Sum256(a[:])
	return
}

func refParent(l, r common.Uint256) common.Uint256 {
	var b [64]byte
	copy(b[:32], l[:])
	copy(b[32:], r[:])
	return sha256d(b[:])
}

// refMerkleRoot: root of the transaction tree (one tx: the txid itself).
func refMerkleRoot(ids []common.Uint256) common.Uint256 {
	row := append([]common.Uint256(nil), ids...)
	for len(row) > 1 {
		var next []common.Uint256
		for i := 0; i < len(row); i += 2 {
			if i+1 < len(row) {
				next = append(next, refParent(row[i], row[i+1]))
			} else {
				next = append(next, refParent(row[i], row[i]))
			}
		}
		row = next
	}
	return row[0]
}

// refMurmur3 is MurmurHash3_x86_32 (Austin Appleby's public-domain algorithm).
func refMurmur3(seed uint32, data []byte) uint32 {
	h := seed
	n := len(data) / 4
	for i := 0; i < n; i++ {
		k := binary.LittleEndian.Uint32(data[4*i:])
		k *= 0xcc9e2d51
		k = k<<15 | k>>17
		k *= 0x1b873593
		h ^= k
		h = h<<13 | h>>19
		h = h*5 + 0xe6546b64
	}
	var k uint32
	t := data[4*n:]
	if len(t) >= 3 {
		k ^= uint32(t[2]) << 16
	}
	if len(t) >= 2 {
		k ^= uint32(t[1]) << 8
	}
	if len(t) >= 1 {
		k ^= uint32(t[0])
		k *= 0xcc9e2d51
		k = k<<15 | k>>17
		k *= 0x1b873593
		h ^= k
	}
	h ^= uint32(len(data))
	h ^= h >> 16
	h *= 0x85ebca6b
	h ^= h >> 13
	h *= 0xc2b2ae35
	h ^= h >> 16
	return h
}

// murmurVectors are the MurmurHash3 vectors of Bitcoin Core's hash_tests
// (expected, seed, hex data); checked once per process so that a slip in the
// reference itself shows as a harness error, not as a finding.
var murmurVectors = []struct {
	want, seed uint32
	data       []byte
}{
	{0x00000000, 0x00000000, nil},
	{0x6a396f08, 0xFBA4C795, nil},
	{0x81f16f39, 0xffffffff, nil},
	{0x514e28b7, 0x00000000, []byte{0x00}},
	{0xea3f0b17, 0xFBA4C795, []byte{0x00}},
	{0xfd6cf10d, 0x00000000, []byte{0xff}},
	{0x16c6b7ab, 0x00000000, []byte{0x00, 0x11}},
	{0x8eb51c3d, 0x00000000, []byte{0x00, 0x11, 0x22}},
	{0xb4471bf8, 0x00000000, []byte{0x00, 0x11, 0x22, 0x33}},
	{0xe2301fa8, 0x00000000, []byte{0x00, 0x11, 0x22, 0x33, 0x44}},
	{0xfc2e4a15, 0x00000000, []byte{0x00, 0x11, 0x22, 0x33, 0x44, 0x55}},
	{0xb074502c, 0x00000000, []byte{0x00, 0x11, 0x22, 0x33, 0x44, 0x55, 0x66}},
	{0x8034d2a0, 0x00000000, []byte{0x00, 0x11, 0x22, 0x33, 0x44, 0x55, 0x66, 0x77}},
	{0xb4698def, 0x00000000, []byte{0x00, 0x11, 0x22, 0x33, 0x44, 0x55, 0x66, 0x77, 0x88}},
}

func refSelfTest() string {
	for _, v := range murmurVectors {
		if got := refMurmur3(v.seed, v.data); got != v.want {
			return "reference murmur3 fails its published vector"
		}
	}
	return ""
}

// refBloom is a BIP37 filter: nHashFuncs hash functions, the i-th being
// murmur3 with seed i*0xFBA4C795+nTweak, modulo the number of bits; bit b lives
// in byte b>>3 at position b&7.
type refBloom struct {
	bits  []byte
	k     uint32
	tweak uint32
}

func (b *refBloom) pos(i uint32, data []byte) uint32 {
	return refMurmur3(i*0xFBA4C795+b.tweak, data) % (uint32(len(b.bits)) * 8)
}

func (b *refBloom) add(data []byte) {
	if len(b.bits) == 0 {
		return
	}
	for i := uint32(0); i < b.k; i++ {
		p := b.pos(i, data)
		b.bits[p>>3] |= 1 << (p & 7)
	}
}

func (b *refBloom) has(data []byte) bool {
	if len(b.bits) == 0 {
		return b.k == 0
	}
	for i := uint32(0); i < b.k; i++ {
		p := b.pos(i, data)
		if b.bits[p>>3]&(1<<(p&7)) == 0 {
			return false
		}
	}
	return true
}

// BIP37 nFlags values.
const (
	updNone        = 0
	updAll         = 1
	updP2PubKeyOnly = 2
)

// watchModel is what the light client asked to be told about, and what the
// protocol says the serving node has to add by itself while it filters.
type watchModel struct {
	loaded    bool
	flag      int
	sidechain bool // Elastos adaptation: nTweak == 0xffffffff selects the side-chain filter
	noBits    bool // the filter's bit field is empty (side-chain mode: a type-only filter)
	types     []byte
	elems     [][]byte // everything the client added, in order (raw element bytes)
	auto      [][]byte // outpoints the node has to have added (per flag), in order
	set       map[string]int // element -> kind bit mask (lookup only, never iterated)
}

const (
	kAddr = 1
	kOut  = 2
	kTx   = 4
	kAuto = 8
)

func (w *watchModel) reset() {
	*w = watchModel{set: map[string]int{}}
}

func (w *watchModel) add(kind int, e []byte) {
	k := string(e)
	if w.set[k]&kind != 0 {
		return
	}
	if w.set[k] == 0 && kind != kAuto {
		w.elems = append(w.elems, append([]byte(nil), e...))
	}
	if kind == kAuto {
		w.auto = append(w.auto, append([]byte(nil), e...))
	}
	w.set[k] |= kind
}

func (w *watchModel) is(kind int, e []byte) bool { return w.set[string(e)]&kind != 0 }

// txView is the model's view of a transaction: what BIP37 looks at.
type txView struct {
	id      common.Uint256
	typ     byte
	outAddr [][]byte // program hash of each output (21 bytes)
	outMS   []bool   // output pays to a multi-signature program hash
	in      [][]byte // serialized outpoint of each input (txid || uint16 index)
}

func outpointBytes(id common.Uint256, idx uint16) []byte {
	b := make([]byte, 34)
	copy(b, id[:])
	binary.LittleEndian.PutUint16(b[32:], idx)
	return b
}

// relevant says whether the protocol obliges the node to report tx, and applies
// the update the protocol obliges the node to make. why is a short tag.
//
//   - the transaction's id was added                       (BIP37 test 1)
//   - an output pays to an added address (program hash)    (BIP37 test 2, data
//     elements of the output script; here: the program hash), and then, per
//     nFlags, the outpoint of that output is to be inserted
//   - an input spends an added or inserted outpoint        (BIP37 test 3)
//
// Side-chain filters (tweak 0xffffffff) are specified in filter.go as: match
// by transaction type, or by output program hash; nothing else, no update.
func (w *watchModel) relevant(t *txView) (bool, string) {
	if !w.loaded {
		return false, ""
	}
	if w.sidechain {
		for _, ty := range w.types {
			if ty == t.typ {
				return true, "type"
			}
		}
		if w.noBits {
			// filter.go: a side-chain filter without a bit field selects by
			// transaction type only; there is nothing an address could be stored in
			return false, ""
		}
		for _, a := range t.outAddr {
			if w.is(kAddr, a) {
				return true, "addr"
			}
		}
		return false, ""
	}
	rel, why := false, ""
	if w.is(kTx, t.id[:]) {
		rel, why = true, "txid"
	}
	for i, a := range t.outAddr {
		if !w.is(kAddr, a) {
			continue
		}
		if !rel {
			rel, why = true, "addr"
		}
		if w.flag == updAll || (w.flag == updP2PubKeyOnly && t.outMS[i]) {
			w.add(kAuto, outpointBytes(t.id, uint16(i)))
		}
	}
	if rel {
		return true, why
	}
	for _, op := range t.in {
		if w.is(kOut, op) {
			return true, "outpoint"
		}
		if w.is(kAuto, op) {
			return true, "auto-outpoint"
		}
	}
	return false, ""
}
