package spvsim

import (
	"math"

	"verif/sim/core"
)

// Generate draws the whole run. Profiles:
//
//	C08  few blocks with transaction counts 1..33, filters built to produce a
//	     chosen match pattern over one block, that block served with a list of
//	     link/Byzantine faults and (blocks <= 16 txs) full single-bit enumeration
//	C39  longer histories: filters of every size/hash count/tweak/update flag,
//	     watched addresses/outpoints/txids, blocks, rescans, filteradd and
//	     filter reloads in mid-stream, reorganisations
func (Engine) Generate(r *core.Rng, property, tier string) *core.Plan {
	p := &core.Plan{Knobs: map[string]int64{}, Meta: map[string]string{}}
	g := &gen{r: r, p: p}
	if property == "C39" {
		g.bloomProfile(tier)
	} else {
		g.merkleProfile(tier)
	}
	return p
}

type gen struct {
	r *core.Rng
	p *core.Plan
}

var edgeCounts = []int{1, 2, 3, 4, 5, 6, 7, 8, 9, 15, 16, 17, 31, 32, 33, 33, 33}

func (g *gen) txCount(small bool) int {
	r := g.r
	switch r.Pick(4, 4, 2) {
	case 0:
		return r.Range(1, 16)
	case 1:
		if small {
			return r.Range(1, 16)
		}
		return r.Range(17, 33)
	default:
		n := edgeCounts[r.Intn(len(edgeCounts))]
		if small && n > 16 {
			n = n - 16
		}
		return n
	}
}

func (g *gen) specs(ntx int) []TxSpec {
	r := g.r
	var out []TxSpec
	for i := 1; i < ntx; i++ {
		s := TxSpec{V9: r.Bool(0.3)}
		for k := r.Pick(6, 3, 1) + 1; k > 0; k-- {
			// bias towards the newest outputs so that chains of spends form inside a block
			if r.Bool(0.5) {
				s.In = append(s.In, fromEnd+r.Intn(4))
			} else {
				s.In = append(s.In, r.Intn(1000))
			}
		}
		for k := r.Pick(3, 5, 2) + 1; k > 0; k-- {
			s.Out = append(s.Out, r.Intn(nStdAddr+nMultiAddr))
		}
		out = append(out, s)
	}
	return out
}

func (g *gen) fault() LinkFault {
	r := g.r
	kinds := []string{"hbit", "hbit", "hbit", "fbit", "fbit", "fbit", "trunch", "truncf", "duph", "appendh", "appendf", "swaph", "ntx", "transplant", "wrongblock", "hdrroot", "hdrnonce", "bytetrunc"}
	return LinkFault{Kind: kinds[r.Intn(len(kinds))], A: r.Intn(1 << 20), B: r.Intn(256)}
}

func (g *gen) tweak() uint32 {
	r := g.r
	switch r.Pick(90, 3, 3, 4) {
	case 1:
		return 0
	case 2:
		return math.MaxUint32 - 1
	case 3:
		return math.MaxUint32
	}
	return uint32(r.U64())
}

func (g *gen) hashFuncs() int {
	r := g.r
	switch r.Pick(2, 2, 6) {
	case 0:
		return 1
	case 1:
		return 50
	}
	return r.Range(1, 50)
}

// merkleProfile (C08).
func (g *gen) merkleProfile(tier string) {
	r := g.r
	faultFree := r.Bool(0.12)
	if faultFree {
		g.p.Meta["stratum"] = "fault-free"
	} else {
		g.p.Meta["stratum"] = "faulty-link"
	}
	nblocks := r.Range(2, 5)
	for i := 0; i < nblocks; i++ {
		g.p.Add(Step{Op: "block", Txs: g.specs(g.txCount(i%2 == 0))})
	}
	height := nblocks // blocks above genesis (a reorganisation keeps the height)
	rounds := r.Range(2, 5)
	if tier == "thorough" {
		rounds = r.Range(2, 9)
	}
	enums := 0
	for k := 0; k < rounds; k++ {
		b := 1 + r.Intn(height) // as long as no step is deleted this is block b
		if r.Bool(0.05) {
			b = 0
		}
		st := Step{Op: "filter", Via: "raw", Flag: r.Intn(3), Tweak: uint32(r.U64()) & 0x7fffffff, K: r.Range(3, 12), Size: int(r.LogUniform(4000, 36000))}
		switch r.Pick(5, 2, 2, 1, 2) {
		case 0: // random subset of the block's txids
			pr := []float64{0.08, 0.25, 0.5, 0.9}[r.Intn(4)]
			for j := 0; j < 33; j++ {
				if r.Bool(pr) {
					st.Watch = append(st.Watch, Watch{K: "tx", I: b, J: j})
				}
			}
		case 1: // addresses, node inserts outpoints
			for j := r.Range(1, 3); j > 0; j-- {
				st.Watch = append(st.Watch, Watch{K: "addr", I: r.Intn(8)})
			}
		case 2: // saturated filter: (nearly) everything matches
			st.Size, st.K = r.Range(1, 3), g.hashFuncs()
			for j := r.Range(1, 6); j > 0; j-- {
				st.Watch = append(st.Watch, Watch{K: "addr", I: r.Intn(8)})
			}
		case 3: // nothing watched: nothing matches
		case 4: // one transaction at an interesting position
			j := []int{0, 1, 32, 31, 15, 16, r.Intn(33)}[r.Intn(7)]
			st.Watch = append(st.Watch, Watch{K: "tx", I: b, J: j})
		}
		g.p.Add(st)
		sv := Step{Op: "serve", From: b, N: r.Pick(7, 2, 1) + 1}
		if !faultFree {
			for j := r.Range(3, 12); j > 0; j-- {
				sv.Faults = append(sv.Faults, g.fault())
			}
			if enums < 2 && r.Bool(0.6) {
				sv.Enum = true
				enums++
			}
		}
		g.p.Add(sv)
		if !faultFree && r.Bool(0.25) {
			ntx := g.txCount(true)
			rs := Step{Op: "reorg", Txs: g.specs(ntx)}
			for j := r.Intn(4); j > 0; j-- {
				rs.Keep = append(rs.Keep, r.Intn(32))
			}
			g.p.Add(rs)
			sv2 := Step{Op: "servetip", N: 1, Enum: enums < 2 && r.Bool(0.5)}
			for j := r.Range(2, 8); j > 0; j-- {
				sv2.Faults = append(sv2.Faults, g.fault())
			}
			if sv2.Enum {
				enums++
			}
			g.p.Add(sv2)
		}
		if r.Bool(0.3) {
			g.p.Add(Step{Op: "block", Txs: g.specs(g.txCount(r.Bool(0.5)))})
			height++
		}
	}
}

func (g *gen) watch() Watch {
	r := g.r
	switch r.Pick(50, 25, 15, 10) {
	case 0:
		return Watch{K: "addr", I: r.Intn(8)}
	case 1:
		return Watch{K: "out", I: r.Intn(1000)}
	case 2:
		return Watch{K: "tx", I: r.Intn(64), J: r.Intn(33)}
	}
	return Watch{K: "raw", I: r.Intn(1 << 20), J: []int{0, 1, 2, 3, 4, 5, 20, 21, 33, 34, 519, 520, r.Intn(521)}[r.Intn(13)]}
}

func (g *gen) filterStep(op string) Step {
	r := g.r
	st := Step{Op: op, Flag: r.Intn(3), Tweak: g.tweak(), K: g.hashFuncs()}
	switch r.Pick(60, 20, 20) {
	case 0:
		st.Via = "raw"
	case 1:
		st.Via = "new"
		st.Elems = int(r.LogUniform(1, 5000))
		st.FpExp = r.Intn(10)
	default:
		st.Via = "ref"
	}
	switch r.Pick(15, 25, 40, 20) {
	case 0:
		st.Size = r.Range(1, 4)
	case 1:
		st.Size = int(r.LogUniform(1, 256))
	case 2:
		st.Size = int(r.LogUniform(1, 36000))
	default:
		st.Size = []int{36000, 35999, 1, 8, 9, 255, 256, 257, 4096}[r.Intn(9)]
	}
	for j := r.Pick(1, 3, 3, 2, 2, 1, 1); j > 0; j-- {
		st.Watch = append(st.Watch, g.watch())
	}
	if st.Tweak == math.MaxUint32 {
		for j := r.Intn(3); j > 0; j-- {
			st.Types = append(st.Types, []int{0, 2, 2, 9}[r.Intn(4)])
		}
	}
	return st
}

// bloomProfile (C39).
func (g *gen) bloomProfile(tier string) {
	r := g.r
	for i := r.Range(1, 3); i > 0; i-- {
		g.p.Add(Step{Op: "block", Txs: g.specs(r.Range(1, 10))})
	}
	g.p.Add(g.filterStep("filter"))
	n := r.Range(10, 28)
	if tier == "thorough" {
		n = r.Range(10, 70)
	}
	quiet := r.Bool(0.1)
	if quiet {
		g.p.Meta["stratum"] = "fault-free"
	} else {
		g.p.Meta["stratum"] = "with-reloads-reorgs-rescans"
	}
	for i := 0; i < n; i++ {
		switch r.Pick(34, 8, 8, 30, 6, 8, 1, 2) {
		case 0:
			ntx := r.Range(1, 10)
			if r.Bool(0.1) {
				ntx = g.txCount(false)
			}
			g.p.Add(Step{Op: "block", Txs: g.specs(ntx)})
		case 1:
			if !quiet {
				g.p.Add(g.filterStep("filter"))
			}
		case 2:
			if !quiet {
				st := Step{Op: "add"}
				for j := r.Range(1, 3); j > 0; j-- {
					st.Watch = append(st.Watch, g.watch())
				}
				g.p.Add(st)
			}
		case 3:
			switch r.Pick(5, 3, 2) {
			case 0: // sync to the tip from somewhere
				g.p.Add(Step{Op: "serve", From: r.Intn(64), N: 64})
			case 1: // the newest blocks
				g.p.Add(Step{Op: "servetip", N: 1})
			default:
				g.p.Add(Step{Op: "serve", From: r.Intn(64), N: r.Range(1, 4)})
			}
		case 4:
			if !quiet {
				rs := Step{Op: "reorg", Txs: g.specs(r.Range(1, 8))}
				for j := r.Intn(4); j > 0; j-- {
					rs.Keep = append(rs.Keep, r.Intn(32))
				}
				g.p.Add(rs)
			}
		case 5:
			g.p.Add(g.filterStep("direct"))
		case 6:
			if !quiet {
				g.p.Add(Step{Op: "clear"})
			}
		case 7:
			g.p.Add(Step{Op: "zerosize", K: g.hashFuncs(), Tweak: g.tweak()})
		}
	}
	g.p.Add(Step{Op: "serve", From: 0, N: 64})
}
