package spvsim

import (
	"crypto/sha256"
	"encoding/binary"
	"fmt"

	"github.com/elastos/Elastos.ELA/account"
	"github.com/elastos/Elastos.ELA/auxpow"
	"github.com/elastos/Elastos.ELA/common"
	"github.com/elastos/Elastos.ELA/core"
	"github.com/elastos/Elastos.ELA/core/contract"
	pg "github.com/elastos/Elastos.ELA/core/contract/program"
	"github.com/elastos/Elastos.ELA/core/transaction"
	"github.com/elastos/Elastos.ELA/core/types"
	common2 "github.com/elastos/Elastos.ELA/core/types/common"
	"github.com/elastos/Elastos.ELA/core/types/interfaces"
	"github.com/elastos/Elastos.ELA/core/types/outputpayload"
	"github.com/elastos/Elastos.ELA/core/types/payload"
	"github.com/elastos/Elastos.ELA/crypto"
)

// The simulated chain: real transactions (coinbase + transfers that spend the
// outputs of earlier transactions) in real blocks with real headers and the
// real merkle root; no database and no consensus validation behind it.

type utxo struct {
	op   common2.OutPoint
	addr int
	val  int64
}

type simBlock struct {
	blk    *types.Block
	hash   common.Uint256
	ids    []common.Uint256
	views  []*txView
	before []utxo // utxo list before this block was connected (for reorganisation)
	specs  []TxSpec
}

type addrInfo struct {
	ph     common.Uint168
	code   []byte
	multi  bool
}

type world struct {
	seed   uint64
	addrs  []addrInfo
	chain  []*simBlock
	utxos  []utxo
	serial uint32 // distinguishes sibling blocks
}

// fromEnd: TxSpec.In values at or above it index the unspent outputs from the
// newest backwards (chains of spends inside one block).
const fromEnd = 1 << 20

const (
	nStdAddr   = 6
	nMultiAddr = 2
)

func seedBytes(seed uint64, tag string, i int) []byte {
	var b [16]byte
	binary.LittleEndian.PutUint64(b[:], seed)
	binary.LittleEndian.PutUint64(b[8:], uint64(i))
	h := sha256.Sum256(append(b[:], tag...))
	return h[:]
}

func newWorld(seed uint64) *world {
	w := &world{seed: seed}
	var pubs []*crypto.PublicKey
	for i := 0; i < nStdAddr; i++ {
		acc, err := account.NewAccountWithPrivateKey(seedBytes(seed, "key", i))
		if err != nil {
			panic(fmt.Sprintf("harness: account: %v", err))
		}
		w.addrs = append(w.addrs, addrInfo{ph: acc.ProgramHash, code: acc.RedeemScript})
		pubs = append(pubs, acc.PublicKey)
	}
	for i := 0; i < nMultiAddr; i++ {
		ct, err := contract.CreateMultiSigContract(2, pubs[i:i+3])
		if err != nil {
			panic(fmt.Sprintf("harness: multisig: %v", err))
		}
		w.addrs = append(w.addrs, addrInfo{ph: *ct.ToProgramHash(), code: ct.Code, multi: true})
	}
	// genesis: a coinbase paying every address twice
	w.connect(nil, nil)
	return w
}

func (w *world) height() int { return len(w.chain) - 1 }

func (w *world) output(addr int, val int64, v09 bool) *common2.Output {
	o := &common2.Output{AssetID: core.ELAAssetID, Value: common.Fixed64(val), ProgramHash: w.addrs[addr%len(w.addrs)].ph}
	if v09 {
		o.Type = common2.OTNone
		o.Payload = &outputpayload.DefaultOutput{}
	}
	return o
}

func (w *world) coinbase(height int, nout int) interfaces.Transaction {
	var content [12]byte
	binary.LittleEndian.PutUint32(content[:], uint32(height))
	binary.LittleEndian.PutUint32(content[4:], w.serial)
	var outs []*common2.Output
	for i := 0; i < nout; i++ {
		outs = append(outs, w.output((height+i)%len(w.addrs), 5_0000_0000, false))
	}
	return transaction.CreateTransaction(common2.TxVersionDefault, common2.CoinBase, payload.CoinBaseVersion,
		&payload.CoinBase{Content: content[:]}, []*common2.Attribute{},
		[]*common2.Input{{Previous: common2.OutPoint{TxID: common.EmptyHash, Index: 0xffff}, Sequence: 0xffffffff}},
		outs, uint32(height), []*pg.Program{})
}

// TxSpec describes one transfer: which of the current unspent outputs it
// spends (modular indexes) and whom it pays.
type TxSpec struct {
	In  []int `json:"in"`
	Out []int `json:"out"` // address indexes
	V9  bool  `json:"v9,omitempty"`
}

func (w *world) transfer(s TxSpec, height int) interfaces.Transaction {
	if len(w.utxos) == 0 || len(s.In) == 0 || len(s.Out) == 0 {
		return nil
	}
	var ins []*common2.Input
	var progs []*pg.Program
	var total int64
	seen := map[int]bool{}
	for _, k := range s.In {
		if len(w.utxos) == 0 {
			break
		}
		if k < 0 {
			k = -k
		}
		i := k % len(w.utxos)
		if k >= fromEnd { // counted from the newest output backwards
			i = len(w.utxos) - 1 - (k-fromEnd)%len(w.utxos)
		}
		u := w.utxos[i]
		w.utxos = append(w.utxos[:i:i], w.utxos[i+1:]...)
		ins = append(ins, &common2.Input{Previous: u.op, Sequence: 0})
		total += u.val
		if !seen[u.addr] {
			seen[u.addr] = true
			// signatures are not part of a transaction's identity and nothing here
			// validates them: the program carries the real redeem script only.
			progs = append(progs, &pg.Program{Code: w.addrs[u.addr].code, Parameter: []byte{}})
		}
	}
	fee := int64(100)
	if total <= fee {
		fee = 0
	}
	each := (total - fee) / int64(len(s.Out))
	var outs []*common2.Output
	for _, a := range s.Out {
		if a < 0 {
			a = -a
		}
		outs = append(outs, w.output(a, each, s.V9))
	}
	ver := common2.TxVersionDefault
	if s.V9 {
		ver = common2.TxVersion09
	}
	return transaction.CreateTransaction(ver, common2.TransferAsset, 0, &payload.TransferAsset{},
		[]*common2.Attribute{}, ins, outs, 0, progs)
}

func (w *world) view(tx interfaces.Transaction) *txView {
	v := &txView{id: tx.Hash(), typ: byte(tx.TxType())}
	for _, o := range tx.Outputs() {
		v.outAddr = append(v.outAddr, append([]byte(nil), o.ProgramHash[:]...))
		v.outMS = append(v.outMS, contract.GetPrefixType(o.ProgramHash) == contract.PrefixMultiSig)
	}
	for _, in := range tx.Inputs() {
		v.in = append(v.in, outpointBytes(in.Previous.TxID, in.Previous.Index))
	}
	return v
}

func (w *world) addrIndex(ph common.Uint168) int {
	for i := range w.addrs {
		if w.addrs[i].ph == ph {
			return i
		}
	}
	return 0
}

// connect builds a block on the current tip from the specs (plus, for a
// sibling block, transactions re-included from the replaced block) and appends
// it. The transaction count is 1 + number of buildable transfers.
func (w *world) connect(specs []TxSpec, reinclude []interfaces.Transaction) *simBlock {
	height := len(w.chain)
	w.serial++
	sb := &simBlock{before: append([]utxo(nil), w.utxos...), specs: specs}
	ncb := 2
	if height == 0 {
		ncb = 2 * (nStdAddr + nMultiAddr)
	}
	txs := []interfaces.Transaction{w.coinbase(height, ncb)}
	addOutputs := func(tx interfaces.Transaction) {
		id := tx.Hash()
		for i, o := range tx.Outputs() {
			w.utxos = append(w.utxos, utxo{op: common2.OutPoint{TxID: id, Index: uint16(i)}, addr: w.addrIndex(o.ProgramHash), val: int64(o.Value)})
		}
	}
	addOutputs(txs[0])
	for _, tx := range reinclude {
		// still valid on the new branch only if every input is unspent there
		ok := true
		var at []int
		for _, in := range tx.Inputs() {
			found := -1
			for i := range w.utxos {
				if w.utxos[i].op == in.Previous {
					found = i
					break
				}
			}
			if found < 0 {
				ok = false
				break
			}
			at = append(at, found)
		}
		if !ok {
			continue
		}
		for _, in := range tx.Inputs() {
			for i := range w.utxos {
				if w.utxos[i].op == in.Previous {
					w.utxos = append(w.utxos[:i:i], w.utxos[i+1:]...)
					break
				}
			}
		}
		_ = at
		txs = append(txs, tx)
		addOutputs(tx)
	}
	for _, s := range specs {
		if len(txs) >= 33 {
			break
		}
		tx := w.transfer(s, height)
		if tx == nil {
			continue
		}
		txs = append(txs, tx)
		addOutputs(tx)
	}
	var ids []common.Uint256
	for _, tx := range txs {
		ids = append(ids, tx.Hash())
		sb.views = append(sb.views, w.view(tx))
	}
	root, err := crypto.ComputeRoot(ids)
	if err != nil {
		panic(fmt.Sprintf("harness: merkle root: %v", err))
	}
	hdr := common2.Header{Version: 0, MerkleRoot: root, Timestamp: uint32(1546300800 + 120*height), Bits: 0x207fffff, Nonce: w.serial, Height: uint32(height)}
	if height > 0 {
		hdr.Previous = w.chain[height-1].hash
	}
	hdr.AuxPow = *auxpow.GenerateAuxPow(hdr.Hash())
	sb.blk = &types.Block{Header: hdr, Transactions: txs}
	sb.hash = hdr.Hash()
	sb.ids = ids
	w.chain = append(w.chain, sb)
	return sb
}

// disconnectTip removes the tip block (never the genesis block).
func (w *world) disconnectTip() *simBlock {
	if len(w.chain) < 2 {
		return nil
	}
	old := w.chain[len(w.chain)-1]
	w.chain = w.chain[:len(w.chain)-1]
	w.utxos = append([]utxo(nil), old.before...)
	return old
}
