// Package randsim is the C24 engine: a cooperative scheduler interleaves the
// real DPoS arbiter selection (task A) with real users of the process-global
// math/rand source (tasks B, C) at the yield point between rand.Seed and
// rand.Intn, enumerates the schedules, and demands that A's result is a
// function of chain data only.
package randsim

import (
	"encoding/hex"
	"encoding/json"
	"fmt"
	"hash/fnv"
	"math/rand"
	"sort"
	"strings"
	"time"

	"github.com/elastos/Elastos.ELA/database/ffldb"
	"github.com/elastos/Elastos.ELA/dpos/state"
	"github.com/elastos/Elastos.ELA/utils/verifhook"

	"verif/sim/core"
)

type Engine struct{}

func (Engine) Name() string { return "randsim" }

func (Engine) Components() ([]string, []string) {
	return []string{
			"dpos/state.Arbiters.getCandidateIndexAtRandom / getSortedProducersWithRandom / getSortedProducers / getSortedProducersDposV2 / getRandomDposV2Producers (via verif export)",
			"dpos/state.State.ProcessBlock (producer registration, activation, votes) building the chain state",
			"process-global math/rand source (godebug default=go1.20: rand.Seed really seeds)",
			"database/internal/treap Mutable.Put (draws its node priority from the global source) as task B",
			"core/types Header.Hash (selection seed derives from the previous block hash)",
		}, []string{
			"tasks B/C other than treap: the single statements rand.Uint64() (pow/service.go coinbase nonce), rand.Int63() (p2p/server version nonce), rand.Read(8) (p2p/peer ping nonce), rand.Intn(n) (p2p/addrmgr shuffle) are mirrored, not driven through a network",
			"scheduler: logical tasks are goroutines released one at a time; the only preemption point inside A is verifhook.Yield between rand.Seed and rand.Intn",
			"blocks: only headers (hash source); CR committee is a real but empty Committee, the unclaimed-node count is supplied as chain data",
			"clock = testing/synctest fake clock",
		}
}

// Item is one plan step.
//
//	kind "a"    one operation of task A (the arbiter selection): Op = index | sorted
//	kind "op"   one operation of task B or C, offered at A-operation At (mod #A ops):
//	            Where = "yield": inside A's Seed..Intn window if the schedule switches there,
//	                              otherwise right after that A operation (same work, other interleaving)
//	            Where = "between": always at the task boundary before that A operation
//	kind "mask" an explicit schedule (bit i = switch at the i-th window that has yield items);
//	            used only when there are more than 6 windows
type Item struct {
	Kind  string `json:"kind"`
	Op    string `json:"op,omitempty"`
	At    int    `json:"at,omitempty"`
	Where string `json:"where,omitempty"`
	Task  string `json:"task,omitempty"`
	N     int    `json:"n,omitempty"`
	DH    int    `json:"dh,omitempty"` // A op: height offset from the base height
	Mask  uint64 `json:"mask,omitempty"`
}

func (Engine) Generate(r *core.Rng, property, tier string) *core.Plan {
	p := &core.Plan{Knobs: map[string]int64{}, Meta: map[string]string{}}
	normal := r.Range(2, 8)
	cands := r.Range(1, 12)
	unclaimed := r.Pick(6, 2, 1)
	p.SetKnob("chainseed", int64(r.U64()>>1))
	p.SetKnob("normal", int64(normal))
	p.SetKnob("cands", int64(cands))
	p.SetKnob("unclaimed", int64(unclaimed))
	// enough voted producers for a real choice most of the time; sometimes too few
	lo := unclaimed + normal - 1
	p.SetKnob("nprod", int64(r.Range(lo, lo+cands+6)))
	p.SetKnob("ncrc", int64(r.Range(1, 4)))
	p.SetKnob("height", int64(r.Range(100, 2_000_000)))
	p.SetKnob("period", int64(r.Pick(3, 1, 1)*r.Range(0, 400)))
	if r.Bool(0.3) {
		p.SetKnob("ties", 1)
	}
	p.SetKnob("gseed", int64(r.U64()>>1)) // pin of the global source for the schedule phase
	p.SetKnob("pinA", int64(r.U64()>>1))  // second clause: two different pins
	p.SetKnob("pinB", int64(r.U64()>>1))
	p.SetKnob("clockA", int64(r.Range(0, 86400*365)))
	p.SetKnob("clockB", int64(r.Range(0, 86400*365)))
	p.SetKnob("ncr", int64(r.Range(0, 14)))
	p.SetKnob("nv2", int64(r.Range(0, 12)))

	na := r.Range(1, 6)
	if tier == "thorough" && r.Bool(0.3) {
		na = r.Range(7, 10) // more than 6 windows: schedules sampled, not enumerated
	}
	for i := 0; i < na; i++ {
		op := "index"
		if r.Bool(0.4) {
			op = "sorted"
		}
		p.Add(Item{Kind: "a", Op: op, DH: r.Range(0, 50)})
	}
	// fault-free stratum: B and C run only at task boundaries
	boundaryOnly := r.Bool(0.2)
	if boundaryOnly {
		p.Meta["stratum"] = "boundary-only"
	} else {
		p.Meta["stratum"] = "yield-switches"
	}
	ops := []string{"treap-put", "treap-put", "pow-nonce", "p2p-nonce", "peer-nonce", "addr-shuffle", "treap-overwrite"}
	nops := r.Range(1, 3*na)
	for i := 0; i < nops; i++ {
		it := Item{Kind: "op", At: r.Intn(na), Where: "yield", Task: "B", Op: ops[r.Intn(len(ops))], N: r.Range(1, 4)}
		if !strings.HasPrefix(it.Op, "treap") {
			it.Task = "C"
		}
		if boundaryOnly || r.Bool(0.25) {
			it.Where = "between"
		}
		p.Add(it)
	}
	if na > 6 {
		for i := 0; i < 48; i++ {
			p.Add(Item{Kind: "mask", Mask: r.U64() & (1<<uint(na) - 1)})
		}
	}
	return p
}

// task is a logical task of the simulated node: a goroutine that runs one
// operation each time the scheduler releases it.
type task struct {
	run  chan func()
	done chan struct{}
}

func newTask() *task {
	t := &task{run: make(chan func()), done: make(chan struct{})}
	go func() {
		for f := range t.run {
			f()
			t.done <- struct{}{}
		}
	}()
	return t
}

func (t *task) step(f func()) { t.run <- f; <-t.done }
func (t *task) stop()         { close(t.run) }

// world is the state of tasks B and C within one schedule.
type world struct {
	treap *ffldb.VerifMutable
	keyN  int
	draws int // operations that drew from the global source
}

// doOp performs one operation of B or C; returns whether it drew from the
// process-global source.
func (w *world) doOp(it Item) bool {
	drew := false
	for i := 0; i < it.N; i++ {
		switch it.Op {
		case "treap-put": // database/internal/treap/mutable.go: rand.Int() for every new key
			w.keyN++
			w.treap.Put([]byte(fmt.Sprintf("key-%06d", w.keyN)), []byte{1})
			drew = true
		case "treap-overwrite": // existing key: no priority drawn (control: a switch without a draw)
			if w.keyN == 0 {
				w.keyN++
				w.treap.Put([]byte(fmt.Sprintf("key-%06d", w.keyN)), []byte{1})
				drew = true
			} else {
				w.treap.Put([]byte(fmt.Sprintf("key-%06d", w.keyN)), []byte{2})
			}
		case "pow-nonce": // pow/service.go CreateCoinbaseTx
			_ = rand.Uint64()
			drew = true
		case "p2p-nonce": // p2p/server/server.go
			_ = uint64(rand.Int63())
			drew = true
		case "peer-nonce": // p2p/peer/peer.go
			var nonce [8]byte
			rand.Read(nonce[:])
			drew = true
		case "addr-shuffle": // p2p/addrmgr AddressCache
			_ = rand.Intn(23)
			drew = true
		}
	}
	if drew {
		w.draws++
	}
	return drew
}

// result of one A operation, comparable and loggable.
type aResult string

func keysDigest(ps []*state.Producer) string {
	h := fnv.New64a()
	for _, p := range ps {
		h.Write(p.OwnerPublicKey())
	}
	first := ""
	if len(ps) > 0 {
		first = hex.EncodeToString(ps[0].OwnerPublicKey()[:4])
	}
	return fmt.Sprintf("n=%d first=%s h=%016x", len(ps), first, h.Sum64())
}

func strsDigest(ss []string) string {
	h := fnv.New64a()
	for _, s := range ss {
		h.Write([]byte(s))
		h.Write([]byte{0})
	}
	return fmt.Sprintf("n=%d h=%016x", len(ss), h.Sum64())
}

type sched struct {
	c       *core.Ctx
	k       *chain
	aops    []Item
	yield   map[int][]Item // A-op index -> items offered inside its window
	betw    map[int][]Item
	wins    []int // A-op indices that have yield items, ascending
	solo    bool  // no B/C at all
	mask    uint64
	count   bool // count faults/probes (only on the first execution of a schedule)
	inWin   int
	fired   int
	drawsIn int
	arb     *state.Arbiters
	h0      uint32
	o0      string
}

// runSchedule executes task A's operations against a freshly built chain
// state under one schedule and returns A's results.
func (s *sched) runSchedule() []aResult {
	// One real Arbiters per run; the only state the selection itself writes
	// (the remembered random candidate) is put back before every schedule, so
	// each schedule starts from the same chain state.
	if s.arb == nil {
		a, err := s.k.build()
		if err != nil {
			panic("randsim: cannot build chain state: " + err.Error())
		}
		s.arb, s.h0, s.o0 = a, a.LastRandomCandidateHeight, a.LastRandomCandidateOwner
	}
	a := s.arb
	a.LastRandomCandidateHeight, a.LastRandomCandidateOwner = s.h0, s.o0
	rand.Seed(s.c.Plan.Knob("gseed", 1))
	w := &world{treap: ffldb.VerifNewMutable()}
	tA, tB, tC := newTask(), newTask(), newTask()
	defer tA.stop()
	defer tB.stop()
	defer tC.stop()
	other := func(it Item) bool {
		drew := false
		t := tB
		if it.Task == "C" {
			t = tC
		}
		t.step(func() { drew = w.doOp(it) })
		return drew
	}
	cur := -1
	s.fired, s.drawsIn = 0, 0
	verifhook.OnYield = func(name string) {
		// Called on task A's goroutine between rand.Seed and rand.Intn. The
		// scheduler decides here whether A keeps the processor.
		if s.count {
			s.c.Probe("yield-reached")
		}
		if s.solo {
			return
		}
		wi := sort.SearchInts(s.wins, cur)
		if wi >= len(s.wins) || s.wins[wi] != cur || s.mask&(1<<uint(wi)) == 0 {
			return
		}
		s.inWin = cur
		drew := false
		for _, it := range s.yield[cur] {
			if other(it) {
				drew = true
			}
		}
		s.fired++
		if drew {
			s.drawsIn++
		}
		if s.count {
			if drew {
				s.c.Fault("switch-inside-seed-window-with-draw")
			} else {
				s.c.Fault("switch-inside-seed-window-no-draw")
			}
		}
	}
	defer func() { verifhook.OnYield = nil }()
	var res []aResult
	for i, op := range s.aops {
		cur = i
		if !s.solo {
			for _, it := range s.betw[i] {
				other(it)
				if s.count {
					s.c.Fault("switch-at-task-boundary")
				}
			}
		}
		s.inWin = -1
		var r aResult
		h := s.k.baseH + uint32(op.DH)
		tA.step(func() {
			switch op.Op {
			case "sorted":
				ps, err := a.VerifRandSortedProducersWithRandom(h, s.k.unclaimed)
				if err != nil {
					r = aResult("sorted err=" + err.Error())
				} else {
					r = aResult("sorted " + keysDigest(ps))
				}
			default:
				n := len(a.VerifRandSortedProducers())
				idx, err := a.VerifRandCandidateIndex(h, s.k.unclaimed, n)
				if err != nil {
					r = aResult("index err=" + err.Error())
				} else {
					r = aResult(fmt.Sprintf("index %d", idx))
				}
			}
		})
		res = append(res, r)
		// Work of B/C that the schedule did not place inside the window
		// happens after A's operation instead.
		if !s.solo && s.inWin != i {
			for _, it := range s.yield[i] {
				other(it)
			}
		}
	}
	return res
}

// localReference computes what a private source seeded like the global one
// would give (the candidate repair): rand.New(rand.NewSource(seed)).Intn(n).
func (s *sched) localReference(op Item, nvoted int) (aResult, bool) {
	if op.Op != "index" {
		return "", false
	}
	h := s.k.baseH + uint32(op.DH)
	hash := s.k.block(h - 1).Hash()
	seed, _, ok := state.Readi64(hash[24:])
	if !ok {
		return "", false
	}
	count := nvoted - s.k.unclaimed - (s.k.normal - 1)
	if count < 1 {
		return "index err=producers is not enough", true
	}
	if count > s.k.cands+1 {
		count = s.k.cands + 1
	}
	return aResult(fmt.Sprintf("index %d", rand.New(rand.NewSource(seed)).Intn(count))), true
}

func (e Engine) Execute(c *core.Ctx) {
	p := c.Plan
	var items []Item
	for i, raw := range p.Steps {
		var it Item
		if err := json.Unmarshal(raw, &it); err != nil {
			panic(fmt.Sprintf("bad step %d: %v", i, err))
		}
		items = append(items, it)
	}
	k := chainFromPlan(p)
	s := &sched{c: c, k: k, yield: map[int][]Item{}, betw: map[int][]Item{}}
	var masks []uint64
	for _, it := range items {
		if it.Kind == "a" {
			s.aops = append(s.aops, it)
		}
	}
	if len(s.aops) == 0 {
		s.aops = []Item{{Kind: "a", Op: "index"}}
	}
	for _, it := range items {
		switch it.Kind {
		case "op":
			at := ((it.At % len(s.aops)) + len(s.aops)) % len(s.aops)
			if it.Where == "between" {
				s.betw[at] = append(s.betw[at], it)
			} else {
				s.yield[at] = append(s.yield[at], it)
			}
		case "mask":
			masks = append(masks, it.Mask)
		}
	}
	for i := range s.aops {
		if len(s.yield[i]) > 0 {
			s.wins = append(s.wins, i)
		}
	}
	nw := len(s.wins)
	full := uint64(1)<<uint(nw) - 1
	enumerated := nw <= 6
	if enumerated {
		masks = masks[:0]
		for m := uint64(0); m <= full; m++ {
			masks = append(masks, m)
		}
	} else {
		masks = append([]uint64{0, full}, masks...)
		for i := range masks {
			masks[i] &= full
		}
	}
	c.SetSample(map[string]interface{}{"knobs": p.Knobs, "a_ops": len(s.aops), "windows_with_offered_switch": nw, "schedules": len(masks), "enumerated": enumerated, "steps": sample(p.Steps, 10)})

	if !repeatable(c, k, s.aops) {
		return
	}
	core.Bubble(c.T, func() {
		// Reference: task A alone.
		s.solo, s.count = true, true
		ref := s.runSchedule()
		s.solo = false
		for i, r := range ref {
			c.Logf("solo op%d %s", i, r)
		}
		// The candidate repair (private source) gives the same values as the
		// uninterfered global Seed+Intn under the runtime semantics this node
		// is built with: recorded as a probe, not an oracle.
		{
			{
				nv := len(s.arb.VerifRandSortedProducers())
				for i, op := range s.aops {
					if lr, ok := s.localReference(op, nv); ok {
						if lr == ref[i] {
							c.Probe("private-source-equals-uninterfered-global")
						} else {
							c.Probe("private-source-differs-from-uninterfered-global")
							c.Note("private rand.New(rand.NewSource(seed)).Intn differs from global Seed+Intn: %s vs %s", lr, ref[i])
						}
					}
				}
			}
		}
		if enumerated {
			c.Probe("schedules-enumerated-runs")
		} else {
			c.Probe("schedules-sampled-runs")
		}
		seen := map[uint64]bool{}
		for _, m := range masks {
			if seen[m] {
				continue
			}
			seen[m] = true
			s.mask, s.count = m, true
			got := s.runSchedule()
			c.ProbeN("schedules-executed", 1)
			c.State(fp(p.Seed, m, got))
			diff := -1
			for i := range ref {
				c.Check()
				if got[i] != ref[i] && diff < 0 {
					diff = i
				}
			}
			c.Logf("sched mask=%b switches=%d with-draw=%d same=%v", m, s.fired, s.drawsIn, diff < 0)
			if diff >= 0 {
				c.CurStep = diff
				fn := "getCandidateIndexAtRandom"
				what := "candidate index"
				if s.aops[diff].Op == "sorted" {
					fn, what = "getSortedProducersWithRandom", "producer order (next arbiter set)"
				}
				if s.drawsIn == 0 {
					// no draw happened inside any window, yet the result differs
					c.Violate("C24", "schedule-independence", "C24/"+fn+"/result-differs-across-schedules-without-interleaved-draw",
						"%s for the same chain data differs between schedules although no other task drew from the global source inside the Seed..Intn window: alone %q, schedule mask %b %q", what, ref[diff], m, got[diff])
				} else if c.Violate("C24", "schedule-independence", "C24/"+fn+"/result-changes-when-another-task-draws-from-global-rand-between-Seed-and-Intn",
					"%s for the same chain data (height %d, %d voted producers) depends on the schedule: alone %q, but %q when another task draws from the process-global math/rand between rand.Seed(seed) and rand.Intn in getCandidateIndexAtRandom (schedule mask %b over windows %v)",
					what, k.baseH+uint32(s.aops[diff].DH), k.nprod, ref[diff], got[diff], m, s.wins) {
					return
				}
			}
		}
	})
	if c.Violated() && c.NumViolations() >= c.MaxViols {
		return
	}
	pinned(c, k, s.aops)
}

func fp(seed, m uint64, rs []aResult) uint64 {
	h := fnv.New64a()
	fmt.Fprintf(h, "%d|%d", seed, m)
	for _, r := range rs {
		h.Write([]byte(r))
	}
	return h.Sum64()
}

func sample(s []json.RawMessage, n int) []json.RawMessage {
	if len(s) > n {
		return s[:n]
	}
	return s
}

// outputs evaluates every selection function once on a, re-pinning the
// process-global source before each (the selection code itself re-seeds the
// global source, so one pin at the start would not reach later calls).
type outT struct {
	name, val string
	// touched: the process-global math/rand source did not continue the pinned
	// sequence after the call, i.e. the selection code seeded it or drew from it
	touched bool
}

// globalUntouched draws once from the process-global source and compares with
// the first value of the sequence the last pin started.
func globalUntouched(pinned int64) bool {
	return rand.Int63() == rand.New(rand.NewSource(pinned)).Int63()
}

func outputs(c *core.Ctx, k *chain, a *state.Arbiters, aops []Item, pin int64) []outT {
	var out []outT
	n := int64(0)
	repin := func() { n++; rand.Seed(pin ^ n) }
	add := func(nm, v string) { out = append(out, outT{nm, v, !globalUntouched(pin ^ n)}) }
	repin()
	add("getSortedProducers", keysDigest(a.VerifRandSortedProducers()))
	repin()
	add("getSortedProducersDposV2", keysDigest(a.VerifRandSortedProducersDposV2()))
	nv := len(a.VerifRandSortedProducers())
	for i, op := range aops {
		h := k.baseH + uint32(op.DH)
		repin()
		idx, err := a.VerifRandCandidateIndex(h, k.unclaimed, nv)
		add(fmt.Sprintf("getCandidateIndexAtRandom#%d", i), fmt.Sprintf("%d %v", idx, err))
		repin()
		v2, err := a.VerifRandDposV2Producers(h, 0, k.choosing(int(c.Plan.Knob("ncr", 8))))
		add(fmt.Sprintf("getRandomDposV2Producers#%d", i), fmt.Sprintf("%s %v", strsDigest(v2), err))
	}
	return out
}

func fnOf(name string) string {
	if j := strings.IndexByte(name, '#'); j >= 0 {
		return name[:j]
	}
	return name
}

// repeatable: evaluated many times inside one process with everything pinned
// identically, each selection output must be the same every time (Go's map
// iteration order is the only thing that differs between the evaluations).
// Returns false when it is not: nothing else can be judged then, and the
// event log carries verdicts only so that it stays replayable.
func repeatable(c *core.Ctx, k *chain, aops []Item) bool {
	ok := true
	core.Bubble(c.T, func() {
		pin := c.Plan.Knob("pinA", 1)
		var ref []outT
		unstable := map[string][2]string{}
		for rep := 0; rep < 2; rep++ {
			var a *state.Arbiters
			a, err := k.build() // fresh state: its maps are filled anew, so iteration order differs
			if err != nil {
				panic("randsim: cannot build chain state: " + err.Error())
			}
			for inner := 0; inner < 3; inner++ {
				o := outputs(c, k, a, aops, pin)
				if ref == nil {
					ref = o
					continue
				}
				for i := range ref {
					c.Check()
					if o[i].val != ref[i].val {
						if _, dup := unstable[fnOf(ref[i].name)]; !dup {
							unstable[fnOf(ref[i].name)] = [2]string{ref[i].val, o[i].val}
						}
					}
				}
			}
		}
		// The cheap map-fed functions many more times: a two-entry Go map is
		// walked in the other order only about one time in eight.
		{
			a, err := k.build()
			if err != nil {
				panic("randsim: cannot build chain state: " + err.Error())
			}
			h := k.baseH
			if len(aops) > 0 {
				h += uint32(aops[0].DH)
			}
			ch := k.choosing(int(c.Plan.Knob("ncr", 8)))
			r1, r2 := keysDigest(a.VerifRandSortedProducers()), keysDigest(a.VerifRandSortedProducersDposV2())
			v, e := a.VerifRandDposV2Producers(h, 0, ch)
			r3 := fmt.Sprintf("%s %v", strsDigest(v), e)
			for i := 0; i < 96; i++ {
				c.Check()
				if x := keysDigest(a.VerifRandSortedProducers()); x != r1 {
					if _, dup := unstable["getSortedProducers"]; !dup {
						unstable["getSortedProducers"] = [2]string{r1, x}
					}
				}
				if x := keysDigest(a.VerifRandSortedProducersDposV2()); x != r2 {
					if _, dup := unstable["getSortedProducersDposV2"]; !dup {
						unstable["getSortedProducersDposV2"] = [2]string{r2, x}
					}
				}
				v, e := a.VerifRandDposV2Producers(h, 0, ch)
				if x := fmt.Sprintf("%s %v", strsDigest(v), e); x != r3 {
					if _, dup := unstable["getRandomDposV2Producers"]; !dup {
						unstable["getRandomDposV2Producers"] = [2]string{r3, x}
					}
				}
			}
		}
		for _, fn := range []string{"getSortedProducers", "getSortedProducersDposV2", "getCandidateIndexAtRandom", "getRandomDposV2Producers"} {
			v, bad := unstable[fn]
			c.Logf("repeat %s stable=%v", fn, !bad)
			if bad {
				ok = false
				c.Violate("C24", "repeatable", "C24/"+fn+"/output-differs-between-evaluations-with-identical-chain-data-and-pins",
					"%s differs between evaluations with identical chain data, math/rand seed and clock (only Go map iteration order differs): %q vs %q", fn, v[0], v[1])
			}
		}
	})
	return ok
}

// pinned is the second clause: with the process-global source and the clock
// pinned to two different values, every consensus output for the same chain
// data is identical.
func pinned(c *core.Ctx, k *chain, aops []Item) {
	eval := func(pin int64, clock int64) []outT {
		var out []outT
		core.Bubble(c.T, func() {
			time.Sleep(time.Duration(clock) * time.Second)
			rand.Seed(pin)
			a, err := k.build()
			if err != nil {
				panic("randsim: cannot build chain state: " + err.Error())
			}
			out = outputs(c, k, a, aops, pin)
			for i, op := range aops {
				h := k.baseH + uint32(op.DH)
				rand.Seed(pin ^ int64(1000+i))
				ps, err := a.VerifRandSortedProducersWithRandom(h, k.unclaimed)
				out = append(out, outT{fmt.Sprintf("getSortedProducersWithRandom#%d", i), fmt.Sprintf("%s %v", keysDigest(ps), err), !globalUntouched(pin ^ int64(1000+i))})
			}
		})
		return out
	}
	pa, pb := c.Plan.Knob("pinA", 1), c.Plan.Knob("pinB", 2)
	ca, cb := c.Plan.Knob("clockA", 0), c.Plan.Knob("clockB", 1)
	o1 := eval(pa, ca)
	c.Fault("global-source-and-clock-repinned")
	o2 := eval(pb, cb)
	c.AddSimSeconds(float64(ca + cb))
	for i := range o1 {
		c.Check()
		if o1[i].touched || o2[i].touched {
			c.Logf("pinned %s touches the global source", o1[i].name)
			c.Violate("C24", "global-source-untouched", "C24/"+fnOf(o1[i].name)+"/seeds-or-draws-from-process-global-math-rand",
				"%s left the process-global math/rand source in another state than it found it (pinned to a known seed just before the call, the next value drawn afterwards is not the first of that sequence): the selection seeds or draws from a source every goroutine of the process shares, so a draw by any of them between its Seed and its draws changes the result", o1[i].name)
		}
		same := o1[i].val == o2[i].val
		if same {
			c.Logf("pinned %s %s", o1[i].name, o1[i].val)
		} else {
			c.Logf("pinned %s differs", o1[i].name)
			c.Violate("C24", "pinned-sources", "C24/"+fnOf(o1[i].name)+"/output-differs-when-global-rand-seed-or-clock-pinned-differently",
				"%s differs for the same chain data when math/rand is seeded %d vs %d and the clock is +%ds vs +%ds: %q vs %q", o1[i].name, pa, pb, ca, cb, o1[i].val, o2[i].val)
		}
	}
}

// SimplifyStep proposes smaller variants of one step for the shrinker.
func (Engine) SimplifyStep(raw json.RawMessage) []json.RawMessage {
	var it Item
	if json.Unmarshal(raw, &it) != nil {
		return nil
	}
	var out []json.RawMessage
	add := func(x Item) {
		if b, err := json.Marshal(x); err == nil {
			out = append(out, b)
		}
	}
	if it.Kind == "op" && it.N > 1 {
		x := it
		x.N = 1
		add(x)
	}
	if it.Kind == "op" && it.At != 0 {
		x := it
		x.At = 0
		x.N = 1
		add(x)
	}
	if it.Kind == "a" && it.DH != 0 {
		x := it
		x.DH = 0
		add(x)
	}
	return out
}
