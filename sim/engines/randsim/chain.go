package randsim

import (
	"encoding/hex"
	"fmt"
	"sync"

	"github.com/elastos/Elastos.ELA/common"
	"github.com/elastos/Elastos.ELA/common/config"
	"github.com/elastos/Elastos.ELA/core/checkpoint"
	"github.com/elastos/Elastos.ELA/core/contract/program"
	"github.com/elastos/Elastos.ELA/core/transaction"
	"github.com/elastos/Elastos.ELA/core/types"
	common2 "github.com/elastos/Elastos.ELA/core/types/common"
	"github.com/elastos/Elastos.ELA/core/types/functions"
	"github.com/elastos/Elastos.ELA/core/types/interfaces"
	"github.com/elastos/Elastos.ELA/core/types/outputpayload"
	"github.com/elastos/Elastos.ELA/core/types/payload"
	crstate "github.com/elastos/Elastos.ELA/cr/state"
	"github.com/elastos/Elastos.ELA/crypto"
	"github.com/elastos/Elastos.ELA/dpos/state"

	"verif/sim/core"
)

var wireOnce sync.Once

func wire() {
	wireOnce.Do(func() {
		functions.GetTransactionByTxType = transaction.GetTransaction
		functions.GetTransactionByBytes = transaction.GetTransactionByBytes
		functions.CreateTransaction = transaction.CreateTransaction
		functions.GetTransactionParameters = transaction.GetTransactionparameters
	})
}

// chain is the fixed "chain data" of one run: producers, their votes, the
// consensus parameters and the previous-block headers the selection seeds
// from. Everything in it is a pure function of the plan's knobs.
type chain struct {
	seed      uint64
	nprod     int
	normal    int
	cands     int
	unclaimed int
	ncrc      int
	baseH     uint32
	period    uint32
	ties      bool
	nv2       int
	pkCache   map[string][]byte
	chooseC   map[int]map[common.Uint168]state.ArbiterMember
}

func chainFromPlan(p *core.Plan) *chain {
	return &chain{
		seed:      uint64(p.Knob("chainseed", 1)),
		nprod:     int(p.Knob("nprod", 12)),
		normal:    int(p.Knob("normal", 4)),
		cands:     int(p.Knob("cands", 4)),
		unclaimed: int(p.Knob("unclaimed", 0)),
		ncrc:      int(p.Knob("ncrc", 2)),
		baseH:     uint32(p.Knob("height", 1000)),
		period:    uint32(p.Knob("period", 1)),
		ties:      p.Knob("ties", 0) == 1,
		nv2:       int(p.Knob("nv2", 0)),
	}
}

// pubKey derives a compressed public key from (chain seed, purpose, index):
// no secure randomness is involved, so every run with the same plan sees the
// same keys.
func (k *chain) pubKey(purpose string, i int) []byte {
	ck := fmt.Sprintf("%s-%d", purpose, i)
	if k.pkCache == nil {
		k.pkCache = map[string][]byte{}
	}
	if v, ok := k.pkCache[ck]; ok {
		return v
	}
	v := k.derivePubKey(purpose, i)
	k.pkCache[ck] = v
	return v
}

func (k *chain) derivePubKey(purpose string, i int) []byte {
	r := core.NewRng(k.seed).Fork(fmt.Sprintf("%s-%d", purpose, i))
	for {
		priv := r.Bytes(32)
		priv[0] &= 0x7f // stay below the group order
		nz := false
		for _, b := range priv {
			if b != 0 {
				nz = true
			}
		}
		if !nz {
			continue
		}
		pk := crypto.NewPubKey(priv)
		enc, err := pk.EncodePoint(true)
		if err == nil {
			return enc
		}
	}
}

// header returns the header of block h (a pure function of chain seed and h).
// Only its hash matters: the selection code derives its seed from it.
func (k *chain) block(h uint32) *types.Block {
	r := core.NewRng(k.seed).Fork(fmt.Sprintf("hdr-%d", h))
	var prev, root common.Uint256
	copy(prev[:], r.Bytes(32))
	copy(root[:], r.Bytes(32))
	return &types.Block{Header: common2.Header{
		Version:    0,
		Previous:   prev,
		MerkleRoot: root,
		Timestamp:  1546300800 + h*120,
		Bits:       0x207fffff,
		Nonce:      uint32(r.U64()),
		Height:     h,
	}}
}

func (k *chain) votes(i int) common.Fixed64 {
	r := core.NewRng(k.seed).Fork(fmt.Sprintf("votes-%d", i))
	if k.ties {
		return common.Fixed64(1 + r.Intn(3)) // many equal vote counts: order decided by the key tie-break
	}
	return common.Fixed64(1 + r.Intn(1_000_000))
}

func mkTx(txType common2.TxType, version common2.TransactionVersion, pl interfaces.Payload, outs []*common2.Output) interfaces.Transaction {
	return functions.CreateTransaction(version, txType, 0, pl, []*common2.Attribute{}, []*common2.Input{}, outs, 0, []*program.Program{})
}

// build constructs a real *state.Arbiters whose State holds nprod active
// producers with votes, the way dpos/state's own unit tests do: register
// transactions fed through State.ProcessBlock, six confirmations, one vote
// transaction.
func (k *chain) build() (*state.Arbiters, error) {
	wire()
	params := config.GetDefaultParams()
	params.DPoSConfiguration.NormalArbitratorsCount = k.normal
	params.DPoSConfiguration.CandidatesCount = k.cands
	params.DPoSConfiguration.NoCRCDPOSNodeHeight = 0
	params.DPoSConfiguration.RandomCandidatePeriod = k.period
	params.DPoSConfiguration.SponsorsFilePath = "/nonexistent-sponsors"
	params.DPoSV2EffectiveVotes = 1000
	var crc, origin []string
	for i := 0; i < k.ncrc; i++ {
		crc = append(crc, hex.EncodeToString(k.pubKey("crc", i)))
	}
	for i := 0; i < 3; i++ {
		origin = append(origin, hex.EncodeToString(k.pubKey("origin", i)))
	}
	params.DPoSConfiguration.CRCArbiters = crc
	params.DPoSConfiguration.OriginArbiters = origin
	ckp := checkpoint.NewManager(params)
	committee := crstate.NewCommittee(params, ckp)
	a, err := state.NewArbitrators(params, committee, nil, nil, nil, nil, nil, nil, nil, ckp)
	if err != nil {
		return nil, err
	}
	best := k.baseH
	a.RegisterFunction(func() uint32 { return best },
		func() *common.Uint256 { h := k.block(best).Hash(); return &h },
		func(h uint32) (*types.Block, error) { return k.block(h), nil }, nil)

	owners := make([][]byte, k.nprod)
	h := uint32(1)
	for i := 0; i < k.nprod; i++ {
		owners[i] = k.pubKey("owner", i)
		info := &payload.ProducerInfo{OwnerKey: owners[i], NodePublicKey: k.pubKey("node", i), NickName: fmt.Sprintf("p%d", i)}
		if i < k.nv2 {
			info.StakeUntil = 5_000_000 // registered as a DPoS v2 producer
		}
		a.State.ProcessBlock(&types.Block{Header: common2.Header{Height: h}, Transactions: []interfaces.Transaction{mkTx(common2.RegisterProducer, 0, info, nil)}}, nil, 0)
		h++
	}
	for i := 0; i < 6; i++ { // confirmations: pending -> active
		a.State.ProcessBlock(&types.Block{Header: common2.Header{Height: h}}, nil, 0)
		h++
	}
	cv := make([]outputpayload.CandidateVotes, 0, k.nprod)
	for i := 0; i < k.nprod; i++ {
		cv = append(cv, outputpayload.CandidateVotes{Candidate: owners[i], Votes: k.votes(i)})
	}
	out := &common2.Output{Value: 1, Type: common2.OTVote, Payload: &outputpayload.VoteOutput{
		Version:  outputpayload.VoteProducerAndCRVersion,
		Contents: []outputpayload.VoteContent{{VoteType: outputpayload.Delegate, CandidateVotes: cv}},
	}}
	a.State.ProcessBlock(&types.Block{Header: common2.Header{Height: h}, Transactions: []interfaces.Transaction{mkTx(common2.TransferAsset, common2.TxVersion09, nil, []*common2.Output{out})}}, nil, 0)
	h++
	if k.nv2 > 0 {
		// DPoS v2 votes (Voting transaction, stake address = the voter's program code)
		var vi []payload.VotesWithLockTime
		for i := 0; i < k.nv2 && i < k.nprod; i++ {
			r := core.NewRng(k.seed).Fork(fmt.Sprintf("v2votes-%d", i))
			v := common.Fixed64(2000 + r.Intn(5000))
			if k.ties {
				v = common.Fixed64(2000 + r.Intn(2))
			}
			vi = append(vi, payload.VotesWithLockTime{Candidate: owners[i], Votes: v, LockTime: h + 7200*10})
		}
		tx := functions.CreateTransaction(common2.TxVersion09, common2.Voting, payload.VoteVersion,
			&payload.Voting{Contents: []payload.VotesContent{{VoteType: outputpayload.DposV2, VotesInfo: vi}}},
			[]*common2.Attribute{}, []*common2.Input{}, nil, 0,
			[]*program.Program{{Code: append([]byte{33}, append(k.pubKey("staker", 0), 0xac)...)}})
		a.State.ProcessBlock(&types.Block{Header: common2.Header{Height: h}, Transactions: []interfaces.Transaction{tx}}, nil, 0)
	}
	return a, nil
}

// choosing returns a CR-arbiter map for getRandomDposV2Producers (the map's
// iteration order is itself process-local randomness the result must not
// depend on).
func (k *chain) choosing(n int) map[common.Uint168]state.ArbiterMember {
	if k.chooseC == nil {
		k.chooseC = map[int]map[common.Uint168]state.ArbiterMember{}
	}
	if m, ok := k.chooseC[n]; ok {
		return m // ranging over the same map still starts at a random position each time
	}
	m := map[common.Uint168]state.ArbiterMember{}
	k.chooseC[n] = m
	for i := 0; i < n; i++ {
		ar, err := state.NewOriginArbiter(k.pubKey("crmember", i))
		if err != nil {
			continue
		}
		m[ar.GetOwnerProgramHash()] = ar
	}
	return m
}
