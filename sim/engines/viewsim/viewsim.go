// Package viewsim checks C26: the DPoS view-change schedule does not depend on
// how often it is evaluated. N simulated arbiters each own a real
// dpos/manager view (through the verif export), start from the same view start
// time and offset, and poll TryChangeView / TryChangeViewV1 from their own
// goroutine on their own simulated timer inside a testing/synctest bubble
// (periods 0.1-30 s, jitter, stalls of minutes, a constant clock skew per
// arbiter). The oracle is the property text: every poll result equals the
// one-shot evaluation from the original start; arbiters that poll at the same
// instant agree; offsets never decrease; the carried remainder is smaller than
// the current view.
package viewsim

import (
	"crypto/elliptic"
	"encoding/json"
	"fmt"
	"hash/fnv"
	"os"
	"path/filepath"
	"sort"
	"sync"
	"time"

	dlog "github.com/elastos/Elastos.ELA/dpos/log"
	"github.com/elastos/Elastos.ELA/dpos/manager"
	"github.com/elastos/Elastos.ELA/dpos/state"

	"verif/sim/core"
)

type Engine struct{}

func (Engine) Name() string { return "viewsim" }

func (Engine) Components() ([]string, []string) {
	return []string{"dpos/manager view: calculateOffsetTimeV0/V1, ChangeView/ChangeViewV1, TryChangeView/TryChangeViewV1 (via verif export)", "dpos/state.ArbitratorsMock as the arbiter set (count, on-duty rotation)"},
		[]string{"arbiters' timers and clocks: one goroutine per arbiter sleeping on the synctest fake clock, constant skew per arbiter", "no network, proposals or votes: Consensus/DPOSManager are not instantiated (the view object and the offset are what the property is about)"}
}

// Step is one poll of one arbiter: it sleeps Dt nanoseconds on its own timer
// after its previous poll, reads its (skewed) clock and evaluates the schedule.
type Step struct {
	A     int   `json:"a"`               // arbiter (mod number of arbiters)
	Dt    int64 `json:"dt"`              // ns since this arbiter's previous poll
	Force bool  `json:"force,omitempty"` // ChangeView/ChangeViewV1 directly (Consensus.ChangeView) instead of the Try* gate
}

func (Engine) Generate(r *core.Rng, property, tier string) *core.Plan {
	p := &core.Plan{Knobs: map[string]int64{}}
	n := 1 + r.Intn(36)
	switch r.Intn(6) {
	case 0:
		n = 1 + r.Intn(4)
	case 1:
		n = 36
	case 2:
		n = 12
	}
	p.SetKnob("n", int64(n))
	ver := r.Intn(2)
	p.SetKnob("ver", int64(ver))
	tol := int64(5 * time.Second)
	if ver == 0 {
		switch r.Intn(3) {
		case 0:
			tol = int64(r.Range(1, 30)) * int64(time.Second)
		case 1:
			tol = r.LogUniform(int64(time.Second), int64(30*time.Second))
		}
	} else if r.Bool(0.25) {
		// the gate may be shorter than the shortest V1 view, never longer (NOTES.md)
		tol = int64(r.Range(1, 5)) * int64(time.Second)
	}
	p.SetKnob("tol", tol)
	// start offset: inside the first round, at the round boundary, beyond one and two rounds
	var off int
	switch r.Pick(4, 3, 3, 2, 2, 2) {
	case 0:
		off = 0
	case 1:
		off = r.Intn(n)
	case 2:
		off = n - 1 + r.Intn(3)
	case 3:
		off = n + r.Intn(n+1)
	case 4:
		off = 2*n - 1 + r.Intn(3)
	case 5:
		off = 2*n + r.Intn(2*n+1)
	}
	if off < 0 {
		off = 0
	}
	if off > 4*n {
		off = 4 * n
	}
	p.SetKnob("offset0", int64(off))
	// grid: all timers tick on whole multiples of 100 ms, so polls can land exactly on a view boundary
	grid := r.Bool(0.2)
	if grid {
		p.SetKnob("grid", 1)
	}
	// clock skew per arbiter (constant), within +-skewmax
	skewMax := int64(0)
	if r.Bool(0.5) {
		skewMax = r.LogUniform(int64(time.Millisecond), int64(2*time.Second))
	}
	pollers := 1 + r.Intn(n)
	if pollers > 6 {
		pollers = 2 + r.Intn(5)
	}
	p.SetKnob("pollers", int64(pollers))
	for i := 0; i < pollers; i++ {
		s := int64(0)
		if skewMax > 0 && i > 0 && !grid {
			s = r.Int63n(2*skewMax+1) - skewMax
		}
		p.SetKnob(fmt.Sprintf("skew%d", i), s)
	}
	// per-arbiter timer period
	period := make([]int64, pollers)
	for i := range period {
		period[i] = r.LogUniform(int64(100*time.Millisecond), int64(30*time.Second))
	}
	steps := r.Range(10, 120)
	if tier == "thorough" {
		steps = r.Range(10, 300)
	}
	for i := 0; i < steps; i++ {
		a := r.Intn(pollers)
		dt := period[a]
		switch r.Pick(10, 3, 2, 1) {
		case 0: // jitter
			dt += r.Int63n(dt/4+1) - dt/8
		case 1: // timer fired late
			dt += r.LogUniform(int64(time.Millisecond), int64(20*time.Second))
		case 2: // stall of minutes
			dt += int64(r.Range(1, 20)) * int64(time.Minute)
		case 3: // long stall: hours
			dt += int64(r.Range(1, 12)) * int64(time.Hour)
		}
		if grid {
			dt = (dt / int64(100*time.Millisecond)) * int64(100*time.Millisecond)
			if r.Bool(0.3) {
				dt = (dt / int64(time.Second)) * int64(time.Second)
			}
		}
		if dt < 0 {
			dt = 0
		}
		p.Add(Step{A: a, Dt: dt, Force: r.Bool(0.08)})
	}
	return p
}

type event struct {
	arb     int
	seq     int
	step    int
	trueNs  int64 // ns since view start on the simulated (true) clock
	localNs int64 // ns since view start on the arbiter's own clock
	force   bool
	ret     bool
	offset  uint32
	startNs int64 // view start after the poll, ns relative to the original view start
	changes int
}

var logOnce sync.Once

func silenceDposLog() {
	logOnce.Do(func() {
		dir := os.Getenv("SIM_TMP")
		if dir == "" {
			dir = os.TempDir()
		}
		// level above every message: nothing is formatted or written, no file is created
		dlog.Init(filepath.Join(dir, "dposlog"), 255, 0, 0)
	})
}

// classSig names the violation class of a disagreement between evaluations:
// the schedule version, for V1 whether the offsets involved lie inside the
// first round of arbiters or beyond it, and - kept apart - polls that sit
// exactly on a view boundary (where only the strictness of the Try* gate
// differs).
func classSig(vname, region string, exactBoundary bool) string {
	if exactBoundary {
		return "C26/" + vname + "/poll-exactly-on-view-boundary"
	}
	if vname == "V0" {
		return "C26/V0/one-shot-vs-incremental"
	}
	return "C26/V1/one-shot-vs-incremental/" + region
}

var keyCache [][]byte

// arbiterKey derives a valid compressed public key from the arbiter index
// (harness keys never come from crypto/rand).
func arbiterKey(i int) []byte {
	for len(keyCache) <= i {
		k := len(keyCache) + 1
		x, y := elliptic.P256().ScalarBaseMult([]byte{0x5a, byte(k >> 8), byte(k), 0x17})
		b := make([]byte, 33)
		b[0] = 0x02 + byte(y.Bit(0))
		x.FillBytes(b[1:])
		keyCache = append(keyCache, b)
	}
	return keyCache[i]
}

func mkArbiters(n int) (state.Arbitrators, [][]byte) {
	members := make([]state.ArbiterMember, 0, n)
	keys := make([][]byte, 0, n)
	for i := 0; i < n; i++ {
		k := arbiterKey(i)
		m, err := state.NewOriginArbiter(k)
		if err != nil {
			panic(fmt.Sprintf("arbiter member: %v", err))
		}
		members = append(members, m)
		keys = append(keys, k)
	}
	return state.NewArbitratorsMock(members, 0, n*2/3), keys
}

func (e Engine) Execute(c *core.Ctx) {
	silenceDposLog()
	p := c.Plan
	steps := make([]Step, len(p.Steps))
	for i, raw := range p.Steps {
		if err := json.Unmarshal(raw, &steps[i]); err != nil {
			panic(fmt.Sprintf("bad step %d: %v", i, err))
		}
	}
	n := int(p.Knob("n", 4))
	if n < 1 {
		n = 1
	}
	ver := int(p.Knob("ver", 1))
	tol := time.Duration(p.Knob("tol", int64(5*time.Second)))
	off0 := uint32(p.Knob("offset0", 0))
	pollers := int(p.Knob("pollers", 1))
	if pollers < 1 {
		pollers = 1
	}
	if pollers > n {
		pollers = n
	}
	sample := p.Steps
	if len(sample) > 8 {
		sample = sample[:8]
	}
	c.SetSample(map[string]interface{}{"knobs": p.Knobs, "steps": sample})
	vname := "V0"
	if ver == 1 {
		vname = "V1"
	}
	c.Logf("%s n=%d tol=%v offset0=%d pollers=%d", vname, n, tol, off0, pollers)

	arbs, keys := mkArbiters(n)
	type poller struct {
		idx   int
		skew  time.Duration
		polls []int // indices into steps
		view  *manager.VerifView
		evs   []event
		panic interface{}
	}
	ps := make([]*poller, pollers)
	for i := range ps {
		ps[i] = &poller{idx: i, skew: time.Duration(p.Knob(fmt.Sprintf("skew%d", i), 0))}
	}
	for i, s := range steps {
		a := s.A % pollers
		if a < 0 {
			a = -a
		}
		ps[a].polls = append(ps[a].polls, i)
	}
	var horizon time.Duration
	core.Bubble(c.T, func() {
		t0 := time.Now() // the common view start, on the simulated true clock
		var wg sync.WaitGroup
		for _, pl := range ps {
			pl.view = manager.VerifNewView(keys[pl.idx], tol, arbs)
			pl.view.SetStart(t0, off0)
			wg.Add(1)
			go func(pl *poller) {
				defer wg.Done()
				defer func() {
					if x := recover(); x != nil {
						pl.panic = x
					}
				}()
				for k, si := range pl.polls {
					time.Sleep(time.Duration(steps[si].Dt)) // the arbiter's own timer
					tn := time.Now()
					local := tn.Add(pl.skew) // what its clock reads
					var ret bool
					// "for a later time": a forced evaluation is only made once the arbiter's clock is past the view start
					force := steps[si].Force && local.After(t0)
					if ver == 0 {
						if force {
							pl.view.ChangeView(local)
							ret = true
						} else {
							ret = pl.view.TryChangeView(local)
						}
					} else {
						if force {
							ret = pl.view.ChangeViewV1(local)
						} else {
							ret = pl.view.TryChangeViewV1(local)
						}
					}
					pl.evs = append(pl.evs, event{arb: pl.idx, seq: k, step: si, trueNs: int64(tn.Sub(t0)), localNs: int64(local.Sub(t0)), force: force,
						ret: ret, offset: pl.view.Offset(), startNs: int64(pl.view.StartTime().Sub(t0)), changes: pl.view.ViewChangedCount()})
				}
			}(pl)
		}
		wg.Wait()
		horizon = time.Since(t0)
	})
	c.AddSimSeconds(horizon.Seconds())

	// ---- oracle: post-hoc over the merged, deterministically ordered event list ----
	var evs []event
	for _, pl := range ps {
		if pl.panic != nil {
			c.Check()
			c.Violate("C26", "no-panic", "C26/"+vname+"/panic", "arbiter %d: view code panicked: %v", pl.idx, pl.panic)
		}
		evs = append(evs, pl.evs...)
	}
	sort.SliceStable(evs, func(i, j int) bool {
		if evs[i].trueNs != evs[j].trueNs {
			return evs[i].trueNs < evs[j].trueNs
		}
		return evs[i].arb < evs[j].arb
	})
	epoch := core.SimEpoch
	// one-shot evaluation: a fresh view given the original (start, offset), evaluated once at the poll's local time
	oneShot := func(localNs int64, force bool) (uint32, int64) {
		v := manager.VerifNewView(keys[0], tol, arbs)
		v.SetStart(epoch, off0)
		now := epoch.Add(time.Duration(localNs))
		if ver == 0 {
			if force {
				v.ChangeView(now)
			} else {
				v.TryChangeView(now)
			}
		} else {
			if force {
				v.ChangeViewV1(now)
			} else {
				v.TryChangeViewV1(now)
			}
		}
		return v.Offset(), int64(v.StartTime().Sub(epoch))
	}
	probe := manager.VerifNewView(keys[0], tol, arbs)
	lastOff := make([]uint32, pollers)
	for i := range lastOff {
		lastOff[i] = off0
	}
	lastLocal := make([]int64, pollers)
	for i := range lastLocal {
		lastLocal[i] = -1 << 62
	}
	region := func(a, b uint32) string {
		m := a
		if b > m {
			m = b
		}
		switch {
		case m >= 2*uint32(n):
			return "offset>=arbiters" // same class: the schedule beyond the first round
		case m >= uint32(n):
			return "offset>=arbiters"
		}
		return "offset<arbiters"
	}
	var refByLocal []struct {
		local int64
		off   uint32
	}
	for k := range evs {
		e := &evs[k]
		c.CurStep = e.step
		pl := ps[e.arb]
		if pl.skew != 0 {
			c.Fault("clock-skew")
		}
		if steps[e.step].Dt >= int64(time.Minute) {
			c.Fault("stall")
		} else {
			c.Fault("poll")
		}
		if e.offset >= 2*uint32(n) {
			c.Probe("offset>=2n")
		} else if e.offset >= uint32(n) {
			c.Probe("offset>=n")
		}
		c.Logf("t=%d a=%d local=%d force=%v -> %v off=%d start=%d", e.trueNs, e.arb, e.localNs, e.force, e.ret, e.offset, e.startNs)
		h := fnv.New64a()
		fmt.Fprintf(h, "%d/%d/%d/%d", ver, n, e.offset, (e.localNs-e.startNs)/int64(time.Second))
		c.State(h.Sum64())

		// (1) equals the one-shot evaluation from the original start time
		refOff, refStart := oneShot(e.localNs, e.force)
		refByLocal = append(refByLocal, struct {
			local int64
			off   uint32
		}{e.localNs, refOff})
		// Is the poll exactly on a view boundary (of the one-shot schedule or of the arbiter's own current view)?
		exact := refStart == e.localNs && e.localNs > 0
		if e.localNs > 0 {
			// ... of the original schedule, whatever the Try* gate says
			if ver == 0 {
				exact = exact || e.localNs%int64(tol) == 0
			} else {
				nx, r2 := probe.CalculateOffsetTimeV1(off0, epoch, epoch.Add(time.Duration(e.localNs)), uint32(n))
				exact = exact || (nx != off0 && r2 == 0)
			}
		}
		if d := e.localNs - e.startNs; d > 0 {
			if ver == 0 {
				exact = exact || d%int64(tol) == 0
			} else {
				nx, r2 := probe.CalculateOffsetTimeV1(e.offset, epoch.Add(time.Duration(e.startNs)), epoch.Add(time.Duration(e.localNs)), uint32(n))
				exact = exact || (nx != e.offset && r2 == 0)
			}
		}
		if exact {
			c.Probe("poll-exactly-on-view-boundary")
		}
		c.Check()
		if e.offset != refOff {
			sig := classSig(vname, region(e.offset, refOff), exact)
			if c.Violate("C26", "one-shot-equals-incremental", sig, "%s, %d arbiters, start offset %d, tolerance %v: arbiter %d polling at local time +%v (poll #%d of its own, force=%v) has view offset %d (view start +%v), one evaluation from the original start gives %d (view start +%v)",
				vname, n, off0, tol, e.arb, time.Duration(e.localNs), e.seq+1, e.force, e.offset, time.Duration(e.startNs), refOff, time.Duration(refStart)) {
				return
			}
		}
		// (3) non-decreasing in time, per arbiter
		c.Check()
		if e.offset < lastOff[e.arb] {
			if c.Violate("C26", "offset-non-decreasing", "C26/"+vname+"/non-monotonic/incremental", "arbiter %d: view offset went from %d back to %d at local time +%v", e.arb, lastOff[e.arb], e.offset, time.Duration(e.localNs)) {
				return
			}
		}
		lastOff[e.arb] = e.offset
		lastLocal[e.arb] = e.localNs
		// (4) carried remainder: 0 <= remainder < current view duration
		rem := e.localNs - e.startNs
		if e.ret {
			c.Check()
			if rem < 0 {
				if c.Violate("C26", "remainder-bound", "C26/"+vname+"/remainder/negative", "arbiter %d: view start +%v lies after the poll time +%v", e.arb, time.Duration(e.startNs), time.Duration(e.localNs)) {
					return
				}
			}
			c.Check()
			if ver == 0 {
				if rem >= int64(tol) {
					if c.Violate("C26", "remainder-bound", "C26/V0/remainder/not-below-view-duration", "arbiter %d: remainder %v after a view change is not below the view duration %v", e.arb, time.Duration(rem), tol) {
						return
					}
				}
			} else {
				// the duration of the current view is whatever the schedule itself says:
				// evaluating again at the same instant must not move on
				again, rem2 := probe.CalculateOffsetTimeV1(e.offset, epoch.Add(time.Duration(e.startNs)), epoch.Add(time.Duration(e.localNs)), uint32(n))
				if again != e.offset || int64(rem2) != rem {
					if c.Violate("C26", "remainder-bound", "C26/V1/remainder/not-below-view-duration", "arbiter %d: after the change to offset %d with remainder %v a second evaluation at the same instant moves on to offset %d (remainder %v)", e.arb, e.offset, time.Duration(rem), again, rem2) {
						return
					}
				}
			}
		}
		// (2) arbiters that have both just polled at this instant (same local clock reading) agree
		for j := k - 1; j >= 0 && evs[j].trueNs == e.trueNs; j-- {
			o := &evs[j]
			if o.arb == e.arb || o.localNs != e.localNs || o.force != e.force {
				continue
			}
			c.Check()
			c.Probe("simultaneous-polls-compared")
			if o.offset != e.offset {
				// implied by (1): two arbiters with the same clock reading have the same
				// one-shot reference, so the class is the one of the mismatch with it
				sig := classSig(vname, region(e.offset, o.offset), exact)
				if c.Violate("C26", "arbiters-agree", sig, "%s, %d arbiters, start offset %d: at +%v arbiter %d (poll #%d) is at view offset %d, arbiter %d (poll #%d) at %d", vname, n, off0, time.Duration(e.localNs), o.arb, o.seq+1, o.offset, e.arb, e.seq+1, e.offset) {
					return
				}
			}
		}
	}
	// (3') the one-shot evaluation itself is non-decreasing in time
	// (equal clock readings are ordered by offset: a gated and a forced evaluation of one instant may differ on a boundary)
	sort.SliceStable(refByLocal, func(i, j int) bool {
		if refByLocal[i].local != refByLocal[j].local {
			return refByLocal[i].local < refByLocal[j].local
		}
		return refByLocal[i].off < refByLocal[j].off
	})
	for i := 1; i < len(refByLocal); i++ {
		c.Check()
		if refByLocal[i].off < refByLocal[i-1].off {
			c.Violate("C26", "offset-non-decreasing", "C26/"+vname+"/non-monotonic/one-shot", "one-shot evaluation gives offset %d at +%v but %d at the later +%v", refByLocal[i-1].off, time.Duration(refByLocal[i-1].local), refByLocal[i].off, time.Duration(refByLocal[i].local))
			break
		}
	}
}
