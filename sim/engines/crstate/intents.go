package crstate

import (
	"bytes"
	"fmt"
	"sort"

	"github.com/elastos/Elastos.ELA/common"
	common2 "github.com/elastos/Elastos.ELA/core/types/common"
	"github.com/elastos/Elastos.ELA/core/types/outputpayload"
	"github.com/elastos/Elastos.ELA/core/types/payload"
	crstate "github.com/elastos/Elastos.ELA/cr/state"
)

// Client actors. Each intent looks at the chain state the way a wallet or CR
// website would (through the primary's public getters), builds a real signed
// transaction and hands it to the miner, who runs the real checks.

const txFee = common.Fixed64(10000)

func mod(a, n int) int {
	if n <= 0 {
		return 0
	}
	a %= n
	if a < 0 {
		a += n
	}
	return a
}

// pickUTXO returns the k-th (mod) unspent output of addr not yet used in the
// block being assembled whose value is at least min. vote selects vote outputs
// (true), plain outputs (false).
func (r *run) pickUTXO(as *assembling, addr common.Uint168, min common.Fixed64, vote bool, k int) *utxoEnt {
	var cands []*utxoEnt
	for _, e := range r.primary.led.utxosOf(addr) {
		if as.used[e.op.ReferKey()] || e.out.Value < min {
			continue
		}
		if (e.out.Type == common2.OTVote) != vote {
			continue
		}
		cands = append(cands, e)
	}
	if len(cands) == 0 {
		return nil
	}
	return cands[mod(k, len(cands))]
}

func (r *run) electedMembers() []*crstate.CRMember {
	var res []*crstate.CRMember
	for _, m := range r.primary.com.GetAllMembersCopy() { // ordered by DID
		if m.MemberState == crstate.MemberElected {
			res = append(res, m)
		}
	}
	return res
}

// proposalsIn lists the run's proposals (submission order) whose state in the
// primary is one of the given statuses.
func (r *run) proposalsIn(sts ...crstate.ProposalStatus) []*propRec {
	var res []*propRec
	for _, p := range r.props {
		ps := r.primary.com.GetProposal(p.hash)
		if ps == nil {
			continue
		}
		for _, s := range sts {
			if ps.Status == s {
				res = append(res, p)
				break
			}
		}
	}
	return res
}

func (r *run) ownerKeyOf(ps *crstate.ProposalState) *keyPair {
	return r.keyByPub[string(ps.ProposalOwner)]
}

func (r *run) secretaryKey() *keyPair {
	pk := r.primary.com.GetProposalManager().SecretaryGeneralPublicKey
	b, err := common.HexStringToBytes(pk)
	if err != nil {
		return r.act.secGen[0]
	}
	if k, ok := r.keyByPub[string(b)]; ok {
		return k
	}
	return r.act.secGen[0]
}

func (r *run) crInfoVersion(h uint32) byte {
	if h >= r.cfg().CRConfiguration.RegisterCRByDIDHeight {
		return payload.CRInfoDIDVersion
	}
	return payload.CRInfoVersion
}

func (r *run) draftVersion(h uint32) byte {
	if h >= r.cfg().CRConfiguration.CRCProposalDraftDataStartHeight {
		return payload.CRCProposalVersion01
	}
	return payload.CRCProposalVersion
}

func (r *run) blob(tag string, n int) []byte {
	r.nonce++
	return []byte(fmt.Sprintf("%s-%d-%d", tag, r.nonce, n))
}

// buildIntent turns one intent into zero or more signed transactions.
func (r *run) buildIntent(as *assembling, d TxD) []txMeta {
	switch d.K {
	case "reg":
		return r.iRegister(as, d)
	case "upd":
		return r.iUpdate(as, d)
	case "unreg":
		return r.iUnregister(as, d)
	case "vote":
		return r.iVote(as, d)
	case "unvote":
		return r.iUnvote(as, d)
	case "retdep":
		return r.iReturnDeposit(as, d)
	case "prop":
		return r.iProposal(as, d, "")
	case "review":
		return r.iReview(as, d)
	case "reviewall":
		return r.iReviewAll(as, d)
	case "track":
		return r.iTracking(as, d, "")
	case "wd":
		return r.iWithdraw(as, d, "")
	case "claim":
		return r.iClaim(as, d)
	case "adv":
		return r.iAdversary(as, d)
	}
	return nil
}

func one(m txMeta) []txMeta { return []txMeta{m} }

func (r *run) iRegister(as *assembling, d TxD) []txMeta {
	cd := r.act.cands[mod(d.A, len(r.act.cands))]
	dep := common.Fixed64(crstate.MinDepositAmount)
	if d.F&4 != 0 {
		dep += common.Fixed64(int64(d.F%7+1) * ela) // over-deposit
	}
	fund := r.pickUTXO(as, cd.addr, dep+txFee, false, d.B)
	if fund == nil {
		return nil
	}
	nick := fmt.Sprintf("cand%d-%d", mod(d.A, len(r.act.cands)), d.F%3)
	if d.F&8 != 0 {
		nick = fmt.Sprintf("shared-%d", d.F%2) // nickname collisions between candidates
	}
	return one(txMeta{kind: "RegisterCR", tx: registerCRTx(cd, nick, r.crInfoVersion(as.height), fund, dep, txFee)})
}

func (r *run) iUpdate(as *assembling, d TxD) []txMeta {
	cd := r.act.cands[mod(d.A, len(r.act.cands))]
	nick := fmt.Sprintf("cand%d-%d", mod(d.A, len(r.act.cands)), d.F%3)
	if d.F&8 != 0 {
		nick = fmt.Sprintf("shared-%d", d.F%2)
	}
	return one(txMeta{kind: "UpdateCR", tx: updateCRTx(cd, nick, uint64(d.F%5+1), r.crInfoVersion(as.height))})
}

func (r *run) iUnregister(as *assembling, d TxD) []txMeta {
	cd := r.act.cands[mod(d.A, len(r.act.cands))]
	return one(txMeta{kind: "UnregisterCR", tx: unregisterCRTx(cd)})
}

// iVote: F bit0 CRC content, bit1 proposal-reject content, bit2 impeachment
// content, bit3 spend the voter's previous vote output (which cancels it).
func (r *run) iVote(as *assembling, d TxD) []txMeta {
	com := r.primary.com
	v := r.act.voters[mod(d.A, len(r.act.voters))]
	in := r.pickUTXO(as, v.addr, common.Fixed64(ela), d.F&8 != 0, d.B)
	if in == nil {
		in = r.pickUTXO(as, v.addr, common.Fixed64(ela), d.F&8 == 0, d.B)
	}
	if in == nil {
		return nil
	}
	amount := in.out.Value - txFee
	if d.V > 0 && common.Fixed64(d.V) < amount {
		amount = common.Fixed64(d.V)
	}
	var contents []outputpayload.VoteContent
	kind := "Vote"
	if d.F&1 != 0 {
		act := com.GetCandidates(crstate.Active)
		if d.F&16 != 0 { // also pending/canceled targets: the checker must refuse them
			act = com.GetAllCandidates()
		}
		sort.Slice(act, func(i, j int) bool { return act[i].Info.CID.Compare(act[j].Info.CID) < 0 })
		if len(act) > 0 {
			var cvs []outputpayload.CandidateVotes
			n := 1 + mod(d.C, 3)
			if n > len(act) {
				n = len(act)
			}
			share := amount / common.Fixed64(n)
			for i := 0; i < n; i++ {
				cvs = append(cvs, outputpayload.CandidateVotes{Candidate: act[mod(d.B+i, len(act))].Info.CID.Bytes(), Votes: share - common.Fixed64(i)})
			}
			cvs = dedupVotes(cvs)
			contents = append(contents, outputpayload.VoteContent{VoteType: outputpayload.CRC, CandidateVotes: cvs})
			kind += "CRC"
		}
	}
	if d.F&2 != 0 {
		ps := r.proposalsIn(crstate.CRAgreed)
		if d.F&16 != 0 {
			ps = r.props
		}
		if len(ps) > 0 {
			p := ps[mod(d.C, len(ps))]
			contents = append(contents, outputpayload.VoteContent{VoteType: outputpayload.CRCProposal,
				CandidateVotes: []outputpayload.CandidateVotes{{Candidate: p.hash.Bytes(), Votes: amount}}})
			kind += "Proposal"
		}
	}
	if d.F&4 != 0 {
		ms := com.GetImpeachableMembers()
		sort.Slice(ms, func(i, j int) bool { return ms[i].Info.CID.Compare(ms[j].Info.CID) < 0 })
		if len(ms) > 0 {
			m := ms[mod(d.C, len(ms))]
			contents = append(contents, outputpayload.VoteContent{VoteType: outputpayload.CRCImpeachment,
				CandidateVotes: []outputpayload.CandidateVotes{{Candidate: m.Info.CID.Bytes(), Votes: amount}}})
			kind += "Impeach"
		}
	}
	if len(contents) == 0 {
		return nil
	}
	if d.F&32 != 0 && as.height >= r.cfg().DPoSV2StartHeight {
		// DPoS v2 era: the same choices as a Voting payload backed by stake rights
		feeIn := r.pickUTXO(as, v.addr, txFee, false, d.B)
		if feeIn == nil {
			return nil
		}
		var vcs []payload.VotesContent
		for _, ct := range contents {
			vc := payload.VotesContent{VoteType: ct.VoteType}
			for _, cv := range ct.CandidateVotes {
				votes := cv.Votes
				if votes > stakeRights/4 {
					votes = stakeRights / 4
				}
				vc.VotesInfo = append(vc.VotesInfo, payload.VotesWithLockTime{Candidate: cv.Candidate, Votes: votes})
			}
			vcs = append(vcs, vc)
		}
		return one(txMeta{kind: "Voting:" + kind[4:], tx: votingTx(v, vcs, feeIn, txFee)})
	}
	tx := voteTx(v, in, amount, contents, txFee)
	if err := tx.Outputs()[0].Payload.Validate(); err != nil {
		return nil
	}
	return one(txMeta{kind: kind, tx: tx})
}

func dedupVotes(cvs []outputpayload.CandidateVotes) []outputpayload.CandidateVotes {
	var res []outputpayload.CandidateVotes
	for _, cv := range cvs {
		dup := false
		for _, o := range res {
			if bytes.Equal(o.Candidate, cv.Candidate) {
				dup = true
			}
		}
		if !dup && cv.Votes > 0 {
			res = append(res, cv)
		}
	}
	return res
}

// iUnvote spends a vote output into a plain one (cancels the vote).
func (r *run) iUnvote(as *assembling, d TxD) []txMeta {
	v := r.act.voters[mod(d.A, len(r.act.voters))]
	in := r.pickUTXO(as, v.addr, txFee*2, true, d.B)
	if in == nil {
		return nil
	}
	tx := transferTx([]*common2.Input{inputOf(in)}, []*common2.Output{plainOut(v.addr, in.out.Value-txFee)}, v)
	return one(txMeta{kind: "VoteCancel", tx: tx})
}

func (r *run) iReturnDeposit(as *assembling, d TxD) []txMeta {
	cd := r.act.cands[mod(d.A, len(r.act.cands))]
	var ins []*utxoEnt
	var total common.Fixed64
	for _, e := range r.primary.led.utxosOf(cd.deposit) {
		if !as.used[e.op.ReferKey()] {
			ins = append(ins, e)
			total += e.out.Value
		}
	}
	if len(ins) == 0 {
		return nil
	}
	avail := r.primary.com.GetAvailableDepositAmount(cd.cid)
	want := avail
	adv := ""
	if d.F&1 != 0 { // over-withdraw attempt
		want = total
		adv = "return-deposit-over"
	}
	if want <= txFee {
		if d.F&2 == 0 {
			return nil
		}
		want = total // nothing available: still try (the checker must refuse)
		adv = "return-deposit-over"
	}
	if want > total {
		want = total
	}
	m := txMeta{kind: "ReturnCRDepositCoin", tx: returnDepositTx(cd, ins, want-txFee, total-want), adv: adv}
	return one(m)
}

// ---------------------------------------------------------------------------
// proposals

func (r *run) budgets(scale int64, flavour int, limit common.Fixed64) []payload.Budget {
	// stage layout: [imprest] normal* final
	withImprest := flavour&1 == 0
	normals := 1 + (flavour>>1)%3
	if flavour&8 != 0 {
		normals = 0
	}
	var bs []payload.Budget
	stage := byte(1)
	per := common.Fixed64(scale)
	if limit > 0 && per*common.Fixed64(normals+2) > limit {
		per = limit / common.Fixed64(normals+2)
	}
	if per < 1 {
		per = 1
	}
	if withImprest {
		bs = append(bs, payload.Budget{Type: payload.Imprest, Stage: 0, Amount: per + 3})
	}
	for i := 0; i < normals; i++ {
		bs = append(bs, payload.Budget{Type: payload.NormalPayment, Stage: stage, Amount: per + common.Fixed64(i)})
		stage++
	}
	bs = append(bs, payload.Budget{Type: payload.FinalPayment, Stage: stage, Amount: per + 7})
	return bs
}

var proposalTypes = []payload.CRCProposalType{payload.Normal, payload.Normal, payload.ELIP, payload.CloseProposal,
	payload.ChangeProposalOwner, payload.SecretaryGeneral, payload.ReserveCustomID, payload.ReceiveCustomID,
	payload.ChangeCustomIDFee, payload.RegisterSideChain, payload.Normal}

// iProposal: A sponsor member, B owner, F type flavour, V budget scale, C target proposal.
func (r *run) iProposal(as *assembling, d TxD, adv string) []txMeta {
	com := r.primary.com
	ms := r.electedMembers()
	var sponsor *candID
	if len(ms) > 0 {
		sponsor, _ = r.candByDID(ms[mod(d.A, len(ms))].Info.DID)
	}
	if sponsor == nil || adv == "proposal-by-non-member" {
		sponsor = r.act.cands[mod(d.A, len(r.act.cands))] // not a member: the checker must refuse
	}
	owner := r.act.owners[mod(d.B, len(r.act.owners))]
	pver := r.draftVersion(as.height)
	typ := proposalTypes[mod(d.F, len(proposalTypes))]
	draft := r.blob("draft", d.F)
	p := &payload.CRCProposal{ProposalType: typ, OwnerKey: owner.pub, DraftHash: common.Hash(draft),
		CRCouncilMemberDID: sponsor.did, CategoryData: fmt.Sprintf("cat%d", d.F%4)}
	if pver >= payload.CRCProposalVersion01 {
		p.DraftData = draft
	}
	var second *keyPair
	switch typ {
	case payload.Normal, payload.ELIP:
		// what the committee can still commit, as a client would read it
		canUse := com.CRCCurrentStageAmount - com.CRCCommitteeUsedAmount - as.propUsed
		tenth := (com.CRCCurrentStageAmount - com.CommitteeUsedAmount) / 10
		limit := canUse
		if tenth < limit {
			limit = tenth
		}
		scale := d.V
		if scale <= 0 {
			scale = 5 * ela
		}
		fl := d.C
		if typ == payload.ELIP {
			fl = 8 // imprest + final only
		}
		switch adv {
		case "over-budget-10pct":
			limit = 0
			scale = int64(tenth) // each stage a tenth: total far above the 10% rule
		case "over-budget-remaining":
			limit = 0
			scale = int64(canUse)/2 + 1
		}
		if adv == "" && limit <= 10 {
			return nil // committee has no funds: nothing sensible to propose
		}
		p.Budgets = r.budgets(scale, fl, limit)
		p.Recipient = r.act.recips[mod(d.B+d.C, len(r.act.recips))].addr
	case payload.CloseProposal:
		t := r.proposalsIn(crstate.VoterAgreed)
		if len(t) == 0 {
			return nil
		}
		p.TargetProposalHash = t[mod(d.C, len(t))].hash
	case payload.ChangeProposalOwner:
		t := r.proposalsIn(crstate.VoterAgreed)
		if len(t) == 0 {
			return nil
		}
		tp := t[mod(d.C, len(t))]
		ps := com.GetProposal(tp.hash)
		cur := r.ownerKeyOf(ps)
		if cur == nil {
			return nil
		}
		owner = cur
		p.OwnerKey = cur.pub
		p.TargetProposalHash = tp.hash
		second = r.act.owners[mod(d.B+1, len(r.act.owners))]
		p.NewOwnerKey = second.pub
		if d.V%2 == 0 {
			p.NewRecipient = r.act.recips[mod(d.B+1, len(r.act.recips))].addr
		}
	case payload.SecretaryGeneral:
		second = r.act.secGen[mod(d.C+1, len(r.act.secGen))]
		p.SecretaryGeneralPublicKey = second.pub
		did, err := crstate.GetDIDByCode(second.code)
		if err != nil {
			return nil
		}
		p.SecretaryGeneralDID = *did
	case payload.ReserveCustomID:
		p.ReservedCustomIDList = []string{fmt.Sprintf("id%d", d.C%5), fmt.Sprintf("name%d", d.V%5)}
	case payload.ReceiveCustomID:
		res := com.GetReservedCustomIDLists()
		if len(res) == 0 {
			return nil
		}
		p.ReceivedCustomIDList = []string{res[mod(d.C, len(res))]}
		p.ReceiverDID = r.act.cands[mod(d.B, len(r.act.cands))].did
	case payload.ChangeCustomIDFee:
		p.CustomIDFeeRateInfo = payload.CustomIDFeeRateInfo{RateOfCustomIDFee: common.Fixed64(10000 + d.C%100), EIDEffectiveHeight: as.height + 10}
	case payload.RegisterSideChain:
		p.SideChainInfo = payload.SideChainInfo{SideChainName: fmt.Sprintf("side%d", d.C%4), MagicNumber: uint32(7000 + d.C%4),
			GenesisHash: common.Hash([]byte(fmt.Sprintf("genesis%d", d.C%4))), ExchangeRate: common.Fixed64(ela),
			EffectiveHeight: as.height + 1000, ResourcePath: "path"}
	}
	tx := proposalTx(p, pver, owner, sponsor, second)
	r.propSeq++
	rec := &propRec{hash: p.Hash(pver), pver: pver, typ: typ, seq: r.propSeq, height: as.height}
	return one(txMeta{kind: "proposal", tx: tx, prop: rec, adv: adv})
}

func (r *run) reviewVersion(h uint32) byte {
	if h >= r.cfg().CRConfiguration.CRCProposalDraftDataStartHeight {
		return payload.CRCProposalReviewVersion01
	}
	return payload.CRCProposalReviewVersion
}

func (r *run) iReview(as *assembling, d TxD) []txMeta {
	ps := r.proposalsIn(crstate.Registered)
	ms := r.electedMembers()
	if len(ps) == 0 || len(ms) == 0 {
		return nil
	}
	p := ps[mod(d.A, len(ps))]
	m, _ := r.candByDID(ms[mod(d.B, len(ms))].Info.DID)
	if m == nil {
		return nil
	}
	tx := reviewTx(p.hash, payload.VoteResult(mod(d.F, 3)), m, r.reviewVersion(as.height), r.blob("opinion", d.F))
	return one(txMeta{kind: "CRCProposalReview", tx: tx, prop: p})
}

// iReviewAll: every elected member reviews proposal A in this block; bit i of
// F clear = member i approves.
func (r *run) iReviewAll(as *assembling, d TxD) []txMeta {
	ps := r.proposalsIn(crstate.Registered)
	ms := r.electedMembers()
	if len(ps) == 0 || len(ms) == 0 {
		return nil
	}
	p := ps[mod(d.A, len(ps))]
	if d.A >= 62 { // the most recent ones
		p = ps[len(ps)-1-mod(d.A-62, len(ps))]
	}
	var res []txMeta
	for i, mm := range ms {
		m, _ := r.candByDID(mm.Info.DID)
		if m == nil {
			continue
		}
		vr := payload.Approve
		if d.F&(1<<uint(i)) != 0 {
			vr = payload.VoteResult(1 + (d.F>>8)%2)
		}
		res = append(res, txMeta{kind: "CRCProposalReview", tx: reviewTx(p.hash, vr, m, r.reviewVersion(as.height), r.blob("opinion", i)), prop: p})
	}
	return res
}

// iTracking: A proposal (VoterAgreed), F kind, B stage choice / new owner.
func (r *run) iTracking(as *assembling, d TxD, adv string) []txMeta {
	com := r.primary.com
	ps := r.proposalsIn(crstate.VoterAgreed)
	if adv == "track-after-end" {
		ps = r.proposalsIn(crstate.Terminated, crstate.Finished, crstate.Aborted, crstate.CRCanceled, crstate.VoterCanceled)
	}
	if len(ps) == 0 {
		return nil
	}
	p := ps[mod(d.A, len(ps))]
	st := com.GetProposal(p.hash)
	owner := r.ownerKeyOf(st)
	if owner == nil {
		return nil
	}
	sg := r.secretaryKey()
	switch adv {
	case "track-by-non-owner":
		owner = r.act.owners[mod(d.B+1, len(r.act.owners))]
		if bytes.Equal(owner.pub, st.ProposalOwner) {
			owner = r.act.owners[mod(d.B+2, len(r.act.owners))]
		}
	case "track-forged-secretary":
		sg = r.act.owners[mod(d.B, len(r.act.owners))]
	}
	pver := payload.CRCProposalTrackingVersion
	if as.height >= r.cfg().CRConfiguration.CRCProposalDraftDataStartHeight {
		pver = payload.CRCProposalTrackingVersion01
	}
	var typ payload.CRCProposalTrackingType
	var stage uint8
	var newOwner *keyPair
	switch mod(d.F, 8) {
	case 0, 1, 2: // progress on the lowest normal stage not yet withdrawable (or a chosen one)
		typ = payload.Progress
		var cands []uint8
		for _, b := range st.Proposal.Budgets {
			if _, ok := st.WithdrawableBudgets[b.Stage]; !ok && b.Type == payload.NormalPayment {
				cands = append(cands, b.Stage)
			}
		}
		if adv == "track-progress-wrong-stage" {
			cands = nil
			for _, b := range st.Proposal.Budgets { // imprest, final or already withdrawable stages
				if _, ok := st.WithdrawableBudgets[b.Stage]; ok || b.Type != payload.NormalPayment {
					cands = append(cands, b.Stage)
				}
			}
			cands = append(cands, uint8(len(st.Proposal.Budgets)+1))
		}
		if len(cands) == 0 {
			return nil
		}
		sort.Slice(cands, func(i, j int) bool { return cands[i] < cands[j] })
		stage = cands[0]
		if d.B%4 == 3 {
			stage = cands[mod(d.B, len(cands))]
		}
	case 3:
		typ = payload.Finalized
		for _, b := range st.Proposal.Budgets {
			if b.Type == payload.FinalPayment {
				stage = b.Stage
			}
		}
	case 4:
		typ = payload.Terminated
	case 5:
		typ = payload.ChangeOwner
		newOwner = r.act.owners[mod(d.B, len(r.act.owners))]
		if bytes.Equal(newOwner.pub, st.ProposalOwner) {
			newOwner = r.act.owners[mod(d.B+1, len(r.act.owners))]
		}
	case 6:
		typ = payload.Rejected
		for _, b := range st.Proposal.Budgets {
			if _, ok := st.WithdrawableBudgets[b.Stage]; !ok && b.Type == payload.NormalPayment {
				stage = b.Stage
				break
			}
		}
	default:
		typ = payload.Common
	}
	tx := trackingTx(p.hash, typ, stage, owner, newOwner, sg, pver, r.blob("msg", d.F), r.blob("sgopinion", d.F))
	return one(txMeta{kind: "tracking:" + typ.Name(), tx: tx, prop: p, adv: adv})
}

// iWithdraw: A proposal with something withdrawable.
func (r *run) iWithdraw(as *assembling, d TxD, adv string) []txMeta {
	com := r.primary.com
	cands := r.proposalsIn(crstate.VoterAgreed, crstate.Finished, crstate.Terminated, crstate.Aborted)
	var ps []*propRec
	for _, p := range cands {
		if (com.AvailableWithdrawalAmount(p.hash) > 0) == (adv == "" || adv == "withdraw-twice-same-block" || adv == "withdraw-wrong-owner" || adv == "withdraw-more-than-available") {
			ps = append(ps, p)
		}
	}
	if adv == "withdraw-unapproved" {
		ps = r.proposalsIn(crstate.Registered, crstate.CRAgreed, crstate.CRCanceled, crstate.VoterCanceled)
	}
	if len(ps) == 0 {
		return nil
	}
	p := ps[mod(d.A, len(ps))]
	st := com.GetProposal(p.hash)
	owner := r.ownerKeyOf(st)
	if owner == nil {
		return nil
	}
	amount := com.AvailableWithdrawalAmount(p.hash)
	switch adv {
	case "withdraw-nothing-available", "withdraw-unapproved":
		// claim the next stage that is not withdrawable (or the last paid one again)
		amount = 0
		for _, b := range st.Proposal.Budgets {
			if _, ok := st.WithdrawableBudgets[b.Stage]; !ok {
				amount = b.Amount
				break
			}
		}
		if amount == 0 {
			for _, sg := range stagesOf(st.WithdrawnBudgets) { // the highest paid stage again
				amount = st.WithdrawnBudgets[uint8(sg)]
			}
		}
		if amount == 0 {
			return nil
		}
	case "withdraw-more-than-available":
		for _, b := range st.Proposal.Budgets {
			if _, ok := st.WithdrawableBudgets[b.Stage]; !ok {
				amount += b.Amount
				break
			}
		}
		amount++
	case "withdraw-wrong-owner":
		owner = r.act.owners[mod(d.B+1, len(r.act.owners))]
		if bytes.Equal(owner.pub, st.ProposalOwner) {
			owner = r.act.owners[mod(d.B+2, len(r.act.owners))]
		}
	}
	n := 1
	if adv == "withdraw-twice-same-block" {
		n = 2
	}
	var res []txMeta
	localUsed := map[string]bool{}
	for i := 0; i < n; i++ {
		m := r.oneWithdraw(as, p, st, owner, amount, localUsed, d.B+i)
		if m == nil {
			break
		}
		m.adv = adv
		res = append(res, *m)
	}
	return res
}

func (r *run) oneWithdraw(as *assembling, p *propRec, st *crstate.ProposalState, owner *keyPair, amount common.Fixed64,
	localUsed map[string]bool, k int) *txMeta {
	cfg := r.cfg()
	if as.height >= cfg.CRConfiguration.CRCProposalWithdrawPayloadV1Height {
		var feeIn *utxoEnt
		for _, e := range r.primary.led.utxosOf(owner.addr) {
			if !as.used[e.op.ReferKey()] && !localUsed[e.op.ReferKey()] && e.out.Value > txFee {
				feeIn = e
				break
			}
		}
		if feeIn == nil {
			return nil
		}
		localUsed[feeIn.op.ReferKey()] = true
		return &txMeta{kind: "withdraw:v1", tx: withdrawTxV1(p.hash, owner, st.Recipient, amount, feeIn, txFee), prop: p}
	}
	expenses := *cfg.CRConfiguration.CRExpensesProgramHash
	var ins []*utxoEnt
	var total common.Fixed64
	for _, e := range r.primary.led.utxosOf(expenses) {
		if as.used[e.op.ReferKey()] || localUsed[e.op.ReferKey()] {
			continue
		}
		ins = append(ins, e)
		total += e.out.Value
		if total >= amount {
			break
		}
	}
	if total < amount || amount <= txFee {
		return nil
	}
	for _, e := range ins {
		localUsed[e.op.ReferKey()] = true
	}
	return &txMeta{kind: "withdraw:v0", tx: withdrawTxV0(p.hash, owner, st.Recipient, expenses, ins, amount-txFee, total-amount), prop: p}
}

func (r *run) iClaim(as *assembling, d TxD) []txMeta {
	ms := r.primary.com.GetAllMembersCopy()
	pver := payload.CurrentCRClaimDPoSNodeVersion
	if as.height >= r.cfg().DPoSV2StartHeight && d.F&1 != 0 {
		ms = r.primary.com.GetNextMembers()
		pver = payload.NextCRClaimDPoSNodeVersion
	}
	if len(ms) == 0 {
		return nil
	}
	m, _ := r.candByDID(ms[mod(d.A, len(ms))].Info.DID)
	if m == nil {
		return nil
	}
	nk := r.act.nodes[mod(d.B, len(r.act.nodes))]
	return one(txMeta{kind: "CRCouncilMemberClaimNode", tx: claimNodeTx(m, nk, pver)})
}

// ---------------------------------------------------------------------------
// adversarial client

var advKinds = []string{
	"over-budget-10pct", "over-budget-remaining", "withdraw-twice-same-block", "withdraw-nothing-available",
	"withdraw-more-than-available", "withdraw-wrong-owner", "withdraw-unapproved", "replay-orphaned",
	"track-by-non-owner", "track-forged-secretary", "track-progress-wrong-stage", "track-after-end",
	"proposal-by-non-member", "review-by-non-member",
}

func (r *run) iAdversary(as *assembling, d TxD) []txMeta {
	kind := advKinds[mod(d.F, len(advKinds))]
	switch kind {
	case "over-budget-10pct", "over-budget-remaining":
		d.F = 0
		return r.iProposal(as, d, kind)
	case "proposal-by-non-member":
		d.F = 0
		return r.iProposal(as, d, kind)
	case "withdraw-twice-same-block", "withdraw-nothing-available", "withdraw-more-than-available",
		"withdraw-wrong-owner", "withdraw-unapproved":
		return r.iWithdraw(as, d, kind)
	case "track-by-non-owner", "track-forged-secretary", "track-after-end":
		d.F = d.C
		return r.iTracking(as, d, kind)
	case "track-progress-wrong-stage":
		d.F = 0
		return r.iTracking(as, d, kind)
	case "review-by-non-member":
		ps := r.proposalsIn(crstate.Registered)
		if len(ps) == 0 {
			return nil
		}
		p := ps[mod(d.A, len(ps))]
		var outsider *candID
		for i := range r.act.cands {
			cd := r.act.cands[mod(d.B+i, len(r.act.cands))]
			if !r.primary.com.IsElectedCRMemberByDID(cd.did) {
				outsider = cd
				break
			}
		}
		if outsider == nil {
			return nil
		}
		return one(txMeta{kind: "CRCProposalReview", tx: reviewTx(p.hash, payload.Approve, outsider, r.reviewVersion(as.height), r.blob("opinion", 0)), prop: p, adv: kind})
	case "replay-orphaned":
		if len(r.orphaned) == 0 {
			return nil
		}
		m := r.orphaned[mod(d.A, len(r.orphaned))]
		m.adv = kind
		return one(m)
	}
	return nil
}
