package crstate

import (
	"crypto/elliptic"
	"crypto/sha256"
	"encoding/binary"
	"fmt"
	"math"
	"math/big"
	"sync"

	"github.com/elastos/Elastos.ELA/common"
	"github.com/elastos/Elastos.ELA/common/config"
	elalog "github.com/elastos/Elastos.ELA/common/log"
	"github.com/elastos/Elastos.ELA/core/contract"
	"github.com/elastos/Elastos.ELA/core/transaction"
	"github.com/elastos/Elastos.ELA/core/types/functions"
	crstate "github.com/elastos/Elastos.ELA/cr/state"
	"github.com/elastos/Elastos.ELA/crypto"

	"verif/sim/core"
)

// ---------------------------------------------------------------------------
// process-wide, run-independent initialisation (outside any bubble)

var initOnce sync.Once

func processInit() {
	initOnce.Do(func() {
		functions.GetTransactionByTxType = transaction.GetTransaction
		functions.GetTransactionByBytes = transaction.GetTransactionByBytes
		functions.CreateTransaction = transaction.CreateTransaction
		functions.GetTransactionParameters = transaction.GetTransactionparameters
		// common/log's package logger is nil by default and checkpoint.Manager /
		// mempool / wallet log through it. Level 255 suppresses every line, so the
		// writer goroutine it starts (outside any bubble) never receives anything.
		elalog.NewDefault(tmpBase()+"/crstate-elalog", 255, 0, 0)
	})
}

// ---------------------------------------------------------------------------
// keys: every key derives from the plan seed

type keyPair struct {
	priv []byte
	pub  []byte // compressed
	pk   *crypto.PublicKey
	code []byte         // standard redeem script
	addr common.Uint168 // standard program hash
}

func deriveKey(seed uint64, label string, idx int) *keyPair {
	n := crypto.DefaultCurve.Params().N
	for ctr := 0; ; ctr++ {
		var b [8]byte
		binary.LittleEndian.PutUint64(b[:], seed)
		h := sha256.Sum256([]byte(fmt.Sprintf("crstate-key|%x|%s|%d|%d", b, label, idx, ctr)))
		d := new(big.Int).SetBytes(h[:])
		if d.Sign() == 0 || d.Cmp(n) >= 0 {
			continue
		}
		priv := make([]byte, 32)
		d.FillBytes(priv)
		pk := crypto.NewPubKey(priv)
		pub, err := pk.EncodePoint(true)
		if err != nil {
			panic(err)
		}
		code, err := contract.CreateStandardRedeemScript(pk)
		if err != nil {
			panic(err)
		}
		ct, _ := contract.CreateStandardContract(pk)
		return &keyPair{priv: priv, pub: pub, pk: pk, code: code, addr: *ct.ToProgramHash()}
	}
}

// sign is deterministic ECDSA over P-256 (nonce derived from key and digest),
// producing the 64-byte r||s format crypto.Verify expects. crypto.Sign draws
// its nonce from crypto/rand, which would make payload bytes, proposal hashes
// and transaction ids differ from run to run.
func (k *keyPair) sign(data []byte) []byte {
	curve := elliptic.P256()
	n := curve.Params().N
	digest := sha256.Sum256(data)
	z := new(big.Int).SetBytes(digest[:])
	d := new(big.Int).SetBytes(k.priv)
	for ctr := 0; ; ctr++ {
		h := sha256.New()
		h.Write([]byte("crstate-nonce"))
		h.Write(k.priv)
		h.Write(digest[:])
		h.Write([]byte{byte(ctr)})
		kk := new(big.Int).SetBytes(h.Sum(nil))
		kk.Mod(kk, new(big.Int).Sub(n, big.NewInt(1)))
		kk.Add(kk, big.NewInt(1))
		rx, _ := curve.ScalarBaseMult(kk.Bytes())
		r := new(big.Int).Mod(rx, n)
		if r.Sign() == 0 {
			continue
		}
		kinv := new(big.Int).ModInverse(kk, n)
		s := new(big.Int).Mul(r, d)
		s.Add(s, z)
		s.Mul(s, kinv)
		s.Mod(s, n)
		if s.Sign() == 0 {
			continue
		}
		sig := make([]byte, 64)
		r.FillBytes(sig[:32])
		s.FillBytes(sig[32:])
		return sig
	}
}

// candidate identity derived from a key
type candID struct {
	*keyPair
	cid     common.Uint168
	did     common.Uint168
	deposit common.Uint168
}

func newCandID(k *keyPair) *candID {
	cid, err := crstate.GetCIDByCode(k.code)
	if err != nil {
		panic(err)
	}
	did, err := crstate.GetDIDByCode(k.code)
	if err != nil {
		panic(err)
	}
	dep, err := contract.CreateDepositContractByCode(k.code)
	if err != nil {
		panic(err)
	}
	return &candID{keyPair: k, cid: *cid, did: *did, deposit: *dep.ToProgramHash()}
}

// actors of one run
type actors struct {
	cands  []*candID
	voters []*keyPair
	owners []*keyPair
	nodes  []*keyPair // DPoS node keys members can claim
	secGen []*keyPair // [0] is the configured secretary general, others are successors
	recips []*keyPair
	stakes []*keyPair // era 2: stake address owners (= voters)
	faucet *keyPair
	miner  *keyPair
}

func newActors(seed uint64, ncand int) *actors {
	a := &actors{}
	for i := 0; i < ncand; i++ {
		a.cands = append(a.cands, newCandID(deriveKey(seed, "cand", i)))
	}
	for i := 0; i < 3; i++ {
		a.voters = append(a.voters, deriveKey(seed, "voter", i))
		a.owners = append(a.owners, deriveKey(seed, "owner", i))
		a.recips = append(a.recips, deriveKey(seed, "recip", i))
		a.secGen = append(a.secGen, deriveKey(seed, "secgen", i))
	}
	for i := 0; i < ncand+2; i++ {
		a.nodes = append(a.nodes, deriveKey(seed, "node", i))
	}
	a.faucet = deriveKey(seed, "faucet", 0)
	a.miner = deriveKey(seed, "miner", 0)
	return a
}

// ---------------------------------------------------------------------------
// configuration: every consensus parameter the harness or an oracle needs is
// read back from the value built here - the same value the code under test gets.

const ela = int64(100000000)

// makeParams builds a fresh Configuration from the plan knobs. Each node
// instance gets its own value (the checkpoint manager mutates DataPath) but all
// values of one run are identical.
func makeParams(p *core.Plan, act *actors) *config.Configuration {
	c := config.GetDefaultParams()
	cr := &c.CRConfiguration
	vs := uint32(p.Knob("votingStart", 4))
	vp := uint32(p.Knob("votingPeriod", 12))
	cr.CRVotingStartHeight = vs
	cr.VotingPeriod = vp
	cr.CRCommitteeStartHeight = vs + vp
	cr.DutyPeriod = uint32(p.Knob("dutyPeriod", 50))
	cr.MemberCount = uint32(p.Knob("members", 3))
	cr.CRAgreementCount = uint32(p.Knob("agree", 2))
	cr.ProposalCRVotingPeriod = uint32(p.Knob("propCRVoting", 3))
	cr.ProposalPublicVotingPeriod = uint32(p.Knob("propPublicVoting", 3))
	cr.DepositLockupBlocks = uint32(p.Knob("depositLockup", 4))
	cr.VoterRejectPercentage = float64(p.Knob("rejectPermille", 10)) / 10.0
	cr.CRCAppropriatePercentage = float64(p.Knob("appropriatePct", 10))
	cr.MaxCommitteeProposalCount = uint32(p.Knob("maxProposals", 6))
	cr.MaxProposalTrackingCount = uint8(p.Knob("maxTracking", 8))
	cr.RegisterCRByDIDHeight = uint32(p.Knob("didHeight", 0))
	cr.CRCProposalV1Height = uint32(p.Knob("v1Height", 0))
	cr.CRCProposalWithdrawPayloadV1Height = uint32(p.Knob("withdrawV1Height", math.MaxUint32))
	cr.CRCProposalDraftDataStartHeight = uint32(p.Knob("draftDataHeight", math.MaxUint32))
	cr.CRClaimDPOSNodeStartHeight = uint32(p.Knob("claimStart", int64(vs+vp)))
	cr.CRClaimDPOSNodePeriod = uint32(p.Knob("claimPeriod", 8))
	cr.CRClaimPeriod = uint32(p.Knob("claimPeriodV2", 3))
	cr.ChangeCommitteeNewCRHeight = uint32(p.Knob("newCRHeight", 0))
	cr.CheckVoteCRCountHeight = 0
	// as on main net the rectify height equals the withdraw-v1 height (it also gates
	// CRCProposalRealWithdraw); rectify transactions themselves are not simulated:
	// the node has no CreateCRAssetsRectifyTransaction callback (see NOTES.md)
	cr.CRAssetsRectifyTransactionHeight = cr.CRCProposalWithdrawPayloadV1Height
	cr.SecretaryGeneral = common.BytesToHexString(act.secGen[0].pub)
	c.DPoSConfiguration.InactivePenalty = common.Fixed64(p.Knob("inactivePenalty", 0))
	c.DPoSV2StartHeight = uint32(p.Knob("dposV2Start", math.MaxUint32))
	c.CustomIDProposalStartHeight = uint32(p.Knob("customIDHeight", 0))
	c.NewCrossChainStartHeight = uint32(p.Knob("sideChainHeight", 0))
	c.CrossChainMonitorStartHeight = math.MaxUint32 // withdraw-from-side-chain monitoring not simulated
	c.NewELAIssuanceHeight = math.MaxUint32
	c.HalvingRewardHeight = math.MaxUint32 - 1
	c.PublicDPOSHeight = 0
	c.PowConfiguration.CoinbaseMaturity = uint32(p.Knob("maturity", 2))
	c.CheckPointConfiguration.EnableHistory = p.Knob("ckpHistory", 1) == 1
	c.CheckPointConfiguration.NeedSave = true
	return c
}
