package crstate

import (
	"errors"
	"sort"

	"github.com/elastos/Elastos.ELA/common"
	"github.com/elastos/Elastos.ELA/core/types"
	common2 "github.com/elastos/Elastos.ELA/core/types/common"
	"github.com/elastos/Elastos.ELA/core/types/interfaces"
)

// ledger is the simulated chain database one node instance reads through its
// callbacks (GetTxReference, GetUTXO, appropriation / real-withdraw builders):
// the transactions of the current branch and the unspent outputs. It does not
// validate anything; block validity is decided by the miner actor with the
// real checkers.

type utxoEnt struct {
	op       common2.OutPoint
	out      *common2.Output
	height   uint32
	coinbase bool
}

type ledgerUndo struct {
	height uint32
	added  []string
	spent  []*utxoEnt
	txs    []common.Uint256
}

type ledger struct {
	utxo     map[string]*utxoEnt
	txs      map[common.Uint256]interfaces.Transaction
	txHeight map[common.Uint256]uint32
	undo     []ledgerUndo
	height   uint32
}

func newLedger() *ledger {
	return &ledger{utxo: map[string]*utxoEnt{}, txs: map[common.Uint256]interfaces.Transaction{}, txHeight: map[common.Uint256]uint32{}}
}

func (l *ledger) apply(b *types.Block) {
	u := ledgerUndo{height: b.Height}
	for _, tx := range b.Transactions {
		h := tx.Hash()
		for _, in := range tx.Inputs() {
			k := in.ReferKey()
			if e, ok := l.utxo[k]; ok {
				u.spent = append(u.spent, e)
				delete(l.utxo, k)
			}
		}
		for i, out := range tx.Outputs() {
			op := common2.OutPoint{TxID: h, Index: uint16(i)}
			k := op.ReferKey()
			l.utxo[k] = &utxoEnt{op: op, out: out, height: b.Height, coinbase: tx.IsCoinBaseTx()}
			u.added = append(u.added, k)
		}
		l.txs[h] = tx
		l.txHeight[h] = b.Height
		u.txs = append(u.txs, h)
	}
	l.undo = append(l.undo, u)
	l.height = b.Height
}

// rollbackTo removes every block above height.
func (l *ledger) rollbackTo(height uint32) {
	for len(l.undo) > 0 && l.undo[len(l.undo)-1].height > height {
		u := l.undo[len(l.undo)-1]
		l.undo = l.undo[:len(l.undo)-1]
		for _, k := range u.added {
			delete(l.utxo, k)
		}
		for _, e := range u.spent {
			l.utxo[e.op.ReferKey()] = e
		}
		for _, h := range u.txs {
			delete(l.txs, h)
			delete(l.txHeight, h)
		}
	}
	l.height = height
}

// references resolves the inputs of tx against the transactions of the branch
// (spent or not), as the node's UTXOCache.GetTxReference does.
func (l *ledger) references(tx interfaces.Transaction) (map[*common2.Input]common2.Output, error) {
	res := make(map[*common2.Input]common2.Output)
	for _, in := range tx.Inputs() {
		prev, ok := l.txs[in.Previous.TxID]
		if !ok {
			return nil, errors.New("GetTxReference failed, unknown referenced transaction")
		}
		outs := prev.Outputs()
		if int(in.Previous.Index) >= len(outs) {
			return nil, errors.New("GetTxReference failed, output index out of range")
		}
		res[in] = *outs[in.Previous.Index]
	}
	return res, nil
}

func (l *ledger) unspent(in *common2.Input) bool {
	_, ok := l.utxo[in.ReferKey()]
	return ok
}

// utxosOf lists unspent outputs of an address in a deterministic order
// (value descending, then outpoint), the order blockchain.getUTXOsFromAddress
// produces.
func (l *ledger) utxosOf(addr common.Uint168) []*utxoEnt {
	var res []*utxoEnt
	for _, e := range l.utxo {
		if e.out.ProgramHash.IsEqual(addr) {
			res = append(res, e)
		}
	}
	sort.Slice(res, func(i, j int) bool {
		if res[i].out.Value != res[j].out.Value {
			return res[i].out.Value > res[j].out.Value
		}
		c := res[i].op.TxID.Compare(res[j].op.TxID)
		if c != 0 {
			return c < 0
		}
		return res[i].op.Index < res[j].op.Index
	})
	return res
}

func (l *ledger) balanceOf(addr common.Uint168) common.Fixed64 {
	var s common.Fixed64
	for _, e := range l.utxo {
		if e.out.ProgramHash.IsEqual(addr) {
			s += e.out.Value
		}
	}
	return s
}

// spendable splits the unspent outputs of addr into mature ones and the locked
// amount (coinbase outputs younger than maturity), like getUTXOsFromAddress.
func (l *ledger) spendable(addr common.Uint168, maturity uint32) ([]*utxoEnt, common.Fixed64) {
	var res []*utxoEnt
	var locked common.Fixed64
	for _, e := range l.utxosOf(addr) {
		if e.coinbase && l.height-e.height < maturity {
			locked += e.out.Value
			continue
		}
		res = append(res, e)
	}
	return res, locked
}
