package crstate

import (
	"fmt"
	"sort"

	"github.com/elastos/Elastos.ELA/common"
	"github.com/elastos/Elastos.ELA/core/types"
	"github.com/elastos/Elastos.ELA/core/types/payload"
	crstate "github.com/elastos/Elastos.ELA/cr/state"
)

// C29 oracle. The model is written from the property text:
//
//   a stage becomes withdrawable  - the imprest stage when the proposal passes
//                                   the public vote (status becomes VoterAgreed),
//                                 - a milestone stage when a Progress tracking
//                                   for that stage is accepted into a block,
//                                 - the final stage when a Finalized tracking
//                                   is accepted into a block;
//   a withdrawal pays              the stages that were withdrawable before the
//                                   block and not yet paid;
//   paid(p) <= sum of budgets(p), every stage paid at most once;
//   what the committee has promised and can be claimed now must be covered by
//   the CR expenses address.
//
// It knows nothing of the node's BudgetsStatus / used-amount bookkeeping.

type propBudget struct {
	withdrawable map[uint8]bool
	paidStage    map[uint8]bool
	paid         common.Fixed64 // coins that left (v0) or were claimed (v1) for this proposal
	status       crstate.ProposalStatus
	known        bool
}

type budgetModel struct {
	props map[common.Uint256]*propBudget
	// multiTrack: some block on this chain carried two or more tracking
	// transactions of one proposal (only a Byzantine block producer does that;
	// the mempool keeps them apart)
	multiTrack bool
}

func newBudgetModel() *budgetModel { return &budgetModel{props: map[common.Uint256]*propBudget{}} }

func (m *budgetModel) clone() *budgetModel {
	n := newBudgetModel()
	n.multiTrack = m.multiTrack
	for h, p := range m.props {
		q := &propBudget{withdrawable: map[uint8]bool{}, paidStage: map[uint8]bool{}, paid: p.paid, status: p.status, known: p.known}
		for k, v := range p.withdrawable {
			q.withdrawable[k] = v
		}
		for k, v := range p.paidStage {
			q.paidStage[k] = v
		}
		n.props[h] = q
	}
	return n
}

func (m *budgetModel) get(h common.Uint256) *propBudget {
	p, ok := m.props[h]
	if !ok {
		p = &propBudget{withdrawable: map[uint8]bool{}, paidStage: map[uint8]bool{}}
		m.props[h] = p
	}
	return p
}

func sortedHashes(m crstate.ProposalsMap) []common.Uint256 {
	var hs []common.Uint256
	for h := range m {
		hs = append(hs, h)
	}
	sort.Slice(hs, func(i, j int) bool { return hs[i].Compare(hs[j]) < 0 })
	return hs
}

func stagesOf(m map[uint8]common.Fixed64) []int {
	var s []int
	for k := range m {
		s = append(s, int(k))
	}
	sort.Ints(s)
	return s
}

// budgetAfterBlock updates the model with the block just processed by the
// primary and checks the invariants.
func (r *run) budgetAfterBlock(b *types.Block, metas []txMeta, pre, post *obs) {
	c := r.c
	com := r.primary.com
	m := r.budget
	all := com.GetAllProposals()

	// payments made by withdraw transactions of this block, per proposal
	paidNow := map[common.Uint256]common.Fixed64{}
	nWithdraw := map[common.Uint256]int{}
	nTrack := map[common.Uint256]int{}
	for _, mt := range metas {
		tx := mt.tx
		if tp, ok := tx.Payload().(*payload.CRCProposalTracking); ok {
			nTrack[tp.ProposalHash]++
			if nTrack[tp.ProposalHash] > 1 {
				m.multiTrack = true
				c.Probe("several-trackings-of-one-proposal-in-one-block")
			}
		}
		if !tx.IsCRCProposalWithdrawTx() {
			continue
		}
		wp := tx.Payload().(*payload.CRCProposalWithdraw)
		var amount common.Fixed64
		if tx.PayloadVersion() == payload.CRCProposalWithdrawVersion01 {
			amount = wp.Amount
		} else {
			// coins leaving the CR expenses address: inputs minus change back to it
			refs, err := r.primary.led.references(tx)
			if err != nil {
				continue
			}
			exp := *r.cfg().CRConfiguration.CRExpensesProgramHash
			for _, o := range refs {
				if o.ProgramHash.IsEqual(exp) {
					amount += o.Value
				}
			}
			for _, o := range tx.Outputs() {
				if o.ProgramHash.IsEqual(exp) {
					amount -= o.Value
				}
			}
		}
		paidNow[wp.ProposalHash] += amount
		nWithdraw[wp.ProposalHash]++
	}

	for _, h := range sortedHashes(all) {
		ps := all[h]
		pb := m.get(h)
		name := fmt.Sprintf("p%d", r.propSeqOf(h))
		budget := map[uint8]payload.Budget{}
		var total common.Fixed64
		for _, bd := range ps.Proposal.Budgets {
			budget[bd.Stage] = bd
			total += bd.Amount
		}

		// newly paid stages according to the node
		var newly []uint8
		var newlyAmount common.Fixed64
		for _, s := range stagesOf(ps.WithdrawnBudgets) {
			st := uint8(s)
			if !pb.paidStage[st] {
				newly = append(newly, st)
				newlyAmount += ps.WithdrawnBudgets[st]
			}
		}
		c.Check()
		for _, st := range newly {
			bd, ok := budget[st]
			if !ok || bd.Amount != ps.WithdrawnBudgets[st] {
				r.viol("C29", "budget", "C29/withdrawn-amount-is-not-the-stage-budget",
					"h=%d %s: WithdrawnBudgets[%d]=%s but the approved budget of that stage is %s (exists=%v)",
					b.Height, name, st, ps.WithdrawnBudgets[st], bd.Amount, ok)
			}
			if !pb.withdrawable[st] {
				r.viol("C29", "budget", "C29/stage-withdrawn-before-it-became-withdrawable",
					"h=%d %s: stage %d was withdrawn in this block but no accepted tracking / public-vote result had made it withdrawable before the block (status %s)",
					b.Height, name, st, ps.Status)
			}
			if nWithdraw[h] == 0 {
				r.viol("C29", "budget", "C29/stage-withdrawn-without-withdraw-transaction",
					"h=%d %s: stage %d became withdrawn in a block without a withdraw transaction for the proposal", b.Height, name, st)
			}
			pb.paidStage[st] = true
		}
		// a paid stage never becomes unpaid again on the same branch
		var paidSorted []int
		for st := range pb.paidStage {
			paidSorted = append(paidSorted, int(st))
		}
		sort.Ints(paidSorted)
		for _, sti := range paidSorted {
			st := uint8(sti)
			if _, ok := ps.WithdrawnBudgets[st]; !ok {
				r.viol("C29", "budget", "C29/paid-stage-forgotten",
					"h=%d %s: stage %d was paid earlier on this branch but is no longer in WithdrawnBudgets", b.Height, name, st)
			}
		}
		// coins paid in this block must be exactly the newly withdrawn stages
		c.Check()
		if paidNow[h] != newlyAmount {
			sig := "C29/payment-differs-from-newly-withdrawn-stages"
			if paidNow[h] > newlyAmount {
				sig = "C29/stage-paid-more-than-once"
				if nWithdraw[h] > 1 {
					sig = "C29/stage-paid-more-than-once/several-withdraw-transactions-in-one-block"
				}
			}
			r.viol("C29", "budget", sig,
				"h=%d %s: %d withdraw transaction(s) in this block paid %s in total but the stages newly marked withdrawn %v are worth %s",
				b.Height, name, nWithdraw[h], paidNow[h], newly, newlyAmount)
		}
		pb.paid += paidNow[h]
		c.Check()
		if pb.paid > total {
			r.viol("C29", "budget", "C29/paid-exceeds-approved-budget",
				"h=%d %s: paid %s in total, approved budget stages sum to %s", b.Height, name, pb.paid, total)
		}
		var wsum common.Fixed64
		for _, a := range ps.WithdrawnBudgets {
			wsum += a
		}
		if wsum > total {
			r.viol("C29", "budget", "C29/withdrawn-exceeds-approved-budget",
				"h=%d %s: WithdrawnBudgets sum %s, approved budget stages sum to %s", b.Height, name, wsum, total)
		}

		// stages that become withdrawable by this block
		if ps.Status == crstate.VoterAgreed && pb.known && pb.status == crstate.CRAgreed {
			for _, bd := range ps.Proposal.Budgets {
				if bd.Type == payload.Imprest {
					pb.withdrawable[bd.Stage] = true
				}
			}
		}
		pb.status, pb.known = ps.Status, true
	}
	for _, mt := range metas {
		if !mt.tx.IsCRCProposalTrackingTx() {
			continue
		}
		tp := mt.tx.Payload().(*payload.CRCProposalTracking)
		ps, ok := all[tp.ProposalHash]
		if !ok {
			continue
		}
		pb := m.get(tp.ProposalHash)
		switch tp.ProposalTrackingType {
		case payload.Progress:
			pb.withdrawable[tp.Stage] = true
		case payload.Finalized:
			for _, bd := range ps.Proposal.Budgets {
				if bd.Type == payload.FinalPayment {
					pb.withdrawable[bd.Stage] = true
				}
			}
		}
	}
	// the node must not consider more stages withdrawable than the model
	for _, h := range sortedHashes(all) {
		ps := all[h]
		pb := m.get(h)
		c.Check()
		for _, s := range stagesOf(ps.WithdrawableBudgets) {
			if !pb.withdrawable[uint8(s)] {
				r.viol("C29", "budget", "C29/stage-withdrawable-without-cause",
					"h=%d p%d: the node lists stage %d as withdrawable (status %s) but no accepted Progress/Finalized tracking or passed public vote made it so",
					b.Height, r.propSeqOf(h), s, ps.Status)
			}
		}
	}
	r.budgetAt[b.Height] = m.clone()
	r.budgetCheckState(post, "after-block")
}

// budgetCheckState checks the invariants that only need the current state
// (also run right after a rollback).
func (r *run) budgetCheckState(o *obs, when string) {
	c := r.c
	com := r.primary.com
	all := com.GetAllProposals()
	m := r.budget

	// paid history of the branch == the node's withdrawn sets
	c.Check()
	for _, h := range sortedHashes(all) {
		ps := all[h]
		pb := m.get(h)
		var ms []int
		for s := range pb.paidStage {
			ms = append(ms, int(s))
		}
		sort.Ints(ms)
		if fmt.Sprint(ms) != fmt.Sprint(stagesOf(ps.WithdrawnBudgets)) {
			r.viol("C29", "budget", "C29/withdrawn-stages-differ-from-payment-history",
				"%s h=%d p%d: stages paid on this branch %v, node's WithdrawnBudgets %v", when, o.height, r.propSeqOf(h), ms, stagesOf(ps.WithdrawnBudgets))
		}
	}

	// funds: commitments of the committee against what it has
	c.Check()
	if com.CRCCommitteeUsedAmount > com.CRCCurrentStageAmount && com.IsInElectionPeriod() {
		r.viol("C29", "funds", "C29/committed-exceeds-stage-amount",
			"%s h=%d: CRCCommitteeUsedAmount=%s > CRCCurrentStageAmount=%s", when, o.height, com.CRCCommitteeUsedAmount, com.CRCCurrentStageAmount)
	}
	// everything claimable right now must be covered by the CR expenses address
	var claimable common.Fixed64
	for _, h := range sortedHashes(all) {
		claimable += com.AvailableWithdrawalAmount(h)
	}
	for _, info := range com.GetRealWithdrawTransactions() {
		claimable += info.Amount
	}
	c.Check()
	bal := r.primary.led.balanceOf(*r.cfg().CRConfiguration.CRExpensesProgramHash)
	pending := common.Fixed64(0)
	if com.IsAppropriationNeeded() {
		pending = com.AppropriationAmount
	}
	if claimable > bal+pending {
		r.viol("C29", "funds", "C29/claimable-exceeds-expenses-balance",
			"%s h=%d: withdrawable-but-unpaid budgets plus pending real withdrawals = %s, CR expenses address holds %s (+%s appropriation pending)",
			when, o.height, claimable, bal, pending)
	}
	// what is committed to live proposals must fit the funds of the term
	var committed common.Fixed64
	for _, h := range sortedHashes(all) {
		ps := all[h]
		pb := m.get(h)
		switch ps.Status {
		case crstate.Registered, crstate.CRAgreed, crstate.VoterAgreed:
			for _, bd := range ps.Proposal.Budgets {
				if !pb.paidStage[bd.Stage] {
					committed += bd.Amount
				}
			}
		case crstate.Finished, crstate.Terminated:
			for _, bd := range ps.Proposal.Budgets {
				if pb.withdrawable[bd.Stage] && !pb.paidStage[bd.Stage] {
					committed += bd.Amount
				}
			}
		}
	}
	c.Check()
	if com.IsInElectionPeriod() && committed > com.CRCCurrentStageAmount {
		r.viol("C29", "funds", "C29/committed-budgets-exceed-term-funds",
			"%s h=%d: unpaid budgets of live proposals sum to %s, funds of the term (CRCCurrentStageAmount) are %s", when, o.height, committed, com.CRCCurrentStageAmount)
	}
	// the committee's own account of what it has committed (the number the
	// registration check subtracts from the term's funds) must not be below
	// what is still owed: otherwise funds that are promised are offered again
	c.Check()
	if com.IsInElectionPeriod() && com.CRCCommitteeUsedAmount < committed {
		sig := "C29/committee-account-below-unpaid-commitments"
		if m.multiTrack {
			sig += "/after-several-trackings-of-one-proposal-in-one-block"
		}
		r.viol("C29", "funds", sig,
			"%s h=%d: CRCCommitteeUsedAmount=%s but unpaid budgets of live proposals (plus approved, uncollected stages of closed ones) sum to %s: %s of promised funds count as free",
			when, o.height, com.CRCCommitteeUsedAmount, committed, committed-com.CRCCommitteeUsedAmount)
	}
	// real money: what is still owed to live proposals (plus claims recorded but
	// not yet paid out) must be covered by the CR expenses address (plus an
	// appropriation that is due)
	var claims common.Fixed64
	for _, info := range com.GetRealWithdrawTransactions() {
		claims += info.Amount
	}
	c.Check()
	if com.IsInElectionPeriod() && committed+claims > bal+pending {
		r.viol("C29", "funds", "C29/unpaid-commitments-exceed-expenses-balance",
			"%s h=%d: unpaid budgets of live proposals %s + recorded claims %s exceed the CR expenses balance %s (+%s appropriation pending)",
			when, o.height, committed, claims, bal, pending)
	}
}
