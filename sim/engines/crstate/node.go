package crstate

import (
	"fmt"
	"os"
	"path/filepath"
	"sort"
	"sync"
	"testing/synctest"

	"github.com/elastos/Elastos.ELA/blockchain"
	"github.com/elastos/Elastos.ELA/common"
	"github.com/elastos/Elastos.ELA/common/config"
	"github.com/elastos/Elastos.ELA/core"
	"github.com/elastos/Elastos.ELA/core/checkpoint"
	"github.com/elastos/Elastos.ELA/core/contract/program"
	"github.com/elastos/Elastos.ELA/core/transaction"
	"github.com/elastos/Elastos.ELA/core/types"
	common2 "github.com/elastos/Elastos.ELA/core/types/common"
	"github.com/elastos/Elastos.ELA/core/types/functions"
	"github.com/elastos/Elastos.ELA/core/types/interfaces"
	"github.com/elastos/Elastos.ELA/core/types/outputpayload"
	"github.com/elastos/Elastos.ELA/core/types/payload"
	crstate "github.com/elastos/Elastos.ELA/cr/state"
	dstate "github.com/elastos/Elastos.ELA/dpos/state"
	elaerr "github.com/elastos/Elastos.ELA/errors"
	"github.com/elastos/Elastos.ELA/p2p"
)

// node is one simulated node instance as far as the CR committee is concerned:
// the real Committee + checkpoint Manager, the simulated chain database behind
// its callbacks, and the shell objects the real transaction checkers read.
type node struct {
	name    string
	cfg     *config.Configuration
	mgr     *checkpoint.Manager
	com     *crstate.Committee
	led     *ledger
	bc      *blockchain.BlockChain
	dpos    *dstate.State
	tip     uint32 // what GetHeight() answers (chain best height)
	viaMgr  bool   // blocks go through Manager.OnBlockSaved (else Committee.ProcessBlock)
	dataDir string

	mu      sync.Mutex
	pending []interfaces.Transaction // transactions the committee handed to its tx pool callback
	closed  bool
}

// stakeHolders are the stake addresses of the run's voters (set per run).
var stakeHolders []common.Uint168

const stakeRights = common.Fixed64(1500000 * 100000000)

func newNode(name string, cfg *config.Configuration, led *ledger, viaMgr bool, dataDir string) *node {
	n := &node{name: name, cfg: cfg, led: led, viaMgr: viaMgr, dataDir: dataDir}
	n.mgr = checkpoint.NewManager(cfg)
	if dataDir != "" {
		n.mgr.SetDataPath(dataDir)
	} else {
		cfg.CheckPointConfiguration.NeedSave = false
	}
	n.com = crstate.NewCommittee(cfg, n.mgr)
	n.com.RegisterFuncitons(&crstate.CommitteeFuncsConfig{
		GetTxReference: func(tx interfaces.Transaction) (map[*common2.Input]common2.Output, error) {
			return n.bc.UTXOCache.GetTxReference(tx)
		},
		GetHeight:                        func() uint32 { return n.tip },
		CreateCRAppropriationTransaction: n.createAppropriationTx,
		CreateCRRealWithdrawTransaction:  n.createRealWithdrawTx,
		IsCurrent:                        func() bool { return true },
		Broadcast:                        func(msg p2p.Message) {},
		AppendToTxpool:                   n.appendToTxPool,
		GetUTXO:                          n.getUTXO,
		GetCurrentArbiters:               func() [][]byte { return nil },
	})
	n.dpos = dstate.NewState(cfg, nil, nil, nil, func() bool { return n.com.IsInElectionPeriod() },
		nil, nil, nil, nil, nil, nil, nil)
	for _, sh := range stakeHolders {
		// vote rights are DPoS-state business (ExchangeVotes); here every voter
		// simply holds some
		n.dpos.DposV2VoteRights[sh] = stakeRights
	}
	n.bc = &blockchain.BlockChain{UTXOCache: blockchain.NewUTXOCache(ledgerStore{led}, cfg)}
	n.bc.SetCRCommittee(n.com)
	n.bc.SetState(n.dpos)
	return n
}

// close stops the checkpoint manager's file goroutines.
func (n *node) close() {
	if !n.closed {
		n.closed = true
		n.mgr.Close()
	}
}

func (n *node) getUTXO(programHash *common.Uint168) ([]*common2.UTXO, error) {
	var res []*common2.UTXO
	for _, e := range n.led.utxosOf(*programHash) {
		res = append(res, &common2.UTXO{TxID: e.op.TxID, Index: e.op.Index, Value: e.out.Value})
	}
	return res, nil
}

func (n *node) appendToTxPool(tx interfaces.Transaction) elaerr.ELAError {
	n.mu.Lock()
	n.pending = append(n.pending, tx)
	n.mu.Unlock()
	return nil
}

// takePending returns and clears the transactions the committee created since
// the last call, in a stable order.
func (n *node) takePending() []interfaces.Transaction {
	n.mu.Lock()
	p := n.pending
	n.pending = nil
	n.mu.Unlock()
	sort.SliceStable(p, func(i, j int) bool {
		if p[i].TxType() != p[j].TxType() {
			return p[i].TxType() < p[j].TxType()
		}
		hi, hj := p[i].Hash(), p[j].Hash()
		return hi.Compare(hj) < 0
	})
	return p
}

// createTx mirrors blockchain.createTransaction/createInputs: spend the given
// outputs in order until the amount is covered, change back to the source.
func createSystemTx(pd interfaces.Payload, txType common2.TxType, from common.Uint168, fee common.Fixed64,
	utxos []*utxoEnt, outs []*common2.OutputInfo) (interfaces.Transaction, error) {
	var txOutputs []*common2.Output
	total := fee
	for _, o := range outs {
		txOutputs = append(txOutputs, &common2.Output{AssetID: core.ELAAssetID, Value: o.Amount,
			ProgramHash: o.Recipient, Type: common2.OTNone, Payload: &outputpayload.DefaultOutput{}})
		total += o.Amount
	}
	var inputs []*common2.Input
	for _, u := range utxos {
		inputs = append(inputs, &common2.Input{Previous: u.op, Sequence: 4294967295})
		if u.out.Value < total {
			total -= u.out.Value
		} else if u.out.Value == total {
			total = 0
			break
		} else {
			txOutputs = append(txOutputs, &common2.Output{AssetID: core.ELAAssetID, Value: u.out.Value - total,
				ProgramHash: from, Type: common2.OTNone, Payload: &outputpayload.DefaultOutput{}})
			total = 0
			break
		}
	}
	if total > 0 {
		return nil, fmt.Errorf("[Committee], Available token is not enough")
	}
	return functions.CreateTransaction(common2.TxVersion09, txType, 0, pd, []*common2.Attribute{},
		inputs, txOutputs, 0, []*program.Program{}), nil
}

// createAppropriationTx stands in for BlockChain.CreateCRCAppropriationTransaction
// over the simulated chain database.
func (n *node) createAppropriationTx() (interfaces.Transaction, common.Fixed64, error) {
	assets := *n.cfg.CRConfiguration.CRAssetsProgramHash
	utxos, locked := n.led.spendable(assets, n.cfg.PowConfiguration.CoinbaseMaturity)
	var bal common.Fixed64
	for _, u := range utxos {
		bal += u.out.Value
	}
	amount := common.Fixed64(float64(bal) * n.cfg.CRConfiguration.CRCAppropriatePercentage / 100.0)
	if amount <= 0 {
		return nil, 0, nil
	}
	tx, err := createSystemTx(&payload.CRCAppropriation{}, common2.CRCAppropriation, assets, 0, utxos,
		[]*common2.OutputInfo{{Recipient: *n.cfg.CRConfiguration.CRExpensesProgramHash, Amount: amount}})
	if err != nil {
		return nil, 0, err
	}
	return tx, locked, nil
}

// createRealWithdrawTx stands in for BlockChain.CreateCRRealWithdrawTransaction.
func (n *node) createRealWithdrawTx(hashes []common.Uint256, outputs []*common2.OutputInfo) (interfaces.Transaction, error) {
	// the committee passes map-ordered slices; order them (pairwise) so the
	// resulting transaction does not depend on map iteration order
	idx := make([]int, len(hashes))
	for i := range idx {
		idx[i] = i
	}
	sort.Slice(idx, func(a, b int) bool { return hashes[idx[a]].Compare(hashes[idx[b]]) < 0 })
	hs := make([]common.Uint256, len(hashes))
	os := make([]*common2.OutputInfo, len(outputs))
	for i, j := range idx {
		hs[i] = hashes[j]
		o := *outputs[j]
		os[i] = &o
	}
	expenses := *n.cfg.CRConfiguration.CRExpensesProgramHash
	utxos, _ := n.led.spendable(expenses, n.cfg.PowConfiguration.CoinbaseMaturity)
	for _, o := range os {
		o.Amount -= n.cfg.CRConfiguration.RealWithdrawSingleFee
	}
	fee := n.cfg.CRConfiguration.RealWithdrawSingleFee * common.Fixed64(len(hs))
	return createSystemTx(&payload.CRCProposalRealWithdraw{WithdrawTransactionHashes: hs},
		common2.CRCProposalRealWithdraw, expenses, fee, utxos, os)
}

// connect feeds one block the way the node does after the block was stored:
// chain database first, then the checkpoint manager (-> Committee.ProcessBlock).
func (n *node) connect(b *types.Block, init bool, tipDuringInit uint32) {
	if n.led.height < b.Height {
		n.led.apply(b)
	}
	if init {
		n.tip = tipDuringInit
	} else {
		n.tip = b.Height
	}
	if n.bc != nil {
		n.bc.Nodes = make([]*blockchain.BlockNode, int(n.tip)+1)
	}
	if n.viaMgr {
		n.mgr.OnBlockSaved(&types.DposBlock{Block: b}, nil, false, 0, init)
	} else {
		n.com.ProcessBlock(b, nil)
	}
	synctest.Wait()
}

// rollbackTo disconnects blocks one at a time, as reorganizeChain does.
func (n *node) rollbackTo(height uint32, stepwise bool, detachLedger bool) error {
	cur := n.tip
	if stepwise {
		for h := cur; h > height; h-- {
			var err error
			if n.viaMgr {
				err = n.mgr.OnRollbackTo(h-1, false)
			} else {
				err = n.com.RollbackTo(h - 1)
			}
			if err != nil {
				return err
			}
			if detachLedger {
				n.led.rollbackTo(h - 1)
			}
			n.tip = h - 1
		}
	} else {
		var err error
		if n.viaMgr {
			err = n.mgr.OnRollbackTo(height, false)
		} else {
			err = n.com.RollbackTo(height)
		}
		if err != nil {
			return err
		}
		if detachLedger {
			n.led.rollbackTo(height)
		}
		n.tip = height
	}
	n.mu.Lock()
	n.pending = nil // the pool drops transactions created for the abandoned branch
	n.mu.Unlock()
	n.bc.UTXOCache.CleanCache() // as reorganizeChain does
	if n.bc != nil {
		n.bc.Nodes = make([]*blockchain.BlockNode, int(n.tip)+1)
	}
	synctest.Wait()
	return nil
}

// check runs the real per-transaction checks that do not need a chain
// database: HeightVersionCheck, CheckTransactionPayload, SpecialContextCheck
// with references resolved against the simulated chain, and the vote-output
// part of the default context check.
func (n *node) check(tx interfaces.Transaction, height uint32, proposalsUsed common.Fixed64) error {
	params := &transaction.TransactionParameters{
		Transaction:         tx,
		BlockHeight:         height,
		TimeStamp:           0,
		Config:              n.cfg,
		BlockChain:          n.bc,
		ProposalsUsedAmount: proposalsUsed,
	}
	if err := tx.SetParameters(params); err != nil {
		return fmt.Errorf("set-parameters")
	}
	if err := tx.HeightVersionCheck(); err != nil {
		return fmt.Errorf("height-version: %v", err)
	}
	if err := tx.CheckTransactionPayload(); err != nil {
		return fmt.Errorf("payload-type: %v", err)
	}
	refs, err := n.bc.UTXOCache.GetTxReference(tx)
	if err != nil {
		return fmt.Errorf("unknown-reference")
	}
	for _, in := range tx.Inputs() {
		if !n.led.unspent(in) {
			return fmt.Errorf("double-spend")
		}
	}
	tx.SetReferences(refs)
	if cerr, _ := tx.SpecialContextCheck(); cerr != nil {
		return fmt.Errorf("special: %v", cerr.InnerError())
	}
	if tx.TxType() == common2.TransferAsset {
		if err := transaction.VerifCheckVoteOutputs(params, refs); err != nil {
			return fmt.Errorf("vote-outputs: %v", err)
		}
	}
	return nil
}

// ledgerStore is the IUTXOCacheStore (transaction lookup of the chain
// database) behind the node's real UTXOCache.
type ledgerStore struct{ l *ledger }

func (s ledgerStore) GetTransaction(txID common.Uint256) (interfaces.Transaction, uint32, error) {
	tx, ok := s.l.txs[txID]
	if !ok {
		return nil, 0, fmt.Errorf("transaction not in the chain database")
	}
	return tx, s.l.txHeight[txID], nil
}

func tmpBase() string {
	if d := os.Getenv("SIM_TMP"); d != "" {
		return d
	}
	return os.TempDir()
}

func runDir(tag string) string {
	return filepath.Join(tmpBase(), fmt.Sprintf("crstate-%d-%s", os.Getpid(), tag))
}
