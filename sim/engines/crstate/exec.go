package crstate

import (
	"encoding/json"
	"fmt"
	"os"
	"sort"

	"github.com/elastos/Elastos.ELA/blockchain"
	"github.com/elastos/Elastos.ELA/common"
	"github.com/elastos/Elastos.ELA/common/config"
	"github.com/elastos/Elastos.ELA/core/contract"
	"github.com/elastos/Elastos.ELA/core/types"
	common2 "github.com/elastos/Elastos.ELA/core/types/common"
	"github.com/elastos/Elastos.ELA/core/types/interfaces"
	"github.com/elastos/Elastos.ELA/core/types/payload"
	crstate "github.com/elastos/Elastos.ELA/cr/state"
	dstate "github.com/elastos/Elastos.ELA/dpos/state"
	"github.com/elastos/Elastos.ELA/mempool"

	"verif/sim/core"
)

// TxD is one transaction intent. Indices are modular references into whatever
// exists when the step executes (candidates, members, proposals in a given
// status, the voter's outputs), so a step stays meaningful when others are
// deleted by the shrinker.
type TxD struct {
	K string `json:"k"`
	A int    `json:"a,omitempty"`
	B int    `json:"b,omitempty"`
	C int    `json:"c,omitempty"`
	V int64  `json:"v,omitempty"`
	F int    `json:"f,omitempty"`
}

// Step is one simulator step.
type Step struct {
	Op  string `json:"op"`            // block | idle | rollback | restart | ckpt
	Txs []TxD  `json:"txs,omitempty"` // block: intents
	N   int    `json:"n,omitempty"`   // idle: number of empty blocks; rollback: depth
	F   int    `json:"f,omitempty"`   // block: 1 = miner withholds optional system transactions; restart: variant
}

type Engine struct{}

func (Engine) Name() string { return "crstate" }

func (Engine) Components() ([]string, []string) {
	return []string{
			"cr/state Committee, State, ProposalManager, KeyFrame/StateKeyFrame/ProposalKeyFrame, Checkpoint (ProcessBlock, RollbackTo, Recover, Snapshot, Serialize/Deserialize)",
			"utils.History as used by cr/state",
			"core/checkpoint Manager + fileChannels goroutine (OnBlockSaved, OnRollbackTo, Restore, SafeHeight; real files under SIM_TMP)",
			"core/transaction: HeightVersionCheck + CheckTransactionPayload + SpecialContextCheck of RegisterCR, UpdateCR, UnregisterCR, ReturnCRDepositCoin, CRCProposal, CRCProposalReview, CRCProposalTracking, CRCProposalWithdraw, CRCProposalRealWithdraw, CRCAppropriation, CRCouncilMemberClaimNode; vote-output check of TransferAsset (tryCheckVoteOutputs)",
			"blockchain.CheckDuplicateTx, blockchain.RecordCRCProposalAmount, mempool conflict manager (honest miner)",
			"dpos/state CheckPoint + StateKeyFrame, mempool txPoolCheckpoint, wallet CoinsCheckPoint (Serialize/Deserialize round trips, C23)",
			"real transaction/payload types and serialisation (core/types, core/types/payload, outputpayload)",
		}, []string{
			"chain database = in-memory ledger of the harness (transactions of the branch, unspent outputs) behind GetTxReference/GetUTXO",
			"CreateCRCAppropriationTransaction / CreateCRRealWithdrawTransaction callbacks re-implemented over that ledger (mirror blockchain.createTransaction)",
			"miner/mempool actor: ~60 lines selecting which checked transactions enter a block; block-level appropriation rule mirrored from Arbiters.CheckCRCAppropriationTx",
			"restart procedure: mirror of BlockChain.InitCheckpoint (Restore, SafeHeight, replay with init=true)",
			"dpos/state.State (empty, real type) and ArbitratorsMock behind the checkers' producer-key lookups",
			"ECDSA signing in the harness is deterministic (nonce from key and digest); verification is the real crypto.Verify",
			"clock/goroutines = testing/synctest bubble",
		}
}

func (e Engine) Execute(c *core.Ctx) {
	processInit()
	core.Bubble(c.T, func() { execute(c) })
}

// ---------------------------------------------------------------------------

type txMeta struct {
	kind string
	tx   interfaces.Transaction
	prop *propRec // proposal created / referenced
	adv  string   // adversarial variant, if any
}

type blockRec struct {
	b     *types.Block
	metas []txMeta
}

// propRec is what the client actors remember about a proposal they submitted.
type propRec struct {
	hash   common.Uint256
	pver   byte
	typ    payload.CRCProposalType
	seq    int // creation sequence number of the run (stable name in logs)
	height uint32
}

type run struct {
	c        *core.Ctx
	prop     string
	plan     *core.Plan
	act      *actors
	keyByPub map[string]*keyPair
	base     string

	chain    []*blockRec // chain[i] has height i+1
	primary  *node
	twin     *node
	twinLed  *ledger
	faulted  bool
	byzMiner bool
	stepwise bool

	props    []*propRec // proposals submitted on the current branch, in order
	propIdx  map[common.Uint256]*propRec
	sysPool  []interfaces.Transaction // system transactions the primary's committee created last block
	orphaned []txMeta                 // transactions of abandoned branches (replay material)
	propSeq  int
	nonce    int

	budget   *budgetModel
	budgetAt map[uint32]*budgetModel

	ckptDone             bool
	halt                 bool // a new divergence was reported: the rest of the run would only show its consequences
	cmpCount             int
	newViols             int
	seenSig              map[string]bool
	c28cause             map[common.Uint168]string // C28 (CR half): cause suffix that stays with a deposit book entry
	faultCtx             string // what the last fault crossed; part of twin-divergence signatures
	collapseSig          string // when set, every twin difference is reported under this one signature
	twinProp, twinOracle string // property judged by the twin comparison (C22 after rollbacks, C23 after restarts)
	stats                map[string]int
}

func execute(c *core.Ctx) {
	p := c.Plan
	steps := make([]Step, len(p.Steps))
	for i, raw := range p.Steps {
		if err := json.Unmarshal(raw, &steps[i]); err != nil {
			panic(fmt.Sprintf("bad step %d: %v", i, err))
		}
	}
	r := &run{c: c, prop: p.Property, plan: p, budgetAt: map[uint32]*budgetModel{}, stats: map[string]int{}, propIdx: map[common.Uint256]*propRec{}, seenSig: map[string]bool{}}
	r.base = runDir(fmt.Sprintf("%016x", p.Seed))
	os.RemoveAll(r.base)
	os.MkdirAll(r.base, 0755)
	defer os.RemoveAll(r.base)

	r.act = newActors(p.Seed, int(p.Knob("ncand", 5)))
	r.keyByPub = map[string]*keyPair{}
	for _, l := range [][]*keyPair{r.act.voters, r.act.owners, r.act.recips, r.act.secGen, r.act.nodes} {
		for _, k := range l {
			r.keyByPub[string(k.pub)] = k
		}
	}
	for _, cd := range r.act.cands {
		r.keyByPub[string(cd.pub)] = cd.keyPair
	}
	stakeHolders = nil
	for _, v := range r.act.voters {
		if ct, err := contract.CreateStakeContractByCode(v.code); err == nil {
			stakeHolders = append(stakeHolders, *ct.ToProgramHash())
		}
	}
	r.byzMiner = p.Knob("byzMiner", 0) == 1
	r.stepwise = p.Knob("stepwiseRollback", 1) == 1

	// process-global singletons the checkers read
	blockchain.DefaultLedger = &blockchain.Ledger{Arbitrators: dstate.NewArbitratorsMock(nil, 0, 0)}
	config.DefaultParams = *makeParams(p, r.act)
	defer func() { blockchain.DefaultLedger = nil }()

	viaMgr := p.Knob("viaManager", 1) == 1
	dataDir := ""
	if p.Knob("saveCheckpoints", 0) == 1 {
		dataDir = r.base + "/ckp-primary"
	}
	r.primary = newNode("primary", makeParams(p, r.act), newLedger(), viaMgr, dataDir)
	blockchain.DefaultLedger.Blockchain = r.primary.bc
	blockchain.DefaultLedger.Committee = r.primary.com
	defer func() {
		r.primary.close()
		if r.twin != nil {
			r.twin.close()
		}
	}()
	r.budget = newBudgetModel()

	c.SetSample(map[string]interface{}{"knobs": p.Knobs, "steps": sampleSteps(p.Steps, 14), "nsteps": len(p.Steps)})

	if p.Knob("populate", 0) == 1 {
		r.populatedRoundTrips()
	}

	for i, st := range steps {
		c.CurStep = i
		switch st.Op {
		case "block":
			r.mineBlock(st.Txs, st.F)
		case "idle":
			n := st.N
			if n < 1 {
				n = 1
			}
			for j := 0; j < n; j++ {
				r.mineBlock(nil, 0)
				if r.stop() {
					break
				}
			}
		case "rollback":
			r.rollback(st.N)
		case "restart":
			r.restart(st.F)
		case "ckpt":
			r.checkpointRoundTrip()
		}
		if r.stop() {
			break
		}
	}
	r.finish()
}

func sampleSteps(s []json.RawMessage, n int) []json.RawMessage {
	if len(s) > n {
		return s[:n]
	}
	return s
}

// stop: enough new (not listed as known) violations were recorded.
func (r *run) stop() bool {
	return r.halt || r.newViols >= r.c.MaxViols
}

// viol reports a violation and counts those that are not listed known findings.
func (r *run) viol(prop, oracle, sig, format string, a ...interface{}) {
	if !r.isKnown(prop, sig) && !r.seenSig[prop+"|"+sig] {
		r.seenSig[prop+"|"+sig] = true
		r.newViols++
	}
	r.c.Violate(prop, oracle, sig, format, a...)
}

func (r *run) height() uint32 { return uint32(len(r.chain)) }

func (r *run) cfg() *config.Configuration { return r.primary.cfg }

// ---------------------------------------------------------------------------
// block assembly: the miner actor

type assembling struct {
	height   uint32
	txs      []interfaces.Transaction
	metas    []txMeta
	used     map[string]bool // inputs spent by transactions already in the block
	conflict *mempool.VerifConflictSet
	propUsed common.Fixed64
}

func (r *run) mineBlock(intents []TxD, flags int) {
	h := r.height() + 1
	cfg := r.cfg()
	as := &assembling{height: h, used: map[string]bool{}}
	if !r.byzMiner {
		as.conflict = mempool.VerifNewConflictSet()
	}

	// coinbase: the CR assets share once the CR era started, the rest to the miner
	reward := cfg.GetBlockReward(h)
	var outs []*common2.Output
	// quietFirstBlock keeps the block at CRVotingStartHeight free of anything the
	// committee records (no CR share in the coinbase, no CR transactions)
	quiet := r.plan.Knob("quietFirstBlock", 0) == 1
	first := cfg.CRConfiguration.CRVotingStartHeight
	if quiet {
		first++
		if h == first-1 {
			intents = nil
		}
	}
	if h >= first {
		outs = append(outs, plainOut(*cfg.CRConfiguration.CRAssetsProgramHash, reward*30/100))
	}
	if seed := r.plan.Knob("assetsSeed", 0); seed > 0 && h == first {
		// a donation to the CR assets address when the CR era starts, so that
		// budgets are not all dust
		outs = append(outs, plainOut(*cfg.CRConfiguration.CRAssetsProgramHash, common.Fixed64(seed*ela)))
	}
	outs = append(outs, plainOut(r.act.miner.addr, reward*70/100))
	if h == 1 {
		outs = append(outs, r.faucetOutputs()...)
	}
	r.nonce++
	cb := coinbaseTx(h, outs, []byte(fmt.Sprintf("crstate %d %d", h, r.nonce)))
	as.txs = append(as.txs, cb)
	as.metas = append(as.metas, txMeta{kind: "coinbase", tx: cb})

	// system transactions created by the committee after the previous block
	needAppr := r.primary.com.IsAppropriationNeeded()
	for _, tx := range r.sysPool {
		optional := !tx.IsCRCAppropriationTx() && !tx.IsCustomIDResultTx() // these two are demanded by block validation
		if optional && flags&1 == 1 {
			r.c.Probe("miner-withheld-system-tx")
			continue
		}
		kind := "sys:" + tx.TxType().Name()
		if tx.IsCRCAppropriationTx() && !needAppr {
			continue
		}
		r.tryInclude(as, txMeta{kind: kind, tx: tx})
	}
	r.sysPool = nil

	for _, d := range intents {
		for _, m := range r.buildIntent(as, d) {
			r.tryInclude(as, m)
		}
	}

	b := &types.Block{Header: common2.Header{Height: h, Timestamp: uint32(1546300800 + int(h)*120)}, Transactions: as.txs}
	if err := blockchain.CheckDuplicateTx(b); err != nil {
		// a block the real sanity check refuses is never fed: drop the offending
		// CR transactions (keep the first of each CID)
		r.c.Probe("block-duplicate-cr-dropped")
		b, as = r.dropDuplicateCR(b, as)
	}
	r.chain = append(r.chain, &blockRec{b: b, metas: as.metas})
	r.connectBlock(b, as.metas)
}

func (r *run) dropDuplicateCR(b *types.Block, as *assembling) (*types.Block, *assembling) {
	seen := map[common.Uint168]bool{}
	var txs []interfaces.Transaction
	var metas []txMeta
	for i, tx := range as.txs {
		var cid *common.Uint168
		switch p := tx.Payload().(type) {
		case *payload.CRInfo:
			cid = &p.CID
		case *payload.UnregisterCR:
			cid = &p.CID
		}
		if cid != nil {
			if seen[*cid] {
				continue
			}
			seen[*cid] = true
		}
		txs = append(txs, tx)
		metas = append(metas, as.metas[i])
	}
	as.txs, as.metas = txs, metas
	nb := &types.Block{Header: b.Header, Transactions: txs}
	return nb, as
}

// tryInclude runs the real checks and, when they pass, puts the transaction
// into the block being assembled.
func (r *run) tryInclude(as *assembling, m txMeta) bool {
	tx := m.tx
	name := m.kind
	if m.adv != "" {
		name = "adv:" + m.adv
		r.c.Fault("adv-" + m.adv)
	}
	for _, in := range tx.Inputs() {
		if as.used[in.ReferKey()] {
			r.c.Logf("h%d rej %s double-spend-in-block", as.height, name)
			return false
		}
	}
	if err := r.primary.check(tx, as.height, as.propUsed); err != nil {
		r.c.Logf("h%d rej %s %s", as.height, name, clip(err.Error(), 70))
		r.stats["rej:"+m.kind]++
		return false
	}
	if as.conflict != nil {
		if err := as.conflict.VerifyAndAppend(tx); err != nil {
			r.c.Logf("h%d rej %s pool-conflict", as.height, name)
			r.c.Probe("pool-conflict-rejected")
			return false
		}
	}
	for _, in := range tx.Inputs() {
		as.used[in.ReferKey()] = true
	}
	if tx.IsCRCProposalTx() {
		blockchain.RecordCRCProposalAmount(&as.propUsed, tx)
	}
	as.txs = append(as.txs, tx)
	as.metas = append(as.metas, m)
	r.c.Logf("h%d acc %s", as.height, name)
	r.c.Probe("tx:" + m.kind)
	if m.adv != "" {
		r.c.Probe("adv-accepted:" + m.adv)
	}
	return true
}

func clip(s string, n int) string {
	if len(s) > n {
		return s[:n]
	}
	return s
}

// connectBlock feeds a block to the primary (and the twin), then runs oracles.
func (r *run) connectBlock(b *types.Block, metas []txMeta) {
	for _, m := range metas {
		if m.kind == "proposal" && m.prop != nil {
			rec := *m.prop
			rec.height = b.Height
			if old, ok := r.propIdx[rec.hash]; ok {
				rec.seq = old.seq
			}
			r.propIdx[rec.hash] = &rec
			r.props = append(r.props, &rec)
		}
	}
	pre := r.observe(r.primary)
	r.primary.connect(b, false, 0)
	r.sysPool = r.primary.takePending()
	if r.twin != nil {
		r.twin.connect(b, false, 0)
		r.twin.takePending()
	}
	post := r.observe(r.primary)
	r.reachProbes(pre, post, metas)
	r.budgetAfterBlock(b, metas, pre, post)
	r.c28AfterBlock(b, metas, pre, post)
	if r.twin != nil {
		r.compareTwin("block")
	}
	r.c.State(post.fingerprint())
	r.c.Logf("h%d ok txs=%d %s", b.Height, len(b.Transactions)-1, post.summary())
}

// ---------------------------------------------------------------------------
// faults

// rollback disconnects depth blocks from the primary, builds a fresh twin from
// the surviving branch and compares.
func (r *run) rollback(depth int) {
	h := r.height()
	lo := r.cfg().CRConfiguration.CRVotingStartHeight
	if h <= lo+1 {
		return
	}
	if depth < 1 {
		depth = 1
	}
	max := int(h - lo - 1)
	if depth > max {
		depth = max
	}
	target := h - uint32(depth)
	pre := r.observe(r.primary)
	if err := r.primary.rollbackTo(target, r.stepwise, true); err != nil {
		r.viol(r.prop, "rollback", "C22/rollback-returned-error", "RollbackTo(%d) from %d: %v", target, h, err)
		return
	}
	for _, br := range r.chain[target:] {
		for _, m := range br.metas[1:] {
			if len(r.orphaned) < 64 {
				r.orphaned = append(r.orphaned, m)
			}
		}
	}
	r.chain = r.chain[:target]
	var keep []*propRec
	for _, p := range r.props {
		if p.height <= target {
			keep = append(keep, p)
		}
	}
	r.props = keep
	r.sysPool = nil
	r.faulted = true
	r.c.Fault("rollback")
	if depth >= 3 {
		r.c.Fault("rollback-depth>=3")
	}
	post := r.observe(r.primary)
	r.faultCtx = "rollback"
	r.collapseSig = ""
	r.twinProp, r.twinOracle = "C22", "twin"
	if pre.lastCommittee != post.lastCommittee || pre.session != post.session || pre.nextMembers != post.nextMembers ||
		pre.members != post.members {
		// a committee change, the election of the next committee (DPoS v2 era), or
		// the dissolution of a committee without successors
		r.c.Probe("rollback-crossed-committee-change")
		r.faultCtx = "rollback-across-committee-change"
	}
	if pre.inElection != post.inElection {
		r.c.Probe("rollback-crossed-election-period-change")
	}
	if pre.statusSig != post.statusSig {
		r.c.Probe("rollback-crossed-proposal-status-transition")
	}
	if pre.withdrawnSig != post.withdrawnSig {
		r.c.Probe("rollback-crossed-withdrawal")
	}
	if pre.candSig != post.candSig {
		r.c.Probe("rollback-crossed-candidate-change")
	}
	r.c.Logf("rollback %d->%d", h, target)

	// budget model follows the chain
	if m, ok := r.budgetAt[target]; ok {
		r.budget = m.clone()
	} else {
		r.budget = newBudgetModel()
	}
	for k := range r.budgetAt {
		if k > target {
			delete(r.budgetAt, k)
		}
	}

	if r.prop != "C29" { // the budget property is judged by the model, not by a twin
		r.rebuildTwin()
		r.compareTwin("after-rollback")
	}
	r.budgetCheckState(post, "after-rollback")
}

// rebuildTwin builds a fresh node and feeds it the surviving branch, block by
// block, exactly as a node that never saw the abandoned blocks.
func (r *run) rebuildTwin() {
	if r.twin != nil {
		r.twin.close()
	}
	r.twinLed = newLedger()
	r.twin = newNode("twin", makeParams(r.plan, r.act), r.twinLed, r.primary.viaMgr, "")
	for _, br := range r.chain {
		r.twin.connect(br.b, false, 0)
		r.twin.takePending()
	}
	r.c.Probe("twin-rebuilt")
}

func (r *run) finish() {
	if r.twin != nil && !r.halt {
		r.compareTwin("final")
	}
	// deterministic summary of reach for the event log
	var ks []string
	for k := range r.stats {
		ks = append(ks, k)
	}
	sort.Strings(ks)
	for _, k := range ks {
		r.c.Logf("stat %s=%d", k, r.stats[k])
	}
	r.c.AddSimSeconds(float64(r.height()) * 120)
}

// faucetOutputs funds the actors in block 1 (before the CR era; the committee
// ignores that block).
func (r *run) faucetOutputs() []*common2.Output {
	var outs []*common2.Output
	dep := common.Fixed64(crstate.MinDepositAmount)
	for _, cd := range r.act.cands {
		for i := 0; i < 4; i++ {
			outs = append(outs, plainOut(cd.addr, dep+common.Fixed64(int64(100+i)*ela)))
		}
	}
	for vi, v := range r.act.voters {
		for i := 0; i < 5; i++ {
			outs = append(outs, plainOut(v.addr, common.Fixed64(int64(400000+1000*vi+i)*ela)))
		}
	}
	for oi, o := range r.act.owners {
		for i := 0; i < 12; i++ {
			outs = append(outs, plainOut(o.addr, common.Fixed64(int64(10+oi)*ela+int64(i))))
		}
	}
	return outs
}

// SimplifyStep proposes simpler variants of one step for the shrinker: a block
// without its intents, or with one intent fewer. Block steps themselves mostly
// have to stay because they are the clock of the history.
func (Engine) SimplifyStep(raw json.RawMessage) []json.RawMessage {
	var st Step
	if json.Unmarshal(raw, &st) != nil {
		return nil
	}
	var res []json.RawMessage
	add := func(s Step) {
		if b, err := json.Marshal(s); err == nil {
			res = append(res, b)
		}
	}
	switch st.Op {
	case "block":
		if len(st.Txs) == 0 && st.F == 0 {
			return nil
		}
		add(Step{Op: "block"})
		if len(st.Txs) > 1 {
			for i := range st.Txs {
				s := Step{Op: "block", F: st.F}
				s.Txs = append(append([]TxD{}, st.Txs[:i]...), st.Txs[i+1:]...)
				add(s)
			}
		}
	case "rollback":
		if st.N > 1 {
			add(Step{Op: "rollback", N: st.N - 1})
			add(Step{Op: "rollback", N: 1})
		}
	}
	return res
}
