package crstate

import (
	"bytes"
	"fmt"
	"io"
	"math"
	"reflect"
	"sort"
	"strings"
	"unsafe"

	"github.com/elastos/Elastos.ELA/common"
	common2 "github.com/elastos/Elastos.ELA/core/types/common"
	"github.com/elastos/Elastos.ELA/core/types/outputpayload"
	crstate "github.com/elastos/Elastos.ELA/cr/state"
	dstate "github.com/elastos/Elastos.ELA/dpos/state"
	"github.com/elastos/Elastos.ELA/wallet"

	"verif/sim/core"
)

// ---------------------------------------------------------------------------
// C23 (a): checkpoint round trips

type serializable interface {
	Serialize(w io.Writer) error
	Deserialize(r io.Reader) error
}

// byteHistogram is an order-independent digest of a byte string: two
// serialisations of the same content that differ only in map iteration order
// have the same length and the same histogram.
func byteHistogram(b []byte) string {
	var h [256]int
	for _, c := range b {
		h[c]++
	}
	return fmt.Sprintf("%d:%v", len(b), h)
}

// roundTrip serialises orig, deserialises into fresh, compares every field and
// checks that the copy serialises to the same content again. kind names the
// checkpoint in signatures; skip lists paths that are not state.
func (r *run) roundTrip(kind, variant string, orig, fresh serializable, skip []string, probe bool) {
	c := r.c
	buf := new(bytes.Buffer)
	if err := orig.Serialize(buf); err != nil {
		r.viol("C23", "roundtrip", "C23/"+kind+"/serialize-error", "%s %s: Serialize failed: %v", kind, variant, err)
		return
	}
	b1 := append([]byte(nil), buf.Bytes()...)
	if err := fresh.Deserialize(bytes.NewReader(b1)); err != nil {
		r.viol("C23", "roundtrip", "C23/"+kind+"/deserialize-error", "%s %s: Deserialize of its own serialisation failed: %v", kind, variant, err)
		return
	}
	w := newWalker()
	w.max = 200
	for _, s := range skip {
		w.skip[s] = true
	}
	populated := map[string]bool{}
	if probe {
		w.onField = func(path, typeField string, zero bool) {
			np := kind + ":" + typeField
			if !zero {
				populated[np] = true
			} else if _, ok := populated[np]; !ok {
				populated[np] = false
			}
		}
	}
	w.walk(kind, reflect.ValueOf(orig), reflect.ValueOf(fresh), 0)
	c.Check()
	seen := map[string]bool{}
	for _, d := range w.diffs {
		np := d.at
		if np == "" {
			np = normPath(d.path)
		}
		if seen[np] {
			continue
		}
		seen[np] = true
		what := "field-lost"
		if strings.HasPrefix(d.a, "unreachable") || strings.HasPrefix(d.a, "unsupported") {
			what = "field-unreachable"
		}
		r.viol("C23", "roundtrip", fmt.Sprintf("C23/%s/%s/%s", kind, what, np),
			"%s %s: after Serialize+Deserialize %s is %s, was %s", kind, variant, d.path, d.b, d.a)
	}
	if probe {
		var ks []string
		for k := range populated {
			ks = append(ks, k)
		}
		sort.Strings(ks)
		for _, k := range ks {
			if populated[k] {
				c.Probe("populated:" + k)
			} else {
				c.Probe("not-populated:" + k)
			}
		}
		c.ProbeN("roundtrip-leaf-values-compared:"+kind, w.visited)
	}
	// re-serialise: same content
	buf2 := new(bytes.Buffer)
	if err := fresh.Serialize(buf2); err != nil {
		r.viol("C23", "roundtrip", "C23/"+kind+"/reserialize-error", "%s %s: Serialize of the restored copy failed: %v", kind, variant, err)
		return
	}
	c.Check()
	if byteHistogram(b1) != byteHistogram(buf2.Bytes()) {
		r.viol("C23", "roundtrip", "C23/"+kind+"/reserialized-bytes-differ",
			"%s %s: the restored copy serialises to different content (%d vs %d bytes)", kind, variant, len(b1), buf2.Len())
	}
	c.Probe("roundtrip:" + kind + ":" + variant)
}

// checkpointRoundTrip: C23(a) on the live committee checkpoint of the primary.
func (r *run) checkpointRoundTrip() {
	cp, ok := r.primary.mgr.GetCheckpoint("cp_cr", math.MaxUint32)
	if !ok || cp == nil {
		return
	}
	cp.Snapshot() // refreshes the checkpoint's frames from the committee (initFromCommittee)
	r.roundTrip("cr", "live", cp.(*crstate.Checkpoint), &crstate.Checkpoint{}, []string{"cr.committee"}, false)
	r.c.Logf("ckpt h=%d", r.primary.tip)
}

// populatedRoundTrips: C23(a) with every field of every checkpoint kind
// populated by a reflection-driven generator.
func (r *run) populatedRoundTrips() {
	f := newFiller(core.NewRng(r.plan.Seed ^ 0x23c23))
	// CR
	cr := &crstate.Checkpoint{}
	f.fill(reflect.ValueOf(cr).Elem(), "cr", map[string]bool{"cr.committee": true})
	r.roundTrip("cr", "populated", cr, &crstate.Checkpoint{}, []string{"cr.committee"}, true)
	// DPoS
	dp := &dstate.CheckPoint{}
	f.fill(reflect.ValueOf(dp).Elem(), "dpos", map[string]bool{"dpos.arbitrators": true})
	r.roundTrip("dpos", "populated", dp, &dstate.CheckPoint{}, []string{"dpos.arbitrators"}, true)
	// wallet
	wc := wallet.NewCoinCheckPoint()
	f.fill(reflect.ValueOf(wc).Elem(), "wallet", nil)
	r.roundTrip("wallet", "populated", wc, wallet.NewCoinCheckPoint(), nil, true)
	r.txPoolRoundTrip()
	// the other end: every set and list allocated but EMPTY (a healthy chain
	// that has not yet seen its first illegal evidence, inactive arbiter, ...).
	// A set that was usable when saved must be usable when restored: a non-nil
	// map coming back nil makes the first later insertion panic.
	for _, k := range []struct {
		kind        string
		orig, fresh serializable
		skip        string
	}{
		{"cr", &crstate.Checkpoint{}, &crstate.Checkpoint{}, "cr.committee"},
		{"dpos", &dstate.CheckPoint{}, &dstate.CheckPoint{}, "dpos.arbitrators"},
	} {
		f2 := newFiller(core.NewRng(r.plan.Seed ^ 0xe23c23))
		f2.fill(reflect.ValueOf(k.orig).Elem(), k.kind, map[string]bool{k.skip: true})
		emptyCollections(reflect.ValueOf(k.orig).Elem(), k.kind, map[string]bool{k.skip: true}, 0)
		buf := new(bytes.Buffer)
		if err := k.orig.Serialize(buf); err != nil {
			continue
		}
		if err := k.fresh.Deserialize(bytes.NewReader(buf.Bytes())); err != nil {
			r.viol("C23", "roundtrip", "C23/"+k.kind+"/deserialize-error/emptied", "%s emptied: Deserialize of its own serialisation failed: %v", k.kind, err)
			continue
		}
		r.c.Check()
		for _, p := range nilledMaps(reflect.ValueOf(k.orig).Elem(), reflect.ValueOf(k.fresh).Elem(), k.kind, map[string]bool{k.skip: true}, 0) {
			r.viol("C23", "roundtrip", "C23/"+k.kind+"/empty-set-restored-as-nil/"+normPath(p), "%s: the empty (allocated) map %s is nil after Serialize+Deserialize: the first insertion after a restore panics", k.kind, p)
		}
		r.c.Probe("roundtrip:" + k.kind + ":emptied")
	}
}

// emptyCollections replaces every non-nil map by an empty allocated one and
// truncates every slice to length 0, recursively.
func emptyCollections(v reflect.Value, path string, skip map[string]bool, depth int) {
	if depth > 12 || skip[path] {
		return
	}
	switch v.Kind() {
	case reflect.Ptr:
		if !v.IsNil() {
			emptyCollections(v.Elem(), path, skip, depth+1)
		}
	case reflect.Struct:
		for i := 0; i < v.NumField(); i++ {
			emptyCollections(settable(v.Field(i)), path+"."+lowerFirst(v.Type().Field(i).Name), skip, depth+1)
		}
	case reflect.Map:
		if !v.IsNil() {
			settable(v).Set(reflect.MakeMap(v.Type()))
		}
	case reflect.Slice:
		if !v.IsNil() && v.Type().Elem().Kind() != reflect.Uint8 {
			settable(v).Set(reflect.MakeSlice(v.Type(), 0, 0))
		}
	}
}

// nilledMaps lists the maps that are non-nil in a and nil in b.
func nilledMaps(a, b reflect.Value, path string, skip map[string]bool, depth int) []string {
	if depth > 12 || skip[path] || a.Kind() != b.Kind() {
		return nil
	}
	var out []string
	switch a.Kind() {
	case reflect.Ptr:
		if !a.IsNil() && !b.IsNil() {
			out = append(out, nilledMaps(a.Elem(), b.Elem(), path, skip, depth+1)...)
		}
	case reflect.Struct:
		for i := 0; i < a.NumField(); i++ {
			out = append(out, nilledMaps(a.Field(i), b.Field(i), path+"."+lowerFirst(a.Type().Field(i).Name), skip, depth+1)...)
		}
	case reflect.Map:
		if !a.IsNil() && b.IsNil() {
			out = append(out, path)
		}
	}
	return out
}

func lowerFirst(s string) string {
	if s == "" {
		return s
	}
	return strings.ToLower(s[:1]) + s[1:]
}

// ---------------------------------------------------------------------------
// reflection filler: sets every field (exported or not) to a non-zero value

type filler struct {
	rng    *core.Rng
	n      int
	ifaces map[reflect.Type][]reflect.Type // interface type -> concrete (pointer) types to rotate through
}

func newFiller(rng *core.Rng) *filler {
	f := &filler{rng: rng, ifaces: map[reflect.Type][]reflect.Type{}}
	// concrete ArbiterMember implementations (unexported types): obtained from
	// instances made by the exported constructors
	key := deriveKey(1, "filler", 0)
	var members []reflect.Type
	if a, err := dstate.NewOriginArbiter(key.pub); err == nil {
		members = append(members, reflect.TypeOf(a))
	}
	if a, err := dstate.NewCRCArbiter(key.pub, key.pub, &crstate.CRMember{}, true); err == nil {
		members = append(members, reflect.TypeOf(a))
	}
	if a, err := dstate.NewDPoSArbiter(producerWithKey(key.pub)); err == nil {
		members = append(members, reflect.TypeOf(a))
	}
	f.ifaces[reflect.TypeOf((*dstate.ArbiterMember)(nil)).Elem()] = members
	return f
}

// producerWithKey builds a Producer whose (unexported) info carries an owner
// key, so that NewDPoSArbiter accepts it.
func producerWithKey(pub []byte) *dstate.Producer {
	p := &dstate.Producer{}
	info := settable(reflect.ValueOf(p).Elem().FieldByName("info"))
	info.FieldByName("OwnerKey").SetBytes(pub)
	info.FieldByName("NodePublicKey").SetBytes(pub)
	return p
}

func settable(v reflect.Value) reflect.Value {
	if v.CanSet() {
		return v
	}
	return reflect.NewAt(v.Type(), unsafe.Pointer(v.UnsafeAddr())).Elem()
}

func (f *filler) next() int {
	f.n++
	return f.n
}

func (f *filler) bytes(n int) []byte {
	b := f.rng.Bytes(n)
	b[0] |= 1
	return b
}

func (f *filler) fill(v reflect.Value, path string, skip map[string]bool) {
	if skip[path] {
		return
	}
	v = settable(v)
	t := v.Type()
	switch typeName(t) {
	case "common.Output":
		f.fillOutput(v, path, skip)
		return
	case "sync.RWMutex", "sync.Mutex":
		return
	}
	switch v.Kind() {
	case reflect.Bool:
		v.SetBool(true)
	case reflect.Int, reflect.Int8, reflect.Int16, reflect.Int32, reflect.Int64:
		v.SetInt(int64(1 + f.rng.Intn(100)))
	case reflect.Uint8:
		v.SetUint(uint64(1 + f.rng.Intn(5)))
	case reflect.Uint, reflect.Uint16, reflect.Uint32, reflect.Uint64:
		v.SetUint(uint64(1 + f.rng.Intn(100000)))
	case reflect.Float32, reflect.Float64:
		v.SetFloat(1.5 + float64(f.rng.Intn(100)))
	case reflect.String:
		v.SetString(fmt.Sprintf("s%d", f.next()))
	case reflect.Array:
		if t.Elem().Kind() == reflect.Uint8 {
			b := f.bytes(v.Len())
			for i := 0; i < v.Len(); i++ {
				v.Index(i).SetUint(uint64(b[i]))
			}
			return
		}
		for i := 0; i < v.Len(); i++ {
			f.fill(v.Index(i), path+"[]", skip)
		}
	case reflect.Slice:
		if t.Elem().Kind() == reflect.Uint8 {
			v.SetBytes(f.bytes(33))
			return
		}
		s := reflect.MakeSlice(t, 2, 2)
		for i := 0; i < 2; i++ {
			f.fill(s.Index(i), path+"[]", skip)
		}
		v.Set(s)
	case reflect.Map:
		m := reflect.MakeMap(t)
		for i := 0; i < 2; i++ {
			k := reflect.New(t.Key()).Elem()
			f.fill(k, path+"{key}", skip)
			e := reflect.New(t.Elem()).Elem()
			f.fill(e, path+"{}", skip)
			m.SetMapIndex(k, e)
		}
		v.Set(m)
	case reflect.Ptr:
		p := reflect.New(t.Elem())
		f.fill(p.Elem(), path, skip)
		v.Set(p)
	case reflect.Struct:
		for i := 0; i < t.NumField(); i++ {
			f.fill(v.Field(i), path+"."+t.Field(i).Name, skip)
		}
		f.fixup(v)
	case reflect.Interface:
		impls := f.ifaces[t]
		if len(impls) == 0 {
			return // e.g. interface{} values of a set-like map: nil is what deserialisation yields
		}
		ct := impls[f.next()%len(impls)]
		p := reflect.New(ct.Elem())
		f.fill(p.Elem(), path+"<"+typeName(ct.Elem())+">", skip)
		v.Set(p)
	}
}

// fixup enforces the few cross-field constraints serialisation relies on.
func (f *filler) fixup(v reflect.Value) {
	switch typeName(v.Type()) {
	case "wallet.Coin":
		// outputs of transactions older than version 9 carry no type/payload
		settable(v.FieldByName("TxVersion")).SetUint(uint64(common2.TxVersion09))
	case "outputpayload.VoteOutput":
		// candidate votes are only written for the producer-and-CR version
		settable(v.FieldByName("Version")).SetUint(uint64(outputpayload.VoteProducerAndCRVersion))
	}
}

// fillOutput makes an output whose Type and Payload agree.
func (f *filler) fillOutput(v reflect.Value, path string, skip map[string]bool) {
	out := v.Addr().Interface().(*common2.Output)
	copy(out.AssetID[:], f.bytes(32))
	out.Value = common.Fixed64(1 + f.rng.Intn(1000000))
	out.OutputLock = uint32(1 + f.rng.Intn(1000))
	copy(out.ProgramHash[:], f.bytes(21))
	switch f.next() % 2 {
	case 0:
		out.Type = common2.OTNone
		out.Payload = &outputpayload.DefaultOutput{}
	default:
		out.Type = common2.OTVote
		vo := &outputpayload.VoteOutput{}
		f.fill(reflect.ValueOf(vo).Elem(), path+".Payload<outputpayload.VoteOutput>", skip)
		out.Payload = vo
	}
}
