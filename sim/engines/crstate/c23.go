package crstate

import (
	"bytes"
	"fmt"
	"io"
	"math"
	"reflect"
	"sort"
	"strings"
	"unsafe"

	"github.com/elastos/Elastos.ELA/common"
	common2 "github.com/elastos/Elastos.ELA/core/types/common"
	"github.com/elastos/Elastos.ELA/core/types/outputpayload"
	crstate "github.com/elastos/Elastos.ELA/cr/state"
	dstate "github.com/elastos/Elastos.ELA/dpos/state"
	"github.com/elastos/Elastos.ELA/wallet"

	"verif/sim/core"
)

// ---------------------------------------------------------------------------
// C23 (a): checkpoint round trips

type serializable interface {
	Serialize(w io.Writer) error
	Deserialize(r io.Reader) error
}

// byteHistogram is an order-independent digest of a byte string: two
// serialisations of the same content that differ only in map iteration order
// have the same length and the same histogram.
func byteHistogram(b []byte) string {
	var h [256]int
	for _, c := range b {
		h[c]++
	}
	return fmt.Sprintf("%d:%v", len(b), h)
}

// roundTrip serialises orig, deserialises into fresh, compares every field and
// checks that the copy serialises to the same content again. kind names the
// checkpoint in signatures; skip lists paths that are not state.
func (r *run) roundTrip(kind, variant string, orig, fresh serializable, skip []string, probe bool) {
	c := r.c
	buf := new(bytes.Buffer)
	if err := orig.Serialize(buf); err != nil {
		r.viol("C23", "roundtrip", "C23/"+kind+"/serialize-error", "%s %s: Serialize failed: %v", kind, variant, err)
		return
	}
	b1 := append([]byte(nil), buf.Bytes()...)
	if err := fresh.Deserialize(bytes.NewReader(b1)); err != nil {
		r.viol("C23", "roundtrip", "C23/"+kind+"/deserialize-error", "%s %s: Deserialize of its own serialisation failed: %v", kind, variant, err)
		return
	}
	w := newWalker()
	w.max = 200
	for _, s := range skip {
		w.skip[s] = true
	}
	populated := map[string]bool{}
	if probe {
		w.onField = func(path, typeField string, zero bool) {
			np := kind + ":" + typeField
			if !zero {
				populated[np] = true
			} else if _, ok := populated[np]; !ok {
				populated[np] = false
			}
		}
	}
	w.walk(kind, reflect.ValueOf(orig), reflect.ValueOf(fresh), 0)
	c.Check()
	seen := map[string]bool{}
	for _, d := range w.diffs {
		np := d.at
		if np == "" {
			np = normPath(d.path)
		}
		if seen[np] {
			continue
		}
		seen[np] = true
		what := "field-lost"
		if strings.HasPrefix(d.a, "unreachable") || strings.HasPrefix(d.a, "unsupported") {
			what = "field-unreachable"
		}
		r.viol("C23", "roundtrip", fmt.Sprintf("C23/%s/%s/%s", kind, what, np),
			"%s %s: after Serialize+Deserialize %s is %s, was %s", kind, variant, d.path, d.b, d.a)
	}
	if probe {
		var ks []string
		for k := range populated {
			ks = append(ks, k)
		}
		sort.Strings(ks)
		for _, k := range ks {
			if populated[k] {
				c.Probe("populated:" + k)
			} else {
				c.Probe("not-populated:" + k)
			}
		}
		c.ProbeN("roundtrip-leaf-values-compared:"+kind, w.visited)
	}
	// re-serialise: same content
	buf2 := new(bytes.Buffer)
	if err := fresh.Serialize(buf2); err != nil {
		r.viol("C23", "roundtrip", "C23/"+kind+"/reserialize-error", "%s %s: Serialize of the restored copy failed: %v", kind, variant, err)
		return
	}
	c.Check()
	if byteHistogram(b1) != byteHistogram(buf2.Bytes()) {
		r.viol("C23", "roundtrip", "C23/"+kind+"/reserialized-bytes-differ",
			"%s %s: the restored copy serialises to different content (%d vs %d bytes)", kind, variant, len(b1), buf2.Len())
	}
	c.Probe("roundtrip:" + kind + ":" + variant)
}

// checkpointRoundTrip: C23(a) on the live committee checkpoint of the primary.
func (r *run) checkpointRoundTrip() {
	cp, ok := r.primary.mgr.GetCheckpoint("cp_cr", math.MaxUint32)
	if !ok || cp == nil {
		return
	}
	cp.Snapshot() // refreshes the checkpoint's frames from the committee (initFromCommittee)
	r.roundTrip("cr", "live", cp.(*crstate.Checkpoint), &crstate.Checkpoint{}, []string{"cr.committee"}, false)
	r.c.Logf("ckpt h=%d", r.primary.tip)
}

// populatedRoundTrips: C23(a) with every field of every checkpoint kind
// populated by a reflection-driven generator.
func (r *run) populatedRoundTrips() {
	f := newFiller(core.NewRng(r.plan.Seed ^ 0x23c23))
	// CR
	cr := &crstate.Checkpoint{}
	f.fill(reflect.ValueOf(cr).Elem(), "cr", map[string]bool{"cr.committee": true})
	r.roundTrip("cr", "populated", cr, &crstate.Checkpoint{}, []string{"cr.committee"}, true)
	// DPoS
	dp := &dstate.CheckPoint{}
	f.fill(reflect.ValueOf(dp).Elem(), "dpos", map[string]bool{"dpos.arbitrators": true})
	r.roundTrip("dpos", "populated", dp, &dstate.CheckPoint{}, []string{"dpos.arbitrators"}, true)
	// wallet
	wc := wallet.NewCoinCheckPoint()
	f.fill(reflect.ValueOf(wc).Elem(), "wallet", nil)
	r.roundTrip("wallet", "populated", wc, wallet.NewCoinCheckPoint(), nil, true)
	r.txPoolRoundTrip()
}

// ---------------------------------------------------------------------------
// reflection filler: sets every field (exported or not) to a non-zero value

type filler struct {
	rng    *core.Rng
	n      int
	ifaces map[reflect.Type][]reflect.Type // interface type -> concrete (pointer) types to rotate through
}

func newFiller(rng *core.Rng) *filler {
	f := &filler{rng: rng, ifaces: map[reflect.Type][]reflect.Type{}}
	// concrete ArbiterMember implementations (unexported types): obtained from
	// instances made by the exported constructors
	key := deriveKey(1, "filler", 0)
	var members []reflect.Type
	if a, err := dstate.NewOriginArbiter(key.pub); err == nil {
		members = append(members, reflect.TypeOf(a))
	}
	if a, err := dstate.NewCRCArbiter(key.pub, key.pub, &crstate.CRMember{}, true); err == nil {
		members = append(members, reflect.TypeOf(a))
	}
	if a, err := dstate.NewDPoSArbiter(producerWithKey(key.pub)); err == nil {
		members = append(members, reflect.TypeOf(a))
	}
	f.ifaces[reflect.TypeOf((*dstate.ArbiterMember)(nil)).Elem()] = members
	return f
}

// producerWithKey builds a Producer whose (unexported) info carries an owner
// key, so that NewDPoSArbiter accepts it.
func producerWithKey(pub []byte) *dstate.Producer {
	p := &dstate.Producer{}
	info := settable(reflect.ValueOf(p).Elem().FieldByName("info"))
	info.FieldByName("OwnerKey").SetBytes(pub)
	info.FieldByName("NodePublicKey").SetBytes(pub)
	return p
}

func settable(v reflect.Value) reflect.Value {
	if v.CanSet() {
		return v
	}
	return reflect.NewAt(v.Type(), unsafe.Pointer(v.UnsafeAddr())).Elem()
}

func (f *filler) next() int {
	f.n++
	return f.n
}

func (f *filler) bytes(n int) []byte {
	b := f.rng.Bytes(n)
	b[0] |= 1
	return b
}

func (f *filler) fill(v reflect.Value, path string, skip map[string]bool) {
	if skip[path] {
		return
	}
	v = settable(v)
	t := v.Type()
	switch typeName(t) {
	case "common.Output":
		f.fillOutput(v, path, skip)
		return
	case "sync.RWMutex", "sync.Mutex":
		return
	}
	switch v.Kind() {
	case reflect.Bool:
		v.SetBool(true)
	case reflect.Int, reflect.Int8, reflect.Int16, reflect.Int32, reflect.Int64:
		v.SetInt(int64(1 + f.rng.Intn(100)))
	case reflect.Uint8:
		v.SetUint(uint64(1 + f.rng.Intn(5)))
	case reflect.Uint, reflect.Uint16, reflect.Uint32, reflect.Uint64:
		v.SetUint(uint64(1 + f.rng.Intn(100000)))
	case reflect.Float32, reflect.Float64:
		v.SetFloat(1.5 + float64(f.rng.Intn(100)))
	case reflect.String:
		v.SetString(fmt.Sprintf("s%d", f.next()))
	case reflect.Array:
		if t.Elem().Kind() == reflect.Uint8 {
			b := f.bytes(v.Len())
			for i := 0; i < v.Len(); i++ {
				v.Index(i).SetUint(uint64(b[i]))
			}
			return
		}
		for i := 0; i < v.Len(); i++ {
			f.fill(v.Index(i), path+"[]", skip)
		}
	case reflect.Slice:
		if t.Elem().Kind() == reflect.Uint8 {
			v.SetBytes(f.bytes(33))
			return
		}
		s := reflect.MakeSlice(t, 2, 2)
		for i := 0; i < 2; i++ {
			f.fill(s.Index(i), path+"[]", skip)
		}
		v.Set(s)
	case reflect.Map:
		m := reflect.MakeMap(t)
		for i := 0; i < 2; i++ {
			k := reflect.New(t.Key()).Elem()
			f.fill(k, path+"{key}", skip)
			e := reflect.New(t.Elem()).Elem()
			f.fill(e, path+"{}", skip)
			m.SetMapIndex(k, e)
		}
		v.Set(m)
	case reflect.Ptr:
		p := reflect.New(t.Elem())
		f.fill(p.Elem(), path, skip)
		v.Set(p)
	case reflect.Struct:
		for i := 0; i < t.NumField(); i++ {
			f.fill(v.Field(i), path+"."+t.Field(i).Name, skip)
		}
		f.fixup(v)
	case reflect.Interface:
		impls := f.ifaces[t]
		if len(impls) == 0 {
			return // e.g. interface{} values of a set-like map: nil is what deserialisation yields
		}
		ct := impls[f.next()%len(impls)]
		p := reflect.New(ct.Elem())
		f.fill(p.Elem(), path+"<"+typeName(ct.Elem())+">", skip)
		v.Set(p)
	}
}

// fixup enforces the few cross-field constraints serialisation relies on.
func (f *filler) fixup(v reflect.Value) {
	switch typeName(v.Type()) {
	case "wallet.Coin":
		// outputs of transactions older than version 9 carry no type/payload
		settable(v.FieldByName("TxVersion")).SetUint(uint64(common2.TxVersion09))
	case "outputpayload.VoteOutput":
		// candidate votes are only written for the producer-and-CR version
		settable(v.FieldByName("Version")).SetUint(uint64(outputpayload.VoteProducerAndCRVersion))
	}
}

// fillOutput makes an output whose Type and Payload agree.
func (f *filler) fillOutput(v reflect.Value, path string, skip map[string]bool) {
	out := v.Addr().Interface().(*common2.Output)
	copy(out.AssetID[:], f.bytes(32))
	out.Value = common.Fixed64(1 + f.rng.Intn(1000000))
	out.OutputLock = uint32(1 + f.rng.Intn(1000))
	copy(out.ProgramHash[:], f.bytes(21))
	switch f.next() % 2 {
	case 0:
		out.Type = common2.OTNone
		out.Payload = &outputpayload.DefaultOutput{}
	default:
		out.Type = common2.OTVote
		vo := &outputpayload.VoteOutput{}
		f.fill(reflect.ValueOf(vo).Elem(), path+".Payload<outputpayload.VoteOutput>", skip)
		out.Payload = vo
	}
}
