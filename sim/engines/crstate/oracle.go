package crstate

import (
	"fmt"
	"hash/fnv"
	"math"
	"sort"
	"strings"

	"github.com/elastos/Elastos.ELA/blockchain"
	"github.com/elastos/Elastos.ELA/common"
	crstate "github.com/elastos/Elastos.ELA/cr/state"
)

// obs is a cheap, deterministic observation of a node through its public
// getters, used for reach probes, logging and state fingerprints.
type obs struct {
	height          uint32
	inElection      bool
	inVoting        bool
	lastCommittee   uint32
	lastVotingStart uint32
	session         uint64
	members         int
	nextMembers     int
	candSig         string
	memberSig       string
	statusSig       string
	withdrawnSig    string
	needAppr        bool
	votedCands      int
	penaltyBlocks   int
	status          map[common.Uint256]crstate.ProposalStatus
	memberState     map[common.Uint168]crstate.MemberState
	deposit         map[common.Uint168]crstate.DepositInfo // the state's deposit book per CID (C28)
}

var allStatuses = []crstate.ProposalStatus{crstate.Registered, crstate.CRAgreed, crstate.VoterAgreed, crstate.Finished,
	crstate.CRCanceled, crstate.VoterCanceled, crstate.Terminated, crstate.Aborted}

func (r *run) observe(n *node) *obs {
	com := n.com
	o := &obs{height: n.tip, status: map[common.Uint256]crstate.ProposalStatus{}, memberState: map[common.Uint168]crstate.MemberState{}}
	o.inElection = com.IsInElectionPeriod()
	o.inVoting = com.IsInVotingPeriod(n.tip + 1)
	o.lastCommittee = com.GetCROnDutyStartHeight()
	o.lastVotingStart = com.GetCRVotingStartHeight()
	o.session = com.GetState().CurrentSession
	o.deposit = map[common.Uint168]crstate.DepositInfo{}
	for cid, di := range com.GetState().DepositInfo {
		if di != nil {
			o.deposit[cid] = *di
		}
	}
	o.needAppr = com.IsAppropriationNeeded()
	ms := com.GetAllMembersCopy()
	o.members = len(ms)
	o.nextMembers = len(com.GetNextMembers())
	var parts []string
	for _, m := range ms {
		o.memberState[m.Info.DID] = m.MemberState
		parts = append(parts, fmt.Sprintf("%s:%d", r.candName(m.Info.CID), m.MemberState))
		o.penaltyBlocks += int(m.PenaltyBlockCount)
	}
	sort.Strings(parts)
	o.memberSig = strings.Join(parts, ",")
	parts = nil
	for _, cd := range com.GetAllCandidates() {
		parts = append(parts, fmt.Sprintf("%s:%d", r.candName(cd.Info.CID), cd.State))
		if cd.Votes != 0 {
			o.votedCands++
		}
	}
	sort.Strings(parts)
	o.candSig = strings.Join(parts, ",")
	parts = nil
	var wparts []string
	for h, ps := range com.GetAllProposals() {
		o.status[h] = ps.Status
		parts = append(parts, fmt.Sprintf("p%d:%d", r.propSeqOf(h), ps.Status))
		var st []int
		for s := range ps.WithdrawnBudgets {
			st = append(st, int(s))
		}
		sort.Ints(st)
		if len(st) > 0 {
			wparts = append(wparts, fmt.Sprintf("p%d:%v", r.propSeqOf(h), st))
		}
	}
	sort.Strings(parts)
	sort.Strings(wparts)
	o.statusSig = strings.Join(parts, ",")
	o.withdrawnSig = strings.Join(wparts, ",")
	return o
}

func (o *obs) summary() string {
	return fmt.Sprintf("el=%v vot=%v lc=%d lvs=%d ses=%d mem=[%s]p%d cand=[%s]v%d prop=[%s] wd=[%s]",
		o.inElection, o.inVoting, o.lastCommittee, o.lastVotingStart, o.session, o.memberSig, o.penaltyBlocks, o.candSig, o.votedCands, o.statusSig, o.withdrawnSig)
}

func (o *obs) fingerprint() uint64 {
	h := fnv.New64a()
	// height-independent abstraction of the committee state
	fmt.Fprintf(h, "%v|%v|%d|%s|%s|%s|%s|%v", o.inElection, o.inVoting, o.session%3, o.memberSig, o.candSig,
		stripSeq(o.statusSig), stripSeq(o.withdrawnSig), o.needAppr)
	return h.Sum64()
}

func stripSeq(s string) string {
	// "p3:1,p4:2" -> multiset of statuses only
	var out []string
	for _, p := range strings.Split(s, ",") {
		if i := strings.Index(p, ":"); i >= 0 {
			out = append(out, p[i+1:])
		}
	}
	sort.Strings(out)
	return strings.Join(out, ",")
}

func (r *run) candName(cid common.Uint168) string {
	for i, cd := range r.act.cands {
		if cd.cid.IsEqual(cid) {
			return fmt.Sprintf("c%d", i)
		}
	}
	return "c?"
}

func (r *run) candByDID(did common.Uint168) (*candID, int) {
	for i, cd := range r.act.cands {
		if cd.did.IsEqual(did) {
			return cd, i
		}
	}
	return nil, -1
}

func (r *run) candByCID(cid common.Uint168) (*candID, int) {
	for i, cd := range r.act.cands {
		if cd.cid.IsEqual(cid) {
			return cd, i
		}
	}
	return nil, -1
}

func (r *run) propSeqOf(h common.Uint256) int {
	if p, ok := r.propIdx[h]; ok {
		return p.seq
	}
	return -1
}

// reachProbes counts transitions the workload is supposed to reach.
func (r *run) reachProbes(pre, post *obs, metas []txMeta) {
	c := r.c
	if !pre.inElection && post.inElection {
		c.Probe("election-period-started")
	}
	if pre.inElection && !post.inElection {
		c.Probe("election-period-ended")
	}
	if pre.inVoting != post.inVoting {
		if post.inVoting {
			c.Probe("voting-period-started")
		} else {
			c.Probe("voting-period-ended")
		}
	}
	if pre.lastCommittee != post.lastCommittee {
		c.Probe("committee-changed")
		if pre.lastCommittee != 0 {
			c.Probe("committee-changed-second-term")
		}
	}
	if post.nextMembers > 0 && pre.nextMembers == 0 {
		c.Probe("next-members-elected")
	}
	for h, st := range post.status {
		if old, ok := pre.status[h]; !ok {
			c.Probe("proposal-registered-in-state")
		} else if old != st {
			c.Probe(fmt.Sprintf("proposal-status:%s->%s", old, st))
		}
	}
	for d, st := range post.memberState {
		if old, ok := pre.memberState[d]; ok && old != st {
			c.Probe(fmt.Sprintf("member-state:%d->%d", old, st))
		}
	}
	if pre.needAppr != post.needAppr {
		if post.needAppr {
			c.Probe("appropriation-needed")
		} else {
			c.Probe("appropriation-done")
		}
	}
	for _, m := range metas {
		if m.prop != nil && m.kind == "proposal" {
			c.Probe("proposal-type:" + m.prop.typ.Name())
		}
	}
}

// ---------------------------------------------------------------------------
// C22 / C23b oracle: instance vs twin

// frames returns a round-tripped copy of the node's committee checkpoint: the
// real Checkpoint.Snapshot (initFromCommittee + Serialize + Deserialize).
func (n *node) frames() (*crstate.Checkpoint, error) {
	cp, ok := n.mgr.GetCheckpoint("cp_cr", math.MaxUint32)
	if !ok || cp == nil {
		return nil, fmt.Errorf("no cr checkpoint registered")
	}
	snap := cp.Snapshot()
	if snap == nil {
		return nil, fmt.Errorf("Checkpoint.Snapshot returned nil (serialise or deserialise failed)")
	}
	return snap.(*crstate.Checkpoint), nil
}

var ckptSkip = []string{"cp.committee"}

// normPath strips map keys and slice indices from a walker path so that the
// shape of a difference (which sub-field of which collection) can key a
// violation class.
func normPath(p string) string {
	var sb strings.Builder
	depth := 0
	for _, ch := range p {
		switch ch {
		case '{', '[':
			if depth == 0 {
				sb.WriteRune(ch)
			}
			depth++
		case '}', ']':
			depth--
			if depth == 0 {
				sb.WriteRune(ch)
			}
		default:
			if depth == 0 {
				sb.WriteRune(ch)
			}
		}
	}
	return strings.TrimPrefix(sb.String(), "cp.")
}

// compareNodes compares two nodes that should be in the same state and
// reports every differing field. full selects the serialised-checkpoint
// comparison in addition to the live structures. It returns the signatures
// reported. prop/oracle name the property being judged (C22 for rollback
// twins, C23 for restart twins).
func (r *run) compareNodes(a, b *node, prop, oracle, when string, full bool) []string {
	c := r.c
	var sigs []string
	report := func(group string, d difference, extra string) {
		sig := fmt.Sprintf("%s/%s/%s/%s", prop, oracle, group, strings.TrimPrefix(topField("cp", d.path), "cp."))
		if group == "live" && d.at != "" {
			// present in memory but not in the serialised form: name the struct field
			sig = fmt.Sprintf("%s/%s/%s/%s", prop, oracle, group, d.at)
		}
		if group == "getter" {
			sig = fmt.Sprintf("%s/%s/%s/%s", prop, oracle, group, d.path)
		}
		if r.faultCtx != "" {
			sig += "@" + r.faultCtx
		}
		if r.collapseSig != "" {
			sig = r.collapseSig
		}
		sigs = append(sigs, sig)
		r.viol(prop, oracle, sig, "%s h=%d: %s and %s differ at %s: %s vs %s%s",
			when, a.tip, a.name, b.name, d.path, d.a, d.b, extra)
	}
	// one report per (field, shape of the difference)
	reportAll := func(group string, diffs map[string][]difference, skip map[string]bool) {
		for _, f := range sortedKeys(diffs) {
			if skip[f] || len(diffs[f]) == 0 {
				continue
			}
			d := diffs[f][0]
			extra := ""
			if n := len(diffs[f]); n > 1 {
				extra = fmt.Sprintf(" (and %d more differences in this field, e.g. at %s)", n-1, diffs[f][1].path)
			}
			report(group, d, extra)
		}
	}

	// 1. the committee checkpoint as serialised by the code under test
	serShapes := map[string]bool{}
	if full {
		fa, ea := a.frames()
		fb, eb := b.frames()
		c.Check()
		if ea != nil || eb != nil {
			sig := prop + "/" + oracle + "/snapshot-failed"
			r.viol(prop, oracle, sig, "%s h=%d: checkpoint snapshot failed: %v / %v", when, a.tip, ea, eb)
			return []string{sig}
		}
		// the checkpoint height is bookkeeping of the save schedule, not committee state
		fa.Height, fb.Height = 0, 0
		diffs, _ := compareStructs("cp", fa, fb, ckptSkip)
		reportAll("ser", diffs, nil)
		for f := range diffs {
			serShapes[f] = true
		}
	}

	// 2. the live structures (also sees what Serialize does not write)
	c.Check()
	la := &liveFrames{KeyFrame: &a.com.KeyFrame, StateKeyFrame: &a.com.GetState().StateKeyFrame, ProposalKeyFrame: &a.com.GetProposalManager().ProposalKeyFrame}
	lb := &liveFrames{KeyFrame: &b.com.KeyFrame, StateKeyFrame: &b.com.GetState().StateKeyFrame, ProposalKeyFrame: &b.com.GetProposalManager().ProposalKeyFrame}
	ldiffs, _ := compareStructs("cp", la, lb, nil)
	if len(ldiffs) > 0 && !full {
		// name the difference after the serialised form when it shows there too
		return r.compareNodes(a, b, prop, oracle, when, true)
	}
	liveSeen := map[string]bool{}
	for _, f := range sortedKeys(ldiffs) {
		if serShapes[f] {
			continue
		}
		for _, d := range ldiffs[f] {
			if liveSeen[d.at] {
				continue
			}
			liveSeen[d.at] = true
			report("live", d, "")
		}
	}

	// 3. getters the property names; when the frames already differ these only
	// repeat the same defect, so they are reported on their own only
	c.Check()
	if len(sigs) == 0 {
		ga, gb := getterView(r, a), getterView(r, b)
		var ks []string
		for k := range ga {
			ks = append(ks, k)
		}
		sort.Strings(ks)
		for _, k := range ks {
			if ga[k] != gb[k] {
				report("getter", difference{path: k, a: ga[k], b: gb[k]}, "")
			}
		}
	}
	return sigs
}

type liveFrames struct {
	*crstate.KeyFrame
	*crstate.StateKeyFrame
	*crstate.ProposalKeyFrame
}

// getterView evaluates the public getters named by the property on a node.
func getterView(r *run, n *node) map[string]string {
	com := n.com
	v := map[string]string{}
	var dids []string
	for _, d := range com.GetMembersDIDs() {
		dids = append(dids, d.String())
	}
	sort.Strings(dids)
	v["GetMembersDIDs"] = strings.Join(dids, ",")
	v["IsInElectionPeriod"] = fmt.Sprint(com.IsInElectionPeriod())
	v["IsInVotingPeriod(next)"] = fmt.Sprint(com.IsInVotingPeriod(n.tip + 1))
	v["IsProposalAllowed"] = fmt.Sprint(com.IsProposalAllowed(n.tip))
	v["IsAppropriationNeeded"] = fmt.Sprint(com.IsAppropriationNeeded())
	v["CRCFoundationBalance"] = com.CRCFoundationBalance.String()
	v["CRCCommitteeBalance"] = com.CRCCommitteeBalance.String()
	v["CRCCommitteeUsedAmount"] = com.CRCCommitteeUsedAmount.String()
	v["CommitteeUsedAmount"] = com.CommitteeUsedAmount.String()
	v["CRCCurrentStageAmount"] = com.CRCCurrentStageAmount.String()
	v["GetCommitteeCanUseAmount"] = com.GetCommitteeCanUseAmount().String()
	for _, st := range allStatuses {
		var hs []string
		for h := range com.GetProposals(st) {
			hs = append(hs, h.String()[:12])
		}
		sort.Strings(hs)
		v["GetProposals("+st.String()+")"] = strings.Join(hs, ",")
	}
	var aw []string
	for h := range com.GetAllProposals() {
		aw = append(aw, h.String()[:12]+"="+com.AvailableWithdrawalAmount(h).String())
	}
	sort.Strings(aw)
	v["AvailableWithdrawalAmount"] = strings.Join(aw, ",")
	var dep []string
	for i, cd := range r.act.cands {
		if !com.Exist(cd.cid) { // GetPenalty dereferences a missing DepositInfo
			continue
		}
		dep = append(dep, fmt.Sprintf("c%d=%s/%s", i, com.GetAvailableDepositAmount(cd.cid), com.GetPenalty(cd.cid)))
	}
	v["DepositAvailable/Penalty"] = strings.Join(dep, ",")
	for _, st := range []crstate.CandidateState{crstate.Pending, crstate.Active, crstate.Canceled, crstate.Returned} {
		var cs []string
		for _, cd := range com.GetCandidates(st) {
			cs = append(cs, r.candName(cd.Info.CID)+"="+cd.Votes.String())
		}
		sort.Strings(cs)
		v[fmt.Sprintf("GetCandidates(%d)", st)] = strings.Join(cs, ",")
	}
	return v
}

// compareTwin is the C22 oracle (rollback twin). After a divergence the
// primary is no longer a meaningful subject: when the divergence is new the run
// ends (everything later would be a consequence of it); when every reported
// difference is a listed known finding the twin - a node that is in the state
// built directly - takes over as primary so that exploration continues past
// the known defect.
func (r *run) compareTwin(when string) {
	if r.twin == nil {
		return
	}
	r.cmpCount++
	full := when != "block" || r.cmpCount%8 == 0
	prop, oracle := r.twinProp, r.twinOracle
	if prop == "" {
		prop, oracle = "C22", "twin"
	}
	sigs := r.compareNodes(r.primary, r.twin, prop, oracle, when, full)
	// The chain database of both nodes is the same branch, so the committee's
	// own account of the two CR addresses must match the ledger.
	sigs = append(sigs, r.ledgerBalanceCheck(r.primary, prop, when)...)
	if len(sigs) == 0 {
		return
	}
	r.c.Logf("twin-diff %s n=%d", when, len(sigs))
	allKnown := true
	for _, s := range sigs {
		if !r.isKnown(prop, s) {
			allKnown = false
		}
	}
	if !allKnown {
		r.halt = true
		return
	}
	r.c.Probe("known-divergence-twin-promoted")
	r.promoteTwin()
}

// isKnown: listed in known_findings.json (or, in developer runs only, matched by
// a CRDEV_KNOWN prefix).
func (r *run) isKnown(prop, sig string) bool {
	if r.c.IsKnown(prop, sig) {
		return true
	}
	for _, p := range devKnownPrefixes {
		if strings.HasPrefix(sig, p) {
			return true
		}
	}
	return false
}

var devKnownPrefixes []string

// promoteTwin replaces the primary by the twin.
func (r *run) promoteTwin() {
	r.primary.close()
	r.twin.name = "primary"
	r.primary, r.twin = r.twin, nil
	blockchain.DefaultLedger.Blockchain = r.primary.bc
	blockchain.DefaultLedger.Committee = r.primary.com
}

// ledgerBalanceCheck: CRCFoundationBalance / CRCCommitteeBalance are the
// committee's running account of the unspent outputs of the CR assets and CR
// expenses addresses since the CR era started.
func (r *run) ledgerBalanceCheck(n *node, prop, when string) []string {
	var sigs []string
	cfg := n.cfg
	r.c.Check()
	la := n.led.balanceOf(*cfg.CRConfiguration.CRAssetsProgramHash)
	le := n.led.balanceOf(*cfg.CRConfiguration.CRExpensesProgramHash)
	if n.com.CRCFoundationBalance != la {
		sig := prop + "/ledger-balance/CRCFoundationBalance"
		if r.collapseSig != "" {
			sig = r.collapseSig
		}
		sigs = append(sigs, sig)
		r.viol(prop, "ledger-balance", sig,
			"%s h=%d: %s CRCFoundationBalance=%s but the unspent outputs of the CR assets address sum to %s",
			when, n.tip, n.name, n.com.CRCFoundationBalance, la)
	}
	if n.com.CRCCommitteeBalance != le {
		sig := prop + "/ledger-balance/CRCCommitteeBalance"
		if r.collapseSig != "" {
			sig = r.collapseSig
		}
		sigs = append(sigs, sig)
		r.viol(prop, "ledger-balance", sig,
			"%s h=%d: %s CRCCommitteeBalance=%s but the unspent outputs of the CR expenses address sum to %s",
			when, n.tip, n.name, n.com.CRCCommitteeBalance, le)
	}
	return sigs
}
