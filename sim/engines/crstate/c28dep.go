package crstate

import (
	"os"
	"strings"

	"github.com/elastos/Elastos.ELA/common"
	"github.com/elastos/Elastos.ELA/core/types"
)

// debugDeposit (SIM_DEBUG_DEPOSIT): log every change of a CR deposit book entry (developer aid).
var debugDeposit = os.Getenv("SIM_DEBUG_DEPOSIT") != ""

// C28, CR half: "a ... CR member can never withdraw more deposit than its
// available amount (deposit minus penalties and required lock) ... These
// balances are never negative." Judged after every block against the state's
// deposit book (total, required lock, penalty per CID) as it stood BEFORE the
// block and against the harness's own UTXO ledger of the deposit addresses:
//
//   - no figure of the book is negative;
//   - what accepted ReturnCRDepositCoin transactions of the block took out of a
//     deposit address is at most what was available before the block (plus what
//     the block itself paid into that address);
//   - after a withdrawal the address still holds lock + penalty;
//   - the book never claims more than the address holds.
func (r *run) c28AfterBlock(b *types.Block, metas []txMeta, pre, post *obs) {
	c := r.c
	byDeposit := map[common.Uint168]*candID{}
	for _, cd := range r.act.cands {
		byDeposit[cd.deposit] = cd
	}
	withdrawn := map[common.Uint168]common.Fixed64{} // by CID
	paidIn := map[common.Uint168]common.Fixed64{}
	nRet := map[common.Uint168]int{}
	impeachVote := false
	for _, mt := range metas {
		tx := mt.tx
		if strings.HasSuffix(mt.kind, "Impeach") {
			impeachVote = true
		}
		for _, o := range tx.Outputs() {
			if cd := byDeposit[o.ProgramHash]; cd != nil {
				paidIn[cd.cid] += o.Value
			}
		}
		if !tx.IsReturnCRDepositCoinTx() {
			continue
		}
		refs, err := r.primary.led.references(tx)
		if err != nil {
			continue
		}
		counted := map[common.Uint168]bool{}
		for _, o := range refs {
			if cd := byDeposit[o.ProgramHash]; cd != nil {
				withdrawn[cd.cid] += o.Value
				if !counted[cd.cid] {
					counted[cd.cid] = true
					nRet[cd.cid]++
				}
			}
		}
	}
	for _, cd := range r.act.cands {
		// (change paid back to the deposit address by the return itself is not withdrawn)
		w := withdrawn[cd.cid]
		back := common.Fixed64(0)
		if w > 0 {
			back = paidIn[cd.cid]
			if back > w {
				back = w
			}
		}
		net := w - back
		name := r.candName(cd.cid)
		di, ok := post.deposit[cd.cid]
		if ok && debugDeposit {
			if pd := pre.deposit[cd.cid]; pd != di {
				c.Logf("DBG h=%d %s book total=%s lock=%s penalty=%s (before: %s %s %s)", b.Height, name, di.TotalAmount, di.DepositAmount, di.Penalty, pd.TotalAmount, pd.DepositAmount, pd.Penalty)
			}
		}
		if ok {
			// A book that differs from the one of the state built directly from
			// the surviving branch (the C22 twin) went wrong in a rollback: that is
			// C22's family of findings, named as such.
			rb := ""
			if r.twin != nil {
				if td := r.twin.com.GetState().DepositInfo[cd.cid]; td == nil || *td != di {
					rb = "/book-differs-from-the-directly-built-state-after-a-rollback"
					c.Probe("cr-deposit-book-differs-from-twin")
				}
			}
			if rb == "" && di.DepositAmount < 0 && impeachVote && (pre.inElection != post.inElection || pre.lastCommittee != post.lastCommittee) {
				// an impeachment vote counted in the very block that ends the term
				rb = "/impeachment-vote-in-the-block-that-ends-the-term"
			}
			// (the book stays wrong in the following blocks: the cause stays with the entry)
			if r.c28cause == nil {
				r.c28cause = map[common.Uint168]string{}
			}
			if rb != "" {
				r.c28cause[cd.cid] = rb
			} else if di.DepositAmount < 0 {
				rb = r.c28cause[cd.cid]
			}
			c.Check()
			if di.TotalAmount < 0 {
				r.viol("C28", "cr-deposit", "C28/cr/negative/TotalAmount"+rb, "h=%d %s: TotalAmount %s", b.Height, name, di.TotalAmount)
			}
			if di.DepositAmount < 0 {
				r.viol("C28", "cr-deposit", "C28/cr/negative/DepositAmount"+rb, "h=%d %s: required lock (DepositAmount) %s, so available %s exceeds the total %s", b.Height, name, di.DepositAmount, di.TotalAmount-di.DepositAmount-di.Penalty, di.TotalAmount)
			}
			if di.Penalty < 0 {
				r.viol("C28", "cr-deposit", "C28/cr/negative/Penalty"+rb, "h=%d %s: Penalty %s", b.Height, name, di.Penalty)
			}
			c.Check()
			if bal := r.primary.led.balanceOf(cd.deposit); di.TotalAmount > bal {
				r.viol("C28", "cr-deposit", "C28/cr/total-amount-exceeds-deposit-address-balance", "h=%d %s: the book says %s, the deposit address holds %s", b.Height, name, di.TotalAmount, bal)
			}
		}
		if net <= 0 {
			continue
		}
		c.Probe("cr-deposit-withdrawn")
		sfx := ""
		if nRet[cd.cid] > 1 {
			sfx = "/several-returns-in-one-block"
		}
		pd := pre.deposit[cd.cid]
		avail := pd.TotalAmount - pd.DepositAmount - pd.Penalty
		if avail < 0 {
			avail = 0
		}
		topup := paidIn[cd.cid] - back
		c.Check()
		if net > avail+topup {
			r.viol("C28", "cr-deposit", "C28/cr/withdrawn-more-than-available"+sfx,
				"h=%d %s: %s left the deposit address through %d accepted ReturnCRDepositCoin input(s); available before the block was %s (total %s, lock %s, penalty %s), paid in by the block %s",
				b.Height, name, net, nRet[cd.cid], avail, pd.TotalAmount, pd.DepositAmount, pd.Penalty, topup)
		}
		if ok {
			c.Check()
			if bal := r.primary.led.balanceOf(cd.deposit); bal < di.DepositAmount+di.Penalty {
				r.viol("C28", "cr-deposit", "C28/cr/deposit-address-below-lock-and-penalty"+sfx,
					"h=%d %s: after the withdrawal the deposit address holds %s, lock %s + penalty %s", b.Height, name, bal, di.DepositAmount, di.Penalty)
			}
		}
	}
}
