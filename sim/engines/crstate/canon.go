package crstate

import (
	"encoding/hex"
	"fmt"
	"reflect"
	"sort"
	"strings"
)

// Reflection walker used by the state-twin comparison (C22, C23b) and the
// checkpoint round-trip comparison (C23a).
//
//   - every field of every struct is visited, exported or not (reflect allows
//     reading unexported fields; nothing is written); a value of a kind the walker cannot compare (func, chan,
//     unsafe pointer) is reported as "unreachable" unless its path is listed in
//     skip (callbacks and cached back-pointers, which are not state);
//   - maps are compared by key, so map iteration order never matters; slices
//     are compared in order;
//   - a nil map/slice equals an empty one (serialisation cannot tell them apart
//     and no code under test distinguishes them).

type difference struct {
	path string
	a, b string
	at   string // innermost struct field the difference lies in: "pkg.Type.Field"
}

type walker struct {
	skip    map[string]bool // exact paths not to descend into
	skipTyp map[string]bool // type names (pkg.Type) not to descend into
	diffs   []difference
	max     int
	visited int // leaf values compared
	owner   []string
	// onField, when set, is called for every struct field path visited on side a
	// with whether the value is the zero value (population probes).
	onField func(path, typeField string, zero bool)
}

func newWalker() *walker {
	return &walker{skip: map[string]bool{}, skipTyp: map[string]bool{"sync.RWMutex": true, "sync.Mutex": true}, max: 12}
}

func (w *walker) add(path, a, b string) {
	if len(w.diffs) < w.max {
		if len(a) > 160 {
			a = a[:160] + "..."
		}
		if len(b) > 160 {
			b = b[:160] + "..."
		}
		at := ""
		if len(w.owner) > 0 {
			at = w.owner[len(w.owner)-1]
		}
		w.diffs = append(w.diffs, difference{path, a, b, at})
	}
}

// Reading values obtained through unexported fields is allowed by reflect for
// every accessor the walker uses (Int, String, Len, Index, Field, MapRange,
// MapIndex, Elem, IsZero); only Interface() and Set are refused, and the walker
// calls neither on walked values.
func access(v reflect.Value) reflect.Value { return v }

func isEmptyish(v reflect.Value) bool {
	switch v.Kind() {
	case reflect.Map, reflect.Slice:
		return v.Len() == 0
	}
	return false
}

func typeName(t reflect.Type) string {
	if t.PkgPath() == "" {
		return t.String()
	}
	parts := strings.Split(t.PkgPath(), "/")
	return parts[len(parts)-1] + "." + t.Name()
}

// keyString renders a map key canonically.
func keyString(k reflect.Value) string {
	k = access(k)
	switch k.Kind() {
	case reflect.String:
		return "s:" + k.String()
	case reflect.Int, reflect.Int8, reflect.Int16, reflect.Int32, reflect.Int64:
		return fmt.Sprintf("i:%020d", k.Int())
	case reflect.Uint, reflect.Uint8, reflect.Uint16, reflect.Uint32, reflect.Uint64:
		return fmt.Sprintf("u:%020d", k.Uint())
	case reflect.Array:
		if k.Type().Elem().Kind() == reflect.Uint8 {
			b := make([]byte, k.Len())
			for i := range b {
				b[i] = byte(k.Index(i).Uint())
			}
			return "x:" + hex.EncodeToString(b)
		}
	case reflect.Struct:
		var sb strings.Builder
		sb.WriteString("t:")
		kc := k
		for i := 0; i < kc.NumField(); i++ {
			sb.WriteString(keyString(kc.Field(i)))
			sb.WriteByte('|')
		}
		return sb.String()
	}
	return fmt.Sprintf("?:%v", k)
}

func leafString(v reflect.Value) string {
	v = access(v)
	switch v.Kind() {
	case reflect.Bool:
		return fmt.Sprintf("%v", v.Bool())
	case reflect.Int, reflect.Int8, reflect.Int16, reflect.Int32, reflect.Int64:
		return fmt.Sprintf("%d", v.Int())
	case reflect.Uint, reflect.Uint8, reflect.Uint16, reflect.Uint32, reflect.Uint64, reflect.Uintptr:
		return fmt.Sprintf("%d", v.Uint())
	case reflect.Float32, reflect.Float64:
		return fmt.Sprintf("%v", v.Float())
	case reflect.String:
		return fmt.Sprintf("%q", v.String())
	}
	return "?"
}

func bytesOf(v reflect.Value) ([]byte, bool) {
	v = access(v)
	if (v.Kind() == reflect.Slice || v.Kind() == reflect.Array) && v.Type().Elem().Kind() == reflect.Uint8 {
		b := make([]byte, v.Len())
		for i := range b {
			b[i] = byte(v.Index(i).Uint())
		}
		return b, true
	}
	return nil, false
}

// walk compares a and b (same static type) below path.
func (w *walker) walk(path string, a, b reflect.Value, depth int) {
	if len(w.diffs) >= w.max {
		return
	}
	if depth > 40 {
		w.add(path, "depth", "depth")
		return
	}
	if w.skip[path] {
		return
	}
	a, b = access(a), access(b)
	t := a.Type()
	if w.skipTyp[typeName(t)] {
		return
	}
	switch a.Kind() {
	case reflect.Bool, reflect.Int, reflect.Int8, reflect.Int16, reflect.Int32, reflect.Int64,
		reflect.Uint, reflect.Uint8, reflect.Uint16, reflect.Uint32, reflect.Uint64, reflect.Uintptr,
		reflect.Float32, reflect.Float64, reflect.String:
		w.visited++
		if sa, sb := leafString(a), leafString(b); sa != sb {
			w.add(path, sa, sb)
		}
	case reflect.Ptr:
		if a.IsNil() || b.IsNil() {
			if a.IsNil() != b.IsNil() {
				w.add(path, fmt.Sprintf("nil=%v", a.IsNil()), fmt.Sprintf("nil=%v", b.IsNil()))
			}
			return
		}
		w.walk(path, a.Elem(), b.Elem(), depth+1)
	case reflect.Interface:
		if a.IsNil() || b.IsNil() {
			if a.IsNil() != b.IsNil() {
				w.add(path, fmt.Sprintf("nil=%v", a.IsNil()), fmt.Sprintf("nil=%v", b.IsNil()))
			}
			return
		}
		ea, eb := a.Elem(), b.Elem()
		if ea.Type() != eb.Type() {
			w.add(path, "type "+ea.Type().String(), "type "+eb.Type().String())
			return
		}
		w.walk(path+"<"+typeName(derefType(ea.Type()))+">", ea, eb, depth+1)
	case reflect.Struct:
		for i := 0; i < t.NumField(); i++ {
			fp := path + "." + t.Field(i).Name
			if w.onField != nil {
				w.onField(fp, typeName(t)+"."+t.Field(i).Name, access(a.Field(i)).IsZero() || isEmptyish(access(a.Field(i))))
			}
			w.owner = append(w.owner, typeName(t)+"."+t.Field(i).Name)
			w.walk(fp, a.Field(i), b.Field(i), depth+1)
			w.owner = w.owner[:len(w.owner)-1]
		}
	case reflect.Slice, reflect.Array:
		if ba, ok := bytesOf(a); ok {
			w.visited++
			bb, _ := bytesOf(b)
			if hex.EncodeToString(ba) != hex.EncodeToString(bb) {
				w.add(path, hex.EncodeToString(ba), hex.EncodeToString(bb))
			}
			return
		}
		if a.Len() != b.Len() {
			w.add(path+"[len]", fmt.Sprint(a.Len()), fmt.Sprint(b.Len()))
			return
		}
		for i := 0; i < a.Len(); i++ {
			w.walk(fmt.Sprintf("%s[%d]", path, i), a.Index(i), b.Index(i), depth+1)
		}
	case reflect.Map:
		ka, kb := mapKeys(a), mapKeys(b)
		seen := map[string]bool{}
		var all []string
		for k := range ka {
			if !seen[k] {
				seen[k] = true
				all = append(all, k)
			}
		}
		for k := range kb {
			if !seen[k] {
				seen[k] = true
				all = append(all, k)
			}
		}
		sort.Strings(all)
		for _, k := range all {
			va, oka := ka[k]
			vb, okb := kb[k]
			kp := path + "{" + shortKey(k) + "}"
			if !oka || !okb {
				w.add(kp, fmt.Sprintf("present=%v", oka), fmt.Sprintf("present=%v", okb))
				continue
			}
			ea, eb := a.MapIndex(va), b.MapIndex(vb)
			w.walk(kp, ea, eb, depth+1)
		}
	case reflect.Func, reflect.Chan, reflect.UnsafePointer:
		w.add(path, "unreachable:"+a.Kind().String(), "unreachable:"+a.Kind().String())
	default:
		w.add(path, "unsupported:"+a.Kind().String(), "")
	}
}

func derefType(t reflect.Type) reflect.Type {
	for t.Kind() == reflect.Ptr {
		t = t.Elem()
	}
	return t
}

func shortKey(k string) string {
	if len(k) > 22 {
		return k[:22] + "~"
	}
	return k
}

func mapKeys(m reflect.Value) map[string]reflect.Value {
	res := map[string]reflect.Value{}
	if m.IsNil() {
		return res
	}
	it := m.MapRange()
	for it.Next() {
		res[keyString(it.Key())] = it.Key()
	}
	return res
}

// compareStructs walks two pointers to the same struct type and returns the
// differences grouped by top-level field.
func compareStructs(root string, a, b interface{}, skip []string) (map[string][]difference, int) {
	w := newWalker()
	w.max = 64
	for _, s := range skip {
		w.skip[s] = true
	}
	w.walk(root, reflect.ValueOf(a), reflect.ValueOf(b), 0)
	res := map[string][]difference{}
	for _, d := range w.diffs {
		res[topField(root, d.path)] = append(res[topField(root, d.path)], d)
	}
	return res, w.visited
}

// topField cuts a path down to root.Field (no indices, keys or deeper fields).
func topField(root, path string) string {
	rest := strings.TrimPrefix(path, root)
	rest = strings.TrimPrefix(rest, ".")
	cut := func(s string) (string, string) {
		for i, c := range s {
			if c == '.' || c == '[' || c == '{' || c == '<' {
				return s[:i], s[i:]
			}
		}
		return s, ""
	}
	first, tail := cut(rest)
	// embedded frames: name the field inside the frame
	if strings.HasSuffix(first, "KeyFrame") && strings.HasPrefix(tail, ".") {
		second, _ := cut(tail[1:])
		return root + "." + first + "." + second
	}
	return root + "." + first
}

func sortedKeys(m map[string][]difference) []string {
	var ks []string
	for k := range m {
		ks = append(ks, k)
	}
	sort.Strings(ks)
	return ks
}
