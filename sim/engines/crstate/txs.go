package crstate

import (
	"bytes"

	"github.com/elastos/Elastos.ELA/common"
	"github.com/elastos/Elastos.ELA/core"
	"github.com/elastos/Elastos.ELA/core/contract/program"
	common2 "github.com/elastos/Elastos.ELA/core/types/common"
	"github.com/elastos/Elastos.ELA/core/types/functions"
	"github.com/elastos/Elastos.ELA/core/types/interfaces"
	"github.com/elastos/Elastos.ELA/core/types/outputpayload"
	"github.com/elastos/Elastos.ELA/core/types/payload"
)

// Transaction builders. All signatures come from keyPair.sign (deterministic).

func plainOut(addr common.Uint168, v common.Fixed64) *common2.Output {
	return &common2.Output{AssetID: core.ELAAssetID, Value: v, ProgramHash: addr,
		Type: common2.OTNone, Payload: &outputpayload.DefaultOutput{}}
}

func inputOf(e *utxoEnt) *common2.Input {
	return &common2.Input{Previous: e.op, Sequence: 0}
}

func progOf(k *keyPair) []*program.Program {
	return []*program.Program{{Code: k.code, Parameter: []byte{}}}
}

func newTx(ver common2.TransactionVersion, t common2.TxType, pver byte, p interfaces.Payload,
	ins []*common2.Input, outs []*common2.Output, progs []*program.Program, lock uint32) interfaces.Transaction {
	if ins == nil {
		ins = []*common2.Input{}
	}
	if outs == nil {
		outs = []*common2.Output{}
	}
	if progs == nil {
		progs = []*program.Program{}
	}
	return functions.CreateTransaction(ver, t, pver, p, []*common2.Attribute{}, ins, outs, lock, progs)
}

func coinbaseTx(height uint32, outs []*common2.Output, tag []byte) interfaces.Transaction {
	return newTx(common2.TxVersion09, common2.CoinBase, 0, &payload.CoinBase{Content: tag},
		[]*common2.Input{{Previous: common2.OutPoint{TxID: common.EmptyHash, Index: 0xffff}, Sequence: 0xffffffff}},
		outs, nil, height)
}

func transferTx(ins []*common2.Input, outs []*common2.Output, k *keyPair) interfaces.Transaction {
	return newTx(common2.TxVersion09, common2.TransferAsset, 0, &payload.TransferAsset{}, ins, outs, progOf(k), 0)
}

func crInfoPayload(c *candID, nick, url string, loc uint64, pver byte) *payload.CRInfo {
	info := &payload.CRInfo{Code: c.code, CID: c.cid, NickName: nick, Url: url, Location: loc}
	if pver >= payload.CRInfoDIDVersion {
		info.DID = c.did
	}
	buf := new(bytes.Buffer)
	info.SerializeUnsigned(buf, pver)
	info.Signature = c.sign(buf.Bytes())
	return info
}

func registerCRTx(c *candID, nick string, pver byte, fund *utxoEnt, deposit, fee common.Fixed64) interfaces.Transaction {
	outs := []*common2.Output{plainOut(c.deposit, deposit)}
	if ch := fund.out.Value - deposit - fee; ch > 0 {
		outs = append(outs, plainOut(c.addr, ch))
	}
	return newTx(common2.TxVersion09, common2.RegisterCR, pver, crInfoPayload(c, nick, "http://cr.example/"+nick, 1, pver),
		[]*common2.Input{inputOf(fund)}, outs, progOf(c.keyPair), 0)
}

func updateCRTx(c *candID, nick string, loc uint64, pver byte) interfaces.Transaction {
	return newTx(common2.TxVersion09, common2.UpdateCR, pver, crInfoPayload(c, nick, "http://cr.example/u/"+nick, loc, pver),
		nil, nil, progOf(c.keyPair), 0)
}

func unregisterCRTx(c *candID) interfaces.Transaction {
	p := &payload.UnregisterCR{CID: c.cid}
	buf := new(bytes.Buffer)
	p.SerializeUnsigned(buf, payload.UnregisterCRVersion)
	p.Signature = c.sign(buf.Bytes())
	return newTx(common2.TxVersion09, common2.UnregisterCR, payload.UnregisterCRVersion, p, nil, nil, progOf(c.keyPair), 0)
}

func returnDepositTx(c *candID, ins []*utxoEnt, amount, change common.Fixed64) interfaces.Transaction {
	var inputs []*common2.Input
	for _, e := range ins {
		inputs = append(inputs, inputOf(e))
	}
	outs := []*common2.Output{plainOut(c.addr, amount)}
	if change > 0 {
		outs = append(outs, plainOut(c.deposit, change))
	}
	return newTx(common2.TxVersion09, common2.ReturnCRDepositCoin, 0, &payload.ReturnDepositCoin{}, inputs, outs, progOf(c.keyPair), 0)
}

// voteTx spends one output of the voter and creates a vote output (value v)
// with the given contents plus change.
func voteTx(k *keyPair, in *utxoEnt, v common.Fixed64, contents []outputpayload.VoteContent, fee common.Fixed64) interfaces.Transaction {
	vo := &common2.Output{AssetID: core.ELAAssetID, Value: v, ProgramHash: k.addr, Type: common2.OTVote,
		Payload: &outputpayload.VoteOutput{Version: outputpayload.VoteProducerAndCRVersion, Contents: contents}}
	outs := []*common2.Output{vo}
	if ch := in.out.Value - v - fee; ch > 0 {
		outs = append(outs, plainOut(k.addr, ch))
	}
	return transferTx([]*common2.Input{inputOf(in)}, outs, k)
}

type budgetSpec struct {
	typ    payload.InstallmentType
	stage  byte
	amount common.Fixed64
}

// proposalTx builds and signs a CRCProposal of any type. p must have every
// type-specific field set except the signatures.
func proposalTx(p *payload.CRCProposal, pver byte, owner *keyPair, member *candID, second *keyPair) interfaces.Transaction {
	buf := new(bytes.Buffer)
	p.SerializeUnsigned(buf, pver)
	p.Signature = owner.sign(buf.Bytes())
	signed := new(bytes.Buffer)
	signed.Write(buf.Bytes())
	common.WriteVarBytes(signed, p.Signature)
	switch p.ProposalType {
	case payload.ChangeProposalOwner:
		p.NewOwnerSignature = second.sign(buf.Bytes())
		common.WriteVarBytes(signed, p.NewOwnerSignature)
	case payload.SecretaryGeneral:
		p.SecretaryGeneraSignature = second.sign(buf.Bytes())
		common.WriteVarBytes(signed, p.SecretaryGeneraSignature)
	}
	p.CRCouncilMemberDID.Serialize(signed)
	p.CRCouncilMemberSignature = member.sign(signed.Bytes())
	return newTx(common2.TxVersion09, common2.CRCProposal, pver, p, nil, nil, progOf(owner), 0)
}

func reviewTx(hash common.Uint256, res payload.VoteResult, member *candID, pver byte, opinion []byte) interfaces.Transaction {
	p := &payload.CRCProposalReview{ProposalHash: hash, VoteResult: res, DID: member.did, OpinionHash: common.Hash(opinion)}
	if pver >= payload.CRCProposalReviewVersion01 {
		p.OpinionData = opinion
	}
	buf := new(bytes.Buffer)
	p.SerializeUnsigned(buf, pver)
	p.Signature = member.sign(buf.Bytes())
	return newTx(common2.TxVersion09, common2.CRCProposalReview, pver, p, nil, nil, progOf(member.keyPair), 0)
}

func trackingTx(hash common.Uint256, typ payload.CRCProposalTrackingType, stage uint8, owner, newOwner, secGen *keyPair,
	pver byte, msg, opinion []byte) interfaces.Transaction {
	p := &payload.CRCProposalTracking{ProposalTrackingType: typ, ProposalHash: hash, Stage: stage,
		MessageHash: common.Hash(msg), OwnerKey: owner.pub, SecretaryGeneralOpinionHash: common.Hash(opinion)}
	if pver >= payload.CRCProposalTrackingVersion01 {
		p.MessageData = msg
		p.SecretaryGeneralOpinionData = opinion
	}
	if newOwner != nil {
		p.NewOwnerKey = newOwner.pub
	}
	buf := new(bytes.Buffer)
	p.SerializeUnsigned(buf, pver)
	p.OwnerSignature = owner.sign(buf.Bytes())
	common.WriteVarBytes(buf, p.OwnerSignature)
	if newOwner != nil {
		p.NewOwnerSignature = newOwner.sign(buf.Bytes())
	}
	common.WriteVarBytes(buf, p.NewOwnerSignature)
	buf.Write([]byte{byte(typ)})
	p.SecretaryGeneralOpinionHash.Serialize(buf)
	if pver >= payload.CRCProposalTrackingVersion01 {
		common.WriteVarBytes(buf, p.SecretaryGeneralOpinionData)
	}
	p.SecretaryGeneralSignature = secGen.sign(buf.Bytes())
	return newTx(common2.TxVersion09, common2.CRCProposalTracking, pver, p, nil, nil, progOf(owner), 0)
}

// withdrawTxV0 pays straight out of the CR expenses address.
func withdrawTxV0(hash common.Uint256, owner *keyPair, recipient, expenses common.Uint168, ins []*utxoEnt,
	pay, change common.Fixed64) interfaces.Transaction {
	p := &payload.CRCProposalWithdraw{ProposalHash: hash, OwnerKey: owner.pub}
	buf := new(bytes.Buffer)
	p.SerializeUnsigned(buf, payload.CRCProposalWithdrawDefault)
	p.Signature = owner.sign(buf.Bytes())
	var inputs []*common2.Input
	for _, e := range ins {
		inputs = append(inputs, inputOf(e))
	}
	outs := []*common2.Output{plainOut(recipient, pay)}
	if change > 0 {
		outs = append(outs, plainOut(expenses, change))
	}
	return newTx(common2.TxVersion09, common2.CRCProposalWithdraw, payload.CRCProposalWithdrawDefault, p, inputs, outs, nil, 0)
}

// withdrawTxV1 only records the claim; the committee later pays through a
// CRCProposalRealWithdraw transaction. The fee comes from the owner's funds.
func withdrawTxV1(hash common.Uint256, owner *keyPair, recipient common.Uint168, amount common.Fixed64,
	feeIn *utxoEnt, fee common.Fixed64) interfaces.Transaction {
	p := &payload.CRCProposalWithdraw{ProposalHash: hash, OwnerKey: owner.pub, Recipient: recipient, Amount: amount}
	buf := new(bytes.Buffer)
	p.SerializeUnsigned(buf, payload.CRCProposalWithdrawVersion01)
	p.Signature = owner.sign(buf.Bytes())
	var outs []*common2.Output
	if ch := feeIn.out.Value - fee; ch > 0 {
		outs = append(outs, plainOut(feeIn.out.ProgramHash, ch))
	}
	return newTx(common2.TxVersion09, common2.CRCProposalWithdraw, payload.CRCProposalWithdrawVersion01, p,
		[]*common2.Input{inputOf(feeIn)}, outs, progOf(owner), 0)
}

func claimNodeTx(member *candID, nodeKey *keyPair, pver byte) interfaces.Transaction {
	p := &payload.CRCouncilMemberClaimNode{NodePublicKey: nodeKey.pub, CRCouncilCommitteeDID: member.did}
	buf := new(bytes.Buffer)
	p.SerializeUnsigned(buf, payload.CurrentCRClaimDPoSNodeVersion)
	p.CRCouncilCommitteeSignature = member.sign(buf.Bytes())
	return newTx(common2.TxVersion09, common2.CRCouncilMemberClaimNode, pver, p, nil, nil, progOf(member.keyPair), 0)
}

// votingTx is the DPoS-v2-era vote: a Voting payload signed by the owner of a
// stake address; the fee comes from one of the voter's plain outputs.
func votingTx(k *keyPair, contents []payload.VotesContent, feeIn *utxoEnt, fee common.Fixed64) interfaces.Transaction {
	var outs []*common2.Output
	if ch := feeIn.out.Value - fee; ch > 0 {
		outs = append(outs, plainOut(k.addr, ch))
	}
	return newTx(common2.TxVersion09, common2.Voting, payload.VoteVersion, &payload.Voting{Contents: contents},
		[]*common2.Input{inputOf(feeIn)}, outs, progOf(k), 0)
}
