package crstate

import (
	"fmt"
	"os"
	"path/filepath"
	"sort"
	"strings"
	"testing/synctest"

	"reflect"

	"github.com/elastos/Elastos.ELA/blockchain"
	"github.com/elastos/Elastos.ELA/common"
	"github.com/elastos/Elastos.ELA/core/checkpoint"
	"github.com/elastos/Elastos.ELA/core/types/interfaces"
	"github.com/elastos/Elastos.ELA/core/types/payload"
	"github.com/elastos/Elastos.ELA/mempool"
)

// C23 (b): restart fault. The node-side actor (committee + checkpoint manager)
// is stopped and a new one is built the way BlockChain.InitCheckpoint does it:
// Manager.Restore() loads the default checkpoint files written by the real
// fileChannels goroutine, then the blocks above Manager.SafeHeight() are
// replayed with init=true while the chain database already holds the whole
// chain. The twin is a node that processed every block without restarting.
//
// variant: 0 clean stop (Manager.Close), 1 crash (goroutines abandoned),
// 2 crash before the newest checkpoint file was written (the file of the save
// triggered by the last block is removed), 3 crash while it was being written
// (the file is truncated).
func (r *run) restart(variant int) {
	old := r.primary
	if !old.viaMgr {
		return
	}
	tip := r.height()
	if tip == 0 {
		return
	}
	synctest.Wait() // pending saves of the file goroutine complete (or not: see variants 2/3)
	dir := filepath.Join(old.dataDir, "cp_cr")
	if old.dataDir == "" { // a promoted twin keeps no checkpoint files: restart from nothing
		dir = filepath.Join(r.base, "no-such-dir")
	}
	kind := "restart-clean"
	switch variant % 4 {
	case 0:
		old.close()
	case 1:
		kind = "restart-crash"
		old.closed = true // abandoned: its goroutines stay parked in the bubble
	case 2, 3:
		kind = "restart-crash"
		old.closed = true
		if f := newestHeightFile(dir, tip); f != "" {
			if variant%4 == 2 {
				os.Remove(f)
				kind = "restart-crash-before-save-completed"
			} else if st, err := os.Stat(f); err == nil && st.Size() > 8 {
				os.Truncate(f, st.Size()/2)
				kind = "restart-crash-torn-save"
			}
		}
	}
	fromFile := false
	if _, err := os.Stat(filepath.Join(dir, "default.ccp")); err == nil {
		fromFile = true
	}

	n := newNode("primary", makeParams(r.plan, r.act), old.led, true, old.dataDir)
	if err := n.mgr.Restore(); err != nil {
		r.c.Logf("restore: no checkpoint file loaded") // the error text carries the temp path
	}
	restoredHeight := uint32(0)
	if cp, ok := n.mgr.GetCheckpoint("cp_cr", 0xffffffff); ok && cp != nil {
		restoredHeight = cp.GetHeight()
	}
	start := uint32(0)
	if safe := n.mgr.SafeHeight(); start < safe {
		start = safe + 1
	}
	// InitCheckpoint's start rule (SafeHeight()+1) never replays the block at
	// CRVotingStartHeight when no checkpoint was loaded. When that block carried
	// anything the committee records, every later difference is a consequence of
	// that one defect: it gets one signature of its own instead of one per field.
	skippedFirst := false
	if vs := n.cfg.CRConfiguration.CRVotingStartHeight; restoredHeight == 0 && start == vs+1 && vs >= 1 && int(vs) <= len(r.chain) {
		skippedFirst = r.blockMattersToCommittee(r.chain[vs-1])
	}
	if msg := r.replay(n, start, tip); msg != "" {
		// the restored node cannot even replay its own chain: it certainly does
		// not reach the state of the node that never restarted
		r.faulted = true
		r.c.Fault(kind)
		ctx := map[bool]string{true: "restart-from-file", false: "restart"}[fromFile && restoredHeight > 0]
		if skippedFirst {
			ctx = "first-cr-block-not-replayed"
		}
		r.viol("C23", "restart", "C23/restart/panic-during-replay@"+ctx,
			"%s at h=%d (checkpoint height %d, replay from %d as InitCheckpoint does: SafeHeight()+1): replay panicked: %s", kind, tip, restoredHeight, start, msg)
		r.halt = true
		n.close()
		return
	}
	n.tip = tip
	n.takePending()
	r.primary = n
	blockchain.DefaultLedger.Blockchain = n.bc
	blockchain.DefaultLedger.Committee = n.com

	r.faulted = true
	r.c.Fault(kind)
	r.faultCtx = "restart"
	if fromFile && restoredHeight > 0 {
		r.c.Probe("restart-restored-from-file")
		r.faultCtx = "restart-from-file"
	} else {
		r.c.Probe("restart-without-checkpoint-file")
	}
	r.c.Logf("%s at h=%d restored=%d replay-from=%d", kind, tip, restoredHeight, start)
	r.collapseSig = ""
	if skippedFirst {
		r.faultCtx = "first-cr-block-not-replayed"
		r.collapseSig = "C23/restart/diverged@first-cr-block-not-replayed"
		r.c.Probe("restart-skipped-first-cr-block-with-content")
	}

	r.twinProp, r.twinOracle = "C23", "restart"
	if r.twin == nil {
		// the instance that was just "stopped" is a node that never restarted:
		// it lives on as the twin (it no longer writes checkpoint files; it
		// keeps reading the same chain database)
		old.cfg.CheckPointConfiguration.NeedSave = false
		old.name = "twin"
		r.twin = old
		r.c.Probe("twin-is-the-never-restarted-instance")
	} else if !old.closed {
		old.close()
	}
	r.compareTwin("after-restart")
}

// blockMattersToCommittee: the block has a CR transaction or pays one of the
// CR addresses.
func (r *run) blockMattersToCommittee(br *blockRec) bool {
	cfg := r.cfg()
	for i, tx := range br.b.Transactions {
		if i > 0 {
			return true // every non-coinbase transaction the harness builds is CR related
		}
		for _, o := range tx.Outputs() {
			if o.ProgramHash.IsEqual(*cfg.CRConfiguration.CRAssetsProgramHash) || o.ProgramHash.IsEqual(*cfg.CRConfiguration.CRExpensesProgramHash) {
				return true
			}
		}
	}
	return false
}

// replay feeds the stored blocks start..tip to a restored node; a panic of the
// code under test is returned as text.
func (r *run) replay(n *node, start, tip uint32) (msg string) {
	defer func() {
		if x := recover(); x != nil {
			msg = clip(fmt.Sprint(x), 120)
		}
	}()
	for h := start; h <= tip; h++ {
		if h == 0 {
			continue
		}
		n.connect(r.chain[h-1].b, true, tip)
	}
	return ""
}

// newestHeightFile returns the checkpoint file "<tip>.ccp" if the last block
// triggered a save.
func newestHeightFile(dir string, tip uint32) string {
	ents, err := os.ReadDir(dir)
	if err != nil {
		return ""
	}
	var names []string
	for _, e := range ents {
		names = append(names, e.Name())
	}
	sort.Strings(names)
	want := fmt.Sprintf("%d.ccp", tip)
	for _, n := range names {
		if strings.EqualFold(n, want) {
			return filepath.Join(dir, n)
		}
	}
	return ""
}

// txPoolRoundTrip covers the part of the transaction pool checkpoint that can
// be exercised without a chain database: a real TxPool holding a few real
// transactions, its registered checkpoint, and Snapshot() - the object the
// checkpoint manager hands to the file goroutine to be written. The restore
// path (Deserialize into the pool of a restarted node) re-validates every
// transaction against the chain and is not covered here.
func (r *run) txPoolRoundTrip() {
	cfg := makeParams(r.plan, r.act)
	cfg.CheckPointConfiguration.NeedSave = false
	mgr := checkpoint.NewManager(cfg)
	defer mgr.Close()
	pool := mempool.NewTxPool(cfg, mgr)
	m := r.act.cands[0]
	txs := []interfaces.Transaction{
		updateCRTx(m, "pool-a", 1, payload.CRInfoVersion),
		unregisterCRTx(r.act.cands[1]),
		reviewTx(common.Hash([]byte("pool-proposal")), payload.Approve, m, payload.CRCProposalReviewVersion, []byte("o")),
	}
	n := 0
	for i, tx := range txs {
		tx.SetFee(common.Fixed64(1000 * (i + 1)))
		if err := mempool.VerifInjectTx(pool, tx); err == nil {
			n++
		}
	}
	if n == 0 {
		return
	}
	cp, ok := mgr.GetCheckpoint("cp_txPool", 0xffffffff)
	if !ok || cp == nil {
		return
	}
	cp.SetHeight(7)
	snap := cp.Snapshot()
	r.c.Check()
	if snap == nil {
		r.viol("C23", "roundtrip", "C23/txpool/snapshot-failed", "txPoolCheckpoint.Snapshot returned nil for a pool holding %d transactions", n)
		return
	}
	w := newWalker()
	w.max = 50
	for _, p := range []string{"txpool.txPool", "txpool.initConflictManager", "txpool.txFees.onPopBack"} {
		w.skip[p] = true
	}
	w.skipTyp["transaction.DefaultChecker"] = true
	w.skipTyp["transaction.DefaultProcessor"] = true
	w.onField = func(path, typeField string, zero bool) {
		if strings.HasPrefix(typeField, "mempool.") {
			if zero {
				r.c.Probe("not-populated:txpool:" + typeField)
			} else {
				r.c.Probe("populated:txpool:" + typeField)
			}
		}
	}
	w.walk("txpool", reflect.ValueOf(cp), reflect.ValueOf(snap), 0)
	seen := map[string]bool{}
	for _, d := range w.diffs {
		if seen[d.at] {
			continue
		}
		seen[d.at] = true
		what := "snapshot-field-lost"
		if strings.HasPrefix(d.a, "unreachable") || strings.HasPrefix(d.a, "unsupported") {
			what = "field-unreachable"
		}
		r.viol("C23", "roundtrip", fmt.Sprintf("C23/txpool/%s/%s", what, d.at),
			"txpool: the pool's checkpoint holds %d transactions; in its Snapshot() (what gets written to the checkpoint file) %s is %s, was %s", n, d.path, d.b, d.a)
	}
	r.c.Probe("roundtrip:txpool:snapshot")
}
