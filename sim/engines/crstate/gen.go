package crstate

import (
	"math"

	"verif/sim/core"
)

// Generate draws the configuration knobs and the step list. Profiles:
//
//	C22  CR histories with rollbacks (every plan has at least one), twin compare
//	C29  proposal-lifecycle heavy histories with an adversarial client, some
//	     with a Byzantine miner, rollbacks interleaved; a fault-free stratum
//	C23  (a) field-populated checkpoint round trips + round trips of the live
//	     CR checkpoint at plan-chosen heights, (b) restart faults, including
//	     long histories that restore from a checkpoint file
func (Engine) Generate(r *core.Rng, property, tier string) *core.Plan {
	p := &core.Plan{Knobs: map[string]int64{}, Meta: map[string]string{}}
	g := &gen{r: r, p: p, prop: property, tier: tier}
	g.knobs()
	switch property {
	case "C23":
		if r.Bool(0.3) {
			p.SetKnob("populate", 1)
		}
		p.SetKnob("saveCheckpoints", 1)
		p.SetKnob("viaManager", 1)
		long := 6 // restore-from-file histories are ~1450 blocks: few in the quick tier
		if tier == "thorough" {
			long = 30
		}
		switch r.Pick(long, 60, 34) {
		case 0:
			p.Meta["profile"] = "restart-from-file"
			g.restartLong()
		case 1:
			p.Meta["profile"] = "restart-short"
			g.workload(true, false, true)
		default:
			p.Meta["profile"] = "roundtrip"
			g.workload(false, false, true)
		}
	case "C29":
		if r.Bool(0.3) {
			p.SetKnob("byzMiner", 1)
		}
		rollbacks := !r.Bool(0.2)
		if !rollbacks {
			p.Meta["stratum"] = "no-rollback"
		}
		g.workload(false, rollbacks, false)
	default:
		g.workload(false, true, false)
	}
	return p
}

type gen struct {
	r    *core.Rng
	p    *core.Plan
	prop string
	tier string
	h    int // expected chain height after the steps generated so far

	vs, vp, cs, duty int
	v2, claim2       int // DPoS v2 start height (0 = never) and its claim period

	follow [][]TxD // follow[i]: intents to add to the i-th next block
}

// later schedules an intent for the block `in` blocks ahead.
func (g *gen) later(in int, d TxD) {
	for len(g.follow) <= in {
		g.follow = append(g.follow, nil)
	}
	g.follow[in] = append(g.follow[in], d)
}

func (g *gen) knobs() {
	r, p := g.r, g.p
	ncand := r.Range(4, 8)
	members := r.Range(2, min(5, ncand-1))
	p.SetKnob("ncand", int64(ncand))
	p.SetKnob("members", int64(members))
	switch r.Intn(3) {
	case 0:
		p.SetKnob("agree", int64((2*members+2)/3))
	case 1:
		p.SetKnob("agree", int64(r.Range(1, members)))
	default:
		p.SetKnob("agree", int64(members/2+1))
	}
	g.vs = r.Range(2, 6)
	g.vp = r.Range(10, 16)
	g.cs = g.vs + g.vp
	g.duty = r.Range(g.vp+18, g.vp+50)
	p.SetKnob("votingStart", int64(g.vs))
	p.SetKnob("votingPeriod", int64(g.vp))
	p.SetKnob("dutyPeriod", int64(g.duty))
	p.SetKnob("propCRVoting", int64(r.Range(1, 4)))
	p.SetKnob("propPublicVoting", int64(r.Range(1, 4)))
	p.SetKnob("depositLockup", int64(r.Range(2, 6)))
	p.SetKnob("rejectPermille", []int64{10, 10, 10, 2, 100}[r.Intn(5)])
	p.SetKnob("appropriatePct", []int64{10, 10, 30, 1}[r.Intn(4)])
	p.SetKnob("maxProposals", int64(r.Range(2, 8)))
	p.SetKnob("maxTracking", int64(r.Range(3, 10)))
	mid := func() int64 { return int64(g.cs + r.Range(4, g.duty-4)) }
	three := func() int64 {
		switch r.Intn(3) {
		case 0:
			return 0
		case 1:
			return mid()
		}
		return math.MaxUint32
	}
	// candidates registered without a DID (payload v0) can never be elected, so
	// RegisterCRByDIDHeight is mostly at or near the start of the CR era
	switch r.Pick(70, 22, 8) {
	case 0:
		p.SetKnob("didHeight", 0)
	case 1:
		p.SetKnob("didHeight", int64(g.vs+r.Range(1, 5)))
	default:
		p.SetKnob("didHeight", math.MaxUint32)
	}
	p.SetKnob("withdrawV1Height", three())
	p.SetKnob("draftDataHeight", three())
	if r.Bool(0.25) {
		p.SetKnob("v1Height", mid())
	} else {
		p.SetKnob("v1Height", 0)
	}
	p.SetKnob("claimStart", int64(g.cs+r.Range(0, 6)))
	p.SetKnob("claimPeriod", int64(r.Range(3, 12)))
	p.SetKnob("maturity", int64(r.Range(0, 3)))
	if r.Bool(0.5) {
		p.SetKnob("newCRHeight", 0)
	} else {
		p.SetKnob("newCRHeight", math.MaxUint32)
	}
	if r.Bool(0.3) {
		p.SetKnob("inactivePenalty", 100*ela)
	}
	p.SetKnob("viaManager", int64(r.Intn(2)))
	p.SetKnob("stepwiseRollback", int64(r.Pick(1, 2)))
	p.SetKnob("assetsSeed", []int64{0, 1000, 1000000, 1000000}[r.Intn(4)])
	p.SetKnob("quietFirstBlock", int64(r.Intn(2)))
	// DPoS v2 era of the committee (Voting payloads, next members, claim period)
	// starts in the middle of the first term in 40% of the plans
	g.claim2 = r.Range(2, 4)
	p.SetKnob("claimPeriodV2", int64(g.claim2))
	if r.Bool(0.4) {
		g.v2 = g.cs + r.Range(3, g.duty-g.vp-g.claim2-6)
		p.SetKnob("dposV2Start", int64(g.v2))
	}
	p.SetKnob("customIDHeight", 0)
	p.SetKnob("sideChainHeight", 0)
}

// inVoting approximates the committee's voting periods from the knobs (only
// used to bias the workload; the real checkers decide what is valid).
func (g *gen) inVoting(h int) bool {
	if h < g.vs {
		return false
	}
	if h < g.cs {
		return true
	}
	off := (h - g.cs) % g.duty
	if g.v2 > 0 && h >= g.v2 {
		return off >= g.duty-g.vp-g.claim2 && off < g.duty-g.claim2
	}
	return off >= g.duty-g.vp
}

// inClaimV2: between the end of a v2-era voting period and the committee change.
func (g *gen) inClaimV2(h int) bool {
	if g.v2 == 0 || h < g.v2 || h < g.cs {
		return false
	}
	off := (h - g.cs) % g.duty
	return off >= g.duty-g.claim2
}

func (g *gen) txd() TxD {
	r := g.r
	return TxD{A: r.Intn(64), B: r.Intn(64), C: r.Intn(64)}
}

func (g *gen) votingIntent() TxD {
	r := g.r
	d := g.txd()
	wUnreg, wRet := 3, 3
	if g.prop == "C28" {
		// deposit-heavy: candidates come and go, deposits are claimed back at every stage
		wUnreg, wRet = 12, 14
	}
	switch r.Pick(30, 34, 8, wUnreg, 4, wRet, 5, 4, 3) {
	case 0:
		d.K, d.F = "reg", r.Pick(70, 10, 10, 10)*4+r.Intn(3)
		if r.Bool(0.1) {
			d.F |= 8
		}
	case 1:
		d.K, d.F = "vote", 1
		if r.Bool(0.3) {
			d.F |= 8
		}
		if r.Bool(0.05) {
			d.F |= 16
		}
		d.V = []int64{0, 1000 * ela, 50000 * ela, 7}[r.Intn(4)]
	case 2:
		d.K, d.F = "upd", r.Intn(16)
	case 3:
		d.K = "unreg"
	case 4:
		d.K = "unvote"
	case 5:
		d.K, d.F = "retdep", r.Intn(4)
	case 6:
		return g.dutyIntent()
	case 7:
		d.K, d.F = "adv", r.Intn(len(advKinds))
	default:
		d.K, d.F = "claim", r.Intn(2)
	}
	return d
}

func (g *gen) dutyIntent() TxD {
	r := g.r
	d := g.txd()
	adv := 10
	if g.prop == "C29" {
		adv = 22
	}
	wRet, wReg := 3, 3
	if g.prop == "C28" {
		wRet, wReg = 12, 9
	}
	switch r.Pick(22, 8, 5, 6, 4, 16, 14, 3, wRet, 3, adv, wReg) {
	case 0:
		d.K, d.F = "prop", r.Intn(len(proposalTypes))
		d.V = []int64{ela, 5 * ela, 40 * ela, 400 * ela, 3}[r.Intn(5)]
	case 1:
		d.K = "reviewall"
		switch r.Pick(60, 25, 15) {
		case 0:
			d.F = 0
		case 1:
			d.F = 1 << uint(r.Intn(5))
		default:
			d.F = r.Intn(32) | r.Intn(2)<<8
		}
	case 2:
		d.K, d.F = "review", r.Intn(3)
	case 3: // reject vote
		d.K, d.F = "vote", 2
		if r.Bool(0.3) {
			d.F |= 8
		}
		d.V = []int64{0, 0, 1000 * ela, 60000 * ela}[r.Intn(4)]
	case 4: // impeachment
		d.K, d.F = "vote", 4
		if r.Bool(0.3) {
			d.F |= 8
		}
		if r.Bool(0.2) {
			d.F |= 2
		}
		d.V = []int64{0, 0, 1000 * ela}[r.Intn(3)]
	case 5:
		d.K, d.F = "track", r.Pick(30, 10, 5, 18, 10, 8, 8, 6)
	case 6:
		d.K = "wd"
	case 7:
		d.K, d.F = "claim", r.Intn(2)
	case 8:
		d.K, d.F = "retdep", r.Intn(4)
	case 9:
		d.K = "unvote"
	case 10:
		d.K, d.F = "adv", r.Intn(len(advKinds))
	default:
		return TxD{K: []string{"reg", "upd", "unreg"}[r.Intn(3)], A: d.A, B: d.B, F: r.Intn(3)}
	}
	return d
}

func (g *gen) block() Step {
	r := g.r
	st := Step{Op: "block"}
	if len(g.follow) > 0 {
		st.Txs = append(st.Txs, g.follow[0]...)
		g.follow = g.follow[1:]
	}
	// members claim their DPoS nodes soon after every expected election
	if off := g.h + 1 - g.cs; off >= 0 && off%g.duty == r.Range(0, 2) && r.Bool(0.85) {
		for i := 0; i < int(g.p.Knob("members", 3)); i++ {
			st.Txs = append(st.Txs, TxD{K: "claim", A: i, B: i + r.Intn(2)})
		}
	}
	if g.inClaimV2(g.h+1) && r.Bool(0.7) {
		// elected-next members claim their nodes before taking office
		for i := 0; i < int(g.p.Knob("members", 3)); i++ {
			if r.Bool(0.8) {
				st.Txs = append(st.Txs, TxD{K: "claim", A: i, B: i + 3 + r.Intn(2), F: 1})
			}
		}
	}
	n := r.Pick(22, 34, 24, 13, 7)
	for i := 0; i < n; i++ {
		if g.inVoting(g.h + 1) {
			st.Txs = append(st.Txs, g.votingIntent())
		} else if g.h+1 >= g.cs {
			d := g.dutyIntent()
			st.Txs = append(st.Txs, d)
			if d.K == "prop" && r.Bool(0.8) {
				// the council usually reviews a proposal right away
				f := 0
				if r.Bool(0.2) {
					f = 1 << uint(r.Intn(5))
				}
				g.later(r.Intn(2), TxD{K: "reviewall", A: 63 - r.Intn(2), F: f})
				// and the owner follows up once the votes are through
				wait := int(g.p.Knob("propCRVoting", 3)+g.p.Knob("propPublicVoting", 3)) + 1
				g.later(wait+r.Intn(3), TxD{K: "wd", A: r.Intn(8), B: r.Intn(8)})
				g.later(wait+r.Intn(4), TxD{K: "track", A: r.Intn(8), B: r.Intn(8), F: r.Pick(40, 10, 5, 20, 10, 5, 5, 5)})
				g.later(wait+2+r.Intn(4), TxD{K: "wd", A: r.Intn(8), B: r.Intn(8)})
				g.later(wait+3+r.Intn(5), TxD{K: "track", A: r.Intn(8), B: r.Intn(8), F: r.Pick(30, 10, 5, 30, 10, 5, 5, 5)})
				g.later(wait+5+r.Intn(5), TxD{K: "wd", A: r.Intn(8), B: r.Intn(8)})
			}
		}
	}
	if r.Bool(0.06) {
		st.F = 1
	}
	if g.v2 > 0 && g.h+1 >= g.v2 {
		for i := range st.Txs {
			if st.Txs[i].K == "vote" && r.Bool(0.7) {
				st.Txs[i].F |= 32
			}
		}
	}
	g.h++
	return st
}

func (g *gen) rollbackStep() Step {
	r := g.r
	var d int
	switch r.Pick(50, 30, 15, 5) {
	case 0:
		d = 1
	case 1:
		d = r.Range(2, 3)
	case 2:
		d = r.Range(4, 8)
	default:
		d = r.Range(9, 20)
		if g.tier == "thorough" && r.Bool(0.3) {
			d = r.Range(20, 200) // clipped to the history below
		}
	}
	if d > g.h-g.vs-1 {
		d = g.h - g.vs - 1
	}
	if d < 1 {
		d = 1
	}
	g.h -= d
	if g.h < g.vs {
		g.h = g.vs
	}
	return Step{Op: "rollback", N: d}
}

// bootstrap registers most candidates at the start of the first voting period
// and has the voters vote for them once they are active, so that a committee
// usually forms. The steps are ordinary intents.
func (g *gen) bootstrap() {
	r, p := g.r, g.p
	ncand := int(p.Knob("ncand", 5))
	first := g.vs - 1
	if p.Knob("quietFirstBlock", 0) == 1 {
		first = g.vs // the block at CRVotingStartHeight stays empty
	}
	for g.h < first {
		p.Add(Step{Op: "block"})
		g.h++
	}
	perm := r.Perm(ncand)
	k := r.Range(min(int(p.Knob("members", 3))+1, ncand), ncand)
	st := Step{Op: "block"}
	for i := 0; i < k; i++ {
		st.Txs = append(st.Txs, TxD{K: "reg", A: perm[i], B: r.Intn(8), F: r.Intn(3)})
		if len(st.Txs) == 4 {
			p.Add(st)
			g.h++
			st = Step{Op: "block"}
		}
	}
	p.Add(st)
	g.h++
	// wait for activation
	for i := r.Range(5, 7); i > 0 && g.h < g.cs-3; i-- {
		p.Add(g.block())
	}
	st = Step{Op: "block"}
	for v := 0; v < 3; v++ {
		// disjoint triples of candidates, so that enough of them have votes
		st.Txs = append(st.Txs, TxD{K: "vote", A: v, B: 3 * v, C: 2, F: 1, V: []int64{0, 30000 * ela}[r.Intn(2)]})
	}
	p.Add(st)
	g.h++
}

// workload emits the main history. restart adds restart faults, rollbacks adds
// rollback faults, ckpt adds checkpoint round-trip steps.
func (g *gen) workload(restart, rollbacks, ckpt bool) {
	r, p := g.r, g.p
	if r.Bool(0.9) {
		g.bootstrap()
	}
	total := g.cs + g.duty + r.Range(4, g.vp+12)
	if r.Bool(0.25) {
		total = g.cs + r.Range(10, g.duty)
	}
	if g.tier == "thorough" && r.Bool(0.3) {
		total += g.duty
	}
	nblocks := 0
	faults := 0
	// rollbacks cluster around interesting heights: just after the committee
	// starts, and anywhere proposals are moving
	pRollback := 0.05
	for g.h < total && nblocks < 400 {
		nblocks++
		if r.Bool(0.04) {
			n := r.Range(2, 6)
			p.Add(Step{Op: "idle", N: n})
			g.h += n
		} else {
			p.Add(g.block())
		}
		near := g.h > g.cs && g.h <= g.cs+3 || g.h > g.cs+g.duty && g.h <= g.cs+g.duty+3
		if rollbacks && g.h > g.vs+2 && (r.Bool(pRollback) || near && r.Bool(0.25)) {
			p.Add(g.rollbackStep())
			faults++
		}
		if restart && g.h > g.vs+2 && (r.Bool(0.03) || near && r.Bool(0.3)) {
			p.Add(Step{Op: "restart", F: r.Intn(4)})
			faults++
		}
		if ckpt && r.Bool(0.06) {
			p.Add(Step{Op: "ckpt"})
		}
	}
	if rollbacks && faults == 0 {
		p.Add(g.rollbackStep())
		for i := r.Range(2, 6); i > 0; i-- {
			p.Add(g.block())
		}
	}
	if restart && faults == 0 {
		p.Add(Step{Op: "restart", F: r.Intn(4)})
		for i := r.Range(2, 6); i > 0; i-- {
			p.Add(g.block())
		}
	}
	if ckpt {
		p.Add(Step{Op: "ckpt"})
	}
}

// restartLong: a history long enough for the checkpoint manager to have a
// default checkpoint file (saved at 720, promoted at 1440), with activity
// before the save height, around it, and before the restart.
func (g *gen) restartLong() {
	r, p := g.r, g.p
	// one long first term so that the committee and its proposals are alive
	// across the save height
	g.duty = r.Range(800, 1600)
	p.SetKnob("dutyPeriod", int64(g.duty))
	if g.v2 > 0 {
		g.v2 = g.cs + r.Range(3, 600)
		p.SetKnob("dposV2Start", int64(g.v2))
	}
	for _, k := range []string{"didHeight", "withdrawV1Height", "draftDataHeight"} {
		if v := p.Knob(k, 0); v != 0 && v != math.MaxUint32 {
			p.SetKnob(k, int64(g.cs+r.Range(4, 60)))
		}
	}
	p.SetKnob("v1Height", 0)
	g.bootstrap()
	burst := func(n int) {
		for i := 0; i < n; i++ {
			p.Add(g.block())
		}
	}
	idleTo := func(h int) {
		if h > g.h {
			p.Add(Step{Op: "idle", N: h - g.h})
			g.h = h
		}
	}
	burst(g.cs - g.h + r.Range(20, 50))
	idleTo(720 - r.Range(8, 30))
	if r.Bool(0.25) { // stop exactly when the first checkpoint file is (being) written
		burst(720 - g.h)
		p.Add(Step{Op: "restart", F: r.Intn(4)})
	}
	burst(r.Range(20, 50)) // across the save at 720
	idleTo(1440 - r.Range(5, 25))
	if r.Bool(0.3) { // stop exactly at the promotion + second save
		burst(1440 - g.h)
		p.Add(Step{Op: "restart", F: r.Intn(4)})
	}
	burst(r.Range(10, 40)) // across the promotion at 1440
	if g.h <= 1441 {
		idleTo(1442)
	}
	p.Add(Step{Op: "restart", F: r.Intn(4)})
	burst(r.Range(5, 25))
	if r.Bool(0.3) {
		p.Add(Step{Op: "restart", F: r.Intn(4)})
		burst(r.Range(3, 10))
	}
	p.Add(Step{Op: "ckpt"})
}
