package crstate

import (
	"encoding/json"
	"fmt"
	"os"
	"sort"
	"strconv"
	"strings"
	"testing"
	"time"

	"verif/sim/core"
)

// TestDev is a developer convenience: CRDEV=C22:20[:firstseed][:log] runs plans in-process and
// prints a summary. It is skipped unless CRDEV is set.
func TestDev(t *testing.T) {
	spec := os.Getenv("CRDEV")
	if spec == "" {
		t.Skip()
	}
	parts := strings.Split(spec, ":")
	prop := parts[0]
	n, _ := strconv.Atoi(parts[1])
	first := 0
	if len(parts) > 2 {
		first, _ = strconv.Atoi(parts[2])
	}
	showLog := len(parts) > 3
	os.Setenv("SIM_TMP", t.TempDir())
	if kf := os.Getenv("CRDEV_KNOWNFILE"); kf != "" {
		b, err := os.ReadFile(kf)
		if err != nil {
			t.Fatal(err)
		}
		var items []struct{ Property, Signature string }
		if err := json.Unmarshal(b, &items); err != nil {
			t.Fatal(err)
		}
		for _, it := range items {
			core.KnownSigs[it.Property+"|"+it.Signature] = true
		}
	}
	if k := os.Getenv("CRDEV_KNOWN"); k != "" {
		devKnownPrefixes = strings.Split(k, ",")
	}
	probes := map[string]int{}
	faults := map[string]int{}
	viols := map[string]int{}
	var wall time.Duration
	shrunk := false
	for i := first; i < first+n; i++ {
		seed := core.Mix(1, uint64(i))
		e := Engine{}
		tier := "quick"
		if t := os.Getenv("CRDEV_TIER"); t != "" {
			tier = t
		}
		plan := e.Generate(core.NewRng(seed), prop, tier)
		plan.Engine, plan.Property, plan.Tier, plan.Seed = "crstate", prop, tier, seed
		t0 := time.Now()
		out := core.Run(t, e, plan, showLog)
		wall += time.Since(t0)
		if out.HarnessErr != "" {
			fmt.Printf("seed#%d HARNESS %s\n", i, out.HarnessErr)
		}
		for k, v := range out.Probes {
			probes[k] += v
		}
		for k, v := range out.Faults {
			faults[k] += v
		}
		for _, v := range out.Violations {
			if pre := os.Getenv("CRDEV_SHRINK"); pre != "" && strings.HasPrefix(v.Signature, pre) && !shrunk {
				shrunk = true
				small, execs := core.Shrink(t, e, plan, prop, v.Signature, 400)
				o2 := core.Run(t, e, small, true)
				fmt.Printf("SHRUNK %s to %d steps in %d execs; knobs=%v\n", v.Signature, len(small.Steps), execs, small.Knobs)
				for _, s := range small.Steps {
					fmt.Printf("  %s\n", string(s))
				}
				for _, l := range o2.Log {
					fmt.Println("  |", l)
				}
				for _, vv := range o2.Violations {
					fmt.Printf("  V %s: %s\n", vv.Signature, vv.Message)
				}
			}
			if viols[v.Signature] == 0 {
				tag := "VIOL"
				if core.KnownSigs[v.Property+"|"+v.Signature] {
					tag = "KNOWN"
				}
				fmt.Printf("seed#%d %s %s\n    %s\n", i, tag, v.Signature, v.Message)
			}
			viols[v.Signature]++
		}
		if showLog {
			for _, l := range out.Log {
				fmt.Println(l)
			}
		}
		fmt.Printf("seed#%d steps=%d checks=%d post=%d viol=%d hash=%s wall=%v\n", i, len(plan.Steps), out.Checks, out.ChecksPost, len(out.Violations), out.LogHash[:8], time.Since(t0).Round(time.Millisecond))
	}
	pr := func(title string, m map[string]int) {
		var ks []string
		for k := range m {
			ks = append(ks, k)
		}
		sort.Strings(ks)
		fmt.Println("==", title)
		for _, k := range ks {
			fmt.Printf("  %-70s %d\n", k, m[k])
		}
	}
	pr("faults", faults)
	pr("probes", probes)
	pr("violations", viols)
	fmt.Println("total wall", wall)
}
