package wiresim

import (
	"bytes"
	"fmt"
	"reflect"

	"github.com/elastos/Elastos.ELA/core/types/interfaces"
)

// canonDiff compares two values the way the wire can: nil and empty slices
// are the same value, time.Time compares by instant, unexported fields
// (hash caches) are ignored. It returns the path of the first difference.
// skip lists field paths (relative to the root) that are not compared.
func canonDiff(a, b reflect.Value, path string, skip map[string]bool) (string, bool) {
	if skip != nil && skip[path] {
		return "", true
	}
	if !a.IsValid() || !b.IsValid() {
		if a.IsValid() != b.IsValid() {
			return path, false
		}
		return "", true
	}
	if a.Type() != b.Type() {
		return path + "(type)", false
	}
	t := a.Type()
	if t == timeType {
		ta := a.MethodByName("UnixNano").Call(nil)[0].Int()
		tb := b.MethodByName("UnixNano").Call(nil)[0].Int()
		if ta != tb {
			return path, false
		}
		return "", true
	}
	switch a.Kind() {
	case reflect.Bool:
		if a.Bool() != b.Bool() {
			return path, false
		}
	case reflect.Int, reflect.Int8, reflect.Int16, reflect.Int32, reflect.Int64:
		if a.Int() != b.Int() {
			return path, false
		}
	case reflect.Uint, reflect.Uint8, reflect.Uint16, reflect.Uint32, reflect.Uint64, reflect.Uintptr:
		if a.Uint() != b.Uint() {
			return path, false
		}
	case reflect.String:
		if a.String() != b.String() {
			return path, false
		}
	case reflect.Slice:
		if a.Len() != b.Len() {
			return path + "(len)", false
		}
		if t.Elem().Kind() == reflect.Uint8 {
			if !bytes.Equal(bytesOf(a), bytesOf(b)) {
				return path, false
			}
			return "", true
		}
		for i := 0; i < a.Len(); i++ {
			if p, ok := canonDiff(a.Index(i), b.Index(i), fmt.Sprintf("%s[%d]", path, i), nil); !ok {
				return p, false
			}
		}
	case reflect.Array:
		for i := 0; i < a.Len(); i++ {
			if p, ok := canonDiff(a.Index(i), b.Index(i), path, nil); !ok {
				return p, false
			}
		}
	case reflect.Ptr, reflect.Interface:
		if a.IsNil() || b.IsNil() {
			if a.IsNil() != b.IsNil() {
				return path + "(nil)", false
			}
			return "", true
		}
		if a.CanInterface() && b.CanInterface() {
			// transactions keep their state in unexported fields: compare
			// them through their accessors
			if ta, ok := a.Interface().(interfaces.Transaction); ok {
				if tb, ok := b.Interface().(interfaces.Transaction); ok {
					p, same := txDiff(ta, tb, txDead(ta))
					if !same {
						return path + "." + p, false
					}
					return "", true
				}
			}
		}
		return canonDiff(a.Elem(), b.Elem(), path, skip)
	case reflect.Struct:
		for i := 0; i < a.NumField(); i++ {
			f := t.Field(i)
			if f.PkgPath != "" {
				continue
			}
			sub := f.Name
			if path != "" {
				sub = path + "." + f.Name
			}
			if p, ok := canonDiff(a.Field(i), b.Field(i), sub, skip); !ok {
				return p, false
			}
		}
	}
	return "", true
}

func bytesOf(v reflect.Value) []byte {
	n := v.Len()
	out := make([]byte, n)
	for i := 0; i < n; i++ {
		out[i] = byte(v.Index(i).Uint())
	}
	return out
}

// leafPaths lists the exported field paths of a struct value that liveness
// probing perturbs one at a time: plain fields, and the fields of directly
// nested structs (not slices, not byte arrays).
func leafPaths(v reflect.Value, path string, depth int, out *[]string) {
	for v.Kind() == reflect.Ptr || v.Kind() == reflect.Interface {
		if v.IsNil() {
			return
		}
		v = v.Elem()
	}
	if v.Kind() != reflect.Struct || v.Type() == timeType {
		return
	}
	t := v.Type()
	for i := 0; i < v.NumField(); i++ {
		f := t.Field(i)
		if f.PkgPath != "" {
			continue
		}
		sub := f.Name
		if path != "" {
			sub = path + "." + f.Name
		}
		fv := v.Field(i)
		k := fv.Kind()
		if k == reflect.Ptr && !fv.IsNil() && fv.Elem().Kind() == reflect.Struct && depth < 2 {
			leafPaths(fv, sub, depth+1, out)
			continue
		}
		if k == reflect.Struct && fv.Type() != timeType && depth < 2 {
			leafPaths(fv, sub, depth+1, out)
			continue
		}
		*out = append(*out, sub)
	}
}

// fieldByPath resolves a dotted path produced by leafPaths.
func fieldByPath(v reflect.Value, path string) reflect.Value {
	for v.Kind() == reflect.Ptr || v.Kind() == reflect.Interface {
		v = v.Elem()
	}
	start := 0
	for i := 0; i <= len(path); i++ {
		if i == len(path) || path[i] == '.' {
			v = v.FieldByName(path[start:i])
			start = i + 1
			if i < len(path) {
				for v.Kind() == reflect.Ptr || v.Kind() == reflect.Interface {
					v = v.Elem()
				}
			}
		}
	}
	return v
}

// perturb changes a field to a different value of the same shape. It returns
// false when it does not know how.
func perturb(v reflect.Value) bool {
	if !v.CanSet() {
		return false
	}
	if v.Type() == timeType {
		unix := v.MethodByName("Unix").Call(nil)[0].Int()
		v.Set(reflect.ValueOf(timeUnix(unix ^ 1)))
		return true
	}
	switch v.Kind() {
	case reflect.Bool:
		v.SetBool(!v.Bool())
	case reflect.Int, reflect.Int8, reflect.Int16, reflect.Int32, reflect.Int64:
		v.SetInt(v.Int() ^ 1)
	case reflect.Uint, reflect.Uint8, reflect.Uint16, reflect.Uint32, reflect.Uint64:
		v.SetUint(v.Uint() ^ 1)
	case reflect.String:
		v.SetString(v.String() + "x")
	case reflect.Array:
		if v.Len() == 0 {
			return false
		}
		return perturb(v.Index(0))
	case reflect.Slice:
		if v.Len() == 0 {
			s := reflect.MakeSlice(v.Type(), 1, 1)
			v.Set(s)
			perturb(v.Index(0))
			return true
		}
		// copy first so the original backing array is not shared
		s := reflect.MakeSlice(v.Type(), v.Len(), v.Len())
		reflect.Copy(s, v)
		v.Set(s)
		return perturb(v.Index(0))
	case reflect.Ptr:
		if v.IsNil() {
			v.Set(reflect.New(v.Type().Elem()))
			return true
		}
		return perturb(v.Elem())
	case reflect.Struct:
		t := v.Type()
		for i := 0; i < v.NumField(); i++ {
			if t.Field(i).PkgPath != "" {
				continue
			}
			if perturb(v.Field(i)) {
				return true
			}
		}
		return false
	default:
		return false
	}
	return true
}
