package wiresim

import (
	"bytes"
	"fmt"
	"sort"
	"sync"
	"time"

	"github.com/elastos/Elastos.ELA/core/types"
	"github.com/elastos/Elastos.ELA/p2p"
	"github.com/elastos/Elastos.ELA/p2p/msg"
)

// The serialized-block send cache (C15, last clause).
//
// System under simulation: p2p.WriteMessage with the callback Peer.writeMessage
// hands it, i.e. the process-wide cache of serialized DposBlocks keyed by block
// hash and "carries a confirmation". Simulated: the peers the node serves
// (1..4 connections, each a goroutine of the bubble, some of them slow or with
// a closed window so that a write ends at its deadline), the order in which
// they ask for which block, and the point at which a block gets its
// confirmation (first relayed bare, later with the confirm).
//
// Oracle (transparency): what WriteMessage puts on a connection for a block
// message equals header + the message's own Serialize (the uncached path of the
// very same function), whatever was sent before on any connection. Oracle
// (bounds): after every send each collection the cache owns holds at most
// BlocksCacheSize entries.
//
// Inside the contract: a node holds one confirmation per block hash, so two
// sends of the same (hash, confirmed) carry equal content; the objects differ
// (every send builds its block afresh, as a database read does).

// Send is one block message a simulated peer is served.
type Send struct {
	Blk     int   `json:"b"`            // index into the step's block family (mod size)
	Confirm bool  `json:"c,omitempty"`  // the block has its confirmation by now
	Peer    int   `json:"p,omitempty"`  // connection (mod peers)
	SlotMs  int64 `json:"t,omitempty"`  // earliest start, ms after the step began
	SlowMs  int64 `json:"w,omitempty"`  // the peer's link accepts the bytes only after this long
	Stall   bool  `json:"st,omitempty"` // the peer's window is closed: the write ends at its deadline
	Other   bool  `json:"o,omitempty"`  // a non-block message of the same connection goes first
}

type sendRec struct {
	at       time.Duration
	peer     int
	idx      int
	s        Send
	written  []byte
	err      error
	prefix   []byte
	want     []byte
	sizes    [4]int
	panicked string
}

func (x *exec) scBlock(seed uint64, i int, confirm bool) *types.DposBlock {
	g := newGen(seed + uint64(i)*0x9e3779b97f4a7c15)
	d := &types.DposBlock{Block: g.block()}
	if confirm {
		cg := newGen(seed ^ 0xc0ffee ^ uint64(i)*0x2545f4914f6cdd1d)
		d.HaveConfirm = true
		d.Confirm = cg.confirm()
		d.Confirm.Proposal.BlockHash = d.Block.Hash()
	}
	return d
}

func (x *exec) sendCache(st *Step) {
	c := x.c
	nb := st.NBlk
	if nb < 1 {
		nb = 1
	}
	peers := st.Peers
	if peers < 1 {
		peers = 1
	}
	if len(st.Sends) == 0 {
		return
	}
	magic := x.magic("ela")
	// a node start: nothing cached
	p2p.VerifResetSendCache()
	// reference encodings, by the uncached path
	type key struct {
		b int
		c bool
	}
	ref := map[key][]byte{}
	refOf := func(b int, cf bool) []byte {
		k := key{b, cf}
		if r, ok := ref[k]; ok {
			return r
		}
		var buf bytes.Buffer
		if err := msg.NewBlock(x.scBlock(st.Seed, b, cf)).Serialize(&buf); err != nil {
			panic("wiresim: reference block does not serialize: " + err.Error())
		}
		ref[k] = buf.Bytes()
		return ref[k]
	}
	for i := range st.Sends {
		refOf(st.Sends[i].Blk%nb, st.Sends[i].Confirm)
	}
	frameOf := func(cmd string, payload []byte) []byte { return peerFrame(magic, cmd, payload) }

	start := time.Now()
	recs := make([]*sendRec, len(st.Sends))
	perPeer := make([][]int, peers)
	for i, s := range st.Sends {
		p := s.Peer % peers
		perPeer[p] = append(perPeer[p], i)
	}
	var wg sync.WaitGroup
	for p := 0; p < peers; p++ {
		if len(perPeer[p]) == 0 {
			continue
		}
		wg.Add(1)
		go func(p int) {
			defer wg.Done()
			// align sleeps until the first instant >= target of this peer's residue class
			align := func(target time.Duration) {
				now := time.Since(start)
				if target < now {
					target = now
				}
				ms := int64(target / time.Millisecond)
				if time.Duration(ms)*time.Millisecond < target {
					ms++
				}
				for ms%16 != int64(p) {
					ms++
				}
				if d := time.Duration(ms)*time.Millisecond - now; d > 0 {
					time.Sleep(d)
				}
			}
			for _, i := range perPeer[p] {
				s := st.Sends[i]
				// Every peer goroutine touches the cache only at instants of its own
				// residue class (mod 16 ms): no two are ever runnable at one moment
				// of simulated time, so the order of cache operations is the plan's.
				align(time.Duration(s.SlotMs) * time.Millisecond)
				rec := &sendRec{at: time.Since(start), peer: p, idx: i, s: s}
				recs[i] = rec
				b := s.Blk % nb
				conn := &simConn{}
				if s.Other {
					// an unrelated message first: goes the uncached way and must not disturb anything
					ping := msg.NewPing(uint64(i))
					var pb bytes.Buffer
					_ = ping.Serialize(&pb)
					_ = p2p.WriteMessage(conn, magic, ping, p2p.WriteMessageTimeOut, getDposBlock)
					rec.prefix = frameOf(ping.CMD(), pb.Bytes())
				}
				conn.writeStall = s.Stall
				if s.SlowMs > 0 {
					conn.writeDelay = time.Duration(s.SlowMs) * time.Millisecond
				}
				m := msg.NewBlock(x.scBlock(st.Seed, b, s.Confirm))
				func() {
					defer func() {
						if r := recover(); r != nil {
							rec.panicked = fmt.Sprint(r) + " at " + panicSiteFromStack()
						}
					}()
					rec.err = p2p.WriteMessage(conn, magic, m, p2p.WriteMessageTimeOut, getDposBlock)
				}()
				rec.written = conn.written
				rec.want = frameOf(m.CMD(), refOf(b, s.Confirm))
				align(0) // a slow write returns at any instant: look at the cache at one of our own
				hq, cq, hs, bl := p2p.VerifSendCacheSizes()
				rec.sizes = [4]int{hq, cq, hs, bl}
			}
		}(p)
	}
	wg.Wait()
	c.AddSimSeconds(time.Since(start).Seconds())

	// judge in the order the sends began
	order := make([]*sendRec, 0, len(recs))
	for _, r := range recs {
		if r != nil {
			order = append(order, r)
		}
	}
	sort.SliceStable(order, func(i, j int) bool {
		if order[i].at != order[j].at {
			return order[i].at < order[j].at
		}
		return order[i].peer < order[j].peer
	})
	bound := p2p.BlocksCacheSize
	recent := []key{} // reach measure only: the last distinct keys served
	seen := map[key]bool{}
	for _, r := range order {
		b := r.s.Blk % nb
		k := key{b, r.s.Confirm}
		c.Logf("send t=%dms peer=%d blk=%d confirm=%v slow=%d stall=%v err=%v bytes=%d cache=%v", r.at/time.Millisecond, r.peer, b, r.s.Confirm, r.s.SlowMs, r.s.Stall, r.err != nil, len(r.written), r.sizes)
		// reach
		hit := false
		for _, q := range recent {
			if q == k {
				hit = true
			}
		}
		switch {
		case hit:
			c.Fault("sendcache-resend-while-recent")
		case seen[k]:
			c.Fault("sendcache-resend-after-eviction")
		case seen[key{b, !r.s.Confirm}]:
			c.Fault("sendcache-same-block-other-confirm-state")
		default:
			c.Fault("sendcache-first-send")
		}
		seen[k] = true
		if !hit {
			recent = append(recent, k)
			if len(recent) > bound {
				recent = recent[1:]
				c.Probe("sendcache-more-keys-than-bound")
			}
		}
		if r.s.SlowMs > 0 {
			c.Fault("sendcache-slow-peer")
		}
		if r.s.Stall {
			c.Fault("sendcache-write-stalled")
		}
		if r.panicked != "" {
			c.Check()
			c.Violate("C15", "sendcache-no-panic", "C15/send-cache-panic", "WriteMessage panicked serving block %d (confirm=%v): %s", b, r.s.Confirm, r.panicked)
			continue
		}
		c.Check()
		if r.s.Stall {
			if r.err == nil {
				c.Violate("C15", "sendcache-stalled-write", "C15/send-stalled-write-reported-success", "a write on a connection whose window never opened returned no error")
			}
		} else if r.err != nil {
			c.Violate("C15", "sendcache-transparent", "C15/send-cache-write-failed", "WriteMessage failed on a healthy connection for block %d (confirm=%v): %v", b, r.s.Confirm, r.err)
		} else if !bytes.HasPrefix(r.written, r.prefix) {
			c.Violate("C15", "sendcache-transparent", "C15/send-cache-disturbs-other-message", "the message sent before block %d on the same connection did not go out as its own encoding", b)
		} else if got := r.written[len(r.prefix):]; !bytes.Equal(got, r.want) {
			// which bytes did go out?
			class := "other-bytes"
			ks := make([]key, 0, len(ref))
			for q := range ref {
				ks = append(ks, q)
			}
			sort.Slice(ks, func(i, j int) bool {
				if ks[i].b != ks[j].b {
					return ks[i].b < ks[j].b
				}
				return !ks[i].c && ks[j].c
			})
			for _, q := range ks {
				if q != k && bytes.Equal(got, frameOf("block", ref[q])) {
					if q.b == b {
						class = "same-block-other-confirm-state"
					} else {
						class = "another-block"
					}
				}
			}
			c.Violate("C15", "sendcache-transparent", "C15/send-cache-answer-differs:"+class,
				"block %d (confirm=%v) went out as %d bytes, the uncached encoding has %d (%s); cache sizes %v", b, r.s.Confirm, len(r.written), len(r.want), class, r.sizes)
		}
		names := [4]string{"hash-queue", "confirm-queue", "hash-map", "serialized-blocks"}
		for i, n := range r.sizes {
			c.Check()
			if n > bound {
				c.Violate("C15", "sendcache-bounds", "C15/send-cache-exceeds-bound:"+names[i],
					"after serving block %d (confirm=%v) the send cache's %s holds %d entries, bound %d (all sizes %v)", b, r.s.Confirm, names[i], n, bound, r.sizes)
			}
		}
		c.State(uint64(r.sizes[0])<<48 ^ uint64(r.sizes[1])<<32 ^ uint64(r.sizes[2])<<16 ^ uint64(r.sizes[3])<<8 ^ uint64(b)<<1 ^ boolBit(r.s.Confirm))
	}
	c.SetSample(map[string]interface{}{"op": "sendcache", "blocks": nb, "peers": peers, "sends": len(st.Sends)})
}

func boolBit(b bool) uint64 {
	if b {
		return 1
	}
	return 0
}
