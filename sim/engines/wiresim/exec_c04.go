package wiresim

import (
	"bytes"
	"encoding/hex"
	"fmt"
	"reflect"
	"strings"

	pg "github.com/elastos/Elastos.ELA/core/contract/program"
	"github.com/elastos/Elastos.ELA/core/types/interfaces"

	"verif/sim/core"
)

// valueDiff compares two wire values. Transactions keep all their state in
// unexported fields, so they are compared through their accessors.
func valueDiff(a, b interface{}, skip map[string]bool) (string, bool) {
	ta, oka := a.(interfaces.Transaction)
	tb, okb := b.(interfaces.Transaction)
	if oka && okb {
		return txDiff(ta, tb, skip)
	}
	return canonDiff(reflect.ValueOf(a), reflect.ValueOf(b), "", skip)
}

func txDiff(a, b interfaces.Transaction, skip map[string]bool) (string, bool) {
	if a.Version() != b.Version() {
		return "Version", false
	}
	if a.TxType() != b.TxType() {
		return "TxType", false
	}
	if a.PayloadVersion() != b.PayloadVersion() {
		return "PayloadVersion", false
	}
	if a.LockTime() != b.LockTime() {
		return "LockTime", false
	}
	if p, ok := canonDiff(reflect.ValueOf(a.Payload()), reflect.ValueOf(b.Payload()), "", skip); !ok {
		return "Payload." + p, false
	}
	if p, ok := canonDiff(reflect.ValueOf(a.Attributes()), reflect.ValueOf(b.Attributes()), "Attributes", nil); !ok {
		return p, false
	}
	if p, ok := canonDiff(reflect.ValueOf(a.Inputs()), reflect.ValueOf(b.Inputs()), "Inputs", nil); !ok {
		return p, false
	}
	if p, ok := canonDiff(reflect.ValueOf(a.Outputs()), reflect.ValueOf(b.Outputs()), "Outputs", nil); !ok {
		return p, false
	}
	if p, ok := canonDiff(reflect.ValueOf(a.Programs()), reflect.ValueOf(b.Programs()), "Programs", nil); !ok {
		return p, false
	}
	return "", true
}

// livenessRoot is the struct whose exported fields are probed for presence on
// the wire: a transaction's payload, otherwise the value itself.
func livenessRoot(v interface{}) reflect.Value {
	if tx, ok := v.(interfaces.Transaction); ok {
		return reflect.ValueOf(tx.Payload())
	}
	return reflect.ValueOf(v)
}

// deadFields returns the fields of a value whose contents do not reach the
// encoder's output in this kind/version/variant: a decoded copy of the
// encoding e0 has that one field changed and is encoded again; if the bytes
// are the same the field is not part of the wire value and is excluded from
// the value comparison. Everything else must come back from the decoder
// unchanged.
func deadFields(k *kind, e0 []byte) map[string]bool {
	r := runDecode(k.decode, e0, false)
	if r.err != nil || r.panicked {
		return nil
	}
	var paths []string
	leafPaths(livenessRoot(r.val), "", 0, &paths)
	dead := map[string]bool{}
	for _, p := range paths {
		r := runDecode(k.decode, e0, false)
		if r.err != nil || r.panicked {
			return nil
		}
		f := fieldByPath(livenessRoot(r.val), p)
		if !f.IsValid() || !perturb(f) {
			continue
		}
		e, err := safeEncode(k, r.val)
		if err == nil && bytes.Equal(e, e0) {
			dead[p] = true
		}
	}
	return dead
}

var txCodec = &kind{name: "tx", enc: encTx, dec: decTx}

// txDead is deadFields for a transaction met inside another value (block).
func txDead(tx interfaces.Transaction) map[string]bool {
	e, err := safeEncode(txCodec, tx)
	if err != nil {
		return nil
	}
	return deadFields(txCodec, e)
}

func safeEncode(k *kind, v interface{}) (b []byte, err error) {
	defer func() {
		if r := recover(); r != nil {
			err = fmt.Errorf("encoder panicked: %v", r)
		}
	}()
	return k.encode(v)
}

// roundTrip is the C04 oracle for one freshly generated well-formed value.
// It returns the value, its encoding and whether everything held.
func (x *exec) roundTrip(k *kind, seed uint64) (interface{}, []byte, bool) {
	c := x.c
	x.setDposPV(k)
	fam := k.name
	v0 := k.build(newGen(seed))
	e0, err := safeEncode(k, v0)
	c.Check()
	if err != nil {
		x.violateRaw("C04", "encode-decode-equal", "C04/well-formed-value-does-not-encode/"+fam, Step{Op: "sweepone", Kind: k.name, Seed: seed},
			"%s (seed %d): the node's encoder rejected a generated well-formed value: %v", k.name, seed, err)
		return nil, nil, false
	}
	// the honest encoding of small generated values: decoded at face value
	r := runDecode(k.decode, e0, true)
	x.judge(k, e0, r)
	c.Check()
	if r.panicked || r.err != nil {
		x.violateRaw("C04", "encode-decode-equal", "C04/encoded-value-rejected/"+fam, Step{Op: "sweepone", Kind: k.name, Seed: seed},
			"%s (seed %d): bytes written by the node's encoder were not accepted by its decoder: %v (panic=%v); bytes %s", k.name, seed, r.err, r.panicked, hexShort(e0, 200))
		return v0, e0, false
	}
	v1 := r.val
	ok := true
	e1, err := safeEncode(k, v1)
	c.Check()
	if err != nil || !bytes.Equal(e0, e1) {
		ok = false
		x.violateRaw("C04", "reencode-equal", "C04/reencode-differs/"+fam, Step{Op: "sweepone", Kind: k.name, Seed: seed},
			"%s (seed %d): decode(encode(v)) re-encodes differently (err=%v)\n sent   %s\n resent %s", k.name, seed, err, hexShort(e0, 200), hexShort(e1, 200))
	}
	if k.hash != nil {
		h0, _ := k.hash(v0)
		h1, _ := k.hash(v1)
		c.Check()
		if !bytes.Equal(h0, h1) {
			ok = false
			x.violateRaw("C04", "hash-equal", "C04/hash-differs-after-roundtrip/"+fam, Step{Op: "sweepone", Kind: k.name, Seed: seed},
				"%s (seed %d): Hash() %x before encoding, %x after decoding", k.name, seed, h0, h1)
		}
	}
	dead := deadFields(k, e0)
	c.Check()
	if p, same := valueDiff(v0, v1, dead); !same {
		ok = false
		x.violateRaw("C04", "value-equal", "C04/field-differs-after-roundtrip/"+fieldFamily(k, p)+"/"+stripIdx(p), Step{Op: "sweepone", Kind: k.name, Seed: seed},
			"%s (seed %d): field %s of the decoded value differs from the encoded one although it is on the wire", k.name, seed, p)
	}
	if k.isTx {
		if !x.programInvariance(k, seed, v0.(interfaces.Transaction), e0) {
			ok = false
		}
	}
	return v0, e0, ok
}

// fieldFamily names the codec a differing field belongs to: the payload codec
// of the transaction type/version, or the shared transaction frame.
func fieldFamily(k *kind, path string) string {
	if k.isTx && !strings.HasPrefix(path, "Payload.") {
		return "tx-frame"
	}
	return family(k.name)
}

func stripIdx(p string) string {
	out := make([]byte, 0, len(p))
	skip := false
	for i := 0; i < len(p); i++ {
		switch {
		case p[i] == '[':
			skip = true
			out = append(out, '[', ']')
		case p[i] == ']':
			skip = false
		case !skip:
			out = append(out, p[i])
		}
	}
	return string(out)
}

// programInvariance: a transaction's identity must not depend on its
// signature programs. Each variant is applied to a freshly decoded copy
// (Hash() caches), and the re-encoded variant is decoded and hashed again.
func (x *exec) programInvariance(k *kind, seed uint64, tx interfaces.Transaction, e0 []byte) bool {
	c := x.c
	h0 := tx.Hash()
	g := newGen(seed ^ 0x5157a9)
	fresh := g.programs()
	if len(fresh) == 0 {
		fresh = []*pg.Program{{Code: g.r.Bytes(35), Parameter: g.r.Bytes(65)}}
	}
	orig := tx.Programs()
	var permuted []*pg.Program
	for i := len(orig) - 1; i >= 0; i-- {
		permuted = append(permuted, orig[i])
	}
	permuted = append(permuted, fresh[0])
	variants := []struct {
		name string
		p    []*pg.Program
	}{{"emptied", nil}, {"replaced", fresh}, {"permuted+extended", permuted}}
	ok := true
	for _, va := range variants {
		t1, err := decTx(bytes.NewReader(e0))
		if err != nil {
			return false // already reported by roundTrip
		}
		t := t1.(interfaces.Transaction)
		t.SetPrograms(va.p)
		h1 := t.Hash()
		c.Check()
		if h1 != h0 {
			ok = false
			x.violateRaw("C04", "hash-ignores-programs", "C04/tx-hash-depends-on-programs/tx", Step{Op: "sweepone", Kind: k.name, Seed: seed},
				"%s (seed %d): Hash() changed from %s to %s when the programs were %s", k.name, seed, h0.String(), h1.String(), va.name)
			continue
		}
		ev, err := safeEncode(k, t)
		if err != nil {
			continue
		}
		t2, err := decTx(bytes.NewReader(ev))
		c.Check()
		if err != nil {
			ok = false
			x.violateRaw("C04", "hash-ignores-programs", "C04/tx-with-other-programs-rejected/tx", Step{Op: "sweepone", Kind: k.name, Seed: seed},
				"%s (seed %d): transaction with programs %s does not decode: %v", k.name, seed, va.name, err)
			continue
		}
		if h2 := t2.(interfaces.Transaction).Hash(); h2 != h0 {
			ok = false
			x.violateRaw("C04", "hash-ignores-programs", "C04/tx-hash-depends-on-programs/tx", Step{Op: "sweepone", Kind: k.name, Seed: seed},
				"%s (seed %d): Hash() of the re-decoded transaction with programs %s is %s, expected %s", k.name, seed, va.name, h2.String(), h0.String())
		}
		x.c.Fault("programs-" + va.name)
	}
	return ok
}

// idempotence: a value obtained by decoding (here: from a corrupted message)
// re-encodes to bytes that decode to the same value with the same hash.
func (x *exec) idempotence(k *kind, in []byte, v interface{}) {
	c := x.c
	x.setDposPV(k)
	fam := family(k.name)
	if k.isTx {
		// the payload version actually on the wire is part of the corrupted
		// input, not of the kind: name the transaction type only
		if parts := strings.Split(k.name, "/"); len(parts) >= 2 {
			fam = parts[0] + "/" + parts[1]
		}
	}
	st := Step{Op: "raw", Kind: k.name, Hex: hex.EncodeToString(in)}
	c.Probe("idempotence-checked-on-decoded-corrupted-input")
	e1, err := safeEncode(k, v)
	c.Check()
	if err != nil {
		x.violateRaw("C04", "decode-reencode-decode", "C04/decoded-value-does-not-reencode/"+fam, st,
			"%s: a value the decoder accepted cannot be encoded again: %v; input %s", k.name, err, hexShort(in, 200))
		return
	}
	r := runDecode(k.decode, e1, false)
	c.Check()
	if r.panicked || r.err != nil {
		x.violateRaw("C04", "decode-reencode-decode", "C04/reencoded-bytes-rejected/"+fam, st,
			"%s: re-encoding of a decoded value is rejected by the decoder: %v (panic=%v); input %s reencoded %s", k.name, r.err, r.panicked, hexShort(in, 200), hexShort(e1, 200))
		return
	}
	e2, err := safeEncode(k, r.val)
	c.Check()
	if err != nil || !bytes.Equal(e1, e2) {
		x.violateRaw("C04", "decode-reencode-decode", "C04/reencode-not-stable/"+fam, st,
			"%s: decode->encode->decode->encode is not a fixed point (err=%v); input %s", k.name, err, hexShort(in, 200))
		return
	}
	if k.hash != nil {
		h1, _ := k.hash(v)
		h2, _ := k.hash(r.val)
		c.Check()
		if !bytes.Equal(h1, h2) {
			x.violateRaw("C04", "decode-reencode-decode", "C04/hash-changes-on-reencode/"+fam, st,
				"%s: hash %x of the decoded value, %x after re-encode and decode; input %s", k.name, h1, h2, hexShort(in, 200))
		}
	}
	c.Check()
	if p, same := valueDiff(v, r.val, nil); !same {
		x.violateRaw("C04", "decode-reencode-decode", "C04/value-changes-on-reencode/"+fam+"/"+stripIdx(p), st,
			"%s: field %s differs between the decoded value and decode(encode(it)); input %s", k.name, p, hexShort(in, 200))
	}
}

// sweep: every kind of the catalogue once.
func (x *exec) sweep(st *Step) {
	c := x.c
	parts := st.Parts
	if parts < 1 {
		parts = 1
	}
	type sent struct {
		k    *kind
		seed uint64
		v    interface{}
		e    []byte
	}
	var ela, dp []sent
	n := 0
	for i, k := range catalog {
		if i%parts != st.Part%parts {
			continue
		}
		seed := core.Mix(st.Seed, uint64(i))
		v, e, ok := x.roundTrip(k, seed)
		n++
		c.Probe("roundtrip:" + k.class)
		c.Probe("kind:" + k.name)
		if !ok || v == nil {
			continue
		}
		if tx, isTx := v.(interfaces.Transaction); isTx && len(e) > 2 {
			// a Byzantine peer labels the payload with a version the payload
			// package does not define; whatever still decodes must re-encode stably
			off := 1
			if tx.Version() >= 9 {
				off = 2
			}
			for _, pv := range []byte{e[off] + 1, 0x7f, 0xff} {
				m := append([]byte(nil), e...)
				m[off] = pv
				c.Fault("undefined-payload-version")
				x.feed(k, m, true)
			}
		}
		if k.ela {
			ela = append(ela, sent{k, seed, v, e})
		}
		if k.dpos {
			dp = append(dp, sent{k, seed, v, e})
		}
	}
	if !x.sampled {
		x.sampled = true
		c.SetSample(map[string]interface{}{"op": "sweep", "kinds": n, "link": st.Link})
	}
	// transport: one connection per network carries all of them, fragmented
	// and delayed but otherwise intact
	for _, nw := range []struct {
		net  string
		list []sent
	}{{"ela", ela}, {"dpos", dp}} {
		if len(nw.list) == 0 {
			continue
		}
		var frames []Frame
		for _, s := range nw.list {
			frames = append(frames, Frame{Kind: s.k.name, Seed: s.seed})
		}
		x.runSession(&Step{Op: "session", Net: nw.net, Frames: frames, Link: st.Link, TimeoutS: st.TimeoutS}, true)
	}
	c.Logf("sweep part=%d/%d kinds=%d", st.Part, parts, n)
}
