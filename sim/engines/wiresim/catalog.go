package wiresim

import (
	"bytes"
	"fmt"
	"io"
	"reflect"
	"sort"
	"time"

	"github.com/elastos/Elastos.ELA/auxpow"
	"github.com/elastos/Elastos.ELA/common"
	pg "github.com/elastos/Elastos.ELA/core/contract/program"
	"github.com/elastos/Elastos.ELA/core/types"
	common2 "github.com/elastos/Elastos.ELA/core/types/common"
	"github.com/elastos/Elastos.ELA/core/types/functions"
	"github.com/elastos/Elastos.ELA/core/types/interfaces"
	"github.com/elastos/Elastos.ELA/core/types/outputpayload"
	"github.com/elastos/Elastos.ELA/core/types/payload"
	dmsg "github.com/elastos/Elastos.ELA/dpos/p2p/msg"
	"github.com/elastos/Elastos.ELA/p2p"
	"github.com/elastos/Elastos.ELA/p2p/msg"
)

// kind is one sort of wire value: how the simulated sender builds it with the
// node's own types, how the node encodes it, and which real decoder reads it.
type kind struct {
	name  string
	class string // tx | p2p | dpos | block | misc | output
	// framing: which network's message table carries it ("" = not framed),
	// under which command, and how it is wrapped into a p2p.Message.
	ela, dpos bool
	cmd       string
	wrap      func(v interface{}, net string) p2p.Message
	unwrap    func(m p2p.Message) interface{}

	build func(g *gen) interface{}
	enc   func(v interface{}, w io.Writer) error
	dec   func(r io.Reader) (interface{}, error)
	// decBuf is set when the node's entry point wants a concrete reader type.
	decBuf func(b []byte) (interface{}, error)
	hash   func(v interface{}) ([]byte, bool)
	// dposPayloadVersion >= 0: global dmsg payload version this kind is built under.
	dposPV int
	isTx   bool
}

func (k *kind) encode(v interface{}) ([]byte, error) {
	buf := new(bytes.Buffer)
	err := k.enc(v, buf)
	return buf.Bytes(), err
}

func (k *kind) decode(b []byte) (interface{}, error) {
	if k.decBuf != nil {
		return k.decBuf(b)
	}
	return k.dec(bytes.NewReader(b))
}

func timeUnix(s int64) time.Time { return time.Unix(s, 0) }

// ---------------------------------------------------------------------------
// transactions

type txSpec struct {
	t  common2.TxType
	pv []byte
}

// Every transaction type the node can instantiate, with every payload version
// its payload package defines.
var txSpecs = []txSpec{
	{common2.CoinBase, []byte{0, payload.CoinBaseVersion}},
	{common2.RegisterAsset, []byte{0}},
	{common2.TransferAsset, []byte{0}},
	{common2.Record, []byte{payload.RecordVersion}},
	{common2.SideChainPow, []byte{payload.SideChainPowVersion}},
	{common2.WithdrawFromSideChain, []byte{payload.WithdrawFromSideChainVersion, payload.WithdrawFromSideChainVersionV1, payload.WithdrawFromSideChainVersionV2}},
	{common2.TransferCrossChainAsset, []byte{payload.TransferCrossChainVersion, payload.TransferCrossChainVersionV1}},
	{common2.RegisterProducer, []byte{payload.ProducerInfoVersion, payload.ProducerInfoDposV2Version, payload.ProducerInfoSchnorrVersion, payload.ProducerInfoMultiVersion}},
	{common2.CancelProducer, []byte{payload.ProcessProducerVersion, payload.ProcessProducerSchnorrVersion, payload.ProcessMultiCodeVersion}},
	{common2.UpdateProducer, []byte{payload.ProducerInfoVersion, payload.ProducerInfoDposV2Version, payload.ProducerInfoSchnorrVersion, payload.ProducerInfoMultiVersion}},
	{common2.ReturnDepositCoin, []byte{payload.ReturnDepositCoinVersion}},
	{common2.ActivateProducer, []byte{payload.ActivateProducerVersion}},
	{common2.IllegalProposalEvidence, []byte{payload.IllegalProposalVersion}},
	{common2.IllegalVoteEvidence, []byte{payload.IllegalVoteVersion}},
	{common2.IllegalBlockEvidence, []byte{payload.IllegalBlockVersion}},
	{common2.IllegalSidechainEvidence, []byte{payload.SidechainIllegalDataVersion}},
	{common2.InactiveArbitrators, []byte{payload.InactiveArbitratorsVersion}},
	{common2.UpdateVersion, []byte{payload.UpdateVersionVersion}},
	{common2.NextTurnDPOSInfo, []byte{payload.NextTurnDPOSInfoVersion, payload.NextTurnDPOSInfoVersion2}},
	{common2.ProposalResult, []byte{payload.CustomIDResultVersion}},
	{common2.RegisterCR, []byte{payload.CRInfoVersion, payload.CRInfoDIDVersion, payload.CRInfoSchnorrVersion, payload.CRInfoMultiSignVersion}},
	{common2.UnregisterCR, []byte{payload.UnregisterCRVersion, payload.UnregisterCRSchnorrVersion, payload.UnregisterCRMultiVersion}},
	{common2.UpdateCR, []byte{payload.CRInfoVersion, payload.CRInfoDIDVersion, payload.CRInfoSchnorrVersion, payload.CRInfoMultiSignVersion}},
	{common2.ReturnCRDepositCoin, []byte{payload.ReturnDepositCoinVersion}},
	{common2.CRCProposal, []byte{payload.CRCProposalVersion, payload.CRCProposalVersion01}},
	{common2.CRCProposalReview, []byte{payload.CRCProposalReviewVersion, payload.CRCProposalReviewVersion01}},
	{common2.CRCProposalTracking, []byte{payload.CRCProposalTrackingVersion, payload.CRCProposalTrackingVersion01}},
	{common2.CRCAppropriation, []byte{payload.CRCAppropriationVersion}},
	{common2.CRCProposalWithdraw, []byte{0, payload.CRCProposalWithdrawVersion01}},
	{common2.CRCProposalRealWithdraw, []byte{payload.CRCProposalRealWithdrawVersion}},
	{common2.CRAssetsRectify, []byte{payload.CRAssetsRectifyVersion}},
	{common2.CRCouncilMemberClaimNode, []byte{payload.CurrentCRClaimDPoSNodeVersion, payload.NextCRClaimDPoSNodeVersion}},
	{common2.RevertToPOW, []byte{payload.RevertToPOWVersion}},
	{common2.RevertToDPOS, []byte{payload.RevertToDPOSVersion}},
	{common2.ReturnSideChainDepositCoin, []byte{payload.ReturnSideChainDepositCoinVersion, payload.ReturnSideChainDepositCoinVersionV1}},
	{common2.DposV2ClaimReward, []byte{payload.DposV2ClaimRewardVersionV0, payload.DposV2ClaimRewardVersionV1}},
	{common2.DposV2ClaimRewardRealWithdraw, []byte{payload.DposV2ClaimRewardRealWithdrawVersion}},
	{common2.ExchangeVotes, []byte{0}},
	{common2.Voting, []byte{payload.VoteVersion, payload.RenewalVoteVersion}},
	{common2.ReturnVotes, []byte{payload.ReturnVotesVersionV0, payload.ReturnVotesSchnorrVersion}},
	{common2.VotesRealWithdraw, []byte{payload.VotesRealWithdrawPayloadVersion}},
	{common2.RecordSponsor, []byte{payload.RecordSponsorVersion}},
	{common2.CreateNFT, []byte{payload.CreateNFTVersion, payload.CreateNFTVersion2}},
	{common2.NFTDestroyFromSideChain, []byte{payload.NFTDestroyFromSideChainVersion}},
}

var proposalTypes = []payload.CRCProposalType{
	payload.Normal, payload.ELIP, payload.FLOWELIP, payload.INFOELIP,
	payload.MainChainUpgradeCode, payload.DIDUpgradeCode, payload.ETHUpgradeCode,
	payload.SecretaryGeneral, payload.ChangeProposalOwner, payload.CloseProposal, payload.RegisterSideChain,
	payload.ReserveCustomID, payload.ReceiveCustomID, payload.ChangeCustomIDFee,
}

var attributeUsages = []common2.AttributeUsage{common2.Nonce, common2.Script, common2.Memo, common2.Description, common2.DescriptionUrl, common2.Confirmations}

func (g *gen) outputPayload(t common2.OutputType) common2.OutputPayload {
	switch t {
	case common2.OTNone:
		return &outputpayload.DefaultOutput{}
	case common2.OTVote, common2.OTDposV2Vote:
		p := &outputpayload.VoteOutput{}
		g.fillPtr(p)
		p.Version = byte(g.r.Intn(3))
		if p.Version < outputpayload.VoteProducerAndCRVersion {
			// version 0 carries candidates only, no vote amounts
			for i := range p.Contents {
				for j := range p.Contents[i].CandidateVotes {
					p.Contents[i].CandidateVotes[j].Votes = 0
				}
			}
		}
		return p
	case common2.OTMapping:
		p := &outputpayload.Mapping{}
		g.fillPtr(p)
		return p
	case common2.OTCrossChain:
		p := &outputpayload.CrossChainOutput{}
		g.fillPtr(p)
		return p
	case common2.OTWithdrawFromSideChain:
		p := &outputpayload.Withdraw{}
		g.fillPtr(p)
		return p
	case common2.OTReturnSideChainDepositCoin:
		p := &outputpayload.ReturnSideChainDeposit{}
		g.fillPtr(p)
		return p
	default:
		p := &outputpayload.ExchangeVotesOutput{}
		g.fillPtr(p)
		return p
	}
}

func (g *gen) output(ver common2.TransactionVersion, forceType int) *common2.Output {
	o := &common2.Output{}
	g.fill(reflect.ValueOf(&o.AssetID).Elem(), "AssetID", 0)
	o.Value = common.Fixed64(g.u64())
	o.OutputLock = uint32(g.u64())
	g.fill(reflect.ValueOf(&o.ProgramHash).Elem(), "ProgramHash", 0)
	if ver >= common2.TxVersion09 {
		t := common2.OutputType(g.r.Intn(int(common2.OTStake) + 1))
		if forceType >= 0 {
			t = common2.OutputType(forceType)
		}
		o.Type = t
		o.Payload = g.outputPayload(t)
	}
	return o
}

func (g *gen) programs() []*pg.Program {
	n := g.r.Pick(2, 5, 2, 1)
	out := make([]*pg.Program, 0, n)
	for i := 0; i < n; i++ {
		out = append(out, &pg.Program{Code: g.bytesFor("code"), Parameter: g.bytesFor("parameter")})
	}
	return out
}

func (g *gen) fixPayload(p interfaces.Payload, pv byte, variant int) {
	switch x := p.(type) {
	case *payload.CRCProposal:
		x.ProposalType = proposalTypes[variant%len(proposalTypes)]
		switch x.ProposalType {
		case payload.MainChainUpgradeCode, payload.DIDUpgradeCode, payload.ETHUpgradeCode:
			if x.UpgradeCodeInfo == nil || x.UpgradeCodeInfo.NodeBinHash == nil {
				x.UpgradeCodeInfo = &payload.UpgradeCodeInfo{NodeBinHash: &common.Uint256{}}
			}
		default:
			x.UpgradeCodeInfo = nil
		}
	case *payload.TransferCrossChainAsset:
		n := len(x.CrossChainAddresses)
		x.OutputIndexes = make([]uint64, n)
		x.CrossChainAmounts = make([]common.Fixed64, n)
		for i := 0; i < n; i++ {
			x.OutputIndexes[i] = g.u64()
			x.CrossChainAmounts[i] = common.Fixed64(g.u64())
		}
	}
}

func txKindName(t common2.TxType, pv byte, variant int) string {
	if t == common2.CRCProposal {
		return fmt.Sprintf("tx/%s/v%d/%04x", t.Name(), pv, uint16(proposalTypes[variant]))
	}
	return fmt.Sprintf("tx/%s/v%d", t.Name(), pv)
}

func buildTx(g *gen, t common2.TxType, pv byte, variant int) interfaces.Transaction {
	ver := common2.TxVersion09
	if t < common2.TxType(common2.TxVersion09) && g.r.Bool(0.5) {
		// The type byte doubles as the version discriminator: only types
		// below 0x09 can be carried by a default-version transaction.
		ver = common2.TxVersionDefault
	}
	p, err := interfaces.GetPayload(t, pv)
	if err != nil {
		panic(fmt.Sprintf("wiresim: no payload for tx type %#x: %v", byte(t), err))
	}
	g.fillPtr(p)
	g.fixPayload(p, pv, variant)
	var attrs []*common2.Attribute
	for i, n := 0, g.r.Pick(2, 4, 2, 1); i < n; i++ {
		attrs = append(attrs, &common2.Attribute{Usage: attributeUsages[g.r.Intn(len(attributeUsages))], Data: g.bytesFor("data")})
	}
	var ins []*common2.Input
	for i, n := 0, g.r.Pick(2, 4, 3, 1); i < n; i++ {
		in := &common2.Input{}
		g.fillPtr(in)
		ins = append(ins, in)
	}
	var outs []*common2.Output
	for i, n := 0, g.r.Pick(1, 4, 3, 2); i < n; i++ {
		outs = append(outs, g.output(ver, -1))
	}
	return functions.CreateTransaction(ver, t, pv, p, attrs, ins, outs, uint32(g.u64()), g.programs())
}

func encTx(v interface{}, w io.Writer) error { return v.(interfaces.Transaction).Serialize(w) }

func decTx(r io.Reader) (interface{}, error) {
	tx, err := functions.GetTransactionByBytes(r)
	if err != nil {
		return nil, err
	}
	if err := tx.Deserialize(r); err != nil {
		return nil, err
	}
	return tx, nil
}

func hashTx(v interface{}) ([]byte, bool) {
	h := v.(interfaces.Transaction).Hash()
	return h[:], true
}

// ---------------------------------------------------------------------------
// headers, blocks

func (g *gen) auxPow() auxpow.AuxPow {
	var ap auxpow.AuxPow
	g.fillPtr(&ap)
	// the two merkle indexes travel as uint32
	ap.AuxMerkleIndex = int(uint32(ap.AuxMerkleIndex))
	ap.ParMerkleIndex = int(uint32(ap.ParMerkleIndex))
	return ap
}

func (g *gen) header() common2.Header {
	var h common2.Header
	g.fillPtr(&h)
	h.AuxPow = g.auxPow()
	return h
}

func (g *gen) anyTx() interfaces.Transaction {
	s := txSpecs[g.r.Intn(len(txSpecs))]
	pv := s.pv[g.r.Intn(len(s.pv))]
	return buildTx(g, s.t, pv, g.r.Intn(len(proposalTypes)))
}

func (g *gen) block() *types.Block {
	b := &types.Block{Header: g.header()}
	for i, n := 0, g.r.Pick(1, 3, 3, 2, 1); i < n; i++ {
		b.Transactions = append(b.Transactions, g.anyTx())
	}
	return b
}

func (g *gen) confirm() *payload.Confirm {
	c := &payload.Confirm{}
	g.fillPtr(c)
	return c
}

func (g *gen) dposBlock() *types.DposBlock {
	d := &types.DposBlock{Block: g.block()}
	if g.r.Bool(0.6) {
		d.HaveConfirm = true
		d.Confirm = g.confirm()
	}
	return d
}

func hashOf(h common.Uint256) ([]byte, bool) { return h[:], true }

// serializable adapts the common case.
func encSer(v interface{}, w io.Writer) error { return v.(common.Serializable).Serialize(w) }

func decSer(newFn func() common.Serializable) func(r io.Reader) (interface{}, error) {
	return func(r io.Reader) (interface{}, error) {
		v := newFn()
		if err := v.Deserialize(r); err != nil {
			return nil, err
		}
		return v, nil
	}
}

// versioned payload-like values (Serialize(w, version))
type versioned interface {
	Serialize(w io.Writer, version byte) error
	Deserialize(r io.Reader, version byte) error
}

// ---------------------------------------------------------------------------

var (
	catalog   []*kind
	kindIndex = map[string]int{}
)

func addKind(k *kind) {
	if _, dup := kindIndex[k.name]; dup {
		panic("wiresim: duplicate kind " + k.name)
	}
	if k.dposPV == 0 && k.class != "dpos" {
		k.dposPV = -1
	}
	kindIndex[k.name] = len(catalog)
	catalog = append(catalog, k)
}

func kindByName(name string) *kind {
	if i, ok := kindIndex[name]; ok {
		return catalog[i]
	}
	return nil
}

func msgKind(class, cmd string, ela, dpos bool, newFn func() p2p.Message, fix func(g *gen, m p2p.Message)) *kind {
	name := class + "/" + cmd
	return &kind{
		name: name, class: class, ela: ela, dpos: dpos, cmd: cmd, dposPV: -1,
		wrap:   func(v interface{}, net string) p2p.Message { return v.(p2p.Message) },
		unwrap: func(m p2p.Message) interface{} { return m },
		build: func(g *gen) interface{} {
			for try := 0; ; try++ {
				m := newFn()
				g.fillPtr(m)
				if fix != nil {
					fix(g, m)
				}
				buf := new(bytes.Buffer)
				if err := m.Serialize(buf); err == nil && uint32(buf.Len()) <= m.MaxLength() {
					return m
				}
				if try > 64 {
					panic("wiresim: cannot build a well-formed " + name)
				}
			}
		},
		enc: func(v interface{}, w io.Writer) error { return v.(p2p.Message).Serialize(w) },
		dec: func(r io.Reader) (interface{}, error) {
			m := newFn()
			if err := m.Deserialize(r); err != nil {
				return nil, err
			}
			return m, nil
		},
	}
}

func init() {
	// transactions: every type x payload version (x proposal type)
	for _, s := range txSpecs {
		for _, pv := range s.pv {
			variants := 1
			if s.t == common2.CRCProposal {
				variants = len(proposalTypes)
			}
			for va := 0; va < variants; va++ {
				t, pv, va := s.t, pv, va
				addKind(&kind{
					name: txKindName(t, pv, va), class: "tx", ela: true, dpos: true, cmd: p2p.CmdTx, isTx: true, dposPV: -1,
					wrap:   func(v interface{}, net string) p2p.Message { return msg.NewTx(v.(interfaces.Transaction)) },
					unwrap: func(m p2p.Message) interface{} { return m.(*msg.Tx).Serializable },
					build:  func(g *gen) interface{} { return buildTx(g, t, pv, va) },
					enc:    encTx, dec: decTx, hash: hashTx,
				})
			}
		}
	}

	// blocks and headers
	addKind(&kind{name: "block/dposblock", class: "block", ela: true, cmd: p2p.CmdBlock,
		wrap:   func(v interface{}, net string) p2p.Message { return msg.NewBlock(v.(*types.DposBlock)) },
		unwrap: func(m p2p.Message) interface{} { return m.(*msg.Block).Serializable },
		build:  func(g *gen) interface{} { return g.dposBlock() },
		enc:    encSer, dec: decSer(func() common.Serializable { return &types.DposBlock{} }),
		hash: func(v interface{}) ([]byte, bool) { return hashOf(v.(*types.DposBlock).Hash()) }})
	addKind(&kind{name: "block/block", class: "block", dpos: true, cmd: p2p.CmdBlock,
		wrap:   func(v interface{}, net string) p2p.Message { return msg.NewBlock(v.(*types.Block)) },
		unwrap: func(m p2p.Message) interface{} { return m.(*msg.Block).Serializable },
		build:  func(g *gen) interface{} { return g.block() },
		enc:    encSer, dec: decSer(func() common.Serializable { return &types.Block{} }),
		hash: func(v interface{}) ([]byte, bool) { return hashOf(v.(*types.Block).Hash()) }})
	addKind(&kind{name: "block/txloc", class: "block",
		build: func(g *gen) interface{} { return g.block() },
		enc:   encSer, dec: decSer(func() common.Serializable { return &types.Block{} }),
		decBuf: func(b []byte) (interface{}, error) {
			blk := &types.Block{}
			if _, err := blk.DeserializeTxLoc(bytes.NewBuffer(b)); err != nil {
				return nil, err
			}
			return blk, nil
		},
		hash: func(v interface{}) ([]byte, bool) { return hashOf(v.(*types.Block).Hash()) }})
	addKind(&kind{name: "block/header", class: "block",
		build: func(g *gen) interface{} { h := g.header(); return &h },
		enc:   encSer, dec: decSer(func() common.Serializable { return &common2.Header{} }),
		hash: func(v interface{}) ([]byte, bool) { return hashOf(v.(*common2.Header).Hash()) }})
	addKind(&kind{name: "block/dposheader", class: "block",
		build: func(g *gen) interface{} {
			h := &types.DPOSHeader{Header: g.header()}
			if g.r.Bool(0.6) {
				h.HaveConfirm = true
				h.Confirm = *g.confirm()
			}
			return h
		},
		enc: encSer, dec: decSer(func() common.Serializable { return &types.DPOSHeader{} }),
		hash: func(v interface{}) ([]byte, bool) { return hashOf(v.(*types.DPOSHeader).Hash()) }})
	addKind(&kind{name: "block/auxpow", class: "block",
		build: func(g *gen) interface{} { a := g.auxPow(); return &a },
		enc:   encSer, dec: decSer(func() common.Serializable { return &auxpow.AuxPow{} })})
	addKind(&kind{name: "misc/confirm", class: "misc",
		build: func(g *gen) interface{} { return g.confirm() },
		enc:   encSer, dec: decSer(func() common.Serializable { return &payload.Confirm{} })})
	addKind(&kind{name: "misc/program", class: "misc",
		build: func(g *gen) interface{} { return &pg.Program{Code: g.bytesFor("code"), Parameter: g.bytesFor("parameter")} },
		enc:   encSer, dec: decSer(func() common.Serializable { return &pg.Program{} })})
	addKind(&kind{name: "misc/DetailedVoteInfo", class: "misc",
		build: func(g *gen) interface{} { v := &payload.DetailedVoteInfo{}; g.fillPtr(v); return v },
		enc:   encSer, dec: decSer(func() common.Serializable { return &payload.DetailedVoteInfo{} })})
	for _, pv := range []byte{payload.CRCProposalVersion, payload.CRCProposalVersion01} {
		for va := range proposalTypes {
			pv, va := pv, va
			addKind(&kind{name: fmt.Sprintf("misc/CRCProposalInfo/v%d/%04x", pv, uint16(proposalTypes[va])), class: "misc",
				build: func(g *gen) interface{} {
					v := &payload.CRCProposalInfo{}
					g.fillPtr(v)
					v.ProposalType = proposalTypes[va]
					return v
				},
				enc: func(v interface{}, w io.Writer) error { return v.(versioned).Serialize(w, pv) },
				dec: func(r io.Reader) (interface{}, error) {
					v := &payload.CRCProposalInfo{}
					if err := v.Deserialize(r, pv); err != nil {
						return nil, err
					}
					return v, nil
				}})
		}
	}
	// outputs of every payload type (carried inside version-9 transactions)
	for t := common2.OTNone; t <= common2.OTStake; t++ {
		t := t
		addKind(&kind{name: fmt.Sprintf("output/type%d", t), class: "output",
			build: func(g *gen) interface{} { return g.output(common2.TxVersion09, int(t)) },
			enc:   func(v interface{}, w io.Writer) error { return v.(*common2.Output).Serialize(w, common2.TxVersion09) },
			dec: func(r io.Reader) (interface{}, error) {
				o := &common2.Output{}
				if err := o.Deserialize(r, common2.TxVersion09); err != nil {
					return nil, err
				}
				return o, nil
			}})
	}

	// main-network P2P commands
	p := func(cmd string, ela bool, newFn func() p2p.Message, fix func(g *gen, m p2p.Message)) {
		addKind(msgKind("p2p", cmd, ela, false, newFn, fix))
	}
	p(p2p.CmdVersion, true, func() p2p.Message { return &msg.Version{} }, func(g *gen, m p2p.Message) {
		v := m.(*msg.Version)
		v.NodeVersion = g.str(40)
	})
	p(p2p.CmdVerAck, true, func() p2p.Message { return &msg.VerAck{} }, nil)
	p(p2p.CmdGetAddr, true, func() p2p.Message { return &msg.GetAddr{} }, nil)
	p(p2p.CmdAddr, true, func() p2p.Message { return &msg.Addr{} }, func(g *gen, m p2p.Message) {
		a := m.(*msg.Addr)
		for _, na := range a.AddrList {
			na.Timestamp = time.Unix(int64(g.u64()>>1), 0)
		}
	})
	p(p2p.CmdPing, true, func() p2p.Message { return &msg.Ping{} }, nil)
	p(p2p.CmdPong, true, func() p2p.Message { return &msg.Pong{} }, nil)
	p(p2p.CmdMemPool, true, func() p2p.Message { return &msg.MemPool{} }, nil)
	p(p2p.CmdInv, true, func() p2p.Message { return &msg.Inv{} }, nil)
	p(p2p.CmdNotFound, true, func() p2p.Message { return &msg.NotFound{} }, nil)
	p(p2p.CmdGetData, true, func() p2p.Message { return &msg.GetData{} }, nil)
	p(p2p.CmdGetBlocks, true, func() p2p.Message { return &msg.GetBlocks{} }, nil)
	p(p2p.CmdFilterAdd, true, func() p2p.Message { return &msg.FilterAdd{} }, nil)
	p(p2p.CmdFilterClear, true, func() p2p.Message { return &msg.FilterClear{} }, nil)
	p(p2p.CmdFilterLoad, true, func() p2p.Message { return &msg.FilterLoad{} }, func(g *gen, m p2p.Message) {
		f := m.(*msg.FilterLoad)
		f.HashFuncs %= msg.MaxFilterLoadHashFuncs + 1
	})
	p(p2p.CmdTxFilter, true, func() p2p.Message { return &msg.TxFilterLoad{} }, nil)
	p(p2p.CmdReject, true, func() p2p.Message { return &msg.Reject{} }, nil)
	p(p2p.CmdDAddr, true, func() p2p.Message { return &msg.DAddr{} }, func(g *gen, m p2p.Message) {
		a := m.(*msg.DAddr)
		a.Timestamp = time.Unix(int64(g.u64()>>1), 0)
	})
	// merkleblock is only ever sent (to SPV clients); no receiving table has it
	p(p2p.CmdMerkleBlock, false, func() p2p.Message { return msg.NewMerkleBlock(&common2.Header{}) }, func(g *gen, m p2p.Message) {
		mb := m.(*msg.MerkleBlock)
		h := g.header()
		mb.Header = &h
	})

	// DPoS network commands
	d := func(cmd string, recv bool, pv int, newFn func() p2p.Message, fix func(g *gen, m p2p.Message)) {
		k := msgKind("dpos", cmd, false, recv, newFn, fix)
		k.dposPV = pv
		if pv >= 0 {
			k.name = fmt.Sprintf("%s/pv%d", k.name, pv)
		}
		addKind(k)
	}
	fixDVersion := func(g *gen, m p2p.Message) {
		v := m.(*dmsg.Version)
		v.NodeVersion = g.str(40)
		v.Timestamp = time.Unix(int64(g.u64()>>34), int64(g.r.Intn(1000))*int64(time.Millisecond))
	}
	d(dmsg.CmdVersion, true, 0, func() p2p.Message { return &dmsg.Version{} }, func(g *gen, m p2p.Message) {
		fixDVersion(g, m)
		// payload version 0 carries neither Version nor NodeVersion
		m.(*dmsg.Version).Version = 0
		m.(*dmsg.Version).NodeVersion = ""
	})
	d(dmsg.CmdVersion, true, 1, func() p2p.Message { return &dmsg.Version{} }, fixDVersion)
	d(dmsg.CmdVerAck, true, -1, func() p2p.Message { return &dmsg.VerAck{} }, nil)
	d(dmsg.CmdAddr, true, -1, func() p2p.Message { return &dmsg.Addr{} }, func(g *gen, m p2p.Message) {
		m.(*dmsg.Addr).Host = g.str(200)
	})
	d(dmsg.CmdPing, true, -1, func() p2p.Message { return &dmsg.Ping{} }, nil)
	d(dmsg.CmdPong, true, -1, func() p2p.Message { return &dmsg.Pong{} }, nil)
	d(dmsg.CmdAcceptVote, true, -1, func() p2p.Message { return &dmsg.Vote{Command: dmsg.CmdAcceptVote} }, func(g *gen, m p2p.Message) {
		m.(*dmsg.Vote).Command = dmsg.CmdAcceptVote
	})
	d(dmsg.CmdRejectVote, true, -1, func() p2p.Message { return &dmsg.Vote{Command: dmsg.CmdRejectVote} }, func(g *gen, m p2p.Message) {
		m.(*dmsg.Vote).Command = dmsg.CmdRejectVote
	})
	d(dmsg.CmdReceivedProposal, true, -1, func() p2p.Message { return &dmsg.Proposal{} }, nil)
	d(dmsg.CmdInv, true, -1, func() p2p.Message { return &dmsg.Inventory{} }, nil)
	d(dmsg.CmdGetBlock, true, -1, func() p2p.Message { return &dmsg.GetBlock{} }, nil)
	d(dmsg.CmdGetBlocks, true, -1, func() p2p.Message { return &dmsg.GetBlocks{} }, nil)
	d(dmsg.CmdResponseBlocks, true, -1, func() p2p.Message { return &dmsg.ResponseBlocks{} }, func(g *gen, m p2p.Message) {
		rb := m.(*dmsg.ResponseBlocks)
		rb.Command = ""
		rb.BlockConfirms = nil
		for i, n := 0, g.r.Pick(1, 3, 2, 1); i < n; i++ {
			rb.BlockConfirms = append(rb.BlockConfirms, g.dposBlock())
		}
	})
	d(dmsg.CmdRequestConsensus, true, -1, func() p2p.Message { return &dmsg.RequestConsensus{} }, nil)
	d(dmsg.CmdResponseConsensus, true, -1, func() p2p.Message { return &dmsg.ResponseConsensus{} }, func(g *gen, m p2p.Message) {
		rc := m.(*dmsg.ResponseConsensus)
		rc.Consensus.ViewStartTime = time.Unix(0, int64(g.u64()>>2))
	})
	d(dmsg.CmdRequestProposal, true, -1, func() p2p.Message { return &dmsg.RequestProposal{} }, nil)
	d(dmsg.CmdIllegalProposals, true, -1, func() p2p.Message { return &dmsg.IllegalProposals{} }, nil)
	d(dmsg.CmdIllegalVotes, true, -1, func() p2p.Message { return &dmsg.IllegalVotes{} }, nil)
	d(dmsg.CmdSidechainIllegalData, true, -1, func() p2p.Message { return &dmsg.SidechainIllegalData{} }, nil)
	d(dmsg.CmdResponseInactiveArbitrators, true, -1, func() p2p.Message { return &dmsg.ResponseInactiveArbitrators{} }, nil)
	d(dmsg.CmdResponseRevertToDPOS, true, -1, func() p2p.Message { return &dmsg.ResponseRevertToDPOS{} }, nil)
	d(dmsg.CmdResetConsensusView, true, -1, func() p2p.Message { return &dmsg.ResetView{} }, nil)
	// defined DPoS message types no receiving table carries
	d(p2p.CmdReject, false, -1, func() p2p.Message { return &dmsg.Reject{} }, nil)
	d(p2p.CmdDAddr, false, -1, func() p2p.Message { return &dmsg.Daddr{} }, func(g *gen, m p2p.Message) {
		m.(*dmsg.Daddr).Addr = g.str(200)
	})
}

// registered command sets, from the protocol's command lists
// (p2p/message.go, dpos/p2p/msg/commands.go): what a receiving node of each
// network has a message for.
func registeredCmds(net string) map[string]bool {
	out := map[string]bool{}
	for _, k := range catalog {
		if k.cmd == "" {
			continue
		}
		if (net == "ela" && k.ela) || (net == "dpos" && k.dpos) {
			out[k.cmd] = true
		}
	}
	return out
}

func kindNames(filter func(k *kind) bool) []string {
	var out []string
	for _, k := range catalog {
		if filter == nil || filter(k) {
			out = append(out, k.name)
		}
	}
	sort.Strings(out)
	return out
}
