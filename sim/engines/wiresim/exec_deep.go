package wiresim

import (
	"verif/sim/core"
)

// traced builds the value for (kind, seed) and encodes it through the tracing
// writer, giving the bytes and the field layout.
func (x *exec) traced(k *kind, seed uint64) (interface{}, []byte, []rewriteTarget, bool) {
	x.setDposPV(k)
	v := k.build(newGen(seed))
	tw := &traceWriter{}
	err := func() (err error) {
		defer func() {
			if r := recover(); r != nil {
				err = errPanic
			}
		}()
		return k.enc(v, tw)
	}()
	if err != nil {
		return nil, nil, nil, false
	}
	return v, tw.buf, rewriteTargets(tw.fields, tw.buf), true
}

var errPanic = errorString("encoder panicked")

type errorString string

func (e errorString) Error() string { return string(e) }

// feed hands one delivered byte string to a decoder under the C02 oracles
// and, when it decodes, to the C04 idempotence oracle.
func (x *exec) feed(dk *kind, b []byte, corrupted bool) (decodeResult, bool) {
	r, in, face := x.guard(dk, b)
	if !r.panicked && r.err == nil && r.val != nil {
		if corrupted {
			x.c.Probe("corrupted-input-decoded-successfully")
			x.idempotence(dk, in, r.val)
		}
	}
	return r, face
}

// probeAll: every kind once, a handful of faults each. Gives every run
// contact with every decoder; the deep step does the exhaustive part.
func (x *exec) probeAll(st *Step) {
	c := x.c
	parts := st.Parts
	if parts < 1 {
		parts = 1
	}
	n := 0
	for i, k := range catalog {
		if i%parts != st.Part%parts {
			continue
		}
		seed := core.Mix(st.Seed, uint64(i))
		_, e0, targets, ok := x.traced(k, seed)
		if !ok {
			continue
		}
		n++
		c.Probe("decoder-probed:" + k.class)
		c.Probe("kind:" + k.name)
		h := core.NewRng(seed ^ 0xabcdef)
		// intact
		x.feed(k, e0, false)
		if len(e0) == 0 {
			continue
		}
		// truncation at two offsets
		for j := 0; j < 2; j++ {
			cut := h.Intn(len(e0))
			c.Fault("truncate")
			x.feed(k, e0[:cut], true)
		}
		// one length/count field to two boundary values
		if len(targets) > 0 {
			t := targets[h.Intn(len(targets))]
			for j := 0; j < 2; j++ {
				v := boundaryValues[h.Intn(len(boundaryValues))]
				if m, ok := t.apply(e0, v); ok {
					c.Fault("length-field-rewrite")
					x.feed(k, m, true)
				}
			}
		}
		// planned flips
		for _, f := range st.Flips {
			c.Fault("corrupt-bytes")
			x.feed(k, f.apply(e0), true)
		}
	}
	if !x.sampled {
		x.sampled = true
		c.SetSample(map[string]interface{}{"op": "probe", "kinds": n, "flips": st.Flips})
	}
	c.Logf("probe part=%d/%d kinds=%d", st.Part, parts, n)
}

// deep: one kind, exhaustively within the run.
func (x *exec) deep(st *Step) {
	c := x.c
	k := kindByName(st.Kind)
	if k == nil {
		return
	}
	_, e0, targets, ok := x.traced(k, st.Seed)
	if !ok {
		c.Note("deep: %s did not encode", st.Kind)
		return
	}
	c.Probe("deep:" + k.class)
	c.Probe("kind:" + k.name)
	if !x.sampled {
		x.sampled = true
		c.SetSample(map[string]interface{}{"op": "deep", "kind": st.Kind, "seed": st.Seed, "message_bytes": len(e0), "length_fields": len(targets), "flips": st.Flips, "cross": st.Cross, "net": st.Net})
	}
	// A. intact
	x.feed(k, e0, false)

	// B. truncation at every offset (peer or process dies mid-message)
	stride := 1
	if len(e0) > 4096 {
		stride = st.Stride
		if stride < 2 {
			stride = 5
		}
		c.Probe("truncation-offsets-sampled-large-message")
	} else {
		c.Probe("truncation-offsets-fully-enumerated")
	}
	nTrunc := 0
	for cut := 0; cut < len(e0); cut += stride {
		c.Fault("truncate")
		x.feed(k, e0[:cut], true)
		nTrunc++
	}

	// C. every length/count candidate rewritten to every boundary value
	tstride := 1
	if len(targets) > 400 {
		tstride = len(targets)/400 + 1
		c.Probe("length-fields-sampled")
	}
	nRew := 0
	var mutants [][]byte // a sample of mutants for cross feeding / framed delivery
	for ti := 0; ti < len(targets); ti += tstride {
		t := targets[ti]
		for _, v := range boundaryValues {
			m, ok := t.apply(e0, v)
			if !ok {
				continue
			}
			c.Fault("length-field-rewrite")
			r, face := x.feed(k, m, true)
			nRew++
			if face && !r.panicked && len(mutants) < 24 && (nRew%7 == 0) {
				mutants = append(mutants, m)
			}
		}
	}

	// D. planned corruption: each flip alone, then cumulatively
	cum := e0
	for _, f := range st.Flips {
		c.Fault("corrupt-bytes")
		m := f.apply(e0)
		r, face := x.feed(k, m, true)
		if face && !r.panicked && len(mutants) < 48 {
			mutants = append(mutants, m)
		}
		cum = f.apply(cum)
	}
	if len(st.Flips) > 1 {
		c.Fault("corrupt-bytes")
		r, face := x.feed(k, cum, true)
		if face && !r.panicked {
			mutants = append(mutants, cum)
		}
	}

	// E. the same bytes delivered to another decoder (a peer may put any
	// payload under any command; disk bytes may be read as another type)
	if st.Cross != 0 {
		idx := kindIndex[k.name]
		dk := catalog[((idx+st.Cross)%len(catalog)+len(catalog))%len(catalog)]
		c.Fault("cross-decoder")
		x.feed(dk, e0, true)
		for i, m := range mutants {
			if i%4 == 0 {
				x.feed(dk, m, true)
			}
		}
		c.Probe("cross-fed:" + dk.class)
	}

	// F. framed delivery by a Byzantine peer (checksum recomputed, so the
	// payload decoder behind ReadMessage is reached), over a fragmenting link.
	// Only mutants the direct decode showed to be harmless are sent.
	nFramed := 0
	if st.Net != "" && k.cmd != "" && x.carried(st.Net, k) {
		for _, m := range mutants {
			if uint64(len(m)) > x.maxLenOf(st.Net, k.cmd) {
				continue
			}
			c.Fault("corrupt-byzantine-checksum-recomputed")
			x.deliverRaw(st.Net, peerFrame(x.magic(st.Net), k.cmd, m), st.Link, st.TimeoutS, "Byzantine payload under "+k.cmd)
			nFramed++
		}
	}
	c.Logf("deep kind=%s len=%d trunc=%d fields=%d rewrites=%d flips=%d framed=%d", st.Kind, len(e0), nTrunc, len(targets), nRew, len(st.Flips), nFramed)
}
