package wiresim

import (
	"os"
	"testing"

	"verif/sim/core"
)

func TestSim(t *testing.T) { core.Main(t, Engine{}) }

// TestWireChild is the body of the crash-confirmation child process (see
// child.go); it does nothing unless started by runChild.
func TestWireChild(t *testing.T) {
	if os.Getenv(childEnv) == "" {
		t.Skip("crash-confirmation child: started by the engine only")
	}
	childMain()
}
