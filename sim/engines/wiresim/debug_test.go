//go:build wiredebug

package wiresim

import (
	"encoding/json"
	"fmt"
	"os"
	"runtime"
	"sort"
	"strconv"
	"testing"
	"time"

	"verif/sim/core"
)

// go1.26.8 test -tags "verif wiredebug" -run TestDebug -v ./engines/wiresim  (WD_PROP, WD_N, WD_SEED)
func TestDebug(t *testing.T) {
	prop := os.Getenv("WD_PROP")
	if prop == "" {
		prop = "C04"
	}
	n, _ := strconv.Atoi(os.Getenv("WD_N"))
	if n == 0 {
		n = 3
	}
	base, _ := strconv.Atoi(os.Getenv("WD_SEED"))
	go func() { // memory watchdog: dump stacks when the heap explodes
		var ms runtime.MemStats
		for {
			time.Sleep(500 * time.Millisecond)
			runtime.ReadMemStats(&ms)
			if ms.HeapAlloc > 3<<30 {
				buf := make([]byte, 1<<20)
				n := runtime.Stack(buf, true)
				os.Stderr.Write(buf[:n])
				os.Exit(3)
			}
		}
	}()
	sigs := map[string]string{}
	count := map[string]int{}
	probes := map[string]int{}
	faults := map[string]int{}
	var total time.Duration
	from, _ := strconv.Atoi(os.Getenv("WD_FROM"))
	for i := from; i < from+n; i++ {
		seed := core.Mix(uint64(base+1), uint64(i))
		e := Engine{}
		plan := e.Generate(core.NewRng(seed), prop, "quick")
		if raw := os.Getenv("WD_STEP"); raw != "" {
			plan.Steps = []json.RawMessage{json.RawMessage(raw)}
		}
		plan.Engine, plan.Property, plan.Tier, plan.Seed = "wiresim", prop, "quick", seed
		t0 := time.Now()
		out := core.Run(t, e, plan, false)
		d := time.Since(t0)
		total += d
		if out.HarnessErr != "" {
			fmt.Println("HARNESS ERROR:", out.HarnessErr)
		}
		for _, v := range out.Violations {
			if _, ok := sigs[v.Signature]; !ok {
				sigs[v.Signature] = v.Message
				if d := os.Getenv("WD_DUMP"); d != "" && v.Plan != nil {
					f, _ := os.OpenFile(d, os.O_APPEND|os.O_CREATE|os.O_WRONLY, 0644)
					fmt.Fprintf(f, "%s\t%s\n", v.Signature, string(v.Plan.Steps[0]))
					f.Close()
				}
			}
			count[v.Signature]++
		}
		for k, v := range out.Probes {
			probes[k] += v
		}
		for k, v := range out.Faults {
			faults[k] += v
		}
		fmt.Printf("run %d seed %d steps %d checks %d wall %v viol %d\n", i, seed, len(plan.Steps), out.Checks, d, len(out.Violations))
	}
	var ks []string
	for k := range sigs {
		ks = append(ks, k)
	}
	sort.Strings(ks)
	for _, k := range ks {
		m := sigs[k]
		if len(m) > 600 {
			m = m[:600]
		}
		fmt.Printf("--- [%d] %s\n    %s\n", count[k], k, m)
	}
	if os.Getenv("WD_PROBES") != "" {
		var ps []string
		for k := range probes {
			ps = append(ps, k)
		}
		sort.Strings(ps)
		for _, k := range ps {
			fmt.Printf("probe %s = %d\n", k, probes[k])
		}
		ps = nil
		for k := range faults {
			ps = append(ps, k)
		}
		sort.Strings(ps)
		for _, k := range ps {
			fmt.Printf("fault %s = %d\n", k, faults[k])
		}
	}
	fmt.Printf("%d distinct signatures, total wall %v\n", len(ks), total)
}
