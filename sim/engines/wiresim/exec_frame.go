package wiresim

import (
	"bytes"
	"encoding/binary"
	"errors"
	"fmt"
	"os"
	"runtime"
	"time"

	"github.com/elastos/Elastos.ELA/common"
	"github.com/elastos/Elastos.ELA/core/types"
	"github.com/elastos/Elastos.ELA/p2p"
	"github.com/elastos/Elastos.ELA/p2p/msg"
)

const hdrLen = p2p.HeaderSize

func (x *exec) magic(net string) uint32 {
	if net == "dpos" {
		return uint32(x.c.Plan.Knob("magic_dpos", 2019000))
	}
	return uint32(x.c.Plan.Knob("magic_ela", 2017001))
}

func (x *exec) factory(net string) p2p.CreateMessage {
	if net == "dpos" {
		return x.dposFactory
	}
	return x.elaFactory
}

// getDposBlock mirrors the callback Peer.writeMessage passes to
// p2p.WriteMessage (p2p/peer/peer.go).
func getDposBlock(m p2p.Message) (*types.DposBlock, bool) {
	msgBlock, ok := m.(*msg.Block)
	if !ok {
		return nil, false
	}
	dposBlock, ok := msgBlock.Serializable.(*types.DposBlock)
	return dposBlock, ok
}

// writeFrame is the honest sender: the node's own WriteMessage writing into a
// connection whose other end records the bytes.
func (x *exec) writeFrame(net string, m p2p.Message) ([]byte, error) {
	conn := &simConn{}
	err := p2p.WriteMessage(conn, x.magic(net), m, p2p.WriteMessageTimeOut, getDposBlock)
	return conn.written, err
}

// peerFrame is what a peer running its own (possibly Byzantine) software
// sends: any payload under any command, with a correct checksum.
func peerFrame(magic uint32, cmd string, payload []byte) []byte {
	hdr, _ := p2p.BuildHeader(magic, cmd, payload).Serialize()
	return append(hdr, payload...)
}

type readStats struct {
	m         p2p.Message
	err       error
	panicked  bool
	panicSite string
	panicText string
	consumed  int
	alloc     uint64
	elapsed   time.Duration
	hung      bool
}

// readOne is the receiving node: exactly the call Peer.readMessage makes.
func (x *exec) readOne(net string, conn *simConn, timeout time.Duration) (rs readStats) {
	start := time.Now()
	c0 := conn.consumed
	defer func() {
		if r := recover(); r != nil {
			rs.panicked = true
			rs.panicText = fmt.Sprint(r)
			rs.panicSite = panicSiteFromStack()
			runtime.ReadMemStats(&msAfter)
			rs.alloc = msAfter.TotalAlloc - msBefore.TotalAlloc
		}
		rs.consumed = conn.consumed - c0
		rs.elapsed = time.Since(start)
		rs.hung = conn.hung
		x.c.AddSimSeconds(rs.elapsed.Seconds())
	}()
	runtime.ReadMemStats(&msBefore)
	rs.m, rs.err = p2p.ReadMessage(conn, x.magic(net), timeout, x.factory(net))
	runtime.ReadMemStats(&msAfter)
	rs.alloc = msAfter.TotalAlloc - msBefore.TotalAlloc
	return rs
}

// builtFrame is one message as the honest sender put it on the wire.
type builtFrame struct {
	k       *kind
	v       interface{}
	payload []byte
	frame   []byte
	maxLen  uint32
	cmd     string
	dead    map[string]bool
	deadOK  bool
}

func (x *exec) buildFrame(net, kindName string, seed uint64) (*builtFrame, bool) {
	key := fmt.Sprintf("%s|%s|%d", net, kindName, seed)
	if bf, ok := x.frames[key]; ok {
		return bf, bf != nil
	}
	k := kindByName(kindName)
	if k == nil || k.wrap == nil {
		x.frames[key] = nil
		return nil, false
	}
	x.setDposPV(k)
	v := k.build(newGen(seed))
	m := k.wrap(v, net)
	fr, err := x.writeFrame(net, m)
	if err != nil || len(fr) < hdrLen {
		x.c.Note("WriteMessage failed for %s: %v", kindName, err)
		x.frames[key] = nil
		return nil, false
	}
	bf := &builtFrame{k: k, v: v, payload: fr[hdrLen:], frame: fr, maxLen: m.MaxLength(), cmd: m.CMD()}
	if len(x.frames) > 64 {
		x.frames = map[string]*builtFrame{}
	}
	x.frames[key] = bf
	return bf, true
}

func (x *exec) registered(net string) map[string]bool {
	if m, ok := x.regs[net]; ok {
		return m
	}
	m := registeredCmds(net)
	x.regs[net] = m
	return m
}

// maxLenOf is the limit the protocol declares for a command on a network
// (the message type's MaxLength()).
func (x *exec) maxLenOf(net, cmd string) uint64 {
	key := net + "|" + cmd
	if v, ok := x.maxLens[key]; ok {
		return v
	}
	var max uint64
	for _, k := range catalog {
		if k.cmd != cmd || k.wrap == nil {
			continue
		}
		if (net == "ela" && k.ela) || (net == "dpos" && k.dpos) {
			m := k.wrap(k.build(newGen(1)), net)
			if l := uint64(m.MaxLength()); l > max {
				max = l
			}
		}
	}
	x.maxLens[key] = max
	return max
}

// frameClass is what the protocol definition says about a delivered frame,
// derived from its bytes alone.
type frameClass struct {
	label    string // short-header | wrong-magic | unknown-command | oversize | short-payload | bad-checksum | authentic
	cmd      string
	declared uint32
	max      uint64
}

func (x *exec) classify(net string, b []byte) frameClass {
	if len(b) < hdrLen {
		return frameClass{label: "short-header"}
	}
	fc := frameClass{declared: binary.LittleEndian.Uint32(b[16:20])}
	cmdField := b[p2p.CMDOffset : p2p.CMDOffset+p2p.CMDSize]
	fc.cmd = string(bytes.TrimRight(cmdField, "\x00"))
	if binary.LittleEndian.Uint32(b[0:4]) != x.magic(net) {
		fc.label = "wrong-magic"
		return fc
	}
	// a command is a NUL-terminated name; the field must contain a NUL
	if bytes.IndexByte(cmdField, 0) < 0 || !x.registered(net)[fc.cmd] {
		fc.label = "unknown-command"
		return fc
	}
	fc.max = x.maxLenOf(net, fc.cmd)
	if uint64(fc.declared) > fc.max {
		fc.label = "oversize"
		return fc
	}
	if len(b)-hdrLen < int(fc.declared) {
		fc.label = "short-payload"
		return fc
	}
	sum := common.Sha256D(b[hdrLen : hdrLen+int(fc.declared)])
	if !bytes.Equal(sum[:4], b[20:24]) {
		fc.label = "bad-checksum"
		return fc
	}
	fc.label = "authentic"
	return fc
}

// rejectedAtHeader: the frame must be refused after the 24 header bytes.
func (fc frameClass) rejectedAtHeader() bool {
	return fc.label == "wrong-magic" || fc.label == "unknown-command" || fc.label == "oversize"
}

// waitsForMore: the reader legitimately blocks for bytes that are not there.
func (fc frameClass) waitsForMore() bool {
	return fc.label == "short-header" || fc.label == "short-payload"
}

// expectation of the receiving side for one delivered frame
const (
	expEqual = iota // honest intact frame: must be read back equal
	expError        // must be rejected
	expAny          // authentic frame not written by the honest encoder: value or error, no panic, bounded
)

type delivered struct {
	bf    *builtFrame // nil for raw frames
	cmd   string      // command the sender meant
	kname string
	bytes []byte
	exp   int
	what  string
	fault string
}

// applyFault turns the honest frame into what the link / the peer delivers.
func (x *exec) applyFault(net string, bf *builtFrame, f Frame) []delivered {
	c := x.c
	fr := append([]byte(nil), bf.frame...)
	d := delivered{bf: bf, cmd: bf.cmd, kname: bf.k.name, bytes: fr, exp: expEqual, fault: f.Fault}
	plen := len(bf.payload)
	switch f.Fault {
	case "":
		return []delivered{d}
	case "dup":
		c.Fault("duplicate-frame")
		return []delivered{d, d}
	case "linkflip":
		// link corruption: a payload byte changes, the checksum is stale
		if plen == 0 {
			d.bytes[20+int(f.A%4)] ^= nz(f.M)
			d.what = "checksum byte flipped (empty payload)"
		} else {
			d.bytes[hdrLen+int(f.A%uint32(plen))] ^= nz(f.M)
			d.what = fmt.Sprintf("payload byte %d flipped, checksum stale", f.A%uint32(plen))
		}
		c.Fault("corrupt-link-stale-checksum")
	case "byzflip":
		if plen == 0 {
			return []delivered{d}
		}
		p := append([]byte(nil), bf.payload...)
		p[int(f.A%uint32(plen))] ^= nz(f.M)
		d.bytes = peerFrame(x.magic(net), bf.cmd, p)
		d.what = fmt.Sprintf("payload byte %d changed by the peer, checksum recomputed", f.A%uint32(plen))
		c.Fault("corrupt-byzantine-checksum-recomputed")
	case "hdrflip":
		pos := int(f.A % hdrLen)
		d.bytes[pos] ^= nz(f.M)
		d.what = fmt.Sprintf("header byte %d xor %#x", pos, nz(f.M))
		c.Fault("corrupt-header-byte")
	case "declen":
		v := uint32(f.V)
		if v == uint32(plen) {
			v++
		}
		binary.LittleEndian.PutUint32(d.bytes[16:20], v)
		d.what = fmt.Sprintf("declared length %d, actual %d", v, plen)
		c.Fault("declared-length-mismatch")
	case "oversize":
		// an authentic frame (correct checksum) whose payload exceeds the command's maximum
		extra := int(f.A%64) + 1
		if bf.maxLen > 1<<20 {
			// too large to materialise cheaply: declared only
			binary.LittleEndian.PutUint32(d.bytes[16:20], bf.maxLen+uint32(extra))
			d.what = "declared length above the command's maximum"
		} else {
			p := append(append([]byte(nil), bf.payload...), make([]byte, int(bf.maxLen)+extra-plen)...)
			d.bytes = peerFrame(x.magic(net), bf.cmd, p)
			d.what = fmt.Sprintf("authentic frame, payload %d bytes, command maximum %d", len(p), bf.maxLen)
		}
		c.Fault("oversize-for-command")
	case "magic":
		binary.LittleEndian.PutUint32(d.bytes[0:4], x.magic(net)^(uint32(nz(f.M))<<(8*(f.A%4))))
		d.what = "wrong network magic"
		c.Fault("wrong-magic")
	case "unkcmd":
		cmd := fmt.Sprintf("x%s%d", bf.cmd, f.A%10)
		if len(cmd) > 11 {
			cmd = cmd[:11]
		}
		d.bytes = peerFrame(x.magic(net), cmd, bf.payload)
		d.what = "unknown command " + cmd
		c.Fault("unknown-command")
	default:
		return []delivered{d}
	}
	d.exp = expError // refined from the delivered bytes by the caller
	return []delivered{d}
}

func nz(m byte) byte {
	if m == 0 {
		return 1
	}
	return m
}

func (x *exec) timeout(st *Step) time.Duration {
	if st.TimeoutS > 0 {
		return time.Duration(st.TimeoutS) * time.Second
	}
	return p2p.ReadMessageTimeOut
}

func (x *exec) carried(net string, k *kind) bool {
	return (net == "ela" && k.ela) || (net == "dpos" && k.dpos)
}

// session: one simulated connection. The honest peer's frames pass through
// the faulty link; the real reader consumes them one ReadMessage at a time,
// as Peer.inHandler does, until the first error (after which a node
// disconnects the peer).
func (x *exec) session(st *Step) { x.runSession(st, false) }

func (x *exec) runSession(st *Step, quiet bool) {
	c := x.c
	net := st.Net
	if net == "" {
		net = "ela"
	}
	var dl []delivered
	frames := append([]Frame(nil), st.Frames...)
	stallLast := false
	for i := 0; i < len(frames); i++ {
		f := frames[i]
		if f.Fault == "swap" {
			if i+1 < len(frames) {
				frames[i], frames[i+1] = frames[i+1], f
				frames[i+1].Fault = ""
				c.Fault("reorder-frames")
				f = frames[i]
			} else {
				f.Fault = ""
			}
		}
		bf, ok := x.buildFrame(net, f.Kind, f.Seed)
		if !ok {
			continue
		}
		if !x.carried(net, bf.k) {
			// a defined message type this network's receiving table does not carry
			c.Fault("command-not-carried-by-network")
			dl = append(dl, delivered{bf: bf, cmd: bf.cmd, kname: bf.k.name, bytes: bf.frame, exp: expError, fault: "unreg", what: "command not carried by this network"})
			continue
		}
		if f.Fault == "trunc" {
			cut := int(f.A % uint32(len(bf.frame)))
			dl = append(dl, delivered{bf: bf, cmd: bf.cmd, kname: bf.k.name, bytes: bf.frame[:cut], exp: expError, fault: "trunc",
				what: fmt.Sprintf("peer died after %d of %d bytes", cut, len(bf.frame))})
			c.Fault("truncate-mid-frame")
			break // nothing follows a dead peer
		}
		if f.Fault == "stall" {
			dl = append(dl, delivered{bf: bf, cmd: bf.cmd, kname: bf.k.name, bytes: bf.frame, exp: expError, fault: "stall", what: "peer pauses mid-frame past the read deadline"})
			stallLast = true
			break
		}
		dl = append(dl, x.applyFault(net, bf, f)...)
	}
	if len(dl) == 0 {
		return
	}
	var stream []byte
	starts := make([]int, len(dl)+1)
	for i, d := range dl {
		starts[i] = len(stream)
		stream = append(stream, d.bytes...)
	}
	starts[len(dl)] = len(stream)
	script := st.Link.deliver(stream)
	timeout := x.timeout(st)
	if stallLast {
		last := dl[len(dl)-1]
		cutAt := starts[len(dl)-1] + int(uint32(len(last.bytes))*3/5)
		script = stallAt(script, cutAt, timeout+time.Duration(1+len(last.bytes)%7)*time.Second)
		c.Fault("stall-past-deadline")
	}
	if len(st.Link.Frag) > 0 && len(script) > len(dl) {
		c.Fault("fragment")
	}
	if totalDelay(script) > 0 {
		c.Fault("delay")
	}
	end := endKind(st.Link.End)
	conn := &simConn{script: script, end: end}
	if !x.sampled {
		x.sampled = true
		c.SetSample(map[string]interface{}{"op": "session", "net": net, "frames": st.Frames, "link": st.Link, "stream_bytes": len(stream), "chunks": len(script)})
	}
	// chunk start offsets, for the delay a read has to sit through
	chunkStart := make([]int, len(script))
	pos := 0
	for i, ch := range script {
		chunkStart[i] = pos
		pos += len(ch.data)
	}
	// delayFor: total delay of the chunks that begin inside [from, from+need):
	// what the reader waits for while it collects those bytes (a chunk that
	// began earlier was already waited for by the previous read)
	delayFor := func(from, need int) time.Duration {
		var d time.Duration
		for i, ch := range script {
			if chunkStart[i] >= from && chunkStart[i] < from+need {
				d += ch.delay
			}
		}
		return d
	}
	nread := 0
	for i, d := range dl {
		fc := x.classify(net, d.bytes)
		exp := d.exp
		if exp != expEqual {
			if fc.label == "authentic" {
				exp = expAny
			} else {
				exp = expError
			}
		} else if fc.label != "authentic" {
			panic(fmt.Sprintf("wiresim: honest frame of %s classified %s", d.kname, fc.label))
		}
		// bytes of this frame the reader needs before it can decide
		need := len(d.bytes)
		switch {
		case fc.rejectedAtHeader():
			need = hdrLen
		case fc.label == "bad-checksum" || fc.label == "authentic":
			need = hdrLen + int(fc.declared)
		}
		mustTimeout := false
		switch {
		case need > 0 && delayFor(starts[i], need) >= timeout:
			// the link is slower than the read deadline: the read must end there
			exp, mustTimeout = expError, true
			d.what += " (delivery slower than the read deadline)"
		case i == len(dl)-1 && fc.waitsForMore() && end == endStall:
			mustTimeout = true
		}
		if d.bf != nil {
			x.setDposPV(d.bf.k) // sender and receiver share the negotiated DPoS payload version
		}
		if fc.label == "oversize" && fc.declared > hugeDeclared && !x.hugeDeclaredSafe() {
			// a reader that does not refuse oversize frames would allocate the
			// declared gigabytes; that defect is already reported by the canary
			c.Probe("huge-declared-length-delivery-skipped-after-oversize-violation")
			break
		}
		rs := x.readOne(net, conn, timeout)
		nread++
		if x.judgeRead(net, st, d, fc, exp, mustTimeout, timeout, rs, i) {
			break
		}
	}
	if !quiet {
		c.Logf("session net=%s frames=%d stream=%d chunks=%d messages=%d reads=%d consumed=%d", net, len(dl), len(stream), len(script), nread, conn.reads, conn.consumed)
	}
}

const hugeDeclared = 32 << 20

// hugeDeclaredSafe: before the first frame declaring more than 32 MiB above
// its command's maximum is delivered in a run, a canary is: an authentic ping
// one byte longer than a ping may be. A receiver that accepts or reads it does
// not enforce the per-command limit (reported as a violation by the canary's
// own session); frames declaring gigabytes are then withheld from it, because
// allocating them would take the worker process down instead of yielding a
// verdict.
func (x *exec) hugeDeclaredSafe() bool {
	if x.canary == 0 {
		before := x.c.NumViolations()
		x.canary = 1
		x.runSession(&Step{Op: "session", Net: "ela", Link: link{End: int(endEOF)},
			Frames: []Frame{{Kind: "p2p/ping", Seed: 1, Fault: "oversize", A: 0}}}, true)
		if x.c.NumViolations() > before {
			x.canary = 2
		}
	}
	return x.canary == 1
}

// stallAt inserts a pause before stream offset off.
func stallAt(script []chunk, off int, pause time.Duration) []chunk {
	var out []chunk
	pos := 0
	done := false
	for _, ch := range script {
		if !done && off >= pos && off < pos+len(ch.data) {
			cut := off - pos
			if cut > 0 {
				out = append(out, chunk{data: ch.data[:cut], delay: ch.delay})
				out = append(out, chunk{data: ch.data[cut:], delay: pause})
			} else {
				out = append(out, chunk{data: ch.data, delay: ch.delay + pause})
			}
			done = true
		} else {
			out = append(out, ch)
		}
		pos += len(ch.data)
	}
	return out
}

func isTimeout(err error) bool { return errors.Is(err, os.ErrDeadlineExceeded) }

// judgeRead applies the C35 (and, for panics, C02) oracles to one
// ReadMessage. It returns true when the session is over. The replay of a
// finding is the session step itself.
func (x *exec) judgeRead(net string, st *Step, d delivered, fc frameClass, exp int, mustTimeout bool, timeout time.Duration, rs readStats, idx int) bool {
	c := x.c
	fam := net + "/" + d.cmd
	replay := *st
	c.Check()
	if rs.panicked {
		x.violateRaw("C02", "decode-never-panics", "C02/panic/"+rs.panicSite+"/"+panicClass(rs.panicText), replay,
			"ReadMessage panicked at %s: %s (%s frame %d: %s)", rs.panicSite, rs.panicText, fam, idx, d.what)
		return true
	}
	c.Check()
	if rs.hung {
		x.violateRaw("C35", "read-ends-at-deadline", "C35/read-blocks-without-deadline", replay,
			"ReadMessage blocked on a silent peer with no read deadline in force (%s frame %d: %s)", fam, idx, d.what)
		return true
	}
	switch exp {
	case expEqual:
		c.Check()
		if rs.err != nil {
			x.violateRaw("C35", "intact-frame-read-back-equal", "C35/intact-frame-rejected/"+fam, replay,
				"an intact %s frame (frame %d of the session, %d bytes, kind %s) was rejected: %v", fam, idx, len(d.bytes), d.kname, rs.err)
			return true
		}
		x.checkEqualMessage(net, d, rs, replay)
		c.Probe("cmd-read-back:" + net + "/" + d.cmd)
		return false
	case expError:
		c.Check()
		if rs.err == nil && mustTimeout && !fc.waitsForMore() && fc.label == "authentic" {
			x.violateRaw("C35", "read-ends-at-deadline", "C35/read-completed-after-its-deadline/"+fam, replay,
				"the link delivered a %s frame more slowly than the read deadline of %v allows (%s), yet ReadMessage returned a %T after %v", fam, timeout, d.what, rs.m, rs.elapsed)
			return true
		}
		if rs.err == nil {
			x.violateRaw("C35", "malformed-frame-rejected", "C35/"+fc.label+"-frame-accepted/"+fam, replay,
				"ReadMessage accepted a %s frame that is %s (%s) and returned a %T", fam, fc.label, d.what, rs.m)
			return true
		}
		// bytes consumed and memory allocated before the rejection
		maxConsume := hdrLen + int(fc.declared)
		limit := fc.max + 64<<10
		switch {
		case fc.rejectedAtHeader():
			maxConsume, limit = hdrLen, 64<<10
		case fc.label == "short-header":
			maxConsume = len(d.bytes)
		}
		c.Check()
		if rs.consumed > maxConsume {
			x.violateRaw("C35", "bounded-before-rejection", "C35/"+fc.label+"-rejection-consumes-beyond-limit/"+fam, replay,
				"ReadMessage consumed %d bytes before rejecting a %s frame that is %s (%s); at most %d expected", rs.consumed, fam, fc.label, d.what, maxConsume)
		}
		c.Check()
		if rs.alloc > limit {
			x.violateRaw("C35", "bounded-before-rejection", "C35/"+fc.label+"-rejection-allocates-beyond-declared-limit/"+fam, replay,
				"ReadMessage allocated %d bytes before rejecting a %s frame that is %s (%s); declared limit of the command %d", rs.alloc, fam, fc.label, d.what, fc.max)
		}
		if mustTimeout {
			c.Check()
			if !isTimeout(rs.err) || rs.elapsed != timeout {
				x.violateRaw("C35", "read-ends-at-deadline", "C35/stalled-read-not-ended-at-deadline/"+fam, replay,
					"peer went silent (%s): ReadMessage returned %q after %v of simulated time; the read deadline is %v", d.what, fmt.Sprint(rs.err), rs.elapsed, timeout)
			}
			c.Probe("read-failed-at-deadline")
		}
		c.Probe("rejected:" + fc.label)
		return true
	default: // expAny
		c.Check()
		if rs.alloc > uint64(fc.max)+allocBound(len(d.bytes)) {
			x.violateRaw("C02", "alloc-bounded-by-input", "C02/overalloc/ReadMessage/"+fam, replay,
				"ReadMessage allocated %d bytes for an authentic %d-byte %s frame (%s)", rs.alloc, len(d.bytes), fam, d.what)
		}
		if rs.err != nil {
			c.Probe("authentic-corrupted-frame-rejected-by-decoder")
			return true
		}
		c.Check()
		if got := rs.m.CMD(); got != fc.cmd {
			x.violateRaw("C35", "message-matches-header", "C35/message-not-the-one-the-header-names/"+fam, replay,
				"header names %q but ReadMessage returned a %q message (%s)", fc.cmd, got, d.what)
		}
		if fc.cmd != d.cmd {
			c.Probe("command-flip-to-registered-command-accepted")
		} else {
			c.Probe("decoder-reached-with-corrupted-payload")
		}
		return false
	}
}

// checkEqualMessage: the message read is the message written.
func (x *exec) checkEqualMessage(net string, d delivered, rs readStats, replay Step) {
	c := x.c
	fam := net + "/" + d.bf.cmd
	c.Check()
	if rs.m.CMD() != d.bf.cmd {
		x.violateRaw("C35", "intact-frame-read-back-equal", "C35/read-back-command-differs/"+fam, replay,
			"sent %q, read %q", d.bf.cmd, rs.m.CMD())
		return
	}
	buf := new(bytes.Buffer)
	x.setDposPV(d.bf.k)
	err := rs.m.Serialize(buf)
	c.Check()
	if err != nil || !bytes.Equal(buf.Bytes(), d.bf.payload) {
		x.violateRaw("C35", "intact-frame-read-back-equal", "C35/read-back-message-reserializes-differently/"+fam, replay,
			"%s: the message read back serializes to %s, sent payload %s (err=%v)", d.bf.k.name, hexShort(buf.Bytes(), 120), hexShort(d.bf.payload, 120), err)
		return
	}
	if d.bf.k.unwrap == nil {
		return
	}
	got := d.bf.k.unwrap(rs.m)
	prop := "C35"
	if d.bf.k.class == "tx" || d.bf.k.class == "block" {
		prop = "C04"
	}
	c.Check()
	if p, same := valueDiff(d.bf.v, got, x.deadOf(d.bf)); !same {
		x.violateRaw(prop, "value-equal-after-transport", prop+"/field-differs-after-wire-transport/"+fieldFamily(d.bf.k, p)+"/"+stripIdx(p), replay,
			"%s: field %s differs between the value sent and the value read from the connection", d.bf.k.name, p)
	}
	if d.bf.k.hash != nil {
		h0, _ := d.bf.k.hash(d.bf.v)
		h1, _ := d.bf.k.hash(got)
		c.Check()
		if !bytes.Equal(h0, h1) {
			x.violateRaw("C04", "hash-equal", "C04/hash-differs-after-wire-transport/"+d.bf.k.name, replay,
				"%s: hash %x sent, %x read from the connection", d.bf.k.name, h0, h1)
		}
	}
}

// deadOf: fields of the sent value that are not on the wire (see deadFields).
func (x *exec) deadOf(bf *builtFrame) map[string]bool {
	if !bf.deadOK {
		bf.deadOK = true
		x.setDposPV(bf.k)
		bf.dead = deadFields(bf.k, bf.payload)
	}
	return bf.dead
}

// ---------------------------------------------------------------------------
// enumerations inside one run: each delivery is its own one-frame session

// hdrEnum: every single-byte corruption of the 24-byte header (24 x 255
// deliveries of one frame); the peer is silent or gone afterwards.
func (x *exec) hdrEnum(st *Step) {
	c := x.c
	bf, ok := x.buildFrame(st.Net, st.Kind, st.Seed)
	if !ok || !x.carried(st.Net, bf.k) {
		return
	}
	n := 0
	for pos := 0; pos < hdrLen; pos++ {
		for delta := 1; delta < 256; delta++ {
			lk := st.Link
			lk.End = int(endStall)
			if (pos+delta+st.EndKind)%2 == 0 {
				lk.End = int(endEOF)
			}
			x.runSession(&Step{Op: "session", Net: st.Net, TimeoutS: st.TimeoutS, Link: lk,
				Frames: []Frame{{Kind: st.Kind, Seed: st.Seed, Fault: "hdrflip", A: uint32(pos), M: byte(delta)}}}, true)
			n++
		}
	}
	c.ProbeN("header-corruptions-enumerated", n)
	c.Probe("header-enumeration-complete")
	c.Logf("hdrenum kind=%s net=%s n=%d", st.Kind, st.Net, n)
}

// truncEnum: the frame cut at every offset (stride-sampled above 4 KiB); the
// peer is then dead (EOF / reset) or silent (the read must end exactly at the
// deadline of the simulated clock).
func (x *exec) truncEnum(st *Step) {
	c := x.c
	bf, ok := x.buildFrame(st.Net, st.Kind, st.Seed)
	if !ok || !x.carried(st.Net, bf.k) {
		return
	}
	stride := 1
	if len(bf.frame) > 4096 {
		stride = st.Stride
		if stride < 2 {
			stride = 7
		}
		c.Probe("truncation-offsets-sampled-large-frame")
	} else {
		c.Probe("truncation-offsets-fully-enumerated")
	}
	n := 0
	for cut := 0; cut < len(bf.frame); cut += stride {
		for _, end := range []endKind{endEOF, endStall, endReset} {
			if end == endReset && (cut+st.EndKind)%5 != 0 {
				continue
			}
			lk := st.Link
			lk.End = int(end)
			x.runSession(&Step{Op: "session", Net: st.Net, TimeoutS: st.TimeoutS, Link: lk,
				Frames: []Frame{{Kind: st.Kind, Seed: st.Seed, Fault: "trunc", A: uint32(cut)}}}, true)
			n++
		}
	}
	c.ProbeN("truncation-deliveries", n)
	c.Logf("truncenum kind=%s net=%s len=%d n=%d", st.Kind, st.Net, len(bf.frame), n)
}

// decLen: the declared length rewritten to every boundary value.
func (x *exec) decLen(st *Step) {
	c := x.c
	bf, ok := x.buildFrame(st.Net, st.Kind, st.Seed)
	if !ok || !x.carried(st.Net, bf.k) {
		return
	}
	actual := uint64(len(bf.payload))
	vals := append([]uint64{}, boundaryValues...)
	vals = append(vals, actual+1, uint64(bf.maxLen), uint64(bf.maxLen)+1, 0x7fffffff, 0x80000000)
	if actual > 0 {
		vals = append(vals, actual-1)
	}
	n := 0
	for i, v := range vals {
		if v > 0xffffffff || v == actual {
			continue
		}
		lk := st.Link
		lk.End = int(endStall)
		if (i+st.EndKind)%2 == 0 {
			lk.End = int(endEOF)
		}
		x.runSession(&Step{Op: "session", Net: st.Net, TimeoutS: st.TimeoutS, Link: lk,
			Frames: []Frame{{Kind: st.Kind, Seed: st.Seed, Fault: "declen", V: v}}}, true)
		n++
	}
	c.ProbeN("declared-length-deliveries", n)
	c.Logf("declen kind=%s net=%s n=%d", st.Kind, st.Net, n)
}

// rawFrame delivers exactly these bytes on one connection: what a Byzantine
// peer sends (deep steps), and the replay form of such a finding. What the
// receiver owes is decided from the bytes alone (classify).
func (x *exec) rawFrame(st *Step) {
	b, err := hexDecode(st.Hex)
	if err != nil {
		return
	}
	x.c.Fault("raw-input")
	x.deliverRaw(st.Net, b, st.Link, st.TimeoutS, "raw frame")
}

func (x *exec) deliverRaw(net string, frame []byte, lk link, timeoutS int64, what string) readStats {
	if net == "" {
		net = "ela"
	}
	st := &Step{Op: "rawframe", Net: net, Hex: hexEncode(frame), Link: lk, TimeoutS: timeoutS}
	fc := x.classify(net, frame)
	exp := expError
	if fc.label == "authentic" {
		exp = expAny
	}
	script := lk.deliver(frame)
	if len(lk.Frag) > 0 && len(script) > 1 {
		x.c.Fault("fragment")
	}
	if totalDelay(script) > 0 {
		x.c.Fault("delay")
	}
	conn := &simConn{script: script, end: endKind(lk.End)}
	timeout := x.timeout(st)
	need := len(frame)
	switch {
	case fc.rejectedAtHeader():
		need = hdrLen
	case fc.label == "bad-checksum" || fc.label == "authentic":
		need = hdrLen + int(fc.declared)
	}
	var wait time.Duration
	for i, pos := 0, 0; i < len(script); i++ {
		if pos < need {
			wait += script[i].delay
		}
		pos += len(script[i].data)
	}
	mustTimeout := fc.waitsForMore() && endKind(lk.End) == endStall
	if need > 0 && wait >= timeout {
		exp, mustTimeout = expError, true
	}
	rs := x.readOne(net, conn, timeout)
	d := delivered{cmd: fc.cmd, kname: "raw", bytes: frame, exp: exp, what: what, fault: "raw"}
	x.judgeRead(net, st, d, fc, exp, mustTimeout, timeout, rs, 0)
	return rs
}
